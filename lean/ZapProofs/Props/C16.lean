/-
  C16 (vector search ignores cache history; indexes live exactly as long as used).

  MODEL.  `VecSearch.HCache` is `VCache` (ZapModel.Vector, the state the differential driver
  steps with `open` / `closeHandle` / `tick` / `clear` and checks with `tickLegal`) plus ghost
  data: every entry carries its creation number `gen` (= identity of the engine index) and
  the id table built by the creating call; every open handle remembers the engine index, the
  table and the exclusion list its closures captured.  `toVCache_step` (VecLemmas) says that
  forgetting the ghost data commutes with every event, so every statement below about
  `s.toVCache` is a statement about the driver's `VCache`.

  HISTORIES.  `run S {} evs = some s`: the events `evs`, each legal when it happens, lead from
  the empty cache to `s`.  Legal (`HCache.legal`):
    open f ex   only while the segment is not closed;
    close h     only for a handle that was opened and not yet closed (`h ∈ s.handles`);
    tick ev     only if `VCache.tickLegal` (every evicted field is cached with refs ≤ 0);
    clear       once.
  All theorems quantify over ALL such histories (any length, any fields, any except lists).

  NOT MODELLED / ASSUMED
  * eviction TIMING (the EWMA in floats of `cleanup`): a tick may evict any set of fields
    with refs ≤ 0.  The harness reports what the real tick evicted, the driver checks
    `tickLegal` and these theorems say what legality implies;
  * atomicity: an event is one atomic step (the lock discipline of `vectorIndexCache.m` is
    C11's lockset theorem); `entry.close()` running in its own goroutine is one release;
  * `Clear` with handles still open is legal in the model (as in the code: it force-closes
    every index).  That no searcher holds a handle at segment close is the caller's
    obligation (segment reference count, C20); `C16_not_released_while_open` covers ticks,
    and `C16_not_released_while_open_ghost` covers every history in which the segment is
    still open;
  * fields without a vector section never touch the cache and are not events.
-/
import ZapProofs.VecLemmas

namespace Zap.C16
open Zap Zap.VecSearch Zap.VecL

/-- `refs` of every cached entry = number of open handles of its field (all of them were
    obtained since the entry was created, `C16_handle_entry_cached`), in particular ≥ 0;
    and a field is cached at most once. -/
theorem C16_refs_eq_open_handles (S : Setup) (evs : List Ev) (s : HCache)
    (h : run S {} evs = some s) :
    (∀ e ∈ s.toVCache.entries, e.refs = (s.openHandles e.field : Int) ∧ 0 ≤ e.refs) ∧
    (s.toVCache.entries.map (·.field)).Nodup := by
  have hi := inv_run S evs {} s inv_init h
  constructor
  · intro e he
    simp only [HCache.toVCache, List.mem_map] at he
    obtain ⟨e', he', rfl⟩ := he
    have := hi.refsEq e' he'
    exact ⟨this, by simp only [this]; omega⟩
  · have : s.toVCache.entries.map (·.field) = s.entries.map (·.field) := by
      simp [HCache.toVCache, List.map_map, Function.comp_def]
    rw [this]; exact hi.fieldsNodup

/-- while the segment is open, the entry a handle was obtained from is still the cached
    entry of its field: same engine index (`gen`), same table -/
theorem C16_handle_entry_cached (S : Setup) (evs : List Ev) (s : HCache)
    (h : run S {} evs = some s) (hc : s.closed = false) (hd : Handle) (hh : hd ∈ s.handles) :
    ∃ e ∈ s.entries, e.field = hd.field ∧ e.gen = hd.gen ∧ e.vmap = hd.vmap :=
  (inv_run S evs {} s inv_init h).handleEntry hc hd hh

/-- a legal tick never evicts a field with an open handle: every evicted field has no open
    handle, and every entry with an open handle survives the tick unchanged -/
theorem C16_not_released_while_open (S : Setup) (evs : List Ev) (s : HCache)
    (h : run S {} evs = some s) (ev : List Name) (hl : s.toVCache.tickLegal ev = true) :
    (∀ f ∈ ev, s.openHandles f = 0) ∧
    (∀ e ∈ s.toVCache.entries, 0 < s.openHandles e.field → e ∈ (s.toVCache.tick ev).entries) ∧
    (∀ hd ∈ s.handles, hd.gen ∉ s.releasedBy (.tick ev)) := by
  have hi := inv_run S evs {} s inv_init h
  refine ⟨?_, ?_, ?_⟩
  · intro f hf
    obtain ⟨e, he, h1, h2⟩ := (tickLegal_iff s ev).1 hl f hf
    have := hi.refsEq e he
    rw [h1] at this
    omega
  · intro e he hpos
    simp only [HCache.toVCache, List.mem_map] at he
    obtain ⟨e', he', rfl⟩ := he
    have hk := tick_keeps_open s ev hi hl e' he' hpos
    simp only [VCache.tick, HCache.toVCache, List.mem_filter, List.mem_map]
    exact ⟨⟨e', he', rfl⟩, by simpa using hk⟩
  · intro hd hh hmem
    simp only [HCache.releasedBy, List.mem_map, List.mem_filter] at hmem
    obtain ⟨e, ⟨he, hev⟩, hg⟩ := hmem
    have hclosed : s.closed = false := by
      cases hc : s.closed with
      | false => rfl
      | true => rw [hi.closedEmpty hc] at he; cases he
    obtain ⟨e', he', h1, h2, _⟩ := hi.handleEntry hclosed hd hh
    have hee : e = e' :=
      unique_of_nodup_map (·.gen) (List.nodup_append.1 hi.allNodup).2.1 he he' (hg.trans h2.symm)
    subst hee
    have hpos : 0 < s.openHandles e.field := by
      simp only [HCache.openHandles]
      apply List.length_pos_of_mem (a := hd)
      exact List.mem_filter.2 ⟨hh, by simpa using h1.symm⟩
    exact tick_keeps_open s ev hi hl e he hpos (by simpa using hev)

/-- ghost form, every history: while the segment is open, the engine index captured by an
    open handle has not been released -/
theorem C16_not_released_while_open_ghost (S : Setup) (evs : List Ev) (s : HCache)
    (h : run S {} evs = some s) (hc : s.closed = false) (hd : Handle) (hh : hd ∈ s.handles) :
    hd.gen ∉ s.released := by
  have hi := inv_run S evs {} s inv_init h
  obtain ⟨e, he, _, h2, _⟩ := hi.handleEntry hc hd hh
  intro hmem
  exact (List.nodup_append.1 hi.allNodup).2.2 _ hmem _ (List.mem_map.2 ⟨e, he, rfl⟩) h2.symm

/-- `created = released + live`, for EVERY event sequence on the plain `VCache` (legal or
    not), and after `clear`: nothing live, everything created was released -/
theorem C16_released_exactly_once (evs : List Ev) :
    let c := evs.foldl vstep ({} : VCache)
    c.created = c.released + c.live ∧
    c.clear.live = 0 ∧ c.clear.released = c.clear.created := by
  have h := vcount_foldl evs ({} : VCache) (by simp [VCache.live])
  refine ⟨h, by simp [VCache.clear, VCache.live], ?_⟩
  simp only [VCache.clear, VCache.live] at h ⊢
  omega

/-- ghost form for legal histories: the released engine indexes are pairwise different (none
    is released twice), every index ever created is either released or live and not both;
    once the segment is closed none is live and all are released -/
theorem C16_released_exactly_once_ghost (S : Setup) (evs : List Ev) (s : HCache)
    (h : run S {} evs = some s) :
    s.released.Nodup ∧
    (∀ g, g < s.created ↔ (g ∈ s.released ∨ g ∈ s.entries.map (·.gen))) ∧
    (∀ g, ¬ (g ∈ s.released ∧ g ∈ s.entries.map (·.gen))) ∧
    s.toVCache.created = s.toVCache.released + s.toVCache.live ∧
    s.toVCache = evs.foldl vstep {} ∧
    (s.closed = true → s.toVCache.live = 0 ∧ s.toVCache.released = s.toVCache.created ∧
        ∀ g, g < s.created → g ∈ s.released) := by
  have hi := inv_run S evs {} s inv_init h
  have hnd := List.nodup_append.1 hi.allNodup
  have hcount := inv_count s hi
  refine ⟨hnd.1, ?_, ?_, ?_, ?_, ?_⟩
  · intro g
    exact ⟨fun hg => List.mem_append.1 (hi.cover g hg), fun hg => hi.allLt g (List.mem_append.2 hg)⟩
  · intro g ⟨h1, h2⟩; exact hnd.2.2 g h1 g h2 rfl
  · simp only [HCache.toVCache, VCache.live, List.length_map]; exact hcount
  · simpa [HCache.toVCache] using run_toVCache S evs {} s h
  · intro hc
    have he := hi.closedEmpty hc
    simp only [HCache.toVCache, VCache.live, List.length_map, he, List.length_nil] at hcount ⊢
    refine ⟨trivial, by omega, ?_⟩
    intro g hg
    simpa [he] using hi.cover g hg

/-- the table a cache miss builds does not depend on the creating call's `except` (after the
    fix of D5) -/
theorem C16_cached_map_independent (seg : Name → Content) (c : Content) (ex ex' : List Nat) :
    (Setup.fixed seg).mkMap c ex = (Setup.fixed seg).mkMap c ex' := rfl

/-- With the complete table, in EVERY history every cached entry holds the complete table of
    its field and a search through any open handle is `search` / `searchWithFilter` of
    Part A (C14) on (content, q, k, eligible, the handle's own `except`): a function of these
    only - not of earlier opens with other except lists, not of evictions and reloads. -/
theorem C16_result_history_independent (seg : Name → Content) (evs : List Ev) (s : HCache)
    (h : run (Setup.fixed seg) {} evs = some s) :
    (∀ e ∈ s.entries, e.vmap = vecDocIDMap (seg e.field)) ∧
    ∀ hd ∈ s.handles, ∀ (E : Engine) (dim metric numDocs : Nat) (q : List Int) (k : Nat) (eligible : List Nat),
      hd.search E dim q k = search E ⟨dim, metric, seg hd.field⟩ q k hd.ex ∧
      hd.searchWithFilter E dim numDocs q k eligible =
        searchWithFilter E ⟨dim, metric, seg hd.field⟩ numDocs q k hd.ex eligible := by
  have hm := mapsOK_run seg evs {} s (mapsOK_init seg) h
  refine ⟨hm.entries, ?_⟩
  intro hd hh E dim metric numDocs q k eligible
  obtain ⟨h1, h2⟩ := hm.handles hd hh
  simp only [Handle.search, Handle.searchWithFilter, search, searchWithFilter, h1, h2, and_self]

/-! ### The defect (D5) as a counterexample, and non-vacuity -/

def fX : Name := [120]
/-- two documents with one vector each -/
def ixX : VIndex := { dim := 1, metric := 0, content := [(0, 0, [0]), (1, 1, [5])] }
def segX : Name → Content := fun _ => ixX.content

/-- first caller excludes doc 0, closes; second caller excludes nothing -/
def histX (S : Setup) : Option HCache :=
  match run S {} [.open fX [0]] with
  | some s1 =>
    match s1.handles with
    | h1 :: _ => run S s1 [.close h1, .open fX []]
    | [] => none
  | none => none

def resultX (S : Setup) : Option (List VHit) :=
  (histX S).bind (fun s => s.handles.getLast?.map (fun h => h.search (refEngine ixX) 1 [0] 2))

/-- BEFORE the fix: the table cached under `ex1 = [0]` lacks doc 0's vector; the later search
    with `ex2 = []` gets that vector from the engine and drops it as "unknown id" -/
theorem C16_first_except_counterexample :
    resultX (Setup.defect segX) = some [⟨1, 25⟩] ∧
    search (refEngine ixX) ixX [0] 2 [] = [⟨0, 0⟩, ⟨1, 25⟩] ∧
    resultX (Setup.fixed segX) = some [⟨0, 0⟩, ⟨1, 25⟩] := by decide

/-- a legal history with a hit, an illegal eviction refused, a legal one, a reload and clear -/
def histY : List Ev :=
  [.open fX [0], .open fX [], .tick [], .close ⟨fX, 0, [0], vecDocIDMap ixX.content, [0]⟩,
   .close ⟨fX, 0, [], vecDocIDMap ixX.content, []⟩, .tick [fX], .open fX [1], .clear]

example : (run (Setup.fixed segX) {} histY).map (fun s => (s.toVCache, s.released, s.handles.length)) =
    some ({ entries := [], closed := true, created := 2, released := 2 }, [0, 1], 1) := by decide

/-- evicting a field whose handle is still open is not legal -/
example : run (Setup.fixed segX) {} [.open fX [], .tick [fX]] = none := by decide

/-- refs counts handles -/
example : (run (Setup.fixed segX) {} [.open fX [], .open fX [0]]).map (fun s => s.toVCache.entries) =
    some [⟨fX, 2⟩] := by decide

/-- why `open` is legal only while the segment is not closed: a handle that outlives `Clear`
    followed by a re-open would be counted against the new entry (refs 1, two open handles).
    `run` refuses that history; the code would panic on the nil cache map. -/
example :
    let s := ((({} : HCache).step (Setup.fixed segX) (.open fX [])).step (Setup.fixed segX) .clear).step
      (Setup.fixed segX) (.open fX [])
    s.toVCache.entries = [⟨fX, 1⟩] ∧ s.openHandles fX = 2 ∧
    run (Setup.fixed segX) {} [.open fX [], .clear, .open fX []] = none := by decide

section Report
#print axioms C16_refs_eq_open_handles
#print axioms C16_handle_entry_cached
#print axioms C16_not_released_while_open
#print axioms C16_not_released_while_open_ghost
#print axioms C16_released_exactly_once
#print axioms C16_released_exactly_once_ghost
#print axioms C16_cached_map_independent
#print axioms C16_result_history_independent
#print axioms C16_first_except_counterexample
end Report

end Zap.C16
