/-
  C01 (shared backing arrays): the builder's `freqNormsBacking` / `locsBacking`, carved by the
  count pass of `realloc` into per-postings-list windows whose capacity runs to the END of the
  array, and filled by `process`, hold for every (field, term) exactly the entries of the
  entry-level model `processDocs` (which `C01_entries` ties to the specification).

  Property theorems only; the model is ZapModel/BuildArrays.lean, lemmas are in
  ZapProofs/ArraysLemmas1-4.lean.
-/
import ZapProofs.ArraysLemmas4
import ZapProofs.Props.C01Build

namespace Zap
open Zap.Arr

/-- REFINEMENT: on a fresh opaque, what `writeDicts` reads back from the shared arrays for
    (field id, term) is what the entry-level model holds (as association-list content; the array
    model lists terms in `sort.Strings` order, `processDocs` in first-commit order). -/
theorem C01_arrays_refine (vectors : Bool) (b : Batch) (hwf : Spec.WF b) :
    ∀ fid term, lookup term ((buildDictsArrays vectors b).getD fid []) =
      lookup term ((processDocs vectors (fieldTable b) b).getD fid []) :=
  fun fid term => arrays_refine_from [] [] vectors b (fun d hd => hwf.termsDistinct d hd) fid term

/-- the same on a REUSED opaque: the old arrays (any content, any capacity) are resliced when large
    enough, so windows start with stale cells and the capacity can exceed the new total -/
theorem C01_arrays_refine_reused (staleFN : List FN) (staleLoc : List MLoc) (vectors : Bool) (b : Batch)
    (hwf : Spec.WF b) :
    ∀ fid term, lookup term ((buildDictsArraysFrom staleFN staleLoc vectors b).getD fid []) =
      lookup term ((processDocs vectors (fieldTable b) b).getD fid []) :=
  fun fid term => arrays_refine_from staleFN staleLoc vectors b (fun d hd => hwf.termsDistinct d hd) fid term

/-- both models have one dictionary per field of the table -/
theorem C01_arrays_length (vectors : Bool) (b : Batch) (hwf : Spec.WF b) :
    (buildDictsArrays vectors b).length = (processDocs vectors (fieldTable b) b).length := by
  rw [buildDictsArrays, length_buildDictsArraysFrom _ _ _ _ (fun d hd => hwf.termsDistinct d hd),
    length_processDocs]

/-- COUNTED ≥ APPENDED: for every (field id, term) the fill pass appends at most as many freq/norm
    cells, and at most as many locations, as the count pass reserved. -/
theorem C01_counted_ge_appended (vectors : Bool) (b : Batch) (hwf : Spec.WF b) (k : Nat × Bytes) :
    cntE k (events vectors (fieldTable b) b) ≤ cntV k (visits (fieldTable b) b) ∧
    locE k (events vectors (fieldTable b) b) ≤ wV k (visits (fieldTable b) b) :=
  batch_bounds vectors b (fun d hd => hwf.termsDistinct d hd) k

/-- THE INVARIANT, one step of the fill pass at a time: if after the appends `done` every postings
    list's slice is still the window carved for it (windows pairwise disjoint), holds exactly what
    was appended to it and not more than was counted, and the remaining appends `todo` respect the
    counts, then the same is true after `todo`.  (`Exact` = appended ≤ counted ∧ header = carved
    window ∧ cells = appended elements; see ArraysLemmas1.) -/
theorem C01_fill_regions_exact (nF : Nat) (c : Counts) (vs : List Visit) (ks : List Key)
    (hc : CInv nF c vs ks) (todo : List Ev) (S : Fill) (done : List Ev) (h : FillInv c ks S done)
    (hkeys : ∀ ev ∈ todo, ev.key ∈ ks)
    (hT : ∀ pid, pid < ks.length → (evsAt ks pid (done ++ todo)).length ≤ c.nT.getD pid 0)
    (hL : ∀ pid, pid < ks.length →
      ((evsAt ks pid (done ++ todo)).flatMap Ev.locs).length ≤ c.nL.getD pid 0) :
    FillInv c ks (todo.foldl (fillEv c) S) (done ++ todo) :=
  fill_regions_exact nF c vs ks hc todo S done h hkeys hT hL

/-- … and it holds at the end of the real fill pass of every well-formed batch (fresh or reused
    arrays): nothing panicked, no slice was reallocated, every window holds exactly its appends. -/
theorem C01_fill_final (staleFN : List FN) (staleLoc : List MLoc) (vectors : Bool) (b : Batch)
    (hwf : Spec.WF b) :
    ∃ ks, CInv (fieldTable b).length (countPass (fieldTable b) b) (visits (fieldTable b) b) ks ∧
      FillInv (countPass (fieldTable b) b) ks
        (fillPass vectors (fieldTable b) (countPass (fieldTable b) b)
          (initFill (countPass (fieldTable b) b) staleFN staleLoc) b)
        (events vectors (fieldTable b) b) :=
  fillPass_inv staleFN staleLoc vectors b (fun d hd => hwf.termsDistinct d hd)

/-- the windows of two different postings lists never share a cell -/
theorem C01_windows_disjoint (ns : List Nat) {p q i j : Nat} (hpq : p ≠ q)
    (hi : i < ns.getD p 0) (hj : j < ns.getD q 0) : startOf ns p + i ≠ startOf ns q + j :=
  windows_disjoint ns hpq hi hj

/-- Documents of a list come back strictly ascending: the k-th element of the roaring bitmap
    `Postings[pid]` is the document of the k-th appended cell, which is why the model may keep the
    document number in the cell. -/
theorem C01_arrays_docs_asc (vectors : Bool) (b : Batch) (hwf : Spec.WF b) (fid : Nat) (term : Bytes) :
    match lookup term ((buildDictsArrays vectors b).getD fid []) with
    | none => True
    | some es => AscNat (es.map (·.doc)) ∧ es ≠ [] := by
  rw [C01_arrays_refine vectors b hwf fid term]
  by_cases hfid : fid < (fieldTable b).length
  · have hn : (fieldTable b)[fid] ∈ fieldTable b := List.getElem_mem hfid
    have hid := fieldIdOf_getElem (fieldTable_nodup b) fid hfid
    have hR := dget_processDocs vectors (fieldTable b) _ hn term b (fun d hd => hwf.termsDistinct d hd)
    unfold dget at hR
    rw [hid] at hR
    rw [hR]
    have hsrc : ∀ d ∈ b, DocSrcIn (fieldTable b) d := by
      intro d hd f hf tok htok l hl
      rcases hwf.srcKnown d hd f hf tok htok l hl with e | e
      · exact Or.inl e
      · exact Or.inr ((mem_fieldTable b _).2 (Or.inr e))
    have hasc := postings_docs_asc vectors b (fieldTable b)[fid] term
    rw [postings_eq_entries vectors (fieldTable b) _ hn term b hsrc] at hasc
    generalize List.filterMap (fun p => entryOf vectors (fieldTable b) (fieldTable b)[fid] term p.2 p.1)
      b.zipIdx = l at hasc ⊢
    cases l with
    | nil => trivial
    | cons e es =>
      refine ⟨?_, by simp⟩
      have : (List.map (Spec.hitOfEntry (fieldTable b)) (e :: es)).map (·.doc) = (e :: es).map (·.doc) := by
        rw [List.map_map]; rfl
      rw [← this]; exact hasc
  · have h2 : (processDocs vectors (fieldTable b) b).getD fid [] = [] := by
      rw [List.getD_eq_getElem?_getD, List.getElem?_eq_none (by rw [length_processDocs]; omega)]; rfl
    rw [h2]; trivial

/-- the executable cross-check the transcript driver runs on every build cannot fail on a
    well-formed batch (so a `false` is a finding about the batch or about the model) -/
theorem C01_arraysAgree (vectors : Bool) (b : Batch) (hwf : Spec.WF b) : arraysAgree vectors b = true :=
  arraysAgree_of_distinct vectors b (fun d hd => hwf.termsDistinct d hd)

/-! ### The count matters: one count too small and a neighbour's window is overwritten -/

namespace C01ArraysExample

def nA : Name := [97]
def tX : Bytes := [120]
def tY : Bytes := [121]

/-- two documents, one field, both documents have the terms `x` and `y` -/
def ub : Batch :=
  [ { id := [49], fields := [ { name := nA, len := 2, toks := [{ term := tX, freq := 1, locs := [] },
                                                              { term := tY, freq := 2, locs := [] }] } ] },
    { id := [50], fields := [ { name := nA, len := 2, toks := [{ term := tX, freq := 3, locs := [] },
                                                              { term := tY, freq := 4, locs := [] }] } ] } ]

/-- the counts `realloc` computes, and the same with list 0 (`x`) counted one short -/
def good : Counts := countPass (fieldTable ub) ub
def short : Counts := { good with nT := good.nT.modify 0 (· - 1) }

example : good.nT = [2, 2] ∧ short.nT = [1, 2] ∧ good.totTFs = 4 := by decide +kernel

end C01ArraysExample

open C01ArraysExample in
/-- NEGATIVE FACT.  With the real counts, `y` reads back its own two cells.  With `x` counted one
    short, `y`'s window starts one cell earlier; `x`'s slice has capacity to the end of the array, so
    its second append (document 1, freq 3) silently lands on `y`'s first cell (document 0, freq 2):
    `y` reads back a posting of document 1 twice, with `x`'s frequency.  Nothing panics. -/
theorem undercount_overwrites :
    lookup tY ((buildWith false ub good [] []).getD 1 []) =
      some [ { doc := 0, freq := 2, norm := 2, locs := [] }, { doc := 1, freq := 4, norm := 2, locs := [] } ] ∧
    lookup tY ((processDocs false (fieldTable ub) ub).getD 1 []) =
      some [ { doc := 0, freq := 2, norm := 2, locs := [] }, { doc := 1, freq := 4, norm := 2, locs := [] } ] ∧
    lookup tY ((buildWith false ub short [] []).getD 1 []) =
      some [ { doc := 1, freq := 3, norm := 2, locs := [] }, { doc := 1, freq := 4, norm := 2, locs := [] } ] ∧
    lookup tX ((buildWith false ub short [] []).getD 1 []) =
      some [ { doc := 0, freq := 1, norm := 2, locs := [] }, { doc := 1, freq := 3, norm := 2, locs := [] } ] ∧
    (fillPass false (fieldTable ub) short (initFill short [] []) ub).bad = false ∧
    (fillPass false (fieldTable ub) short (initFill short [] []) ub).fn.bad = false := by
  decide +kernel

/-! ### Non-vacuity -/

namespace C01ArraysExample

/-- the batch of C01Build: field `a` twice in document 0 (COUNT 2 for (`a`, `x`) in that document,
    ONE append), composite `_all` twice in document 1 -/
example : Spec.WF C01Example.batch := ⟨by decide +kernel, by decide +kernel, by decide +kernel⟩

example : arraysAgree false C01Example.batch = true ∧ arraysAgree true C01Example.batch = true := by
  decide +kernel

/-- counted vs appended on that batch: list 2 is (`a`, `x`): counted 3 cells, 2 appended (one slack
    cell stays unwritten at the end of its window); locations: exactly the 4 counted -/
example :
    (countPass (fieldTable C01Example.batch) C01Example.batch).nT = [3, 1, 3, 1, 1, 1] ∧
    (countPass (fieldTable C01Example.batch) C01Example.batch).nL = [5, 0, 4, 1, 0, 0] ∧
    cntV (2, C01Example.tX) (visits (fieldTable C01Example.batch) C01Example.batch) = 3 ∧
    cntE (2, C01Example.tX) (events false (fieldTable C01Example.batch) C01Example.batch) = 2 ∧
    wV (2, C01Example.tX) (visits (fieldTable C01Example.batch) C01Example.batch) = 4 ∧
    locE (2, C01Example.tX) (events false (fieldTable C01Example.batch) C01Example.batch) = 4 := by
  decide +kernel

/-- both sides of `C01_arrays_refine` for (`a`, `x`), evaluated -/
example :
    lookup C01Example.tX ((buildDictsArrays false C01Example.batch).getD 2 []) = some
      [ { doc := 0, freq := 3, norm := 3, locs := [⟨2, 1, 0, 1, []⟩, ⟨2, 2, 2, 3, []⟩, ⟨2, 1, 0, 1, [1]⟩] },
        { doc := 1, freq := 1, norm := 1, locs := [⟨2, 1, 0, 1, []⟩] } ] ∧
    lookup C01Example.tX ((processDocs false (fieldTable C01Example.batch) C01Example.batch).getD 2 []) = some
      [ { doc := 0, freq := 3, norm := 3, locs := [⟨2, 1, 0, 1, []⟩, ⟨2, 2, 2, 3, []⟩, ⟨2, 1, 0, 1, [1]⟩] },
        { doc := 1, freq := 1, norm := 1, locs := [⟨2, 1, 0, 1, []⟩] } ] := by
  decide +kernel

/-- a term counted but never filled: a token on a synonym-kind field is seen by `realloc`'s
    `visitField` (pid 1, one cell reserved) but `Process` skips the field; the list stays empty and
    the term is not written (`postingsOffset == 0`) — in both models -/
def synBatch : Batch :=
  [ { id := [49], fields := [ { name := idName, stored := true, val := [49], len := 1,
                                toks := [{ term := [49], freq := 1, locs := [] }] },
                              { kind := .syn, name := nA, len := 1, toks := [{ term := tX, freq := 1, locs := [] }] } ] } ]

example :
    Spec.WF synBatch ∧
    (countPass (fieldTable synBatch) synBatch).dicts = [[([49], 0)], [(tX, 1)]] ∧
    (countPass (fieldTable synBatch) synBatch).nT = [1, 1] ∧
    lookup tX ((buildDictsArrays false synBatch).getD 1 []) = none ∧
    lookup tX ((processDocs false (fieldTable synBatch) synBatch).getD 1 []) = none ∧
    arraysAgree false synBatch = true :=
  ⟨⟨by decide +kernel, by decide +kernel, by decide +kernel⟩, by decide +kernel, by decide +kernel,
    by decide +kernel, by decide +kernel, by decide +kernel⟩

/-- reused arrays full of junk, with spare capacity: same result -/
example :
    buildDictsArraysFrom (List.replicate 12 junkFN) (List.replicate 12 junkLoc) false C01Example.batch =
      buildDictsArrays false C01Example.batch := by
  decide +kernel

/-- why `Spec.WF.termsDistinct` is needed in the MODEL: a token list that names a term twice is not
    a Go map.  `firstTFs` keeps both entries, a later instance's locations are merged into BOTH
    (`mergeTok` maps over all matches), so 4 locations are appended where 3 were counted: the list
    overflows into the window of its neighbour `z`, whose own (later) append then overwrites the
    overflowed cell: `x` reads back `z`'s location (position 9) and the two models differ. -/
def dupBatch : Batch :=
  [ { id := [49], fields :=
      [ { name := nA, len := 2, toks := [{ term := tX, freq := 1, locs := [⟨[], 1, 0, 1, []⟩] },
                                         { term := tX, freq := 1, locs := [⟨[], 2, 0, 1, []⟩] },
                                         { term := [122], freq := 1, locs := [⟨[], 9, 0, 1, []⟩] }] },
        { name := nA, len := 1, toks := [{ term := tX, freq := 1, locs := [⟨[], 3, 0, 1, []⟩] }] } ] } ]

example :
    wV (1, tX) (visits (fieldTable dupBatch) dupBatch) = 3 ∧
    locE (1, tX) (events false (fieldTable dupBatch) dupBatch) = 4 ∧
    arraysAgree false dupBatch = false ∧
    ((lookup tX ((buildDictsArrays false dupBatch).getD 1 [])).map (fun es => es.map (fun e => e.locs.map (·.pos)))) =
      some [[1, 3], [2, 9]] ∧
    ((lookup tX ((processDocs false (fieldTable dupBatch) dupBatch).getD 1 [])).map
      (fun es => es.map (fun e => e.locs.map (·.pos)))) = some [[1, 3], [2, 3]] := by
  decide +kernel

end C01ArraysExample

#print axioms C01_arrays_refine
#print axioms C01_arrays_refine_reused
#print axioms C01_arrays_length
#print axioms C01_counted_ge_appended
#print axioms C01_fill_regions_exact
#print axioms C01_fill_final
#print axioms C01_windows_disjoint
#print axioms C01_arrays_docs_asc
#print axioms C01_arraysAgree
#print axioms undercount_overwrites

end Zap
