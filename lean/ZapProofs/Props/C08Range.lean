/-
  C08, the key range: `[start, end)` is empty whenever `start` is not below `end` - for every
  dictionary, automaton and scratch state the enumeration returns nothing (defect D10: the shipped
  code returned `end` itself when it was a term; fixed).  Also: a term equal to `end` is never returned.
-/
import ZapProofs.Props.C08
import ZapProofs.StoredLemmas

namespace Zap
open DictL

/-- no byte string lies in an empty range -/
theorem inRange_empty (lo hi t : Bytes) (h : Bytes.lt lo hi = false) :
    inRange (some lo) (some hi) t = false := by
  unfold inRange Bytes.le
  cases h1 : Bytes.lt t lo with
  | true => simp [h1]
  | false =>
    cases h2 : Bytes.lt t hi with
    | false => simp [h2]
    | true =>
      exfalso
      rcases Stored.lt_trichotomy lo hi with hlt | heq | hgt
      · rw [hlt] at h; exact Bool.noConfusion h
      · subst heq; rw [h2] at h1; exact Bool.noConfusion h1
      · have := Stored.lt_trans h2 hgt
        rw [this] at h1; exact Bool.noConfusion h1

/-- C08 (empty ranges): nothing is enumerated when `start` is not below `end`. -/
theorem C08_empty_range (accept : Bytes → Bool) (lo hi : Bytes) (h : Bytes.lt lo hi = false)
    (terms : List (Bytes × PostRep)) (hwf : ∀ p ∈ terms, RepWF p.2) (sc : Scratch) :
    dictIterate true accept (some lo) (some hi) sc terms = [] := by
  rw [C08_dict accept (some lo) (some hi) terms hwf sc]
  simp [inRange_empty lo hi _ h]

/-- C08 (exclusive end): the end key itself is never returned. -/
theorem C08_end_exclusive (accept : Bytes → Bool) (lo : Option Bytes) (hi : Bytes)
    (terms : List (Bytes × PostRep)) (hwf : ∀ p ∈ terms, RepWF p.2) (sc : Scratch) :
    ∀ e ∈ dictIterate true accept lo (some hi) sc terms, e.1 ≠ hi := by
  rw [C08_dict accept lo (some hi) terms hwf sc]
  intro e he
  simp only [List.mem_map, List.mem_filter] at he
  obtain ⟨p, ⟨_, hp⟩, rfl⟩ := he
  intro heq
  simp only [inRange, Bool.and_eq_true] at hp
  have := hp.2.2
  simp only at heq
  rw [heq, Stored.lt_irrefl] at this
  exact Bool.noConfusion this

end Zap

section Report
#print axioms Zap.C08_empty_range
#print axioms Zap.C08_end_exclusive
end Report
