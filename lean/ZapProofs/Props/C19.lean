/-
  C19: vector-engine failures surface - the instance on the REAL `Gen.Facts.errFacts`.
  (Side condition, generic theorems, header with "modelled, not verified":
  ZapProofs/Props/C19Pre.lean.)

  HISTORY.  On the pinned tree (defect D6) the entry
      { fn := "faissVectorIndexSection.Persist", callee := "vo.writeVectorIndexes", disp := ignored }
  made `c19SideCondition Facts.errFacts` evaluate to `false` (this file then proved exactly that).
  Since the fix in /repo ("propagate vector index build errors from
  faissVectorIndexSection.Persist") the extractor emits `returned` for that entry and the
  instance below holds.  If the defect is reintroduced, `c19SideCondition_holds` fails with
  "decide proved that the proposition ... is false"; section "The pinned tree" below shows what
  the facts then look like and what the model says about them.
-/
import ZapProofs.Props.C19Pre

namespace Zap.C19
open Zap.Gen Zap.Gen.ErrDisp Zap.Theory Zap.Theory.Persist

/-- INSTANCE: the obligation that breaks when the Go source changes. -/
theorem c19SideCondition_holds : c19SideCondition Facts.errFacts = true := by decide +kernel

/-- Convenience check: the regenerated facts are exactly the expected repair of the pinned
    tree's facts (`c19Expected` repairs nothing any more). -/
theorem facts_eq_expected : Facts.errFacts = c19Expected := by decide +kernel

/-- C19, build path: EVERY operation sequence of `writeVectorIndexes`, EVERY failing position:
    `New` returns an error. -/
theorem C19_engine_fault_surfaces_build (es : List ErrFact)
    (hes : ∀ e ∈ es, e ∈ Facts.errFacts ∧ e.fn = fnWrite) (p : Nat) (hp : p < es.length) :
    (run (some p) none (es.map (buildOp Facts.errFacts))).err.isSome = true :=
  engine_fault_surfaces_build Facts.errFacts c19SideCondition_holds es hes p hp

/-- C19, merge path: EVERY operation sequence of `mergeAndWriteVectorIndexes`, EVERY failing
    position, EVERY closing instant: `Merge` returns an error and the file is removed. -/
theorem C19_engine_fault_surfaces_merge (es : List ErrFact)
    (hes : ∀ e ∈ es, e ∈ Facts.errFacts ∧ e.fn = fnMerge) (p : Nat) (closing : Option Nat)
    (hp : p < es.length) :
    (run (some p) closing (es.map (mergeOp Facts.errFacts))).err.isSome = true
    ∧ (run (some p) closing (es.map (mergeOp Facts.errFacts))).cleaned = true :=
  engine_fault_surfaces_merge Facts.errFacts c19SideCondition_holds es hes p closing hp

/-- C19: reconstructed indexes are released before every early return. -/
theorem C19_indexes_released :
    ∀ e ∈ Facts.errFacts, e.fn = fnMerge →
      (e.callee = "faiss.ReadIndexFromBuffer" ∨ e.callee = "vecIndexes[i].index.ReconstructBatch") →
      e.disp = cleanupReturned :=
  indexes_released Facts.errFacts c19SideCondition_holds

/-- Hypotheses are satisfiable and non-trivial: the whole extracted operation sequence of
    `writeVectorIndexes` (13 operations, 5 of them engine calls); failing the first engine call
    gives an error, no fault gives success. -/
example : ((Facts.errFacts.filter fun e => e.fn == fnWrite).length = 13)
    ∧ run (some 0) none ((Facts.errFacts.filter fun e => e.fn == fnWrite).map (buildOp Facts.errFacts))
        = ⟨some .io, false, []⟩
    ∧ run none none ((Facts.errFacts.filter fun e => e.fn == fnWrite).map (buildOp Facts.errFacts))
        = ⟨none, false, []⟩ := by decide +kernel

/-! ### The pinned tree (D6) -/

/-- The facts as extracted from the pinned tree. -/
def preFixFacts : List ErrFact :=
  patch Facts.errFacts "faissVectorIndexSection.Persist" "vo.writeVectorIndexes" ignored

/-- The obligation fails there ... -/
example : c19SideCondition preFixFacts = false := by decide +kernel

/-- ... because of exactly that entry ... -/
example : (preFixFacts.filter fun e => vecFns.contains e.fn && !passes e.disp)
    = [⟨"faissVectorIndexSection.Persist", "vo.writeVectorIndexes", ignored⟩] := by decide +kernel

/-- ... and in the model a failing engine call of `writeVectorIndexes` then yields SUCCESS. -/
example : run (some 0) none
    ((preFixFacts.filter fun e => e.fn == fnWrite).map (buildOp preFixFacts))
    = ⟨none, false, []⟩ := by decide +kernel

end Zap.C19

#print axioms Zap.C19.c19SideCondition_holds
#print axioms Zap.C19.C19_engine_fault_surfaces_build
#print axioms Zap.C19.C19_engine_fault_surfaces_merge
#print axioms Zap.C19.C19_indexes_released
