/-
  C19: vector-engine failures surface - the instance on the REAL `Gen.Facts.errFacts`.
  (Side condition, generic theorems, header with "modelled, not verified":
  ZapProofs/Props/C19Pre.lean.)

  THIS FILE HAS TWO STATES.

  STATE "BEFORE" (pinned tree, defect D6 present): section BEFORE below is active.  It PROVES that
  the side condition is FALSE on the current facts and pins down why: the single entry
  (`faissVectorIndexSection.Persist`, `vo.writeVectorIndexes`) is `ignored`, so an engine failure
  during a build is swallowed and `New` reports success.  Section AFTER is commented out.

  STATE "AFTER" (D6 fixed in /repo: `Persist` returns the error of `writeVectorIndexes`, and
  tools/regen.sh has regenerated Gen/Facts.lean): the extractor now emits
      { fn := "faissVectorIndexSection.Persist", callee := "vo.writeVectorIndexes", disp := returned }
  Then
    * every statement of section BEFORE FAILS to compile (`decide` proves the opposite) - this is
      the signal;
    * delete section BEFORE (or comment it out) and remove the two comment markers around
      section AFTER.  `c19SideCondition_holds` is then proved by `decide +kernel`, and
      `facts_eq_expected` confirms the regenerated facts are exactly `c19Expected`.
  If instead the fix changes the shape differently (e.g. the error is wrapped and the extractor
  reports something else), `facts_eq_expected` fails while `c19SideCondition_holds` may still
  hold: the latter is the obligation; the former is only a convenience check and may be dropped.
-/
import ZapProofs.Props.C19Pre

namespace Zap.C19
open Zap.Gen Zap.Gen.ErrDisp Zap.Theory Zap.Theory.Persist

/-! ## BEFORE (delete once D6 is fixed) -/
section Before

/-- The obligation FAILS on the pinned tree. -/
theorem c19SideCondition_fails_D6 : c19SideCondition Facts.errFacts = false := by decide +kernel

/-- ... because of exactly one entry: -/
theorem d6_entry :
    (Facts.errFacts.filter fun e => vecFns.contains e.fn && !passes e.disp)
      = [⟨"faissVectorIndexSection.Persist", "vo.writeVectorIndexes", ignored⟩] := by
  decide +kernel

/-- ... and repairing that entry is enough (`c19Expected_ok`).  In the model, on the current
    facts, a failing engine call of `writeVectorIndexes` (here: the first one) yields SUCCESS. -/
theorem d6_in_model :
    run (some 0) none
      ((Facts.errFacts.filter fun e => e.fn == fnWrite).map (buildOp Facts.errFacts))
      = ⟨none, false, []⟩ := by decide +kernel

end Before

/-! ## AFTER (enable once D6 is fixed)

/-- INSTANCE: the obligation that breaks when the Go source changes. -/
theorem c19SideCondition_holds : c19SideCondition Facts.errFacts = true := by decide +kernel

/-- Convenience: the regenerated facts are exactly the expected repair. -/
theorem facts_eq_expected : Facts.errFacts = c19Expected := by decide +kernel

/-- C19, build path: EVERY operation sequence of `writeVectorIndexes`, EVERY failing position:
    `New` returns an error. -/
theorem C19_engine_fault_surfaces_build (es : List ErrFact)
    (hes : ∀ e ∈ es, e ∈ Facts.errFacts ∧ e.fn = fnWrite) (p : Nat) (hp : p < es.length) :
    (run (some p) none (es.map (buildOp Facts.errFacts))).err.isSome = true :=
  engine_fault_surfaces_build Facts.errFacts c19SideCondition_holds es hes p hp

/-- C19, merge path: EVERY operation sequence of `mergeAndWriteVectorIndexes`, EVERY failing
    position, EVERY closing instant: `Merge` returns an error and the file is removed. -/
theorem C19_engine_fault_surfaces_merge (es : List ErrFact)
    (hes : ∀ e ∈ es, e ∈ Facts.errFacts ∧ e.fn = fnMerge) (p : Nat) (closing : Option Nat)
    (hp : p < es.length) :
    (run (some p) closing (es.map (mergeOp Facts.errFacts))).err.isSome = true
    ∧ (run (some p) closing (es.map (mergeOp Facts.errFacts))).cleaned = true :=
  engine_fault_surfaces_merge Facts.errFacts c19SideCondition_holds es hes p closing hp

/-- C19: reconstructed indexes are released before every early return. -/
theorem C19_indexes_released :
    ∀ e ∈ Facts.errFacts, e.fn = fnMerge →
      (e.callee = "faiss.ReadIndexFromBuffer" ∨ e.callee = "vecIndexes[i].index.ReconstructBatch") →
      e.disp = cleanupReturned :=
  indexes_released Facts.errFacts c19SideCondition_holds

#print axioms Zap.C19.c19SideCondition_holds
#print axioms Zap.C19.C19_engine_fault_surfaces_build
#print axioms Zap.C19.C19_engine_fault_surfaces_merge
#print axioms Zap.C19.C19_indexes_released
-/

/-- Independent of D6 (holds before and after): the merge path already surfaces engine faults
    and releases the reconstructed indexes. -/
theorem merge_links_ok :
    propagates (upMerge Facts.errFacts) = true ∧ cleans (upMerge Facts.errFacts) = true
    ∧ (Facts.errFacts.filter fun e => e.fn == fnMerge).all (fun e => passes e.disp) = true
    ∧ (linkDisps Facts.errFacts fnMerge "faiss.ReadIndexFromBuffer").all (· == cleanupReturned) = true
    ∧ (linkDisps Facts.errFacts fnMerge "vecIndexes[i].index.ReconstructBatch").all
        (· == cleanupReturned) = true := by decide +kernel

end Zap.C19

#print axioms Zap.C19.merge_links_ok
