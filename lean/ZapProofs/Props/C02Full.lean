/-
  C02 (DocNumbers), closed: `C02_docNumbers` with its two dictionary hypotheses
  discharged by `C01_entries_all` (dictionary content) and `C01_termsSorted`
  (terms ascending; transported from field records to `dictTerms idName` by
  `Compose.buildSeg_dictTerms_sorted`).
-/
import ZapProofs.ComposeLemmas

namespace Zap
open Zap.Stored Zap.Compose

/-- C02 (DocNumbers): on the built segment, `DocNumbers(ids)` is exactly the ascending,
    duplicate-free list of the numbers of the documents whose id is requested.
    `hwf`: what `New` requires of a batch; `hid`: bleve's `_id` discipline (one `_id` field per
    document, indexed with the id as its only token). -/
theorem C02_docNumbers_full (vectors : Bool) (mode : Nat) (b : Batch) (hwf : Spec.WF b) (hid : IdWF b)
    (ids : List Bytes) :
    (buildSeg vectors mode b).docNumbers ids = Spec.docNumbers b ids :=
  C02_docNumbers vectors mode b hid
    (fun n t => C01_entries_all vectors mode b hwf n t)
    (buildSeg_dictTerms_sorted vectors mode b idName) ids

/-- … hence: ascending, duplicate free, and exactly the documents whose id is in `ids`. -/
theorem C02_docNumbers_full_spec (vectors : Bool) (mode : Nat) (b : Batch) (hwf : Spec.WF b) (hid : IdWF b)
    (ids : List Bytes) :
    ((buildSeg vectors mode b).docNumbers ids).Pairwise (· < ·) ∧
    ∀ d, d ∈ (buildSeg vectors mode b).docNumbers ids ↔ ∃ h : d < b.length, b[d].id ∈ ids := by
  rw [C02_docNumbers_full vectors mode b hwf hid ids]
  exact C02_docNumbers_spec b ids

/-! ### Concrete instance: the batch of `C02Ex` -/

namespace C02Ex

theorem exB_wf : Spec.WF exB := by constructor <;> decide +kernel
theorem exB_idwf : IdWF exB := by decide +kernel

/-- the theorem applied; the right-hand side evaluated -/
example : seg.docNumbers [[99], [122, 122], [97], [99], [96]] = [0, 2] := by
  rw [show seg = buildSeg false 0 exB from rfl, C02_docNumbers_full false 0 exB exB_wf exB_idwf]
  decide +kernel

/-- the empty batch satisfies the hypotheses too (and yields nothing) -/
example : (buildSeg false 0 []).docNumbers [[97]] = [] := by
  rw [C02_docNumbers_full false 0 [] ⟨by simp, by simp, by simp⟩ (by simp [IdWF])]
  rfl

end C02Ex

#print axioms C02_docNumbers_full
#print axioms C02_docNumbers_full_spec

end Zap
