/-
  C06, doc-value part: after a merge, the doc values of every surviving
  document are exactly what its input segment recorded for it, under the new
  number; the merged doc-value data contains nothing else; it is again strictly
  ascending by document number, in range and without empty entries; a merged
  field has doc-value data iff some input has the field with doc-value data.

  This is the behaviour AFTER fix D11.  Before it, `mergeAndPersistInvertedSection`
  copied doc values only from the inputs "in focus" for the field (those whose
  dictionary of the field has at least one key), so an input in which the field
  carries doc values but not a single term (a geo-shape field: the encoded
  shape is an extra doc value) lost them.  `C06_dv_fix_D11` below is that
  situation on literal segments; on the real code it is reproduced by
  /verif/corpus/regress/k1_shape_only_field_merge.script.

  Vocabulary:
    `dvOf s nm d`   the doc-value byte strings of document `d` in field `nm` of
                    segment `s` (`[]` when the field is absent, has no doc-value
                    data, or the data has no entry for `d`)
  Helpers are in ZapProofs/MergeDvLemmas.lean (`dvPart nm (s, map)` is what one
  input contributes: `dvMerge map dv` for the `dv` of the field the reader finds
  under `nm`; the merged data is the concatenation over ALL inputs in order).
-/
import ZapProofs.MergeDvLemmas
import ZapProofs.Props.C05
import ZapProofs.Props.C03

namespace Zap
open DictL MergeL MergeDv

/-- Doc values of document `d` in field `nm` of segment `s`: the field record
    the reader finds under the name, its doc-value data, looked up by document
    number. -/
def dvOf (s : Seg) (nm : Name) (d : Nat) : List Bytes :=
  match s.field? nm with
  | none => []
  | some f =>
    match f.dv with
    | none => []
    | some dv => ((dv.find? (·.1 = d)).map (·.2)).getD []

theorem dvOf_of_none {s : Seg} {nm : Name} (h : s.field? nm = none) (d : Nat) : dvOf s nm d = [] := by
  unfold dvOf; rw [h]

/-- `none` and an empty list are read alike. -/
theorem dvOf_of_field {s : Seg} {nm : Name} {f : FieldM} (h : s.field? nm = some f) (d : Nat) :
    dvOf s nm d = Dv.recorded (f.dv.getD []) d := by
  unfold dvOf; rw [h]
  cases hd : f.dv <;> simp only [hd] <;> rfl

/-- What a doc-value visit delivers for one listed name (`Dv.fieldOut`, the
    per-name result of `Seg.visitDocValues`, see `C03_fresh_visit`) is `dvOf`,
    each value paired with the name - on any segment with at least one
    document (a segment without documents shows the reader no fields). -/
theorem fieldOut_eq_dvOf (s : Seg) (hn : s.numDocs ≠ 0) (doc : Nat) (n : Name) :
    Dv.fieldOut s doc n = (dvOf s n doc).map (fun t => (n, t)) := by
  unfold Dv.fieldOut dvOf Seg.field? Seg.loadedFields Seg.fieldId?
  rw [if_neg hn]
  cases hf : s.fields.findIdx? (fun f => decide (f.name = n)) with
  | none =>
    have : s.fields.find? (fun f => decide (f.name = n)) = none := by
      rw [List.find?_eq_none]
      intro x hx
      have := Dv.findIdx?_eq_none_of _ _ hf x hx
      simpa using this
    rw [this]; rfl
  | some fid =>
    obtain ⟨hfind, _⟩ := Dv.findIdx?_find? _ default _ _ hf
    rw [hfind]
    dsimp only
    cases (s.fields.getD fid default).dv <;> rfl

/-! ### Content -/

/-- C06 (doc values).  With at least one survivor, for every field name `nm`:
    (1) every surviving document - document `d` of input `i`, renumbered `d'`
        by the map the merge returns - has in the merged segment exactly the
        doc values it had in its input segment;
    (2) every document number that has doc values in the merged segment is the
        new number of a surviving document.
    No hypothesis on the inputs: fields are those the reader finds by name,
    whether or not the input has a single term in the field. -/
theorem C06_dv (v : Bool) (mode : Nat) (segs : List Seg) (drops : List (Option (List Nat)))
    (hne : newDocCount segs drops ≠ 0) (nm : Name) :
    (∀ i (hi : i < segs.length) d d', d < segs[i].numDocs →
        ((mergeSegs v mode segs drops).2.getD i []).getD d none = some d' →
        dvOf (mergeSegs v mode segs drops).1 nm d' = dvOf segs[i] nm d) ∧
    (∀ d', dvOf (mergeSegs v mode segs drops).1 nm d' ≠ [] →
        ∃ i, ∃ _ : i < segs.length, ∃ d, d < segs[i].numDocs ∧
          ((mergeSegs v mode segs drops).2.getD i []).getD d none = some d') := by
  rw [mergeSegs_maps v mode segs drops]
  -- the merged side, as a lookup in the concatenation over all inputs
  have hm : ∀ d', dvOf (mergeSegs v mode segs drops).1 nm d' =
      if nm ∈ mergedFieldNames segs
      then Dv.recorded ((segs.zip (remapAll segs drops 0)).flatMap (dvPart nm)) d' else [] := by
    intro d'
    rcases mergeSegs_field? v mode segs drops hne nm with ⟨hnm, f, hf, _, hdv⟩ | ⟨hnm, hf⟩
    · rw [if_pos hnm, ← mergedDv_getD, ← hdv]
      exact dvOf_of_field hf d'
    · rw [if_neg hnm]; exact dvOf_of_none hf d'
  refine ⟨?_, ?_⟩
  · intro i hi d d' _ hd
    rw [hm]
    by_cases hnm : nm ∈ mergedFieldNames segs
    · rw [if_pos hnm, recorded_all_parts nm segs drops i hi hd]; rfl
    · rw [if_neg hnm]
      exact (dvOf_of_none (field?_none_of_not_merged hnm (List.getElem_mem hi)) d).symm
  · intro d' h
    rw [hm] at h
    by_cases hnm : nm ∈ mergedFieldNames segs
    · rw [if_pos hnm] at h
      obtain ⟨q, hq, hk, _⟩ := recorded_ne_nil h
      obtain ⟨i, hi, d, hd, hmap⟩ := mem_all_parts hq
      exact ⟨i, hi, d, hd, by rw [hmap, hk]⟩
    · rw [if_neg hnm] at h; exact absurd rfl h

/-- The same with the new number given by the specification of C05
    (`Spec.newNum`: survivors numbered consecutively in segment-then-document
    order), under the hypothesis of `C05_count` / `C05_stored` that drop lists
    name only existing documents; that there is a survivor is implied. -/
theorem C06_dv_newNum (v : Bool) (mode : Nat) (segs : List Seg) (drops : List (Option (List Nat)))
    (hrange : dropsInRange segs drops = true)
    (i d k : Nat) (hi : i < segs.length) (hd : d < segs[i].numDocs)
    (hk : Spec.newNum (segs.map (·.numDocs)) drops i d = some k) (nm : Name) :
    dvOf (mergeSegs v mode segs drops).1 nm k = dvOf segs[i] nm d := by
  have hsz : (segs.map (·.numDocs)).getD i 0 = segs[i].numDocs := by
    simp [List.getD_eq_getElem?_getD, hi]
  have hkc : k < Spec.survivorCount (segs.map (·.numDocs)) drops :=
    newNum_lt_count (by simpa using hi) (by rw [hsz]; exact hd) hk
  have hcnt := newDocCount_eq segs drops hrange
  have hne : newDocCount segs drops ≠ 0 := by omega
  refine (C06_dv v mode segs drops hne nm).1 i hi d k hd ?_
  rw [C05_maps v mode segs drops, remapAll_spec segs drops i d hi hd, hk]

/-- C06 (doc values), as visits: a doc-value visit of a surviving document on
    the merged segment - with any legitimately obtained visit state (`Reach`,
    see `C03_visit_any_order`), any chunk size, any field list - returns what a
    visit of the document on its input segment returns. -/
theorem C06_dv_visit (v : Bool) (mode : Nat) (segs : List Seg) (drops : List (Option (List Nat)))
    (hne : newDocCount segs drops ≠ 0)
    (segOf : Nat → Seg) (tag cs : Nat) (htag : segOf tag = (mergeSegs v mode segs drops).1)
    (fields : List Name) (st : Option DvState) (hst : Dv.Reach segOf cs fields st)
    (i : Nat) (hi : i < segs.length) (d d' : Nat) (hd : d < segs[i].numDocs)
    (hmap : ((mergeSegs v mode segs drops).2.getD i []).getD d none = some d')
    (tag' cs' : Nat) :
    ((mergeSegs v mode segs drops).1.visitDocValues tag cs st fields d').2 =
      (segs[i].visitDocValues tag' cs' none fields d).2 := by
  have hnd : (mergeSegs v mode segs drops).1.numDocs ≠ 0 := by rw [mergeSegs_numDocs]; exact hne
  have hni : segs[i].numDocs ≠ 0 := by omega
  rw [← htag, Dv.visit_out segOf cs fields st hst.inv tag d', htag,
    Dv.visit_out (fun _ => segs[i]) cs' fields none trivial tag' d]
  apply Stored.flatMap_congr'
  intro n _
  rw [fieldOut_eq_dvOf _ hnd, fieldOut_eq_dvOf _ hni,
    (C06_dv v mode segs drops hne n).1 i hi d d' hd hmap]

/-! ### Shape of the merged doc-value data -/

/-- Every field record of the merge result, with its doc-value data read as a
    list (`none` as `[]`), is the concatenation over all inputs. -/
theorem mergeSegs_dv_data (v : Bool) (mode : Nat) (segs : List Seg) (drops : List (Option (List Nat)))
    (hne : newDocCount segs drops ≠ 0) (f : FieldM) (hf : f ∈ (mergeSegs v mode segs drops).1.fields) :
    f.dv.getD [] = (segs.zip (remapAll segs drops 0)).flatMap (dvPart f.name) := by
  obtain ⟨F, hF, hdv, hfields⟩ := mergeSegs_fields_dv v mode segs drops hne
  rw [hfields] at hf
  obtain ⟨nm, _, rfl⟩ := List.mem_map.1 hf
  rw [hdv, hF, mergedDv_getD]

/-- C06 (doc values, order): if in every input the doc-value data of every
    field is strictly ascending by document number, so is that of every field
    of the merge result (inputs in segment order, survivors of one input keep
    their order, numbers of different inputs do not interleave).  The reader
    (chunked binary search by document number) relies on it. -/
theorem C06_dv_ascending (v : Bool) (mode : Nat) (segs : List Seg) (drops : List (Option (List Nat)))
    (hne : newDocCount segs drops ≠ 0)
    (hasc : ∀ s ∈ segs, ∀ f ∈ s.loadedFields, ((f.dv.getD []).map (·.1)).Pairwise (· < ·)) :
    ∀ f ∈ (mergeSegs v mode segs drops).1.fields, ((f.dv.getD []).map (·.1)).Pairwise (· < ·) := by
  intro f hf
  rw [mergeSegs_dv_data v mode segs drops hne f hf]
  apply pairwise_all_parts f.name _ (zip_mono segs drops) (zip_pairwise_sep segs drops)
  intro p hp g hg
  exact hasc p.1 (List.of_mem_zip hp).1 g (by unfold Seg.field? at hg; exact List.mem_of_find?_eq_some hg)

/-- C06 (doc values, entries): every entry of the merged data carries a
    document number of the merged segment (given drop lists that name only
    existing documents, as in `C05_count`), and no entry has an empty value
    list if no input entry has. -/
theorem C06_dv_entries (v : Bool) (mode : Nat) (segs : List Seg) (drops : List (Option (List Nat)))
    (hrange : dropsInRange segs drops = true) (hne : newDocCount segs drops ≠ 0) :
    (∀ f ∈ (mergeSegs v mode segs drops).1.fields, ∀ p ∈ f.dv.getD [],
        p.1 < (mergeSegs v mode segs drops).1.numDocs) ∧
    ((∀ s ∈ segs, ∀ f ∈ s.loadedFields, ∀ p ∈ f.dv.getD [], p.2 ≠ []) →
      ∀ f ∈ (mergeSegs v mode segs drops).1.fields, ∀ p ∈ f.dv.getD [], p.2 ≠ []) := by
  refine ⟨?_, ?_⟩
  · intro f hf p hp
    rw [mergeSegs_dv_data v mode segs drops hne f hf] at hp
    obtain ⟨i, hi, d, hd, hmap⟩ := mem_all_parts hp
    rw [remapAll_spec segs drops i d hi hd] at hmap
    have hsz : (segs.map (·.numDocs)).getD i 0 = segs[i].numDocs := by
      simp [List.getD_eq_getElem?_getD, hi]
    have := newNum_lt_count (by simpa using hi) (by rw [hsz]; exact hd) hmap
    rw [C05_count v mode segs drops hrange]
    exact this
  · intro hin f hf p hp
    rw [mergeSegs_dv_data v mode segs drops hne f hf] at hp
    obtain ⟨q, hq, hpq⟩ := List.mem_flatMap.1 hp
    obtain ⟨g, dv, hg, hdv, e, he, _, h2⟩ := mem_dvPart hpq
    rw [h2]
    refine hin q.1 (List.of_mem_zip hq).1 g
      (by unfold Seg.field? at hg; exact List.mem_of_find?_eq_some hg) e ?_
    rw [hdv]; exact he

/-! ### Which fields have doc values -/

/-- C06 (doc-value fields).  With at least one survivor (otherwise `mergeSegs`
    returns the bare `_id` segment), the merged segment has doc-value data
    under a name iff some input has doc-value data under that name - whether
    or not any of its documents survive, and whether or not the input has terms
    in the field. -/
theorem C06_dvfields (v : Bool) (mode : Nat) (segs : List Seg) (drops : List (Option (List Nat)))
    (hne : newDocCount segs drops ≠ 0) (nm : Name) :
    (∃ f, (mergeSegs v mode segs drops).1.field? nm = some f ∧ f.dv ≠ none) ↔
      ∃ s ∈ segs, ∃ f, s.field? nm = some f ∧ f.dv ≠ none := by
  rcases mergeSegs_field? v mode segs drops hne nm with ⟨_, f, hf, _, hdv⟩ | ⟨hnm, hf⟩
  · constructor
    · rintro ⟨f', hf', hne'⟩
      rw [hf] at hf'
      simp only [Option.some.injEq] at hf'
      subst hf'
      rw [hdv, mergedDv_ne_none] at hne'
      obtain ⟨p, hp, g, hg, hgdv⟩ := hne'
      exact ⟨p.1, (List.of_mem_zip hp).1, g, hg, hgdv⟩
    · rintro ⟨s, hs, g, hg, hgdv⟩
      refine ⟨f, hf, ?_⟩
      rw [hdv, mergedDv_ne_none]
      obtain ⟨p, hp, rfl⟩ := mem_zip_of_mem_segs (drops := drops) hs
      exact ⟨p, hp, g, hg, hgdv⟩
  · constructor
    · rintro ⟨f', hf', _⟩; rw [hf] at hf'; cases hf'
    · rintro ⟨s, hs, g, hg, _⟩
      rw [field?_none_of_not_merged hnm hs] at hg; cases hg

/-- The same for `VisitableDocValueFields` of the merged segment. -/
theorem C06_dvFieldNames (v : Bool) (mode : Nat) (segs : List Seg) (drops : List (Option (List Nat)))
    (hne : newDocCount segs drops ≠ 0) (nm : Name) :
    nm ∈ (mergeSegs v mode segs drops).1.dvFieldNames ↔
      ∃ s ∈ segs, ∃ f, s.field? nm = some f ∧ f.dv ≠ none := by
  rw [← C06_dvfields v mode segs drops hne nm]
  obtain ⟨F, hF, _, hfields⟩ := mergeSegs_fields_dv v mode segs drops hne
  have hnd : (mergeSegs v mode segs drops).1.numDocs ≠ 0 := by rw [mergeSegs_numDocs]; exact hne
  have hfind : (mergeSegs v mode segs drops).1.field? nm =
      if nm ∈ mergedFieldNames segs then some (F nm) else none := by
    unfold Seg.field? Seg.loadedFields
    rw [if_neg hnd, hfields]
    exact find?_map_names F hF nm _
  unfold Seg.dvFieldNames Seg.loadedFields
  rw [if_neg hnd, if_neg hnd, hfind, hfields]
  simp only [List.mem_map, List.mem_filter]
  constructor
  · rintro ⟨f, ⟨⟨n, hn, rfl⟩, hsome⟩, hname⟩
    rw [hF] at hname
    subst hname
    refine ⟨F n, by rw [if_pos hn], ?_⟩
    intro h; rw [h] at hsome; cases hsome
  · rintro ⟨f, hf, hdv⟩
    by_cases hn : nm ∈ mergedFieldNames segs
    · rw [if_pos hn] at hf
      simp only [Option.some.injEq] at hf
      subst hf
      refine ⟨F nm, ⟨⟨nm, hn, rfl⟩, ?_⟩, hF nm⟩
      cases h : (F nm).dv with
      | none => exact absurd h hdv
      | some _ => rfl
    · rw [if_neg hn] at hf; cases hf

/-! ### Fix D11 on literal segments -/

section FixD11

private def shapeN : Name := [103]          -- "g"

/-- Two documents; document 1 has term `x` in field `g`, with doc values. -/
private def gB : Seg :=
  { chunkMode := 1024, numDocs := 2,
    fields := [{ name := idName, terms := [([98], .oneHit 0 1), ([99], .oneHit 1 1)] },
               { name := shapeN, terms := [([120], .general [⟨1, 1, 1, []⟩])], dv := some [(1, [[120]])] }],
    stored := [⟨[98], []⟩, ⟨[99], []⟩] }

/-- One document; field `g` carries a doc value (an encoded shape, "hi") but
    NOT A SINGLE TERM: its dictionary is empty. -/
private def gA : Seg :=
  { chunkMode := 1024, numDocs := 1,
    fields := [{ name := idName, terms := [([97], .oneHit 0 1)] },
               { name := shapeN, dv := some [(0, [[0x68, 0x69]])] }],
    stored := [⟨[97], []⟩] }

/-- Fix D11.  `gA` is not "in focus" for field `g` (its dictionary of `g` is
    empty), yet its doc value arrives in the merged segment under the new
    number of its document (1; document 0 of `gB` is dropped, document 1 of `gB`
    becomes 0).  Before fix D11 the merge copied doc values only from inputs
    whose dictionary for the field is non-empty, and this value was LOST (the
    merged data was `[(0, [[120]])]`).  On the real code:
    /verif/corpus/regress/k1_shape_only_field_merge.script. -/
theorem C06_dv_fix_D11 :
    gA.dictTerms shapeN = [] ∧
    (mergeSegs false 1024 [gB, gA] [some [0]]).2 = [[none, some 0], [some 1]] ∧
    ((mergeSegs false 1024 [gB, gA] [some [0]]).1.field? shapeN).map (·.dv)
      = some (some [(0, [[120]]), (1, [[0x68, 0x69]])]) ∧
    dvOf (mergeSegs false 1024 [gB, gA] [some [0]]).1 shapeN 1 = [[0x68, 0x69]] ∧
    dvOf gA shapeN 0 = [[0x68, 0x69]] := by decide +kernel

/-- Also when the shape-only input is merged alone (a merge that only applies
    deletions) the field keeps its doc values, although no input is in focus. -/
example :
    ((mergeSegs false 1024 [gA] []).1.field? shapeN).map (fun f => (f.terms, f.dv))
      = some ([], some [(0, [[0x68, 0x69]])]) := by decide +kernel

/-- The theorems applied to this data. -/
example : dvOf (mergeSegs false 1024 [gB, gA] [some [0]]).1 shapeN 1 = dvOf gA shapeN 0 :=
  (C06_dv false 1024 [gB, gA] [some [0]] (by decide) shapeN).1 1 (by decide) 0 1 (by decide) (by decide +kernel)

example : dvOf (mergeSegs false 1024 [gB, gA] [some [0]]).1 shapeN 1 = dvOf gA shapeN 0 :=
  C06_dv_newNum false 1024 [gB, gA] [some [0]] (by decide) 1 0 1 (by decide) (by decide) (by decide) shapeN

end FixD11

/-! ### Non-vacuity: a built segment and a hand-written one -/

section Examples

private def tagN : Name := strBytes "tag"
private def geoN : Name := strBytes "geo"

/-- A batch of three documents: `tag` is a doc-value field with terms, `geo` a
    geo-shape doc-value field - document 0 has a term and a shape, document 1
    ONLY a shape (no tokens), document 2 nothing in `geo`. -/
private def exB : Batch :=
  [ { id := [97], fields := [
        { name := idName, stored := true, val := [97], toks := [⟨[97], 1, []⟩] },
        { name := tagN, dv := true, len := 2, toks := [⟨[120], 1, []⟩, ⟨[121], 1, []⟩] },
        { name := geoN, dv := true, len := 1, toks := [⟨[119], 1, []⟩], shape := some [1, 2] } ] },
    { id := [98], fields := [
        { name := idName, stored := true, val := [98], toks := [⟨[98], 1, []⟩] },
        { name := geoN, dv := true, shape := some [3, 4] } ] },
    { id := [99], fields := [
        { name := idName, stored := true, val := [99], toks := [⟨[99], 1, []⟩] },
        { name := tagN, dv := true, len := 1, toks := [⟨[122], 1, []⟩] } ] } ]

private def segX : Seg := buildSeg false 1024 exB

/-- Hand-written: two documents, `geo` with doc values only (no terms), `tag`
    without doc-value data. -/
private def segY : Seg :=
  { chunkMode := 1024, numDocs := 2,
    fields := [{ name := idName, terms := [([100], .oneHit 0 1), ([101], .oneHit 1 1)] },
               { name := geoN, dv := some [(0, [[5, 6]]), (1, [[7]])] },
               { name := tagN, terms := [([120], .oneHit 1 1)] }],
    stored := [⟨[100], []⟩, ⟨[101], []⟩] }

/-- Drop document 0 of `segX` and document 0 of `segY`. -/
private def exDrops : List (Option (List Nat)) := [some [0], some [0]]

/-- the built segment's doc-value data -/
example : (segX.field? tagN).map (·.dv) = some (some [(0, [[120], [121]]), (2, [[122]])]) ∧
    (segX.field? geoN).map (fun f => (f.terms.map (·.1), f.dv))
      = some ([[119]], some [(0, [[119], [1, 2]]), (1, [[3, 4]])]) := by decide +kernel

/-- hypotheses of `C06_dv`, `C06_dv_newNum`, `C06_dv_ascending`, `C06_dv_entries` -/
example : newDocCount [segX, segY] exDrops ≠ 0 ∧ dropsInRange [segX, segY] exDrops = true := by decide +kernel
example : ∀ s ∈ [segX, segY], ∀ f ∈ s.loadedFields, ((f.dv.getD []).map (·.1)).Pairwise (· < ·) := by
  decide +kernel
example : ∀ s ∈ [segX, segY], ∀ f ∈ s.loadedFields, ∀ p ∈ f.dv.getD [], p.2 ≠ [] := by decide +kernel

/-- the maps, and the merged doc-value data: the only surviving `geo` value of
    `segX` is the shape of its term-less document 1 -/
example : (mergeSegs false 1024 [segX, segY] exDrops).2 = [[none, some 0, some 1], [none, some 2]] ∧
    ((mergeSegs false 1024 [segX, segY] exDrops).1.field? geoN).map (fun f => (f.terms.map (·.1), f.dv))
      = some ([], some [(0, [[3, 4]]), (2, [[7]])]) ∧
    ((mergeSegs false 1024 [segX, segY] exDrops).1.field? tagN).map (·.dv) = some (some [(1, [[122]])]) ∧
    (mergeSegs false 1024 [segX, segY] exDrops).1.dvFieldNames = [geoN, tagN] := by decide +kernel

/-- conclusion (1) of `C06_dv`, evaluated for every survivor and both fields
    (and a name that is no field) -/
example : ∀ nm ∈ [geoN, tagN, idName, [1]], ∀ p ∈ [(0, 1, 0), (0, 2, 1), (1, 1, 2)],
    dvOf (mergeSegs false 1024 [segX, segY] exDrops).1 nm p.2.2 = dvOf ([segX, segY].getD p.1 segY) nm p.2.1 := by
  decide +kernel

example : dvOf (mergeSegs false 1024 [segX, segY] exDrops).1 geoN 0 = [[3, 4]] ∧
    dvOf segX geoN 1 = [[3, 4]] ∧
    dvOf (mergeSegs false 1024 [segX, segY] exDrops).1 geoN 1 = [] ∧ dvOf segX geoN 2 = [] ∧
    dvOf (mergeSegs false 1024 [segX, segY] exDrops).1 tagN 2 = [] ∧ dvOf segY tagN 1 = [] := by decide +kernel

/-- the theorem applied -/
example : dvOf (mergeSegs false 1024 [segX, segY] exDrops).1 geoN 2 = dvOf segY geoN 1 :=
  C06_dv_newNum false 1024 [segX, segY] exDrops (by decide +kernel) 1 1 2 (by decide) (by decide +kernel)
    (by decide +kernel) geoN

/-- a visit of new document 0 on the merged segment = a visit of document 1 on `segX` -/
example :
    ((mergeSegs false 1024 [segX, segY] exDrops).1.visitDocValues 0 2 none [geoN, tagN, geoN] 0).2
      = [(geoN, [3, 4]), (geoN, [3, 4])] ∧
    (segX.visitDocValues 7 1024 none [geoN, tagN, geoN] 1).2 = [(geoN, [3, 4]), (geoN, [3, 4])] := by
  decide +kernel

end Examples

end Zap

#print axioms Zap.fieldOut_eq_dvOf
#print axioms Zap.C06_dv
#print axioms Zap.C06_dv_newNum
#print axioms Zap.C06_dv_visit
#print axioms Zap.mergeSegs_dv_data
#print axioms Zap.C06_dv_ascending
#print axioms Zap.C06_dv_entries
#print axioms Zap.C06_dvfields
#print axioms Zap.C06_dvFieldNames
#print axioms Zap.C06_dv_fix_D11
