/-
  C06 (and the enumerator part shared with C13): the k-way enumerator yields
  the sorted union of its iterators' keys, per key one triple per iterator that
  carries it; the merged dictionary of a field has, per term, the surviving
  entries of the inputs in order, renumbered (and with location field ids
  translated by name on the re-encode path).

  Vocabulary (definitions in ZapProofs/MergeLemmas.lean, each mirrors a `let`
  of `Zap.mergeSegs`):
    `keysUnion its`   sorted duplicate-free union of the iterators' keys (`sortDedup`)
    `row its k`       `(its.zipIdx).filterMap (fun p => (lookup k p.1).map (fun v => (k, p.2, v)))`
    `focusOf nm segs maps`  inputs whose dictionary of field `nm` is non-empty, with their maps
    `itsOf nm focus`  their dictionary iterators
    `partsOf nm k focus`    the inputs (in order) that carry term `k`: (field table, map, postings)
    `mergeEntry same dst src e`  `e` if `same`, else `e` with location field ids translated by name
-/
import ZapProofs.MergeLemmas

namespace Zap
open DictL MergeL

/-! ### Enumerator -/

/-- For iterators that are strictly ascending by key:
    (1) the output is, key by key over the sorted union of all keys, one triple
        per iterator (ascending index) that carries the key — in particular the
        fuel of `enumerate` suffices;
    (a) that union is strictly ascending, contains exactly the iterators' keys,
        and is what deduplicating the yielded keys gives;
    (b) the triples with key `k` are exactly `(k, i, v)` for the iterators `i`
        (ascending) that contain `(k, v)`;
    (c) nothing is lost or invented — including an empty key, and whatever the
        iterators' lengths. -/
theorem enumerate_spec (its : List (List (Bytes × Nat)))
    (hs : ∀ it ∈ its, SortedLt (it.map (·.1))) :
    enumerate its = (keysUnion its).flatMap (fun k =>
        (its.zipIdx).filterMap (fun p => (lookup k p.1).map (fun v => (k, p.2, v))))
    ∧ SortedLt (keysUnion its)
    ∧ (∀ k, k ∈ keysUnion its ↔ ∃ it ∈ its, k ∈ it.map (·.1))
    ∧ ((enumerate its).map (·.1)).eraseDups = keysUnion its
    ∧ (∀ k, (enumerate its).filter (fun t => t.1 = k)
          = (its.zipIdx).filterMap (fun p => (lookup k p.1).map (fun v => (k, p.2, v))))
    ∧ (∀ k i v, (k, i, v) ∈ enumerate its ↔ ∃ it, its[i]? = some it ∧ (k, v) ∈ it) := by
  have hs' : ∀ it ∈ its, ItSorted it := hs
  have he := enumerate_eq_spec its hs'
  refine ⟨he, sortedLt_sortDedup _, ?_, ?_, ?_, ?_⟩
  · intro k
    rw [keysUnion, mem_sortDedup]
    exact List.mem_flatMap
  · rw [he]; exact enumSpec_keys hs'
  · intro k; rw [he]; exact enumSpec_filter_key k
  · intro k i v; rw [he]; exact mem_enumSpec hs' k i v

/-- Empty key in iterator 1 only, iterators of different lengths, a shared key:
    both sides computed. -/
example :
    enumerate [[([97], 10), ([98], 11), ([100], 12)], [([], 20), ([98], 21)], [], [([97], 30)]]
      = [([], 1, 20), ([97], 0, 10), ([97], 3, 30), ([98], 0, 11), ([98], 1, 21), ([100], 0, 12)]
    ∧ keysUnion [[([97], 10), ([98], 11), ([100], 12)], [([], 20), ([98], 21)], [], [([97], 30)]]
      = [[], [97], [98], [100]] := by decide

/-- Sortedness is necessary: an iterator that yields an empty key *after*
    another key loses it (later rounds skip empty keys) and everything behind it. -/
example : enumerate [[([97], 1), ([], 2), ([98], 3)]] = [([97], 0, 1)] := by decide

/-! ### Merged dictionary of a field -/

/-- The dictionary of field `nm` in the merge result: over the sorted union of
    the inputs' terms, the representation `chooseRep` picks for the merged
    parts; terms for which nothing survives are absent. -/
theorem C06_dict (v : Bool) (m : Nat) (segs : List Seg) (drops : List (Option (List Nat)))
    (hne : newDocCount segs drops ≠ 0) (nm : Name) (hnm : nm ∈ mergedFieldNames segs)
    (hs : ∀ s ∈ segs, SortedLt ((s.dictTerms nm).map (·.1))) :
    (mergeSegs v m segs drops).1.dictTerms nm =
      (keysUnion (itsOf nm (focusOf nm segs (remapAll segs drops 0)))).filterMap (fun k =>
        (chooseRep (mergeTermParts (fieldsSameAsCoded segs) (mergedFieldNames segs)
          (partsOf nm k (focusOf nm segs (remapAll segs drops 0))))).map (fun r => (k, r))) :=
  mergeSegs_dictTerms v m segs drops hne nm hnm hs

/-- The merged dictionary is again strictly ascending by term. -/
theorem C06_sorted (v : Bool) (m : Nat) (segs : List Seg) (drops : List (Option (List Nat)))
    (hne : newDocCount segs drops ≠ 0) (nm : Name) (hnm : nm ∈ mergedFieldNames segs)
    (hs : ∀ s ∈ segs, SortedLt ((s.dictTerms nm).map (·.1))) :
    SortedLt (((mergeSegs v m segs drops).1.dictTerms nm).map (·.1)) := by
  rw [C06_dict v m segs drops hne nm hnm hs, filterMap_keys_fst]
  exact sortedLt_filter _ (sortedLt_sortDedup _)

/-- Per-term content.  With `parts` the inputs (in order) that carry term `k`
    and `es` the concatenation of their surviving entries, renumbered (location
    field ids translated by name unless `fieldsSame`):
    * the term is absent from the result iff `es` is empty (all its documents deleted);
    * otherwise the stored representation denotes exactly `es` - for EVERY norm (the hypothesis
      "norm bits below 2^31" this statement used to carry hid defect D14: a lone frequency-1 hit
      whose norm bits were zero, or needed the 32nd bit, was written in the 1-hit form, which a
      reader takes for an empty list; see `C06_D14_counterexample`);
    * `es` is ascending by document number if every input's list is. -/
theorem C06_term (v : Bool) (m : Nat) (segs : List Seg) (drops : List (Option (List Nat)))
    (hne : newDocCount segs drops ≠ 0) (nm : Name) (hnm : nm ∈ mergedFieldNames segs)
    (hs : ∀ s ∈ segs, SortedLt ((s.dictTerms nm).map (·.1))) (k : Bytes) :
    let parts := partsOf nm k (focusOf nm segs (remapAll segs drops 0))
    let es := parts.flatMap (fun p => (survivors p.2.1 p.2.2.entries).map
                (mergeEntry (fieldsSameAsCoded segs) (mergedFieldNames segs) p.1))
    (lookup k ((mergeSegs v m segs drops).1.dictTerms nm) = none ↔ es = []) ∧
    (∀ r, lookup k ((mergeSegs v m segs drops).1.dictTerms nm) = some r → r.entries = es) ∧
    ((∀ s ∈ segs, ∀ r, lookup k (s.dictTerms nm) = some r → AscNat (r.entries.map (·.doc))) →
        AscNat (es.map (·.doc))) := by
  intro parts es
  have hflat : (mergeTermParts (fieldsSameAsCoded segs) (mergedFieldNames segs) parts).flatMap id = es :=
    mergeTermParts_flat _ _ _
  have hlook : lookup k ((mergeSegs v m segs drops).1.dictTerms nm)
      = chooseRep (mergeTermParts (fieldsSameAsCoded segs) (mergedFieldNames segs) parts) := by
    rw [C06_dict v m segs drops hne nm hnm hs]
    unfold keysUnion
    rw [lookup_filterMap_keys _ k _ (sortedLt_nodup (sortedLt_sortDedup _))]
    split
    · rfl
    · rename_i hk
      have : parts = [] := partsOf_eq_nil hk
      rw [this]; rfl
  refine ⟨?_, ?_, ?_⟩
  · rw [hlook, chooseRep_none_iff, hflat]
  · intro r hr
    rw [hlook] at hr
    rw [← hflat]
    exact chooseRep_entries hr
  · intro hasc
    rw [← hflat]
    apply asc_merged _ _ _ (partsOf_mono nm k segs drops) _ (partsOf_pairwise nm k segs drops)
    intro p hp
    obtain ⟨q, hq, hl, _, _⟩ := partsOf_rep_mem hp
    have hq' : q ∈ segs.zip (remapAll segs drops 0) := (List.mem_filter.1 hq).1
    exact hasc q.1 (List.of_mem_zip hq').1 p.2.2 hl

/-- On the byte-copy path (`fieldsSame`) entries are unchanged apart from the
    document number. -/
theorem C06_same_unchanged (dst src : List Name) (e : Entry) : mergeEntry true dst src e = e := rfl

/-- Defect D14, evaluated on the choice as it was (`chooseRepD14`): with norm bits `2^31 + 5` the
    1-hit form dropped the top bit, with norm bits `0` (an analysed length of 0, or of 2^32) it wrote
    a value that readers take for an empty list - the hit was lost.  The current choice keeps both. -/
theorem C06_D14_counterexample :
    (chooseRepD14 [[⟨4, 1, 2147483653, []⟩]]).map PostRep.entries = some [⟨4, 1, 5, []⟩] ∧
    chooseRepD14 [[⟨4, 1, 0, []⟩]] = some (.oneHit 4 0) ∧
    (chooseRep [[⟨4, 1, 2147483653, []⟩]]).map PostRep.entries = some [⟨4, 1, 2147483653, []⟩] ∧
    (chooseRep [[⟨4, 1, 0, []⟩]]).map PostRep.entries = some [⟨4, 1, 0, []⟩] := by
  refine ⟨by decide, by decide, by decide, by decide⟩

/-- A single survivor that does not come from the last input carrying the term
    is written in the general form (`lastFreq` is 0 then). -/
example : chooseRep [[⟨4, 1, 7, []⟩], []] = some (.general [⟨4, 1, 7, []⟩]) := by decide

section Examples

private def e (d : Nat) : Entry := ⟨d, 1, 3, []⟩
private def el (d fid : Nat) : Entry := ⟨d, 2, 3, [⟨fid, 1, 0, 1, []⟩]⟩

/-- Field tables differ between the inputs ("b" is field 1 in `tA`, field 2 in `tB`). -/
private def tA : Seg :=
  { chunkMode := 1024, numDocs := 3,
    fields := [{ name := [95, 105, 100] }, { name := [98], terms :=
      [([], .oneHit 0 3), ([120], .general [el 0 1, el 2 1]), ([121], .oneHit 1 3)] }],
    stored := [⟨[1], []⟩, ⟨[2], []⟩, ⟨[3], []⟩] }

private def tB : Seg :=
  { chunkMode := 1024, numDocs := 2,
    fields := [{ name := [95, 105, 100] }, { name := [97] }, { name := [98], terms :=
      [([120], .general [el 1 2]), ([122], .general [e 0, e 1])] }],
    stored := [⟨[4], []⟩, ⟨[5], []⟩] }

/-- Drop document 1 of `tA`: term `y` disappears, `x` concatenates survivors of
    both inputs (field id 2 of `tB` becomes 2 = position of "b" in the merged
    table `_id, a, b`; field id 1 of `tA` becomes 2), the empty term survives
    (as a 1-hit: its single survivor comes from the last input carrying it). -/
example : (mergeSegs false 1024 [tA, tB] [some [1]]).1.dictTerms [98] =
    [([], .oneHit 0 3),
     ([120], .general [el 0 2, el 1 2, el 3 2]),
     ([122], .general [e 2, e 3])] := by decide +kernel

/-- The `es` of `C06_term` for term `x`, computed from the inputs. -/
example :
    (partsOf [98] [120] (focusOf [98] [tA, tB] (remapAll [tA, tB] [some [1]] 0))).flatMap
      (fun p => (survivors p.2.1 p.2.2.entries).map
        (mergeEntry (fieldsSameAsCoded [tA, tB]) (mergedFieldNames [tA, tB]) p.1))
      = [el 0 2, el 1 2, el 3 2]
    ∧ fieldsSameAsCoded [tA, tB] = false := by decide +kernel

example : ∀ s ∈ [tA, tB], SortedLt ((s.dictTerms [98]).map (·.1)) := by decide +kernel

end Examples

end Zap

#print axioms Zap.enumerate_spec
#print axioms Zap.C06_dict
#print axioms Zap.C06_sorted
#print axioms Zap.C06_term
#print axioms Zap.C06_same_unchanged
#print axioms Zap.C06_D14_counterexample
