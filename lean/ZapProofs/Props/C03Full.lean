/-
  C03 (doc values), closed: `C03_content` and `C03_visit_built` with their
  dictionary hypotheses discharged by `C01_entries_all` and `C01_termsSorted`
  (via `Compose.buildSeg_dictTerms_sorted`).
-/
import ZapProofs.ComposeLemmas

namespace Zap
open Zap.Dv Zap.Stored Zap.Compose

/-- C03 (content).  For a non-empty well-formed batch and a name `n` of the field table the
    segment has a field record `f` for `n`; if `n` is indexed with doc values in the batch, `f.dv`
    is `docTermMap` of the field's dictionary with the extra doc values (encoded geo shapes) added:
    document numbers strictly ascending, in range, never an empty list, and the values recorded for
    ANY document number are the specified doc values (terms, then the shape if any); otherwise
    `f.dv = none`. -/
theorem C03_content_full (vectors : Bool) (mode : Nat) (b : Batch) (hwf : Spec.WF b) (hb : b ≠ [])
    (n : Name) (hn : n ∈ fieldTable b) :
    ∃ f, (buildSeg vectors mode b).field? n = some f ∧ f.name = n ∧
      (includeDocValues b n = true →
        ∃ terms, f.terms = terms.map (fun t => (t.1, PostRep.general t.2)) ∧
          f.dv = some (addShapes b n (docTermMap b.length terms)) ∧
          ((addShapes b n (docTermMap b.length terms)).map (·.1)).Pairwise (· < ·) ∧
          (∀ p ∈ addShapes b n (docTermMap b.length terms), p.1 < b.length ∧ p.2 ≠ []) ∧
          ∀ d, (((addShapes b n (docTermMap b.length terms)).find? (·.1 = d)).map (·.2)).getD [] =
            Spec.docValues vectors b n d) ∧
      (includeDocValues b n = false → f.dv = none) :=
  C03_content vectors mode b hb
    (fun n t => C01_entries_all vectors mode b hwf n t)
    (fun n => buildSeg_dictTerms_sorted vectors mode b n) n hn

/-- C03 (end to end): on the segment built from a well-formed batch, with any reachable visit
    state (any order of visits, state reused, also across segments), a visit of `doc` delivers for
    each listed name (in order, per occurrence) the specified doc values of the document (its terms
    ascending, then the encoded shape of a geo-shape field) — nothing for names without doc values,
    unknown names, or documents beyond the batch. -/
theorem C03_visit_built_full (vectors : Bool) (mode : Nat) (b : Batch) (hwf : Spec.WF b)
    (segOf : Nat → Seg) (tag cs : Nat) (htag : segOf tag = buildSeg vectors mode b)
    (fields : List Name) (st : Option DvState) (hst : Reach segOf cs fields st) (doc : Nat) :
    ((buildSeg vectors mode b).visitDocValues tag cs st fields doc).2 =
      fields.flatMap (fun n => (Spec.docValues vectors b n doc).map (fun t => (n, t))) :=
  C03_visit_built vectors mode b
    (fun n t => C01_entries_all vectors mode b hwf n t)
    (fun n => buildSeg_dictTerms_sorted vectors mode b n)
    segOf tag cs htag fields st hst doc

/-! ### Concrete instance: the batch of `C03Ex` -/

namespace C03Ex

theorem exB_wf : Spec.WF exB := by constructor <;> decide +kernel

/-- the theorem applied to a state that has already visited documents 2 and 0 (so it carries a
    loaded chunk); the specified values evaluated -/
example :
    (seg1.visitDocValues 0 2
      (some (seg1.visitDocValues 0 2 (some (seg1.visitDocValues 0 2 none flds 2).1) flds 0).1) flds 2).2 =
    [(tagN, w), (tagN, x), (tagN, z), (tagN, w), (tagN, x), (tagN, z)] := by
  exact (C03_visit_built_full false 0 exB exB_wf one 0 2 rfl flds _
    (Reach.visit (segOf := one) 0 0 (Reach.visit (segOf := one) 0 2 Reach.init)) 2).trans (by decide +kernel)

/-- `C03_content_full` on the doc-value field `tag` -/
example : tagN ∈ fieldTable exB ∧ includeDocValues exB tagN = true ∧
    ∀ d, Spec.docValues false exB tagN d = (([(0, [x, y]), (2, [w, x, z])].find? (·.1 = d)).map (·.2)).getD [] := by
  refine ⟨by decide +kernel, by decide +kernel, ?_⟩
  intro d
  obtain ⟨f, hf, _, h1, _⟩ := C03_content_full false 0 exB exB_wf (by simp [exB]) tagN (by decide +kernel)
  obtain ⟨terms, _, hdv, _, _, hrec⟩ := h1 (by decide +kernel)
  have hseg : (seg1.field? tagN).map (·.dv) = some (some [(0, [x, y]), (2, [w, x, z])]) := by decide +kernel
  rw [show seg1 = buildSeg false 0 exB from rfl, hf] at hseg
  simp only [Option.map_some, Option.some.injEq, hdv] at hseg
  rw [← hrec d, hseg]

theorem exG_wf : Spec.WF exG := by constructor <;> decide +kernel

/-- `C03_visit_built_full` on the geo-shape batch, with a state that has already visited
    documents 2 and 1: document 1 has no terms, only its shape; document 2 its two terms and the
    shape of its last geo-shape instance -/
example :
    (segG.visitDocValues 0 2 (some (segG.visitDocValues 0 2 none [geoN] 2).1) [geoN] 1).2 = [(geoN, [0x01, 0x02])] ∧
    (segG.visitDocValues 0 2 (some (segG.visitDocValues 0 2 (some (segG.visitDocValues 0 2 none [geoN] 2).1)
        [geoN] 1).1) [geoN] 2).2 = [(geoN, w), (geoN, z), (geoN, [0xbb, 0xcc])] :=
  ⟨(C03_visit_built_full false 0 exG exG_wf (fun _ => segG) 0 2 rfl [geoN] _
      (Reach.visit (segOf := fun _ => segG) 0 2 Reach.init) 1).trans (by decide +kernel),
   (C03_visit_built_full false 0 exG exG_wf (fun _ => segG) 0 2 rfl [geoN] _
      (Reach.visit (segOf := fun _ => segG) 0 1 (Reach.visit (segOf := fun _ => segG) 0 2 Reach.init)) 2).trans
      (by decide +kernel)⟩

end C03Ex

#print axioms C03_content_full
#print axioms C03_visit_built_full

end Zap
