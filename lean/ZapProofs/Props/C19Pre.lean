/-
  C19 (vector-engine failures surface), everything that does not depend on defect D6 being
  fixed (written while D6 was still present; D6 has since been fixed in /repo).  The instance
  theorem on the real `Gen.Facts.errFacts` lives in ZapProofs/Props/C19.lean.

  PROVED HERE
  * `engine_fault_surfaces_build` / `engine_fault_surfaces_merge`: for ANY fact list `fs`
    satisfying the decidable `c19SideCondition`, EVERY sequence of operations of
    `writeVectorIndexes` (resp. `mergeAndWriteVectorIndexes`) and EVERY position at which an
    engine call (or write) fails: the outermost call (`New` resp. `Merge`) returns an error;
    for merges the file is removed.  (Instances of `Persist.fault_any_position`.)
  * `c19SideCondition c19Expected = true` where `c19Expected` is the current fact list with the
    single entry (`faissVectorIndexSection.Persist`, `vo.writeVectorIndexes`) forced to
    `returned` - i.e. what the extractor had to produce once D6 was fixed (it now does:
    `C19.facts_eq_expected`).

  `c19SideCondition fs` says
  * no UNRECOGNISED entry;
  * every fact of `vectorIndexOpaque.writeVectorIndexes`, `vectorIndexOpaque.mergeAndWrite-
    VectorIndexes`, `faissVectorIndexSection.Persist`, `faissVectorIndexSection.Merge` passes its
    error on (`returned` / `cleanupReturned`);
  * the links upward exist and pass the error on:
      build: Persist:`vo.writeVectorIndexes`, convert:`x.Persist`, newWithChunkMode:`s.convert`;
      merge: Merge:`vo.mergeAndWriteVectorIndexes`, mergeToWriter:`x.Merge`,
             mergeSegmentBases:`mergeToWriter`, the last one `cleanupReturned`;
  * the engine calls are present in both routines (factory, direct map, train, add, serialise;
    for merges also deserialise and reconstruct);
  * `indexes released`: in the merge routine the calls made while reconstructed indexes are
    alive (`faiss.ReadIndexFromBuffer`, `..ReconstructBatch`) are `cleanupReturned`
    (`freeReconstructedIndexes` before the return).

  MODELLED, NOT VERIFIED
  * The engine is a stand-in in the sandbox (fakefaiss); an engine call is an `other`
    operation that fails only by an injected fault.
  * The deferred `Close` of the rebuilt index and what `freeReconstructedIndexes` frees are by
    reading; the harness checks the live-index counter.
  * The call graph (which Go function a callee string denotes) is by reading.
-/
import ZapProofs.Props.C17

namespace Zap.C19
open Zap.Gen Zap.Gen.ErrDisp Zap.Theory Zap.Theory.Persist

def fnWrite : String := "vectorIndexOpaque.writeVectorIndexes"
def fnMerge : String := "vectorIndexOpaque.mergeAndWriteVectorIndexes"

/-- The functions all of whose error-returning calls must pass the error on. -/
def vecFns : List String :=
  [fnWrite, fnMerge, "faissVectorIndexSection.Persist", "faissVectorIndexSection.Merge"]

/-- Dispositions of the calls of `callee` in `fn`; `[ignored]` if there is none (a deleted call
    must not pass vacuously). -/
def linkDisps (fs : List ErrFact) (fn callee : String) : List ErrDisp :=
  let ds := (fs.filter fun e => e.fn == fn && e.callee == callee).map (·.disp)
  if ds.isEmpty then [ignored] else ds

/-- The links from `writeVectorIndexes` up to `New`. -/
def upBuild (fs : List ErrFact) : List ErrDisp :=
  linkDisps fs "faissVectorIndexSection.Persist" "vo.writeVectorIndexes"
  ++ linkDisps fs "interim.convert" "x.Persist"
  ++ linkDisps fs "ZapPlugin.newWithChunkMode" "s.convert"

/-- The links from `mergeAndWriteVectorIndexes` up to the driver. -/
def upMerge (fs : List ErrFact) : List ErrDisp :=
  linkDisps fs "faissVectorIndexSection.Merge" "vo.mergeAndWriteVectorIndexes"
  ++ linkDisps fs "mergeToWriter" "x.Merge"
  ++ linkDisps fs "mergeSegmentBases" "mergeToWriter"

def expectedEngineCalls : List (String × String) := [
  (fnWrite, "faiss.IndexFactory"), (fnWrite, "faissIndex.SetDirectMap"),
  (fnWrite, "faissIndex.Train"), (fnWrite, "faissIndex.AddWithIDs"),
  (fnWrite, "faiss.WriteIndexIntoBuffer"), (fnWrite, "w.Write"),
  (fnMerge, "faiss.ReadIndexFromBuffer"), (fnMerge, "vecIndexes[i].index.ReconstructBatch"),
  (fnMerge, "faiss.IndexFactory"), (fnMerge, "faissIndex.SetDirectMap"),
  (fnMerge, "faissIndex.Train"), (fnMerge, "faissIndex.AddWithIDs"),
  (fnMerge, "faiss.WriteIndexIntoBuffer"), (fnMerge, "v.flushVectorIndex")
]

/-- The decidable side condition (see header). -/
def c19SideCondition (fs : List ErrFact) : Bool :=
  fs.all (fun e => !vecFns.contains e.fn || passes e.disp)
  && propagates (upBuild fs)
  && propagates (upMerge fs) && cleans (upMerge fs)
  && fs.all (fun e => !unrec e.fn && !unrec e.callee)
  && expectedEngineCalls.all (fun p => fs.any fun e => e.fn == p.1 && e.callee == p.2)
  && (linkDisps fs fnMerge "faiss.ReadIndexFromBuffer").all (· == cleanupReturned)
  && (linkDisps fs fnMerge "vecIndexes[i].index.ReconstructBatch").all (· == cleanupReturned)

/-- An operation of `writeVectorIndexes` seen from the caller of `New`. -/
def buildOp (fs : List ErrFact) (e : ErrFact) : Op := ⟨.other, e.disp :: upBuild fs⟩

/-- An operation of `mergeAndWriteVectorIndexes` seen from the caller of `Merge`. -/
def mergeOp (fs : List ErrFact) (e : ErrFact) : Op := ⟨.other, e.disp :: upMerge fs⟩

theorem fact_passes (fs : List ErrFact) (hsc : c19SideCondition fs = true) (e : ErrFact)
    (he : e ∈ fs) (hfn : vecFns.contains e.fn = true) : passes e.disp = true := by
  simp only [c19SideCondition, Bool.and_eq_true, List.all_eq_true] at hsc
  have := hsc.1.1.1.1.1.1.1 e he
  simp only [hfn, Bool.not_true, Bool.false_or] at this
  exact this

/-- C19, build path: for EVERY sequence of operations of `writeVectorIndexes` and EVERY failing
    position, `New` returns an error. -/
theorem engine_fault_surfaces_build (fs : List ErrFact) (hsc : c19SideCondition fs = true)
    (es : List ErrFact) (hes : ∀ e ∈ es, e ∈ fs ∧ e.fn = fnWrite) (p : Nat) (hp : p < es.length) :
    (run (some p) none (es.map (buildOp fs))).err.isSome = true := by
  have hup : propagates (upBuild fs) = true := by
    simp only [c19SideCondition, Bool.and_eq_true] at hsc
    exact hsc.1.1.1.1.1.1.2
  have hwc : wellChecked false (es.map (buildOp fs)) = true := by
    apply wellChecked_of_all_strict
    simp only [List.all_map, List.all_eq_true]
    intro e he
    obtain ⟨hmem, hfn⟩ := hes e he
    have hp := fact_passes fs hsc e hmem (by rw [hfn]; decide)
    simp only [propagates] at hup
    simp [Function.comp, strict, buildOp, propagates, hp, hup]
  exact (fault_any_position false _ p none hwc (by simpa using hp)).1

/-- C19, merge path: for EVERY sequence of operations of `mergeAndWriteVectorIndexes`, EVERY
    failing position and EVERY closing instant, `Merge` returns an error and the file is
    removed. -/
theorem engine_fault_surfaces_merge (fs : List ErrFact) (hsc : c19SideCondition fs = true)
    (es : List ErrFact) (hes : ∀ e ∈ es, e ∈ fs ∧ e.fn = fnMerge) (p : Nat) (closing : Option Nat)
    (hp : p < es.length) :
    (run (some p) closing (es.map (mergeOp fs))).err.isSome = true
    ∧ (run (some p) closing (es.map (mergeOp fs))).cleaned = true := by
  simp only [c19SideCondition, Bool.and_eq_true] at hsc
  have hup : propagates (upMerge fs) = true := hsc.1.1.1.1.1.2
  have hcl : cleans (upMerge fs) = true := hsc.1.1.1.1.2
  have hsc' : c19SideCondition fs = true := by
    simp only [c19SideCondition, Bool.and_eq_true]; exact hsc
  have hne : upMerge fs ≠ [] := by
    intro h; rw [h] at hcl; simp [cleans] at hcl
  have hwc : wellChecked true (es.map (mergeOp fs)) = true := by
    apply wellChecked_of_all_strict
    simp only [List.all_map, List.all_eq_true]
    intro e he
    obtain ⟨hmem, hfn⟩ := hes e he
    have hp := fact_passes fs hsc' e hmem (by rw [hfn]; decide)
    have hcl' : cleans (e.disp :: upMerge fs) = true := by
      simp only [cleans] at hcl ⊢
      rw [List.getLast?_cons_of_ne_nil hne]; exact hcl
    simp only [propagates] at hup
    simp [Function.comp, strict, mergeOp, propagates, hp, hup, hcl']
  have := fault_any_position true _ p closing hwc (by simpa using hp)
  exact ⟨this.1, this.2 rfl⟩

/-- `indexes_released`: under the side condition, the calls made while reconstructed indexes
    are alive free them before returning. -/
theorem indexes_released (fs : List ErrFact) (hsc : c19SideCondition fs = true) :
    ∀ e ∈ fs, e.fn = fnMerge →
      (e.callee = "faiss.ReadIndexFromBuffer" ∨ e.callee = "vecIndexes[i].index.ReconstructBatch") →
      e.disp = cleanupReturned := by
  intro e he hfn hc
  simp only [c19SideCondition, Bool.and_eq_true, List.all_eq_true, beq_iff_eq] at hsc
  have hmem : ∀ callee, e.callee = callee → e.disp ∈ linkDisps fs fnMerge callee := by
    intro callee hcal
    have : e.disp ∈ (fs.filter fun e => e.fn == fnMerge && e.callee == callee).map (·.disp) :=
      List.mem_map.mpr ⟨e, List.mem_filter.mpr ⟨he, by simp [hfn, hcal]⟩, rfl⟩
    unfold linkDisps
    simp only
    split
    · rename_i h; simp only [List.isEmpty_iff] at h; rw [h] at this; cases this
    · exact this
  rcases hc with hc | hc
  · exact hsc.1.2 _ (hmem _ hc)
  · exact hsc.2 _ (hmem _ hc)

/-! ### What the extractor must produce once D6 is fixed -/

/-- The current facts with the one defective entry repaired. -/
def c19Expected : List ErrFact :=
  Facts.errFacts.map fun e =>
    if e.fn == "faissVectorIndexSection.Persist" && e.callee == "vo.writeVectorIndexes"
    then { e with disp := returned } else e

theorem c19Expected_ok : c19SideCondition c19Expected = true := by decide +kernel

/-- On the repaired facts: EVERY operation sequence of `writeVectorIndexes`, EVERY failing
    position: `New` returns an error. -/
theorem C19_build_expected (es : List ErrFact)
    (hes : ∀ e ∈ es, e ∈ c19Expected ∧ e.fn = fnWrite) (p : Nat) (hp : p < es.length) :
    (run (some p) none (es.map (buildOp c19Expected))).err.isSome = true :=
  engine_fault_surfaces_build c19Expected c19Expected_ok es hes p hp

/-! ### Examples -/

/-- D6 in the model: with the link `Persist: vo.writeVectorIndexes` ignored, a failing engine
    call (position 1 of 3) is swallowed and `New` reports success: the side condition is not
    decoration. -/
example : run (some 1) none
    (List.replicate 3 (⟨.other, [returned, ignored, returned, returned]⟩ : Op))
    = ⟨none, false, []⟩ := by decide
example : wellChecked false
    (List.replicate 3 (⟨.other, [returned, ignored, returned, returned]⟩ : Op)) = false := by decide

/-- With the link repaired the same fault surfaces. -/
example : run (some 1) none
    (List.replicate 3 (⟨.other, [returned, returned, returned, returned]⟩ : Op))
    = ⟨some .io, false, []⟩ := by decide

/-- Other violations are rejected: an engine call whose error is dropped; a reconstruct failure
    that returns without freeing; a deleted engine call; `New` dropping convert's error. -/
def patch (fs : List ErrFact) (fn callee : String) (d : ErrDisp) : List ErrFact :=
  fs.map fun e => if e.fn == fn && e.callee == callee then { e with disp := d } else e

example : c19SideCondition (patch c19Expected fnWrite "faissIndex.Train" ignored) = false := by
  decide +kernel
example : c19SideCondition
    (patch c19Expected fnMerge "vecIndexes[i].index.ReconstructBatch" returned) = false := by
  decide +kernel
example : c19SideCondition
    (c19Expected.filter fun e => !(e.fn == fnWrite && e.callee == "faissIndex.AddWithIDs"))
    = false := by decide +kernel
example : c19SideCondition (patch c19Expected "ZapPlugin.newWithChunkMode" "s.convert" ignored)
    = false := by decide +kernel

end Zap.C19

#print axioms Zap.C19.engine_fault_surfaces_build
#print axioms Zap.C19.engine_fault_surfaces_merge
#print axioms Zap.C19.indexes_released
#print axioms Zap.C19.c19Expected_ok
#print axioms Zap.C19.C19_build_expected
