/-
  Property C07, reuse clause: "the same holds when a postings list or iterator object is passed
  back in as preallocation for a different term, field or segment".

  Model: ZapModel/Reuse.lean (the reuse branches of dict.go `postingsListInit`, posting.go
  `PostingsList.iterator`, thesaurus.go `synonymsListInit`, parametrised by which retained buffer
  is cleared); the flags of the real source are read from the GENERATED table
  `Zap.Gen.Facts.preservedCleared`.  Property theorems only; lemmas in ZapProofs/ReuseLemmas.lean.
-/
import ZapProofs.ReuseLemmas
import ZapProofs.Props.C07

namespace Zap
open Zap.Reuse

/-- REUSED POSTINGS LIST.  If the reuse branch `Clear()`s the retained bitmap, then whatever the
    recycled object held before (any previous segment / field / term / exclusion), looking up any
    (segment, field, term, exclusion) — `tgt` is what a fresh lookup yields, `tgt.rep = none` for an
    absent term — gives an object with the fresh object's `Count`, actual bitmap / 1-hit accessor and
    answers to every `Next` / `Advance` sequence under every detail flags. -/
theorem C07_reuse_list (fl : Flags) (hfl : fl.postings = true) (old : Option PLObj) (tgt : PList) :
    Beh (PLObj.lookup fl old tgt).view tgt := by
  cases hrep : tgt.rep with
  | none =>
    have ht : Hollow tgt := Or.inl hrep
    cases old with
    | none =>
      rw [view_lookup_absent_fresh fl tgt hrep]
      exact beh_hollow (Or.inl rfl) ht
    | some o =>
      rw [view_lookup_absent fl hfl o tgt hrep]
      refine beh_hollow ?_ ht
      cases o.postings with
      | none => exact Or.inl rfl
      | some _ => exact Or.inr rfl
  | some r =>
    cases r with
    | general es => rw [view_lookup_general fl old tgt es hrep]; exact Beh.rfl' tgt
    | oneHit d nb => rw [view_lookup_oneHit fl old tgt d nb hrep]; exact beh_oneHit tgt d nb 0 hrep

/-- "TERM NOT FOUND" on a recycled list (`postingsListInit` clears the bitmap, the list is returned
    without `read`): it is empty — count 0, nothing live, every call answers nil. -/
theorem C07_reuse_absent (fl : Flags) (hfl : fl.postings = true) (old : Option PLObj) (tgt : PList)
    (habs : tgt.rep = none) (f n l : Bool) (ops : List Op) :
    (PLObj.lookup fl old tgt).view.count = 0 ∧
    (It.create (PLObj.lookup fl old tgt).view f n l).live = [] ∧
    (It.create (PLObj.lookup fl old tgt).view f n l).run ops = ops.map (fun _ => none) := by
  obtain ⟨h1, h2⟩ := C07_reuse_list fl hfl old tgt
  have ht : Hollow tgt := Or.inl habs
  exact ⟨by rw [h1, hollow_count ht], by rw [(h2 f n l).1, hollow_live ht],
    by rw [(h2 f n l).2, hollow_run ht]⟩

/-- REUSED ITERATOR on any postings list `p` (fresh or itself recycled): if the reuse branch
    `reset()`s the two retained readers, then for every previous state of the iterator object (any
    readers, chunk bytes, positions, `nextLocs`, `nextSegmentLocs`, `buf` content) the recycled
    iterator answers as a fresh one.  The flags of `nextLocs`, `nextSegmentLocs`, `buf` are NOT
    hypotheses: those buffers are written before they are read (`fillLocs_shown`,
    `bytes1Hit_shown`). -/
theorem C07_reuse_iterator (fl : Flags) (h2 : fl.freqNormReader = true) (h3 : fl.locReader = true)
    (old : Option ItObj) (src : Src) (p : PList) (f n l : Bool) (ops : List Op) :
    (ItObj.recycle fl old src p f n l).live = (It.create p f n l).live ∧
    (ItObj.recycle fl old src p f n l).run ops = (It.create p f n l).run ops := by
  rw [run_it, ItObj.live, recycle_it fl h2 h3]
  exact ⟨rfl, rfl⟩

/-- C07, REUSE: recycled list, then recycled iterator on it, against the fresh objects. -/
theorem C07_reuse (fl : Flags) (h1 : fl.postings = true) (h2 : fl.freqNormReader = true)
    (h3 : fl.locReader = true)
    (oldList : Option PLObj) (oldIter : Option ItObj) (src : Src) (tgt : PList) (f n l : Bool)
    (ops : List Op) :
    let pl := (PLObj.lookup fl oldList tgt).view
    let it := ItObj.recycle fl oldIter src pl f n l
    pl.count = tgt.count ∧
    it.live = (It.create tgt f n l).live ∧
    it.run ops = (It.create tgt f n l).run ops := by
  intro pl it
  obtain ⟨b1, b2⟩ := C07_reuse_list fl h1 oldList tgt
  obtain ⟨i1, i2⟩ := C07_reuse_iterator fl h2 h3 oldIter src pl f n l ops
  exact ⟨b1, i1.trans (b2 f n l).1, i2.trans ((b2 f n l).2 ops)⟩

/-- … hence, with `C07_run` / `C07_count` / `C07_live`, the recycled objects meet the specification. -/
theorem C07_reuse_spec (fl : Flags) (h1 : fl.postings = true) (h2 : fl.freqNormReader = true)
    (h3 : fl.locReader = true)
    (oldList : Option PLObj) (oldIter : Option ItObj) (src : Src) (tgt : PList) (hwf : tgt.WF)
    (f n l : Bool) (ops : List Op) :
    let pl := (PLObj.lookup fl oldList tgt).view
    let it := ItObj.recycle fl oldIter src pl f n l
    pl.count = (Spec.live tgt).length ∧
    it.live = (Spec.live tgt).map (·.doc) ∧
    it.run ops = Spec.run (Spec.mkHit tgt f n l) (Spec.live tgt) ops := by
  intro pl it
  obtain ⟨a, b, c⟩ := C07_reuse fl h1 h2 h3 oldList oldIter src tgt f n l ops
  exact ⟨a.trans (C07_count tgt), b.trans (C07_live tgt f n l), c.trans (C07_run tgt hwf f n l ops)⟩

/-- the readers a recycled iterator USES and its bytes-read statistic are those of a fresh one
    (this is what `locReader.reset()` is observably for, see the example below) -/
theorem C07_reuse_readers (fl : Flags) (h2 : fl.freqNormReader = true) (h3 : fl.locReader = true)
    (old : Option ItObj) (src : Src) (p : PList) (es : List Entry) (hrep : p.rep = some (.general es))
    (f n l : Bool) :
    (ItObj.recycle fl old src p f n l).bytesRead = (ItObj.recycle fl none src p f n l).bytesRead ∧
    ((f || n || l) = true →
      (ItObj.recycle fl old src p f n l).fnR = (ItObj.recycle fl none src p f n l).fnR) ∧
    (l = true → (ItObj.recycle fl old src p f n l).locR = (ItObj.recycle fl none src p f n l).locR) :=
  recycle_readers fl h2 h3 old src p es hrep f n l

/-- REUSED SYNONYMS LIST: with `synonyms.Clear()`, the codes are those of the term looked up
    (none for an absent term), whatever the object held; the `buffer` flag is not needed
    (`buffer.Reset(roaringBytes)` precedes `ReadFrom`). -/
theorem C07_reuse_synonyms (fl : Flags) (hfl : fl.synonyms = true) (old : Option SLObj)
    (tgt : Option (List Nat)) (ex : Option (List Nat)) :
    (SLObj.lookup fl old tgt ex).codes = tgt.getD [] :=
  codes_lookup fl hfl old tgt ex

/-! ### The flags of the real source (generated facts) -/

/-- the generated table yields exactly the flags the theorems need (all cleared, except `buf`) -/
theorem C07_flags_extracted : flagsOf Gen.Facts.preservedCleared = some Flags.source := by decide +kernel

/-- exactly the modelled buffers survive `*rv = T{}`; every one has an entry; nothing UNRECOGNISED -/
theorem C07_preserved_ok : preservedOK Gen.Facts.preserved Gen.Facts.preservedCleared = true := by
  decide +kernel

/-- the expected entries, asserted positively -/
theorem C07_flags_entries :
    ("Dictionary.postingsListInit", "postings", true) ∈ Gen.Facts.preservedCleared ∧
    ("PostingsList.iterator", "freqNormReader", true) ∈ Gen.Facts.preservedCleared ∧
    ("PostingsList.iterator", "locReader", true) ∈ Gen.Facts.preservedCleared ∧
    ("PostingsList.iterator", "nextLocs", true) ∈ Gen.Facts.preservedCleared ∧
    ("PostingsList.iterator", "nextSegmentLocs", true) ∈ Gen.Facts.preservedCleared ∧
    ("PostingsList.iterator", "buf", false) ∈ Gen.Facts.preservedCleared ∧
    ("Thesaurus.synonymsListInit", "synonyms", true) ∈ Gen.Facts.preservedCleared ∧
    ("Thesaurus.synonymsListInit", "buffer", true) ∈ Gen.Facts.preservedCleared := by
  decide +kernel

/-- INSTANCE: for the flags read from the source of the tree being checked, reuse is safe. -/
theorem C07_reuse_source (fl : Flags) (hfl : flagsOf Gen.Facts.preservedCleared = some fl)
    (oldList : Option PLObj) (oldIter : Option ItObj) (src : Src) (tgt : PList) (hwf : tgt.WF)
    (f n l : Bool) (ops : List Op) :
    let pl := (PLObj.lookup fl oldList tgt).view
    let it := ItObj.recycle fl oldIter src pl f n l
    pl.count = (Spec.live tgt).length ∧
    it.live = (Spec.live tgt).map (·.doc) ∧
    it.run ops = Spec.run (Spec.mkHit tgt f n l) (Spec.live tgt) ops := by
  have : fl = Flags.source := by
    rw [C07_flags_extracted] at hfl
    exact (Option.some.inj hfl).symm
  subst this
  exact C07_reuse_spec Flags.source rfl rfl rfl oldList oldIter src tgt hwf f n l ops

/-- an extraction failure, a missing entry, a duplicated entry and an extra surviving field are
    all rejected -/
example :
    preservedOK (("Dictionary.postingsListInit", ["UNRECOGNISED reuse branch"]) :: Gen.Facts.preserved.drop 1)
      Gen.Facts.preservedCleared = false ∧
    preservedOK (("Dictionary.postingsListInit", ["postings", "except"]) :: Gen.Facts.preserved.drop 1)
      Gen.Facts.preservedCleared = false ∧
    flagsOf (Gen.Facts.preservedCleared.drop 1) = none ∧
    flagsOf (("Dictionary.postingsListInit", "postings", false) :: Gen.Facts.preservedCleared) = none ∧
    flagsOf (("Dictionary.postingsListInit", "postings", false) :: Gen.Facts.preservedCleared.drop 1) =
      some { Flags.source with postings := false } := by
  decide +kernel

/-! ### Non-vacuity, and why the two kinds of flag matter -/

namespace C07ReuseExample
open C07Example

/-- a list that last held the general postings {3, 5} of some other term -/
def usedList : PLObj :=
  { postings := some [3, 5], oneHit := none,
    stream := [ { doc := 3, freq := 1, norm := 1, locs := [] }, { doc := 5, freq := 1, norm := 1, locs := [] } ],
    except := none, chunkSize := 4, names := [[120]] }

/-- the lookup of a term that the new segment does not have -/
def absent : PList := { rep := none, except := some [7], chunkSize := 0, names := [[102]] }

def noClear : Flags := { Flags.source with postings := false }
def noFnReset : Flags := { Flags.source with freqNormReader := false }
def noLocReset : Flags := { Flags.source with locReader := false }

/-- with the source's flags: empty, though the object is structurally not the fresh one (the bitmap
    pointer is non-nil, so `Iterator()` does not return `emptyPostingsIterator`) -/
example :
    (PLObj.lookup Flags.source (some usedList) absent).view.count = 0 ∧
    (PLObj.lookup Flags.source (some usedList) absent).view.rep = some (.general []) ∧
    (PLObj.lookup Flags.source none absent).view.rep = none ∧
    (ItObj.recycle Flags.source none ⟨1, [], []⟩ (PLObj.lookup Flags.source (some usedList) absent).view
      true true true).run [.next, .advance 4] = [none, none] := by
  decide +kernel

/-- WITHOUT `postings.Clear()`: the absent term shows the previous term's documents -/
theorem no_clear_stale_postings :
    (PLObj.lookup noClear (some usedList) absent).view.count = 2 ∧
    (It.create (PLObj.lookup noClear (some usedList) absent).view false false false).run [.next, .next, .next] =
      [ some { doc := 3, freq := 0, norm := 0, locs := [] }, some { doc := 5, freq := 0, norm := 0, locs := [] },
        none ] ∧
    absent.count = 0 ∧
    (It.create absent false false false).run [.next, .next, .next] = [none, none, none] := by
  decide +kernel

/-- … whereas a FOUND term is immune (`FromBuffer` replaces the content): the flag matters only on
    the path that returns without `read` -/
example : (PLObj.lookup noClear (some usedList) p0).view.count = p0.count := by decide +kernel

/-- an iterator that was really used: created on another term (documents 0 and 1 in chunk 0, 6 in
    chunk 1) with all details, one `Next` consumed; its freq/norm reader has chunk 0 loaded and is
    positioned on the entry of document 1 (frequency 8) -/
def otherTerm : PList :=
  { rep := some (.general [ { doc := 0, freq := 9, norm := 1, locs := [ml 7] },
                            { doc := 1, freq := 8, norm := 1, locs := [ml 8] },
                            { doc := 6, freq := 7, norm := 1, locs := [] } ]),
    except := none, chunkSize := 4, names := [[120]] }

def usedIter : ItObj :=
  ((ItObj.recycle Flags.source none ⟨7, [3, 9], [2, 5]⟩ otherTerm true true true).step .next).1

example : usedIter.it.loaded = true ∧ usedIter.it.currChunk = 0 ∧ usedIter.it.fn.map (·.freq) = [8] ∧
    usedIter.bytesRead = 6 := by decide +kernel

def src0 : Src := ⟨1, [4, 9, 11, 15, 20], [6, 6, 10, 14, 18]⟩

/-- with the source's flags the recycled iterator answers as `C07_run` says -/
example :
    (ItObj.recycle Flags.source (some usedIter) src0 p0 true true true).run ops0 =
      (It.create p0 true true true).run ops0 ∧
    (ItObj.recycle Flags.source (some usedIter) src0 p0 true true true).run ops0 =
    [ some { doc := 1,  freq := 2, norm := 7, locs := [loc 1, loc 5] },
      some { doc := 4,  freq := 1, norm := 9, locs := [] },
      some { doc := 9,  freq := 3, norm := 5, locs := [loc 3] },
      some { doc := 17, freq := 1, norm := 6, locs := [loc 6] },
      none, none ] := by
  decide +kernel

/-- the new term: `p0` of C07Example without exclusion (first hit: document 1, in chunk 0) -/
def pNew : PList := { p0 with except := none }

/-- WITHOUT `freqNormReader.reset()`: `currChunk` is 0 again (struct cleared) and the first hit of
    the new term lies in chunk 0, but `isNil()` is false because the reader still holds the OLD
    term's chunk — `loadChunk` is skipped and document 1 is reported with the old term's frequency 8
    and norm 1 (and no locations: the location reader WAS reset) instead of 2 / 7 / locations 1, 5 -/
theorem no_reset_stale_chunk :
    (ItObj.recycle noFnReset (some usedIter) src0 pNew true true true).run [.next] =
      [some { doc := 1, freq := 8, norm := 1, locs := [] }] ∧
    (It.create pNew true true true).run [.next] =
      [some { doc := 1, freq := 2, norm := 7, locs := [loc 1, loc 5] }] ∧
    (ItObj.recycle Flags.source (some usedIter) src0 pNew true true true).run [.next] =
      [some { doc := 1, freq := 2, norm := 7, locs := [loc 1, loc 5] }] := by
  decide +kernel

/-- WITHOUT `locReader.reset()` the hits are still right on this run (the first access loads the
    chunk into both readers because the freq/norm reader `isNil()`), but `BytesRead()` right after
    creation carries the old reader's count -/
example :
    (ItObj.recycle noLocReset (some usedIter) src0 p0 true true true).run ops0 =
      (It.create p0 true true true).run ops0 ∧
    (ItObj.recycle noLocReset (some usedIter) src0 p0 true true true).bytesRead = 15 ∧
    (ItObj.recycle Flags.source (some usedIter) src0 p0 true true true).bytesRead = 12 ∧
    (ItObj.recycle Flags.source none src0 p0 true true true).bytesRead = 12 := by
  decide +kernel

/-- `buf`, `nextLocs`, `nextSegmentLocs`: stale content is overwritten before it is read -/
example :
    (fillLocs ⟨2, [loc 90, loc 91, loc 92]⟩ [loc 1, loc 5, loc 6]) =
      (⟨2, [loc 1, loc 5, loc 92]⟩, [loc 1, loc 5, loc 6]) ∧
    bytes1Hit (some (List.replicate 20 255)) [2, 77] = (some ([2, 77] ++ List.replicate 18 255), [2, 77]) ∧
    bytes1Hit none [2, 77] = (some ([2, 77] ++ List.replicate 18 0), [2, 77]) := by
  decide +kernel

/-- a recycled list for a 1-hit term, then for a general term, on a list that last held a 1-hit -/
example :
    (PLObj.lookup Flags.source (some usedList) p1).view.count = 1 ∧
    (It.create (PLObj.lookup Flags.source (some usedList) p1).view true true false).run [.advance 3, .next] =
      [ some { doc := 5, freq := 1, norm := 77, locs := [] }, none ] ∧
    (PLObj.lookup Flags.source (some (PLObj.lookup Flags.source none p1)) p0).view.count = 4 := by
  decide +kernel

/-- synonyms list: stale codes for an absent term without `Clear()` -/
example :
    (SLObj.lookup Flags.source (some ⟨some [11, 12], [1], none⟩) none none).codes = [] ∧
    (SLObj.lookup { Flags.source with synonyms := false } (some ⟨some [11, 12], [1], none⟩) none none).codes = [11, 12] ∧
    (SLObj.lookup { Flags.source with synonyms := false } (some ⟨some [11, 12], [1], none⟩) (some [5]) none).codes = [5] := by
  decide +kernel

end C07ReuseExample

#print axioms C07_reuse_list
#print axioms C07_reuse_absent
#print axioms C07_reuse_iterator
#print axioms C07_reuse
#print axioms C07_reuse_spec
#print axioms C07_reuse_readers
#print axioms C07_reuse_synonyms
#print axioms C07_flags_extracted
#print axioms C07_preserved_ok
#print axioms C07_flags_entries
#print axioms C07_reuse_source
#print axioms C07ReuseExample.no_clear_stale_postings
#print axioms C07ReuseExample.no_reset_stale_chunk

end Zap
