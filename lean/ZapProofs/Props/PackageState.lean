/-
  Package-level state of the library (C10: a build depends only on its batch; C11: any number of
  goroutines may read a segment at once).

  Whatever lives in a package-level variable is shared by every build, merge and reader of the
  process.  `Gen.Facts.packageVars` is REGENERATED from `/repo` on every run: every package-level
  `var` with the kind of thing it holds.  Numbers, strings, error sentinels and function hooks aside,
  the list is asserted here entry by entry, each with the reason it is harmless:

  * two `sync.Pool`s (their discipline is the subject of `C11_pool` / `C10_builder_pool`);
  * the ten shared "empty" objects (never written: `C07_reuse`, `C08_dict` and the reuse histories
    of the correspondence runs cover the places that could);
  * `segmentSections` + its mutex and `invertedTextIndexSectionExclusionChecks`: filled in `init()`,
    read afterwards;
  * `termSeparatorSplitSlice`: a one-byte constant; `freqHasLocs1Hit`: a number computed once.

  A scratch buffer, a cache, a third pool or another sentinel hoisted to package level (several seeded
  changes did exactly that "to save an allocation") changes the list and breaks the obligation - also
  when the data race it creates is not hit by the race-detector runs.
-/
import ZapModel.Gen.Facts

namespace Zap.PackageState
open Zap.Gen.Facts

/-- kinds that cannot carry state from one call to the next (or are hooks set by the application) -/
def plainKind (k : String) : Bool := k == "scalar" || k == "error" || k == "func"

/-- every other package-level variable, by name -/
def expectedShared : List (String × String) := [
  ("emptyDictionary", "empty:Dictionary"),
  ("emptyDictionaryIterator", "empty:DictionaryIterator"),
  ("emptyPostingsIterator", "empty:PostingsIterator"),
  ("emptyPostingsList", "empty:PostingsList"),
  ("emptySynonymsIterator", "empty:SynonymsIterator"),
  ("emptySynonymsList", "empty:SynonymsList"),
  ("emptyThesaurus", "empty:Thesaurus"),
  ("emptyThesaurusIterator", "empty:ThesaurusIterator"),
  ("emptyVecPostingsIterator", "empty:VecPostingsIterator"),
  ("emptyVecPostingsList", "empty:VecPostingsList"),
  ("freqHasLocs1Hit", "call:encodeFreqHasLocs"),
  ("interimPool", "pool"),
  ("invertedTextIndexSectionExclusionChecks", "slice"),
  ("segmentSections", "map"),
  ("segmentSectionsMutex", "struct"),
  ("termSeparatorSplitSlice", "slice"),
  ("visitDocumentCtxPool", "pool")
]

/-- the shared package-level objects of the current source are exactly the known ones -/
theorem package_state_known :
    packageVars.filter (fun p => !plainKind p.2) = expectedShared := by decide

/-- nothing the extractor could not classify -/
theorem package_state_classified : packageVars.all (fun p => p.2 != "other") = true := by decide

end Zap.PackageState

#print axioms Zap.PackageState.package_state_known
#print axioms Zap.PackageState.package_state_classified
