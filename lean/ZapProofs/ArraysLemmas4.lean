/-
  ZapProofs.ArraysLemmas4: the fill pass keeps every window exact
  (`fill_regions_exact`), and the assembly: what `writeDicts` reads back from
  the shared arrays is, per (field, term), what the entry-level model holds.
-/
import ZapProofs.ArraysLemmas3

namespace Zap.Arr
open Zap

/-- the appends that went to postings list `pid` (`ks[pid]` is its (field, term)) -/
def evsAt (ks : List Key) (pid : Nat) (evs : List Ev) : List Ev :=
  evs.filter (fun e => ks[pid]? = some e.key)

theorem evsAt_append (ks : List Key) (pid : Nat) (a b : List Ev) :
    evsAt ks pid (a ++ b) = evsAt ks pid a ++ evsAt ks pid b := by
  simp [evsAt]

theorem evsAt_eq_filter (ks : List Key) (pid : Nat) (k : Key) (hk : ks[pid]? = some k) (evs : List Ev) :
    evsAt ks pid evs = evs.filter (fun e => e.key = k) := by
  unfold evsAt
  apply List.filter_congr
  intro e _
  rw [hk]
  apply decide_eq_decide.2
  constructor
  · intro h; exact (Option.some.inj h).symm
  · intro h; rw [h]

/-- The invariant of the fill pass after the appends `done`: for every postings list, the number of
    appends so far does not exceed the count (`Exact.room`), the slice is still a window of the shared
    array at its carved offset (`Exact.hdr`; the windows are pairwise disjoint, `windows_disjoint`), and
    the window holds exactly the appended elements (`Exact.cells`) — for both arrays. -/
structure FillInv (c : Counts) (ks : List Key) (S : Fill) (done : List Ev) : Prop where
  notBad : S.bad = false
  fn : Exact S.fn c.nT (fun pid => (evsAt ks pid done).map Ev.cell)
  loc : Exact S.loc c.nL (fun pid => (evsAt ks pid done).flatMap Ev.locs)

theorem pushAll_if {α : Type} [Inhabited α] (A : Arena α) (pid : Nat) (xs : List α) :
    (if xs.length > 0 then A.pushAll pid xs else A) = A.pushAll pid xs := by
  cases xs with
  | nil => rfl
  | cons x xs => simp

theorem fillInv_step (nF : Nat) (c : Counts) (vs : List Visit) (ks : List Key) (hc : CInv nF c vs ks)
    (S : Fill) (done : List Ev) (ev : Ev) (h : FillInv c ks S done)
    (pid : Nat) (hpid : ks[pid]? = some ev.key)
    (hroomT : (evsAt ks pid done).length < c.nT.getD pid 0)
    (hroomL : ((evsAt ks pid done).flatMap Ev.locs).length + ev.locs.length ≤ c.nL.getD pid 0) :
    FillInv c ks (fillEv c S ev) (done ++ [ev]) := by
  have hlt : pid < ks.length := hc.lt hpid
  have hlook : lookup ev.term (c.dicts.getD ev.fid []) = some pid := (hc.look ev.fid ev.term pid).2 hpid
  have hstep : fillEv c S ev =
      { S with fn := S.fn.push pid ev.cell, loc := S.loc.pushAll pid ev.locs } := by
    unfold fillEv
    rw [hlook]
    simp only [pushAll_if]
  have hsame : evsAt ks pid [ev] = [ev] := by simp [evsAt, hpid]
  have hother : ∀ q, q ≠ pid → evsAt ks q [ev] = [] := by
    intro q hq
    unfold evsAt
    apply List.filter_eq_nil_iff.2
    intro e he
    have : e = ev := by simpa using he
    subst this
    simp only [decide_eq_true_eq]
    intro e2
    exact hq ((List.getElem?_inj hlt hc.nodup).1 (by rw [hpid, e2])).symm
  rw [hstep]
  refine ⟨h.notBad, ?_, ?_⟩
  · show Exact (S.fn.push pid ev.cell) c.nT _
    apply exact_push S.fn c.nT _ _ pid ev.cell h.fn (by rw [hc.lenT]; exact hlt)
    · simpa using hroomT
    · simp [evsAt_append, hsame]
    · intro q hq; simp [evsAt_append, hother q hq]
  · show Exact (S.loc.pushAll pid ev.locs) c.nL _
    apply exact_pushAll ev.locs S.loc c.nL _ _ pid h.loc (by rw [hc.lenL]; exact hlt)
    · exact hroomL
    · simp [evsAt_append, hsame]
    · intro q hq; simp [evsAt_append, hother q hq]

/-- The fill pass preserves the invariant, provided the totals over the whole pass respect the
    counts and every append's key was seen by the count pass. -/
theorem fill_regions_exact (nF : Nat) (c : Counts) (vs : List Visit) (ks : List Key) (hc : CInv nF c vs ks)
    (todo : List Ev) (S : Fill) (done : List Ev) (h : FillInv c ks S done)
    (hkeys : ∀ ev ∈ todo, ev.key ∈ ks)
    (hT : ∀ pid, pid < ks.length → (evsAt ks pid (done ++ todo)).length ≤ c.nT.getD pid 0)
    (hL : ∀ pid, pid < ks.length →
      ((evsAt ks pid (done ++ todo)).flatMap Ev.locs).length ≤ c.nL.getD pid 0) :
    FillInv c ks (todo.foldl (fillEv c) S) (done ++ todo) := by
  induction todo generalizing S done with
  | nil => simpa using h
  | cons ev todo ih =>
    obtain ⟨pid, hpid⟩ := List.mem_iff_getElem?.1 (hkeys ev (by simp))
    have hlt : pid < ks.length := hc.lt hpid
    have hsame : evsAt ks pid [ev] = [ev] := by simp [evsAt, hpid]
    have hsplit : done ++ ev :: todo = (done ++ [ev]) ++ todo := by simp
    have h1 := hT pid hlt
    have h2 := hL pid hlt
    rw [hsplit, evsAt_append, evsAt_append, hsame] at h1 h2
    simp only [List.length_append, List.flatMap_append, List.length_cons, List.length_nil,
      List.flatMap_cons, List.flatMap_nil, List.append_nil] at h1 h2
    have hstep := fillInv_step nF c vs ks hc S done ev h pid hpid (by omega) (by omega)
    rw [List.foldl_cons, hsplit]
    apply ih _ _ hstep (fun e he => hkeys e (by simp [he]))
    · rw [← hsplit]; exact hT
    · rw [← hsplit]; exact hL

/-! ### assembly -/

theorem lookup_filterMap_keys {β : Type} (g : Bytes → Option β) (t : Bytes) (l : List Bytes) :
    lookup t (l.filterMap (fun k => (g k).map (fun v => (k, v)))) = if t ∈ l then g t else none := by
  induction l with
  | nil => rfl
  | cons k l ih =>
    rw [List.filterMap_cons]
    by_cases e : t = k
    · subst e
      cases hg : g t with
      | none => simp [ih]; intro _; exact hg
      | some v => simp [lookup]
    · have : ¬ k = t := fun x => e x.symm
      cases hg : g k with
      | none => simp [ih, e]
      | some v => simp [lookup, ih, e]

theorem lookup_none_of_not_mem {β : Type} (t : Bytes) (d : List (Bytes × β)) (h : t ∉ d.map (·.1)) :
    lookup t d = none := by
  induction d with
  | nil => rfl
  | cons p d ih =>
    obtain ⟨k, v⟩ := p
    have h1 : ¬ t = k := fun e => h (by simp [e])
    have h2 : t ∉ d.map (·.1) := fun e => h (by simp [e])
    simp [lookup, h1, ih h2]

theorem lookup_dictOf (S : Fill) (d : List (Bytes × Nat)) (t : Bytes) :
    lookup t (dictOf S d) =
      (lookup t d).bind (fun pid => if (readBack S pid).isEmpty then none else some (readBack S pid)) := by
  unfold dictOf
  rw [lookup_filterMap_keys (fun t => (lookup t d).bind
    (fun pid => let es := readBack S pid; if es.isEmpty then none else some es))]
  by_cases h : t ∈ sortNames (d.map (·.1))
  · rw [if_pos h]
  · rw [if_neg h, lookup_none_of_not_mem t d (fun e => h (mem_sortNames.2 e))]
    rfl

theorem getD_map_nil {α β : Type} (F : List α → List β) (hF : F [] = []) (l : List (List α)) (i : Nat) :
    (l.map F).getD i [] = F (l.getD i []) := by
  rw [List.getD_eq_getElem?_getD, List.getD_eq_getElem?_getD, List.getElem?_map]
  cases l[i]? with
  | none => simp [hF]
  | some x => rfl

theorem fieldIdOf_getElem {tbl : List Name} (hnd : tbl.Nodup) (i : Nat) (h : i < tbl.length) :
    fieldIdOf tbl tbl[i] = i := by
  have hm : tbl[i] ∈ tbl := List.getElem_mem h
  have h1 := fieldIdOf_lt hm
  have h2 := getD_fieldIdOf hm
  rw [List.getD_eq_getElem?_getD, List.getElem?_eq_getElem h1] at h2
  simp only [Option.getD_some] at h2
  have : tbl[fieldIdOf tbl tbl[i]]? = tbl[i]? := by
    rw [List.getElem?_eq_getElem h1, List.getElem?_eq_getElem h, h2]
  exact (List.getElem?_inj h1 hnd).1 this

/-- The state after the whole fill pass: every window exact, nothing panicked. -/
theorem fillPass_inv (staleFN : List FN) (staleLoc : List MLoc) (vectors : Bool) (b : Batch)
    (hb : ∀ d ∈ b, DocTermsDistinct d) :
    ∃ ks, CInv (fieldTable b).length (countPass (fieldTable b) b) (visits (fieldTable b) b) ks ∧
      FillInv (countPass (fieldTable b) b) ks
        (fillPass vectors (fieldTable b) (countPass (fieldTable b) b)
          (initFill (countPass (fieldTable b) b) staleFN staleLoc) b)
        (events vectors (fieldTable b) b) := by
  obtain ⟨ks, hc, htot⟩ := countPass_cinv b
  refine ⟨ks, hc, ?_⟩
  generalize hcdef : countPass (fieldTable b) b = c at hc htot ⊢
  have h0 : FillInv c ks (initFill c staleFN staleLoc) [] :=
    ⟨rfl, exact_init staleFN c.nT c.totTFs htot, exact_init staleLoc c.nL c.totLocs (hc.totL.trans hc.sumL.symm)⟩
  have hbound := batch_bounds vectors b hb
  have hgetT : ∀ pid k, ks[pid]? = some k → c.nT.getD pid 0 = cntV k (visits (fieldTable b) b) := by
    intro pid k hk
    rw [hc.nT, List.getD_eq_getElem?_getD, List.getElem?_map, hk]; rfl
  have hgetL : ∀ pid k, ks[pid]? = some k → c.nL.getD pid 0 = wV k (visits (fieldTable b) b) := by
    intro pid k hk
    rw [hc.nL, List.getD_eq_getElem?_getD, List.getElem?_map, hk]; rfl
  rw [fillPass_eq]
  have := fill_regions_exact _ c _ ks hc (events vectors (fieldTable b) b) _ [] h0 ?_ ?_ ?_
  · simpa using this
  · intro ev hev
    apply (hc.mem ev.key).2
    have h1 : 0 < cntE ev.key (events vectors (fieldTable b) b) := by
      unfold cntE
      exact List.length_pos_of_mem (List.mem_filter.2 ⟨hev, by simp⟩)
    have := (hbound ev.key).1
    omega
  · intro pid hlt
    have hk : ks[pid]? = some ks[pid] := List.getElem?_eq_getElem hlt
    rw [List.nil_append, evsAt_eq_filter ks pid _ hk, hgetT pid _ hk]
    exact (hbound ks[pid]).1
  · intro pid hlt
    have hk : ks[pid]? = some ks[pid] := List.getElem?_eq_getElem hlt
    rw [List.nil_append, evsAt_eq_filter ks pid _ hk, hgetL pid _ hk]
    exact (hbound ks[pid]).2

/-- what `writeDicts` reads for postings list `pid` -/
theorem readBack_exact (c : Counts) (ks : List Key) (S : Fill) (evs : List Ev) (h : FillInv c ks S evs)
    (hlenT : c.nT.length = ks.length) (hlenL : c.nL.length = ks.length)
    (pid : Nat) (hlt : pid < ks.length) :
    readBack S pid = (evsAt ks pid evs).map Ev.entry := by
  unfold readBack
  rw [exact_read S.fn c.nT _ pid h.fn (by rw [hlenT]; exact hlt),
    exact_read S.loc c.nL _ pid h.loc (by rw [hlenL]; exact hlt)]
  exact splitLocs_events _

theorem arrays_refine_from (staleFN : List FN) (staleLoc : List MLoc) (vectors : Bool) (b : Batch)
    (hb : ∀ d ∈ b, DocTermsDistinct d) (fid : Nat) (term : Bytes) :
    lookup term ((buildDictsArraysFrom staleFN staleLoc vectors b).getD fid []) =
      lookup term ((processDocs vectors (fieldTable b) b).getD fid []) := by
  obtain ⟨ks, hc, hfill⟩ := fillPass_inv staleFN staleLoc vectors b hb
  unfold buildDictsArraysFrom buildWith
  generalize hcdef : countPass (fieldTable b) b = c at hc hfill ⊢
  generalize hSdef : fillPass vectors (fieldTable b) c (initFill c staleFN staleLoc) b = S at hfill ⊢
  have hds : dictsOf c S = c.dicts.map (dictOf S) := by
    unfold dictsOf
    rw [hfill.notBad, hfill.fn.notBad, hfill.loc.notBad]; rfl
  rw [hds, getD_map_nil (dictOf S) rfl, lookup_dictOf]
  by_cases hfid : fid < (fieldTable b).length
  · -- a field of the table
    have hn : (fieldTable b)[fid] ∈ fieldTable b := List.getElem_mem hfid
    have hid : fieldIdOf (fieldTable b) (fieldTable b)[fid] = fid :=
      fieldIdOf_getElem (fieldTable_nodup b) fid hfid
    have hR := dget_processDocs vectors (fieldTable b) _ hn term b hb
    unfold dget at hR
    rw [hid] at hR
    rw [hR]
    have hE := events_key vectors (fieldTable b) _ hn term b hb
    rw [hid] at hE
    cases hl : lookup term (c.dicts.getD fid []) with
    | none =>
      have hnot : (fid, term) ∉ ks := (hc.look_none fid term).1 hl
      have h0 : cntV (fid, term) (visits (fieldTable b) b) = 0 :=
        Nat.eq_zero_of_not_pos (fun h => hnot ((hc.mem _).2 h))
      have h1 := (batch_bounds vectors b hb (fid, term)).1
      have h2 : (events vectors (fieldTable b) b).filter (fun e => decide (e.key = (fid, term))) = [] := by
        apply List.length_eq_zero_iff.1
        unfold cntE at h1; omega
      rw [h2] at hE
      rw [← hE]; rfl
    | some pid =>
      have hk : ks[pid]? = some (fid, term) := (hc.look fid term pid).1 hl
      have hlt : pid < ks.length := hc.lt hk
      have hrb := readBack_exact c ks S _ hfill hc.lenT hc.lenL pid hlt
      rw [evsAt_eq_filter ks pid _ hk, hE] at hrb
      simp only [Option.bind_some, hrb]
      cases List.filterMap (fun p => entryOf vectors (fieldTable b) (fieldTable b)[fid] term p.2 p.1) b.zipIdx <;> rfl
  · -- beyond the table: no dictionary on either side
    have h1 : c.dicts.getD fid [] = [] := by
      rw [List.getD_eq_getElem?_getD, List.getElem?_eq_none (by rw [hc.dlen]; omega)]; rfl
    have h2 : (processDocs vectors (fieldTable b) b).getD fid [] = [] := by
      rw [List.getD_eq_getElem?_getD, List.getElem?_eq_none (by rw [length_processDocs]; omega)]; rfl
    rw [h1, h2]; rfl

theorem length_buildDictsArraysFrom (staleFN : List FN) (staleLoc : List MLoc) (vectors : Bool) (b : Batch)
    (hb : ∀ d ∈ b, DocTermsDistinct d) :
    (buildDictsArraysFrom staleFN staleLoc vectors b).length = (fieldTable b).length := by
  obtain ⟨ks, hc, hfill⟩ := fillPass_inv staleFN staleLoc vectors b hb
  unfold buildDictsArraysFrom buildWith dictsOf
  rw [hfill.notBad, hfill.fn.notBad, hfill.loc.notBad]
  simp [hc.dlen]

/-! ### the executable cross-check is sound and, on well-formed batches, always true -/

theorem dictsAgree_of_refine (A D : Dicts) (hlen : A.length = D.length)
    (h : ∀ fid t, lookup t (A.getD fid []) = lookup t (D.getD fid [])) : dictsAgree A D = true := by
  unfold dictsAgree
  simp only [Bool.and_eq_true, beq_iff_eq, List.all_eq_true, decide_eq_true_eq]
  exact ⟨hlen, fun fid _ t _ => h fid t⟩

theorem arraysAgree_of_distinct (vectors : Bool) (b : Batch) (hb : ∀ d ∈ b, DocTermsDistinct d) :
    arraysAgree vectors b = true := by
  unfold arraysAgree
  simp only [Bool.and_eq_true]
  constructor
  · apply dictsAgree_of_refine
    · rw [buildDictsArrays, length_buildDictsArraysFrom _ _ _ _ hb, length_processDocs]
    · exact arrays_refine_from [] [] vectors b hb
  · apply dictsAgree_of_refine
    · rw [length_buildDictsArraysFrom _ _ _ _ hb, length_processDocs]
    · exact arrays_refine_from _ _ vectors b hb

end Zap.Arr
