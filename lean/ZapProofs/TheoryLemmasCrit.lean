/-
  Lemmas for ZapModel.Theory.Lock (part 2, `Crit`): operations executed entirely under one
  mutex are atomic - every interleaving is a sequentialisation.
-/
import ZapModel.Theory.Lock

namespace Zap.Theory.Crit

variable {α σ τ : Type}

@[simp] theorem setThr_same (f : Nat → Thread α σ τ) (i : Nat) (t : Thread α σ τ) :
    setThr f i t i = t := by simp [setThr]

theorem setThr_other (f : Nat → Thread α σ τ) (i j : Nat) (t : Thread α σ τ) (h : j ≠ i) :
    setThr f i t j = f j := by simp [setThr, h]

theorem seqRun_append (impl : α → List (Micro σ τ)) (l0 : τ) (s0 : σ) (ops : List α) (o : α) :
    seqRun impl l0 s0 (ops ++ [o]) = opSem l0 (impl o) (seqRun impl l0 s0 ops) := by
  simp [seqRun, List.foldl_append]

theorem logOf_append_same (log : List (Nat × α)) (i : Nat) (op : α) :
    logOf (log ++ [(i, op)]) i = logOf log i ++ [op] := by
  simp [logOf, List.filter_append]

theorem logOf_append_other (log : List (Nat × α)) (i j : Nat)
    (op : α) (h : j ≠ i) :
    logOf (log ++ [(i, op)]) j = logOf log j := by
  have : (i == j) = false := by simpa using fun h' => h h'.symm
  simp [logOf, List.filter_append, this]

/-- The inductive invariant (for `locked = true`). -/
structure CInv (impl : α → List (Micro σ τ)) (l0 : τ) (s0 : σ) (progs : Nat → List α) (s : State α σ τ) : Prop where
  busy_owner : ∀ j, (s.thr j).busy = true → s.owner = some j
  owner_busy : ∀ k, s.owner = some k → (s.thr k).busy = true
  final_idle : s.owner = none → s.shared = seqRun impl l0 s0 (s.log.map (·.2))
  final_busy : ∀ k, s.owner = some k →
    (runMicro (s.thr k).cur s.shared (s.thr k).scratch).1 = seqRun impl l0 s0 (s.log.map (·.2))
  order : ∀ i, logOf s.log i ++ (s.thr i).todo = progs i

theorem cinv_init (impl : α → List (Micro σ τ)) (l0 : τ) (s0 : σ) (progs : Nat → List α) :
    CInv impl l0 s0 progs (init s0 l0 progs) where
  busy_owner := by intro j h; simp [init] at h
  owner_busy := by intro k h; simp [init] at h
  final_idle := by intro _; rfl
  final_busy := by intro k h; simp [init] at h
  order := by intro i; simp [init, logOf]

theorem cinv_step (impl : α → List (Micro σ τ)) (l0 : τ) (s0 : σ) (progs : Nat → List α) (s : State α σ τ)
    (i : Nat) (hI : CInv impl l0 s0 progs s) : CInv impl l0 s0 progs (step impl true l0 s i) := by
  cases hb : (s.thr i).busy with
  | true =>
    have hown : s.owner = some i := hI.busy_owner i hb
    cases hc : (s.thr i).cur with
    | cons μ r =>
      have hstep : step impl true l0 s i =
          { s with shared := (μ s.shared (s.thr i).scratch).1,
                   thr := setThr s.thr i { s.thr i with cur := r,
                                                        scratch := (μ s.shared (s.thr i).scratch).2 } } := by
        simp [step, hb, hc]
      rw [hstep]
      refine ⟨?_, ?_, ?_, ?_, ?_⟩
      · intro j hj
        by_cases hji : j = i
        · subst hji; exact hown
        · simp only [setThr_other _ _ _ _ hji] at hj; exact hI.busy_owner j hj
      · intro k hk
        have hki : k = i := by
          have : some k = some i := hk.symm.trans hown
          exact Option.some.inj this
        subst hki; simpa using hb
      · intro h; simp [hown] at h
      · intro k hk
        have hki : k = i := by
          have : some k = some i := hk.symm.trans hown
          exact Option.some.inj this
        subst hki
        have := hI.final_busy k hown
        rw [hc] at this
        simpa [runMicro] using this
      · intro j
        by_cases hji : j = i
        · subst hji; simpa using hI.order j
        · simp only [setThr_other _ _ _ _ hji]; exact hI.order j
    | nil =>
      have hstep : step impl true l0 s i =
          { s with owner := none, thr := setThr s.thr i { s.thr i with busy := false } } := by
        simp [step, hb, hc]
      rw [hstep]
      refine ⟨?_, ?_, ?_, ?_, ?_⟩
      · intro j hj
        by_cases hji : j = i
        · subst hji; simp at hj
        · simp only [setThr_other _ _ _ _ hji] at hj
          have := hI.busy_owner j hj
          rw [hown] at this
          exact absurd (Option.some.inj this).symm hji
      · intro k hk; simp at hk
      · intro _
        have := hI.final_busy i hown
        rw [hc] at this
        simpa [runMicro] using this
      · intro k hk; simp at hk
      · intro j
        by_cases hji : j = i
        · subst hji; simpa using hI.order j
        · simp only [setThr_other _ _ _ _ hji]; exact hI.order j
  | false =>
    cases ht : (s.thr i).todo with
    | nil =>
      have hstep : step impl true l0 s i = s := by simp [step, hb, ht]
      rw [hstep]; exact hI
    | cons op rest =>
      cases ho : s.owner with
      | some k =>
        have hstep : step impl true l0 s i = s := by simp [step, hb, ht, ho]
        rw [hstep]; exact hI
      | none =>
        have hstep : step impl true l0 s i =
            { s with owner := some i,
                     thr := setThr s.thr i { todo := rest, cur := impl op, busy := true, scratch := l0 },
                     log := s.log ++ [(i, op)] } := by
          simp [step, hb, ht, ho]
        rw [hstep]
        have hidle : ∀ j, (s.thr j).busy = false := by
          intro j
          cases hj : (s.thr j).busy with
          | false => rfl
          | true => have := hI.busy_owner j hj; rw [ho] at this; cases this
        refine ⟨?_, ?_, ?_, ?_, ?_⟩
        · intro j hj
          by_cases hji : j = i
          · subst hji; rfl
          · simp only [setThr_other _ _ _ _ hji] at hj
            rw [hidle j] at hj; cases hj
        · intro k hk
          have hki : k = i := (Option.some.inj hk).symm
          subst hki; simp
        · intro h; simp at h
        · intro k hk
          have hki : k = i := (Option.some.inj hk).symm
          subst hki
          simp only [setThr_same]
          simp only [List.map_append, List.map_cons, List.map_nil]
          rw [seqRun_append, ← hI.final_idle ho]
          rfl
        · intro j
          by_cases hji : j = i
          · subst hji
            simp only [setThr_same, logOf_append_same]
            have := hI.order j
            rw [ht] at this
            simpa using this
          · simp only [setThr_other _ _ _ _ hji, logOf_append_other _ _ _ _ hji]
            exact hI.order j

theorem cinv_exec (impl : α → List (Micro σ τ)) (l0 : τ) (s0 : σ) (progs : Nat → List α) (s : State α σ τ)
    (sched : List Nat) (hI : CInv impl l0 s0 progs s) : CInv impl l0 s0 progs (exec impl true l0 s sched) := by
  induction sched generalizing s with
  | nil => exact hI
  | cons i is ih => exact ih _ (cinv_step impl l0 s0 progs s i hI)

/-- GENERIC THEOREM (atomicity of critical sections): any number of threads, each running any
    sequence of operations, each operation any list of micro-steps executed under the one mutex.
    For EVERY schedule, in the reached state `s`:
    * the log is a merge of the threads' programs' executed prefixes, in program order;
    * whenever the mutex is free, the shared state is exactly the result of running the logged
      operations ONE AFTER THE OTHER in log order (each with its sequential meaning `opSem`);
    * whenever thread `k` is inside its critical section, completing its remaining micro-steps
      alone gives that sequential result. -/
theorem atomic (impl : α → List (Micro σ τ)) (l0 : τ) (s0 : σ) (progs : Nat → List α) (sched : List Nat) :
    let s := exec impl true l0 (init s0 l0 progs) sched
    (∀ i, logOf s.log i ++ (s.thr i).todo = progs i)
    ∧ (s.owner = none → s.shared = seqRun impl l0 s0 (s.log.map (·.2)))
    ∧ (∀ k, s.owner = some k →
        (runMicro (s.thr k).cur s.shared (s.thr k).scratch).1 = seqRun impl l0 s0 (s.log.map (·.2))) := by
  have hI := cinv_exec impl l0 s0 progs _ sched (cinv_init impl l0 s0 progs)
  exact ⟨hI.order, hI.final_idle, hI.final_busy⟩

/-- When every thread has finished, the log contains each thread's whole program in order:
    the final shared state is that of a complete sequentialisation. -/
theorem atomic_finished (impl : α → List (Micro σ τ)) (l0 : τ) (s0 : σ) (progs : Nat → List α)
    (sched : List Nat)
    (hdone : ∀ i, ((exec impl true l0 (init s0 l0 progs) sched).thr i).todo = []
                ∧ ((exec impl true l0 (init s0 l0 progs) sched).thr i).busy = false) :
    let s := exec impl true l0 (init s0 l0 progs) sched
    (∀ i, logOf s.log i = progs i) ∧ s.shared = seqRun impl l0 s0 (s.log.map (·.2)) := by
  have hI := cinv_exec impl l0 s0 progs _ sched (cinv_init impl l0 s0 progs)
  refine ⟨?_, ?_⟩
  · intro i
    have := hI.order i
    rw [(hdone i).1] at this
    simpa using this
  · apply hI.final_idle
    cases ho : (exec impl true l0 (init s0 l0 progs) sched).owner with
    | none => rfl
    | some k =>
      have := hI.owner_busy k ho
      rw [(hdone k).2] at this; cases this

end Zap.Theory.Crit
