/-
  ZapProofs.WriterLemmasLayoutStoredCex: the literal stored-document target against
  Layout's own decoder (assuming of `compress` only that `Codec.snappyDecode` inverts it)
  is false; counterexample and proof.
-/
import ZapProofs.WriterLemmasLayoutStored

namespace Zap.Writer.LS
open Zap Zap.Codec Zap.Layout Zap.Writer Zap.Writer.BA Zap.Writer.Uv Zap.Writer.Stored Zap.Writer.LP Zap.Writer.LayoutDefs

/-! ### the literal target (no hypothesis on the array snappy decoder) is false -/

/-- If the twin decodes the record but Layout's array snappy decoder rejects the record's
    snappy block, `Layout.decStoredDoc` fails (with that error). -/
theorem decStoredDoc_fast_error (c : Ctx) (doc off : Nat) (sd : StoredDoc) (s e : Nat) (m : String)
    (h : decodeStoredDocL (ofBA c.b) off = some sd)
    (hblk : storedBlockL (ofBA c.b) off = some (s, e))
    (herr : snappyFast c.b s e = .error m) : decStoredDoc c doc off = .error m := by
  unfold decodeStoredDocL at h
  unfold storedBlockL at hblk
  cases h1 : uv64 ((ofBA c.b).drop off) with
  | none => simp [h1] at h
  | some vr =>
    obtain ⟨ml, r1⟩ := vr
    obtain ⟨p1, e1, rfl, _, _⟩ := uv_sim c.b off ml r1 h1
    simp only [h1] at h
    cases h2 : uv64 ((ofBA c.b).drop p1) with
    | none => simp [h2] at h
    | some vr =>
      obtain ⟨dl, r2⟩ := vr
      obtain ⟨p, e2, rfl, _, hp⟩ := uv_sim c.b p1 dl r2 h2
      simp only [h2] at h
      simp only [h1, h2] at hblk
      by_cases hlen : ml + dl > ((ofBA c.b).drop p).length
      · rw [if_pos hlen] at h; cases h
      · rw [if_neg hlen] at h
        rw [List.length_drop, ofBA_length] at hlen
        have hmeta : List.take ml (List.drop p (ofBA c.b)) = region c.b p (p + ml) := by
          unfold region; rw [List.drop_take]; congr 1; omega
        rw [hmeta] at h hblk
        cases h3 : uvAllL (ml + 1) (region c.b p (p + ml)) with
        | none => simp [h3] at h
        | some ms =>
          simp only [h3] at h hblk
          cases ms with
          | nil => simp at h
          | cons idLen groups =>
            simp only at h
            by_cases hid : idLen > dl
            · rw [if_pos hid] at h; cases h
            · have hpos : (ofBA c.b).length - ((ofBA c.b).drop p).length = p := by
                rw [List.length_drop, ofBA_length]; omega
              simp only [hpos, Option.some.injEq, Prod.mk.injEq] at hblk
              obtain ⟨rfl, rfl⟩ := hblk
              have hml : (region c.b p (p + ml)).length = ml := by
                rw [region_length]; omega
              have hua := uvAllGo_sim (toString "stored doc " ++ toString doc ++ toString " meta")
                ((region c.b p (p + ml)).length + 1) _ #[] _ (by rw [hml]; exact h3)
              unfold decStoredDoc
              simp only [e1, e2, bind, Except.bind, Layout.slice]
              rw [if_neg (by omega)]
              simp only [pure, Except.pure, ofBA_extract]
              rw [if_neg (by omega)]
              unfold uvAll
              rw [hua]
              simp only [List.nil_append]
              rw [if_neg hid, if_neg (by omega)]
              simp only [herr]

/-- `snappyFast` (like Go's snappy) refuses blocks that announce more than 2^32 bytes. -/
theorem snappyFast_too_large (b : ByteArray) (s e n : Nat) (rest : Bytes) (he : e ≤ b.size)
    (hreg : region b s e = putUvarint n ++ rest) (hn : n < 2 ^ 64) (hbig : n > 2 ^ 32) :
    ∃ m, snappyFast b s e = .error m := by
  have hul := uv64_putUvarint n hn rest
  rw [← hreg] at hul
  obtain ⟨p0, e1, _⟩ := uvLim_sim b s e n rest hul
  unfold snappyFast
  simp only [bind, Except.bind, e1]
  rw [if_neg (by omega), if_pos hbig]
  exact ⟨_, rfl⟩

theorem putUvarint_length_le (x : Nat) : (putUvarint x).length ≤ x + 1 := by
  induction x using Nat.strongRecOn with
  | _ x ih =>
    by_cases h : x < 128
    · rw [putUvarint_lt h]; simp
    · rw [putUvarint_ge h]
      have := ih (x / 128) (by omega)
      simp only [List.length_cons]
      omega

theorem putUvarints_bytes (xs : List Nat) : ∀ b ∈ putUvarints xs, b < 256 := by
  intro b hb
  unfold putUvarints at hb
  obtain ⟨x, _, hx⟩ := List.mem_flatMap.mp hb
  exact putUvarint_bytes x b hx

/-- The literal target for Layout's own decoder: only `snappyDecode (compress x) = some x`
    is assumed of `compress`. -/
def stored_roundtrip_layout_full : Prop :=
  ∀ (compress : Bytes → Bytes), (∀ x, snappyDecode (compress x) = some x) →
    ∀ (sd : StoredDoc), (encodeStoredDoc compress sd).length < 2 ^ 64 →
    ∀ (c : Ctx) (doc : Nat) (pre post : Bytes), ofBA c.b = pre ++ encodeStoredDoc compress sd ++ post →
      decStoredDoc c doc pre.length = .ok sd

/-- One stored value of 2^32 + 1 bytes. -/
noncomputable def bigDoc : StoredDoc :=
  { id := [], vals := [{ fid := 1, typ := 116, val := List.replicate (2 ^ 32 + 1) 0, ap := [] }] }

/-- It is false: `Layout.snappyFast` refuses a block of more than 2^32 uncompressed bytes
    (as Go's snappy does), `Codec.snappyDecode` has no such limit. -/
theorem stored_roundtrip_layout_full_false : ¬ stored_roundtrip_layout_full := by
  intro hfull
  have hdata : storedData bigDoc.vals = List.replicate (2 ^ 32 + 1) 0 := by
    unfold storedData bigDoc
    simp only [List.flatMap_cons, List.flatMap_nil, List.append_nil]
  have hcomp : (snappyLit (storedData bigDoc.vals)).length
      = (putUvarint (2 ^ 32 + 1)).length + 2 * (2 ^ 32 + 1) := by
    rw [hdata, snappyLit, List.length_append, lit_length, List.length_replicate]
  have hmeta : (storedMeta bigDoc).length
      = 1 + (1 + (1 + (1 + ((putUvarint (2 ^ 32 + 1)).length + 1)))) := by
    have h0 : putUvarint 0 = [0] := putUvarint_lt (by decide)
    have h1 : putUvarint 1 = [1] := putUvarint_lt (by decide)
    have h116 : putUvarint 116 = [116] := putUvarint_lt (by decide)
    simp only [storedMeta, bigDoc, metaVals, valMeta, List.length_replicate, putUvarints, List.length_nil,
      List.append_nil, List.flatMap_cons, List.flatMap_nil, List.cons_append, List.nil_append, h0, h1,
      h116, List.length_append, List.length_cons]
    omega
  have h5 := putUvarint_length_le (2 ^ 32 + 1)
  have hsz : (encodeStoredDoc snappyLit bigDoc).length < 2 ^ 64 := by
    have h1 := putUvarint_length_le (storedMeta bigDoc).length
    have h2 := putUvarint_length_le (bigDoc.id.length + (snappyLit (storedData bigDoc.vals)).length)
    have hid : bigDoc.id.length = 0 := rfl
    simp only [encodeStoredDoc, List.length_append]
    omega
  have hbytes : ∀ x ∈ encodeStoredDoc snappyLit bigDoc, x < 256 := by
    intro x hx
    simp only [encodeStoredDoc, storedMeta, List.mem_append] at hx
    rcases hx with (((hx | hx) | (hx | hx)) | hx) | hx
    · exact putUvarint_bytes _ x hx
    · exact putUvarint_bytes _ x hx
    · exact putUvarint_bytes _ x hx
    · exact putUvarints_bytes _ x hx
    · have hidn : bigDoc.id = [] := rfl
      rw [hidn] at hx
      cases hx
    · rw [hdata, snappyLit, List.mem_append] at hx
      rcases hx with hx | hx
      · exact putUvarint_bytes _ x hx
      · obtain ⟨y, hy, hxy⟩ := List.mem_flatMap.mp hx
        have : y = 0 := (List.mem_replicate.mp hy).2
        subst this
        simp at hxy
        omega
  obtain ⟨c, hc⟩ : ∃ c : Ctx, c.b = toBA (encodeStoredDoc snappyLit bigDoc) :=
    ⟨{ b := toBA (encodeStoredDoc snappyLit bigDoc), blobs := {}, numDocs := 1, chunkMode := 1026 }, rfl⟩
  have hb : ofBA c.b = [] ++ encodeStoredDoc snappyLit bigDoc ++ [] := by
    rw [hc, List.nil_append, List.append_nil]
    exact ofBA_toBA _ hbytes
  have hok := hfull snappyLit snappyDecode_snappyLit bigDoc hsz c 0 [] [] hb
  have htwin := decodeStoredDocL_roundtrip snappyLit snappyDecode_snappyLit bigDoc hsz [] []
  obtain ⟨hblk, hsplit⟩ := storedBlockL_written snappyLit bigDoc hsz [] []
  generalize [] ++ putUvarint (storedMeta bigDoc).length ++
      putUvarint (bigDoc.id.length + (snappyLit (storedData bigDoc.vals)).length) ++ storedMeta bigDoc ++
      bigDoc.id = A at hblk hsplit
  rw [← hb] at htwin hblk
  have hsize : c.b.size = A.length + (snappyLit (storedData bigDoc.vals)).length := by
    rw [← ofBA_length, hb, hsplit]
    simp only [List.length_append, List.append_nil]
  have hreg : region c.b A.length (A.length + (snappyLit (storedData bigDoc.vals)).length)
      = putUvarint (2 ^ 32 + 1) ++ (List.replicate (2 ^ 32 + 1) 0).flatMap (fun y => [0, y]) := by
    unfold region
    rw [hb, hsplit, take_drop_middle, hdata, snappyLit, List.length_replicate]
  obtain ⟨m, herr⟩ := snappyFast_too_large c.b _ _ _ _ (by omega) hreg (by decide) (by decide)
  have := decStoredDoc_fast_error c 0 0 bigDoc _ _ m htwin hblk herr
  rw [show ([] : Bytes).length = 0 from rfl] at hok
  rw [this] at hok
  cases hok

end Zap.Writer.LS
