/-
  ZapProofs.WriterLemmasLayoutFinal: the posting streams and the record written by the
  writer models decode, with Layout's OWN functions on the `ByteArray` of the file, to the
  entries that went in (twin round trip + simulation).
-/
import ZapProofs.WriterLemmasLayoutPost
import ZapProofs.WriterLemmasPost
open Zap Zap.Codec Zap.Layout Zap.Writer Zap.Writer.BA Zap.Writer.LP Zap.Writer.LayoutDefs Zap.Writer.Post Zap.Writer.Walk

namespace Zap.Writer.Final

theorem getLastD_offsFrom_eq (lens : List Nat) (hne : lens ≠ []) : ∀ s,
    (offsFrom s lens).getLastD 0 = s + sumList lens := by
  induction lens with
  | nil => contradiction
  | cons l ls ih =>
    intro s
    cases ls with
    | nil => simp [offsFrom, sumList]
    | cons l' ls' =>
      have := ih (by simp) (s + l)
      simp only [offsFrom, sumList, List.getLastD_cons] at this ⊢
      omega

/-- A written stream ends where its table says: data start + last end offset = stream length. -/
theorem stream_end (cs maxDoc : Nat) (adds : List (Nat × List Nat))
    (hmono : DocsMono adds) (hmax : ∀ a ∈ adds, a.1 ≤ maxDoc)
    (hsz : (intCoderEncode cs maxDoc adds).length < 2 ^ 64) (post : Bytes) (offs : List Nat) (data : Bytes)
    (h : readChunksL (intCoderEncode cs maxDoc adds ++ post) = some (offs, data)) :
    (intCoderEncode cs maxDoc adds ++ post).length - data.length + offs.getLastD 0
      = (intCoderEncode cs maxDoc adds).length ∧
    data.length ≤ (intCoderEncode cs maxDoc adds ++ post).length := by
  rw [readChunksL_stream cs maxDoc adds hmono hmax hsz post] at h
  simp only [Option.some.injEq, Prod.mk.injEq] at h
  obtain ⟨rfl, rfl⟩ := h
  rw [endOffsets_eq_offsFrom, getLastD_offsFrom_eq _ (by
    intro hnil
    have := congrArg List.length hnil
    simp [segsOf_length] at this)]
  rw [sumList_map_length_flatten]
  rw [stream_shape cs maxDoc adds hmono hmax]
  simp only [List.length_append]
  omega

/-- If the file holds, from offset `pos`, a written stream, the adjacency check of
    `decPostings` sees it end at `pos + its length`. -/
theorem stream_endAbs (b : ByteArray) (pos cs maxDoc : Nat) (adds : List (Nat × List Nat))
    (hmono : DocsMono adds) (hmax : ∀ a ∈ adds, a.1 ≤ maxDoc)
    (hsz : (intCoderEncode cs maxDoc adds).length < 2 ^ 64) (post : Bytes)
    (hpos : pos ≤ b.size)
    (hb : (ofBA b).drop pos = intCoderEncode cs maxDoc adds ++ post) (offs : List Nat) (data : Bytes)
    (h : readChunksL ((ofBA b).drop pos) = some (offs, data)) :
    b.size - data.length + offs.getLastD 0 = pos + (intCoderEncode cs maxDoc adds).length := by
  rw [hb] at h
  obtain ⟨h1, h2⟩ := stream_end cs maxDoc adds hmono hmax hsz post offs data h
  have hl : (intCoderEncode cs maxDoc adds ++ post).length = b.size - pos := by
    rw [← hb, List.length_drop, ofBA_length]
  rw [hl] at h1 h2
  omega

theorem layout_postings_roundtrip (b : ByteArray) (pre post roaring : Bytes) (cs maxDoc : Nat)
    (es : List Entry) (hcs : 0 < cs)
    (hasc : es.Pairwise (fun a b => a.doc < b.doc)) (hmax : ∀ e ∈ es, e.doc ≤ maxDoc)
    (hf : ∀ e ∈ es, e.freq < 2 ^ 63) (hn64 : ∀ e ∈ es, e.norm < 2 ^ 64)
    (hn : ∀ e ∈ es, e.freq = 0 → e.norm = 0)
    (hnb : ∀ e ∈ es, numLocsBytes e.locs < 2 ^ 64) (hfit : ∀ e ∈ es, LocsFit e.locs)
    (hszF : (encodeFreqNorm cs maxDoc es).length < 2 ^ 64)
    (hszL : (encodeLocs cs maxDoc es).length < 2 ^ 64)
    (hpre : 0 < pre.length) (hne : es ≠ [])
    (hb : ofBA b = pre ++ (writePostings pre.length cs maxDoc es roaring).bytes ++ post) :
    layoutEntries b cs (es.map (·.doc)) (writePostings pre.length cs maxDoc es roaring).tfOffset
      (writePostings pre.length cs maxDoc es roaring).locOffset
      (writePostings pre.length cs maxDoc es roaring).postingsOffset = .ok es := by
  obtain ⟨h1, h2, h3, h4⟩ := writePostings_layout pre.length cs maxDoc es roaring hasc hmax hne
  have hls := locStream?_eq cs maxDoc es hasc hmax
  rw [h4] at hb
  rw [h1, h2, h3]
  have hsize : b.size = (ofBA b).length := (ofBA_length b).symm
  by_cases hnl : ∀ e ∈ es, e.locs = []
  · rw [if_pos hnl] at hls ⊢
    rw [hls] at hb ⊢
    simp only [List.append_nil, List.length_nil, Nat.add_zero] at hb ⊢
    have hdrop : (ofBA b).drop pre.length = encodeFreqNorm cs maxDoc es ++
        (putUvarint (writePostings pre.length cs maxDoc es roaring).tfOffset ++
          putUvarint (writePostings pre.length cs maxDoc es roaring).locOffset ++
          putUvarint roaring.length ++ roaring ++ post) := by
      rw [hb]; simp only [List.append_assoc]; rw [drop_length_append]
    apply layoutEntries_sim b cs _ pre.length 0 _ es (by omega)
    · simp only [if_true]
      rw [hdrop]
      exact decodeEntriesL_roundtrip_none cs maxDoc es hcs hasc hmax hf hn64 hn hszF hnl _
    · intro offs data hr
      simp only [if_true]
      exact stream_endAbs b pre.length cs maxDoc (freqAdds es) (freqAdds_mono es hasc)
        (freqAdds_max es maxDoc hmax) hszF _ (by rw [hsize, hb]; simp only [List.length_append]; omega)
        hdrop offs data hr
    · intro h0; exact absurd rfl h0
  · rw [if_neg hnl] at hls ⊢
    rw [hls] at hb ⊢
    simp only at hb ⊢
    have hdropF : (ofBA b).drop pre.length = encodeFreqNorm cs maxDoc es ++
        (encodeLocs cs maxDoc es ++
          (putUvarint (writePostings pre.length cs maxDoc es roaring).tfOffset ++
          putUvarint (writePostings pre.length cs maxDoc es roaring).locOffset ++
          putUvarint roaring.length ++ roaring ++ post)) := by
      rw [hb]; simp only [List.append_assoc]; rw [drop_length_append]
    have hdropL : (ofBA b).drop (pre.length + (encodeFreqNorm cs maxDoc es).length)
        = encodeLocs cs maxDoc es ++
          (putUvarint (writePostings pre.length cs maxDoc es roaring).tfOffset ++
          putUvarint (writePostings pre.length cs maxDoc es roaring).locOffset ++
          putUvarint roaring.length ++ roaring ++ post) := by
      rw [← List.drop_drop, hdropF, List.drop_left]
    have hlo : pre.length + (encodeFreqNorm cs maxDoc es).length ≠ 0 := by omega
    apply layoutEntries_sim b cs _ pre.length _ _ es (by omega)
    · rw [if_neg hlo, hdropF, hdropL]
      exact decodeEntriesL_roundtrip cs maxDoc es hcs hasc hmax hf hn64 hn hnb hfit hszF hszL _ _
    · intro offs data hr
      rw [if_neg hlo]
      exact stream_endAbs b pre.length cs maxDoc (freqAdds es) (freqAdds_mono es hasc)
        (freqAdds_max es maxDoc hmax) hszF _ (by rw [hsize, hb]; simp only [List.length_append]; omega)
        hdropF offs data hr
    · intro _ offs data hr
      exact stream_endAbs b _ cs maxDoc (locAdds es) (locAdds_mono es hasc)
        (locAdds_max es maxDoc hmax) hszL _ (by rw [hsize, hb]; simp only [List.length_append]; omega)
        hdropL offs data hr

end Zap.Writer.Final
