/-
  ZapProofs.MergeDvLemmas: helper lemmas for the doc-value part of C06
  (Props/C06Dv.lean): the doc-value data of a merged field is the
  concatenation, over ALL inputs in segment order, of each input's data with
  dropped documents removed and the others renumbered (`dvMerge`); lookups by
  new number are unambiguous because the renumbering maps of different inputs
  have separated ranges and each is strictly monotone on its survivors.
-/
import ZapProofs.MergeLemmas
import ZapProofs.DvLemmas

namespace Zap.MergeDv
open Zap.DictL Zap.MergeL Zap.Dv

/-! ### Lookup by document number (`Dv.recorded`) in concatenations -/

theorem recorded_nil (k : Nat) : recorded [] k = [] := rfl

theorem recorded_of_nokey {a : List (Nat × List Bytes)} {k : Nat} (h : ∀ p ∈ a, p.1 ≠ k) :
    recorded a k = [] := by
  unfold recorded
  have : a.find? (fun p => decide (p.1 = k)) = none := by
    rw [List.find?_eq_none]; intro p hp; simpa using h p hp
  rw [this]; rfl

theorem recorded_append_of_nokey_left {a b : List (Nat × List Bytes)} {k : Nat}
    (h : ∀ p ∈ a, p.1 ≠ k) : recorded (a ++ b) k = recorded b k := by
  unfold recorded
  have : a.find? (fun p => decide (p.1 = k)) = none := by
    rw [List.find?_eq_none]; intro p hp; simpa using h p hp
  rw [List.find?_append, this]; rfl

theorem recorded_append_of_nokey_right {a b : List (Nat × List Bytes)} {k : Nat}
    (h : ∀ p ∈ b, p.1 ≠ k) : recorded (a ++ b) k = recorded a k := by
  unfold recorded
  have : b.find? (fun p => decide (p.1 = k)) = none := by
    rw [List.find?_eq_none]; intro p hp; simpa using h p hp
  rw [List.find?_append, this, Option.or_none]

/-- A non-empty lookup result comes from an entry with that key. -/
theorem recorded_ne_nil {a : List (Nat × List Bytes)} {k : Nat} (h : recorded a k ≠ []) :
    ∃ p ∈ a, p.1 = k ∧ p.2 = recorded a k := by
  unfold recorded at h ⊢
  cases hf : a.find? (fun p => decide (p.1 = k)) with
  | none => rw [hf] at h; exact absurd rfl h
  | some p =>
    refine ⟨p, List.mem_of_find?_eq_some hf, ?_, rfl⟩
    simpa using List.find?_some hf

/-- In a concatenation of blocks in which only block `x` can carry key `k`,
    the lookup of `k` is the lookup in that block. -/
theorem recorded_flatMap_unique {α : Type} (g : α → List (Nat × List Bytes)) (k : Nat)
    (pre post : List α) (x : α)
    (hpre : ∀ y ∈ pre, ∀ p ∈ g y, p.1 ≠ k) (hpost : ∀ y ∈ post, ∀ p ∈ g y, p.1 ≠ k) :
    recorded ((pre ++ x :: post).flatMap g) k = recorded (g x) k := by
  rw [List.flatMap_append, List.flatMap_cons]
  rw [recorded_append_of_nokey_left, recorded_append_of_nokey_right]
  · intro p hp
    obtain ⟨y, hy, hpy⟩ := List.mem_flatMap.1 hp
    exact hpost y hy p hpy
  · intro p hp
    obtain ⟨y, hy, hpy⟩ := List.mem_flatMap.1 hp
    exact hpre y hy p hpy

/-! ### One input's doc values after renumbering (`dvMerge`) -/

theorem mem_dvMerge {m : List (Option Nat)} {dv : List (Nat × List Bytes)} {q : Nat × List Bytes} :
    q ∈ dvMerge m dv ↔ ∃ p ∈ dv, m.getD p.1 none = some q.1 ∧ q.2 = p.2 := by
  unfold dvMerge
  rw [List.mem_filterMap]
  constructor
  · rintro ⟨p, hp, he⟩
    refine ⟨p, hp, ?_⟩
    cases hm : m.getD p.1 none with
    | none => rw [hm] at he; cases he
    | some d =>
      rw [hm] at he
      simp only [Option.some.injEq] at he
      subst he; exact ⟨rfl, rfl⟩
  · rintro ⟨p, hp, hm, h2⟩
    refine ⟨p, hp, ?_⟩
    rw [hm]
    cases q; simp only at h2 ⊢; rw [h2]

/-- A strictly monotone map is injective on the documents it keeps. -/
theorem monoMap_inj {m : List (Option Nat)} (hm : MonoMap m) {d e k : Nat}
    (h1 : m.getD d none = some k) (h2 : m.getD e none = some k) : d = e := by
  rcases Nat.lt_trichotomy d e with h | h | h
  · exact absurd (hm d e k k h h1 h2) (Nat.lt_irrefl _)
  · exact h
  · exact absurd (hm e d k k h h2 h1) (Nat.lt_irrefl _)

/-- Looking up the new number of a surviving document in the renumbered data
    gives what the old data records for the document. -/
theorem recorded_dvMerge {m : List (Option Nat)} (hm : MonoMap m) {d d' : Nat}
    (hd : m.getD d none = some d') (dv : List (Nat × List Bytes)) :
    recorded (dvMerge m dv) d' = recorded dv d := by
  induction dv with
  | nil => rfl
  | cons p rest ih =>
    have hcons : dvMerge m (p :: rest) =
        (match m.getD p.1 none with
          | none => []
          | some x => [(x, p.2)]) ++ dvMerge m rest := by
      unfold dvMerge
      rw [List.filterMap_cons]
      cases m.getD p.1 none <;> rfl
    rw [hcons]
    by_cases hk : p.1 = d
    · -- the entry of `d` itself
      rw [hk, hd]
      unfold recorded
      simp [hk]
    · have hr : recorded (p :: rest) d = recorded rest d := by
        unfold recorded
        rw [List.find?_cons_of_neg (by simpa using hk)]
      rw [hr, ← ih]
      apply recorded_append_of_nokey_left
      intro q hq
      cases hp : m.getD p.1 none with
      | none => rw [hp] at hq; cases hq
      | some x =>
        rw [hp] at hq
        simp only [List.mem_singleton] at hq
        subst hq
        intro hx
        simp only at hx
        subst hx
        exact hk (monoMap_inj hm hp hd)

/-- Renumbering keeps the document numbers strictly ascending. -/
theorem pairwise_dvMerge {m : List (Option Nat)} (hm : MonoMap m) {dv : List (Nat × List Bytes)}
    (h : (dv.map (·.1)).Pairwise (· < ·)) : ((dvMerge m dv).map (·.1)).Pairwise (· < ·) := by
  rw [List.pairwise_map] at h ⊢
  unfold dvMerge
  apply List.Pairwise.filterMap _ _ h
  intro a a' hlt b hb b' hb'
  cases h1 : m.getD a.1 none with
  | none => rw [h1] at hb; cases hb
  | some x =>
    cases h2 : m.getD a'.1 none with
    | none => rw [h2] at hb'; cases hb'
    | some x' =>
      rw [h1] at hb; rw [h2] at hb'
      simp only [Option.some.injEq] at hb hb'
      subst hb hb'
      exact hm a.1 a'.1 x x' hlt h1 h2

/-! ### The doc-value data of a merged field -/

/-- What input `p = (segment, map)` contributes to the doc values of field `nm`. -/
def dvPart (nm : Name) (p : Seg × List (Option Nat)) : List (Nat × List Bytes) :=
  match p.1.field? nm with
  | none => []
  | some f =>
    match f.dv with
    | none => []
    | some dv => dvMerge p.2 dv

theorem dvPart_of_none {nm : Name} {p : Seg × List (Option Nat)} (hf : p.1.field? nm = none) :
    dvPart nm p = [] := by
  unfold dvPart; rw [hf]

theorem dvPart_of_nodv {nm : Name} {p : Seg × List (Option Nat)} {f : FieldM}
    (hf : p.1.field? nm = some f) (hd : f.dv = none) : dvPart nm p = [] := by
  unfold dvPart; rw [hf]; simp only [hd]

theorem dvPart_of_dv {nm : Name} {p : Seg × List (Option Nat)} {f : FieldM} {dv : List (Nat × List Bytes)}
    (hf : p.1.field? nm = some f) (hd : f.dv = some dv) : dvPart nm p = dvMerge p.2 dv := by
  unfold dvPart; rw [hf]; simp only [hd]

/-- The `dvParts` of `mergeSegs`. -/
def dvPartsOf (nm : Name) (zs : List (Seg × List (Option Nat))) : List (List (Nat × List Bytes)) :=
  zs.filterMap (fun p => match p.1.field? nm with
    | none => none
    | some f => f.dv.map (fun dv => dvMerge p.2 dv))

/-- The `dv` of field `nm` of the merge result. -/
def mergedDv (nm : Name) (zs : List (Seg × List (Option Nat))) : Option (List (Nat × List Bytes)) :=
  if (dvPartsOf nm zs).isEmpty then none else some ((dvPartsOf nm zs).flatMap id)

theorem dvPartsOf_cons (nm : Name) (p : Seg × List (Option Nat)) (zs : List (Seg × List (Option Nat))) :
    dvPartsOf nm (p :: zs) =
      (match p.1.field? nm with
        | none => none
        | some f => f.dv.map (fun dv => dvMerge p.2 dv)).toList ++ dvPartsOf nm zs := by
  unfold dvPartsOf
  rw [List.filterMap_cons]
  cases (match p.1.field? nm with
        | none => none
        | some f => f.dv.map (fun dv => dvMerge p.2 dv)) <;> rfl

theorem dvPartsOf_flat (nm : Name) (zs : List (Seg × List (Option Nat))) :
    (dvPartsOf nm zs).flatMap id = zs.flatMap (dvPart nm) := by
  induction zs with
  | nil => rfl
  | cons p zs ih =>
    rw [dvPartsOf_cons, List.flatMap_append, ih, List.flatMap_cons]
    congr 1
    cases hf : p.1.field? nm with
    | none => rw [dvPart_of_none hf]; rfl
    | some f =>
      cases hdv : f.dv with
      | none => rw [dvPart_of_nodv hf hdv]; simp [hdv]
      | some dv => rw [dvPart_of_dv hf hdv]; simp [hdv]

/-- `none` and `some []` are read alike. -/
theorem mergedDv_getD (nm : Name) (zs : List (Seg × List (Option Nat))) :
    (mergedDv nm zs).getD [] = zs.flatMap (dvPart nm) := by
  unfold mergedDv
  split
  · rename_i h
    rw [← dvPartsOf_flat, List.isEmpty_iff.1 h]; rfl
  · rw [Option.getD_some, dvPartsOf_flat]

/-- The merged field has doc-value data iff some input has the field with doc-value data. -/
theorem mergedDv_ne_none (nm : Name) (zs : List (Seg × List (Option Nat))) :
    mergedDv nm zs ≠ none ↔ ∃ p ∈ zs, ∃ f, p.1.field? nm = some f ∧ f.dv ≠ none := by
  unfold mergedDv
  constructor
  · intro h
    split at h
    · exact absurd rfl h
    · rename_i hne
      cases hq : dvPartsOf nm zs with
      | nil => rw [hq] at hne; simp at hne
      | cons a as =>
        have ha : a ∈ dvPartsOf nm zs := by rw [hq]; exact List.mem_cons_self
        unfold dvPartsOf at ha
        obtain ⟨p, hp, he⟩ := List.mem_filterMap.1 ha
        refine ⟨p, hp, ?_⟩
        cases hf : p.1.field? nm with
        | none => rw [hf] at he; cases he
        | some f =>
          refine ⟨f, rfl, ?_⟩
          rw [hf] at he
          intro hn
          simp only [hn, Option.map_none] at he
          cases he
  · rintro ⟨p, hp, f, hf, hdv⟩
    cases hd : f.dv with
    | none => exact absurd hd hdv
    | some dv =>
      have : dvMerge p.2 dv ∈ dvPartsOf nm zs := by
        unfold dvPartsOf
        refine List.mem_filterMap.2 ⟨p, hp, ?_⟩
        rw [hf]; simp only [hd, Option.map_some]
      have hne : (dvPartsOf nm zs).isEmpty = false := by
        cases hq : dvPartsOf nm zs with
        | nil => rw [hq] at this; cases this
        | cons a as => rfl
      rw [hne]; simp

/-- Where an entry of an input's contribution comes from. -/
theorem mem_dvPart {nm : Name} {p : Seg × List (Option Nat)} {q : Nat × List Bytes}
    (h : q ∈ dvPart nm p) :
    ∃ f dv, p.1.field? nm = some f ∧ f.dv = some dv ∧
      ∃ e ∈ dv, p.2.getD e.1 none = some q.1 ∧ q.2 = e.2 := by
  cases hf : p.1.field? nm with
  | none => rw [dvPart_of_none hf] at h; cases h
  | some f =>
    cases hdv : f.dv with
    | none => rw [dvPart_of_nodv hf hdv] at h; cases h
    | some dv =>
      rw [dvPart_of_dv hf hdv] at h
      exact ⟨f, dv, rfl, hdv, mem_dvMerge.1 h⟩

theorem dvPart_key_mem {nm : Name} {p : Seg × List (Option Nat)} {q : Nat × List Bytes}
    (h : q ∈ dvPart nm p) : some q.1 ∈ p.2 := by
  obtain ⟨_, _, _, _, e, _, he, _⟩ := mem_dvPart h
  exact getD_some_mem he

/-- Lookup in one input's contribution, at the new number of one of its survivors. -/
theorem recorded_dvPart {nm : Name} {p : Seg × List (Option Nat)} (hm : MonoMap p.2) {d d' : Nat}
    (hd : p.2.getD d none = some d') :
    recorded (dvPart nm p) d' =
      (match p.1.field? nm with
        | none => []
        | some f => match f.dv with
          | none => []
          | some dv => recorded dv d) := by
  cases hf : p.1.field? nm with
  | none => rw [dvPart_of_none hf]; rfl
  | some f =>
    cases hdv : f.dv with
    | none => rw [dvPart_of_nodv hf hdv]; simp only [hdv]; rfl
    | some dv => rw [dvPart_of_dv hf hdv]; simp only [hdv]; exact recorded_dvMerge hm hd dv

/-! ### Inputs paired with their maps -/

theorem zip_pairwise_sep (segs : List Seg) (drops : List (Option (List Nat))) :
    (segs.zip (remapAll segs drops 0)).Pairwise (fun a b => MapsSep a.2 b.2) := by
  rw [← List.pairwise_map (f := Prod.snd) (R := MapsSep),
    List.map_snd_zip (by rw [remapAll_length]; exact Nat.le_refl _)]
  exact remapAll_sep segs drops 0

theorem zip_mono (segs : List Seg) (drops : List (Option (List Nat))) :
    ∀ p ∈ segs.zip (remapAll segs drops 0), MonoMap p.2 :=
  fun p hp => remapAll_mono segs drops 0 p.2 (List.of_mem_zip hp).2

/-- Splitting the paired list at input `i`. -/
theorem zip_split (segs : List Seg) (drops : List (Option (List Nat))) (i : Nat) (hi : i < segs.length) :
    ∃ pre post, segs.zip (remapAll segs drops 0)
        = pre ++ (segs[i], (remapAll segs drops 0).getD i []) :: post := by
  have hl : i < (segs.zip (remapAll segs drops 0)).length := by
    rw [List.length_zip, remapAll_length]; omega
  refine ⟨(segs.zip (remapAll segs drops 0)).take i, (segs.zip (remapAll segs drops 0)).drop (i + 1), ?_⟩
  have hget : (segs.zip (remapAll segs drops 0))[i] = (segs[i], (remapAll segs drops 0).getD i []) := by
    rw [List.getElem_zip]
    have : i < (remapAll segs drops 0).length := by rw [remapAll_length]; exact hi
    simp [List.getD_eq_getElem?_getD, this]
  rw [← hget]
  exact (List.take_append_drop i _).symm.trans (by rw [List.drop_eq_getElem_cons hl])

/-- Lookup in the concatenation over all inputs, at the new number of a survivor
    of input `i`: only input `i`'s contribution can carry that number. -/
theorem recorded_all_parts (nm : Name) (segs : List Seg) (drops : List (Option (List Nat)))
    (i : Nat) (hi : i < segs.length) {d d' : Nat}
    (hd : ((remapAll segs drops 0).getD i []).getD d none = some d') :
    recorded ((segs.zip (remapAll segs drops 0)).flatMap (dvPart nm)) d' =
      (match segs[i].field? nm with
        | none => []
        | some f => match f.dv with
          | none => []
          | some dv => recorded dv d) := by
  obtain ⟨pre, post, hsplit⟩ := zip_split segs drops i hi
  have hsep := zip_pairwise_sep segs drops
  have hmono := zip_mono segs drops
  rw [hsplit] at hsep hmono
  rw [hsplit]
  have hx : MonoMap ((remapAll segs drops 0).getD i []) :=
    hmono (segs[i], (remapAll segs drops 0).getD i []) (by simp)
  have hmem : some d' ∈ (remapAll segs drops 0).getD i [] := getD_some_mem hd
  rw [List.pairwise_append] at hsep
  obtain ⟨_, hsep2, hsep3⟩ := hsep
  rw [List.pairwise_cons] at hsep2
  rw [recorded_flatMap_unique (dvPart nm) d' pre post _ ?_ ?_]
  · exact recorded_dvPart (p := (segs[i], (remapAll segs drops 0).getD i [])) hx hd
  · intro y hy q hq hk
    have h1 := dvPart_key_mem hq
    rw [hk] at h1
    exact Nat.lt_irrefl _ (hsep3 y hy _ List.mem_cons_self d' d' h1 hmem)
  · intro y hy q hq hk
    have h1 := dvPart_key_mem hq
    rw [hk] at h1
    exact Nat.lt_irrefl _ (hsep2.1 y hy d' d' hmem h1)

/-- Every entry of the concatenation belongs to a survivor of some input. -/
theorem mem_all_parts {nm : Name} {segs : List Seg} {drops : List (Option (List Nat))}
    {q : Nat × List Bytes}
    (h : q ∈ (segs.zip (remapAll segs drops 0)).flatMap (dvPart nm)) :
    ∃ i, ∃ _ : i < segs.length, ∃ d, d < segs[i].numDocs ∧
      ((remapAll segs drops 0).getD i []).getD d none = some q.1 := by
  obtain ⟨p, hp, hq⟩ := List.mem_flatMap.1 h
  obtain ⟨_, _, _, _, e, _, he, _⟩ := mem_dvPart hq
  obtain ⟨i, hi, hpi⟩ := List.getElem_of_mem hp
  have hi' : i < segs.length := by
    rw [List.length_zip, remapAll_length] at hi; omega
  have hi'' : i < (remapAll segs drops 0).length := by rw [remapAll_length]; exact hi'
  rw [List.getElem_zip] at hpi
  have hmap : (remapAll segs drops 0).getD i [] = p.2 := by
    rw [← hpi]; simp [List.getD_eq_getElem?_getD, hi'']
  refine ⟨i, hi', e.1, ?_, by rw [hmap]; exact he⟩
  -- the document number is in range: the map has one entry per document
  have hlen : ((remapAll segs drops 0).getD i []).length = segs[i].numDocs := by
    rw [remapAll_getD segs drops 0 i hi']; simp
  rw [← hlen, hmap]
  rcases Nat.lt_or_ge e.1 p.2.length with hlt | hge
  · exact hlt
  · rw [List.getD_eq_getElem?_getD, List.getElem?_eq_none hge] at he
    cases he

/-- The concatenation over all inputs is strictly ascending by document number
    when every input's data is. -/
theorem pairwise_all_parts (nm : Name) (zs : List (Seg × List (Option Nat)))
    (hmono : ∀ p ∈ zs, MonoMap p.2)
    (hsep : zs.Pairwise (fun a b => MapsSep a.2 b.2))
    (hasc : ∀ p ∈ zs, ∀ f, p.1.field? nm = some f → ((f.dv.getD []).map (·.1)).Pairwise (· < ·)) :
    ((zs.flatMap (dvPart nm)).map (·.1)).Pairwise (· < ·) := by
  induction zs with
  | nil => simp
  | cons p zs ih =>
    rw [List.pairwise_cons] at hsep
    rw [List.flatMap_cons, List.map_append, List.pairwise_append]
    refine ⟨?_, ih (fun q hq => hmono q (List.mem_cons_of_mem _ hq)) hsep.2
      (fun q hq => hasc q (List.mem_cons_of_mem _ hq)), ?_⟩
    · cases hf : p.1.field? nm with
      | none => rw [dvPart_of_none hf]; simp
      | some f =>
        cases hdv : f.dv with
        | none => rw [dvPart_of_nodv hf hdv]; simp
        | some dv =>
          have := hasc p List.mem_cons_self f hf
          rw [hdv] at this
          rw [dvPart_of_dv hf hdv]
          exact pairwise_dvMerge (hmono p List.mem_cons_self) this
    · intro a ha b hb
      obtain ⟨qa, hqa, rfl⟩ := List.mem_map.1 ha
      obtain ⟨qb, hqb, rfl⟩ := List.mem_map.1 hb
      obtain ⟨y, hy, hqy⟩ := List.mem_flatMap.1 hqb
      exact hsep.1 y hy qa.1 qb.1 (dvPart_key_mem hqa) (dvPart_key_mem hqy)

/-! ### The fields of `mergeSegs` -/

/-- The field records of the merge result are a function of their names, with
    the doc-value data `mergedDv`. -/
theorem mergeSegs_fields_dv (v : Bool) (m : Nat) (segs : List Seg) (drops : List (Option (List Nat)))
    (h : newDocCount segs drops ≠ 0) :
    ∃ F : Name → FieldM, (∀ nm, (F nm).name = nm) ∧
      (∀ nm, (F nm).dv = mergedDv nm (segs.zip (remapAll segs drops 0))) ∧
      (mergeSegs v m segs drops).1.fields = (mergedFieldNames segs).map F := by
  unfold mergeSegs
  simp only [h, if_false]
  exact ⟨_, fun nm => rfl, fun nm => rfl, rfl⟩

theorem find?_map_names (F : Name → FieldM) (hF : ∀ nm, (F nm).name = nm) (nm : Name) :
    ∀ names : List Name,
      (names.map F).find? (fun f => decide (f.name = nm)) = if nm ∈ names then some (F nm) else none
  | [] => by simp
  | n :: ns => by
    rw [List.map_cons, List.find?_cons]
    by_cases hn : n = nm
    · subst hn; simp [hF]
    · have : decide ((F n).name = nm) = false := by simp [hF, hn]
      rw [this, find?_map_names F hF nm ns]
      have : (nm ∈ n :: ns) ↔ nm ∈ ns := by
        simp only [List.mem_cons]
        constructor
        · rintro (e | e)
          · exact absurd e.symm hn
          · exact e
        · exact Or.inr
      simp only [this]

/-- A name outside the merged field table is a field of no input. -/
theorem field?_none_of_not_merged {segs : List Seg} {nm : Name} (h : nm ∉ mergedFieldNames segs)
    {s : Seg} (hs : s ∈ segs) : s.field? nm = none := by
  have hnot : ¬ (nm = idName ∨ ∃ s ∈ segs, nm ∈ s.fieldNames) := fun hh =>
    h ((mergedFieldNames_props segs).2.2.1 nm |>.2 hh)
  unfold Seg.field?
  rw [List.find?_eq_none]
  intro f hf hname
  apply hnot
  refine Or.inr ⟨s, hs, ?_⟩
  unfold Seg.fieldNames
  exact List.mem_map.2 ⟨f, hf, by simpa using hname⟩

/-- The field record the reader finds under a name in the merge result. -/
theorem mergeSegs_field? (v : Bool) (m : Nat) (segs : List Seg) (drops : List (Option (List Nat)))
    (h : newDocCount segs drops ≠ 0) (nm : Name) :
    (nm ∈ mergedFieldNames segs ∧ ∃ f, (mergeSegs v m segs drops).1.field? nm = some f ∧ f.name = nm ∧
        f.dv = mergedDv nm (segs.zip (remapAll segs drops 0))) ∨
    (nm ∉ mergedFieldNames segs ∧ (mergeSegs v m segs drops).1.field? nm = none) := by
  obtain ⟨F, hF, hdv, hfields⟩ := mergeSegs_fields_dv v m segs drops h
  have hnd : (mergeSegs v m segs drops).1.numDocs ≠ 0 := by rw [mergeSegs_numDocs]; exact h
  have hfind : (mergeSegs v m segs drops).1.field? nm =
      if nm ∈ mergedFieldNames segs then some (F nm) else none := by
    unfold Seg.field? Seg.loadedFields
    rw [if_neg hnd, hfields]
    exact find?_map_names F hF nm _
  by_cases hnm : nm ∈ mergedFieldNames segs
  · rw [if_pos hnm] at hfind
    exact Or.inl ⟨hnm, F nm, hfind, hF nm, hdv nm⟩
  · rw [if_neg hnm] at hfind
    exact Or.inr ⟨hnm, hfind⟩

/-- Every input is paired with its map. -/
theorem mem_zip_of_mem_segs {segs : List Seg} {drops : List (Option (List Nat))} {s : Seg} (hs : s ∈ segs) :
    ∃ p ∈ segs.zip (remapAll segs drops 0), p.1 = s := by
  obtain ⟨i, hi, rfl⟩ := List.getElem_of_mem hs
  obtain ⟨pre, post, hsplit⟩ := zip_split segs drops i hi
  exact ⟨(segs[i], (remapAll segs drops 0).getD i []), by rw [hsplit]; simp, rfl⟩

end Zap.MergeDv
