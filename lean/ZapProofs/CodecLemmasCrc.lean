/-
  ZapProofs.CodecLemmasCrc: part E, CRC-32 continuation and the footer layout
  (checked against the generated tables in ZapModel/Gen/Facts.lean).
-/
import ZapModel.Codec
import ZapModel.Gen.Facts

namespace Zap.Codec
open Zap

/-! ### E.1 CRC -/

theorem crcUpdateRaw_append (st : Nat) (a b : Bytes) :
    crcUpdateRaw st (a ++ b) = crcUpdateRaw (crcUpdateRaw st a) b := by
  simp [crcUpdateRaw, List.foldl_append]

theorem xor_xor_cancel (x m : Nat) : x ^^^ m ^^^ m = x := by
  rw [Nat.xor_assoc, Nat.xor_self, Nat.xor_zero]

/-- The CRC continues over appended data (no bound on `c` is needed). -/
theorem crcUpdate_append' (c : Nat) (a b : Bytes) :
    crcUpdate c (a ++ b) = crcUpdate (crcUpdate c a) b := by
  simp only [crcUpdate, crcUpdateRaw_append, xor_xor_cancel]

theorem crcUpdate_append (c : Nat) (a b : Bytes) (_hc : c < 2 ^ 32) :
    crcUpdate c (a ++ b) = crcUpdate (crcUpdate c a) b := crcUpdate_append' c a b

theorem crc32_append (a b : Bytes) : crc32 (a ++ b) = crcUpdate (crc32 a) b :=
  crcUpdate_append' 0 a b

theorem crcUpdate_nil (c : Nat) : crcUpdate c [] = c := by
  simp [crcUpdate, crcUpdateRaw, xor_xor_cancel]

/-- States stay 32-bit. -/
theorem crcStep_bits_lt (k c : Nat) (h : c < 2 ^ 32) : crcStep.bits k c < 2 ^ 32 := by
  induction k generalizing c with
  | zero => simpa [crcStep.bits] using h
  | succ k ih =>
    rw [crcStep.bits]
    apply ih
    split
    · exact Nat.xor_lt_two_pow (by omega) (by decide)
    · omega

theorem crcStep_lt (c b : Nat) (hc : c < 2 ^ 32) (hb : b < 256) : crcStep c b < 2 ^ 32 := by
  unfold crcStep
  exact crcStep_bits_lt 8 _ (Nat.xor_lt_two_pow hc (by omega))

theorem crcUpdateRaw_lt (st : Nat) (bs : Bytes) (hst : st < 2 ^ 32) (hbs : ∀ b ∈ bs, b < 256) :
    crcUpdateRaw st bs < 2 ^ 32 := by
  induction bs generalizing st with
  | nil => simpa [crcUpdateRaw] using hst
  | cons b bs ih =>
    simp only [crcUpdateRaw, List.foldl_cons]
    exact ih _ (crcStep_lt st b hst (hbs b (by simp))) (fun x hx => hbs x (by simp [hx]))

theorem crcUpdate_lt (c : Nat) (bs : Bytes) (hc : c < 2 ^ 32) (hbs : ∀ b ∈ bs, b < 256) :
    crcUpdate c bs < 2 ^ 32 := by
  unfold crcUpdate
  exact Nat.xor_lt_two_pow
    (crcUpdateRaw_lt _ bs (Nat.xor_lt_two_pow hc (by decide)) hbs) (by decide)

/-! ### E.2 big-endian fields -/

theorem beBytes_length (w x : Nat) : (beBytes w x).length = w := by
  simp [beBytes]

theorem beBytes_succ (w x : Nat) : beBytes (w + 1) x = beBytes w (x / 256) ++ [x % 256] := by
  unfold beBytes
  rw [List.range_succ, List.map_append]
  congr 1
  · apply List.map_congr_left
    intro i hi
    have hi : i < w := List.mem_range.mp hi
    have e : w + 1 - 1 - i = (w - 1 - i) + 1 := by omega
    rw [e, Nat.pow_succ, Nat.mul_comm, Nat.div_div_eq_div_mul]
  · simp

theorem be64_append_singleton (l : Bytes) (b : Nat) : be64 (l ++ [b]) = be64 l * 256 + b := by
  simp [be64, List.foldl_append]

theorem be64_beBytes (w x : Nat) (h : x < 256 ^ w) : be64 (beBytes w x) = x := by
  induction w generalizing x with
  | zero =>
    have : x = 0 := by simpa using h
    simp [beBytes, be64, this]
  | succ w ih =>
    rw [beBytes_succ, be64_append_singleton, ih (x / 256)]
    · omega
    · rw [Nat.pow_succ] at h
      exact Nat.div_lt_of_lt_mul (by rw [Nat.mul_comm]; exact h)

theorem beBytes_bytes (w x : Nat) : ∀ b ∈ beBytes w x, b < 256 := by
  intro b hb
  simp only [beBytes, List.mem_map] at hb
  obtain ⟨i, _, rfl⟩ := hb
  exact Nat.mod_lt _ (by decide)

/-! ### E.3 footer: writer table vs reader table -/

/-- `persistFooter`: the fields of `footerWrites`, big-endian, in write order. -/
def encodeFields (ws : List (String × Nat)) (vals : String → Nat) : Bytes :=
  ws.flatMap (fun w => beBytes w.2 (vals w.1))

def encodeFooter (vals : String → Nat) : Bytes := encodeFields Gen.Facts.footerWrites vals

/-- `loadConfig`: big-endian value of the `width` bytes starting `dist` bytes
    before the end of the file, per the generated `footerReads` table. -/
def decodeField (file : Bytes) (name : String) : Option Nat :=
  match lookup name Gen.Facts.footerReads with
  | none => none
  | some (dist, width) =>
    if dist ≤ file.length then some (be64 ((file.drop (file.length - dist)).take width))
    else none

/-- Reader field name ↦ writer value name (`version` is written from the
    constant `Version`). -/
def writeName : String → String
  | "version" => "Version"
  | s => s

def totalWidth (ws : List (String × Nat)) : Nat := (ws.map (·.2)).sum

/-- Where the writer puts `name`: (distance of its first byte from the end, width). -/
def distOf (name : String) : List (String × Nat) → Option (Nat × Nat)
  | [] => none
  | (n, w) :: rest => if n = name then some (w + totalWidth rest, w) else distOf name rest

theorem encodeFields_length (ws : List (String × Nat)) (vals : String → Nat) :
    (encodeFields ws vals).length = totalWidth ws := by
  induction ws with
  | nil => rfl
  | cons w ws ih =>
    simp only [encodeFields, List.flatMap_cons, List.length_append, beBytes_length, totalWidth,
      List.map_cons, List.sum_cons] at ih ⊢
    rw [ih]

theorem encodeFields_cons (w : String × Nat) (ws : List (String × Nat)) (vals : String → Nat) :
    encodeFields (w :: ws) vals = beBytes w.2 (vals w.1) ++ encodeFields ws vals := by
  simp [encodeFields]

/-- Generic: a reader that looks `dist` bytes before the end for `width`
    bytes finds the value the writer put there. -/
theorem read_written_field (vals : String → Nat) (name : String) (ws : List (String × Nat)) :
    ∀ (body : Bytes) (dist width : Nat), distOf name ws = some (dist, width) →
      vals name < 256 ^ width →
      dist ≤ (body ++ encodeFields ws vals).length ∧
      be64 (((body ++ encodeFields ws vals).drop
        ((body ++ encodeFields ws vals).length - dist)).take width) = vals name := by
  induction ws with
  | nil => intro body dist width h; simp [distOf] at h
  | cons w ws ih =>
    intro body dist width h hfit
    obtain ⟨n, wd⟩ := w
    simp only [distOf] at h
    by_cases hn : n = name
    · subst hn
      simp only [if_true, Option.some.injEq, Prod.mk.injEq] at h
      obtain ⟨hdist, hw⟩ := h
      subst hw
      have hlen : (body ++ encodeFields ((n, wd) :: ws) vals).length = body.length + dist := by
        rw [List.length_append, encodeFields_length]
        simp only [totalWidth, List.map_cons, List.sum_cons] at hdist ⊢
        omega
      refine ⟨by omega, ?_⟩
      rw [hlen, Nat.add_sub_cancel, List.drop_left, encodeFields_cons]
      have : (beBytes wd (vals n)).length = wd := beBytes_length _ _
      rw [List.take_left' this]
      exact be64_beBytes _ _ hfit
    · simp only [hn, if_false] at h
      have := ih (body ++ beBytes wd (vals n)) dist width h hfit
      rw [encodeFields_cons]
      simpa [List.append_assoc] using this

/-- The reader table agrees with the writer table: every field read is
    located where (and as wide as) the writer wrote it. Checked by `decide`
    on the GENERATED tables. -/
def footerTablesAgree : Bool :=
  Gen.Facts.footerReads.all (fun r =>
    distOf (writeName r.1) Gen.Facts.footerWrites == some (r.2.1, r.2.2))

theorem footerTablesAgree_true : footerTablesAgree = true := by decide

/-- Reader field names are distinct, so `lookup` finds each row. -/
theorem footerReads_lookup :
    ∀ r ∈ Gen.Facts.footerReads, lookup r.1 Gen.Facts.footerReads = some r.2 := by decide

/-- Every field the reader decodes from `body ++ footer` is the value the writer
    encoded, provided the value fits its width. -/
theorem footer_roundtrip (vals : String → Nat) (body : Bytes) (name : String)
    (hname : name ∈ Gen.Facts.footerReads.map (·.1))
    (hfit : ∀ w ∈ Gen.Facts.footerWrites, vals w.1 < 256 ^ w.2) :
    decodeField (body ++ encodeFooter vals) name = some (vals (writeName name)) := by
  obtain ⟨r, hr, rfl⟩ := List.mem_map.mp hname
  obtain ⟨rn, rd, rw'⟩ := r
  have hlk := footerReads_lookup _ hr
  have hag : distOf (writeName rn) Gen.Facts.footerWrites = some (rd, rw') := by
    have := footerTablesAgree_true
    simp only [footerTablesAgree, List.all_eq_true] at this
    simpa using this _ hr
  -- the write-table row for this name has the reader's width
  have hfit' : vals (writeName rn) < 256 ^ rw' := by
    have key : ∀ (ws : List (String × Nat)), (∀ w ∈ ws, vals w.1 < 256 ^ w.2) →
        ∀ d wd, distOf (writeName rn) ws = some (d, wd) → vals (writeName rn) < 256 ^ wd := by
      intro ws
      induction ws with
      | nil => intro _ d wd h; simp [distOf] at h
      | cons w ws ih =>
        intro hall d wd h
        obtain ⟨n, w0⟩ := w
        simp only [distOf] at h
        by_cases hn : n = writeName rn
        · simp only [hn, if_true, Option.some.injEq, Prod.mk.injEq] at h
          have := hall (n, w0) (by simp)
          rw [← h.2, ← hn]
          exact this
        · simp only [hn, if_false] at h
          exact ih (fun w hw => hall w (by simp [hw])) d wd h
    exact key _ hfit _ _ hag
  obtain ⟨hle, hval⟩ := read_written_field vals (writeName rn) Gen.Facts.footerWrites body rd rw'
    hag hfit'
  unfold decodeField encodeFooter
  simp only at hlk
  rw [hlk]
  simp only [hle, if_true, hval]

/-- The documented v16 footer. -/
def documentedFooter : List (String × Nat) :=
  [("numDocs", 8), ("storedIndexOffset", 8), ("fieldsIndexOffset", 8),
   ("sectionsIndexOffset", 8), ("docValueOffset", 8), ("chunkMode", 4), ("Version", 4), ("crc", 4)]

theorem footer_layout : Gen.Facts.footerWrites = documentedFooter := by decide

theorem footer_size : (Gen.Facts.footerWrites.map (·.2)).sum = Gen.FooterSize := by decide

theorem footer_length (vals : String → Nat) : (encodeFooter vals).length = Gen.FooterSize := by
  rw [encodeFooter, encodeFields_length, totalWidth, footer_size]

/-- The reader reads every field the writer writes (same name set up to `writeName`). -/
theorem footer_reads_cover_writes :
    Gen.Facts.footerWrites.all (fun w =>
      Gen.Facts.footerReads.any (fun r => writeName r.1 == w.1 && r.2.2 == w.2)) = true := by
  decide

/-- The `Footer` structure view: encode the record, decode each field. -/
def Footer.vals (f : Footer) : String → Nat
  | "numDocs" => f.numDocs
  | "storedIndexOffset" => f.storedIndexOffset
  | "fieldsIndexOffset" => f.fieldsIndexOffset
  | "sectionsIndexOffset" => f.sectionsIndexOffset
  | "docValueOffset" => f.docValueOffset
  | "chunkMode" => f.chunkMode
  | "Version" => f.version
  | "crc" => f.crc
  | _ => 0

end Zap.Codec
