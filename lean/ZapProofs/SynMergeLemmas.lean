/-
  ZapProofs.SynMergeLemmas: helper lemmas for C13 (synonym section merge):
  `mergeThes` as a walk over the sorted key union adding (synonym, new doc)
  items, the thesaurus field of `mergeSegs`, well-formedness closure, and
  renaming of internal synonym ids.
-/
import ZapProofs.SynLemmas

namespace Zap.SynL
open Zap Zap.Spec

abbrev Part := List (Option Nat) × Thes

/-- What one input contributes to key `k`: its surviving (synonym term, new
    document number) pairs, in code order. -/
def itemsOf (k : Bytes) (p : Part) : List (Bytes × Nat) :=
  match lookup k p.2.terms with
  | none => []
  | some cs => cs.filterMap (fun c => (p.1.getD c.2 none).map (fun nd => ((lookup c.1 p.2.table).getD [], nd)))

def items (parts : List Part) (k : Bytes) : List (Bytes × Nat) := parts.flatMap (itemsOf k)

/-- One synonym of one input: define its new id if needed, add the code. -/
def addItem (a : List Bytes × List (Nat × Nat)) (it : Bytes × Nat) : List Bytes × List (Nat × Nat) :=
  (getOrDefine a.1 it.1, insertCode (synIdOf (getOrDefine a.1 it.1) it.1, it.2) a.2)

def runItems (its : List (Bytes × Nat)) (a : List Bytes × List (Nat × Nat)) : List Bytes × List (Nat × Nat) :=
  its.foldl addItem a

def stepKey (parts : List Part) (acc : List Bytes × List (Bytes × List (Nat × Nat))) (k : Bytes) :
    List Bytes × List (Bytes × List (Nat × Nat)) :=
  ((runItems (items parts k) (acc.1, [])).1, acc.2 ++ [(k, (runItems (items parts k) (acc.1, [])).2)])

def walkOf (parts : List Part) (ks : List Bytes) : List Bytes × List (Bytes × List (Nat × Nat)) :=
  ks.foldl (stepKey parts) ([], [])

def partIts (parts : List Part) : List (List (Bytes × Nat)) :=
  parts.map (fun p => p.2.terms.map (fun t => (t.1, 0)))

def partKeys (parts : List Part) : List Bytes := ((enumerate (partIts parts)).map (·.1)).eraseDups

theorem inner_eq (parts : List Part) (k : Bytes) (a : List Bytes × List (Nat × Nat)) :
    parts.foldl (fun (a : List Bytes × List (Nat × Nat)) p =>
      match lookup k p.2.terms with
      | none => a
      | some cs => cs.foldl (fun (a : List Bytes × List (Nat × Nat)) c =>
          match p.1.getD c.2 none with
          | none => a
          | some nd =>
            (getOrDefine a.1 ((lookup c.1 p.2.table).getD []),
             insertCode (synIdOf (getOrDefine a.1 ((lookup c.1 p.2.table).getD [])) ((lookup c.1 p.2.table).getD []), nd) a.2)) a) a
      = runItems (items parts k) a := by
  unfold runItems items
  rw [List.foldl_flatMap]
  congr 1
  funext a p
  unfold itemsOf
  cases lookup k p.2.terms with
  | none => rfl
  | some cs =>
    simp only []
    rw [List.foldl_filterMap]
    congr 1
    funext a c
    cases p.1.getD c.2 none <;> rfl

theorem mergeThes_eq (parts : List Part) (h : parts ≠ []) :
    mergeThes parts = some
      { terms := (walkOf parts (partKeys parts)).2.filter (fun p => !p.2.isEmpty),
        table := tableOf (walkOf parts (partKeys parts)).1 } := by
  have he : parts.isEmpty = false := by cases parts with
    | nil => exact absurd rfl h
    | cons => rfl
  unfold mergeThes
  simp only [he]
  have hF : ∀ (ks : List Bytes) init, ks.foldl (fun (acc : List Bytes × List (Bytes × List (Nat × Nat))) k =>
        ((parts.foldl (fun (a : List Bytes × List (Nat × Nat)) p =>
          match lookup k p.2.terms with
          | none => a
          | some cs => cs.foldl (fun (a : List Bytes × List (Nat × Nat)) c =>
              match p.1.getD c.2 none with
              | none => a
              | some nd =>
                (getOrDefine a.1 ((lookup c.1 p.2.table).getD []),
                 insertCode (synIdOf (getOrDefine a.1 ((lookup c.1 p.2.table).getD [])) ((lookup c.1 p.2.table).getD []), nd) a.2)) a) (acc.1, [])).1,
         acc.2 ++ [(k, (parts.foldl (fun (a : List Bytes × List (Nat × Nat)) p =>
          match lookup k p.2.terms with
          | none => a
          | some cs => cs.foldl (fun (a : List Bytes × List (Nat × Nat)) c =>
              match p.1.getD c.2 none with
              | none => a
              | some nd =>
                (getOrDefine a.1 ((lookup c.1 p.2.table).getD []),
                 insertCode (synIdOf (getOrDefine a.1 ((lookup c.1 p.2.table).getD [])) ((lookup c.1 p.2.table).getD []), nd) a.2)) a) (acc.1, [])).2)])) init
      = ks.foldl (stepKey parts) init := by
    intro ks init
    congr 1
    funext acc k
    unfold stepKey
    rw [inner_eq]
  exact congrArg some (by
    unfold walkOf tableOf partKeys partIts
    rw [← hF]
    rfl)

/-! ### New synonym ids: first appearance, stable once defined -/

theorem getOrDefine_eq (ids : List Bytes) (s : Bytes) :
    getOrDefine ids s = if s ∈ ids then ids else ids ++ [s] := by
  unfold getOrDefine
  by_cases h : s ∈ ids
  · simp [h]
  · simp [h]

theorem mem_getOrDefine_self (ids : List Bytes) (s : Bytes) : s ∈ getOrDefine ids s := by
  rw [getOrDefine_eq]; split <;> simp [*]

theorem getOrDefine_prefix (ids : List Bytes) (s : Bytes) : ∃ more, getOrDefine ids s = ids ++ more := by
  rw [getOrDefine_eq]; split
  · exact ⟨[], by simp⟩
  · exact ⟨[s], rfl⟩

theorem getOrDefine_nodup (ids : List Bytes) (s : Bytes) (h : ids.Nodup) : (getOrDefine ids s).Nodup :=
  MergeL.nodup_foldl_getOrDefine [s] ids h

theorem synIdOf_append {ids : List Bytes} {s : Bytes} (h : s ∈ ids) (more : List Bytes) :
    synIdOf (ids ++ more) s = synIdOf ids s := by
  unfold synIdOf
  rw [List.findIdx?_append]
  obtain ⟨j, h1, _⟩ := MergeL.findIdx?_of_mem ids s h
  rw [h1]; rfl

/-- Invariants of adding a run of items to a code list. -/
theorem runItems_spec (its : List (Bytes × Nat)) (ids : List Bytes) (codes : List (Nat × Nat)) :
    (∃ more, (runItems its (ids, codes)).1 = ids ++ more) ∧
    (ids.Nodup → (runItems its (ids, codes)).1.Nodup) ∧
    (∀ it ∈ its, it.1 ∈ (runItems its (ids, codes)).1) ∧
    (codes.Pairwise CodeLt → (runItems its (ids, codes)).2.Pairwise CodeLt) ∧
    (∀ c, c ∈ (runItems its (ids, codes)).2 ↔
        c ∈ codes ∨ ∃ it ∈ its, c = (synIdOf (runItems its (ids, codes)).1 it.1, it.2)) := by
  unfold runItems
  induction its generalizing ids codes with
  | nil => exact ⟨⟨[], by simp⟩, id, by simp, id, by simp⟩
  | cons it rest ih =>
    rw [List.foldl_cons]
    obtain ⟨m1, hm1⟩ := getOrDefine_prefix ids it.1
    have hself := mem_getOrDefine_self ids it.1
    obtain ⟨⟨m2, hm2⟩, hnd, hmem, hpw, hc⟩ :=
      ih (getOrDefine ids it.1) (insertCode (synIdOf (getOrDefine ids it.1) it.1, it.2) codes)
    have hadd : addItem (ids, codes) it =
        (getOrDefine ids it.1, insertCode (synIdOf (getOrDefine ids it.1) it.1, it.2) codes) := rfl
    rw [hadd]
    refine ⟨⟨m1 ++ m2, by rw [hm2, hm1, List.append_assoc]⟩, fun h => hnd (getOrDefine_nodup ids it.1 h), ?_,
      fun h => hpw (pairwise_insertCode _ _ h), ?_⟩
    · intro x hx
      rcases List.mem_cons.1 hx with rfl | hx
      · rw [hm2]; exact List.mem_append_left _ hself
      · exact hmem x hx
    · intro c
      rw [hc, mem_insertCode]
      have hst : synIdOf (List.foldl addItem (getOrDefine ids it.1,
          insertCode (synIdOf (getOrDefine ids it.1) it.1, it.2) codes) rest).1 it.1
            = synIdOf (getOrDefine ids it.1) it.1 := by
        rw [hm2]; exact synIdOf_append hself m2
      constructor
      · rintro ((h | h) | ⟨x, hx, h⟩)
        · exact Or.inr ⟨it, by simp, by rw [hst]; exact h⟩
        · exact Or.inl h
        · exact Or.inr ⟨x, by simp [hx], h⟩
      · rintro (h | ⟨x, hx, h⟩)
        · exact Or.inl (Or.inr h)
        · rcases List.mem_cons.1 hx with rfl | hx
          · exact Or.inl (Or.inl (by rw [← hst]; exact h))
          · exact Or.inr ⟨x, hx, h⟩

/-- What the walk has recorded for one key, relative to the id list `ids`. -/
def EntryOK (parts : List Part) (ids : List Bytes) (e : Bytes × List (Nat × Nat)) : Prop :=
  e.2.Pairwise CodeLt ∧ (∀ it ∈ items parts e.1, it.1 ∈ ids) ∧
  ∀ c, c ∈ e.2 ↔ ∃ it ∈ items parts e.1, c = (synIdOf ids it.1, it.2)

theorem entryOK_extend {parts : List Part} {ids : List Bytes} {e : Bytes × List (Nat × Nat)}
    (h : EntryOK parts ids e) (more : List Bytes) : EntryOK parts (ids ++ more) e := by
  obtain ⟨h1, h2, h3⟩ := h
  refine ⟨h1, fun it hit => List.mem_append_left _ (h2 it hit), fun c => ?_⟩
  rw [h3]
  constructor
  · rintro ⟨it, hit, rfl⟩; exact ⟨it, hit, by rw [synIdOf_append (h2 it hit)]⟩
  · rintro ⟨it, hit, rfl⟩; exact ⟨it, hit, by rw [synIdOf_append (h2 it hit)]⟩

theorem walk_spec (parts : List Part) (ks : List Bytes) (ids : List Bytes)
    (out : List (Bytes × List (Nat × Nat))) :
    (∃ more, (ks.foldl (stepKey parts) (ids, out)).1 = ids ++ more) ∧
    (ids.Nodup → (ks.foldl (stepKey parts) (ids, out)).1.Nodup) ∧
    (ks.foldl (stepKey parts) (ids, out)).2.map (·.1) = out.map (·.1) ++ ks ∧
    (∀ e ∈ (ks.foldl (stepKey parts) (ids, out)).2,
        e ∈ out ∨ EntryOK parts (ks.foldl (stepKey parts) (ids, out)).1 e) := by
  induction ks generalizing ids out with
  | nil => exact ⟨⟨[], by simp⟩, id, by simp, fun e he => Or.inl he⟩
  | cons k ks ih =>
    rw [List.foldl_cons]
    obtain ⟨⟨m1, hm1⟩, hnd1, hmem1, hpw1, hc1⟩ := runItems_spec (items parts k) ids []
    have hstep : stepKey parts (ids, out) k =
        ((runItems (items parts k) (ids, [])).1, out ++ [(k, (runItems (items parts k) (ids, [])).2)]) := rfl
    rw [hstep]
    obtain ⟨⟨m2, hm2⟩, hnd2, hkeys2, hent2⟩ :=
      ih (runItems (items parts k) (ids, [])).1 (out ++ [(k, (runItems (items parts k) (ids, [])).2)])
    refine ⟨⟨m1 ++ m2, by rw [hm2, hm1, List.append_assoc]⟩, fun h => hnd2 (hnd1 h), ?_, ?_⟩
    · rw [hkeys2]; simp
    · intro e he
      rcases hent2 e he with h | h
      · rcases List.mem_append.1 h with h | h
        · exact Or.inl h
        · simp only [List.mem_singleton] at h
          subst h
          refine Or.inr ?_
          rw [hm2]
          apply entryOK_extend
          refine ⟨hpw1 List.Pairwise.nil, hmem1, fun c => ?_⟩
          rw [hc1]; simp
      · exact Or.inr h

/-! ### `mergeThes`: content and well-formedness -/

/-- Inputs whose term lists are strictly ascending by key. -/
def PartsSorted (parts : List Part) : Prop := ∀ p ∈ parts, SortedLt (p.2.terms.map (·.1))

theorem partIts_sorted {parts : List Part} (hs : PartsSorted parts) :
    ∀ it ∈ partIts parts, MergeL.ItSorted it := by
  intro it hit
  unfold partIts at hit
  obtain ⟨p, hp, rfl⟩ := List.mem_map.1 hit
  unfold MergeL.ItSorted MergeL.keysOf
  rw [List.map_map]
  exact hs p hp

theorem partKeys_eq {parts : List Part} (hs : PartsSorted parts) :
    partKeys parts = MergeL.keysUnion (partIts parts) := by
  unfold partKeys
  rw [MergeL.enumerate_eq_spec _ (partIts_sorted hs), MergeL.enumSpec_keys (partIts_sorted hs)]

theorem partKeys_sorted {parts : List Part} (hs : PartsSorted parts) : SortedLt (partKeys parts) := by
  rw [partKeys_eq hs]; exact MergeL.sortedLt_sortDedup _

theorem mem_partKeys {parts : List Part} (hs : PartsSorted parts) (k : Bytes) :
    k ∈ partKeys parts ↔ ∃ p ∈ parts, k ∈ p.2.terms.map (·.1) := by
  rw [partKeys_eq hs, MergeL.keysUnion, MergeL.mem_sortDedup]
  unfold MergeL.allKeys partIts MergeL.keysOf
  simp only [List.mem_flatMap, List.mem_map]
  constructor
  · rintro ⟨it, ⟨p, hp, rfl⟩, x, hx, rfl⟩
    obtain ⟨y, hy, rfl⟩ := List.mem_map.1 hx
    exact ⟨p, hp, y, hy, rfl⟩
  · rintro ⟨p, hp, y, hy, rfl⟩
    exact ⟨_, ⟨p, hp, rfl⟩, _, List.mem_map.2 ⟨y, hy, rfl⟩, rfl⟩

theorem mem_itemsOf {k : Bytes} {p : Part} {q : Bytes × Nat} :
    q ∈ itemsOf k p ↔ ∃ cs, lookup k p.2.terms = some cs ∧ ∃ c ∈ cs,
      p.1.getD c.2 none = some q.2 ∧ q.1 = (lookup c.1 p.2.table).getD [] := by
  unfold itemsOf
  split
  · rename_i h; simp [h]
  · rename_i cs h
    simp only [h, Option.some.injEq, exists_eq_left', List.mem_filterMap, Option.map_eq_some_iff]
    constructor
    · rintro ⟨c, hc, nd, h1, rfl⟩; exact ⟨c, hc, h1, rfl⟩
    · rintro ⟨c, hc, h1, h2⟩; exact ⟨c, hc, q.2, h1, by rw [← h2]⟩

theorem items_key_mem {parts : List Part} {k : Bytes} {q : Bytes × Nat} (h : q ∈ items parts k) :
    ∃ p ∈ parts, k ∈ p.2.terms.map (·.1) := by
  unfold items at h
  obtain ⟨p, hp, hq⟩ := List.mem_flatMap.1 h
  obtain ⟨cs, hl, _⟩ := mem_itemsOf.1 hq
  exact ⟨p, hp, (lookup_isSome_iff k _).1 (by rw [hl]; rfl)⟩

/-- The merged thesaurus: well formed, and per key exactly the inputs' surviving
    pairs under the new numbering. -/
theorem mergeThes_spec (parts : List Part) (hne : parts ≠ []) (hs : PartsSorted parts) :
    ∃ t, mergeThes parts = some t ∧ ThesWF t ∧
      ∀ k q, (∃ cs, lookup k t.terms = some cs ∧ ∃ c ∈ cs, q = ((lookup c.1 t.table).getD [], c.2)) ↔
        q ∈ items parts k := by
  refine ⟨_, mergeThes_eq parts hne, ?_, ?_⟩
  all_goals
    obtain ⟨_, hnd, hkeys, hent⟩ := walk_spec parts (partKeys parts) [] []
    have hnd := hnd List.nodup_nil
    have hent : ∀ e ∈ (walkOf parts (partKeys parts)).2, EntryOK parts (walkOf parts (partKeys parts)).1 e := by
      intro e he
      rcases hent e he with h | h
      · cases h
      · exact h
    have hkeys : (walkOf parts (partKeys parts)).2.map (·.1) = partKeys parts := by
      unfold walkOf; rw [hkeys]; simp
    have hksorted := partKeys_sorted hs
    have hknd : ((walkOf parts (partKeys parts)).2.map (·.1)).Nodup := by
      rw [hkeys]; exact MergeL.sortedLt_nodup hksorted
  · -- well-formedness
    refine ⟨?_, ?_, ?_, ?_, ?_⟩
    · show SortedLt (((walkOf parts (partKeys parts)).2.filter (fun p => !p.2.isEmpty)).map (·.1))
      rw [← hkeys] at hksorted
      generalize (walkOf parts (partKeys parts)).2 = l at hksorted
      have : (l.filter (fun p => !p.2.isEmpty)).Pairwise (fun a b => Bytes.lt a.1 b.1 = true) := by
        apply List.Pairwise.filter
        exact List.pairwise_map.1 ((Stored.sortedLt_iff_pairwise _).1 hksorted)
      exact (Stored.sortedLt_iff_pairwise _).2 (List.pairwise_map.2 this)
    · intro p hp
      obtain ⟨hp1, hp2⟩ := List.mem_filter.1 hp
      refine ⟨?_, (hent p hp1).1⟩
      intro e; rw [e] at hp2; simp at hp2
    · intro p hp c hc
      obtain ⟨hp1, _⟩ := List.mem_filter.1 hp
      obtain ⟨_, h2, h3⟩ := hent p hp1
      obtain ⟨it, hit, rfl⟩ := (h3 c).1 hc
      show (lookup _ (tableOf _)).isSome = true
      rw [lookup_tableOf_synIdOf (h2 it hit)]; rfl
    · show ((tableOf _).map (·.1)).Nodup
      rw [tableOf_ids]; exact List.nodup_range' 1
    · show ((tableOf _).map (·.2)).Nodup
      rw [tableOf_syns]; exact hnd
  · -- content
    intro k q
    show (∃ cs, lookup k ((walkOf parts (partKeys parts)).2.filter (fun p => !p.2.isEmpty)) = some cs ∧
        ∃ c ∈ cs, q = ((lookup c.1 (tableOf (walkOf parts (partKeys parts)).1)).getD [], c.2)) ↔ _
    rw [lookup_filter _ k _ hknd]
    constructor
    · rintro ⟨cs, hl, c, hc, rfl⟩
      cases hl' : lookup k (walkOf parts (partKeys parts)).2 with
      | none => rw [hl'] at hl; cases hl
      | some cs' =>
        rw [hl'] at hl
        simp only [Option.bind_some] at hl
        split at hl
        · cases hl
          obtain ⟨_, h2, h3⟩ := hent _ (lookup_mem hl')
          obtain ⟨it, hit, rfl⟩ := (h3 c).1 hc
          rw [lookup_tableOf_synIdOf (h2 it hit)]
          exact hit
        · cases hl
    · intro hq
      obtain ⟨p, hp, hk⟩ := items_key_mem hq
      have hk' : k ∈ (walkOf parts (partKeys parts)).2.map (·.1) := by
        rw [hkeys]; exact (mem_partKeys hs k).2 ⟨p, hp, hk⟩
      obtain ⟨e, he, rfl⟩ := List.mem_map.1 hk'
      obtain ⟨_, h2, h3⟩ := hent e he
      have hc : (synIdOf (walkOf parts (partKeys parts)).1 q.1, q.2) ∈ e.2 := (h3 _).2 ⟨q, hq, rfl⟩
      have hl : lookup e.1 (walkOf parts (partKeys parts)).2 = some e.2 := lookup_of_mem_nodup hknd he
      have hne' : ¬ e.2 = [] := by
        intro hh; rw [hh] at hc; cases hc
      refine ⟨e.2, by rw [hl]; simp [hne'], _, hc, ?_⟩
      rw [lookup_tableOf_synIdOf (h2 q hq)]; rfl

theorem mergeThes_nil : mergeThes [] = none := rfl

/-! ### The thesaurus field of `mergeSegs` -/

def thesPartsOf (nm : Name) (segs : List Seg) (maps : List (List (Option Nat))) : List Part :=
  (segs.zip maps).filterMap (fun p => (p.1.thes? nm).map (fun t => (p.2, t)))

theorem mergeSegs_thesMap (v : Bool) (m : Nat) (segs : List Seg) (drops : List (Option (List Nat)))
    (h : newDocCount segs drops ≠ 0) :
    (mergeSegs v m segs drops).1.fields.map (fun f => (f.name, f.thes)) =
      (mergedFieldNames segs).map (fun nm => (nm, mergeThes (thesPartsOf nm segs (remapAll segs drops 0)))) := by
  unfold mergeSegs
  simp only [h, if_false, List.map_map]
  rfl

theorem find_of_map_eq' {β : Type} (proj : FieldM → β) {T : Name → β} {nm : Name} :
    ∀ {l : List FieldM} {names : List Name},
      l.map (fun f => (f.name, proj f)) = names.map (fun n => (n, T n)) →
      (l.find? (fun f => f.name = nm)).map proj = if nm ∈ names then some (T nm) else none := by
  intro l
  induction l with
  | nil =>
    intro names h
    cases names with
    | nil => simp
    | cons n ns => simp at h
  | cons f l ih =>
    intro names h
    cases names with
    | nil => simp at h
    | cons n ns =>
      simp only [List.map_cons, List.cons.injEq, Prod.mk.injEq] at h
      obtain ⟨⟨h1, h2⟩, h3⟩ := h
      by_cases hn : n = nm
      · rw [List.find?_cons_of_pos (by simp [h1, hn])]
        simp [hn, h2]
      · rw [List.find?_cons_of_neg (by simp [h1, hn]), ih h3]
        have : (nm ∈ n :: ns) ↔ nm ∈ ns := by
          simp only [List.mem_cons]
          constructor
          · rintro (e | e)
            · exact absurd e.symm hn
            · exact e
          · exact Or.inr
        by_cases hm : nm ∈ ns
        · rw [if_pos hm, if_pos (this.2 hm)]
        · rw [if_neg hm, if_neg (fun x => hm (this.1 x))]

theorem thes?_some_fieldNames {s : Seg} {n : Name} {t : Thes} (h : s.thes? n = some t) : n ∈ s.fieldNames := by
  unfold Seg.thes? Seg.field? at h
  split at h
  · cases h
  · rename_i f hf
    unfold Seg.fieldNames
    have h1 := List.mem_of_find?_eq_some hf
    have h2 := List.find?_some hf
    exact List.mem_map.2 ⟨f, h1, by simpa using h2⟩

theorem mem_zip_iff {α β : Type} {l₁ : List α} {l₂ : List β} {z : α × β} :
    z ∈ l₁.zip l₂ ↔ ∃ i : Nat, l₁[i]? = some z.1 ∧ l₂[i]? = some z.2 := by
  constructor
  · intro h
    obtain ⟨i, hi⟩ := List.mem_iff_getElem?.1 h
    exact ⟨i, List.getElem?_zip_eq_some.1 hi⟩
  · rintro ⟨i, hi⟩
    exact List.mem_iff_getElem?.2 ⟨i, List.getElem?_zip_eq_some.2 hi⟩

theorem mem_thesPartsOf {nm : Name} {segs : List Seg} {maps : List (List (Option Nat))}
    (hlen : maps.length = segs.length) {part : Part} :
    part ∈ thesPartsOf nm segs maps ↔
      ∃ i, ∃ hi : i < segs.length, segs[i].thes? nm = some part.2 ∧ part.1 = maps.getD i [] := by
  unfold thesPartsOf
  rw [List.mem_filterMap]
  constructor
  · rintro ⟨z, hz, he⟩
    obtain ⟨i, h1, h2⟩ := mem_zip_iff.1 hz
    have hi : i < segs.length := by
      by_cases hi : i < segs.length
      · exact hi
      · rw [List.getElem?_eq_none (by omega)] at h1; cases h1
    refine ⟨i, hi, ?_⟩
    rw [List.getElem?_eq_getElem hi] at h1
    have h1' : segs[i] = z.1 := Option.some.inj h1
    rw [h1']
    cases ht : z.1.thes? nm with
    | none => rw [ht] at he; cases he
    | some t =>
      rw [ht] at he
      simp only [Option.map_some, Option.some.injEq] at he
      subst he
      refine ⟨rfl, ?_⟩
      rw [List.getD_eq_getElem?_getD, h2]; rfl
  · rintro ⟨i, hi, ht, hm⟩
    have hi' : i < maps.length := by omega
    have hg : maps.getD i [] = maps[i] := by
      simp [List.getD_eq_getElem?_getD, List.getElem?_eq_getElem hi']
    refine ⟨(segs[i], maps[i]), mem_zip_iff.2 ⟨i, List.getElem?_eq_getElem hi, List.getElem?_eq_getElem hi'⟩, ?_⟩
    rw [ht]
    obtain ⟨a, b⟩ := part
    simp only at hm ht ⊢
    rw [hm, hg]; rfl

theorem thesPartsOf_nil_of_unknown {nm : Name} {segs : List Seg} {maps : List (List (Option Nat))}
    (h : nm ∉ mergedFieldNames segs) : thesPartsOf nm segs maps = [] := by
  unfold thesPartsOf
  rw [List.filterMap_eq_nil_iff]
  intro z hz
  cases ht : z.1.thes? nm with
  | none => rfl
  | some t =>
    exfalso; apply h
    rw [(MergeL.mergedFieldNames_props segs).2.2.1]
    exact Or.inr ⟨z.1, (List.of_mem_zip hz).1, thes?_some_fieldNames ht⟩

/-- The thesaurus of field `nm` in the merge result. -/
theorem mergeSegs_thes? (v : Bool) (m : Nat) (segs : List Seg) (drops : List (Option (List Nat)))
    (hne : newDocCount segs drops ≠ 0) (nm : Name) :
    (mergeSegs v m segs drops).1.thes? nm = mergeThes (thesPartsOf nm segs (remapAll segs drops 0)) := by
  have hnd : (mergeSegs v m segs drops).1.numDocs ≠ 0 := by rw [MergeL.mergeSegs_numDocs]; exact hne
  have hf := find_of_map_eq' (fun f => f.thes) (nm := nm) (mergeSegs_thesMap v m segs drops hne)
  unfold Seg.thes? Seg.field? Seg.loadedFields
  rw [if_neg hnd]
  by_cases hn : nm ∈ mergedFieldNames segs
  · rw [if_pos hn] at hf
    cases hfind : (mergeSegs v m segs drops).1.fields.find? (fun f => f.name = nm) with
    | none => rw [hfind] at hf; cases hf
    | some f =>
      rw [hfind] at hf
      simpa using hf
  · rw [if_neg hn] at hf
    rw [thesPartsOf_nil_of_unknown hn, mergeThes_nil]
    cases hfind : (mergeSegs v m segs drops).1.fields.find? (fun f => f.name = nm) with
    | none => rfl
    | some f => rw [hfind] at hf; cases hf

/-- Items of the inputs of field `nm`, in terms of the inputs' `synonyms`. -/
theorem mem_items_segs {nm : Name} {segs : List Seg} {maps : List (List (Option Nat))}
    (hlen : maps.length = segs.length) (k : Bytes) (q : Bytes × Nat) :
    q ∈ items (thesPartsOf nm segs maps) k ↔
      ∃ i, ∃ hi : i < segs.length, ∃ d syn, (syn, d) ∈ segs[i].synonyms nm k none ∧
        (maps.getD i []).getD d none = some q.2 ∧ q.1 = syn := by
  unfold items
  rw [List.mem_flatMap]
  constructor
  · rintro ⟨part, hpart, hq⟩
    obtain ⟨i, hi, ht, hm⟩ := (mem_thesPartsOf hlen).1 hpart
    obtain ⟨cs, hl, c, hc, h1, h2⟩ := mem_itemsOf.1 hq
    refine ⟨i, hi, c.2, q.1, ?_, by rw [← hm]; exact h1, rfl⟩
    rw [mem_synonyms]
    exact ⟨part.2, ht, cs, hl, c, hc, rfl, by rw [h2]⟩
  · rintro ⟨i, hi, d, syn, hsyn, hmap, hq1⟩
    obtain ⟨t, ht, cs, hl, c, hc, _, he⟩ := (mem_synonyms _ _ _ _ _).1 hsyn
    simp only [Prod.mk.injEq] at he
    refine ⟨(maps.getD i [], t), (mem_thesPartsOf hlen).2 ⟨i, hi, ht, rfl⟩, mem_itemsOf.2 ⟨cs, hl, c, hc, ?_, ?_⟩⟩
    · simp only; rw [← he.2]; exact hmap
    · simp only; rw [hq1, he.1]

theorem thesPartsOf_sorted {nm : Name} {segs : List Seg} {maps : List (List (Option Nat))}
    (hs : ∀ s ∈ segs, ∀ t, s.thes? nm = some t → SortedLt (t.terms.map (·.1))) :
    PartsSorted (thesPartsOf nm segs maps) := by
  intro part hpart
  unfold thesPartsOf at hpart
  obtain ⟨z, hz, he⟩ := List.mem_filterMap.1 hpart
  cases ht : z.1.thes? nm with
  | none => rw [ht] at he; cases he
  | some t =>
    rw [ht] at he
    simp only [Option.map_some, Option.some.injEq] at he
    subst he
    exact hs z.1 (List.of_mem_zip hz).1 t ht

/-- C13 core: membership in the merged `synonyms`. -/
theorem merged_synonyms_mem (v : Bool) (m : Nat) (segs : List Seg) (drops : List (Option (List Nat)))
    (hne : newDocCount segs drops ≠ 0) (nm : Name) (term : Bytes) (ex : Option (List Nat))
    (hs : ∀ s ∈ segs, ∀ t, s.thes? nm = some t → SortedLt (t.terms.map (·.1))) (q : Bytes × Nat) :
    q ∈ (mergeSegs v m segs drops).1.synonyms nm term ex ↔
      ∃ i, ∃ hi : i < segs.length, ∃ d syn, (syn, d) ∈ segs[i].synonyms nm term none ∧
        ((remapAll segs drops 0).getD i []).getD d none = some q.2 ∧ q.1 = syn ∧ excluded ex q.2 = false := by
  have hlen := MergeL.remapAll_length segs drops 0
  rw [mem_synonyms, mergeSegs_thes? v m segs drops hne]
  by_cases hnil : thesPartsOf nm segs (remapAll segs drops 0) = []
  · rw [hnil, mergeThes_nil]
    constructor
    · rintro ⟨t, ht, _⟩; cases ht
    · rintro ⟨i, hi, d, syn, hsyn, hmap, hq1, _⟩
      have : q ∈ items (thesPartsOf nm segs (remapAll segs drops 0)) term :=
        (mem_items_segs hlen term q).2 ⟨i, hi, d, syn, hsyn, hmap, hq1⟩
      rw [hnil] at this; cases this
  · obtain ⟨t, ht, _, hcontent⟩ := mergeThes_spec _ hnil (thesPartsOf_sorted hs)
    rw [ht]
    constructor
    · rintro ⟨t', ht', cs, hl, c, hc, hex, hq⟩
      cases ht'
      have : q ∈ items (thesPartsOf nm segs (remapAll segs drops 0)) term :=
        (hcontent term q).1 ⟨cs, hl, c, hc, hq⟩
      obtain ⟨i, hi, d, syn, h1, h2, h3⟩ := (mem_items_segs hlen term q).1 this
      refine ⟨i, hi, d, syn, h1, h2, h3, ?_⟩
      rw [hq]; exact hex
    · rintro ⟨i, hi, d, syn, h1, h2, h3, hex⟩
      have : q ∈ items (thesPartsOf nm segs (remapAll segs drops 0)) term :=
        (mem_items_segs hlen term q).2 ⟨i, hi, d, syn, h1, h2, h3⟩
      obtain ⟨cs, hl, c, hc, hq⟩ := (hcontent term q).2 this
      refine ⟨t, rfl, cs, hl, c, hc, ?_, hq⟩
      rw [hq] at hex; exact hex

/-- Closure: every thesaurus of the merge result is well formed again. -/
theorem merged_thes_wf (v : Bool) (m : Nat) (segs : List Seg) (drops : List (Option (List Nat)))
    (hne : newDocCount segs drops ≠ 0)
    (hs : ∀ s ∈ segs, ∀ nm t, s.thes? nm = some t → SortedLt (t.terms.map (·.1))) :
    SegThesWF (mergeSegs v m segs drops).1 := by
  intro nm t ht
  rw [mergeSegs_thes? v m segs drops hne] at ht
  by_cases hnil : thesPartsOf nm segs (remapAll segs drops 0) = []
  · rw [hnil, mergeThes_nil] at ht; cases ht
  · obtain ⟨t', ht', hwf, _⟩ := mergeThes_spec _ hnil (thesPartsOf_sorted (fun s hs' t ht => hs s hs' nm t ht))
    rw [ht'] at ht; cases ht; exact hwf

theorem merged_thes?_isSome (v : Bool) (m : Nat) (segs : List Seg) (drops : List (Option (List Nat)))
    (hne : newDocCount segs drops ≠ 0) (nm : Name) :
    ((mergeSegs v m segs drops).1.thes? nm).isSome = true ↔ ∃ s ∈ segs, (s.thes? nm).isSome = true := by
  have hlen := MergeL.remapAll_length segs drops 0
  rw [mergeSegs_thes? v m segs drops hne]
  constructor
  · intro h
    by_cases hnil : thesPartsOf nm segs (remapAll segs drops 0) = []
    · rw [hnil, mergeThes_nil] at h; cases h
    · cases hp : thesPartsOf nm segs (remapAll segs drops 0) with
      | nil => exact absurd hp hnil
      | cons part rest =>
        have : part ∈ thesPartsOf nm segs (remapAll segs drops 0) := by rw [hp]; simp
        obtain ⟨i, hi, ht, _⟩ := (mem_thesPartsOf hlen).1 this
        exact ⟨segs[i], List.getElem_mem hi, by rw [ht]; rfl⟩
  · rintro ⟨s, hs, h⟩
    obtain ⟨i, hi, rfl⟩ := List.mem_iff_getElem.1 hs
    cases ht : segs[i].thes? nm with
    | none => rw [ht] at h; cases h
    | some t =>
      have : ((remapAll segs drops 0).getD i [], t) ∈ thesPartsOf nm segs (remapAll segs drops 0) :=
        (mem_thesPartsOf hlen).2 ⟨i, hi, ht, rfl⟩
      have hnil : thesPartsOf nm segs (remapAll segs drops 0) ≠ [] := List.ne_nil_of_mem this
      rw [mergeThes_eq _ hnil]; rfl

/-! ### The result depends on the inputs only through what they expose -/

theorem remapAll_congr (segs segs' : List Seg) (h : segs.map (·.numDocs) = segs'.map (·.numDocs))
    (drops : List (Option (List Nat))) (start : Nat) :
    remapAll segs drops start = remapAll segs' drops start := by
  induction segs generalizing segs' drops start with
  | nil =>
    cases segs' with
    | nil => rfl
    | cons s ss => simp at h
  | cons s ss ih =>
    cases segs' with
    | nil => simp at h
    | cons s' ss' =>
      simp only [List.map_cons, List.cons.injEq] at h
      rw [MergeL.remapAll_cons, MergeL.remapAll_cons, h.1, ih ss' h.2]

theorem newDocCount_congr (segs segs' : List Seg) (h : segs.map (·.numDocs) = segs'.map (·.numDocs))
    (drops : List (Option (List Nat))) : newDocCount segs drops = newDocCount segs' drops := by
  have hlen : segs.length = segs'.length := by
    have := congrArg List.length h
    simpa using this
  have key : ∀ (ss : List Seg) (ds : List (Option (List Nat))) (acc : Nat),
      (ss.zip ds).foldl (fun acc p => acc + p.1.numDocs -
          (match p.2 with | none => 0 | some l => l.eraseDups.length)) acc
        = ((ss.map (·.numDocs)).zip ds).foldl (fun acc p => acc + p.1 -
          (match p.2 with | none => 0 | some l => l.eraseDups.length)) acc := by
    intro ss
    induction ss with
    | nil => intro ds acc; rfl
    | cons s ss ih =>
      intro ds acc
      cases ds with
      | nil => rfl
      | cons d ds => simp only [List.zip_cons_cons, List.foldl_cons, List.map_cons]; exact ih ds _
  have e1 := key segs (drops ++ List.replicate segs.length none) 0
  have e2 := key segs' (drops ++ List.replicate segs'.length none) 0
  conv at e1 => rhs; rw [h, hlen]
  exact e1.trans e2.symm

theorem merged_synonyms_congr (v : Bool) (m : Nat) (segs segs' : List Seg) (drops : List (Option (List Nat)))
    (hnum : segs.map (·.numDocs) = segs'.map (·.numDocs))
    (hne : newDocCount segs drops ≠ 0) (nm : Name) (term : Bytes) (ex : Option (List Nat))
    (hsyn : ∀ i (hi : i < segs.length) (hi' : i < segs'.length) p,
      p ∈ segs[i].synonyms nm term none ↔ p ∈ segs'[i].synonyms nm term none)
    (hs : ∀ s ∈ segs, ∀ t, s.thes? nm = some t → SortedLt (t.terms.map (·.1)))
    (hs' : ∀ s ∈ segs', ∀ t, s.thes? nm = some t → SortedLt (t.terms.map (·.1))) (q : Bytes × Nat) :
    q ∈ (mergeSegs v m segs drops).1.synonyms nm term ex ↔
      q ∈ (mergeSegs v m segs' drops).1.synonyms nm term ex := by
  have hlen : segs.length = segs'.length := by
    have := congrArg List.length hnum
    simpa using this
  have hne' : newDocCount segs' drops ≠ 0 := by rw [← newDocCount_congr segs segs' hnum]; exact hne
  rw [merged_synonyms_mem v m segs drops hne nm term ex hs, merged_synonyms_mem v m segs' drops hne' nm term ex hs',
    remapAll_congr segs segs' hnum]
  constructor
  · rintro ⟨i, hi, d, syn, h1, h2⟩
    exact ⟨i, hlen ▸ hi, d, syn, (hsyn i hi (hlen ▸ hi) _).1 h1, h2⟩
  · rintro ⟨i, hi, d, syn, h1, h2⟩
    exact ⟨i, hlen ▸ hi, d, syn, (hsyn i (hlen ▸ hi) hi _).2 h1, h2⟩

/-! ### Renaming internal synonym ids -/

theorem lookupNat_rename {f : Nat → Nat} (hinj : ∀ a b, f a = f b → a = b) (i : Nat)
    (tbl : List (Nat × Bytes)) :
    lookup (f i) (tbl.map (fun e => (f e.1, e.2))) = lookup i tbl := by
  induction tbl with
  | nil => rfl
  | cons e tbl ih =>
    obtain ⟨j, s⟩ := e
    simp only [List.map_cons, lookup]
    by_cases h : i = j
    · subst h; simp
    · have : f i ≠ f j := fun e => h (hinj _ _ e)
      simp only [h, this, if_false]; exact ih

theorem lookup_renameThes_terms (f : Nat → Nat) (t : Thes) (k : Bytes) :
    lookup k (renameThes f t).terms =
      (lookup k t.terms).map (fun cs => insAll (cs.map (fun c => (f c.1, c.2))) []) := by
  unfold renameThes
  exact lookup_map_val (fun _ cs => insAll (cs.map (fun c => (f c.1, c.2))) []) k t.terms

theorem renameSegThes_thes? (f : Name → Nat → Nat) (s : Seg) (n : Name) :
    (renameSegThes f s).thes? n = (s.thes? n).map (renameThes (f n)) := by
  unfold Seg.thes? Seg.field? Seg.loadedFields renameSegThes
  simp only []
  have hfind : ∀ l : List FieldM,
      (l.map (fun fm => ({ fm with thes := fm.thes.map (renameThes (f fm.name)) } : FieldM))).find? (fun x => x.name = n)
        = (l.find? (fun x => x.name = n)).map
            (fun fm => ({ fm with thes := fm.thes.map (renameThes (f fm.name)) } : FieldM)) := by
    intro l
    rw [List.find?_map]; rfl
  by_cases h0 : s.numDocs = 0
  · simp only [h0, if_true]
    rw [← List.map_drop, hfind]
    cases hq : (s.fields.drop 1).find? (fun x => x.name = n) with
    | none => rfl
    | some fm =>
      have := List.find?_some hq
      simp only [decide_eq_true_eq] at this
      simp [this]
  · simp only [h0, if_false]
    rw [hfind]
    cases hq : s.fields.find? (fun x => x.name = n) with
    | none => rfl
    | some fm =>
      have := List.find?_some hq
      simp only [decide_eq_true_eq] at this
      simp [this]

theorem renameSegThes_synonyms (f : Name → Nat → Nat) (hinj : ∀ nm a b, f nm a = f nm b → a = b)
    (s : Seg) (n : Name) (term : Bytes) (ex : Option (List Nat)) (q : Bytes × Nat) :
    q ∈ (renameSegThes f s).synonyms n term ex ↔ q ∈ s.synonyms n term ex := by
  rw [mem_synonyms, mem_synonyms, renameSegThes_thes?]
  cases ht : s.thes? n with
  | none => simp
  | some t =>
    simp only [Option.map_some, Option.some.injEq, exists_eq_left']
    rw [lookup_renameThes_terms]
    cases hl : lookup term t.terms with
    | none => simp
    | some cs =>
      simp only [Option.map_some, Option.some.injEq, exists_eq_left']
      have htab : ∀ i, lookup (f n i) (renameThes (f n) t).table = lookup i t.table :=
        fun i => lookupNat_rename (hinj n) i t.table
      constructor
      · rintro ⟨c', hc', hex, rfl⟩
        rcases (mem_insAll _ _ _).1 hc' with h | h
        · obtain ⟨c, hc, rfl⟩ := List.mem_map.1 h
          exact ⟨c, hc, hex, by simp only [htab]⟩
        · cases h
      · rintro ⟨c, hc, hex, rfl⟩
        exact ⟨(f n c.1, c.2), (mem_insAll _ _ _).2 (Or.inl (List.mem_map.2 ⟨c, hc, rfl⟩)), hex,
          by simp only [htab]⟩

theorem renameThes_keys (f : Nat → Nat) (t : Thes) :
    (renameThes f t).terms.map (·.1) = t.terms.map (·.1) := by
  unfold renameThes
  simp only [List.map_map]
  rfl

/-- Renaming ids by an injective function keeps a thesaurus well formed. -/
theorem renameThes_wf {f : Nat → Nat} (hinj : ∀ a b, f a = f b → a = b) {t : Thes} (h : ThesWF t) :
    ThesWF (renameThes f t) := by
  have hmem : ∀ p ∈ (renameThes f t).terms, ∃ p0 ∈ t.terms, p.1 = p0.1 ∧
      p.2 = insAll (p0.2.map (fun c => (f c.1, c.2))) [] := by
    intro p hp
    unfold renameThes at hp
    obtain ⟨p0, hp0, rfl⟩ := List.mem_map.1 hp
    exact ⟨p0, hp0, rfl, rfl⟩
  refine ⟨?_, ?_, ?_, ?_, ?_⟩
  · rw [renameThes_keys]; exact h.sorted
  · intro p hp
    obtain ⟨p0, hp0, _, e2⟩ := hmem p hp
    rw [e2]
    refine ⟨?_, pairwise_insAll _ _ List.Pairwise.nil⟩
    obtain ⟨hne, _⟩ := h.codesAsc p0 hp0
    cases hc : p0.2 with
    | nil => exact absurd hc hne
    | cons c cs =>
      intro e
      have : (f c.1, c.2) ∈ insAll ((c :: cs).map (fun c => (f c.1, c.2))) [] :=
        (mem_insAll _ _ _).2 (Or.inl (by simp))
      rw [e] at this; cases this
  · intro p hp c' hc'
    obtain ⟨p0, hp0, _, e2⟩ := hmem p hp
    rw [e2] at hc'
    rcases (mem_insAll _ _ _).1 hc' with h' | h'
    · obtain ⟨c, hc, rfl⟩ := List.mem_map.1 h'
      show (lookup (f c.1) (t.table.map (fun e => (f e.1, e.2)))).isSome = true
      rw [lookupNat_rename hinj]
      exact h.idKnown p0 hp0 c hc
    · cases h'
  · show ((t.table.map (fun e => (f e.1, e.2))).map (·.1)).Nodup
    have : (t.table.map (fun e => (f e.1, e.2))).map (·.1) = (t.table.map (·.1)).map f := by
      simp only [List.map_map]; rfl
    rw [this]
    exact nodup_map_of_inj_on h.idsDistinct (fun a _ b _ e => hinj a b e)
  · show ((t.table.map (fun e => (f e.1, e.2))).map (·.2)).Nodup
    have : (t.table.map (fun e => (f e.1, e.2))).map (·.2) = t.table.map (·.2) := by
      simp only [List.map_map]; rfl
    rw [this]; exact h.synsDistinct

theorem renameSegThes_wf (f : Name → Nat → Nat) (hinj : ∀ nm a b, f nm a = f nm b → a = b)
    {s : Seg} (h : SegThesWF s) : SegThesWF (renameSegThes f s) := by
  intro n t ht
  rw [renameSegThes_thes?] at ht
  cases ht0 : s.thes? n with
  | none => rw [ht0] at ht; cases ht
  | some t0 =>
    rw [ht0] at ht
    simp only [Option.map_some, Option.some.injEq] at ht
    subst ht
    exact renameThes_wf (hinj n) (h n t0 ht0)

/-- All inputs renamed, each with its own per-thesaurus renaming. -/
def renameAll (f : Nat → Name → Nat → Nat) (segs : List Seg) : List Seg :=
  segs.zipIdx.map (fun p => renameSegThes (f p.2) p.1)

theorem renameAll_length (f : Nat → Name → Nat → Nat) (segs : List Seg) :
    (renameAll f segs).length = segs.length := by simp [renameAll]

theorem renameAll_get (f : Nat → Name → Nat → Nat) (segs : List Seg) (i : Nat) (hi : i < segs.length) :
    (renameAll f segs)[i]'(by rw [renameAll_length]; exact hi) = renameSegThes (f i) segs[i] := by
  simp [renameAll]

theorem renameAll_numDocs (f : Nat → Name → Nat → Nat) (segs : List Seg) :
    segs.map (·.numDocs) = (renameAll f segs).map (·.numDocs) := by
  unfold renameAll
  rw [List.map_map]
  have : ((fun (s : Seg) => s.numDocs) ∘ fun (p : Seg × Nat) => renameSegThes (f p.2) p.1) = fun p => p.1.numDocs := rfl
  rw [this]
  have h2 : (fun (p : Seg × Nat) => p.1.numDocs) = (fun (s : Seg) => s.numDocs) ∘ Prod.fst := rfl
  rw [h2, ← List.map_map, List.zipIdx_map_fst]

theorem merged_rename_invariant (v : Bool) (m : Nat) (segs : List Seg) (drops : List (Option (List Nat)))
    (hne : newDocCount segs drops ≠ 0) (f : Nat → Name → Nat → Nat)
    (hinj : ∀ i nm a b, f i nm a = f i nm b → a = b)
    (nm : Name) (term : Bytes) (ex : Option (List Nat))
    (hs : ∀ s ∈ segs, ∀ t, s.thes? nm = some t → SortedLt (t.terms.map (·.1))) (q : Bytes × Nat) :
    q ∈ (mergeSegs v m (renameAll f segs) drops).1.synonyms nm term ex ↔
      q ∈ (mergeSegs v m segs drops).1.synonyms nm term ex := by
  symm
  apply merged_synonyms_congr v m segs (renameAll f segs) drops (renameAll_numDocs f segs) hne nm term ex _ hs
  · intro s hs' t ht
    obtain ⟨i, hi, rfl⟩ := List.mem_iff_getElem.1 hs'
    have hi0 : i < segs.length := by rw [renameAll_length] at hi; exact hi
    rw [renameAll_get f segs i hi0, renameSegThes_thes?] at ht
    cases ht0 : segs[i].thes? nm with
    | none => rw [ht0] at ht; cases ht
    | some t0 =>
      rw [ht0] at ht
      simp only [Option.map_some, Option.some.injEq] at ht
      subst ht
      rw [renameThes_keys]
      exact hs _ (List.getElem_mem hi0) t0 ht0
  · intro i hi hi' p
    rw [renameAll_get f segs i hi, renameSegThes_synonyms (f i) (hinj i)]

/-! ### Terms of a well-formed thesaurus = keys having a pair -/

theorem mem_thesTerms_iff_pair (s : Seg) (n : Name) (term : Bytes)
    (hwf : ∀ t, s.thes? n = some t → ThesWF t) :
    term ∈ s.thesTerms n ↔ ∃ q, q ∈ s.synonyms n term none := by
  rw [mem_thesTerms]
  constructor
  · rintro ⟨t, ht, cs, hl⟩
    have hne := ((hwf t ht).codesAsc _ (lookup_mem hl)).1
    cases cs with
    | nil => exact absurd rfl hne
    | cons c cs =>
      exact ⟨_, (mem_synonyms s n term none _).2 ⟨t, ht, _, hl, c, List.mem_cons_self, rfl, rfl⟩⟩
  · rintro ⟨q, hq⟩
    obtain ⟨t, ht, cs, hl, _⟩ := (mem_synonyms s n term none q).1 hq
    exact ⟨t, ht, cs, hl⟩

/-! ### Decidability of `ThesWF` (for examples) -/

instance decThesWF (t : Thes) : Decidable (ThesWF t) :=
  decidable_of_iff
    (SortedLt (t.terms.map (·.1)) ∧
     (∀ p ∈ t.terms, p.2 ≠ [] ∧ p.2.Pairwise CodeLt) ∧
     (∀ p ∈ t.terms, ∀ c ∈ p.2, (lookup c.1 t.table).isSome = true) ∧
     (t.table.map (·.1)).Nodup ∧ (t.table.map (·.2)).Nodup)
    ⟨fun h => ⟨h.1, h.2.1, h.2.2.1, h.2.2.2.1, h.2.2.2.2⟩,
     fun h => ⟨h.sorted, h.codesAsc, h.idKnown, h.idsDistinct, h.synsDistinct⟩⟩

/-- "If present, well formed" (decidable form of one `SegThesWF` instance). -/
def OptThesWF (o : Option Thes) : Prop := ∀ t, o = some t → ThesWF t

instance decOptThesWF : (o : Option Thes) → Decidable (OptThesWF o)
  | none => isTrue (fun _ h => by cases h)
  | some t => decidable_of_iff (ThesWF t) ⟨fun h _ e => by cases e; exact h, fun h => h t rfl⟩

end Zap.SynL
