/-
  Lemmas for C14 / C15 / C16 (vector search around an abstract engine, merged vector
  content, cache histories).  Core only.
-/
import ZapModel.VecSearch
import ZapModel.Merge

namespace Zap.VecL
open Zap Zap.VecSearch

/-! ## Part C: cache histories -/

section Cache

theorem filter_append_singleton_length {α} (p : α → Bool) (l : List α) (a : α) :
    ((l ++ [a]).filter p).length = (l.filter p).length + (if p a then 1 else 0) := by
  rw [List.filter_append, List.length_append]
  by_cases h : p a <;> simp [List.filter_cons, h]

theorem filter_erase_length {α} [BEq α] [LawfulBEq α] (p : α → Bool) (l : List α) (a : α) (h : a ∈ l) :
    ((l.erase a).filter p).length + (if p a then 1 else 0) = (l.filter p).length := by
  induction l with
  | nil => cases h
  | cons b t ih =>
    by_cases hb : b = a
    · subst hb
      rw [List.erase_cons_head]
      by_cases hp : p b <;> simp [List.filter_cons, hp]
    · have hne : (b == a) = false := by simpa using hb
      rw [List.erase_cons_tail (by simpa using hb)]
      have ha : a ∈ t := by
        cases h with
        | head => exact absurd rfl hb
        | tail _ h => exact h
      have := ih ha
      by_cases hp : p b <;> simp [List.filter_cons, hp] <;> omega

theorem tickLegal_iff (s : HCache) (ev : List Name) :
    s.toVCache.tickLegal ev = true ↔ ∀ f ∈ ev, ∃ e ∈ s.entries, e.field = f ∧ e.refs ≤ 0 := by
  simp only [VCache.tickLegal, HCache.toVCache, List.all_eq_true, List.any_eq_true, List.mem_map,
    Bool.and_eq_true, decide_eq_true_eq]
  constructor
  · intro h f hf
    obtain ⟨x, ⟨e, he, rfl⟩, h1, h2⟩ := h f hf
    exact ⟨e, he, h1, h2⟩
  · intro h f hf
    obtain ⟨e, he, h1, h2⟩ := h f hf
    exact ⟨_, ⟨e, he, rfl⟩, h1, h2⟩

/-- two entries of the same field are the same entry -/
theorem entry_unique {l : List IEntry} (hnd : (l.map (·.field)).Nodup) {a b : IEntry}
    (ha : a ∈ l) (hb : b ∈ l) (hab : a.field = b.field) : a = b := by
  induction l with
  | nil => cases ha
  | cons x t ih =>
    rw [List.map_cons, List.nodup_cons] at hnd
    cases ha with
    | head =>
      cases hb with
      | head => rfl
      | tail _ hb => exact absurd (List.mem_map.2 ⟨b, hb, hab.symm⟩) hnd.1
    | tail _ ha =>
      cases hb with
      | head => exact absurd (List.mem_map.2 ⟨a, ha, hab⟩) hnd.1
      | tail _ hb => exact ih hnd.2 ha hb

/-- The invariant of reachable cache states. -/
structure Inv (s : HCache) : Prop where
  fieldsNodup : (s.entries.map (·.field)).Nodup
  refsEq : ∀ e ∈ s.entries, e.refs = (s.openHandles e.field : Int)
  handleEntry : s.closed = false → ∀ h ∈ s.handles,
    ∃ e ∈ s.entries, e.field = h.field ∧ e.gen = h.gen ∧ e.vmap = h.vmap
  closedEmpty : s.closed = true → s.entries = []
  allNodup : (s.released ++ s.entries.map (·.gen)).Nodup
  allLt : ∀ g ∈ s.released ++ s.entries.map (·.gen), g < s.created
  cover : ∀ g, g < s.created → g ∈ s.released ++ s.entries.map (·.gen)

theorem inv_init : Inv {} := by
  constructor <;> simp [HCache.openHandles]

theorem inv_open (S : Setup) (s : HCache) (f : Name) (ex : List Nat) (hi : Inv s)
    (hl : s.closed = false) : Inv (s.open S f ex) := by
  unfold HCache.open
  split
  · rename_i e0 hfind
    have he0 : e0 ∈ s.entries := List.mem_of_find?_eq_some hfind
    have he0f : e0.field = f := by simpa using List.find?_some hfind
    have hfields : (s.entries.map (fun e' => if e'.field = f then { e' with refs := e'.refs + 1 } else e')).map (·.field)
        = s.entries.map (·.field) := by
      rw [List.map_map]; apply List.map_congr_left; intro a _; simp only [Function.comp]; split <;> rfl
    have hgens : (s.entries.map (fun e' => if e'.field = f then { e' with refs := e'.refs + 1 } else e')).map (·.gen)
        = s.entries.map (·.gen) := by
      rw [List.map_map]; apply List.map_congr_left; intro a _; simp only [Function.comp]; split <;> rfl
    constructor
    · simpa only [hfields] using hi.fieldsNodup
    · intro e' he'
      simp only [List.mem_map] at he'
      obtain ⟨e, he, rfl⟩ := he'
      have := hi.refsEq e he
      simp only [HCache.openHandles] at this ⊢
      by_cases hf : e.field = f
      · simp only [hf, if_true, filter_append_singleton_length, decide_true]
        simp only [hf] at this; omega
      · simp only [hf, if_false, filter_append_singleton_length]
        have : (decide (f = e.field)) = false := by simpa using fun h => hf h.symm
        simp only [this]; simpa using hi.refsEq e he
    · intro _ h hh
      simp only [List.mem_append, List.mem_singleton] at hh
      rcases hh with hh | rfl
      · obtain ⟨e, he, h1, h2, h3⟩ := hi.handleEntry hl h hh
        refine ⟨_, List.mem_map.2 ⟨e, he, rfl⟩, ?_⟩
        split <;> exact ⟨h1, h2, h3⟩
      · refine ⟨_, List.mem_map.2 ⟨e0, he0, rfl⟩, ?_⟩
        simp [he0f]
    · intro hc; simp [hl] at hc
    · simpa only [hgens] using hi.allNodup
    · simpa only [hgens] using hi.allLt
    · simpa only [hgens] using hi.cover
  · rename_i hfind
    have hnone : ∀ e ∈ s.entries, e.field ≠ f := by
      intro e he; simpa using List.find?_eq_none.1 hfind e he
    have hzero : s.openHandles f = 0 := by
      simp only [HCache.openHandles, List.length_eq_zero_iff, List.filter_eq_nil_iff, decide_eq_true_eq]
      intro h hh hf
      obtain ⟨e, he, h1, _⟩ := hi.handleEntry hl h hh
      exact hnone e he (h1.trans hf)
    have hfresh : s.created ∉ s.released ++ s.entries.map (·.gen) := fun h =>
      Nat.lt_irrefl _ (hi.allLt _ h)
    constructor
    · simp only [List.map_append, List.map_cons, List.map_nil]
      rw [List.nodup_append]
      refine ⟨hi.fieldsNodup, by simp, ?_⟩
      intro a ha b hb
      simp only [List.mem_singleton] at hb
      subst hb
      obtain ⟨e, he, rfl⟩ := List.mem_map.1 ha
      exact hnone e he
    · intro e he
      simp only [List.mem_append, List.mem_singleton] at he
      simp only [HCache.openHandles, filter_append_singleton_length]
      rcases he with he | rfl
      · have hne : decide (f = e.field) = false := by simpa using fun h => hnone e he h.symm
        simp only [hne]; simpa [HCache.openHandles] using hi.refsEq e he
      · simp only [HCache.openHandles] at hzero; simp [hzero]
    · intro _ h hh
      simp only [List.mem_append, List.mem_singleton] at hh
      rcases hh with hh | rfl
      · obtain ⟨e, he, h1⟩ := hi.handleEntry hl h hh
        exact ⟨e, List.mem_append_left _ he, h1⟩
      · exact ⟨_, List.mem_append_right _ (List.mem_singleton.2 rfl), rfl, rfl, rfl⟩
    · intro hc; simp [hl] at hc
    · simp only [List.map_append, List.map_cons, List.map_nil, ← List.append_assoc]
      rw [List.nodup_append]
      refine ⟨hi.allNodup, by simp, ?_⟩
      intro a ha b hb
      simp only [List.mem_singleton] at hb
      subst hb
      intro h; subst h; exact hfresh ha
    · intro g hg
      simp only [List.map_append, List.map_cons, List.map_nil, ← List.append_assoc,
        List.mem_append, List.mem_singleton] at hg
      rcases hg with hg | rfl
      · exact Nat.lt_succ_of_lt (hi.allLt g (List.mem_append.2 hg))
      · exact Nat.lt_succ_self _
    · intro g hg
      simp only [List.map_append, List.map_cons, List.map_nil, ← List.append_assoc]
      rcases Nat.lt_succ_iff_lt_or_eq.1 hg with h | rfl
      · exact List.mem_append_left _ (hi.cover g h)
      · exact List.mem_append_right _ (List.mem_singleton.2 rfl)

end Cache

end Zap.VecL
