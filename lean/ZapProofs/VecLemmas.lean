/-
  Lemmas for C14 / C15 / C16 (vector search around an abstract engine, merged vector
  content, cache histories).  Core only.
-/
import ZapModel.VecSearch
import ZapModel.Merge

namespace Zap.VecL
open Zap Zap.VecSearch

/-! ## Part C: cache histories -/

section Cache

theorem filter_append_singleton_length {α} (p : α → Bool) (l : List α) (a : α) :
    ((l ++ [a]).filter p).length = (l.filter p).length + (if p a then 1 else 0) := by
  rw [List.filter_append, List.length_append]
  by_cases h : p a <;> simp [h]

theorem filter_erase_length {α} [BEq α] [LawfulBEq α] (p : α → Bool) (l : List α) (a : α) (h : a ∈ l) :
    ((l.erase a).filter p).length + (if p a then 1 else 0) = (l.filter p).length := by
  induction l with
  | nil => cases h
  | cons b t ih =>
    by_cases hb : b = a
    · subst hb
      rw [List.erase_cons_head]
      by_cases hp : p b <;> simp [hp]
    · have hne : (b == a) = false := by simpa using hb
      rw [List.erase_cons_tail (by simpa using hb)]
      have ha : a ∈ t := by
        cases h with
        | head => exact absurd rfl hb
        | tail _ h => exact h
      have := ih ha
      by_cases hp : p b <;> simp [hp] <;> omega

theorem tickLegal_iff (s : HCache) (ev : List Name) :
    s.toVCache.tickLegal ev = true ↔ ∀ f ∈ ev, ∃ e ∈ s.entries, e.field = f ∧ e.refs ≤ 0 := by
  simp only [VCache.tickLegal, HCache.toVCache, List.all_eq_true, List.any_eq_true, List.mem_map,
    Bool.and_eq_true, decide_eq_true_eq]
  constructor
  · intro h f hf
    obtain ⟨x, ⟨e, he, rfl⟩, h1, h2⟩ := h f hf
    exact ⟨e, he, h1, h2⟩
  · intro h f hf
    obtain ⟨e, he, h1, h2⟩ := h f hf
    exact ⟨_, ⟨e, he, rfl⟩, h1, h2⟩

theorem unique_of_nodup_map {α β} (f : α → β) {l : List α} (hnd : (l.map f).Nodup) {a b : α}
    (ha : a ∈ l) (hb : b ∈ l) (hab : f a = f b) : a = b := by
  induction l with
  | nil => cases ha
  | cons x t ih =>
    rw [List.map_cons, List.nodup_cons] at hnd
    cases ha with
    | head =>
      cases hb with
      | head => rfl
      | tail _ hb => exact absurd (List.mem_map.2 ⟨b, hb, hab.symm⟩) hnd.1
    | tail _ ha =>
      cases hb with
      | head => exact absurd (List.mem_map.2 ⟨a, ha, hab⟩) hnd.1
      | tail _ hb => exact ih hnd.2 ha hb

/-- two entries of the same field are the same entry -/
theorem entry_unique {l : List IEntry} (hnd : (l.map (·.field)).Nodup) {a b : IEntry}
    (ha : a ∈ l) (hb : b ∈ l) (hab : a.field = b.field) : a = b :=
  unique_of_nodup_map (·.field) hnd ha hb hab

/-- The invariant of reachable cache states. -/
structure Inv (s : HCache) : Prop where
  fieldsNodup : (s.entries.map (·.field)).Nodup
  refsEq : ∀ e ∈ s.entries, e.refs = (s.openHandles e.field : Int)
  handleEntry : s.closed = false → ∀ h ∈ s.handles,
    ∃ e ∈ s.entries, e.field = h.field ∧ e.gen = h.gen ∧ e.vmap = h.vmap
  closedEmpty : s.closed = true → s.entries = []
  allNodup : (s.released ++ s.entries.map (·.gen)).Nodup
  allLt : ∀ g ∈ s.released ++ s.entries.map (·.gen), g < s.created
  cover : ∀ g, g < s.created → g ∈ s.released ++ s.entries.map (·.gen)

theorem inv_init : Inv {} := by
  constructor <;> simp [HCache.openHandles]

theorem inv_open (S : Setup) (s : HCache) (f : Name) (ex : List Nat) (hi : Inv s)
    (hl : s.closed = false) : Inv (s.open S f ex) := by
  unfold HCache.open
  split
  · rename_i e0 hfind
    have he0 : e0 ∈ s.entries := List.mem_of_find?_eq_some hfind
    have he0f : e0.field = f := by simpa using List.find?_some hfind
    have hfields : (s.entries.map (fun e' => if e'.field = f then { e' with refs := e'.refs + 1 } else e')).map (·.field)
        = s.entries.map (·.field) := by
      rw [List.map_map]; apply List.map_congr_left; intro a _; simp only [Function.comp]; split <;> rfl
    have hgens : (s.entries.map (fun e' => if e'.field = f then { e' with refs := e'.refs + 1 } else e')).map (·.gen)
        = s.entries.map (·.gen) := by
      rw [List.map_map]; apply List.map_congr_left; intro a _; simp only [Function.comp]; split <;> rfl
    constructor
    · simpa only [hfields] using hi.fieldsNodup
    · intro e' he'
      simp only [List.mem_map] at he'
      obtain ⟨e, he, rfl⟩ := he'
      have := hi.refsEq e he
      simp only [HCache.openHandles] at this ⊢
      by_cases hf : e.field = f
      · simp only [hf, if_true, filter_append_singleton_length, decide_true]
        simp only [hf] at this; omega
      · simp only [hf, if_false, filter_append_singleton_length]
        have hd : (decide (f = e.field)) = false := by simpa using fun h => hf h.symm
        simp only [hd]; simpa using this
    · intro _ h hh
      simp only [List.mem_append, List.mem_singleton] at hh
      rcases hh with hh | rfl
      · obtain ⟨e, he, h1, h2, h3⟩ := hi.handleEntry hl h hh
        refine ⟨_, List.mem_map.2 ⟨e, he, rfl⟩, ?_⟩
        split <;> exact ⟨h1, h2, h3⟩
      · refine ⟨_, List.mem_map.2 ⟨e0, he0, rfl⟩, ?_⟩
        simp [he0f]
    · intro hc; simp [hl] at hc
    · simpa only [hgens] using hi.allNodup
    · simpa only [hgens] using hi.allLt
    · simpa only [hgens] using hi.cover
  · rename_i hfind
    have hnone : ∀ e ∈ s.entries, e.field ≠ f := by
      intro e he; simpa using List.find?_eq_none.1 hfind e he
    have hzero : s.openHandles f = 0 := by
      simp only [HCache.openHandles, List.length_eq_zero_iff, List.filter_eq_nil_iff, decide_eq_true_eq]
      intro h hh hf
      obtain ⟨e, he, h1, _⟩ := hi.handleEntry hl h hh
      exact hnone e he (h1.trans hf)
    have hfresh : s.created ∉ s.released ++ s.entries.map (·.gen) := fun h =>
      Nat.lt_irrefl _ (hi.allLt _ h)
    constructor
    · simp only [List.map_append, List.map_cons, List.map_nil]
      rw [List.nodup_append]
      refine ⟨hi.fieldsNodup, by simp, ?_⟩
      intro a ha b hb
      simp only [List.mem_singleton] at hb
      subst hb
      obtain ⟨e, he, rfl⟩ := List.mem_map.1 ha
      exact hnone e he
    · intro e he
      simp only [List.mem_append, List.mem_singleton] at he
      simp only [HCache.openHandles, filter_append_singleton_length]
      rcases he with he | rfl
      · have hne : decide (f = e.field) = false := by simpa using fun h => hnone e he h.symm
        simp only [hne]; simpa [HCache.openHandles] using hi.refsEq e he
      · simp only [HCache.openHandles] at hzero; simp [hzero]
    · intro _ h hh
      simp only [List.mem_append, List.mem_singleton] at hh
      rcases hh with hh | rfl
      · obtain ⟨e, he, h1⟩ := hi.handleEntry hl h hh
        exact ⟨e, List.mem_append_left _ he, h1⟩
      · exact ⟨_, List.mem_append_right _ (List.mem_singleton.2 rfl), rfl, rfl, rfl⟩
    · intro hc; simp [hl] at hc
    · simp only [List.map_append, List.map_cons, List.map_nil, ← List.append_assoc]
      rw [List.nodup_append]
      refine ⟨hi.allNodup, by simp, ?_⟩
      intro a ha b hb
      simp only [List.mem_singleton] at hb
      subst hb
      intro h; subst h; exact hfresh ha
    · intro g hg
      simp only [List.map_append, List.map_cons, List.map_nil, ← List.append_assoc,
        List.mem_append, List.mem_singleton] at hg
      rcases hg with hg | rfl
      · exact Nat.lt_succ_of_lt (hi.allLt g (List.mem_append.2 hg))
      · exact Nat.lt_succ_self _
    · intro g hg
      simp only [List.map_append, List.map_cons, List.map_nil, ← List.append_assoc]
      rcases Nat.lt_succ_iff_lt_or_eq.1 hg with h | rfl
      · exact List.mem_append_left _ (hi.cover g h)
      · exact List.mem_append_right _ (List.mem_singleton.2 rfl)

theorem inv_close (s : HCache) (h : Handle) (hi : Inv s) (hl : h ∈ s.handles) :
    Inv (s.closeHandle h) := by
  unfold HCache.closeHandle
  have hfields : (s.entries.map (fun e => if e.field = h.field then { e with refs := e.refs - 1 } else e)).map (·.field)
      = s.entries.map (·.field) := by
    rw [List.map_map]; apply List.map_congr_left; intro a _; simp only [Function.comp]; split <;> rfl
  have hgens : (s.entries.map (fun e => if e.field = h.field then { e with refs := e.refs - 1 } else e)).map (·.gen)
      = s.entries.map (·.gen) := by
    rw [List.map_map]; apply List.map_congr_left; intro a _; simp only [Function.comp]; split <;> rfl
  constructor
  · simpa only [hfields] using hi.fieldsNodup
  · intro e' he'
    simp only [List.mem_map] at he'
    obtain ⟨e, he, rfl⟩ := he'
    have h1 := hi.refsEq e he
    simp only [HCache.openHandles] at h1 ⊢
    by_cases hf : e.field = h.field
    · have h2 := filter_erase_length (fun h' : Handle => decide (h'.field = h.field)) s.handles h hl
      simp only [decide_true, if_true] at h2
      simp only [hf, if_true] at h1 ⊢
      omega
    · have h2 := filter_erase_length (fun h' : Handle => decide (h'.field = e.field)) s.handles h hl
      have hd : decide (h.field = e.field) = false := by simpa using fun x => hf x.symm
      simp only [hd] at h2
      simp only [hf, if_false]
      simp at h2; omega
  · intro hc h' hh'
    obtain ⟨e, he, h1, h2, h3⟩ := hi.handleEntry hc h' (List.mem_of_mem_erase hh')
    refine ⟨_, List.mem_map.2 ⟨e, he, rfl⟩, ?_⟩
    split <;> exact ⟨h1, h2, h3⟩
  · intro hc; simp [hi.closedEmpty hc]
  · simpa only [hgens] using hi.allNodup
  · simpa only [hgens] using hi.allLt
  · simpa only [hgens] using hi.cover

theorem filter_partition_perm {α} (p : α → Bool) (l : List α) :
    (l.filter p ++ l.filter (fun a => !p a)).Perm l := by
  induction l with
  | nil => simp
  | cons a t ih =>
    by_cases h : p a
    · simp only [List.filter_cons, h, if_true, Bool.not_true, List.cons_append]
      exact List.Perm.cons a ih
    · simp only [List.filter_cons, h, Bool.not_false, if_true]
      exact (List.perm_middle).trans (List.Perm.cons a ih)

/-- a legal tick never evicts the entry of a field with an open handle -/
theorem tick_keeps_open (s : HCache) (ev : List Name) (hi : Inv s)
    (hl : s.toVCache.tickLegal ev = true) (e : IEntry) (he : e ∈ s.entries)
    (ho : 0 < s.openHandles e.field) : e.field ∉ ev := by
  intro hmem
  obtain ⟨e', he', hf, hr⟩ := (tickLegal_iff s ev).1 hl _ hmem
  have : e' = e := entry_unique hi.fieldsNodup he' he hf
  subst this
  have := hi.refsEq e' he'
  omega

theorem inv_tick (s : HCache) (ev : List Name) (hi : Inv s)
    (hl : s.toVCache.tickLegal ev = true) : Inv (s.tick ev) := by
  unfold HCache.tick
  have hperm : (s.released ++ (s.entries.filter (fun e => ev.contains e.field)).map (·.gen) ++
      (s.entries.filter (fun e => !ev.contains e.field)).map (·.gen)).Perm
      (s.released ++ s.entries.map (·.gen)) := by
    rw [List.append_assoc, ← List.map_append]
    exact List.Perm.append_left _ ((filter_partition_perm _ _).map _)
  constructor
  · exact hi.fieldsNodup.sublist ((List.filter_sublist).map _)
  · intro e he
    exact hi.refsEq e (List.mem_filter.1 he).1
  · intro hc h hh
    obtain ⟨e, he, h1, h2, h3⟩ := hi.handleEntry hc h hh
    refine ⟨e, List.mem_filter.2 ⟨he, ?_⟩, h1, h2, h3⟩
    have hpos : 0 < s.openHandles e.field := by
      simp only [HCache.openHandles]
      apply List.length_pos_of_mem (a := h)
      exact List.mem_filter.2 ⟨hh, by simpa using h1.symm⟩
    have := tick_keeps_open s ev hi hl e he hpos
    simpa using this
  · intro hc; simp [hi.closedEmpty hc]
  · exact hperm.symm.nodup hi.allNodup
  · intro g hg; exact hi.allLt g (hperm.mem_iff.1 hg)
  · intro g hg; exact hperm.mem_iff.2 (hi.cover g hg)

theorem inv_clear (s : HCache) (hi : Inv s) : Inv s.clear := by
  unfold HCache.clear
  constructor
  · simp
  · intro e he; cases he
  · intro hc; cases hc
  · intro _; rfl
  · simpa using hi.allNodup
  · simpa using hi.allLt
  · simpa using hi.cover

theorem inv_step (S : Setup) (s : HCache) (e : Ev) (hi : Inv s) (hl : s.legal e = true) :
    Inv (s.step S e) := by
  cases e with
  | «open» f ex => exact inv_open S s f ex hi (by simpa [HCache.legal] using hl)
  | close h => exact inv_close s h hi (by simpa [HCache.legal] using hl)
  | tick ev => exact inv_tick s ev hi (by simpa [HCache.legal] using hl)
  | clear => exact inv_clear s hi

theorem inv_run (S : Setup) (evs : List Ev) : ∀ (s s' : HCache), Inv s → run S s evs = some s' → Inv s' := by
  induction evs with
  | nil => intro s s' hi h; simp only [run, Option.some.injEq] at h; exact h ▸ hi
  | cons e es ih =>
    intro s s' hi h
    simp only [run] at h
    split at h
    · rename_i hl; exact ih _ _ (inv_step S s e hi hl) h
    · cases h

/-- created = released + live, from the ghost invariant -/
theorem inv_count (s : HCache) (hi : Inv s) : s.created = s.released.length + s.entries.length := by
  have h1 : (s.released ++ s.entries.map (·.gen)).length ≤ (List.range s.created).length :=
    hi.allNodup.length_le_of_subset (fun g hg => List.mem_range.2 (hi.allLt g hg))
  have h2 : (List.range s.created).length ≤ (s.released ++ s.entries.map (·.gen)).length :=
    List.nodup_range.length_le_of_subset (fun g hg => hi.cover g (List.mem_range.1 hg))
  simp only [List.length_append, List.length_map, List.length_range] at h1 h2
  omega

/-! the plain `VCache` follows the instrumented one -/

theorem toVCache_step (S : Setup) (s : HCache) (e : Ev) :
    (s.step S e).toVCache = vstep s.toVCache e := by
  cases e with
  | «open» f ex =>
    simp only [HCache.step, vstep, HCache.open, VCache.open, HCache.toVCache]
    by_cases h : s.entries.any (fun e => e.field = f)
    · have h' : (s.entries.map (fun e => ({ field := e.field, refs := e.refs } : CacheEntry))).any (fun e => e.field = f) = true := by
        simpa [List.any_map] using h
      obtain ⟨e0, he0⟩ : ∃ e0, s.entries.find? (fun e => e.field = f) = some e0 := by
        cases hfe : s.entries.find? (fun e => decide (e.field = f)) with
        | some e0 => exact ⟨e0, rfl⟩
        | none =>
          rw [List.find?_eq_none] at hfe
          simp only [List.any_eq_true] at h
          obtain ⟨x, hx, hxf⟩ := h
          exact absurd hxf (hfe x hx)
      simp only [he0, h', if_true, List.map_map]
      congr 1
      apply List.map_congr_left
      intro a _
      simp only [Function.comp]
      split <;> rfl
    · have h' : (s.entries.map (fun e => ({ field := e.field, refs := e.refs } : CacheEntry))).any (fun e => e.field = f) = false := by
        simpa [List.any_map] using h
      have hfe : s.entries.find? (fun e => decide (e.field = f)) = none := by
        rw [List.find?_eq_none]
        intro x hx hxf
        exact h (List.any_eq_true.2 ⟨x, hx, hxf⟩)
      simp [hfe, h']
  | close h =>
    simp only [HCache.step, vstep, HCache.closeHandle, VCache.closeHandle, HCache.toVCache, List.map_map]
    congr 1
    apply List.map_congr_left
    intro a _
    simp only [Function.comp]
    split <;> rfl
  | tick ev =>
    simp only [HCache.step, vstep, HCache.tick, VCache.tick, HCache.toVCache, List.filter_map,
      List.length_append, List.length_map]
    rfl
  | clear =>
    simp [HCache.step, vstep, HCache.clear, VCache.clear, HCache.toVCache]

/-- `created = released + live` on the plain cache, for EVERY event (no legality needed) -/
theorem vcount_step (c : VCache) (e : Ev) (h : c.created = c.released + c.live) :
    (vstep c e).created = (vstep c e).released + (vstep c e).live := by
  cases e with
  | «open» f ex =>
    simp only [vstep, VCache.open, VCache.live] at h ⊢
    split <;> simp <;> omega
  | close hd => simpa [vstep, VCache.closeHandle, VCache.live] using h
  | tick ev =>
    simp only [vstep, VCache.tick, VCache.live] at h ⊢
    have := (filter_partition_perm (fun e : CacheEntry => ev.contains e.field) c.entries).length_eq
    simp only [List.length_append] at this
    omega
  | clear => simp only [vstep, VCache.clear, VCache.live] at h ⊢; simp; omega

theorem vcount_foldl (evs : List Ev) : ∀ c : VCache, c.created = c.released + c.live →
    (evs.foldl vstep c).created = (evs.foldl vstep c).released + (evs.foldl vstep c).live := by
  induction evs with
  | nil => intro c h; exact h
  | cons e es ih => intro c h; exact ih _ (vcount_step c e h)

theorem run_toVCache (S : Setup) (evs : List Ev) : ∀ (s s' : HCache), run S s evs = some s' →
    s'.toVCache = evs.foldl vstep s.toVCache := by
  induction evs with
  | nil => intro s s' h; simp only [run, Option.some.injEq] at h; simp [h]
  | cons e es ih =>
    intro s s' h
    simp only [run] at h
    split at h
    · rw [List.foldl_cons, ← toVCache_step S]; exact ih _ _ h
    · cases h

/-- with the complete table, what entries cache and what handles captured is a function of
    the segment (and, for the exclusion list, of the handle's own `except`) -/
structure MapsOK (seg : Name → Content) (s : HCache) : Prop where
  entries : ∀ e ∈ s.entries, e.vmap = vecDocIDMap (seg e.field)
  handles : ∀ h ∈ s.handles, h.vmap = vecDocIDMap (seg h.field) ∧
    h.excl = vecIDsToExclude (vecDocIDMap (seg h.field)) h.ex

theorem mapsOK_step (seg : Name → Content) (s : HCache) (e : Ev) (hm : MapsOK seg s) :
    MapsOK seg (s.step (Setup.fixed seg) e) := by
  cases e with
  | «open» f ex =>
    simp only [HCache.step, HCache.open]
    split
    · rename_i e0 hfind
      have he0 : e0 ∈ s.entries := List.mem_of_find?_eq_some hfind
      have he0f : e0.field = f := by simpa using List.find?_some hfind
      have hv := hm.entries e0 he0
      constructor
      · intro e' he'
        obtain ⟨e, he, rfl⟩ := List.mem_map.1 he'
        have := hm.entries e he
        split <;> simpa using this
      · intro h hh
        simp only [List.mem_append, List.mem_singleton] at hh
        rcases hh with hh | rfl
        · exact hm.handles h hh
        · simp only [hv, he0f, and_self]
    · constructor
      · intro e he
        simp only [List.mem_append, List.mem_singleton] at he
        rcases he with he | rfl
        · exact hm.entries e he
        · rfl
      · intro h hh
        simp only [List.mem_append, List.mem_singleton] at hh
        rcases hh with hh | rfl
        · exact hm.handles h hh
        · exact ⟨rfl, rfl⟩
  | close h =>
    simp only [HCache.step, HCache.closeHandle]
    constructor
    · intro e' he'
      obtain ⟨e, he, rfl⟩ := List.mem_map.1 he'
      have := hm.entries e he
      split <;> simpa using this
    · intro h' hh'; exact hm.handles h' (List.mem_of_mem_erase hh')
  | tick ev =>
    simp only [HCache.step, HCache.tick]
    exact ⟨fun e he => hm.entries e (List.mem_filter.1 he).1, hm.handles⟩
  | clear =>
    simp only [HCache.step, HCache.clear]
    exact ⟨fun e he => (by cases he), hm.handles⟩

theorem mapsOK_run (seg : Name → Content) (evs : List Ev) : ∀ (s s' : HCache), MapsOK seg s →
    run (Setup.fixed seg) s evs = some s' → MapsOK seg s' := by
  induction evs with
  | nil => intro s s' hi h; simp only [run, Option.some.injEq] at h; exact h ▸ hi
  | cons e es ih =>
    intro s s' hi h
    simp only [run] at h
    split at h
    · exact ih _ _ (mapsOK_step seg s e hi) h
    · cases h

theorem mapsOK_init (seg : Name → Content) : MapsOK seg {} := by
  constructor <;> simp

end Cache

/-! ## Part A: search around an abstract engine -/

section Search

/-! ### `eraseDups` -/

theorem nodup_eraseDups {α} [BEq α] [LawfulBEq α] : ∀ (n : Nat) (l : List α), l.length ≤ n → l.eraseDups.Nodup := by
  intro n
  induction n with
  | zero =>
    intro l hl
    have : l = [] := List.length_eq_zero_iff.1 (Nat.le_zero.1 hl)
    subst this; simp
  | succ n ih =>
    intro l hl
    cases l with
    | nil => simp
    | cons a t =>
      rw [List.eraseDups_cons, List.nodup_cons]
      constructor
      · intro hmem
        rw [List.mem_eraseDups, List.mem_filter] at hmem
        simp at hmem
      · apply ih
        have := List.length_filter_le (fun b => !b == a) t
        simp only [List.length_cons] at hl
        omega

theorem nodup_eraseDups' {α} [BEq α] [LawfulBEq α] (l : List α) : l.eraseDups.Nodup :=
  nodup_eraseDups l.length l (Nat.le_refl _)

theorem eraseDups_of_nodup {α} [BEq α] [LawfulBEq α] (l : List α) (h : l.Nodup) : l.eraseDups = l := by
  induction l with
  | nil => simp
  | cons a t ih =>
    rw [List.nodup_cons] at h
    rw [List.eraseDups_cons]
    have : t.filter (fun b => !b == a) = t := by
      rw [List.filter_eq_self]
      intro b hb
      have : b ≠ a := fun hba => h.1 (hba ▸ hb)
      simpa using this
    rw [this, ih h.2]

theorem length_eraseDups_le {α} [BEq α] [LawfulBEq α] (l : List α) : l.eraseDups.length ≤ l.length :=
  (nodup_eraseDups' l).length_le_of_subset (fun _ h => List.mem_eraseDups.1 h)

/-- two duplicate-free lists with the same members have the same length -/
theorem length_eq_of_nodup_of_mem_iff {α} {l₁ l₂ : List α} (h₁ : l₁.Nodup) (h₂ : l₂.Nodup)
    (h : ∀ a, a ∈ l₁ ↔ a ∈ l₂) : l₁.length = l₂.length :=
  Nat.le_antisymm (h₁.length_le_of_subset (fun a ha => (h a).1 ha))
    (h₂.length_le_of_subset (fun a ha => (h a).2 ha))

/-- collapsing duplicates removes no more from a part than from the whole -/
theorem dupcount {α β} [BEq β] [LawfulBEq β] (A : List α) (p : α → Bool) (g : α → β) :
    (A.map g).eraseDups.length + (A.filter p).length ≤
      ((A.filter p).map g).eraseDups.length + A.length := by
  have hlen := (filter_partition_perm p A).length_eq
  simp only [List.length_append] at hlen
  have hsub : (A.map g).eraseDups ⊆ ((A.filter p).map g).eraseDups ++ (A.filter (fun a => !p a)).map g := by
    intro b hb
    rw [List.mem_eraseDups, List.mem_map] at hb
    obtain ⟨a, ha, rfl⟩ := hb
    rw [List.mem_append, List.mem_eraseDups]
    by_cases hp : p a
    · exact Or.inl (List.mem_map.2 ⟨a, List.mem_filter.2 ⟨ha, hp⟩, rfl⟩)
    · exact Or.inr (List.mem_map.2 ⟨a, List.mem_filter.2 ⟨ha, by simpa using hp⟩, rfl⟩)
  have := (nodup_eraseDups' (A.map g)).length_le_of_subset hsub
  simp only [List.length_append, List.length_map] at this
  omega

/-! ### the run-time checker, from propositions -/

theorem validTopK_intro (metric k : Nat) (M R : List VHit)
    (hsub : ∀ r ∈ R, r ∈ M) (hnd : R.Nodup)
    (hex : ∀ r ∈ R, ∀ m ∈ M, m ∉ R → vbetter metric m.score r.score = false)
    (hk : R.length ≤ k)
    (hsize : min k M.length ≤ R.length + (M.length - M.eraseDups.length)) :
    validTopK metric k M R = true := by
  unfold validTopK
  simp only [eraseDups_of_nodup R hnd]
  simp only [Bool.and_eq_true, List.all_eq_true, List.contains_iff_mem, beq_self_eq_true,
    decide_eq_true_eq, Bool.or_true, and_true, List.mem_filter,
    Bool.not_eq_eq_eq_not, Bool.not_true, ge_iff_le]
  refine ⟨⟨⟨hsub, ?_⟩, hk⟩, hsize⟩
  intro r hr m hm
  exact hex r hr m hm.1 (by simpa using hm.2)

/-! ### the id table -/

theorem lookupDoc_some_mem : ∀ (m : VMap) (id d : Nat), lookupDoc m id = some d → (id, d) ∈ m := by
  intro m
  induction m with
  | nil => intro id d h; simp [lookupDoc] at h
  | cons a r ih =>
    intro id d h
    obtain ⟨i, d'⟩ := a
    simp only [lookupDoc] at h
    split at h
    · rename_i hi
      simp only [Option.some.injEq] at h
      subst hi; subst h; exact List.mem_cons_self
    · exact List.mem_cons_of_mem _ (ih id d h)

theorem lookupDoc_of_mem : ∀ (m : VMap), (m.map (·.1)).Nodup → ∀ (id d : Nat), (id, d) ∈ m →
    lookupDoc m id = some d := by
  intro m
  induction m with
  | nil => intro _ id d h; cases h
  | cons a r ih =>
    intro hnd id d h
    obtain ⟨i, d'⟩ := a
    rw [List.map_cons, List.nodup_cons] at hnd
    simp only [lookupDoc]
    cases h with
    | head => simp
    | tail _ h =>
      have : i ≠ id := fun hi => hnd.1 (List.mem_map.2 ⟨(id, d), h, hi.symm⟩)
      simp only [this, if_false]
      exact ih hnd.2 id d h

theorem vecDocIDMap_keys (c : Content) : (vecDocIDMap c).map (·.1) = c.map (·.1) := by
  simp [vecDocIDMap, List.map_map, Function.comp_def]

theorem mem_vecDocIDMap (c : Content) (id d : Nat) :
    (id, d) ∈ vecDocIDMap c ↔ ∃ v, (id, d, v) ∈ c := by
  simp only [vecDocIDMap, List.mem_map, Prod.mk.injEq]
  constructor
  · rintro ⟨⟨i, d', v⟩, h, rfl, rfl⟩; exact ⟨v, h⟩
  · rintro ⟨v, h⟩; exact ⟨(id, d, v), h, rfl, rfl⟩

/-- with distinct ids, an id determines its entry -/
theorem entry_of_id (c : Content) (hnd : (c.map (·.1)).Nodup) {t t' : Nat × Nat × List Int}
    (ht : t ∈ c) (ht' : t' ∈ c) (h : t.1 = t'.1) : t = t' :=
  unique_of_nodup_map (·.1) hnd ht ht' h

theorem lookupDoc_entry (c : Content) (hnd : (c.map (·.1)).Nodup) (t : Nat × Nat × List Int)
    (ht : t ∈ c) : lookupDoc (vecDocIDMap c) t.1 = some t.2.1 := by
  apply lookupDoc_of_mem _ (by rw [vecDocIDMap_keys]; exact hnd)
  exact (mem_vecDocIDMap c _ _).2 ⟨t.2.2, ht⟩

theorem mem_vecIDsToExclude (c : Content) (hnd : (c.map (·.1)).Nodup) (ex : List Nat)
    (t : Nat × Nat × List Int) (ht : t ∈ c) :
    t.1 ∈ vecIDsToExclude (vecDocIDMap c) ex ↔ t.2.1 ∈ ex := by
  simp only [vecIDsToExclude, List.mem_map, List.mem_filter, List.contains_iff_mem]
  constructor
  · rintro ⟨⟨i, d⟩, ⟨hm, hd⟩, hi⟩
    simp only at hi hd; subst hi
    obtain ⟨v, hv⟩ := (mem_vecDocIDMap c _ _).1 hm
    have := entry_of_id c hnd hv ht rfl
    rw [← this]; exact hd
  · intro hd
    exact ⟨(t.1, t.2.1), ⟨(mem_vecDocIDMap c _ _).2 ⟨t.2.2, ht⟩, hd⟩, rfl⟩

theorem mem_docVecIDs_flatMap (c : Content) (hnd : (c.map (·.1)).Nodup) (el : List Nat)
    (t : Nat × Nat × List Int) (ht : t ∈ c) :
    t.1 ∈ el.flatMap (docVecIDs (vecDocIDMap c)) ↔ t.2.1 ∈ el := by
  simp only [List.mem_flatMap, docVecIDs, List.mem_map, List.mem_filter, beq_iff_eq]
  constructor
  · rintro ⟨d, hd, ⟨i, d'⟩, ⟨hm, hd'⟩, hi⟩
    simp only at hi hd'; subst hi; subst hd'
    obtain ⟨v, hv⟩ := (mem_vecDocIDMap c _ _).1 hm
    have := entry_of_id c hnd hv ht rfl
    rw [← this]; exact hd
  · intro hd
    exact ⟨t.2.1, hd, (t.1, t.2.1), ⟨(mem_vecDocIDMap c _ _).2 ⟨t.2.2, ht⟩, rfl⟩, rfl⟩

/-! ### from the engine contract to the checker -/

/-- the (doc, score) code of an entry -/
def vhitOf (metric : Nat) (q : List Int) (t : Nat × Nat × List Int) : VHit :=
  { doc := t.2.1, score := vscore metric q t.2.2 }

theorem admissible_eq (ix : VIndex) (opt : Nat) (q : List Int) (ex elig : Option (List Nat)) :
    admissible (ix.toVecIx opt) q ex elig =
      (ix.content.filter (fun t =>
        (match ex with | none => true | some l => !l.contains t.2.1) &&
        (match elig with | none => true | some l => l.contains t.2.1))).map (vhitOf ix.metric q) := by
  simp only [admissible, VIndex.toVecIx, List.filter_map, List.map_map]
  rfl

theorem mem_addIDs (m : VMap) (res : List (Nat × Int)) (h : VHit) :
    h ∈ addIDsToPostingsList m res ↔ ∃ p ∈ res, ∃ d, lookupDoc m p.1 = some d ∧ h = ⟨d, p.2⟩ := by
  simp only [addIDsToPostingsList, List.mem_eraseDups, List.mem_filterMap, Option.map_eq_some_iff]
  constructor
  · rintro ⟨p, hp, d, hd, rfl⟩; exact ⟨p, hp, d, hd, rfl⟩
  · rintro ⟨p, hp, d, hd, rfl⟩; exact ⟨p, hp, d, hd, rfl⟩

theorem addIDs_length_le (m : VMap) (res : List (Nat × Int)) :
    (addIDsToPostingsList m res).length ≤ res.length :=
  Nat.le_trans (length_eraseDups_le _) (List.length_filterMap_le _ _)

theorem addIDs_nodup (m : VMap) (res : List (Nat × Int)) : (addIDsToPostingsList m res).Nodup :=
  nodup_eraseDups' _

/-- with the complete table and a sound engine answer, the postings are exactly the codes
    of the returned entries -/
theorem mem_addIDs_complete (c : Content) (hnd : (c.map (·.1)).Nodup) (metric : Nat) (q : List Int)
    (adm : Nat → Bool) (res : List (Nat × Int))
    (hs : ∀ p ∈ res, ∃ d v, (p.1, d, v) ∈ c ∧ adm p.1 = true ∧ p.2 = vscore metric q v) (h : VHit) :
    h ∈ addIDsToPostingsList (vecDocIDMap c) res ↔
      ∃ t ∈ c, t.1 ∈ res.map (·.1) ∧ adm t.1 = true ∧ h = vhitOf metric q t := by
  rw [mem_addIDs]
  constructor
  · rintro ⟨p, hp, d, hd, rfl⟩
    obtain ⟨d', v, hc, ha, hsc⟩ := hs p hp
    have := lookupDoc_entry c hnd _ hc
    simp only at this
    rw [this] at hd
    simp only [Option.some.injEq] at hd
    subst hd
    exact ⟨_, hc, List.mem_map.2 ⟨p, hp, rfl⟩, ha, by simp [vhitOf, hsc]⟩
  · rintro ⟨t, ht, hid, _, rfl⟩
    obtain ⟨p, hp, hpt⟩ := List.mem_map.1 hid
    obtain ⟨d', v, hc, _, hsc⟩ := hs p hp
    have := entry_of_id c hnd hc ht hpt
    subst this
    exact ⟨p, hp, d', lookupDoc_entry c hnd _ hc, by simp [vhitOf, hsc]⟩

theorem validTopK_of_exactSel (c : Content) (hnd : (c.map (·.1)).Nodup) (metric : Nat) (q : List Int)
    (k : Nat) (adm : Nat → Bool) (res : List (Nat × Int)) (hE : ExactSel c metric q k adm res) :
    validTopK metric k ((c.filter (fun t => adm t.1)).map (vhitOf metric q))
      (addIDsToPostingsList (vecDocIDMap c) res) = true := by
  have hmem := mem_addIDs_complete c hnd metric q adm res hE.sound
  apply validTopK_intro
  · intro r hr
    obtain ⟨t, ht, _, ha, rfl⟩ := (hmem r).1 hr
    exact List.mem_map.2 ⟨t, List.mem_filter.2 ⟨ht, ha⟩, rfl⟩
  · exact addIDs_nodup _ _
  · intro r hr m hm hnot
    obtain ⟨t, ht, rfl⟩ := List.mem_map.1 hm
    obtain ⟨htc, hta⟩ := List.mem_filter.1 ht
    have hout : t.1 ∉ res.map (·.1) := fun hin => hnot ((hmem _).2 ⟨t, htc, hin, hta, rfl⟩)
    obtain ⟨p, hp, d, _, rfl⟩ := (mem_addIDs _ _ _).1 hr
    exact hE.exact p hp t htc hta hout
  · exact Nat.le_trans (addIDs_length_le _ _) hE.atMost
  · -- size
    let A := c.filter (fun t => adm t.1)
    let sel : (Nat × Nat × List Int) → Bool := fun t => (res.map (·.1)).contains t.1
    have hAnd : (A.map (·.1)).Nodup := hnd.sublist ((List.filter_sublist).map _)
    have hI : (A.filter sel).length = res.length := by
      have h1 : ((A.filter sel).map (·.1)).Nodup := hAnd.sublist ((List.filter_sublist).map _)
      have := length_eq_of_nodup_of_mem_iff h1 hE.nodup (by
        intro id
        constructor
        · intro h
          obtain ⟨t, ht, rfl⟩ := List.mem_map.1 h
          simpa [sel] using (List.mem_filter.1 ht).2
        · intro h
          obtain ⟨p, hp, rfl⟩ := List.mem_map.1 h
          obtain ⟨d, v, hc, ha, _⟩ := hE.sound p hp
          refine List.mem_map.2 ⟨(p.1, d, v), List.mem_filter.2 ⟨List.mem_filter.2 ⟨hc, ha⟩, ?_⟩, rfl⟩
          simp only [sel, List.contains_iff_mem]
          exact List.mem_map.2 ⟨p, hp, rfl⟩)
      simpa using this
    have hH : (addIDsToPostingsList (vecDocIDMap c) res).length =
        ((A.filter sel).map (vhitOf metric q)).eraseDups.length := by
      apply length_eq_of_nodup_of_mem_iff (addIDs_nodup _ _) (nodup_eraseDups' _)
      intro h
      rw [hmem, List.mem_eraseDups, List.mem_map]
      constructor
      · rintro ⟨t, ht, hid, ha, rfl⟩
        refine ⟨t, List.mem_filter.2 ⟨List.mem_filter.2 ⟨ht, ha⟩, ?_⟩, rfl⟩
        simpa [sel] using hid
      · rintro ⟨t, ht, rfl⟩
        obtain ⟨htA, hs⟩ := List.mem_filter.1 ht
        obtain ⟨htc, hta⟩ := List.mem_filter.1 htA
        exact ⟨t, htc, by simpa [sel] using hs, hta, rfl⟩
    have hd := dupcount A sel (vhitOf metric q)
    have hcount := hE.count
    have hle := length_eraseDups_le (A.map (vhitOf metric q))
    simp only [A, List.length_map] at hd hH hI hle hcount ⊢
    rw [hH]
    omega

/-! ### `search` -/

section SearchThms
variable (E : Engine) (ix : VIndex)

theorem filter_excl_eq (hnd : (ix.content.map (·.1)).Nodup) (ex : List Nat) :
    ix.content.filter (fun t => !(vecIDsToExclude (vecDocIDMap ix.content) ex).contains t.1) =
    ix.content.filter (fun t => !ex.contains t.2.1) := by
  apply List.filter_congr
  intro t ht
  have := mem_vecIDsToExclude ix.content hnd ex t ht
  by_cases h : t.2.1 ∈ ex
  · simp [h, this.2 h]
  · have h' : t.1 ∉ vecIDsToExclude (vecDocIDMap ix.content) ex := fun x => h (this.1 x)
    simp [h, h']

theorem filter_incl_eq (hnd : (ix.content.map (·.1)).Nodup) (el : List Nat) :
    ix.content.filter (fun t => (el.flatMap (docVecIDs (vecDocIDMap ix.content))).contains t.1) =
    ix.content.filter (fun t => el.contains t.2.1) := by
  apply List.filter_congr
  intro t ht
  have := mem_docVecIDs_flatMap ix.content hnd el t ht
  by_cases h : t.2.1 ∈ el
  · have h' := this.2 h
    simp only [List.mem_flatMap] at h'
    simp [h, h']
  · have h' : t.1 ∉ el.flatMap (docVecIDs (vecDocIDMap ix.content)) := fun x => h (this.1 x)
    simp only [List.mem_flatMap] at h'
    simp [h, h']

theorem search_eq_of_dim (q : List Int) (k : Nat) (ex : List Nat) (hq : q.length = ix.dim) :
    search E ix q k ex = addIDsToPostingsList (vecDocIDMap ix.content)
      (E.searchExcl q k (vecIDsToExclude (vecDocIDMap ix.content) ex)) := by
  simp [search, searchCore, hq]

theorem search_wrong_dim (q : List Int) (k : Nat) (ex : List Nat) (hq : q.length ≠ ix.dim) :
    search E ix q k ex = [] := by
  have : ¬ ix.dim = q.length := fun h => hq h.symm
  simp [search, searchCore, this]

theorem swf_wrong_dim (numDocs : Nat) (q : List Int) (k : Nat) (ex el : List Nat) (hq : q.length ≠ ix.dim) :
    searchWithFilter E ix numDocs q k ex el = [] := by
  have : ¬ ix.dim = q.length := fun h => hq h.symm
  simp [searchWithFilter, searchWithFilterCore, this]

theorem swf_empty (numDocs : Nat) (q : List Int) (k : Nat) (ex : List Nat) :
    searchWithFilter E ix numDocs q k ex [] = [] := by
  simp [searchWithFilter, searchWithFilterCore]

theorem swf_full (numDocs : Nat) (q : List Int) (k : Nat) (ex el : List Nat) (hne : el ≠ [])
    (hfull : el.length = numDocs) : searchWithFilter E ix numDocs q k ex el = search E ix q k ex := by
  simp only [searchWithFilter, searchWithFilterCore, search, searchCore]
  split
  · rfl
  · simp [hne]

theorem mem_liveEligible (ex el : List Nat) (d : Nat) : d ∈ liveEligible ex el ↔ d ∈ el ∧ d ∉ ex := by
  simp [liveEligible]

/-- the `len(vectorIDsToInclude) == 0` shortcut agrees with what a contract-abiding engine
    answers on an empty include list -/
theorem swf_incl (hE : EngineOK E ix) (numDocs : Nat) (q : List Int) (k : Nat) (ex el : List Nat)
    (hq : q.length = ix.dim) (hne : el ≠ []) (hpart : el.length ≠ numDocs) :
    searchWithFilter E ix numDocs q k ex el = addIDsToPostingsList (vecDocIDMap ix.content)
      (E.searchIncl q k ((liveEligible ex el).flatMap (docVecIDs (vecDocIDMap ix.content)))) := by
  simp only [searchWithFilter, searchWithFilterCore, hq, ne_eq, not_true_eq_false, if_false,
    List.isEmpty_iff, hne, hpart]
  split
  · rename_i h
    have hc := ((hE q k hq).2 ((liveEligible ex el).flatMap (docVecIDs (vecDocIDMap ix.content)))).count
    rw [h] at hc ⊢
    have hz : ix.content.filter (fun t => ([] : List Nat).contains t.1) = [] := by
      rw [List.filter_eq_nil_iff]; intro a _; simp
    rw [hz] at hc
    simp only [List.length_nil, Nat.min_zero, List.length_eq_zero_iff] at hc
    simp [hc, addIDsToPostingsList]
  · rfl

/-- everything `search` returns is the code of an entry of a non-excluded document -/
theorem mem_search (hnd : (ix.content.map (·.1)).Nodup) (hE : EngineOK E ix)
    (q : List Int) (k : Nat) (ex : List Nat) (h : VHit) (hh : h ∈ search E ix q k ex) :
    ∃ t ∈ ix.content, t.2.1 ∉ ex ∧ h = vhitOf ix.metric q t := by
  by_cases hq : q.length = ix.dim
  · rw [search_eq_of_dim E ix q k ex hq] at hh
    have hs := ((hE q k hq).1 (vecIDsToExclude (vecDocIDMap ix.content) ex)).sound
    obtain ⟨t, ht, _, ha, rfl⟩ := (mem_addIDs_complete ix.content hnd ix.metric q
      (fun id => !(vecIDsToExclude (vecDocIDMap ix.content) ex).contains id) _ hs h).1 hh
    refine ⟨t, ht, ?_, rfl⟩
    intro hex
    have := (mem_vecIDsToExclude ix.content hnd ex t ht).2 hex
    simp [this] at ha
  · rw [search_wrong_dim E ix q k ex hq] at hh; cases hh

theorem mem_of_full (l : List Nat) (n : Nat) (hnd : l.Nodup) (hlt : ∀ x ∈ l, x < n)
    (hlen : l.length = n) (d : Nat) (hd : d < n) : d ∈ l := by
  apply Classical.byContradiction
  intro hnot
  have hsub : l ⊆ (List.range n).erase d := by
    intro x hx
    have : x ≠ d := fun h => hnot (h ▸ hx)
    exact (List.mem_erase_of_ne this).2 (List.mem_range.2 (hlt x hx))
  have := hnd.length_le_of_subset hsub
  rw [List.length_erase_of_mem (List.mem_range.2 hd), List.length_range] at this
  omega

/-- everything `searchWithFilter` returns is the code of an entry of a non-excluded document
    that - partial filter - is eligible -/
theorem mem_swf (hnd : (ix.content.map (·.1)).Nodup) (hE : EngineOK E ix) (numDocs : Nat)
    (q : List Int) (k : Nat) (ex el : List Nat) (h : VHit)
    (hh : h ∈ searchWithFilter E ix numDocs q k ex el) :
    ∃ t ∈ ix.content, h = vhitOf ix.metric q t ∧ t.2.1 ∉ ex ∧
      (if el.length = numDocs then True else t.2.1 ∈ el) := by
  by_cases hne : el = []
  · subst hne; rw [swf_empty] at hh; cases hh
  by_cases hq : q.length = ix.dim
  · by_cases hfull : el.length = numDocs
    · rw [swf_full E ix numDocs q k ex el hne hfull] at hh
      obtain ⟨t, ht, h1, h2⟩ := mem_search E ix hnd hE q k ex h hh
      exact ⟨t, ht, h2, h1, by simp [hfull]⟩
    · rw [swf_incl E ix hE numDocs q k ex el hq hne hfull] at hh
      have hs := ((hE q k hq).2 ((liveEligible ex el).flatMap (docVecIDs (vecDocIDMap ix.content)))).sound
      obtain ⟨t, ht, _, ha, rfl⟩ := (mem_addIDs_complete ix.content hnd ix.metric q
        (fun id => ((liveEligible ex el).flatMap (docVecIDs (vecDocIDMap ix.content))).contains id) _ hs h).1 hh
      have hl := (mem_docVecIDs_flatMap ix.content hnd (liveEligible ex el) t ht).1 (by simpa using ha)
      rw [mem_liveEligible] at hl
      refine ⟨t, ht, rfl, hl.2, ?_⟩
      simp only [hfull, if_false]
      exact hl.1
  · rw [swf_wrong_dim E ix numDocs q k ex el hq] at hh; cases hh

theorem search_topk (hnd : (ix.content.map (·.1)).Nodup) (hE : EngineOK E ix) (opt : Nat)
    (q : List Int) (k : Nat) (ex : List Nat) (hq : q.length = ix.dim) :
    validTopK ix.metric k (admissible (ix.toVecIx opt) q (some ex) none) (search E ix q k ex) = true := by
  rw [search_eq_of_dim E ix q k ex hq, admissible_eq]
  simp only [Bool.and_true]
  rw [← filter_excl_eq ix hnd ex]
  exact validTopK_of_exactSel ix.content hnd ix.metric q k _ _ ((hE q k hq).1 _)

/-- a document is both eligible and not excluded iff it is in the live eligible list -/
theorem admissible_live (opt : Nat) (q : List Int) (ex el : List Nat) :
    admissible (ix.toVecIx opt) q (some ex) (some el) =
    admissible (ix.toVecIx opt) q none (some (liveEligible ex el)) := by
  rw [admissible_eq, admissible_eq]
  congr 1
  apply List.filter_congr
  intro t _
  by_cases h1 : t.2.1 ∈ el <;> by_cases h2 : t.2.1 ∈ ex <;> simp [liveEligible, h1, h2]

theorem swf_topk_incl (hnd : (ix.content.map (·.1)).Nodup) (hE : EngineOK E ix) (opt numDocs : Nat)
    (q : List Int) (k : Nat) (ex el : List Nat) (hq : q.length = ix.dim) (hne : el ≠ [])
    (hpart : el.length ≠ numDocs) :
    validTopK ix.metric k (admissible (ix.toVecIx opt) q (some ex) (some el))
      (searchWithFilter E ix numDocs q k ex el) = true := by
  rw [swf_incl E ix hE numDocs q k ex el hq hne hpart, admissible_live, admissible_eq]
  simp only [Bool.true_and]
  rw [← filter_incl_eq ix hnd (liveEligible ex el)]
  exact validTopK_of_exactSel ix.content hnd ix.metric q k _ _ ((hE q k hq).2 _)

/-- caller contract `eligible ∩ ex = ∅`: then the exclusion changes nothing for a filtered search -/
theorem admissible_contract (opt : Nat) (q : List Int) (ex el : List Nat) (hc : ∀ d ∈ el, d ∉ ex) :
    admissible (ix.toVecIx opt) q (some ex) (some el) = admissible (ix.toVecIx opt) q none (some el) := by
  rw [admissible_eq, admissible_eq]
  congr 1
  apply List.filter_congr
  intro t _
  by_cases h : t.2.1 ∈ el
  · simp [h, hc _ h]
  · simp [h]

theorem admissible_some_nil (opt : Nat) (q : List Int) (elig : Option (List Nat)) :
    admissible (ix.toVecIx opt) q (some []) elig = admissible (ix.toVecIx opt) q none elig := by
  rw [admissible_eq, admissible_eq]; simp

theorem search_length_le (hE : EngineOK E ix) (q : List Int) (k : Nat) (ex : List Nat) :
    (search E ix q k ex).length ≤ k := by
  by_cases hq : q.length = ix.dim
  · rw [search_eq_of_dim E ix q k ex hq]
    exact Nat.le_trans (addIDs_length_le _ _) ((hE q k hq).1 _).atMost
  · rw [search_wrong_dim E ix q k ex hq]; exact Nat.zero_le _

theorem swf_length_le (hE : EngineOK E ix) (numDocs : Nat) (q : List Int) (k : Nat) (ex el : List Nat) :
    (searchWithFilter E ix numDocs q k ex el).length ≤ k := by
  by_cases hne : el = []
  · subst hne; rw [swf_empty]; exact Nat.zero_le _
  by_cases hq : q.length = ix.dim
  · by_cases hfull : el.length = numDocs
    · rw [swf_full E ix numDocs q k ex el hne hfull]; exact search_length_le E ix hE q k ex
    · rw [swf_incl E ix hE numDocs q k ex el hq hne hfull]
      exact Nat.le_trans (addIDs_length_le _ _) ((hE q k hq).2 _).atMost
  · rw [swf_wrong_dim E ix numDocs q k ex el hq]; exact Nat.zero_le _

theorem search_no_vectors (hE : EngineOK E ix) (hc : ix.content = []) (q : List Int) (k : Nat)
    (ex : List Nat) : search E ix q k ex = [] := by
  by_cases hq : q.length = ix.dim
  · rw [search_eq_of_dim E ix q k ex hq]
    have := ((hE q k hq).1 (vecIDsToExclude (vecDocIDMap ix.content) ex)).count
    rw [hc] at this ⊢
    simp only [List.filter_nil, List.length_nil, Nat.min_zero, List.length_eq_zero_iff] at this
    simp [this, addIDsToPostingsList]
  · exact search_wrong_dim E ix q k ex hq

end SearchThms

theorem ofVecIx_toVecIx (v : VecIx) : (VIndex.ofVecIx v).toVecIx v.opt = v := by
  cases v with
  | mk dim metric opt vecs =>
    simp only [VIndex.ofVecIx, VIndex.toVecIx, List.map_map, Function.comp_def]
    congr 1
    exact List.zipIdx_map_fst 0 vecs

theorem ofVecIx_nodup (v : VecIx) : ((VIndex.ofVecIx v).content.map (·.1)).Nodup := by
  simp only [VIndex.ofVecIx, List.map_map, Function.comp_def]
  have : (v.vecs.zipIdx.map fun x => x.2) = List.range' 0 v.vecs.length := List.zipIdx_map_snd 0 v.vecs
  rw [this]
  exact List.nodup_range'

/-! ### postings in iteration order -/

theorem mem_insCode (c : Nat) : ∀ (l : List Nat) (x : Nat), x ∈ insCode c l ↔ x = c ∨ x ∈ l := by
  intro l
  induction l with
  | nil => intro x; simp [insCode]
  | cons a r ih =>
    intro x
    simp only [insCode]
    split
    · simp
    · split
      · rename_i h; subst h; simp
      · simp only [List.mem_cons, ih]
        constructor
        · rintro (h | h | h) <;> simp [h]
        · rintro (h | h | h) <;> simp [h]

theorem sorted_insCode (c : Nat) : ∀ (l : List Nat), l.Pairwise (· < ·) →
    (insCode c l).Pairwise (· < ·) := by
  intro l
  induction l with
  | nil => intro _; simp [insCode]
  | cons a r ih =>
    intro h
    rw [List.pairwise_cons] at h
    simp only [insCode]
    split
    · rename_i hca
      rw [List.pairwise_cons]
      refine ⟨?_, List.pairwise_cons.2 h⟩
      intro x hx
      cases hx with
      | head => exact hca
      | tail _ hx => exact Nat.lt_trans hca (h.1 x hx)
    · split
      · exact List.pairwise_cons.2 h
      · rw [List.pairwise_cons]
        refine ⟨?_, ih h.2⟩
        intro x hx
        rcases (mem_insCode c r x).1 hx with rfl | hx
        · omega
        · exact h.1 x hx

theorem sorted_postingsCodes (bits : Int → Nat) (hits : List VHit) :
    (postingsCodes bits hits).Pairwise (· < ·) := by
  induction hits with
  | nil => simp [postingsCodes]
  | cons h t ih => exact sorted_insCode _ _ ih

theorem mem_postingsCodes (bits : Int → Nat) (hits : List VHit) (x : Nat) :
    x ∈ postingsCodes bits hits ↔ ∃ h ∈ hits, x = Gen.getVectorCode h.doc (bits h.score) := by
  induction hits with
  | nil => simp [postingsCodes]
  | cons h t ih =>
    have : postingsCodes bits (h :: t) = insCode (Gen.getVectorCode h.doc (bits h.score)) (postingsCodes bits t) := rfl
    rw [this, mem_insCode, ih]
    simp

theorem code_zero (t : Nat) (ht : t < 2 ^ 32) : Gen.getVectorCode t 0 = t * 2 ^ 32 := by
  simp only [Gen.getVectorCode, Nat.or_zero, Nat.shiftLeft_eq, Gen.u64]
  apply Nat.mod_eq_of_lt
  omega

theorem lt_code_zero_iff (c t : Nat) (ht : t < 2 ^ 32) :
    c < Gen.getVectorCode t 0 ↔ c >>> 32 < t := by
  rw [code_zero t ht, Nat.shiftRight_eq_div_pow, Nat.div_lt_iff_lt_mul (by decide)]

theorem takeWhile_all {α} (p : α → Bool) : ∀ (l : List α), ∀ x ∈ l.takeWhile p, p x = true := by
  intro l
  induction l with
  | nil => intro x hx; cases hx
  | cons a r ih =>
    intro x hx
    rw [List.takeWhile_cons] at hx
    split at hx
    · cases hx with
      | head => assumption
      | tail _ hx => exact ih x hx
    · cases hx

theorem dropWhile_head_not {α} (p : α → Bool) : ∀ (l : List α) (c : α) (r : List α),
    l.dropWhile p = c :: r → p c = false := by
  intro l
  induction l with
  | nil => intro c r h; cases h
  | cons a t ih =>
    intro c r h
    rw [List.dropWhile_cons] at h
    split at h
    · exact ih c r h
    · rename_i hpa
      cases h
      simpa using hpa

theorem nextAtOrAfter_spec (rest : List Nat) (target : Nat) (ht : target < 2 ^ 32) :
    (∀ c r, nextAtOrAfter rest target = (some c, r) →
        ∃ pre, rest = pre ++ c :: r ∧ (∀ x ∈ pre, x >>> 32 < target) ∧ target ≤ c >>> 32) ∧
    (∀ r, nextAtOrAfter rest target = (none, r) → ∀ x ∈ rest, x >>> 32 < target) := by
  have hsplit := @List.takeWhile_append_dropWhile _ (fun c => decide (c < Gen.getVectorCode target 0)) rest
  have hpre : ∀ x ∈ rest.takeWhile (fun c => decide (c < Gen.getVectorCode target 0)), x >>> 32 < target := by
    intro x hx
    have := takeWhile_all _ rest x hx
    exact (lt_code_zero_iff x target ht).1 (by simpa using this)
  constructor
  · intro c r h
    simp only [nextAtOrAfter] at h
    split at h
    · cases h
    · rename_i c' r' hd
      simp only [Prod.mk.injEq, Option.some.injEq] at h
      obtain ⟨rfl, rfl⟩ := h
      refine ⟨_, by rw [← hd]; exact hsplit.symm, hpre, ?_⟩
      have := dropWhile_head_not _ rest c' r' hd
      simp only [decide_eq_false_iff_not] at this
      have h2 := (lt_code_zero_iff c' target ht)
      omega
  · intro r h x hx
    simp only [nextAtOrAfter] at h
    split at h
    · rename_i hd
      rw [hd, List.append_nil] at hsplit
      rw [← hsplit] at hx
      exact hpre x hx
    · cases h

/-- `Next()` = `nextAtOrAfter(0)` walks the codes in order -/
theorem nextAtOrAfter_zero (rest : List Nat) : nextAtOrAfter rest 0 = (rest.head?, rest.tail) := by
  cases rest with
  | nil => simp [nextAtOrAfter]
  | cons a r =>
    have : Gen.getVectorCode 0 0 = 0 := by decide
    simp [nextAtOrAfter, this]

/-! ### the reference engine satisfies the contract -/

theorem vbetter_asymm (metric : Nat) (a b : Int) (h : vbetter metric a b = true) :
    vbetter metric b a = false := by
  unfold vbetter at *
  split at h <;> simp_all <;> omega

theorem vbetter_trans (metric : Nat) (a b c : Int) (h1 : vbetter metric a b = true)
    (h2 : vbetter metric b c = true) : vbetter metric a c = true := by
  unfold vbetter at *
  split at h1 <;> simp_all <;> omega

theorem vbetter_negtrans (metric : Nat) (a b c : Int) (h1 : vbetter metric a b = false)
    (h2 : vbetter metric b c = false) : vbetter metric a c = false := by
  unfold vbetter at *
  split at h1 <;> simp_all <;> omega

theorem insertRes_perm (metric : Nat) (p : Nat × Int) : ∀ l, (insertRes metric p l).Perm (p :: l) := by
  intro l
  induction l with
  | nil => simp [insertRes]
  | cons a r ih =>
    simp only [insertRes]
    split
    · exact ((List.Perm.cons a ih).trans (List.Perm.swap p a r))
    · exact List.Perm.refl _

theorem sortRes_perm (metric : Nat) : ∀ l, (sortRes metric l).Perm l := by
  intro l
  induction l with
  | nil => simp [sortRes]
  | cons a r ih =>
    have : sortRes metric (a :: r) = insertRes metric a (sortRes metric r) := rfl
    rw [this]
    exact (insertRes_perm metric a _).trans (List.Perm.cons a ih)

theorem insertRes_sorted (metric : Nat) (p : Nat × Int) : ∀ l,
    l.Pairwise (fun a b => vbetter metric b.2 a.2 = false) →
    (insertRes metric p l).Pairwise (fun a b => vbetter metric b.2 a.2 = false) := by
  intro l
  induction l with
  | nil => intro _; simp [insertRes]
  | cons a r ih =>
    intro h
    rw [List.pairwise_cons] at h
    simp only [insertRes]
    split
    · rename_i hap
      rw [List.pairwise_cons]
      refine ⟨?_, ih h.2⟩
      intro x hx
      rcases List.mem_cons.1 ((insertRes_perm metric p r).mem_iff.1 hx) with rfl | hx
      · exact vbetter_asymm _ _ _ hap
      · exact h.1 x hx
    · rename_i hap
      have hap' : vbetter metric a.2 p.2 = false := by simpa using hap
      rw [List.pairwise_cons]
      refine ⟨?_, List.pairwise_cons.2 h⟩
      intro x hx
      cases hx with
      | head => exact hap'
      | tail _ hx => exact vbetter_negtrans metric _ _ _ (h.1 x hx) hap'

theorem sortRes_sorted (metric : Nat) : ∀ l,
    (sortRes metric l).Pairwise (fun a b => vbetter metric b.2 a.2 = false) := by
  intro l
  induction l with
  | nil => simp [sortRes]
  | cons a r ih => exact insertRes_sorted metric a _ ih

theorem refSelect_exact (ix : VIndex) (hnd : (ix.content.map (·.1)).Nodup) (q : List Int) (k : Nat)
    (adm : Nat → Bool) : ExactSel ix.content ix.metric q k adm (refSelect ix q k adm) := by
  let B := (ix.content.filter (fun t => adm t.1)).map (fun t => (t.1, vscore ix.metric q t.2.2))
  let L := sortRes ix.metric B
  have hperm : L.Perm B := sortRes_perm _ _
  have hsorted : L.Pairwise (fun a b => vbetter ix.metric b.2 a.2 = false) := sortRes_sorted _ _
  have hBids : B.map (·.1) = (ix.content.filter (fun t => adm t.1)).map (·.1) := by
    simp [B, List.map_map, Function.comp_def]
  have hres : refSelect ix q k adm = L.take k := rfl
  have hmemB : ∀ p, p ∈ B ↔ ∃ t ∈ ix.content, adm t.1 = true ∧ p = (t.1, vscore ix.metric q t.2.2) := by
    intro p
    simp only [B, List.mem_map, List.mem_filter]
    constructor
    · rintro ⟨t, ⟨h1, h2⟩, rfl⟩; exact ⟨t, h1, h2, rfl⟩
    · rintro ⟨t, h1, h2, rfl⟩; exact ⟨t, ⟨h1, h2⟩, rfl⟩
  constructor
  · intro p hp
    rw [hres] at hp
    obtain ⟨t, ht, ha, rfl⟩ := (hmemB p).1 (hperm.mem_iff.1 (List.mem_of_mem_take hp))
    exact ⟨t.2.1, t.2.2, ht, ha, rfl⟩
  · rw [hres, List.map_take]
    apply List.Nodup.sublist (List.take_sublist _ _)
    apply (hperm.map _).symm.nodup
    rw [hBids]
    exact hnd.sublist ((List.filter_sublist).map _)
  · rw [hres, List.length_take]; exact Nat.min_le_left _ _
  · intro p hp t ht ha hout
    rw [hres] at hp hout
    have hin : (t.1, vscore ix.metric q t.2.2) ∈ L := hperm.mem_iff.2 ((hmemB _).2 ⟨t, ht, ha, rfl⟩)
    rw [← List.take_append_drop k L, List.mem_append] at hin
    rcases hin with hin | hin
    · exact absurd (List.mem_map.2 ⟨_, hin, rfl⟩) hout
    · rw [← List.take_append_drop k L, List.pairwise_append] at hsorted
      exact hsorted.2.2 p hp _ hin
  · rw [hres, List.length_take, hperm.length_eq]
    simp [B]

theorem refEngine_ok (ix : VIndex) (hnd : (ix.content.map (·.1)).Nodup) : EngineOK (refEngine ix) ix :=
  fun q k _ => ⟨fun _ => refSelect_exact ix hnd q k _, fun _ => refSelect_exact ix hnd q k _⟩

end Search

/-! ## Part B: merged vector content -/

section MergeVec
/-- new number of document `d` of an input; `none` = deleted (or beyond the map) -/
def vecNewNum (m : List (Option Nat)) (d : Nat) : Option Nat := m.getD d none
/-- the surviving vectors of one input, attached to their new document numbers, in input order -/
def vecSurvivors (p : List (Option Nat) × VecIx) : List (Nat × List Int) :=
  (p.2.vecs.filter (fun dv => (vecNewNum p.1 dv.1).isSome)).map
    (fun dv => ((vecNewNum p.1 dv.1).getD 0, dv.2))
def allVecSurvivors (parts : List (List (Option Nat) × VecIx)) : List (Nat × List Int) :=
  parts.flatMap vecSurvivors

theorem flatMap_congr' {α β} (l : List α) (f g : α → List β) (h : ∀ a ∈ l, f a = g a) :
    l.flatMap f = l.flatMap g := by
  induction l with
  | nil => rfl
  | cons a t ih =>
    simp only [List.flatMap_cons]
    rw [h a List.mem_cons_self, ih (fun x hx => h x (List.mem_cons_of_mem _ hx))]

theorem survivors_eq (p : List (Option Nat) × VecIx) :
    p.2.vecs.filterMap (fun dv => match p.1.getD dv.1 none with
      | none => none
      | some nd => some (nd, dv.2)) = vecSurvivors p := by
  unfold vecSurvivors vecNewNum
  induction p.2.vecs with
  | nil => rfl
  | cons a t ih =>
    cases h : p.1.getD a.1 none with
    | none => simp only [List.filterMap_cons, h, List.filter_cons, Option.isSome_none, ih]; rfl
    | some nd => simp only [List.filterMap_cons, h, List.filter_cons, Option.isSome_some, ih, if_true, List.map_cons, Option.getD_some]

theorem mergeVec_eq (parts : List (List (Option Nat) × VecIx)) :
    mergeVec parts = match parts with
      | [] => none
      | (_, v0) :: _ =>
        if (allVecSurvivors parts).isEmpty then none
        else some { dim := v0.dim, metric := v0.metric,
                    opt := (parts.getLast?.map (·.2.opt)).getD v0.opt, vecs := allVecSurvivors parts } := by
  cases parts with
  | nil => rfl
  | cons p0 r =>
    obtain ⟨m0, v0⟩ := p0
    have h : List.flatMap (fun p : List (Option Nat) × VecIx => p.2.vecs.filterMap (fun dv => match p.1.getD dv.1 none with
      | none => none
      | some nd => some (nd, dv.2))) ((m0, v0) :: r) = allVecSurvivors ((m0, v0) :: r) :=
      flatMap_congr' _ _ _ (fun p _ => survivors_eq p)
    simp only [mergeVec]
    generalize hX : List.flatMap _ ((m0, v0) :: r) = X
    have hXe : X = allVecSurvivors ((m0, v0) :: r) := hX.symm.trans h
    rw [hXe]

theorem mergeVec_vecs (parts : List (List (Option Nat) × VecIx)) :
    (mergeVec parts).map (·.vecs) =
      if (allVecSurvivors parts).isEmpty then none else some (allVecSurvivors parts) := by
  rw [mergeVec_eq]
  cases parts with
  | nil => simp [allVecSurvivors]
  | cons p0 r =>
    obtain ⟨m0, v0⟩ := p0
    simp only
    split <;> simp

theorem mem_survivors (p : List (Option Nat) × VecIx) (nd : Nat) (v : List Int) :
    (nd, v) ∈ vecSurvivors p ↔ ∃ d, (d, v) ∈ p.2.vecs ∧ vecNewNum p.1 d = some nd := by
  simp only [vecSurvivors, List.mem_map, List.mem_filter, Prod.mk.injEq]
  constructor
  · rintro ⟨⟨d, v'⟩, ⟨hm, hs⟩, h1, rfl⟩
    refine ⟨d, hm, ?_⟩
    simp only at hs h1
    cases hn : vecNewNum p.1 d with
    | none => simp [hn] at hs
    | some x => simp [hn] at h1; simp [h1]
  · rintro ⟨d, hm, hn⟩
    exact ⟨(d, v), ⟨hm, by simp [hn]⟩, by simp [hn], rfl⟩

theorem survivors_nil_iff (p : List (Option Nat) × VecIx) :
    vecSurvivors p = [] ↔ ∀ dv ∈ p.2.vecs, vecNewNum p.1 dv.1 = none := by
  simp only [vecSurvivors, List.map_eq_nil_iff, List.filter_eq_nil_iff]
  constructor
  · intro h dv hdv
    have := h dv hdv
    cases hn : vecNewNum p.1 dv.1 with
    | none => rfl
    | some x => simp [hn] at this
  · intro h dv hdv
    simp [h dv hdv]

theorem allSurvivors_nil_iff (parts : List (List (Option Nat) × VecIx)) :
    allVecSurvivors parts = [] ↔ ∀ p ∈ parts, ∀ dv ∈ p.2.vecs, vecNewNum p.1 dv.1 = none := by
  simp only [allVecSurvivors, List.flatMap_eq_nil_iff, survivors_nil_iff]


/-- renumbering after renumbering -/
def composeMap (m' m : List (Option Nat)) : List (Option Nat) :=
  m.map (fun o => o.bind (vecNewNum m'))

theorem newNum_compose (m' m : List (Option Nat)) (d : Nat) :
    vecNewNum (composeMap m' m) d = (vecNewNum m d).bind (vecNewNum m') := by
  simp only [vecNewNum, composeMap, List.getD_eq_getElem?_getD, List.getElem?_map]
  cases m[d]? <;> rfl

theorem survivors_compose (m' : List (Option Nat)) (p : List (Option Nat) × VecIx) (ix : VecIx) :
    vecSurvivors (m', { ix with vecs := vecSurvivors p }) = vecSurvivors (composeMap m' p.1, p.2) := by
  simp only [vecSurvivors, newNum_compose, List.filter_map, List.filter_filter, List.map_map]
  have hf : p.2.vecs.filter (fun a => ((fun dv : Nat × List Int => (vecNewNum m' dv.1).isSome) ∘
        fun dv : Nat × List Int => ((vecNewNum p.1 dv.1).getD 0, dv.2)) a && (vecNewNum p.1 a.1).isSome) =
      p.2.vecs.filter (fun dv => ((vecNewNum p.1 dv.1).bind (vecNewNum m')).isSome) := by
    apply List.filter_congr
    intro a _
    simp only [Function.comp]
    cases vecNewNum p.1 a.1 <;> simp
  rw [hf]
  apply List.map_congr_left
  intro a ha
  have := (List.mem_filter.1 ha).2
  simp only [Function.comp]
  cases hn : vecNewNum p.1 a.1 with
  | none => simp [hn] at this
  | some nd => simp

def idMap (n : Nat) : List (Option Nat) := (List.range n).map some


theorem newNum_idMap (n d : Nat) (h : d < n) : vecNewNum (idMap n) d = some d := by
  simp [vecNewNum, idMap, List.getD_eq_getElem?_getD, List.getElem?_map, List.getElem?_range h]

theorem survivors_append_vecs (m' : List (Option Nat)) (ix : VecIx) (a b : List (Nat × List Int)) :
    vecSurvivors (m', { ix with vecs := a ++ b }) =
      vecSurvivors (m', { ix with vecs := a }) ++ vecSurvivors (m', { ix with vecs := b }) := by
  simp [vecSurvivors, List.filter_append]

theorem survivors_allSurvivors (m' : List (Option Nat)) (ix : VecIx)
    (parts : List (List (Option Nat) × VecIx)) :
    vecSurvivors (m', { ix with vecs := allVecSurvivors parts }) =
      allVecSurvivors (parts.map (fun p => (composeMap m' p.1, p.2))) := by
  induction parts with
  | nil => simp [allVecSurvivors, vecSurvivors]
  | cons p r ih =>
    have h1 : allVecSurvivors (p :: r) = vecSurvivors p ++ allVecSurvivors r := by simp [allVecSurvivors]
    have h2 : allVecSurvivors ((p :: r).map (fun p => (composeMap m' p.1, p.2))) =
        vecSurvivors (composeMap m' p.1, p.2) ++ allVecSurvivors (r.map (fun p => (composeMap m' p.1, p.2))) := by
      simp [allVecSurvivors]
    rw [h1, h2, survivors_append_vecs, ih, survivors_compose]


/-- documents of an input that must be excluded to see, on the input, what a search with
    exclusion `ex` sees on the merged index: the deleted ones and those renumbered into `ex` -/
def exclPre (m : List (Option Nat)) (ex : List Nat) : List Nat :=
  (List.range m.length).filter (fun d => match vecNewNum m d with
    | none => true
    | some nd => ex.contains nd)

def eligPre (m : List (Option Nat)) : Option (List Nat) → Option (List Nat)
  | none => none
  | some l => some ((List.range m.length).filter (fun d => match vecNewNum m d with
      | none => false
      | some nd => l.contains nd))

def renumHit (m : List (Option Nat)) (h : VHit) : VHit :=
  { doc := (vecNewNum m h.doc).getD 0, score := h.score }

def exOK : Option (List Nat) → Nat → Bool
  | none, _ => true
  | some l, d => !l.contains d
def elOK : Option (List Nat) → Nat → Bool
  | none, _ => true
  | some l, d => l.contains d

theorem admissible_def (ix : VecIx) (q : List Int) (ex elig : Option (List Nat)) :
    admissible ix q ex elig = (ix.vecs.filter (fun dv => exOK ex dv.1 && elOK elig dv.1)).map
      (fun dv => ({ doc := dv.1, score := vscore ix.metric q dv.2 } : VHit)) := by
  cases ex <;> cases elig <;> rfl

theorem map_filter_congr {α β} (l : List α) (P1 P2 : α → Bool) (f1 f2 : α → β)
    (hP : ∀ a ∈ l, P1 a = P2 a) (hf : ∀ a ∈ l, P2 a = true → f1 a = f2 a) :
    (l.filter P1).map f1 = (l.filter P2).map f2 := by
  rw [List.filter_congr hP]
  apply List.map_congr_left
  intro a ha
  exact hf a (List.mem_filter.1 ha).1 (List.mem_filter.1 ha).2

theorem exOK_exclPre (m : List (Option Nat)) (ex : List Nat) (d : Nat) (hd : d < m.length) :
    exOK (some (exclPre m ex)) d = (match vecNewNum m d with | none => false | some nd => exOK (some ex) nd) := by
  simp only [exOK]
  cases hn : vecNewNum m d with
  | none =>
    have : d ∈ exclPre m ex := by simp [exclPre, List.mem_filter, hd, hn]
    simpa using this
  | some nd =>
    by_cases hx : nd ∈ ex
    · have : d ∈ exclPre m ex := by simp [exclPre, List.mem_filter, hd, hn, hx]
      simpa [hx] using this
    · have : d ∉ exclPre m ex := by simp [exclPre, List.mem_filter, hd, hn, hx]
      simpa [hx] using this

theorem elOK_eligPre (m : List (Option Nat)) (elig : Option (List Nat)) (d nd : Nat) (hd : d < m.length)
    (hn : vecNewNum m d = some nd) : elOK (eligPre m elig) d = elOK elig nd := by
  cases elig with
  | none => rfl
  | some l =>
    simp only [eligPre, elOK]
    by_cases hx : nd ∈ l
    · have : d ∈ (List.range m.length).filter (fun d => match vecNewNum m d with
        | none => false | some nd => l.contains nd) := by simp [List.mem_filter, hd, hn, hx]
      simpa [hx] using this
    · have : d ∉ (List.range m.length).filter (fun d => match vecNewNum m d with
        | none => false | some nd => l.contains nd) := by simp [List.mem_filter, hn, hx]
      simpa [hx] using this

theorem admissible_survivors (p : List (Option Nat) × VecIx) (ix : VecIx) (q : List Int)
    (ex : List Nat) (elig : Option (List Nat))
    (hrange : ∀ dv ∈ p.2.vecs, dv.1 < p.1.length) (hmetric : p.2.metric = ix.metric) :
    admissible { ix with vecs := vecSurvivors p } q (some ex) elig =
      (admissible p.2 q (some (exclPre p.1 ex)) (eligPre p.1 elig)).map (renumHit p.1) := by
  rw [admissible_def, admissible_def]
  simp only [vecSurvivors, List.filter_map, List.filter_filter, List.map_map, hmetric]
  apply map_filter_congr
  · intro dv hdv
    have hr := hrange dv hdv
    rw [exOK_exclPre p.1 ex dv.1 hr]
    simp only [Function.comp]
    cases hn : vecNewNum p.1 dv.1 with
    | none => simp
    | some nd => simp [elOK_eligPre p.1 elig dv.1 nd hr hn]
  · intro dv _ _
    simp [renumHit, Function.comp]

theorem admissible_flatMap (ix : VecIx) (q : List Int) (ex elig : Option (List Nat))
    (parts : List (List (Option Nat) × VecIx)) :
    admissible { ix with vecs := allVecSurvivors parts } q ex elig =
      parts.flatMap (fun p => admissible { ix with vecs := vecSurvivors p } q ex elig) := by
  simp only [admissible, allVecSurvivors, List.filter_flatMap, List.map_flatMap]

end MergeVec

end Zap.VecL
