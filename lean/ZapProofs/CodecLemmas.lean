/-
  ZapProofs.CodecLemmas: part A (uvarints, memUvarintReader).
  Other parts live in CodecLemmas*.lean.
-/
import ZapModel.Codec

namespace Zap.Codec
open Zap

/-! ### A. uvarint -/

theorem putUvarint_lt {x : Nat} (h : x < 128) : putUvarint x = [x] := by
  rw [putUvarint]; simp [h]

theorem putUvarint_ge {x : Nat} (h : ¬ x < 128) :
    putUvarint x = (x % 128 + 128) :: putUvarint (x / 128) := by
  rw [putUvarint]; simp [h]

theorem putUvarint_ne_nil (x : Nat) : putUvarint x ≠ [] := by
  by_cases h : x < 128
  · simp [putUvarint_lt h]
  · simp [putUvarint_ge h]

theorem putUvarint_length_pos (x : Nat) : 0 < (putUvarint x).length :=
  List.length_pos_iff.mpr (putUvarint_ne_nil x)

theorem uvarint_putUvarint (x : Nat) (rest : Bytes) :
    uvarint (putUvarint x ++ rest) = some (x, rest) := by
  induction x using Nat.strongRecOn with
  | _ x ih =>
    by_cases h : x < 128
    · simp [putUvarint_lt h, uvarint, h]
    · have h1 : ¬ (x % 128 + 128 < 128) := by omega
      rw [putUvarint_ge h]
      simp only [List.cons_append, uvarint, h1, if_false]
      rw [ih (x / 128) (by omega)]
      simp only [Option.some.injEq, Prod.mk.injEq, and_true]
      omega

theorem putUvarint_bytes (x : Nat) : ∀ b ∈ putUvarint x, b < 256 := by
  induction x using Nat.strongRecOn with
  | _ x ih =>
    by_cases h : x < 128
    · simp [putUvarint_lt h]; omega
    · rw [putUvarint_ge h]
      intro b hb
      rcases List.mem_cons.mp hb with hb | hb
      · omega
      · exact ih (x / 128) (by omega) b hb

theorem numUvarintBytes_eq (x : Nat) : numUvarintBytes x = (putUvarint x).length := by
  induction x using Nat.strongRecOn with
  | _ x ih =>
    by_cases h : x < 128
    · rw [numUvarintBytes]; simp [putUvarint_lt h, h]
    · rw [numUvarintBytes, putUvarint_ge h]
      simp [h, ih (x / 128) (by omega)]

theorem putUvarints_nil : putUvarints [] = [] := rfl

theorem putUvarints_cons (x : Nat) (xs : List Nat) :
    putUvarints (x :: xs) = putUvarint x ++ putUvarints xs := by
  simp [putUvarints]

theorem putUvarints_append (xs ys : List Nat) :
    putUvarints (xs ++ ys) = putUvarints xs ++ putUvarints ys := by
  simp [putUvarints]

theorem putUvarints_length_ge (xs : List Nat) : xs.length ≤ (putUvarints xs).length := by
  induction xs with
  | nil => simp [putUvarints]
  | cons x xs ih =>
    rw [putUvarints_cons]
    have := putUvarint_length_pos x
    simp only [List.length_cons, List.length_append]
    omega

theorem uvarints_go_succ (fuel : Nat) (bs : Bytes) (h : bs ≠ []) (v : Nat) (rest : Bytes)
    (hu : uvarint bs = some (v, rest)) :
    uvarints.go (fuel + 1) bs = v :: uvarints.go fuel rest := by
  cases bs with
  | nil => contradiction
  | cons b bs => simp [uvarints.go, hu]

theorem uvarints_go_putUvarints (xs : List Nat) :
    ∀ fuel, xs.length ≤ fuel → uvarints.go fuel (putUvarints xs) = xs := by
  induction xs with
  | nil =>
    intro fuel _
    cases fuel <;> simp [uvarints.go, putUvarints]
  | cons x xs ih =>
    intro fuel hf
    cases fuel with
    | zero => simp at hf
    | succ fuel =>
      rw [putUvarints_cons]
      have hne : putUvarint x ++ putUvarints xs ≠ [] := by
        simp [putUvarint_ne_nil]
      rw [uvarints_go_succ _ _ hne _ _ (uvarint_putUvarint _ _)]
      simp only [List.cons.injEq, true_and]
      exact ih fuel (by simpa using hf)

theorem uvarints_putUvarints (xs : List Nat) : uvarints (putUvarints xs) = xs := by
  unfold uvarints
  exact uvarints_go_putUvarints xs _ (putUvarints_length_ge xs)

theorem readN_putUvarints (xs : List Nat) (rest : Bytes) :
    readN xs.length (putUvarints xs ++ rest) = some (xs, rest) := by
  induction xs with
  | nil => simp [readN, putUvarints]
  | cons x xs ih =>
    rw [putUvarints_cons, List.append_assoc]
    simp only [List.length_cons, readN]
    rw [uvarint_putUvarint]
    simp only
    rw [ih]

/-! #### memUvarintReader -/

/-- `s[c]?` is the head of `s.drop c`. -/
theorem getElem?_of_drop_eq_cons {s : Bytes} {c b : Nat} {t : Bytes}
    (h : s.drop c = b :: t) : s[c]? = some b ∧ s.drop (c + 1) = t := by
  constructor
  · have := congrArg (fun l => l[0]?) h
    simpa using this
  · have := congrArg (fun l => l.drop 1) h
    simpa [Nat.add_comm] using this

theorem memSkip_go_put (s : Bytes) (x : Nat) :
    ∀ (post : Bytes) (fuel c : Nat), s.drop c = putUvarint x ++ post →
      (putUvarint x).length ≤ fuel →
      memSkip.go s fuel c = c + (putUvarint x).length := by
  induction x using Nat.strongRecOn with
  | _ x ih =>
    intro post fuel c hd hf
    by_cases h : x < 128
    · rw [putUvarint_lt h] at hd hf ⊢
      obtain ⟨h1, _⟩ := getElem?_of_drop_eq_cons hd
      cases fuel with
      | zero => simp at hf
      | succ fuel => simp [memSkip.go, h1, h]
    · rw [putUvarint_ge h] at hd hf ⊢
      obtain ⟨h1, h2⟩ := getElem?_of_drop_eq_cons hd
      cases fuel with
      | zero => simp at hf
      | succ fuel =>
        have hb : ¬ (x % 128 + 128 < 128) := by omega
        simp only [memSkip.go, h1, hb, if_false]
        rw [ih (x / 128) (by omega) post fuel (c + 1) h2 (by simpa using hf)]
        simp only [List.length_cons]
        omega

theorem drop_length_append (pre rest : Bytes) : (pre ++ rest).drop pre.length = rest := by
  simp

theorem memSkip_put (pre : Bytes) (x : Nat) (post : Bytes) :
    memSkip (pre ++ putUvarint x ++ post) pre.length = pre.length + (putUvarint x).length := by
  unfold memSkip
  apply memSkip_go_put _ x post
  · rw [List.append_assoc, drop_length_append]
  · simp only [List.length_append]; omega

/-- `acc ||| (b <<< sh)` is addition when `acc < 2^sh`. -/
theorem or_shiftLeft_eq_add {acc b sh : Nat} (h : acc < 2 ^ sh) :
    acc ||| (b <<< sh) = acc + 2 ^ sh * b := by
  rw [Nat.or_comm, ← Nat.shiftLeft_add_eq_or_of_lt h, Nat.shiftLeft_eq]
  rw [Nat.mul_comm, Nat.add_comm]

theorem pow_step (sh y : Nat) :
    2 ^ (sh + 7) * (y / 128) + 2 ^ sh * (y % 128) = 2 ^ sh * y := by
  have : 2 ^ (sh + 7) = 2 ^ sh * 128 := by rw [Nat.pow_add]
  rw [this, Nat.mul_assoc, ← Nat.mul_add, Nat.div_add_mod]

theorem memRead_go_put (s : Bytes) (y : Nat) :
    ∀ (post : Bytes) (fuel c acc sh : Nat), s.drop c = putUvarint y ++ post →
      (putUvarint y).length ≤ fuel →
      acc < 2 ^ sh → acc + 2 ^ sh * y < 2 ^ 64 → (sh = 0 ∨ 0 < y) →
      memRead.go s fuel c acc sh = some (acc + 2 ^ sh * y, false, c + (putUvarint y).length) := by
  induction y using Nat.strongRecOn with
  | _ y ih =>
    intro post fuel c acc sh hd hf hacc hbound hmin
    have hshy : sh = 0 ∨ (sh ≤ 63 ∧ (sh = 63 → y ≤ 1)) := by
      rcases hmin with h0 | hy
      · exact Or.inl h0
      · right
        have hle : 2 ^ sh ≤ 2 ^ sh * y := Nat.le_mul_of_pos_right _ hy
        have hlt : 2 ^ sh < 2 ^ 64 := by omega
        have hsh : sh < 64 := (Nat.pow_lt_pow_iff_right (by decide)).mp hlt
        refine ⟨by omega, ?_⟩
        intro h63
        subst h63
        omega
    by_cases h : y < 128
    · rw [putUvarint_lt h] at hd hf ⊢
      obtain ⟨h1, _⟩ := getElem?_of_drop_eq_cons hd
      cases fuel with
      | zero => simp at hf
      | succ fuel =>
        have hno : ¬ (sh ≥ 63 ∧ (sh > 63 ∨ y > 1)) := by omega
        simp only [memRead.go, h1, h, if_true, hno, if_false]
        have e1 : (y <<< sh) % Gen.u64 = y <<< sh := by
          apply Nat.mod_eq_of_lt
          rw [Nat.shiftLeft_eq, Nat.mul_comm]
          show _ < 2 ^ 64
          omega
        rw [e1, or_shiftLeft_eq_add hacc, Nat.mod_eq_of_lt (by show _ < 2 ^ 64; omega)]
        simp
    · rw [putUvarint_ge h] at hd hf ⊢
      obtain ⟨h1, h2⟩ := getElem?_of_drop_eq_cons hd
      cases fuel with
      | zero => simp at hf
      | succ fuel =>
        have hb : ¬ (y % 128 + 128 < 128) := by omega
        have hbm : (y % 128 + 128) % 128 = y % 128 := by omega
        simp only [memRead.go, h1, hb, if_false, hbm]
        have hstep := pow_step sh y
        have hmodle : 2 ^ sh * (y % 128) ≤ 2 ^ sh * y := Nat.mul_le_mul_left _ (Nat.mod_le _ _)
        have e1 : ((y % 128) <<< sh) % Gen.u64 = (y % 128) <<< sh := by
          apply Nat.mod_eq_of_lt
          rw [Nat.shiftLeft_eq, Nat.mul_comm]
          show _ < 2 ^ 64
          omega
        rw [e1, or_shiftLeft_eq_add hacc]
        have hacc' : acc + 2 ^ sh * (y % 128) < 2 ^ (sh + 7) := by
          have : 2 ^ (sh + 7) = 2 ^ sh * 128 := by rw [Nat.pow_add]
          rw [this]
          have : 2 ^ sh * (y % 128) ≤ 2 ^ sh * 127 := Nat.mul_le_mul_left _ (by omega)
          omega
        rw [ih (y / 128) (by omega) post fuel (c + 1) _ (sh + 7) h2 (by simpa using hf) hacc'
          (by omega) (Or.inr (by omega))]
        simp only [List.length_cons, Option.some.injEq, Prod.mk.injEq, true_and]
        omega

theorem memRead_put (pre : Bytes) (x : Nat) (hx : x < 2 ^ 64) (post : Bytes) :
    memRead (pre ++ putUvarint x ++ post) pre.length
      = some (x, false, pre.length + (putUvarint x).length) := by
  have hpos := putUvarint_length_pos x
  unfold memRead
  have hlen : ¬ (pre.length ≥ (pre ++ putUvarint x ++ post).length) := by
    simp only [List.length_append]; omega
  simp only [hlen, if_false]
  have := memRead_go_put (pre ++ putUvarint x ++ post) x post
    ((pre ++ putUvarint x ++ post).length + 1) pre.length 0 0
    (by rw [List.append_assoc, drop_length_append])
    (by simp only [List.length_append]; omega)
    (by simp) (by simpa using hx) (Or.inl rfl)
  simpa using this

end Zap.Codec
