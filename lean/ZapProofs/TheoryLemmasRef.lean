/-
  Lemmas for reference counting (`Zap.RefSt`, ZapModel/Life.lean): the release (`closeActual`)
  happens exactly once, at the operation that drops the last reference, never earlier.
-/
import ZapModel.Theory.RefCount

namespace Zap.Theory.RefCount
open Zap

theorem run_cons (s : RefSt) (op : RefOp) (rest : List RefOp) :
    RefSt.run s (op :: rest) = RefSt.run (s.step op) rest := rfl

theorem run_append (s : RefSt) (a b : List RefOp) :
    RefSt.run s (a ++ b) = RefSt.run (RefSt.run s a) b := by
  simp [RefSt.run, List.foldl_append]

theorem step_refs (s : RefSt) (op : RefOp) : (s.step op).refs = s.refs + delta op := by
  cases op <;> simp [RefSt.step, delta] <;> omega

theorem run_refs (s : RefSt) (ops : List RefOp) : (RefSt.run s ops).refs = count s.refs ops := by
  induction ops generalizing s with
  | nil => rfl
  | cons op rest ih => rw [run_cons, ih, step_refs]; rfl

theorem count_append (c : Int) (a b : List RefOp) : count c (a ++ b) = count (count c a) b := by
  induction a generalizing c with
  | nil => rfl
  | cons op rest ih => simp [count, ih]

theorem step_releases_of_ne (s : RefSt) (op : RefOp) (h : s.refs + delta op ≠ 0) :
    (s.step op).releases = s.releases := by
  cases op
  · simp [RefSt.step]
  · have : s.refs - 1 ≠ 0 := by simp [delta] at h; omega
    simp [RefSt.step, this]
  · have : s.refs - 1 ≠ 0 := by simp [delta] at h; omega
    simp [RefSt.step, this]

theorem step_releases_of_zero (s : RefSt) (op : RefOp) (hop : op ≠ .addRef)
    (h : s.refs + delta op = 0) : (s.step op).releases = s.releases + 1 := by
  cases op
  · exact absurd rfl hop
  · have : s.refs - 1 = 0 := by simp [delta] at h; omega
    simp [RefSt.step, this]
  · have : s.refs - 1 = 0 := by simp [delta] at h; omega
    simp [RefSt.step, this]

/-- As long as the count never reaches 0, nothing is released. -/
theorem no_release (s : RefSt) (pre : List RefOp)
    (h : ∀ q, q <+: pre → q ≠ [] → count s.refs q ≠ 0) :
    (RefSt.run s pre).releases = s.releases := by
  induction pre generalizing s with
  | nil => rfl
  | cons op rest ih =>
    rw [run_cons]
    have h1 : s.refs + delta op ≠ 0 := h [op] ⟨rest, rfl⟩ (by simp)
    rw [ih (s.step op), step_releases_of_ne s op h1]
    intro q hq hne
    obtain ⟨t, ht⟩ := hq
    have := h (op :: q) ⟨t, by simp [ht]⟩ (by simp)
    rw [step_refs]; exact this

/-- GENERIC THEOREM (reference counting): for EVERY operation list whose running count (start
    1; addRef +1; decRef/close -1) stays ≥ 1 on every proper prefix and ends at 0: the release
    ran exactly once after the full list and not at all after any proper prefix. -/
theorem release_once (ops : List RefOp)
    (hpos : ∀ pre, pre <+: ops → pre ≠ ops → 1 ≤ count 1 pre)
    (hzero : count 1 ops = 0) :
    (RefSt.run {} ops).releases = 1
    ∧ ∀ pre, pre <+: ops → pre ≠ ops → (RefSt.run {} pre).releases = 0 := by
  have early : ∀ pre, pre <+: ops → pre ≠ ops → (RefSt.run {} pre).releases = 0 := by
    intro pre hpre hne
    have := no_release {} pre (by
      intro q hq _
      have hqo : q <+: ops := List.IsPrefix.trans hq hpre
      have hqne : q ≠ ops := by
        intro heq
        subst heq
        have hl1 := hq.length_le
        have hl2 := hpre.length_le
        exact hne (hpre.eq_of_length (by omega))
      have := hpos q hqo hqne
      show count 1 q ≠ 0
      omega)
    simpa using this
  refine ⟨?_, early⟩
  have hne : ops ≠ [] := by
    intro h; subst h; simp [count] at hzero
  have hsplit : ops = ops.dropLast ++ [ops.getLast hne] := (List.dropLast_concat_getLast hne).symm
  generalize ops.dropLast = pre at hsplit
  generalize ops.getLast hne = op at hsplit
  subst hsplit
  have hpre : pre <+: pre ++ [op] := ⟨[op], rfl⟩
  have hprene : pre ≠ pre ++ [op] := by
    intro h; have := congrArg List.length h; simp at this
  have hrel := early pre hpre hprene
  have hcnt := hpos pre hpre hprene
  rw [count_append] at hzero
  have hz : count 1 pre + delta op = 0 := hzero
  have hop : op ≠ .addRef := by
    intro h; subst h; simp [delta] at hz; omega
  rw [run_append]
  show ((RefSt.run {} pre).step op).releases = 1
  rw [step_releases_of_zero _ op hop (by rw [run_refs]; exact hz), hrel]

/-- `lastRefAtEnd` implies the two hypotheses of `release_once` (from any start `c`). -/
theorem lastRefAtEnd_spec (c : Int) (ops : List RefOp) (h : lastRefAtEnd c ops = true) :
    (∀ pre, pre <+: ops → pre ≠ ops → pre ≠ [] → 1 ≤ count c pre) ∧ count c ops = 0 := by
  induction ops generalizing c with
  | nil => simp [lastRefAtEnd] at h
  | cons op rest ih =>
    cases rest with
    | nil =>
      simp only [lastRefAtEnd, beq_iff_eq] at h
      refine ⟨?_, by simpa [count] using h⟩
      intro pre hpre hne hnil
      exfalso
      cases pre with
      | nil => exact hnil rfl
      | cons a t =>
        obtain ⟨u, hu⟩ := hpre
        simp at hu
        obtain ⟨ha, ht, _⟩ := hu
        subst ha; subst ht; exact hne rfl
    | cons op2 rest2 =>
      simp only [lastRefAtEnd, Bool.and_eq_true, decide_eq_true_eq] at h
      obtain ⟨h1, h2⟩ := h
      have ⟨ihp, ihz⟩ := ih (c + delta op) h2
      refine ⟨?_, by simpa [count] using ihz⟩
      intro pre hpre hne hnil
      cases pre with
      | nil => exact absurd rfl hnil
      | cons a t =>
        obtain ⟨u, hu⟩ := hpre
        simp at hu
        obtain ⟨ha, hu⟩ := hu
        subst ha
        show 1 ≤ count (c + delta a) t
        cases t with
        | nil => simpa [count] using h1
        | cons b t' =>
          exact ihp (b :: t') ⟨u, hu⟩ (by intro h; apply hne; rw [h]) (by simp)

/-- Executable-hypothesis form of `release_once`. -/
theorem release_once_of_check (ops : List RefOp) (h : lastRefAtEnd 1 ops = true) :
    (RefSt.run {} ops).releases = 1
    ∧ ∀ pre, pre <+: ops → pre ≠ ops → (RefSt.run {} pre).releases = 0 := by
  have ⟨hp, hz⟩ := lastRefAtEnd_spec 1 ops h
  apply release_once ops _ hz
  intro pre hpre hne
  cases pre with
  | nil => simp [count]
  | cons a t => exact hp _ hpre hne (by simp)

end Zap.Theory.RefCount
