/-
  ZapProofs.ReuseLemmas: helper lemmas for C07 (reuse of preallocated postings
  lists and iterators).  Namespace `Zap.Reuse`.
-/
import ZapModel.Reuse
import ZapProofs.PostingLemmas

namespace Zap.Reuse
open Zap

/-! ### the postings list object -/

theorem alignStream_self (es : List Entry) : alignStream (es.map (·.doc)) es = es := by
  induction es with
  | nil => rfl
  | cons e es ih => simp [alignStream, ih]

/-- a FOUND term, general encoding: whatever the recycled object held and whatever the flags, the
    object denotes exactly the fresh postings list (`FromBuffer` REPLACES the bitmap's content) -/
theorem view_lookup_general (fl : Flags) (old : Option PLObj) (tgt : PList) (es : List Entry)
    (h : tgt.rep = some (.general es)) : (PLObj.lookup fl old tgt).view = tgt := by
  obtain ⟨rep, ex, cs, names⟩ := tgt
  simp only at h
  subst h
  unfold PLObj.lookup
  cases old <;> simp [PLObj.read, PLObj.init, PLObj.view, PLObj.zero, alignStream_self]

/-- a FOUND term, 1-hit encoding: every accessor tests `normBits1Hit` before it looks at `postings`,
    so the retained bitmap is invisible; `chunkSize` stays 0 (`init1Hit` does not compute it) -/
theorem view_lookup_oneHit (fl : Flags) (old : Option PLObj) (tgt : PList) (d nb : Nat)
    (h : tgt.rep = some (.oneHit d nb)) : (PLObj.lookup fl old tgt).view = { tgt with chunkSize := 0 } := by
  obtain ⟨rep, ex, cs, names⟩ := tgt
  simp only at h
  subst h
  unfold PLObj.lookup
  cases old <;> rfl

/-- an ABSENT term on a recycled object whose bitmap was `Clear()`ed: an empty general list -/
theorem view_lookup_absent (fl : Flags) (hfl : fl.postings = true) (o : PLObj) (tgt : PList)
    (h : tgt.rep = none) :
    (PLObj.lookup fl (some o) tgt).view =
      { rep := (o.postings.map (fun _ => PostRep.general [])), except := tgt.except, chunkSize := 0,
        names := tgt.names } := by
  unfold PLObj.lookup
  rw [h]
  simp only [PLObj.init, PLObj.view, PLObj.zero, hfl, if_true]
  cases o.postings <;> rfl

theorem view_lookup_absent_fresh (fl : Flags) (tgt : PList) (h : tgt.rep = none) :
    (PLObj.lookup fl none tgt).view = { rep := none, except := none, chunkSize := 0, names := [] } := by
  unfold PLObj.lookup
  rw [h]
  rfl

/-! ### lists that denote nothing behave alike -/

/-- no hits: term absent, or an empty (cleared) bitmap -/
def Hollow (p : PList) : Prop := p.rep = none ∨ p.rep = some (.general [])

theorem hollow_done {p : PList} (h : Hollow p) (f n l : Bool) : Done (It.create p f n l) := by
  rcases h with h | h <;> simp [Done, It.create, h]

theorem run_done {i : It} (h : Done i) (ops : List Op) : i.run ops = ops.map (fun _ => none) := by
  induction ops with
  | nil => rfl
  | cons op ops ih =>
    have hs : i.step op = (i, none) := by
      unfold It.step
      simp only [nextDoc_done h]
    simp [It.run, hs, ih]

theorem hollow_count {p : PList} (h : Hollow p) : p.count = 0 := by
  rcases h with h | h <;> simp [PList.count, h]

theorem hollow_live {p : PList} (h : Hollow p) (f n l : Bool) : (It.create p f n l).live = [] := by
  rcases h with h | h <;> simp [It.live, It.create, h]

theorem hollow_run {p : PList} (h : Hollow p) (f n l : Bool) (ops : List Op) :
    (It.create p f n l).run ops = ops.map (fun _ => none) :=
  run_done (hollow_done h f n l) ops

/-! ### observable behaviour of a postings list -/

/-- same `Count`, same actual bitmap / 1-hit accessor, same answers to every call sequence -/
def Beh (p q : PList) : Prop :=
  p.count = q.count ∧ ∀ f n l, (It.create p f n l).live = (It.create q f n l).live ∧
    ∀ ops, (It.create p f n l).run ops = (It.create q f n l).run ops

theorem Beh.rfl' (p : PList) : Beh p p := ⟨rfl, fun _ _ _ => ⟨rfl, fun _ => rfl⟩⟩

theorem beh_hollow {p q : PList} (hp : Hollow p) (hq : Hollow q) : Beh p q := by
  refine ⟨by rw [hollow_count hp, hollow_count hq], fun f n l => ⟨?_, fun ops => ?_⟩⟩
  · rw [hollow_live hp, hollow_live hq]
  · rw [hollow_run hp, hollow_run hq]

/-- the chunk size of a 1-hit list is never looked at -/
theorem beh_oneHit (p : PList) (d nb cs : Nat) (h : p.rep = some (.oneHit d nb)) :
    Beh { p with chunkSize := cs } p := by
  have hq : ({ p with chunkSize := cs } : PList).rep = some (.oneHit d nb) := h
  refine ⟨by simp [PList.count, h], fun f n l => ⟨by simp [It.live, It.create, h], fun ops => ?_⟩⟩
  have e1 := run_sim (f := f) (n := n) (l := l) ops _ _
    (sim_create { p with chunkSize := cs } (by simp [PList.entries, h, Asc]) (by intro es he; simp [h] at he) f n l)
  have e2 := run_sim (f := f) (n := n) (l := l) ops _ _
    (sim_create p (by simp [PList.entries, h, Asc]) (by intro es he; simp [h] at he) f n l)
  rw [e1, e2]
  rfl

/-! ### the iterator object: the slot buffers are transparent -/

theorem fillLocs_shown (s : Slots Loc) (new : List Loc) : (fillLocs s new).2 = new := by
  unfold fillLocs
  simp only
  have h1 : (new.take (min s.len s.cells.length)).length = min (min s.len s.cells.length) new.length := by
    simp
  rw [List.take_left' h1, List.take_append_drop]

theorem step_it (o : ItObj) (op : Op) :
    (o.step op).1.it = (o.it.step op).1 ∧ (o.step op).2 = (o.it.step op).2 := by
  unfold ItObj.step
  cases hs : o.it.step op with
  | mk i h =>
    cases h with
    | none => exact ⟨rfl, rfl⟩
    | some h =>
      simp only
      split
      · refine ⟨rfl, ?_⟩
        simp only [fillLocs_shown]
      · exact ⟨rfl, rfl⟩

theorem run_it (o : ItObj) (ops : List Op) : o.run ops = o.it.run ops := by
  induction ops generalizing o with
  | nil => rfl
  | cons op ops ih =>
    obtain ⟨h1, h2⟩ := step_it o op
    simp only [ItObj.run, It.run]
    rw [ih, h1, h2]

theorem bytes1Hit_shown (buf : Option (List Nat)) (enc : List Nat) : (bytes1Hit buf enc).2 = enc := by
  unfold bytes1Hit
  simp

/-! ### the iterator object: recycling with both readers reset gives the fresh struct -/

theorem create_chunk_state (p : PList) (f n l : Bool) :
    (It.create p f n l).loaded = false ∧ (It.create p f n l).fn = [] ∧ (It.create p f n l).loc = [] := by
  unfold It.create
  cases p.rep with
  | none => exact ⟨rfl, rfl, rfl⟩
  | some r => cases r <;> exact ⟨rfl, rfl, rfl⟩

theorem eta_chunk_state (i : It) (h1 : i.loaded = false) (h2 : i.fn = []) (h3 : i.loc = []) :
    { i with loaded := false, fn := [], loc := [] } = i := by
  cases i
  simp only at h1 h2 h3
  subst h1 h2 h3
  rfl

theorem recycle_it (fl : Flags) (h1 : fl.freqNormReader = true) (h2 : fl.locReader = true)
    (old : Option ItObj) (src : Src) (p : PList) (f n l : Bool) :
    (ItObj.recycle fl old src p f n l).it = It.create p f n l := by
  obtain ⟨c1, c2, c3⟩ := create_chunk_state p f n l
  unfold ItObj.recycle
  cases hrep : p.rep with
  | none => rfl
  | some r =>
    cases old with
    | none => cases r <;> rfl
    | some o =>
      have : ({ It.create p f n l with
            loaded := if (o.fnR.isSome && !fl.freqNormReader) = true then o.it.loaded else false,
            fn := if (o.fnR.isSome && !fl.freqNormReader) = true then o.it.fn else [],
            loc := if (o.locR.isSome && !fl.locReader) = true then o.it.loc else [] } : It) =
          It.create p f n l := by
        simp only [h1, h2, Bool.not_true, Bool.and_false, Bool.false_eq_true, if_false]
        exact eta_chunk_state _ c1 c2 c3
      cases r with
      | oneHit d nb => simp only; exact this
      | general es => simp only; exact this

/-- the readers the recycled iterator will USE, and the bytes-read statistic, are those of a fresh
    iterator: `reset()` zeroes `bytesRead`, `newChunkedIntDecoder` re-assigns `data`, `chunkOffsets` -/
theorem recycle_readers (fl : Flags) (h1 : fl.freqNormReader = true) (h2 : fl.locReader = true)
    (old : Option ItObj) (src : Src) (p : PList) (es : List Entry) (hrep : p.rep = some (.general es))
    (f n l : Bool) :
    (ItObj.recycle fl old src p f n l).bytesRead = (ItObj.recycle fl none src p f n l).bytesRead ∧
    ((f || n || l) = true →
      (ItObj.recycle fl old src p f n l).fnR = (ItObj.recycle fl none src p f n l).fnR) ∧
    (l = true → (ItObj.recycle fl old src p f n l).locR = (ItObj.recycle fl none src p f n l).locR) := by
  unfold ItObj.recycle
  rw [hrep]
  cases old with
  | none => exact ⟨rfl, fun _ => rfl, fun _ => rfl⟩
  | some o =>
    simp only [h1, h2, if_true]
    cases hf : (f || n || l) <;> cases l <;> cases o.fnR <;> cases o.locR <;>
      simp [newDecoder, Reader.reset]

/-! ### the synonyms list object -/

theorem codes_lookup (fl : Flags) (hfl : fl.synonyms = true) (old : Option SLObj)
    (tgt : Option (List Nat)) (ex : Option (List Nat)) :
    (SLObj.lookup fl old tgt ex).codes = tgt.getD [] := by
  unfold SLObj.lookup SLObj.codes
  cases tgt with
  | some bytes => cases old <;> rfl
  | none =>
    cases old with
    | none => rfl
    | some o =>
      simp only [hfl, if_true]
      cases o.synonyms <;> rfl

end Zap.Reuse
