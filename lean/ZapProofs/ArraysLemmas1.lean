/-
  ZapProofs.ArraysLemmas1: the shared backing array with per-list windows
  (`Arena`), generic in the cell type.  Offsets of the carved windows, the
  invariant `Exact` ("every window holds exactly what was appended to it, and
  not more than was counted"), its preservation by `push` / `pushAll`, reading.
-/
import ZapModel.BuildArrays

namespace Zap.Arr
open Zap

/-! ### window offsets: prefix sums of the counts -/

def startOf (ns : List Nat) (pid : Nat) : Nat := (ns.take pid).sum

theorem startOf_zero (ns : List Nat) : startOf ns 0 = 0 := by simp [startOf]

theorem startOf_cons_succ (n : Nat) (ns : List Nat) (p : Nat) :
    startOf (n :: ns) (p + 1) = n + startOf ns p := by
  simp [startOf]

theorem startOf_succ (ns : List Nat) (p : Nat) : startOf ns (p + 1) = startOf ns p + ns.getD p 0 := by
  induction ns generalizing p with
  | nil => simp [startOf]
  | cons n ns ih =>
    cases p with
    | zero => simp [startOf]
    | succ p =>
      rw [startOf_cons_succ, startOf_cons_succ, ih]
      simp [Nat.add_assoc]

theorem startOf_mono (ns : List Nat) {p q : Nat} (h : p ≤ q) : startOf ns p ≤ startOf ns q := by
  induction q with
  | zero =>
    have : p = 0 := by omega
    subst this; exact Nat.le_refl _
  | succ q ih =>
    by_cases e : p = q + 1
    · subst e; exact Nat.le_refl _
    · have := ih (by omega)
      rw [startOf_succ]; omega

/-- the window of `p` ends where the window of any later list starts -/
theorem startOf_add_le (ns : List Nat) {p q : Nat} (h : p < q) : startOf ns p + ns.getD p 0 ≤ startOf ns q := by
  rw [← startOf_succ]
  exact startOf_mono ns h

theorem startOf_le_sum (ns : List Nat) (p : Nat) : startOf ns p ≤ ns.sum := by
  have : ns.sum = (ns.take p).sum + (ns.drop p).sum := by
    rw [← List.sum_append, List.take_append_drop]
  unfold startOf
  omega

theorem startOf_add_le_sum (ns : List Nat) (p : Nat) : startOf ns p + ns.getD p 0 ≤ ns.sum := by
  rw [← startOf_succ]
  exact startOf_le_sum ns _

/-! ### `carve` -/

theorem length_carve {α : Type} (off : Nat) (ns : List Nat) : (carve off ns : List (Slice α)).length = ns.length := by
  induction ns generalizing off with
  | nil => rfl
  | cons n ns ih => simp [carve, ih]

theorem getElem?_carve {α : Type} (off : Nat) (ns : List Nat) (pid : Nat) (h : pid < ns.length) :
    (carve off ns : List (Slice α))[pid]? = some (.view (off + startOf ns pid) 0) := by
  induction ns generalizing off pid with
  | nil => simp at h
  | cons n ns ih =>
    cases pid with
    | zero => simp [carve, startOf_zero]
    | succ pid =>
      have h' : pid < ns.length := by simpa using h
      simp only [carve, List.getElem?_cons_succ]
      rw [ih (off + n) pid h', startOf_cons_succ, Nat.add_assoc]

theorem length_mkBacking {α : Type} (stale : List α) (tot : Nat) : tot ≤ (mkBacking stale tot).size := by
  unfold mkBacking
  split
  · simpa using ‹tot ≤ stale.length›
  · simp

/-! ### the invariant -/

/-- `content pid` is what has been appended to list `pid` so far; `ns` are the counts. -/
structure Exact {α : Type} (A : Arena α) (ns : List Nat) (content : Nat → List α) : Prop where
  notBad : A.bad = false
  len : A.sl.length = ns.length
  total : ns.sum ≤ A.back.size
  /-- appended so far ≤ counted -/
  room : ∀ pid, pid < ns.length → (content pid).length ≤ ns.getD pid 0
  /-- the slice header: still a window of the shared array, at the carved offset -/
  hdr : ∀ pid, pid < ns.length → A.sl[pid]? = some (.view (startOf ns pid) (content pid).length)
  /-- the window holds exactly the appended elements -/
  cells : ∀ pid, pid < ns.length → ∀ i x, (content pid)[i]? = some x →
    A.back[startOf ns pid + i]? = some (some x)

/-- windows are pairwise disjoint: `[start p, start p + count p)` and `[start q, start q + count q)` -/
theorem windows_disjoint (ns : List Nat) {p q i j : Nat} (hpq : p ≠ q)
    (hi : i < ns.getD p 0) (hj : j < ns.getD q 0) : startOf ns p + i ≠ startOf ns q + j := by
  rcases Nat.lt_or_gt_of_ne hpq with h | h
  · have := startOf_add_le ns h; omega
  · have := startOf_add_le ns h; omega

theorem exact_init {α : Type} (stale : List α) (ns : List Nat) (tot : Nat) (htot : tot = ns.sum) :
    Exact { back := mkBacking stale tot, sl := carve 0 ns } ns (fun _ => []) where
  notBad := rfl
  len := length_carve 0 ns
  total := by rw [← htot]; exact length_mkBacking stale tot
  room := by intro pid _; simp
  hdr := by
    intro pid h
    show (carve 0 ns)[pid]? = _
    rw [getElem?_carve 0 ns pid h]; simp
  cells := by intro pid _ i x h; simp at h

theorem exact_push {α : Type} [Inhabited α] (A : Arena α) (ns : List Nat) (content content' : Nat → List α)
    (pid : Nat) (x : α) (hA : Exact A ns content) (hpid : pid < ns.length)
    (hroom : (content pid).length < ns.getD pid 0)
    (h1 : content' pid = content pid ++ [x]) (h2 : ∀ q, q ≠ pid → content' q = content q) :
    Exact (A.push pid x) ns content' := by
  have hidx : startOf ns pid + (content pid).length < A.back.size := by
    have := startOf_add_le_sum ns pid
    have := hA.total
    omega
  have hpush : A.push pid x =
      { A with back := A.back.setIfInBounds (startOf ns pid + (content pid).length) (some x),
               sl := A.sl.set pid (.view (startOf ns pid) ((content pid).length + 1)) } := by
    unfold Arena.push
    rw [hA.hdr pid hpid]
    simp only [hidx, if_true]
  rw [hpush]
  refine ⟨hA.notBad, by simpa using hA.len, by simpa using hA.total, ?_, ?_, ?_⟩
  · intro q hq
    by_cases e : q = pid
    · subst e; rw [h1]; simp only [List.length_append, List.length_singleton]; omega
    · rw [h2 q e]; exact hA.room q hq
  · intro q hq
    show (A.sl.set pid _)[q]? = _
    by_cases e : q = pid
    · subst e
      rw [List.getElem?_set_self (by rw [hA.len]; exact hq), h1]
      simp
    · rw [List.getElem?_set_ne (fun h => e h.symm), h2 q e]
      exact hA.hdr q hq
  · intro q hq i y hy
    show (A.back.setIfInBounds _ _)[startOf ns q + i]? = _
    by_cases e : q = pid
    · subst e
      rw [h1] at hy
      by_cases hi : i < (content q).length
      · rw [List.getElem?_append_left hi] at hy
        rw [Array.getElem?_setIfInBounds_ne (by omega)]
        exact hA.cells q hq i y hy
      · have hlen : i < (content q ++ [x]).length := by
          apply Classical.byContradiction
          intro hn
          rw [List.getElem?_eq_none (by omega)] at hy
          exact absurd hy (by simp)
        have hi' : i = (content q).length := by simp at hlen; omega
        subst hi'
        rw [Array.getElem?_setIfInBounds_self, if_pos hidx]
        simp at hy
        rw [hy]
    · rw [h2 q e] at hy
      have hi : i < (content q).length := by
        apply Classical.byContradiction
        intro hn
        rw [List.getElem?_eq_none (by omega)] at hy
        exact absurd hy (by simp)
      have hr := hA.room q hq
      have := windows_disjoint ns (i := (content pid).length) (j := i) (fun h => e h.symm) hroom (by omega)
      rw [Array.getElem?_setIfInBounds_ne this]
      exact hA.cells q hq i y hy

theorem exact_pushAll {α : Type} [Inhabited α] (xs : List α) (A : Arena α) (ns : List Nat)
    (content content' : Nat → List α) (pid : Nat) (hA : Exact A ns content) (hpid : pid < ns.length)
    (hroom : (content pid).length + xs.length ≤ ns.getD pid 0)
    (h1 : content' pid = content pid ++ xs) (h2 : ∀ q, q ≠ pid → content' q = content q) :
    Exact (A.pushAll pid xs) ns content' := by
  induction xs generalizing A content with
  | nil =>
    have : content' = content := by
      funext q
      by_cases e : q = pid
      · subst e; simpa using h1
      · exact h2 q e
    rw [this]; exact hA
  | cons x xs ih =>
    show Exact ((A.push pid x).pushAll pid xs) ns content'
    have hlen : (x :: xs).length = xs.length + 1 := rfl
    apply ih (A.push pid x) (fun q => if q = pid then content pid ++ [x] else content q)
    · exact exact_push A ns content _ pid x hA hpid (by omega) (by simp) (by intro q e; simp [e])
    · simp only [if_true, List.length_append, List.length_singleton]; omega
    · simp [h1]
    · intro q e; simp [e, h2 q e]

theorem exact_read {α : Type} [Inhabited α] (A : Arena α) (ns : List Nat) (content : Nat → List α)
    (pid : Nat) (hA : Exact A ns content) (hpid : pid < ns.length) : A.read pid = content pid := by
  unfold Arena.read
  rw [hA.hdr pid hpid]
  show readCells A.back (startOf ns pid) (content pid).length = content pid
  unfold readCells
  have hfit : startOf ns pid + (content pid).length ≤ A.back.size := by
    have := startOf_add_le_sum ns pid
    have := hA.total
    have := hA.room pid hpid
    omega
  apply List.ext_getElem?
  intro i
  rw [List.getElem?_map, Array.getElem?_toList, Array.getElem?_extract]
  by_cases hi : i < (content pid).length
  · rw [if_pos (by omega)]
    have hx : (content pid)[i]? = some ((content pid)[i]) := List.getElem?_eq_getElem hi
    rw [hA.cells pid hpid i _ hx, hx]
    rfl
  · rw [if_neg (by omega), List.getElem?_eq_none (by omega)]
    rfl

/-! ### splitting the location stream by `numLocs` -/

theorem splitLocs_events (evs : List Ev) :
    splitLocs (evs.flatMap Ev.locs) (evs.map Ev.cell) = evs.map Ev.entry := by
  induction evs with
  | nil => rfl
  | cons e evs ih =>
    simp only [List.flatMap_cons, List.map_cons, splitLocs, Ev.cell, Ev.entry]
    rw [List.take_left', List.drop_left']
    · rw [ih]
    · rfl
    · rfl

end Zap.Arr
