/-
  ZapProofs.WriterLemmasLayoutStored: `Layout.decStoredDoc` (on the `ByteArray`) accepts
  what its list-level twin `Writer.decodeStoredDocL` accepts, with the same result, provided
  Layout's array snappy decoder agrees with `Codec.snappyDecode` on the record's block; and
  the record written by `encodeStoredDoc` decodes to the document.
-/
import ZapProofs.WriterLemmasBA
import ZapProofs.WriterLemmasStored
import ZapProofs.WriterLemmasLayoutPost
import ZapProofs.CodecLemmasContent
import ZapProofs.WriterLemmasLayoutDefs
open Zap Zap.Codec Zap.Layout Zap.Writer Zap.Writer.BA Zap.Writer.Uv Zap.Writer.Stored Zap.Writer.LP Zap.Writer.LayoutDefs

namespace Zap.Writer.LS

theorem uvAllGo_sim (what : String) : ∀ (fuel : Nat) (bs : Bytes) (acc : Array Nat) (ms : List Nat),
    uvAllL fuel bs = some ms → uvAll.go what fuel bs acc = .ok (acc.toList ++ ms) := by
  intro fuel
  induction fuel with
  | zero =>
    intro bs acc ms h
    simp only [uvAllL, Option.some.injEq] at h
    subst h
    simp [uvAll.go, pure, Except.pure]
  | succ fuel ih =>
    intro bs acc ms h
    cases bs with
    | nil =>
      simp only [uvAllL, Option.some.injEq] at h
      subst h
      simp [uvAll.go, pure, Except.pure]
    | cons x xs =>
      simp only [uvAllL] at h
      simp only [uvAll.go]
      cases hu : uvarint (x :: xs) with
      | none => simp [hu] at h
      | some vr =>
        obtain ⟨v, rest⟩ := vr
        simp only [hu] at h ⊢
        cases hr : uvAllL fuel rest with
        | none => simp [hr] at h
        | some ms' =>
          simp only [hr, Option.map_some, Option.some.injEq] at h
          subst h
          rw [ih rest (acc.push v) ms' hr]
          simp

theorem storedGo_sim (doc : Nat) (raw : Bytes) : ∀ (fuel : Nat) (g : List Nat) (acc : Array StoredVal)
    (vals : List StoredVal), storedGroups raw fuel g = some vals →
    decStoredDoc.go doc raw.toArray fuel g acc = .ok (acc.toList ++ vals) := by
  intro fuel
  induction fuel with
  | zero =>
    intro g acc vals h
    simp only [storedGroups, Option.some.injEq] at h
    subst h
    simp [decStoredDoc.go, pure, Except.pure]
  | succ fuel ih =>
    intro g acc vals h
    match g, h with
    | [], h =>
      simp only [storedGroups, Option.some.injEq] at h
      subst h
      simp [decStoredDoc.go, pure, Except.pure]
    | fid :: typ :: o :: l :: nap :: rest, h =>
      simp only [storedGroups] at h
      simp only [decStoredDoc.go]
      by_cases h1 : rest.length < nap
      · rw [if_pos h1] at h; cases h
      · rw [if_neg h1] at h ⊢
        by_cases h2 : o + l > raw.length
        · rw [if_pos h2] at h; cases h
        · rw [if_neg h2] at h
          rw [if_neg (by simpa using h2)]
          cases hr : storedGroups raw fuel (rest.drop nap) with
          | none => simp [hr] at h
          | some vals' =>
            simp only [hr, Option.map_some, Option.some.injEq] at h
            subst h
            rw [ih _ _ vals' hr]
            simp
    | [_], h => simp [storedGroups] at h
    | [_, _], h => simp [storedGroups] at h
    | [_, _, _], h => simp [storedGroups] at h
    | [_, _, _, _], h => simp [storedGroups] at h

/-- The array snappy decoder of Layout agrees with `Codec.snappyDecode` on the block
    `[s, e)` of `b`. -/
def FastAgrees (b : ByteArray) (s e : Nat) : Prop :=
  ∀ raw, snappyDecode (region b s e) = some raw → ∃ rawB, snappyFast b s e = .ok rawB ∧ ofBA rawB = raw

theorem decStoredDoc_sim (c : Ctx) (doc off : Nat) (sd : StoredDoc)
    (hfast : ∀ s e, storedBlockL (ofBA c.b) off = some (s, e) → FastAgrees c.b s e)
    (h : decodeStoredDocL (ofBA c.b) off = some sd) : decStoredDoc c doc off = .ok sd := by
  unfold decodeStoredDocL at h
  unfold storedBlockL at hfast
  cases h1 : uv64 ((ofBA c.b).drop off) with
  | none => simp [h1] at h
  | some vr =>
    obtain ⟨ml, r1⟩ := vr
    obtain ⟨p1, e1, rfl, _, _⟩ := uv_sim c.b off ml r1 h1
    simp only [h1] at h
    cases h2 : uv64 ((ofBA c.b).drop p1) with
    | none => simp [h2] at h
    | some vr =>
      obtain ⟨dl, r2⟩ := vr
      obtain ⟨p, e2, rfl, _, hp⟩ := uv_sim c.b p1 dl r2 h2
      simp only [h2] at h
      simp only [h1, h2] at hfast
      by_cases hlen : ml + dl > ((ofBA c.b).drop p).length
      · rw [if_pos hlen] at h; cases h
      · rw [if_neg hlen] at h
        rw [List.length_drop, ofBA_length] at hlen
        have hmeta : List.take ml (List.drop p (ofBA c.b)) = region c.b p (p + ml) := by
          unfold region; rw [List.drop_take]; congr 1; omega
        rw [hmeta] at h hfast
        cases h3 : uvAllL (ml + 1) (region c.b p (p + ml)) with
        | none => simp [h3] at h
        | some ms =>
          simp only [h3] at h hfast
          cases ms with
          | nil => simp at h
          | cons idLen groups =>
            simp only at h
            by_cases hid : idLen > dl
            · rw [if_pos hid] at h; cases h
            · rw [if_neg hid] at h
              have hdat : List.take dl (List.drop ml (List.drop p (ofBA c.b)))
                  = region c.b (p + ml) (p + ml + dl) := by
                unfold region; rw [List.drop_drop, List.drop_take]; congr 1; omega
              rw [hdat] at h
              have hdrop : List.drop idLen (region c.b (p + ml) (p + ml + dl))
                  = region c.b (p + ml + idLen) (p + ml + dl) := region_drop _ _ _ _
              have htake : List.take idLen (region c.b (p + ml) (p + ml + dl))
                  = region c.b (p + ml) (p + ml + idLen) := region_take _ _ _ _ (by omega)
              rw [hdrop, htake] at h
              cases h4 : snappyDecode (region c.b (p + ml + idLen) (p + ml + dl)) with
              | none => simp [h4] at h
              | some raw =>
                simp only [h4] at h
                have hpos : (ofBA c.b).length - ((ofBA c.b).drop p).length = p := by
                  rw [List.length_drop, ofBA_length]; omega
                simp only [hpos] at hfast
                obtain ⟨rawB, f1, f2⟩ := hfast _ _ rfl raw h4
                cases h5 : storedGroups raw (groups.length + 1) groups with
                | none => simp [h5] at h
                | some vals =>
                  simp only [h5, Option.some.injEq] at h
                  subst h
                  have hml : (region c.b p (p + ml)).length = ml := by
                    rw [region_length]; omega
                  have hua := uvAllGo_sim (toString "stored doc " ++ toString doc ++ toString " meta")
                    ((region c.b p (p + ml)).length + 1) _ #[] _ (by rw [hml]; exact h3)
                  unfold decStoredDoc
                  simp only [e1, e2, bind, Except.bind, Layout.slice]
                  rw [if_neg (by omega)]
                  simp only [pure, Except.pure, ofBA_extract]
                  rw [if_neg (by omega)]
                  unfold uvAll
                  rw [hua]
                  simp only [List.nil_append]
                  rw [if_neg hid, if_neg (by omega)]
                  simp only [f1, f2, storedGo_sim doc raw _ _ #[] vals h5]
                  simp

/-- Layout's array snappy decoder decodes what `compress` produces, wherever it sits in a
    file. -/
def FastDecodes (compress : Bytes → Bytes) (x : Bytes) : Prop :=
  ∀ (b : ByteArray) (s : Nat), s + (compress x).length ≤ b.size →
    region b s (s + (compress x).length) = compress x →
    ∃ rawB, snappyFast b s (s + (compress x).length) = .ok rawB ∧ ofBA rawB = x

theorem take_drop_middle (A M P : Bytes) :
    ((A ++ (M ++ P)).take (A.length + M.length)).drop A.length = M := by
  rw [List.take_append, List.take_of_length_le (by omega), List.drop_left]
  simp

theorem storedBlockL_written (compress : Bytes → Bytes) (sd : StoredDoc)
    (hsz : (encodeStoredDoc compress sd).length < 2 ^ 64) (pre post : Bytes) :
    let A := pre ++ putUvarint (storedMeta sd).length ++
      putUvarint (sd.id.length + (compress (storedData sd.vals)).length) ++ storedMeta sd ++ sd.id
    storedBlockL (pre ++ encodeStoredDoc compress sd ++ post) pre.length
      = some (A.length, A.length + (compress (storedData sd.vals)).length) ∧
    pre ++ encodeStoredDoc compress sd ++ post = A ++ (compress (storedData sd.vals) ++ post) := by
  intro A
  refine ⟨?_, by simp [A, encodeStoredDoc]⟩
  unfold encodeStoredDoc at hsz
  simp only [List.length_append] at hsz
  unfold storedBlockL encodeStoredDoc
  simp only [List.append_assoc]
  rw [drop_length_append, uv64_putUvarint _ (by omega)]
  simp only
  rw [uv64_putUvarint _ (by omega)]
  simp only
  rw [List.take_left]
  have hmeta : storedMeta sd = putUvarints (sd.id.length :: metaVals 0 sd.vals) := by
    rw [putUvarints_cons]; rfl
  have hfuel : (sd.id.length :: metaVals 0 sd.vals).length ≤ (storedMeta sd).length + 1 := by
    rw [hmeta]
    have := putUvarints_length_ge (sd.id.length :: metaVals 0 sd.vals)
    omega
  have huv := uvAllL_putUvarints (sd.id.length :: metaVals 0 sd.vals) _ hfuel
  rw [← hmeta] at huv
  rw [huv]
  simp only [A, List.length_append, Option.some.injEq, Prod.mk.injEq]
  omega

/-- A stored-document record written by the writer model decodes, with Layout's own
    `decStoredDoc` on the file's `ByteArray`, to the document. -/
theorem layout_stored_roundtrip (compress : Bytes → Bytes)
    (hsn : ∀ x, snappyDecode (compress x) = some x) (sd : StoredDoc)
    (hfd : FastDecodes compress (storedData sd.vals))
    (hsz : (encodeStoredDoc compress sd).length < 2 ^ 64) (c : Ctx) (doc : Nat) (pre post : Bytes)
    (hb : ofBA c.b = pre ++ encodeStoredDoc compress sd ++ post) :
    decStoredDoc c doc pre.length = .ok sd := by
  apply decStoredDoc_sim c doc pre.length sd
  · intro s e hblk raw hdec
    obtain ⟨h1, h2⟩ := storedBlockL_written compress sd hsz pre post
    generalize pre ++ putUvarint (storedMeta sd).length ++
      putUvarint (sd.id.length + (compress (storedData sd.vals)).length) ++ storedMeta sd ++ sd.id
      = A at h1 h2
    rw [hb, h1] at hblk
    simp only [Option.some.injEq, Prod.mk.injEq] at hblk
    obtain ⟨rfl, rfl⟩ := hblk
    have hreg : region c.b A.length (A.length + (compress (storedData sd.vals)).length)
        = compress (storedData sd.vals) := by
      unfold region
      rw [hb, h2]
      exact take_drop_middle _ _ _
    rw [hreg, hsn] at hdec
    cases hdec
    refine hfd c.b _ ?_ hreg
    rw [← ofBA_length, hb, h2]
    simp only [List.length_append]
    omega
  · rw [hb]
    exact decodeStoredDocL_roundtrip compress hsn sd hsz pre post

/-! ### the hypothesis `FastDecodes` holds for the all-literals compressor -/

theorem ofBA_push (out : ByteArray) (u : UInt8) : ofBA (out.push u) = ofBA out ++ [u.toNat] := by
  rw [ofBA_eq, ofBA_eq]
  simp [ByteArray.push]

theorem ofBA_emptyWithCapacity (n : Nat) : ofBA (ByteArray.emptyWithCapacity n) = [] := by
  rw [ofBA_eq]; rfl

def pushAll (out : ByteArray) (x : Bytes) : ByteArray := x.foldl (fun o y => o.push (UInt8.ofNat y)) out

/-- The main loop of `snappyFast` on a run of one-byte literals. -/
theorem loop_lit (b : ByteArray) (lim : Nat) (hlim : lim ≤ b.size)
    (body : ByteArray × Nat → R (ForInStep (ByteArray × Nat)))
    (hdone : ∀ out p, p ≥ lim → body (out, p) = .ok (.done (out, p)))
    (hstep : ∀ out p, p + 2 ≤ lim → (b.get! p).toNat = 0 →
      body (out, p) = .ok (.yield (out.push (b.get! (p + 1)), p + 2))) :
    ∀ (x : Bytes) (fuel p : Nat) (out : ByteArray), p ≤ lim →
      region b p lim = x.flatMap (fun y => [0, y]) → x.length ≤ fuel →
      loopN body fuel (out, p) = .ok (pushAll out x, lim) ∧ ofBA (pushAll out x) = ofBA out ++ x := by
  intro x
  induction x with
  | nil =>
    intro fuel p out hp hr _
    have : p = lim := by
      have := (region_eq_nil_iff b p lim hlim).mp (by simpa using hr)
      omega
    subst this
    cases fuel with
    | zero => exact ⟨by simp [loopN, pure, Except.pure, pushAll], by simp [pushAll]⟩
    | succ fuel =>
      exact ⟨by simp [loopN, hdone out p (Nat.le_refl _), pure, Except.pure, pushAll], by simp [pushAll]⟩
  | cons y ys ih =>
    intro fuel p out hp hr hf
    cases fuel with
    | zero => simp at hf
    | succ fuel =>
      have hlen := congrArg List.length hr
      rw [region_length, Nat.min_eq_left hlim] at hlen
      simp only [List.flatMap_cons, List.length_append, List.length_cons, List.length_nil] at hlen
      have hp2 : p + 2 ≤ lim := by omega
      rw [region_cons b p lim (by omega) (by omega), region_cons b (p + 1) lim (by omega) (by omega)] at hr
      simp only [List.flatMap_cons, List.cons_append, List.nil_append, List.cons.injEq] at hr
      obtain ⟨h0, h1, hrest⟩ := hr
      obtain ⟨e1, e2⟩ := ih fuel (p + 2) (out.push (b.get! (p + 1))) hp2 hrest (by simpa using hf)
      have hy : UInt8.ofNat y = b.get! (p + 1) := by rw [← h1]; simp
      have hpa : pushAll out (y :: ys) = pushAll (out.push (b.get! (p + 1))) ys := by
        simp [pushAll, hy]
      rw [hpa]
      refine ⟨?_, ?_⟩
      · simp only [loopN, hstep out p hp2 h0]
        exact e1
      · rw [e2, ofBA_push, h1]
        simp

theorem fastDecodes_snappyLit (x : Bytes) (hx : x.length ≤ 2 ^ 32) : FastDecodes snappyLit x := by
  intro b s hsz hreg
  have hul := uv64_putUvarint x.length (by omega) (x.flatMap (fun y => [0, y]))
  have hreg' : region b s (s + (snappyLit x).length)
      = putUvarint x.length ++ x.flatMap (fun y => [0, y]) := hreg
  rw [← hreg'] at hul
  have hlen : (snappyLit x).length = (putUvarint x.length).length + 2 * x.length := by
    rw [snappyLit, List.length_append, lit_length]
  obtain ⟨p0, e1, e2, e3, e4, e5⟩ := uvLim_sim b s _ _ _ hul
  have key := fun body hd hs => loop_lit b (s + (snappyLit x).length) hsz body hd hs x
    (s + (snappyLit x).length - s) p0 (ByteArray.emptyWithCapacity x.length) e4 e2.symm
    (by omega)
  unfold snappyFast
  simp only [bind, Except.bind, e1, pure, Except.pure]
  rw [if_neg (by omega), if_neg (by omega), forIn_range_eq]
  have f2 : ofBA (pushAll (ByteArray.emptyWithCapacity x.length) x) = x := by
    have := (key (fun st => if st.2 ≥ s + (snappyLit x).length then .ok (.done st)
        else .ok (.yield (st.1.push (b.get! (st.2 + 1)), st.2 + 2)))
      (by intro out p hp; simp only [hp, if_true])
      (by intro out p hp _; rw [if_neg (by simp only; omega)])).2
    rwa [ofBA_emptyWithCapacity, List.nil_append] at this
  rw [(key _ ?hd ?hs).1]
  · have hsize : (pushAll (ByteArray.emptyWithCapacity x.length) x).size = x.length := by
      rw [← ofBA_length, f2]
    refine ⟨_, ?_, f2⟩
    simp only [hsize, ne_eq, not_true_eq_false, if_false]
    rw [ofBA_extract, hreg, snappyDecode_snappyLit, f2]
    simp
  case hd =>
    intro out p hp
    simp only [hp, if_true]
  case hs =>
    intro out p hp h0
    simp only [h0]
    rw [if_neg (by omega)]
    have hlt : ¬ (s + (snappyLit x).length < p + 1 + 1) := by omega
    simp [Std.Legacy.Range.forIn_eq_forIn_range', Std.Legacy.Range.size, pure, Except.pure, hlt, bind,
      Except.bind]

end Zap.Writer.LS
