/-
  ZapProofs.WriterLemmasStored: a stored-document record written as
  `writeStoredFields` writes it decodes (list-level twin of `Layout.decStoredDoc`) to the
  document that went in.
-/
import ZapModel.Writer
import ZapProofs.CodecLemmas
import ZapProofs.WriterLemmasUv

namespace Zap.Writer.Stored
open Zap Zap.Codec Zap.Writer Zap.Writer.Uv

theorem uvAllL_putUvarints (xs : List Nat) :
    ∀ fuel, xs.length ≤ fuel → uvAllL fuel (putUvarints xs) = some xs := by
  induction xs with
  | nil => intro fuel _; cases fuel <;> simp [uvAllL, putUvarints]
  | cons x xs ih =>
    intro fuel hf
    cases fuel with
    | zero => simp at hf
    | succ fuel =>
      rw [putUvarints_cons]
      have hne : putUvarint x ++ putUvarints xs ≠ [] := by simp [putUvarint_ne_nil]
      unfold uvAllL
      split
      · contradiction
      · rw [uvarint_putUvarint]
        simp only
        rw [ih fuel (by simpa using hf)]
        rfl

theorem metaVals_length_ge (vs : List StoredVal) : ∀ curr, vs.length ≤ (metaVals curr vs).length := by
  induction vs with
  | nil => intro _; simp [metaVals]
  | cons v vs ih =>
    intro curr
    have := ih (curr + v.val.length)
    simp only [metaVals, valMeta, List.length_append, List.length_cons, List.length_nil]
    omega

theorem storedData_append (a b : List StoredVal) : storedData (a ++ b) = storedData a ++ storedData b := by
  simp [storedData]

theorem storedGroups_metaVals (vs : List StoredVal) :
    ∀ (done : List StoredVal) (fuel : Nat), vs.length ≤ fuel →
      storedGroups (storedData (done ++ vs)) fuel (metaVals (storedData done).length vs) = some vs := by
  induction vs with
  | nil => intro done fuel _; cases fuel <;> simp [storedGroups, metaVals]
  | cons v vs ih =>
    intro done fuel hf
    cases fuel with
    | zero => simp at hf
    | succ fuel =>
      have hraw : storedData (done ++ v :: vs) = storedData done ++ (v.val ++ storedData vs) := by
        simp [storedData]
      simp only [metaVals, valMeta, List.cons_append, List.nil_append, storedGroups]
      rw [if_neg (by simp), if_neg (by rw [hraw]; simp only [List.length_append]; omega)]
      have hdrop : List.drop v.ap.length (v.ap ++ metaVals ((storedData done).length + v.val.length) vs)
          = metaVals (storedData (done ++ [v])).length vs := by
        rw [List.drop_left]
        congr 1
        simp [storedData]
      have hih := ih (done ++ [v]) fuel (by simpa using hf)
      rw [List.append_assoc, List.singleton_append] at hih
      rw [hdrop, hih]
      simp only [Option.map_some, Option.some.injEq, List.cons.injEq, and_true]
      rw [hraw, List.drop_left, List.take_left, List.take_left]

/-- The record, as the reader sees it after the two length varints. -/
theorem decodeStoredDocL_roundtrip (compress : Bytes → Bytes)
    (hsn : ∀ x, snappyDecode (compress x) = some x) (sd : StoredDoc)
    (hsz : (encodeStoredDoc compress sd).length < 2 ^ 64) (pre post : Bytes) :
    decodeStoredDocL (pre ++ encodeStoredDoc compress sd ++ post) pre.length = some sd := by
  unfold encodeStoredDoc at hsz
  simp only [List.length_append] at hsz
  unfold decodeStoredDocL encodeStoredDoc
  simp only [List.append_assoc]
  rw [drop_length_append, uv64_putUvarint _ (by omega)]
  simp only
  rw [uv64_putUvarint _ (by omega)]
  simp only
  rw [if_neg (by simp only [List.length_append]; omega)]
  rw [List.take_left]
  have hmeta : storedMeta sd = putUvarints (sd.id.length :: metaVals 0 sd.vals) := by
    rw [putUvarints_cons]; rfl
  have hfuel : (sd.id.length :: metaVals 0 sd.vals).length ≤ (storedMeta sd).length + 1 := by
    rw [hmeta]
    have := putUvarints_length_ge (sd.id.length :: metaVals 0 sd.vals)
    omega
  have huv := uvAllL_putUvarints (sd.id.length :: metaVals 0 sd.vals) _ hfuel
  rw [← hmeta] at huv
  rw [huv]
  simp only
  rw [if_neg (by omega), List.drop_left]
  have hdat : List.take (sd.id.length + (compress (storedData sd.vals)).length)
      (sd.id ++ (compress (storedData sd.vals) ++ post)) = sd.id ++ compress (storedData sd.vals) := by
    rw [← List.append_assoc, List.take_append_of_le_length (by simp), List.take_of_length_le (by simp)]
  rw [hdat, List.drop_left, hsn]
  simp only
  have hg := storedGroups_metaVals sd.vals [] ((metaVals 0 sd.vals).length + 1)
    (by have := metaVals_length_ge sd.vals 0; omega)
  simp only [List.nil_append] at hg
  have h0 : (storedData []).length = 0 := rfl
  rw [h0] at hg
  rw [hg, List.take_left]

end Zap.Writer.Stored
