/-
  ZapProofs.CodecLemmasGen: part D, facts about the machine-generated pure
  functions in `Zap.Gen` (ZapModel/Gen/Pure.lean).
-/
import ZapModel.Gen.Pure

namespace Zap.Codec
open Zap

/-! ### bit-level helpers (Nat) -/

theorem mask31_eq : Gen.mask31Bits = 2 ^ 31 - 1 := by decide

theorem mask31_and (x : Nat) : Gen.mask31Bits &&& x = x % 2 ^ 31 := by
  rw [mask31_eq, Nat.and_comm, Nat.and_two_pow_sub_one_eq_mod]

/-- `(a <<< i) ||| b` is `a * 2^i + b` when `b` fits below the shift. -/
theorem shl_or_eq_add (a i b : Nat) (h : b < 2 ^ i) : (a <<< i) ||| b = a * 2 ^ i + b := by
  rw [← Nat.shiftLeft_add_eq_or_of_lt h, Nat.shiftLeft_eq]

/-- Masking with the top two bits of a 64-bit word. -/
theorem and_topmask (x : Nat) :
    x &&& Gen.FSTValEncodingMask = ((x / 2 ^ 62) % 4) * 2 ^ 62 := by
  have h1 : (x &&& Gen.FSTValEncodingMask) / 2 ^ 62 = (x / 2 ^ 62) % 4 := by
    rw [← Nat.shiftRight_eq_div_pow, Nat.shiftRight_and_distrib]
    have : Gen.FSTValEncodingMask >>> 62 = 2 ^ 2 - 1 := by decide
    rw [this, Nat.and_two_pow_sub_one_eq_mod, Nat.shiftRight_eq_div_pow]
  have h2 : (x &&& Gen.FSTValEncodingMask) % 2 ^ 62 = 0 := by
    rw [Nat.and_mod_two_pow]
    have : Gen.FSTValEncodingMask % 2 ^ 62 = 0 := by decide
    rw [this, Nat.and_zero]
  have := Nat.div_add_mod (x &&& Gen.FSTValEncodingMask) (2 ^ 62)
  omega

/-- Arithmetic form of the 1-hit encoding (all inputs). -/
theorem encode1Hit_eq (d n : Nat) :
    Gen.FSTValEncode1Hit d n = 2 ^ 63 + (n % 2 ^ 31) * 2 ^ 31 + d % 2 ^ 31 := by
  unfold Gen.FSTValEncode1Hit
  rw [mask31_and, mask31_and]
  have hn : n % 2 ^ 31 < 2 ^ 31 := Nat.mod_lt _ (by decide)
  have hd : d % 2 ^ 31 < 2 ^ 31 := Nat.mod_lt _ (by decide)
  generalize n % 2 ^ 31 = a at hn
  generalize d % 2 ^ 31 = b at hd
  have e1 : (a <<< 31) % Gen.u64 = a * 2 ^ 31 := by
    rw [Nat.shiftLeft_eq]
    apply Nat.mod_eq_of_lt
    show _ < 2 ^ 64
    omega
  have e2 : Gen.FSTValEncoding1Hit = 2 ^ 63 := by decide
  have h63 := Nat.two_pow_add_eq_or_of_lt (i := 63) (b := a * 2 ^ 31) (by omega) 1
  rw [Nat.mul_one] at h63
  rw [e1, e2, ← h63]
  have e3 : 2 ^ 63 + a * 2 ^ 31 = (2 ^ 32 + a) <<< 31 := by
    rw [Nat.shiftLeft_eq]; omega
  rw [e3, shl_or_eq_add _ _ _ hd, Nat.shiftLeft_eq]

/-! ### D. generated pure functions -/

theorem onehit_roundtrip (d n : Nat) (hd : d < 2 ^ 31) (hn : n < 2 ^ 31) :
    Gen.FSTValDecode1Hit (Gen.FSTValEncode1Hit d n) = (d, n) := by
  unfold Gen.FSTValDecode1Hit
  rw [mask31_and, mask31_and, Nat.shiftRight_eq_div_pow, encode1Hit_eq]
  rw [Nat.mod_eq_of_lt hd, Nat.mod_eq_of_lt hn]
  ext <;> simp only <;> omega

theorem onehit_tagged (d n : Nat) :
    Gen.FSTValEncode1Hit d n &&& Gen.FSTValEncodingMask = Gen.FSTValEncoding1Hit := by
  rw [and_topmask, encode1Hit_eq]
  have hn : n % 2 ^ 31 < 2 ^ 31 := Nat.mod_lt _ (by decide)
  have hd : d % 2 ^ 31 < 2 ^ 31 := Nat.mod_lt _ (by decide)
  have e2 : Gen.FSTValEncoding1Hit = 2 ^ 63 := by decide
  rw [e2]
  omega

theorem general_not_onehit (off : Nat) (h : off < 2 ^ 62) :
    off &&& Gen.FSTValEncodingMask ≠ Gen.FSTValEncoding1Hit := by
  rw [and_topmask]
  have e2 : Gen.FSTValEncoding1Hit = 2 ^ 63 := by decide
  rw [e2]
  omega

/-- Stronger: a general (offset) value is tagged `FSTValEncodingGeneral`. -/
theorem general_tagged (off : Nat) (h : off < 2 ^ 62) :
    off &&& Gen.FSTValEncodingMask = Gen.FSTValEncodingGeneral := by
  rw [and_topmask]
  show _ = 0
  omega

theorem encodeFreqHasLocs_eq (f : Nat) (b : Bool) (hf : f < 2 ^ 63) :
    Gen.encodeFreqHasLocs f b = 2 * f + (if b then 1 else 0) := by
  unfold Gen.encodeFreqHasLocs
  have e1 : (f <<< 1) % Gen.u64 = f <<< 1 := by
    apply Nat.mod_eq_of_lt
    rw [Nat.shiftLeft_eq]
    show _ < 2 ^ 64
    omega
  simp only [e1]
  cases b with
  | false => simp [Nat.shiftLeft_eq]; omega
  | true =>
    simp only [if_true]
    rw [shl_or_eq_add f 1 1 (by decide)]
    omega

theorem freqHasLocs_roundtrip (f : Nat) (b : Bool) (hf : f < 2 ^ 63) :
    Gen.decodeFreqHasLocs (Gen.encodeFreqHasLocs f b) = (f, b) := by
  rw [encodeFreqHasLocs_eq f b hf]
  unfold Gen.decodeFreqHasLocs
  rw [Nat.shiftRight_eq_div_pow, Nat.and_one_is_mod]
  cases b with
  | false =>
    simp
  | true =>
    have h1 : (2 * f + 1) / 2 ^ 1 = f := by omega
    have h2 : (2 * f + 1) % 2 = 1 := by omega
    simp [h1, h2]

theorem shl32_or_eq (s d : Nat) (hs : s < 2 ^ 32) (hd : d < 2 ^ 32) :
    ((s <<< 32) % Gen.u64) ||| d = s * 2 ^ 32 + d := by
  have e1 : (s <<< 32) % Gen.u64 = s <<< 32 := by
    apply Nat.mod_eq_of_lt
    rw [Nat.shiftLeft_eq]
    show _ < 2 ^ 64
    omega
  rw [e1, shl_or_eq_add _ _ _ hd]

theorem encodeSynonym_eq (s d : Nat) (hs : s < 2 ^ 32) (hd : d < 2 ^ 32) :
    Gen.encodeSynonym s d = s * 2 ^ 32 + d := shl32_or_eq s d hs hd

theorem getVectorCode_eq (s d : Nat) (hs : s < 2 ^ 32) (hd : d < 2 ^ 32) :
    Gen.getVectorCode s d = s * 2 ^ 32 + d := shl32_or_eq s d hs hd

theorem synonym_roundtrip (s d : Nat) (hs : s < 2 ^ 32) (hd : d < 2 ^ 32) :
    Gen.decodeSynonym (Gen.encodeSynonym s d) = (s, d) := by
  rw [encodeSynonym_eq s d hs hd]
  unfold Gen.decodeSynonym
  rw [Nat.shiftRight_eq_div_pow]
  show ((s * 2 ^ 32 + d) / 2 ^ 32 % 2 ^ 32, (s * 2 ^ 32 + d) % 2 ^ 32) = (s, d)
  ext <;> simp only <;> omega

theorem synonym_order (s d s' d' : Nat) (hs : s < 2 ^ 32) (hd : d < 2 ^ 32)
    (hs' : s' < 2 ^ 32) (hd' : d' < 2 ^ 32) :
    Gen.encodeSynonym s d < Gen.encodeSynonym s' d' ↔ s < s' ∨ (s = s' ∧ d < d') := by
  rw [encodeSynonym_eq s d hs hd, encodeSynonym_eq s' d' hs' hd']
  omega

theorem synonym_injective (s d s' d' : Nat) (hs : s < 2 ^ 32) (hd : d < 2 ^ 32)
    (hs' : s' < 2 ^ 32) (hd' : d' < 2 ^ 32)
    (h : Gen.encodeSynonym s d = Gen.encodeSynonym s' d') : s = s' ∧ d = d' := by
  rw [encodeSynonym_eq s d hs hd, encodeSynonym_eq s' d' hs' hd'] at h
  omega

theorem vectorCode_order (doc sc doc' sc' : Nat) (hs : doc < 2 ^ 32) (hd : sc < 2 ^ 32)
    (hs' : doc' < 2 ^ 32) (hd' : sc' < 2 ^ 32) :
    Gen.getVectorCode doc sc < Gen.getVectorCode doc' sc' ↔
      doc < doc' ∨ (doc = doc' ∧ sc < sc') := by
  rw [getVectorCode_eq doc sc hs hd, getVectorCode_eq doc' sc' hs' hd']
  omega

theorem vectorCode_doc (doc sc : Nat) (hs : doc < 2 ^ 32) (hd : sc < 2 ^ 32) :
    Gen.getVectorCode doc sc >>> 32 = doc := by
  rw [getVectorCode_eq doc sc hs hd, Nat.shiftRight_eq_div_pow]
  omega

theorem vectorCode_score (doc sc : Nat) (hs : doc < 2 ^ 32) (hd : sc < 2 ^ 32) :
    Gen.getVectorCode doc sc % 2 ^ 32 = sc := by
  rw [getVectorCode_eq doc sc hs hd]
  omega

/-! #### getChunkSize -/

theorem getChunkSize_pos (m c n s : Nat) (h : Gen.getChunkSize m c n = .ok s) : 0 < s := by
  unfold Gen.getChunkSize at h
  simp only at h
  repeat' split at h
  all_goals first
    | (injection h with h; omega)
    | (exact absurd h (by simp))

/-- The literal statement (no 64-bit bound on `n`); false in the model, see
    `getChunkSize_ok_of_valid_full_counterexample`. -/
def getChunkSize_ok_of_valid_full : Prop :=
  ∀ (m c n : Nat), (1 ≤ m ∧ m ≤ 1026) → 0 < n → c ≤ n → ∃ s, Gen.getChunkSize m c n = .ok s

theorem getChunkSize_ok_of_valid_full_counterexample : ¬ getChunkSize_ok_of_valid_full := by
  intro h
  obtain ⟨s, hs⟩ := h 1026 (1024 * (2 ^ 64 - 1)) (1024 * (2 ^ 64 - 1)) (by decide) (by decide)
    (Nat.le_refl _)
  have : Gen.getChunkSize 1026 (1024 * (2 ^ 64 - 1)) (1024 * (2 ^ 64 - 1))
      = .error "ErrChunkSizeZero" := by rfl
  rw [this] at hs
  exact absurd hs (by simp)

/-- With Go's `uint64` range for the cardinality the statement holds. -/
theorem getChunkSize_ok_of_valid (m c n : Nat) (hm : 1 ≤ m ∧ m ≤ 1026) (hn : 0 < n)
    (hc : c ≤ n) (hc64 : c < 2 ^ 64) : ∃ s, Gen.getChunkSize m c n = .ok s := by
  unfold Gen.getChunkSize
  simp only
  have e : (c / 1024 + 1) % Gen.u64 = c / 1024 + 1 := by
    apply Nat.mod_eq_of_lt
    show _ < 2 ^ 64
    omega
  have hdiv : ¬ (n / (c / 1024 + 1) = 0) := by
    have : 0 < n / (c / 1024 + 1) := Nat.div_pos (by omega) (by omega)
    omega
  rw [e]
  repeat' split
  all_goals first
    | exact ⟨_, rfl⟩
    | omega

theorem chunk_index_lt (m c n s d : Nat) (h : Gen.getChunkSize m c n = .ok s) (hd : d < n) :
    d / s < (n - 1) / s + 1 := by
  have := getChunkSize_pos m c n s h
  have : d / s ≤ (n - 1) / s := Nat.div_le_div_right (by omega)
  omega

end Zap.Codec
