/-
  ZapProofs.CodecLemmasInt: parts B (chunk tables) and C (chunked int coder
  round trip, coder reuse).
-/
import ZapProofs.CodecLemmas

namespace Zap.Codec
open Zap

/-! ### B. chunk tables -/

def offsFrom (s : Nat) : List Nat → List Nat
  | [] => []
  | l :: ls => (s + l) :: offsFrom (s + l) ls

theorem endOffsets_foldl (lens : List Nat) : ∀ (acc : List Nat) (s : Nat),
    (lens.foldl (fun (acc : List Nat × Nat) l => (acc.1 ++ [acc.2 + l], acc.2 + l)) (acc, s)).1
      = acc ++ offsFrom s lens := by
  induction lens with
  | nil => intro acc s; simp [offsFrom]
  | cons l ls ih => intro acc s; simp [List.foldl_cons, ih, offsFrom]

theorem endOffsets_eq_offsFrom (lens : List Nat) : endOffsets lens = offsFrom 0 lens := by
  unfold endOffsets
  rw [endOffsets_foldl]; simp

theorem sumList_cons (x : Nat) (xs : List Nat) : sumList (x :: xs) = x + sumList xs := rfl

theorem offsFrom_eq_map (lens : List Nat) : ∀ s,
    offsFrom s lens = (List.range lens.length).map (fun i => s + sumList (lens.take (i + 1))) := by
  induction lens with
  | nil => intro s; simp [offsFrom]
  | cons l ls ih =>
    intro s
    rw [offsFrom, ih, List.length_cons, List.range_succ_eq_map, List.map_cons, List.map_map]
    congr 1
    · simp [sumList]
      intro a _; omega

/-- `endOffsets lens` are the prefix sums of `lens`. -/
theorem endOffsets_prefix_sums (lens : List Nat) :
    endOffsets lens = (List.range lens.length).map (fun i => sumList (lens.take (i + 1))) := by
  rw [endOffsets_eq_offsFrom, offsFrom_eq_map]
  simp

theorem endOffsets_length (lens : List Nat) : (endOffsets lens).length = lens.length := by
  rw [endOffsets_prefix_sums]; simp

theorem endOffsets_getD (lens : List Nat) (c : Nat) (h : c < lens.length) :
    (endOffsets lens).getD c 0 = sumList (lens.take (c + 1)) := by
  rw [endOffsets_prefix_sums]
  simp [List.getD_eq_getElem?_getD, h]

/-- `readChunkBoundary` on the end-offset table: chunk `c` occupies
    `[sum lens[0..c), sum lens[0..c])`. -/
theorem chunkBoundary_endOffsets (lens : List Nat) (c : Nat) (h : c < lens.length) :
    chunkBoundary (endOffsets lens) c = (sumList (lens.take c), sumList (lens.take (c + 1))) := by
  unfold chunkBoundary
  rw [endOffsets_getD lens c h]
  cases c with
  | zero => simp [sumList]
  | succ c =>
    rw [if_neg (by omega), Nat.add_sub_cancel, endOffsets_getD lens c (by omega)]

/-- Slicing the concatenation at the prefix sums returns the `c`-th segment. -/
theorem segment_extract (segs : List Bytes) : ∀ (c : Nat) (h : c < segs.length),
    (segs.flatten.drop (sumList ((segs.map List.length).take c))).take
      (sumList ((segs.map List.length).take (c + 1)) - sumList ((segs.map List.length).take c))
      = segs[c] := by
  induction segs with
  | nil => intro c h; simp at h
  | cons seg segs ih =>
    intro c h
    cases c with
    | zero => simp [sumList]
    | succ c =>
      have h' : c < segs.length := by simpa using h
      simp only [List.map_cons, List.take_succ_cons, sumList_cons, List.flatten_cons,
        List.getElem_cons_succ]
      rw [Nat.add_sub_add_left, List.drop_append, List.drop_eq_nil_of_le (by omega),
        List.nil_append, Nat.add_sub_cancel_left]
      exact ih c h'

/-- B, combined: with `final` the concatenation of segments whose lengths
    are `lens`, the decoder's slice for chunk `c` is the `c`-th segment. -/
theorem chunk_slice (segs : List Bytes) (c : Nat) (h : c < segs.length) :
    let be := chunkBoundary (endOffsets (segs.map List.length)) c
    (segs.flatten.drop be.1).take (be.2 - be.1) = segs[c] := by
  simp only
  rw [chunkBoundary_endOffsets _ c (by simpa using h)]
  exact segment_extract segs c h

/-! ### C. chunked int coder -/

/-- The values added for documents of chunk `k`, in order. -/
def chunkVals (cs : Nat) (p : List (Nat × List Nat)) (k : Nat) : List Nat :=
  (p.filter (fun a => a.1 / cs = k)).flatMap (·.2)

def chunkEnc (cs : Nat) (p : List (Nat × List Nat)) (k : Nat) : Bytes :=
  putUvarints (chunkVals cs p k)

theorem chunkVals_snoc (cs : Nat) (p : List (Nat × List Nat)) (a : Nat × List Nat) (k : Nat) :
    chunkVals cs (p ++ [a]) k = chunkVals cs p k ++ (if a.1 / cs = k then a.2 else []) := by
  unfold chunkVals
  rw [List.filter_append, List.flatMap_append]
  congr 1
  by_cases h : a.1 / cs = k <;> simp [h]

theorem chunkVals_eq_nil (cs : Nat) (p : List (Nat × List Nat)) (k : Nat)
    (h : ∀ a ∈ p, a.1 / cs ≠ k) : chunkVals cs p k = [] := by
  unfold chunkVals
  have : p.filter (fun a => a.1 / cs = k) = [] := by
    rw [List.filter_eq_nil_iff]
    intro a ha
    simpa using h a ha
  rw [this]; rfl

theorem chunkEnc_snoc_ne (cs : Nat) (p : List (Nat × List Nat)) (a : Nat × List Nat) (k : Nat)
    (h : a.1 / cs ≠ k) : chunkEnc cs (p ++ [a]) k = chunkEnc cs p k := by
  simp [chunkEnc, chunkVals_snoc, h]

theorem chunkEnc_snoc_eq (cs : Nat) (p : List (Nat × List Nat)) (a : Nat × List Nat) :
    chunkEnc cs (p ++ [a]) (a.1 / cs) = chunkEnc cs p (a.1 / cs) ++ putUvarints a.2 := by
  simp [chunkEnc, chunkVals_snoc, putUvarints_append]

theorem chunkEnc_eq_nil (cs : Nat) (p : List (Nat × List Nat)) (k : Nat)
    (h : ∀ a ∈ p, a.1 / cs ≠ k) : chunkEnc cs p k = [] := by
  simp [chunkEnc, chunkVals_eq_nil cs p k h, putUvarints]

theorem lens_set (f : Nat → Nat) (n curr c' : Nat) (hcur : curr < c')
    (hz : ∀ k, curr < k → k < c' → f k = 0) :
    ((List.range n).map (fun k => if k < curr then f k else 0)).set curr (f curr)
      = (List.range n).map (fun k => if k < c' then f k else 0) := by
  apply List.ext_getElem (by simp)
  intro i h1 h2
  simp only [List.getElem_set, List.getElem_map, List.getElem_range]
  by_cases hi : curr = i
  · subst hi; simp [hcur]
  · simp only [hi, if_false]
    by_cases h3 : i < curr
    · simp [h3, (by omega : i < c')]
    · by_cases h4 : i < c'
      · simp [h3, h4, hz i (by omega) h4]
      · simp [h3, h4]

theorem flatten_range_succ (f : Nat → Bytes) (m : Nat) :
    ((List.range (m + 1)).map f).flatten = ((List.range m).map f).flatten ++ f m := by
  simp [List.range_succ]

theorem flatten_range_extend (f : Nat → Bytes) (m m' : Nat) (h : m ≤ m')
    (hz : ∀ k, m ≤ k → k < m' → f k = []) :
    ((List.range m').map f).flatten = ((List.range m).map f).flatten := by
  induction m' with
  | zero =>
    have : m = 0 := by omega
    subst this; rfl
  | succ k ih =>
    by_cases hk : m = k + 1
    · subst hk; rfl
    · have hmk : m ≤ k := by omega
      rw [flatten_range_succ, hz k hmk (by omega), List.append_nil]
      exact ih hmk (fun j h1 h2 => hz j h1 (by omega))

/-- State invariant of the coder after the adds `p` (non-decreasing docs). -/
structure Inv (cs n : Nat) (p : List (Nat × List Nat)) (st : IntCoder) : Prop where
  hcs : st.chunkSize = cs
  hcurr : st.curr < n
  hle : ∀ a ∈ p, a.1 / cs ≤ st.curr
  hbuf : st.buf = chunkEnc cs p st.curr
  hfinal : st.final = ((List.range st.curr).map (chunkEnc cs p)).flatten
  hlens : st.lens =
    (List.range n).map (fun k => if k < st.curr then (chunkEnc cs p k).length else 0)

theorem Inv_new (cs maxDoc : Nat) : Inv cs (maxDoc / cs + 1) [] (IntCoder.new cs maxDoc) where
  hcs := rfl
  hcurr := by simp [IntCoder.new]
  hle := by simp
  hbuf := by simp [IntCoder.new, chunkEnc, chunkVals, putUvarints]
  hfinal := by simp [IntCoder.new]
  hlens := by
    simp only [IntCoder.new, Nat.not_lt_zero, if_false]
    rw [List.map_const']; simp

theorem Inv_add {cs n : Nat} {p : List (Nat × List Nat)} {st : IntCoder} (a : Nat × List Nat)
    (inv : Inv cs n p st) (hge : st.curr ≤ a.1 / cs) (hlt : a.1 / cs < n) :
    Inv cs n (p ++ [a]) (st.add a.1 a.2) ∧ (st.add a.1 a.2).curr = a.1 / cs := by
  obtain ⟨hcs, hcurr, hle, hbuf, hfinal, hlens⟩ := inv
  by_cases h : a.1 / cs = st.curr
  · -- same chunk
    have hadd : st.add a.1 a.2 = { st with buf := st.buf ++ putUvarints a.2 } := by
      simp [IntCoder.add, hcs, h]
    rw [hadd]
    refine ⟨⟨hcs, hcurr, ?_, ?_, ?_, ?_⟩, h.symm⟩
    · intro b hb
      rcases List.mem_append.mp hb with hb | hb
      · exact hle b hb
      · have : b = a := by simpa using hb
        subst this; simp only; omega
    · simp only
      rw [← h, chunkEnc_snoc_eq, h, hbuf]
    · simp only
      rw [hfinal]
      congr 1
      apply List.map_congr_left
      intro k hk
      have hk : k < st.curr := List.mem_range.mp hk
      rw [chunkEnc_snoc_ne]; omega
    · simp only
      rw [hlens]
      apply List.map_congr_left
      intro k _
      by_cases hk : k < st.curr
      · simp only [hk, if_true]; rw [chunkEnc_snoc_ne]; omega
      · simp [hk]
  · -- new chunk
    have hgt : st.curr < a.1 / cs := by omega
    have hadd : st.add a.1 a.2 =
        { chunkSize := st.chunkSize, lens := st.lens.set st.curr st.buf.length,
          curr := a.1 / cs, buf := putUvarints a.2, final := st.final ++ st.buf } := by
      simp [IntCoder.add, IntCoder.close, hcs, h]
    have hnil : ∀ k, st.curr < k → chunkEnc cs p k = [] := by
      intro k hk
      apply chunkEnc_eq_nil
      intro b hb
      have := hle b hb
      omega
    rw [hadd]
    refine ⟨⟨hcs, hlt, ?_, ?_, ?_, ?_⟩, rfl⟩
    · intro b hb
      rcases List.mem_append.mp hb with hb | hb
      · have := hle b hb; simp only; omega
      · have : b = a := by simpa using hb
        subst this; simp only; omega
    · simp only
      rw [chunkEnc_snoc_eq, hnil _ hgt, List.nil_append]
    · simp only
      rw [hfinal, hbuf, ← flatten_range_succ]
      have e1 : (List.range (a.1 / cs)).map (chunkEnc cs (p ++ [a]))
          = (List.range (a.1 / cs)).map (chunkEnc cs p) := by
        apply List.map_congr_left
        intro k hk
        have hk : k < a.1 / cs := List.mem_range.mp hk
        rw [chunkEnc_snoc_ne]; omega
      rw [e1]
      exact (flatten_range_extend _ (st.curr + 1) (a.1 / cs) (by omega)
        (fun k h1 _ => hnil k (by omega))).symm
    · simp only
      rw [hlens, hbuf]
      have := lens_set (fun k => (chunkEnc cs p k).length) n st.curr (a.1 / cs) hgt
        (fun k h1 _ => by simp [hnil k h1])
      rw [this]
      apply List.map_congr_left
      intro k _
      by_cases hk : k < a.1 / cs
      · simp only [hk, if_true]; rw [chunkEnc_snoc_ne]; omega
      · simp [hk]

/-- Non-decreasing document numbers. -/
def DocsMono (adds : List (Nat × List Nat)) : Prop :=
  adds.Pairwise (fun a b => a.1 ≤ b.1)

theorem Inv_foldl {cs maxDoc : Nat} (rest : List (Nat × List Nat)) :
    ∀ (p : List (Nat × List Nat)) (st : IntCoder), Inv cs (maxDoc / cs + 1) p st →
      DocsMono rest → (∀ a ∈ rest, st.curr ≤ a.1 / cs) → (∀ a ∈ rest, a.1 ≤ maxDoc) →
      Inv cs (maxDoc / cs + 1) (p ++ rest) (rest.foldl (fun c a => c.add a.1 a.2) st) := by
  induction rest with
  | nil => intro p st inv _ _ _; simpa using inv
  | cons a rest ih =>
    intro p st inv hmono hge hmax
    have hpw := List.pairwise_cons.mp hmono
    obtain ⟨inv', hc'⟩ := Inv_add a inv (hge a (by simp))
      (by have := hmax a (by simp)
          have : a.1 / cs ≤ maxDoc / cs := Nat.div_le_div_right this
          omega)
    have := ih (p ++ [a]) (st.add a.1 a.2) inv' hpw.2
      (by intro b hb
          rw [hc']
          exact Nat.div_le_div_right (hpw.1 b hb))
      (fun b hb => hmax b (by simp [hb]))
    simpa [List.append_assoc] using this

/-- The coder state after all adds and `Close`. -/
theorem closed_state (cs maxDoc : Nat) (adds : List (Nat × List Nat))
    (hmono : DocsMono adds) (hmax : ∀ a ∈ adds, a.1 ≤ maxDoc) :
    let st := (adds.foldl (fun c a => c.add a.1 a.2) (IntCoder.new cs maxDoc)).close
    let segs := (List.range (maxDoc / cs + 1)).map (chunkEnc cs adds)
    st.lens = segs.map List.length ∧ st.final = segs.flatten := by
  have inv := Inv_foldl (cs := cs) (maxDoc := maxDoc) adds [] _ (Inv_new cs maxDoc) hmono
    (by intro a _; simp [IntCoder.new]) hmax
  rw [List.nil_append] at inv
  obtain ⟨_, hcurr, hle, hbuf, hfinal, hlens⟩ := inv
  generalize adds.foldl (fun c a => c.add a.1 a.2) (IntCoder.new cs maxDoc) = st at *
  have hnil : ∀ k, st.curr < k → chunkEnc cs adds k = [] := by
    intro k hk
    apply chunkEnc_eq_nil
    intro b hb
    have := hle b hb
    omega
  simp only [IntCoder.close]
  constructor
  · rw [hlens, hbuf]
    have := lens_set (fun k => (chunkEnc cs adds k).length) (maxDoc / cs + 1) st.curr
      (maxDoc / cs + 1) hcurr (fun k h1 _ => by simp [hnil k h1])
    rw [this, List.map_map]
    apply List.map_congr_left
    intro k hk
    have hk : k < maxDoc / cs + 1 := List.mem_range.mp hk
    simp [hk]
  · rw [hfinal, hbuf, ← flatten_range_succ]
    exact (flatten_range_extend _ (st.curr + 1) (maxDoc / cs + 1) (by omega)
      (fun k h1 _ => hnil k (by omega))).symm

/-- C. Decoding chunk `c` yields exactly the values added for the documents
    of chunk `c`, in order. (`0 < cs` is not needed: with `cs = 0` every
    document falls in chunk 0.) -/
theorem intcoder_roundtrip' (cs maxDoc : Nat) (adds : List (Nat × List Nat))
    (hmono : DocsMono adds) (hmax : ∀ a ∈ adds, a.1 ≤ maxDoc) :
    intDecodeChunks (intCoderEncode cs maxDoc adds)
      = some ((List.range (maxDoc / cs + 1)).map (fun c =>
          (adds.filter (fun a => a.1 / cs = c)).flatMap (·.2))) := by
  obtain ⟨hlens, hfinal⟩ := closed_state cs maxDoc adds hmono hmax
  unfold intCoderEncode IntCoder.write
  generalize (adds.foldl (fun c a => c.add a.1 a.2) (IntCoder.new cs maxDoc)).close = st at *
  have hn : st.lens.length = maxDoc / cs + 1 := by rw [hlens]; simp
  unfold intDecodeChunks
  rw [List.append_assoc, uvarint_putUvarint]
  simp only
  have hr := readN_putUvarints (endOffsets st.lens) st.final
  rw [endOffsets_length] at hr
  rw [hr]
  simp only [Option.some.injEq]
  rw [hn]
  apply List.map_congr_left
  intro c hc
  have hc : c < maxDoc / cs + 1 := List.mem_range.mp hc
  have := chunk_slice ((List.range (maxDoc / cs + 1)).map (chunkEnc cs adds)) c (by simpa using hc)
  rw [← hlens, ← hfinal] at this
  rw [this]
  simp only [List.getElem_map, List.getElem_range, chunkEnc]
  rw [uvarints_putUvarints]
  rfl

theorem intcoder_roundtrip (cs maxDoc : Nat) (adds : List (Nat × List Nat)) (_hcs : 0 < cs)
    (hmono : DocsMono adds) (hmax : ∀ a ∈ adds, a.1 ≤ maxDoc) :
    intDecodeChunks (intCoderEncode cs maxDoc adds)
      = some ((List.range (maxDoc / cs + 1)).map (fun c =>
          (adds.filter (fun a => a.1 / cs = c)).flatMap (·.2))) :=
  intcoder_roundtrip' cs maxDoc adds hmono hmax

/-! ### C'. reuse (`Reset`, `SetChunkSize`)

  Go keeps `chunkLens` as a slice: `SetChunkSize` re-slices it (`[:total]`) when
  the capacity suffices, so elements between `len` and `cap` survive. They are
  modelled by `spare`. `Write` turns the lengths into end offsets *in place*
  (`modifyLengthsToEndOffsets`), modelled by `writeMut`. -/

def IntCoder.reset (c : IntCoder) : IntCoder :=
  { c with final := [], curr := 0, buf := [], lens := c.lens.map (fun _ => 0) }

structure ReCoder where
  c : IntCoder
  /-- backing array of `chunkLens` beyond its length (capacity - length) -/
  spare : List Nat
  deriving DecidableEq

def ReCoder.fresh (cs maxDoc : Nat) : ReCoder := ⟨IntCoder.new cs maxDoc, []⟩

def ReCoder.add (r : ReCoder) (doc : Nat) (vals : List Nat) : ReCoder :=
  { r with c := r.c.add doc vals }

def ReCoder.close (r : ReCoder) : ReCoder := { r with c := r.c.close }

/-- the side effect of `Write` on the coder -/
def ReCoder.writeMut (r : ReCoder) : ReCoder :=
  { r with c := { r.c with lens := endOffsets r.c.lens } }

def ReCoder.reset (r : ReCoder) : ReCoder := { r with c := r.c.reset }

def ReCoder.setChunkSize (r : ReCoder) (cs maxDoc : Nat) : ReCoder :=
  let total := maxDoc / cs + 1
  if r.c.lens.length + r.spare.length < total then
    { c := { r.c with chunkSize := cs, lens := List.replicate total 0 }, spare := [] }
  else
    { c := { r.c with chunkSize := cs, lens := (r.c.lens ++ r.spare).take total },
      spare := (r.c.lens ++ r.spare).drop total }

/-- `SetChunkSize` on a coder whose slice has no spare capacity. -/
def IntCoder.setChunkSize (c : IntCoder) (cs maxDoc : Nat) : IntCoder :=
  (ReCoder.setChunkSize ⟨c, []⟩ cs maxDoc).c

/-- Operations respecting the documented protocol: `SetChunkSize` only on a
    new coder or immediately after `Reset` (`resetSet`). -/
inductive Op where
  | add (doc : Nat) (vals : List Nat)
  | close
  | write
  | reset
  | resetSet (cs maxDoc : Nat)

def ReCoder.step (r : ReCoder) : Op → ReCoder
  | .add d v => r.add d v
  | .close => r.close
  | .write => r.writeMut
  | .reset => r.reset
  | .resetSet cs m => r.reset.setChunkSize cs m

def ReCoder.run (r : ReCoder) (ops : List Op) : ReCoder := ops.foldl ReCoder.step r

def SpareZero (r : ReCoder) : Prop := ∀ x ∈ r.spare, x = 0

/-- Everything `Reset` promises, plus zeroed spare capacity. -/
structure Clean (r : ReCoder) : Prop where
  hfinal : r.c.final = []
  hcurr : r.c.curr = 0
  hbuf : r.c.buf = []
  hlens : ∀ x ∈ r.c.lens, x = 0
  hspare : SpareZero r

theorem clean_reset (r : ReCoder) (h : SpareZero r) : Clean r.reset where
  hfinal := rfl
  hcurr := rfl
  hbuf := rfl
  hlens := by simp [ReCoder.reset, IntCoder.reset]
  hspare := h

theorem all_zero_eq_replicate (l : List Nat) (h : ∀ x ∈ l, x = 0) :
    l = List.replicate l.length 0 :=
  List.eq_replicate_iff.mpr ⟨rfl, h⟩

theorem setChunkSize_clean (r : ReCoder) (cs maxDoc : Nat) (h : Clean r) :
    (r.setChunkSize cs maxDoc).c = IntCoder.new cs maxDoc ∧ Clean (r.setChunkSize cs maxDoc) := by
  obtain ⟨hfinal, hcurr, hbuf, hlens, hspare⟩ := h
  have hall : ∀ x ∈ r.c.lens ++ r.spare, x = 0 := by
    intro x hx
    rcases List.mem_append.mp hx with hx | hx
    · exact hlens x hx
    · exact hspare x hx
  unfold ReCoder.setChunkSize
  simp only
  split
  · refine ⟨?_, ⟨hfinal, hcurr, hbuf, ?_, ?_⟩⟩
    · simp [IntCoder.new, hfinal, hcurr, hbuf]
    · simp
    · intro x hx; simp at hx
  · rename_i hcap
    have htake : (r.c.lens ++ r.spare).take (maxDoc / cs + 1)
        = List.replicate (maxDoc / cs + 1) 0 := by
      have h1 := all_zero_eq_replicate ((r.c.lens ++ r.spare).take (maxDoc / cs + 1))
        (fun x hx => hall x (List.mem_of_mem_take hx))
      rw [List.length_take, List.length_append] at h1
      rw [Nat.min_eq_left (by omega)] at h1
      exact h1
    refine ⟨?_, ⟨hfinal, hcurr, hbuf, ?_, ?_⟩⟩
    · simp [IntCoder.new, hfinal, hcurr, hbuf, htake]
    · simp only [htake]; intro x hx; exact (List.mem_replicate.mp hx).2
    · intro x hx; exact hall x (List.mem_of_mem_drop hx)

theorem spareZero_step (r : ReCoder) (op : Op) (h : SpareZero r) : SpareZero (r.step op) := by
  cases op with
  | add d v => exact h
  | close => exact h
  | write => exact h
  | reset => exact h
  | resetSet cs m => exact (setChunkSize_clean _ cs m (clean_reset r h)).2.hspare

theorem spareZero_run (ops : List Op) : ∀ (r : ReCoder), SpareZero r → SpareZero (r.run ops) := by
  induction ops with
  | nil => intro r h; exact h
  | cons op ops ih => intro r h; exact ih _ (spareZero_step r op h)

/-- Reuse: after ANY protocol-respecting history, `Reset` + `SetChunkSize`
    gives exactly a fresh coder. -/
theorem reuse_eq_new (cs0 maxDoc0 : Nat) (ops : List Op) (cs maxDoc : Nat) :
    (((ReCoder.fresh cs0 maxDoc0).run ops).reset.setChunkSize cs maxDoc).c
      = IntCoder.new cs maxDoc :=
  (setChunkSize_clean _ cs maxDoc
    (clean_reset _ (spareZero_run ops _ (by intro x hx; simp [ReCoder.fresh] at hx)))).1

/-- ... hence encodes like a fresh coder. -/
theorem reuse_encode (cs0 maxDoc0 : Nat) (ops : List Op) (cs maxDoc : Nat)
    (adds : List (Nat × List Nat)) :
    ((adds.foldl (fun c a => c.add a.1 a.2)
        (((ReCoder.fresh cs0 maxDoc0).run ops).reset.setChunkSize cs maxDoc).c).close).write
      = intCoderEncode cs maxDoc adds := by
  rw [reuse_eq_new]; rfl

/-- `Reset` alone (same chunk size and table size) also gives a fresh coder. -/
theorem reset_eq_new (c : IntCoder) (maxDoc : Nat)
    (h : c.lens.length = maxDoc / c.chunkSize + 1) :
    c.reset = IntCoder.new c.chunkSize maxDoc := by
  simp [IntCoder.reset, IntCoder.new, List.map_const', h]

theorem lens_length_add (c : IntCoder) (d : Nat) (v : List Nat) :
    (c.add d v).lens.length = c.lens.length := by
  unfold IntCoder.add
  simp only
  split <;> simp [IntCoder.close]

theorem lens_length_close (c : IntCoder) : c.close.lens.length = c.lens.length := by
  simp [IntCoder.close]

/-- `Reset` after adds / close / write, without `SetChunkSize`. -/
theorem reset_after_use (cs maxDoc : Nat) (adds : List (Nat × List Nat)) :
    (ReCoder.writeMut ⟨(adds.foldl (fun c a => c.add a.1 a.2) (IntCoder.new cs maxDoc)).close, []⟩).c.reset
      = IntCoder.new cs maxDoc := by
  have hcs : ∀ (adds : List (Nat × List Nat)) (c : IntCoder),
      (adds.foldl (fun c a => c.add a.1 a.2) c).chunkSize = c.chunkSize ∧
      (adds.foldl (fun c a => c.add a.1 a.2) c).lens.length = c.lens.length := by
    intro adds
    induction adds with
    | nil => intro c; exact ⟨rfl, rfl⟩
    | cons a adds ih =>
      intro c
      rw [List.foldl_cons]
      obtain ⟨h1, h2⟩ := ih (c.add a.1 a.2)
      rw [h1, h2, lens_length_add]
      refine ⟨?_, rfl⟩
      unfold IntCoder.add
      simp only
      split <;> rfl
  obtain ⟨h1, h2⟩ := hcs adds (IntCoder.new cs maxDoc)
  have := reset_eq_new
    (ReCoder.writeMut ⟨(adds.foldl (fun c a => c.add a.1 a.2) (IntCoder.new cs maxDoc)).close, []⟩).c
    maxDoc
    (by simp only [ReCoder.writeMut, endOffsets_length, IntCoder.close, List.length_set]
        rw [h2, h1]; simp [IntCoder.new])
  rw [this]
  simp only [ReCoder.writeMut, IntCoder.close]
  rw [h1]
  rfl

/-- Protocol violation: `SetChunkSize` on a coder that was NOT reset leaves
    stale lengths in the spare capacity; a later grow makes them visible. -/
theorem setChunkSize_without_reset_is_wrong :
    let r := (((ReCoder.fresh 1 2).add 0 [1]).add 1 [1]).add 2 [1] |>.close
    ((r.setChunkSize 1 0).reset.setChunkSize 1 2).c ≠ IntCoder.new 1 2 := by
  have h1 : putUvarint 1 = [1] := putUvarint_lt (by decide)
  simp [ReCoder.fresh, ReCoder.add, ReCoder.close, ReCoder.reset, ReCoder.setChunkSize,
    IntCoder.add, IntCoder.close, IntCoder.new, IntCoder.reset, putUvarints, h1]

end Zap.Codec
