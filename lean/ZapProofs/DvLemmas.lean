/-
  ZapProofs.DvLemmas: the doc-value visit-state machine (`Seg.visitDocValues`)
  split into its two loops, the reader invariant, and what a visit returns.
-/
import ZapProofs.StoredLemmas

namespace Zap
namespace Dv

/-- Doc-value data of field id `fid` (empty when the field has none). -/
def dataOf (s : Seg) (fid : Nat) : List (Nat × List Bytes) :=
  ((s.fields.getD fid default).dv).getD []

/-- The terms recorded for `doc` in a field's doc-value data. -/
def recorded (data : List (Nat × List Bytes)) (doc : Nat) : List Bytes :=
  ((data.find? (·.1 = doc)).map (·.2)).getD []

/-- What one occurrence of name `n` in the field list contributes to a visit of
    `doc`: nothing for an unknown name or a field without doc values, otherwise
    the recorded terms, each tagged with `n`. -/
def fieldOut (s : Seg) (doc : Nat) (n : Name) : List (Name × Bytes) :=
  match s.fieldId? n with
  | none => []
  | some fid =>
    match (s.fields.getD fid default).dv with
    | none => []
    | some data => (recorded data doc).map (fun t => (n, t))

/-- First loop of `VisitDocValues`: one step of creating the readers. -/
def freshStep (s : Seg) (acc : List DvReader) (n : Name) : List DvReader :=
  match s.fieldId? n with
  | none => acc
  | some fid =>
    match (s.fields.getD fid default).dv with
    | none => acc
    | some _ => if acc.any (·.fid = fid) then
                  acc.map (fun r => if r.fid = fid then { r with curChunk := none, cache := [] } else r)
                else acc ++ [{ fid := fid, curChunk := none, cache := [] }]

def freshReaders (s : Seg) (fields : List Name) : List DvReader := fields.foldl (freshStep s) []

/-- Second loop of `VisitDocValues`: one step of visiting. -/
def visitStep (s : Seg) (cs doc : Nat) (acc : List DvReader × List (Name × Bytes)) (n : Name) :
    List DvReader × List (Name × Bytes) :=
  match s.fieldId? n with
  | none => acc
  | some fid =>
    match acc.1.find? (·.fid = fid) with
    | none => acc
    | some r =>
      let data := ((s.fields.getD fid default).dv).getD []
      let r' := if r.curChunk ≠ some (doc / cs) then { r with curChunk := some (doc / cs), cache := dvChunk data cs (doc / cs) } else r
      let terms := match r'.cache.find? (·.1 = doc) with
        | none => []
        | some p => p.2
      (acc.1.map (fun x => if x.fid = fid then r' else x), acc.2 ++ terms.map (fun t => (n, t)))

/-- The state a visit starts from after the segment-identity check. -/
def enter (tag : Nat) : Option DvState → DvState
  | none => DvState.fresh
  | some st => if st.segTag ≠ some tag then { segTag := some tag, readers := none } else st

def readersOf (s : Seg) (fields : List Name) (st0 : DvState) : List DvReader :=
  match st0.readers with
  | some rs => rs
  | none => freshReaders s fields

/-- `Seg.visitDocValues` is the composition of the pieces above. -/
theorem visit_eq (s : Seg) (tag cs : Nat) (st : Option DvState) (fields : List Name) (doc : Nat) :
    s.visitDocValues tag cs st fields doc =
      ({ enter tag st with
          readers := some (fields.foldl (visitStep s cs doc) (readersOf s fields (enter tag st), [])).1 },
       (fields.foldl (visitStep s cs doc) (readersOf s fields (enter tag st), [])).2) := by
  cases st <;> rfl

/-! ### The reader invariant -/

/-- Every loaded reader holds exactly the chunk it claims to hold. -/
def Valid (s : Seg) (cs : Nat) (rs : List DvReader) : Prop :=
  ∀ r ∈ rs, ∀ c, r.curChunk = some c → r.cache = dvChunk (dataOf s r.fid) cs c

/-- There is a reader for exactly those listed fields that are known and have
    doc values. -/
def Covers (s : Seg) (fields : List Name) (fids : List Nat) : Prop :=
  ∀ n ∈ fields, ∀ fid, s.fieldId? n = some fid →
    (fid ∈ fids ↔ ((s.fields.getD fid default).dv).isSome = true)

theorem freshStep_spec (s : Seg) (acc : List DvReader) (n : Name)
    (hnone : ∀ r ∈ acc, r.curChunk = none) :
    (∀ r ∈ freshStep s acc n, r.curChunk = none) ∧
    (∀ fid, fid ∈ (freshStep s acc n).map (·.fid) ↔
      fid ∈ acc.map (·.fid) ∨ (s.fieldId? n = some fid ∧ ((s.fields.getD fid default).dv).isSome = true)) := by
  unfold freshStep
  cases hf : s.fieldId? n with
  | none => exact ⟨hnone, by simp⟩
  | some fid =>
    dsimp only
    cases hdv : (s.fields.getD fid default).dv with
    | none =>
      dsimp only
      refine ⟨hnone, ?_⟩
      intro fid'
      simp only [Option.some.injEq]
      constructor
      · exact Or.inl
      · rintro (h | ⟨rfl, h⟩)
        · exact h
        · rw [hdv] at h; cases h
    | some data =>
      dsimp only
      by_cases hany : acc.any (·.fid = fid) = true
      · rw [if_pos hany]
        constructor
        · intro r hr
          obtain ⟨x, hx, rfl⟩ := List.mem_map.mp hr
          by_cases hxf : x.fid = fid
          · simp [hxf]
          · simp [hxf, hnone x hx]
        · intro fid'
          have hmap : (acc.map (fun r => if r.fid = fid then { r with curChunk := none, cache := [] } else r)).map (·.fid)
              = acc.map (·.fid) := by
            rw [List.map_map]
            apply List.map_congr_left
            intro x _
            by_cases hxf : x.fid = fid <;> simp [hxf]
          rw [hmap]
          constructor
          · exact Or.inl
          · rintro (h | ⟨h1, _⟩)
            · exact h
            · simp only [Option.some.injEq] at h1
              subst h1
              simp only [List.any_eq_true, decide_eq_true_eq] at hany
              obtain ⟨x, hx, hxf⟩ := hany
              exact List.mem_map.mpr ⟨x, hx, hxf⟩
      · rw [if_neg hany]
        constructor
        · intro r hr
          rcases List.mem_append.mp hr with h | h
          · exact hnone r h
          · simp at h; subst h; rfl
        · intro fid'
          simp only [List.map_append, List.mem_append, List.map_cons, List.map_nil, List.mem_singleton,
            Option.some.injEq]
          constructor
          · rintro (h | h)
            · exact Or.inl h
            · subst h; exact Or.inr ⟨rfl, by rw [hdv]; rfl⟩
          · rintro (h | ⟨h, _⟩)
            · exact Or.inl h
            · exact Or.inr h.symm

theorem foldl_freshStep_spec (s : Seg) : ∀ (fields : List Name) (acc : List DvReader),
    (∀ r ∈ acc, r.curChunk = none) →
    (∀ r ∈ fields.foldl (freshStep s) acc, r.curChunk = none) ∧
    (∀ fid, fid ∈ (fields.foldl (freshStep s) acc).map (·.fid) ↔
      fid ∈ acc.map (·.fid) ∨
        ∃ n ∈ fields, s.fieldId? n = some fid ∧ ((s.fields.getD fid default).dv).isSome = true)
  | [], acc, h => ⟨h, by simp⟩
  | n :: fields, acc, h => by
    obtain ⟨s1, s2⟩ := freshStep_spec s acc n h
    obtain ⟨i1, i2⟩ := foldl_freshStep_spec s fields (freshStep s acc n) s1
    refine ⟨i1, ?_⟩
    intro fid
    rw [List.foldl_cons, i2, s2]
    constructor
    · rintro ((h | h) | ⟨m, hm, h⟩)
      · exact Or.inl h
      · exact Or.inr ⟨n, by simp, h⟩
      · exact Or.inr ⟨m, by simp [hm], h⟩
    · rintro (h | ⟨m, hm, h⟩)
      · exact Or.inl (Or.inl h)
      · rcases List.mem_cons.mp hm with rfl | hm
        · exact Or.inl (Or.inr h)
        · exact Or.inr ⟨m, hm, h⟩

theorem freshReaders_valid (s : Seg) (cs : Nat) (fields : List Name) : Valid s cs (freshReaders s fields) := by
  intro r hr c hc
  have := (foldl_freshStep_spec s fields [] (by simp)).1 r hr
  rw [this] at hc; cases hc

theorem freshReaders_covers (s : Seg) (fields : List Name) :
    Covers s fields ((freshReaders s fields).map (·.fid)) := by
  intro n hn fid hf
  have := (foldl_freshStep_spec s fields [] (by simp)).2 fid
  unfold freshReaders
  rw [this]
  constructor
  · rintro (h | ⟨_, _, _, h⟩)
    · simp at h
    · exact h
  · intro h; exact Or.inr ⟨n, hn, hf, h⟩

/-- Looking a document up in its chunk is looking it up in the whole data. -/
theorem find_dvChunk (data : List (Nat × List Bytes)) (cs doc : Nat) :
    (dvChunk data cs (doc / cs)).find? (·.1 = doc) = data.find? (·.1 = doc) := by
  unfold dvChunk
  rw [List.find?_filter]
  congr 1
  funext p
  by_cases h : p.1 = doc
  · simp [h]
  · simp [h]

/-- The reader of a field after the (possible) chunk load of a visit. -/
def loadFor (s : Seg) (cs doc fid : Nat) (r : DvReader) : DvReader :=
  if r.curChunk ≠ some (doc / cs) then
    { r with curChunk := some (doc / cs), cache := dvChunk (((s.fields.getD fid default).dv).getD []) cs (doc / cs) }
  else r

theorem visitStep_none (s : Seg) (cs doc : Nat) (acc : List DvReader × List (Name × Bytes)) (n : Name)
    (hf : s.fieldId? n = none) : visitStep s cs doc acc n = acc := by
  simp only [visitStep, hf]

theorem visitStep_nofind (s : Seg) (cs doc : Nat) (acc : List DvReader × List (Name × Bytes)) (n : Name) (fid : Nat)
    (hf : s.fieldId? n = some fid) (h : acc.1.find? (·.fid = fid) = none) : visitStep s cs doc acc n = acc := by
  simp only [visitStep, hf, h]

theorem visitStep_found (s : Seg) (cs doc : Nat) (acc : List DvReader × List (Name × Bytes)) (n : Name) (fid : Nat)
    (r : DvReader) (hf : s.fieldId? n = some fid) (h : acc.1.find? (·.fid = fid) = some r) :
    visitStep s cs doc acc n =
      (acc.1.map (fun x => if x.fid = fid then loadFor s cs doc fid r else x),
       acc.2 ++ (match (loadFor s cs doc fid r).cache.find? (fun (p : Nat × List Bytes) => decide (p.1 = doc)) with
          | none => []
          | some p => p.2).map (fun t => (n, t))) := by
  simp only [visitStep, hf, h, loadFor]

theorem visitStep_spec (s : Seg) (cs doc : Nat) (rs : List DvReader) (out : List (Name × Bytes)) (n : Name)
    (hv : Valid s cs rs)
    (hc : ∀ fid, s.fieldId? n = some fid →
      (fid ∈ rs.map (·.fid) ↔ ((s.fields.getD fid default).dv).isSome = true)) :
    Valid s cs (visitStep s cs doc (rs, out) n).1 ∧
    (visitStep s cs doc (rs, out) n).1.map (·.fid) = rs.map (·.fid) ∧
    (visitStep s cs doc (rs, out) n).2 = out ++ fieldOut s doc n := by
  cases hf : s.fieldId? n with
  | none =>
    rw [visitStep_none s cs doc _ n hf]
    exact ⟨hv, rfl, by simp [fieldOut, hf]⟩
  | some fid =>
    have hc' := hc fid hf
    cases hfind : rs.find? (·.fid = fid) with
    | none =>
      rw [visitStep_nofind s cs doc _ n fid hf hfind]
      have hnot : fid ∉ rs.map (·.fid) := by
        intro hm
        obtain ⟨x, hx, hxf⟩ := List.mem_map.mp hm
        have := List.find?_eq_none.mp hfind x hx
        simp [hxf] at this
      have hdv : (s.fields.getD fid default).dv = none := by
        cases h : (s.fields.getD fid default).dv with
        | none => rfl
        | some d => exact absurd (hc'.2 (by rw [h]; rfl)) hnot
      exact ⟨hv, rfl, by simp only [fieldOut, hf, hdv, List.append_nil]⟩
    | some r =>
      rw [visitStep_found s cs doc _ n fid r hf hfind]
      have hr : r ∈ rs := List.mem_of_find?_eq_some hfind
      have hrf : r.fid = fid := by simpa using List.find?_some hfind
      have hsome : ((s.fields.getD fid default).dv).isSome = true :=
        hc'.1 (List.mem_map.mpr ⟨r, hr, hrf⟩)
      obtain ⟨data, hdata⟩ := Option.isSome_iff_exists.mp hsome
      have hdataOf : dataOf s fid = data := by simp only [dataOf, hdata, Option.getD_some]
      -- the reader after the (possible) load
      generalize hr' : loadFor s cs doc fid r = r'
      have hr'fid : r'.fid = fid := by
        subst hr'; unfold loadFor; split <;> simp [hrf]
      have hr'valid : ∀ c, r'.curChunk = some c → r'.cache = dvChunk data cs c := by
        subst hr'
        intro c hcur
        unfold loadFor at hcur ⊢
        by_cases hne : r.curChunk ≠ some (doc / cs)
        · rw [if_pos hne] at hcur ⊢
          simp only [Option.some.injEq] at hcur
          subst hcur; simp only [hdata, Option.getD_some]
        · rw [if_neg hne] at hcur ⊢
          have := hv r hr c hcur
          rwa [hrf, hdataOf] at this
      have hr'cache : r'.cache = dvChunk data cs (doc / cs) := by
        apply hr'valid
        subst hr'
        unfold loadFor
        by_cases hne : r.curChunk ≠ some (doc / cs)
        · rw [if_pos hne]
        · rw [if_neg hne]; simpa using hne
      refine ⟨?_, ?_, ?_⟩
      · intro x hx c hcur
        obtain ⟨y, hy, rfl⟩ := List.mem_map.mp hx
        by_cases hyf : y.fid = fid
        · simp only [hyf, if_true] at hcur ⊢
          rw [hr'fid, hdataOf]
          exact hr'valid c hcur
        · simp only [hyf, if_false] at hcur ⊢
          exact hv y hy c hcur
      · simp only [List.map_map]
        apply List.map_congr_left
        intro y _
        by_cases hyf : y.fid = fid <;> simp [hyf, hr'fid]
      · simp only [hr'cache, find_dvChunk, recorded, fieldOut, hf, hdata]
        congr 2
        cases data.find? (·.1 = doc) <;> rfl

theorem foldl_visitStep_spec (s : Seg) (cs doc : Nat) : ∀ (fs : List Name) (rs : List DvReader)
    (out : List (Name × Bytes)), Valid s cs rs → Covers s fs (rs.map (·.fid)) →
    Valid s cs (fs.foldl (visitStep s cs doc) (rs, out)).1 ∧
    (fs.foldl (visitStep s cs doc) (rs, out)).1.map (·.fid) = rs.map (·.fid) ∧
    (fs.foldl (visitStep s cs doc) (rs, out)).2 = out ++ fs.flatMap (fieldOut s doc)
  | [], rs, out, hv, _ => ⟨hv, rfl, by simp⟩
  | n :: fs, rs, out, hv, hc => by
    obtain ⟨v1, f1, o1⟩ := visitStep_spec s cs doc rs out n hv (fun fid hf => hc n (by simp) fid hf)
    have hc' : Covers s fs ((visitStep s cs doc (rs, out) n).1.map (·.fid)) := by
      rw [f1]; exact fun m hm => hc m (List.mem_cons_of_mem _ hm)
    have := foldl_visitStep_spec s cs doc fs (visitStep s cs doc (rs, out) n).1
      (visitStep s cs doc (rs, out) n).2 v1 hc'
    obtain ⟨v2, f2, o2⟩ := this
    rw [List.foldl_cons]
    refine ⟨v2, f2.trans f1, ?_⟩
    rw [o2, o1]; simp

/-! ### States -/

/-- The invariant of a visit state used with field list `fields`, chunk size
    `cs`, on segments identified by tags (`segOf`). -/
def Inv (segOf : Nat → Seg) (cs : Nat) (fields : List Name) : Option DvState → Prop
  | none => True
  | some st => ∀ tag rs, st.segTag = some tag → st.readers = some rs →
      Valid (segOf tag) cs rs ∧ Covers (segOf tag) fields (rs.map (·.fid))

theorem enter_ne (tag : Nat) (st : DvState) (h : st.segTag ≠ some tag) :
    enter tag (some st) = { segTag := some tag, readers := none } := by
  simp only [enter, if_pos h]

theorem enter_eq (tag : Nat) (st : DvState) (h : st.segTag = some tag) : enter tag (some st) = st := by
  simp [enter, h]

/-- The readers a visit on `segOf tag` works with are valid and cover the fields. -/
theorem readersOf_enter (segOf : Nat → Seg) (cs : Nat) (fields : List Name) (st : Option DvState)
    (hinv : Inv segOf cs fields st) (tag : Nat) :
    Valid (segOf tag) cs (readersOf (segOf tag) fields (enter tag st)) ∧
    Covers (segOf tag) fields ((readersOf (segOf tag) fields (enter tag st)).map (·.fid)) := by
  have hfresh := And.intro (freshReaders_valid (segOf tag) cs fields) (freshReaders_covers (segOf tag) fields)
  cases st with
  | none => exact hfresh
  | some st =>
    by_cases htag : st.segTag ≠ some tag
    · rw [enter_ne tag st htag]; exact hfresh
    · have htag' : st.segTag = some tag := by simpa using htag
      rw [enter_eq tag st htag']
      unfold readersOf
      cases hrs : st.readers with
      | none => exact hfresh
      | some rs => exact hinv tag rs htag' hrs

theorem enter_segTag (tag : Nat) (st : Option DvState) (t : Nat) (h : (enter tag st).segTag = some t) : t = tag := by
  cases st with
  | none => simp [enter, DvState.fresh] at h
  | some st =>
    by_cases htag : st.segTag ≠ some tag
    · rw [enter_ne tag st htag] at h; simp at h; exact h.symm
    · have htag' : st.segTag = some tag := by simpa using htag
      rw [enter_eq tag st htag', htag'] at h; simp at h; exact h.symm

theorem visit_out (segOf : Nat → Seg) (cs : Nat) (fields : List Name) (st : Option DvState)
    (hinv : Inv segOf cs fields st) (tag doc : Nat) :
    ((segOf tag).visitDocValues tag cs st fields doc).2 = fields.flatMap (fieldOut (segOf tag) doc) := by
  obtain ⟨hv, hc⟩ := readersOf_enter segOf cs fields st hinv tag
  rw [visit_eq]
  simpa using (foldl_visitStep_spec (segOf tag) cs doc fields _ [] hv hc).2.2

theorem visit_inv (segOf : Nat → Seg) (cs : Nat) (fields : List Name) (st : Option DvState)
    (hinv : Inv segOf cs fields st) (tag doc : Nat) :
    Inv segOf cs fields (some ((segOf tag).visitDocValues tag cs st fields doc).1) := by
  obtain ⟨hv, hc⟩ := readersOf_enter segOf cs fields st hinv tag
  obtain ⟨v, f, _⟩ := foldl_visitStep_spec (segOf tag) cs doc fields _ [] hv hc
  rw [visit_eq]
  intro t rs ht hrs
  simp only at ht hrs
  have := enter_segTag tag st t ht
  subst this
  simp only [Option.some.injEq] at hrs
  subst hrs
  exact ⟨v, by rw [f]; exact hc⟩

/-- Visit states that can arise: the empty state, and whatever a visit returns
    when started from a state that can arise.  All visits of the history use the
    same field list and chunk size; they may be on any segments, in any document
    order, with repeats.  `segOf` says which segment a tag (Go: the segment
    pointer) stands for: a visit tagged `tag` is a visit on `segOf tag`, i.e.
    equal tags mean the same segment. -/
inductive Reach (segOf : Nat → Seg) (cs : Nat) (fields : List Name) : Option DvState → Prop
  | init : Reach segOf cs fields none
  | visit {st : Option DvState} (tag doc : Nat) : Reach segOf cs fields st →
      Reach segOf cs fields (some ((segOf tag).visitDocValues tag cs st fields doc).1)

theorem Reach.inv {segOf : Nat → Seg} {cs : Nat} {fields : List Name} {st : Option DvState}
    (h : Reach segOf cs fields st) : Inv segOf cs fields st := by
  induction h with
  | init => trivial
  | visit tag doc _ ih => exact visit_inv segOf cs fields _ ih tag doc

/-- A whole session: visits `(tag, doc)` threaded through one state. -/
def runVisits (segOf : Nat → Seg) (cs : Nat) (fields : List Name) :
    Option DvState → List (Nat × Nat) → List (List (Name × Bytes))
  | _, [] => []
  | st, (tag, doc) :: rest =>
    ((segOf tag).visitDocValues tag cs st fields doc).2 ::
      runVisits segOf cs fields (some ((segOf tag).visitDocValues tag cs st fields doc).1) rest

theorem runVisits_eq (segOf : Nat → Seg) (cs : Nat) (fields : List Name) :
    ∀ (visits : List (Nat × Nat)) (st : Option DvState), Inv segOf cs fields st →
      runVisits segOf cs fields st visits =
        visits.map (fun p => fields.flatMap (fieldOut (segOf p.1) p.2))
  | [], _, _ => rfl
  | (tag, doc) :: rest, st, h => by
    rw [runVisits, visit_out segOf cs fields st h tag doc,
      runVisits_eq segOf cs fields rest _ (visit_inv segOf cs fields st h tag doc)]
    rfl

/-! ### Doc values of a built segment -/

open Zap.Stored

/-- One field record as `buildSeg` writes it. -/
def mkField (v : Bool) (b : Batch) (p : Name × List (Bytes × List Entry)) : FieldM :=
  { name := p.1,
    terms := (sortTerms p.2).map (fun t => (t.1, PostRep.general t.2)),
    dv := if b.length ≠ 0 ∧ includeDocValues b p.1
          then some (addShapes b p.1 (docTermMap b.length (sortTerms p.2))) else none,
    thes := if b.length ≠ 0 ∧ hasThes b p.1 then some (buildThes b p.1) else none,
    vec := if v ∧ b.length ≠ 0 then buildVec b p.1 else none }

theorem buildSeg_fields_eq (v : Bool) (mode : Nat) (b : Batch) :
    (buildSeg v mode b).fields = ((fieldTable b).zip (processDocs v (fieldTable b) b)).map (mkField v b) := rfl

theorem buildSeg_loadedFields (v : Bool) (mode : Nat) (b : Batch) (hb : b ≠ []) :
    (buildSeg v mode b).loadedFields = (buildSeg v mode b).fields := by
  have hn : (buildSeg v mode b).numDocs = b.length := rfl
  have hlen : b.length ≠ 0 := by simpa using hb
  simp only [Seg.loadedFields, hn, hlen, if_false]

theorem buildSeg_dvFieldNames (v : Bool) (mode : Nat) (b : Batch) (hb : b ≠ []) :
    (buildSeg v mode b).dvFieldNames = (fieldTable b).filter (includeDocValues b) := by
  have hn : (buildSeg v mode b).numDocs = b.length := rfl
  have hlen : b.length ≠ 0 := by simpa using hb
  unfold Seg.dvFieldNames
  rw [hn, if_neg hlen, buildSeg_loadedFields v mode b hb, buildSeg_fields_eq, List.filter_map, List.map_map]
  have h1 : ((fun (f : FieldM) => f.dv.isSome) ∘ mkField v b) = (includeDocValues b ∘ Prod.fst) := by
    funext p
    simp only [Function.comp, mkField, hlen, ne_eq, not_false_eq_true, true_and]
    cases includeDocValues b p.1 <;> simp
  have h2 : ((fun (f : FieldM) => f.name) ∘ mkField v b) = Prod.fst := rfl
  rw [h1, h2, ← List.filter_map, List.map_fst_zip (by rw [processDocs_length]; exact Nat.le_refl _)]

theorem findIdx?_find? {α : Type} (p : α → Bool) (dflt : α) : ∀ (l : List α) (i : Nat),
    l.findIdx? p = some i → l.find? p = some (l.getD i dflt) ∧ i < l.length
  | [], _, h => by simp at h
  | x :: xs, i, h => by
    rw [List.findIdx?_cons] at h
    by_cases hx : p x = true
    · rw [if_pos hx] at h
      simp only [Option.some.injEq] at h
      subst h
      simp [hx]
    · rw [if_neg hx] at h
      cases hj : xs.findIdx? p with
      | none => rw [hj] at h; cases h
      | some j =>
        rw [hj] at h
        simp only [Option.map_some, Option.some.injEq] at h
        subst h
        obtain ⟨h1, h2⟩ := findIdx?_find? p dflt xs j hj
        have hx' : p x = false := by simpa using hx
        simp only [List.find?_cons, hx', h1, List.getD_cons_succ, List.length_cons]
        exact ⟨trivial, by omega⟩

theorem findIdx?_eq_none_of {α : Type} (p : α → Bool) (l : List α) (h : l.findIdx? p = none) :
    ∀ x ∈ l, p x = false := by
  intro x hx
  have := List.findIdx?_eq_none_iff.mp h x hx
  simpa using this

theorem includeDocValues_mem (b : Batch) (n : Name) (h : includeDocValues b n = true) : n ∈ fieldTable b := by
  rw [mem_fieldTable]
  right
  simp only [includeDocValues, List.any_eq_true, Bool.and_eq_true, decide_eq_true_eq] at h
  obtain ⟨d, hd, f, hf, hname, _⟩ := h
  simp only [Spec.names, List.mem_flatMap]
  exact ⟨d, hd, by rw [docNames, List.mem_map]; exact ⟨f, (mem_visitOrder d f).mpr hf, hname⟩⟩

/-- The terms recorded for a document in `docTermMap`. -/
theorem recorded_keyed {β : Type} (g : Nat → List β) (doc : Nat) : ∀ (ks : List Nat), ks.Nodup →
    ((((ks.map (fun k => (k, g k))).filter (fun p => !p.2.isEmpty)).find? (·.1 = doc)).map (·.2)).getD []
      = if doc ∈ ks then g doc else []
  | [], _ => by simp
  | k :: ks, hn => by
    have hn' := List.nodup_cons.mp hn
    have ih := recorded_keyed g doc ks hn'.2
    simp only [List.map_cons, List.filter_cons]
    by_cases hk : k = doc
    · subst hk
      have hnot : k ∉ ks := hn'.1
      cases hg : g k with
      | nil =>
        simp only [List.isEmpty_nil, Bool.not_true, Bool.false_eq_true, if_false, List.mem_cons, true_or, if_true]
        rw [ih, if_neg hnot]
      | cons a as => simp
    · have hk' : ¬ doc = k := fun e => hk e.symm
      by_cases hne : (!(g k).isEmpty) = true
      · simp only [hne, if_true, List.find?_cons, hk, decide_false, List.mem_cons, hk', false_or]
        exact ih
      · simp only [hne, List.mem_cons, hk', false_or]
        exact ih

theorem recorded_docTermMap (N : Nat) (terms : List (Bytes × List Entry)) (doc : Nat) :
    recorded (docTermMap N terms) doc =
      if doc < N then (terms.filter (fun p => p.2.any (·.doc = doc))).map (·.1) else [] := by
  unfold recorded docTermMap
  have := recorded_keyed (fun n => (terms.filter (fun p => p.2.any (·.doc = n))).map (·.1)) doc
    (List.range N) List.nodup_range
  simp only [List.mem_range] at this
  exact this

/-- Shape of keyed data: keys strictly ascending and in range, no key with an
    empty list. -/
theorem keyed_shape {β : Type} (g : Nat → List β) (N : Nat) :
    ((((List.range N).map (fun k => (k, g k))).filter (fun p => !p.2.isEmpty)).map (·.1)).Pairwise (· < ·) ∧
    ∀ p ∈ ((List.range N).map (fun k => (k, g k))).filter (fun p => !p.2.isEmpty), p.1 < N ∧ p.2 ≠ [] := by
  constructor
  · have hsub : List.Sublist ((((List.range N).map (fun k => (k, g k))).filter
        (fun p => !p.2.isEmpty)).map (·.1)) (List.range N) := by
      have h := (List.filter_sublist (p := fun (p : Nat × List β) => !p.2.isEmpty)
        (l := (List.range N).map (fun k => (k, g k)))).map (·.1)
      rw [List.map_map] at h
      have hid : ((fun (x : Nat × List β) => x.1) ∘ fun k => (k, g k)) = id := rfl
      rw [hid, List.map_id] at h
      exact h
    exact List.Pairwise.sublist hsub List.pairwise_lt_range
  · intro p hp
    obtain ⟨hm, hne⟩ := List.mem_filter.mp hp
    obtain ⟨k, hk, rfl⟩ := List.mem_map.mp hm
    exact ⟨List.mem_range.mp hk, by simpa using hne⟩

/-- Shape of doc-value data: document numbers strictly ascending and in range,
    no document with an empty term list. -/
theorem docTermMap_shape (N : Nat) (terms : List (Bytes × List Entry)) :
    ((docTermMap N terms).map (·.1)).Pairwise (· < ·) ∧
    ∀ p ∈ docTermMap N terms, p.1 < N ∧ p.2 ≠ [] :=
  keyed_shape (fun n => (terms.filter (fun p => p.2.any (·.doc = n))).map (·.1)) N

/-! Extra doc values (encoded geo shapes) -/

/-- The `visitField` walk over a list of instances keeps the shape of the last
    ordinary instance of the field that has one. -/
theorem foldl_shapeStep (n : Name) : ∀ (l : List FieldIn) (acc : Option Bytes),
    l.foldl (shapeStep n) acc
      = (((l.filter (fun f => f.kind == .fld && f.name = n)).filterMap (·.shape)).getLast?).or acc
  | [], acc => by simp
  | f :: l, acc => by
    rw [List.foldl_cons, foldl_shapeStep n l]
    unfold shapeStep
    by_cases hc : f.kind = .fld ∧ f.name = n
    · have hb : (f.kind == FKind.fld && decide (f.name = n)) = true := by simp [hc.1, hc.2]
      rw [if_pos hc]
      simp only [List.filter_cons, hb, if_true]
      cases hs : f.shape with
      | none => simp only [List.filterMap_cons, hs]
      | some s =>
        simp only [List.filterMap_cons, hs]
        rw [List.getLast?_cons]
        cases ((l.filter (fun f => f.kind == .fld && f.name = n)).filterMap (·.shape)).getLast? <;> simp
    · have hb : (f.kind == FKind.fld && decide (f.name = n)) = false := by
        simpa using hc
      rw [if_neg hc]
      simp only [List.filter_cons, hb, Bool.false_eq_true, if_false]

/-- What `realloc` leaves in `extraDocValues` for (document, field) is the
    specified shape of the document. -/
theorem extraDocValue_eq (d : DocIn) (n : Name) : extraDocValue d n = Spec.shapeOf d n := by
  unfold extraDocValue Spec.shapeOf DocIn.visitOrder
  rw [List.foldl_append, foldl_shapeStep, foldl_shapeStep, List.filter_filter, List.filter_filter]
  have h1 : (fun (a : FieldIn) => (a.kind == FKind.fld && decide (a.name = n)) && (a.kind == FKind.comp)) =
      fun _ => false := by
    funext a; cases h : a.kind <;> simp
  have h2 : (fun (a : FieldIn) => (a.kind == FKind.fld && decide (a.name = n)) && (a.kind != FKind.comp)) =
      fun a => a.kind == FKind.fld && decide (a.name = n) := by
    funext a; cases h : a.kind <;> simp
  rw [h1, h2]
  have h3 : d.fields.filter (fun _ => false) = [] := List.filter_eq_nil_iff.mpr (by simp)
  rw [h3]
  simp only [List.filterMap_nil, List.getLast?_nil, Option.or_none]

/-- The values recorded for a document after the extra doc values were added:
    what was recorded before, then the document's extra value. -/
theorem recorded_addShapes (b : Batch) (n : Name) (dtm : List (Nat × List Bytes)) (doc : Nat) :
    recorded (addShapes b n dtm) doc = if doc < b.length then recorded dtm doc ++ extraAt b n doc else [] := by
  unfold recorded addShapes
  have := recorded_keyed (fun k => ((dtm.find? (·.1 = k)).map (·.2)).getD [] ++ extraAt b n k) doc
    (List.range b.length) List.nodup_range
  simp only [List.mem_range] at this
  exact this

/-- Shape of the doc-value data with the extra values: document numbers strictly
    ascending and in range, no document with an empty value list. -/
theorem addShapes_shape (b : Batch) (n : Name) (dtm : List (Nat × List Bytes)) :
    ((addShapes b n dtm).map (·.1)).Pairwise (· < ·) ∧
    ∀ p ∈ addShapes b n dtm, p.1 < b.length ∧ p.2 ≠ [] :=
  keyed_shape (fun k => ((dtm.find? (·.1 = k)).map (·.2)).getD [] ++ extraAt b n k) b.length

/-- A document with an extra value has an entry whether or not it has terms. -/
theorem addShapes_mem_of_extra (b : Batch) (n : Name) (dtm : List (Nat × List Bytes)) (doc : Nat)
    (hdoc : doc < b.length) (h : extraAt b n doc ≠ []) :
    (doc, recorded dtm doc ++ extraAt b n doc) ∈ addShapes b n dtm := by
  unfold addShapes recorded
  refine List.mem_filter.mpr ⟨List.mem_map.mpr ⟨doc, List.mem_range.mpr hdoc, rfl⟩, ?_⟩
  cases hx : extraAt b n doc with
  | nil => exact absurd hx h
  | cons a as => simp

/-! `sortDedup` sorts and removes duplicates -/

theorem mem_insertSorted (x y : Bytes) : ∀ l : List Bytes, y ∈ insertSorted x l ↔ y = x ∨ y ∈ l
  | [] => by simp [insertSorted]
  | z :: zs => by
    unfold insertSorted
    split
    · simp
    · split
      · next _ e => subst e; simp
      · simp only [List.mem_cons, mem_insertSorted x y zs]
        constructor
        · rintro (h | h | h)
          · exact Or.inr (Or.inl h)
          · exact Or.inl h
          · exact Or.inr (Or.inr h)
        · rintro (h | h | h)
          · exact Or.inr (Or.inl h)
          · exact Or.inl h
          · exact Or.inr (Or.inr h)

theorem pairwise_insertSorted (x : Bytes) : ∀ l : List Bytes, l.Pairwise BLt → (insertSorted x l).Pairwise BLt
  | [], _ => by simp [insertSorted]
  | z :: zs, h => by
    have ⟨hz, hzs⟩ := List.pairwise_cons.mp h
    unfold insertSorted
    split
    · next hlt =>
      refine List.pairwise_cons.mpr ⟨?_, h⟩
      intro y hy
      rcases List.mem_cons.mp hy with rfl | hy
      · exact hlt
      · exact lt_trans hlt (hz y hy)
    · split
      · exact h
      · next hnlt hne =>
        refine List.pairwise_cons.mpr ⟨?_, pairwise_insertSorted x zs hzs⟩
        intro y hy
        rcases (mem_insertSorted x y zs).mp hy with rfl | hy
        · rcases lt_trichotomy y z with h | h | h
          · exact absurd h hnlt
          · exact absurd h hne
          · exact h
        · exact hz y hy

theorem sortDedup_spec : ∀ xs : List Bytes, (sortDedup xs).Pairwise BLt ∧ ∀ y, y ∈ sortDedup xs ↔ y ∈ xs
  | [] => by simp [sortDedup]
  | x :: xs => by
    obtain ⟨h1, h2⟩ := sortDedup_spec xs
    refine ⟨pairwise_insertSorted x _ h1, fun y => ?_⟩
    show y ∈ insertSorted x (sortDedup xs) ↔ _
    rw [mem_insertSorted, h2]; simp

/-- From the C01 statement: the documents listed under a term in the segment's
    dictionary are the documents of the specified postings. -/
theorem C01_docs (v : Bool) (b : Batch) (s : Seg) (n : Name) (t : Bytes) (k : Nat)
    (h01 : match lookup t (s.dictTerms n) with
      | none => Spec.postings v b n t = []
      | some (.general es) =>
          es.map (Spec.hitOfEntry (s.fields.map (·.name))) = Spec.postings v b n t ∧
          AscNat (es.map (·.doc)) ∧ es ≠ []
      | some (.oneHit _ _) => False) :
    (∃ es, lookup t (s.dictTerms n) = some (.general es) ∧ k ∈ es.map (·.doc)) ↔
      k ∈ (Spec.postings v b n t).map (·.doc) := by
  cases hl : lookup t (s.dictTerms n) with
  | none =>
    rw [hl] at h01
    simp only at h01
    rw [h01]; simp
  | some r =>
    rw [hl] at h01
    cases r with
    | oneHit _ _ => exact False.elim h01
    | general es =>
      simp only at h01
      have hdocs : es.map (·.doc) = (Spec.postings v b n t).map (·.doc) := by
        rw [← h01.1, List.map_map]; rfl
      rw [← hdocs]
      constructor
      · rintro ⟨es', he, hk⟩
        simp only [Option.some.injEq, PostRep.general.injEq] at he
        subst he; exact hk
      · intro hk; exact ⟨es, rfl, hk⟩

/-- Content of a field record of a built segment, found by name: its doc-value
    data (the term walk's `docTermMap` plus the extra doc values) records for
    every document exactly the specified doc values; a field
    not indexed with doc values (or an empty batch) has no doc-value data. -/
theorem buildSeg_field_content (v : Bool) (mode : Nat) (b : Batch)
    (hC01 : ∀ n t, match lookup t ((buildSeg v mode b).dictTerms n) with
      | none => Spec.postings v b n t = []
      | some (.general es) =>
          es.map (Spec.hitOfEntry ((buildSeg v mode b).fields.map (·.name))) = Spec.postings v b n t ∧
          AscNat (es.map (·.doc)) ∧ es ≠ []
      | some (.oneHit _ _) => False)
    (hsorted : ∀ n, SortedLt (((buildSeg v mode b).dictTerms n).map (·.1)))
    (n : Name) (f : FieldM) (hfind : (buildSeg v mode b).fields.find? (·.name = n) = some f) :
    f.name = n ∧
    (b ≠ [] ∧ includeDocValues b n = true →
      ∃ terms, f.terms = terms.map (fun t => (t.1, PostRep.general t.2)) ∧
        f.dv = some (addShapes b n (docTermMap b.length terms)) ∧
        ∀ doc, recorded (addShapes b n (docTermMap b.length terms)) doc = Spec.docValues v b n doc) ∧
    (¬ (b ≠ [] ∧ includeDocValues b n = true) → f.dv = none) := by
  have hmem : f ∈ ((fieldTable b).zip (processDocs v (fieldTable b) b)).map (mkField v b) :=
    List.mem_of_find?_eq_some hfind
  have hname : f.name = n := by simpa using List.find?_some hfind
  obtain ⟨⟨n', d⟩, _, hmk⟩ := List.mem_map.mp hmem
  have hn' : n' = n := by rw [← hmk] at hname; exact hname
  subst hn'
  refine ⟨hname, ?_, ?_⟩
  · rintro ⟨hb, hincl⟩
    have hlen : b.length ≠ 0 := by simpa using hb
    have hdv : f.dv = some (addShapes b n' (docTermMap b.length (sortTerms d))) := by
      rw [← hmk]; simp only [mkField]; rw [if_pos ⟨hlen, hincl⟩]
    refine ⟨sortTerms d, by rw [← hmk]; rfl, hdv, fun doc => ?_⟩
    rw [recorded_addShapes, recorded_docTermMap]
    -- the dictionary of the field
    have hdict : (buildSeg v mode b).dictTerms n' = (sortTerms d).map (fun t => (t.1, PostRep.general t.2)) := by
      unfold Seg.dictTerms Seg.field?
      rw [buildSeg_loadedFields v mode b hb, hfind, ← hmk]
      rfl
    have hkeys : ((sortTerms d).map (·.1)).Pairwise BLt := by
      have := hsorted n'
      rw [hdict, List.map_map, sortedLt_iff_pairwise] at this
      exact this
    simp only [Spec.docValues, hincl, if_true]
    by_cases hdoc : doc < b.length
    · have hext : extraAt b n' doc = (Spec.shapeOf b[doc] n').toList := by
        unfold extraAt; rw [List.getElem?_eq_getElem hdoc]; simp only [extraDocValue_eq]
      rw [if_pos hdoc, if_pos hdoc, List.getElem?_eq_getElem hdoc, hext]
      simp only
      congr 1
      obtain ⟨hs1, hs2⟩ := sortDedup_spec ((Spec.insts v b[doc] n').flatMap (fun f => f.toks.map (·.term)))
      apply pairwise_blt_ext _ hs1
      · intro t
        rw [hs2]
        -- left: a term whose entry list mentions `doc`
        have hL : t ∈ ((sortTerms d).filter (fun p => p.2.any (·.doc = doc))).map (·.1) ↔
            ∃ es, lookup t ((buildSeg v mode b).dictTerms n') = some (.general es) ∧ doc ∈ es.map (·.doc) := by
          rw [hdict]
          have hne : (((sortTerms d).map (fun t => (t.1, PostRep.general t.2))).map (·.1)).Pairwise (· ≠ ·) := by
            rw [List.map_map]; exact pairwise_blt_ne hkeys
          simp only [List.mem_map, List.mem_filter, List.any_eq_true, decide_eq_true_eq]
          constructor
          · rintro ⟨⟨t', es⟩, ⟨hm, e, he, hed⟩, rfl⟩
            exact ⟨es, (lookup_eq_some_iff _ _ _ hne).mpr (List.mem_map.mpr ⟨(t', es), hm, rfl⟩), e, he, hed⟩
          · rintro ⟨es, hl, e, he, hed⟩
            obtain ⟨⟨t', es'⟩, hm, heq⟩ := List.mem_map.mp ((lookup_eq_some_iff _ _ _ hne).mp hl)
            simp only [Prod.mk.injEq, PostRep.general.injEq] at heq
            obtain ⟨rfl, rfl⟩ := heq
            exact ⟨(t', es'), ⟨hm, e, he, hed⟩, rfl⟩
        rw [hL, C01_docs v b _ n' t doc (hC01 n' t), mem_postings_doc]
        simp only [hasTerm_iff, List.mem_flatMap]
        constructor
        · rintro ⟨_, h⟩; exact h
        · intro h; exact ⟨hdoc, h⟩
      · exact (List.Pairwise.sublist ((List.filter_sublist).map _) hkeys)
    · rw [if_neg hdoc]
      have : b[doc]? = none := by simp; omega
      rw [this]
  · intro hcond
    rw [← hmk]; simp only [mkField]
    rw [if_neg]
    rintro ⟨hlen, hincl⟩
    exact hcond ⟨by intro e; subst e; exact hlen rfl, hincl⟩

/-- Every name of the field table is found in the built segment (non-empty batch). -/
theorem buildSeg_field?_some (v : Bool) (mode : Nat) (b : Batch) (hb : b ≠ []) (n : Name) (hn : n ∈ fieldTable b) :
    ∃ f, (buildSeg v mode b).field? n = some f ∧ (buildSeg v mode b).fields.find? (·.name = n) = some f := by
  unfold Seg.field?
  rw [buildSeg_loadedFields v mode b hb]
  cases h : (buildSeg v mode b).fields.find? (·.name = n) with
  | some f => exact ⟨f, rfl, rfl⟩
  | none =>
    rw [← buildSeg_fields_names v mode b] at hn
    obtain ⟨f, hfm, hname⟩ := List.mem_map.mp hn
    have := List.find?_eq_none.mp h f hfm
    simp [hname] at this

/-- End to end: what one field occurrence contributes to a doc-value visit of a
    built segment is the specified doc values of the document. -/
theorem buildSeg_fieldOut (v : Bool) (mode : Nat) (b : Batch)
    (hC01 : ∀ n t, match lookup t ((buildSeg v mode b).dictTerms n) with
      | none => Spec.postings v b n t = []
      | some (.general es) =>
          es.map (Spec.hitOfEntry ((buildSeg v mode b).fields.map (·.name))) = Spec.postings v b n t ∧
          AscNat (es.map (·.doc)) ∧ es ≠ []
      | some (.oneHit _ _) => False)
    (hsorted : ∀ n, SortedLt (((buildSeg v mode b).dictTerms n).map (·.1)))
    (doc : Nat) (n : Name) :
    fieldOut (buildSeg v mode b) doc n = (Spec.docValues v b n doc).map (fun t => (n, t)) := by
  unfold fieldOut
  cases hf : (buildSeg v mode b).fieldId? n with
  | none =>
    -- unknown name: not in the table, hence no doc values specified
    have hnot : includeDocValues b n = false := by
      cases hi : includeDocValues b n with
      | false => rfl
      | true =>
        have hm := includeDocValues_mem b n hi
        rw [← buildSeg_fields_names v mode b] at hm
        obtain ⟨f, hfm, hname⟩ := List.mem_map.mp hm
        have := findIdx?_eq_none_of _ _ hf f hfm
        simp [hname] at this
    simp [Spec.docValues, hnot]
  | some fid =>
    obtain ⟨hfind, _⟩ := findIdx?_find? _ default _ _ hf
    obtain ⟨_, h1, h2⟩ := buildSeg_field_content v mode b hC01 hsorted n _ hfind
    dsimp only
    by_cases hcond : b ≠ [] ∧ includeDocValues b n = true
    · obtain ⟨terms, _, hdv, hrec⟩ := h1 hcond
      rw [hdv]
      simp only [hrec]
    · rw [h2 hcond]
      have : Spec.docValues v b n doc = [] := by
        unfold Spec.docValues
        by_cases hi : includeDocValues b n = true
        · have : b = [] := by
            by_cases h0 : b = []
            · exact h0
            · exact absurd ⟨h0, hi⟩ hcond
          subst this; simp
        · simp [hi]
      rw [this]; rfl

end Dv
end Zap
