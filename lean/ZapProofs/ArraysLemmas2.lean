/-
  ZapProofs.ArraysLemmas2: the count pass (`realloc` / `visitField`).
  The pass is a fold over the flat list of visits (field id, term, #locations);
  its result is characterised by the list `ks` of distinct keys in first-sight
  order: `Dicts[fid][term] = pid ↔ ks[pid] = (fid, term)`, and the two count
  arrays hold, per pid, the number of visits of that key and the sum of their
  location counts.
-/
import ZapProofs.ArraysLemmas1
import ZapProofs.BuildLemmas3

namespace Zap.Arr
open Zap

abbrev Key := Nat × Bytes

/-- one iteration of `for term, tf := range tfs` of `visitField` -/
structure Visit where
  fid : Nat
  term : Bytes
  w : Nat

def Visit.key (v : Visit) : Key := (v.fid, v.term)

def tokVisit (fid : Nat) (tok : Tok) : Visit := ⟨fid, tok.term, tok.locs.length⟩

def fieldVisits (tbl : List Name) (f : FieldIn) : List Visit := f.toks.map (tokVisit (fieldIdOf tbl f.name))
def docVisits (tbl : List Name) (d : DocIn) : List Visit := d.visitOrder.flatMap (fieldVisits tbl)
def visits (tbl : List Name) (b : Batch) : List Visit := b.flatMap (docVisits tbl)

/-- number of visits of key `k` -/
def cntV (k : Key) (vs : List Visit) : Nat := (vs.filter (fun v => v.key = k)).length
/-- locations counted for key `k` -/
def wV (k : Key) (vs : List Visit) : Nat := ((vs.filter (fun v => v.key = k)).map (·.w)).sum

theorem cntV_append (k : Key) (a b : List Visit) : cntV k (a ++ b) = cntV k a + cntV k b := by
  simp [cntV]

theorem wV_append (k : Key) (a b : List Visit) : wV k (a ++ b) = wV k a + wV k b := by
  simp [wV]

theorem cntV_single (k : Key) (v : Visit) : cntV k [v] = if k = v.key then 1 else 0 := by
  unfold cntV
  by_cases h : k = v.key
  · subst h; simp
  · have : ¬ v.key = k := fun e => h e.symm
    simp [h, this]

theorem wV_single (k : Key) (v : Visit) : wV k [v] = if k = v.key then v.w else 0 := by
  unfold wV
  by_cases h : k = v.key
  · subst h; simp
  · have : ¬ v.key = k := fun e => h e.symm
    simp [h, this]

theorem cntV_pos_iff (k : Key) (vs : List Visit) : 0 < cntV k vs ↔ ∃ v ∈ vs, v.key = k := by
  unfold cntV
  rw [List.length_pos_iff_exists_mem]
  constructor
  · rintro ⟨v, hv⟩
    have := List.mem_filter.1 hv
    exact ⟨v, this.1, by simpa using this.2⟩
  · rintro ⟨v, hv, e⟩
    exact ⟨v, List.mem_filter.2 ⟨hv, by simpa using e⟩⟩

theorem wV_zero_of_cntV_zero (k : Key) (vs : List Visit) (h : cntV k vs = 0) : wV k vs = 0 := by
  unfold cntV at h
  unfold wV
  rw [List.length_eq_zero_iff.1 h]; rfl

/-! ### small list facts -/

theorem lookup_append {β : Type} (t : Bytes) (d e : List (Bytes × β)) :
    lookup t (d ++ e) = (lookup t d).or (lookup t e) := by
  induction d with
  | nil => simp [lookup]
  | cons p d ih =>
    obtain ⟨k, v⟩ := p
    simp only [List.cons_append, lookup]
    split
    · simp
    · exact ih

theorem getD_modify_eq {β : Type} (l : List (List β)) (i : Nat) (F : List β → List β) (h : i < l.length) :
    (l.modify i F).getD i [] = F (l.getD i []) := by
  rw [List.getD_eq_getElem?_getD, List.getD_eq_getElem?_getD, List.getElem?_modify,
    List.getElem?_eq_getElem h]
  simp

theorem getD_modify_ne {β : Type} (l : List (List β)) (i j : Nat) (F : List β → List β) (h : i ≠ j) :
    (l.modify i F).getD j [] = l.getD j [] := by
  rw [List.getD_eq_getElem?_getD, List.getD_eq_getElem?_getD, List.getElem?_modify]
  cases l[j]? <;> simp [h]

theorem sum_modify_add (l : List Nat) (i a : Nat) (h : i < l.length) :
    (l.modify i (· + a)).sum = l.sum + a := by
  induction l generalizing i with
  | nil => simp at h
  | cons x l ih =>
    cases i with
    | zero => simp [List.modify]; omega
    | succ i =>
      have h' : i < l.length := by simpa using h
      simp only [List.modify_succ_cons, List.sum_cons, ih i h']
      omega

theorem modify_map_add {κ : Type} [DecidableEq κ] (ks : List κ) (hnd : ks.Nodup) (f : κ → Nat) (pid a : Nat)
    (k : κ) (hk : ks[pid]? = some k) :
    (ks.map f).modify pid (· + a) = ks.map (fun k' => f k' + if k = k' then a else 0) := by
  apply List.ext_getElem?
  intro j
  rw [List.getElem?_modify, List.getElem?_map, List.getElem?_map]
  cases hj : ks[j]? with
  | none => rfl
  | some k' =>
    simp only [Option.map_some, Option.map_eq_map]
    by_cases e : pid = j
    · subst e
      have : k = k' := by rw [hk] at hj; exact Option.some.inj hj
      simp [this]
    · have hne : k ≠ k' := by
        intro e2
        subst e2
        have hlt : pid < ks.length := by
          apply Classical.byContradiction
          intro hn
          rw [List.getElem?_eq_none (by omega)] at hk
          exact absurd hk (by simp)
        exact e ((List.getElem?_inj hlt hnd).1 (by rw [hk, hj]))
      simp [e, hne]

theorem modify_append_new (l : List Nat) (a : Nat) : (l ++ [0]).modify l.length (· + a) = l ++ [a] := by
  induction l with
  | nil => simp [List.modify]
  | cons x l ih => simp [List.modify_succ_cons, ih]

/-! ### the invariant of the count pass -/

/-- `countTok` only depends on the visit -/
def countVisit (c : Counts) (v : Visit) : Counts :=
  let (c1, pid) :=
    match lookup v.term (c.dicts.getD v.fid []) with
    | some pid => (c, pid)
    | none =>
      ({ c with dicts := c.dicts.modify v.fid (· ++ [(v.term, c.nT.length)]),
                nT := c.nT ++ [0], nL := c.nL ++ [0] }, c.nT.length)
  { c1 with nT := c1.nT.modify pid (· + 1),
            nL := c1.nL.modify pid (· + v.w),
            totLocs := c1.totLocs + v.w }

theorem countTok_eq (fid : Nat) (c : Counts) (tok : Tok) : countTok fid c tok = countVisit c (tokVisit fid tok) := rfl

/-- State of the count pass after the visits `vs`, with `ks` the keys in first-sight order
    (`ks[pid]` is the (field, term) of postings list `pid`). -/
structure CInv (nFields : Nat) (c : Counts) (vs : List Visit) (ks : List Key) : Prop where
  nodup : ks.Nodup
  dlen : c.dicts.length = nFields
  look : ∀ fid t pid, lookup t (c.dicts.getD fid []) = some pid ↔ ks[pid]? = some (fid, t)
  nT : c.nT = ks.map (fun k => cntV k vs)
  nL : c.nL = ks.map (fun k => wV k vs)
  mem : ∀ k, k ∈ ks ↔ 0 < cntV k vs
  sumT : c.nT.sum = vs.length
  sumL : c.nL.sum = (vs.map (·.w)).sum
  totL : c.totLocs = (vs.map (·.w)).sum

theorem CInv.lenT {nF : Nat} {c : Counts} {vs : List Visit} {ks : List Key} (h : CInv nF c vs ks) :
    c.nT.length = ks.length := by rw [h.nT]; simp

theorem CInv.lenL {nF : Nat} {c : Counts} {vs : List Visit} {ks : List Key} (h : CInv nF c vs ks) :
    c.nL.length = ks.length := by rw [h.nL]; simp

theorem CInv.lt {nF : Nat} {c : Counts} {vs : List Visit} {ks : List Key} (_h : CInv nF c vs ks)
    {pid : Nat} {k : Key} (hk : ks[pid]? = some k) : pid < ks.length := by
  apply Classical.byContradiction
  intro hn
  rw [List.getElem?_eq_none (by omega)] at hk
  exact absurd hk (by simp)

theorem CInv.look_none {nF : Nat} {c : Counts} {vs : List Visit} {ks : List Key} (h : CInv nF c vs ks)
    (fid : Nat) (t : Bytes) : lookup t (c.dicts.getD fid []) = none ↔ (fid, t) ∉ ks := by
  constructor
  · intro hl hm
    obtain ⟨pid, hp⟩ := List.mem_iff_getElem?.1 hm
    rw [(h.look fid t pid).2 hp] at hl
    exact absurd hl (by simp)
  · intro hm
    cases hl : lookup t (c.dicts.getD fid []) with
    | none => rfl
    | some pid => exact absurd (List.mem_iff_getElem?.2 ⟨pid, (h.look fid t pid).1 hl⟩) hm

theorem cinv_init (tbl : List Name) :
    CInv tbl.length { dicts := tbl.map (fun _ => []), nT := [], nL := [], totTFs := 0, totLocs := 0 } [] [] where
  nodup := List.nodup_nil
  dlen := by simp
  look := by
    intro fid t pid
    have : (tbl.map (fun _ => ([] : List (Bytes × Nat)))).getD fid [] = [] := by
      rw [List.getD_eq_getElem?_getD, List.getElem?_map]
      cases tbl[fid]? <;> rfl
    rw [this]; simp [lookup]
  nT := rfl
  nL := rfl
  mem := by intro k; simp [cntV]
  sumT := rfl
  sumL := rfl
  totL := rfl

theorem cinv_step (nF : Nat) (c : Counts) (vs : List Visit) (ks : List Key) (v : Visit)
    (h : CInv nF c vs ks) (hv : v.fid < nF) :
    ∃ ks', CInv nF (countVisit c v) (vs ++ [v]) ks' := by
  have hcnt : ∀ k, cntV k (vs ++ [v]) = cntV k vs + if v.key = k then 1 else 0 := by
    intro k; rw [cntV_append, cntV_single]
    by_cases e : k = v.key
    · subst e; simp
    · have : ¬ v.key = k := fun x => e x.symm
      simp [e, this]
  have hw : ∀ k, wV k (vs ++ [v]) = wV k vs + if v.key = k then v.w else 0 := by
    intro k; rw [wV_append, wV_single]
    by_cases e : k = v.key
    · subst e; simp
    · have : ¬ v.key = k := fun x => e x.symm
      simp [e, this]
  cases hl : lookup v.term (c.dicts.getD v.fid []) with
  | some pid =>
    -- the key has a postings list already
    have hk : ks[pid]? = some v.key := (h.look v.fid v.term pid).1 hl
    have hlt : pid < ks.length := h.lt hk
    have hstep : countVisit c v = { c with nT := c.nT.modify pid (· + 1), nL := c.nL.modify pid (· + v.w),
                                           totLocs := c.totLocs + v.w } := by
      unfold countVisit; rw [hl]
    rw [hstep]
    refine ⟨ks, h.nodup, h.dlen, h.look, ?_, ?_, ?_, ?_, ?_, ?_⟩
    · show c.nT.modify pid (· + 1) = _
      rw [h.nT, modify_map_add ks h.nodup _ pid 1 v.key hk]
      apply List.map_congr_left; intro k _; rw [hcnt]
    · show c.nL.modify pid (· + v.w) = _
      rw [h.nL, modify_map_add ks h.nodup _ pid v.w v.key hk]
      apply List.map_congr_left; intro k _; rw [hw]
    · intro k
      rw [h.mem k, hcnt]
      constructor
      · intro h0; omega
      · intro h0
        by_cases e : v.key = k
        · have : v.key ∈ ks := List.mem_iff_getElem?.2 ⟨pid, hk⟩
          rw [e] at this
          exact (h.mem k).1 this
        · simpa [e] using h0
    · show (c.nT.modify pid (· + 1)).sum = _
      rw [sum_modify_add _ _ _ (by rw [h.lenT]; exact hlt), h.sumT]; simp
    · show (c.nL.modify pid (· + v.w)).sum = _
      rw [sum_modify_add _ _ _ (by rw [h.lenL]; exact hlt), h.sumL]; simp
    · show c.totLocs + v.w = _
      rw [h.totL]; simp
  | none =>
    -- first sight: a new postings list id
    have hnotin : v.key ∉ ks := (h.look_none v.fid v.term).1 hl
    have hc0 : cntV v.key vs = 0 :=
      Nat.eq_zero_of_not_pos (fun h0 => hnotin ((h.mem v.key).2 h0))
    have hstep : countVisit c v =
        { c with dicts := c.dicts.modify v.fid (· ++ [(v.term, c.nT.length)]),
                 nT := (c.nT ++ [0]).modify c.nT.length (· + 1),
                 nL := (c.nL ++ [0]).modify c.nT.length (· + v.w),
                 totLocs := c.totLocs + v.w } := by
      unfold countVisit; rw [hl]
    rw [hstep]
    have hne : ∀ k ∈ ks, ¬ v.key = k := fun k hk e => hnotin (e ▸ hk)
    refine ⟨ks ++ [v.key], ?_, ?_, ?_, ?_, ?_, ?_, ?_, ?_, ?_⟩
    · refine List.nodup_append.2 ⟨h.nodup, by simp, ?_⟩
      intro a ha b hb
      have : b = v.key := by simpa using hb
      subst this
      intro e; subst e; exact hnotin ha
    · show (c.dicts.modify v.fid _).length = nF
      rw [List.length_modify]; exact h.dlen
    · intro fid t pid
      show lookup t ((c.dicts.modify v.fid (· ++ [(v.term, c.nT.length)])).getD fid []) = some pid ↔ _
      by_cases hf : fid = v.fid
      · subst hf
        rw [getD_modify_eq c.dicts _ _ (by rw [h.dlen]; exact hv), lookup_append]
        by_cases ht : t = v.term
        · subst ht
          rw [hl]
          simp only [lookup, if_true, Option.none_or]
          rw [h.lenT, List.getElem?_append]
          constructor
          · intro e
            have : ks.length = pid := Option.some.inj e
            subst this
            simp [Visit.key]
          · intro e
            by_cases hp : pid < ks.length
            · rw [if_pos hp] at e
              exact absurd (List.mem_iff_getElem?.2 ⟨pid, e⟩) hnotin
            · rw [if_neg hp] at e
              have : pid - ks.length = 0 := by
                apply Classical.byContradiction
                intro hn
                rw [List.getElem?_eq_none (by simp; omega)] at e
                exact absurd e (by simp)
              have : ks.length = pid := by omega
              rw [this]
        · have hlook2 : lookup t [(v.term, c.nT.length)] = none := by simp [lookup, ht]
          rw [hlook2, Option.or_none, h.look, List.getElem?_append]
          by_cases hp : pid < ks.length
          · rw [if_pos hp]
          · rw [if_neg hp]
            rw [List.getElem?_eq_none (by omega)]
            constructor
            · intro e; exact absurd e (by simp)
            · intro e
              have hmem := List.mem_of_getElem? e
              have : (v.fid, t) = v.key := by simpa using hmem
              exact absurd (congrArg Prod.snd this) ht
      · rw [getD_modify_ne c.dicts _ _ _ (fun e => hf e.symm), h.look, List.getElem?_append]
        by_cases hp : pid < ks.length
        · rw [if_pos hp]
        · rw [if_neg hp, List.getElem?_eq_none (by omega)]
          constructor
          · intro e; exact absurd e (by simp)
          · intro e
            have hmem := List.mem_of_getElem? e
            have : (fid, t) = v.key := by simpa using hmem
            exact absurd (congrArg Prod.fst this) hf
    · show (c.nT ++ [0]).modify c.nT.length (· + 1) = _
      rw [modify_append_new, h.nT, List.map_append]
      congr 1
      · apply List.map_congr_left; intro k hk; rw [hcnt]; simp [hne k hk]
      · simp [hcnt, hc0]
    · show (c.nL ++ [0]).modify c.nT.length (· + v.w) = _
      have : c.nT.length = c.nL.length := by rw [h.lenT, h.lenL]
      rw [this, modify_append_new, h.nL, List.map_append]
      congr 1
      · apply List.map_congr_left; intro k hk; rw [hw]; simp [hne k hk]
      · simp [hw, wV_zero_of_cntV_zero _ _ hc0]
    · intro k
      rw [List.mem_append, h.mem k, hcnt]
      by_cases e : v.key = k
      · simp [e]
      · have : ¬ k = v.key := fun x => e x.symm
        simp [e, this]
    · show ((c.nT ++ [0]).modify c.nT.length (· + 1)).sum = _
      rw [modify_append_new, List.sum_append, h.sumT]; simp
    · show ((c.nL ++ [0]).modify c.nT.length (· + v.w)).sum = _
      have : c.nT.length = c.nL.length := by rw [h.lenT, h.lenL]
      rw [this, modify_append_new, List.sum_append, h.sumL]; simp
    · show c.totLocs + v.w = _
      rw [h.totL]; simp

theorem cinv_fold (nF : Nat) (vs' : List Visit) (c : Counts) (vs : List Visit) (ks : List Key)
    (h : CInv nF c vs ks) (hv : ∀ v ∈ vs', v.fid < nF) :
    ∃ ks', CInv nF (vs'.foldl countVisit c) (vs ++ vs') ks' := by
  induction vs' generalizing c vs ks with
  | nil => exact ⟨ks, by simpa using h⟩
  | cons v vs' ih =>
    obtain ⟨ks1, h1⟩ := cinv_step nF c vs ks v h (hv v (by simp))
    obtain ⟨ks2, h2⟩ := ih _ _ _ h1 (fun w hw => hv w (by simp [hw]))
    exact ⟨ks2, by simpa using h2⟩

/-! ### the real nested fold is the fold over `visits`, up to `totTFs` -/

/-- the components of the count state the invariant talks about -/
def Counts.core (c : Counts) : List (List (Bytes × Nat)) × List Nat × List Nat × Nat :=
  (c.dicts, c.nT, c.nL, c.totLocs)

theorem countVisit_core (c c' : Counts) (v : Visit) (h : c.core = c'.core) :
    (countVisit c v).core = (countVisit c' v).core := by
  obtain ⟨d, a, b, x, y⟩ := c
  obtain ⟨d', a', b', x', y'⟩ := c'
  simp only [Counts.core, Prod.mk.injEq] at h
  obtain ⟨rfl, rfl, rfl, rfl⟩ := h
  unfold countVisit
  simp only
  split <;> rfl

theorem countVisit_totTFs (c : Counts) (v : Visit) : (countVisit c v).totTFs = c.totTFs := by
  unfold countVisit
  simp only
  split <;> rfl

theorem foldl_countVisit_core (vs : List Visit) (c c' : Counts) (h : c.core = c'.core) :
    (vs.foldl countVisit c).core = (vs.foldl countVisit c').core := by
  induction vs generalizing c c' with
  | nil => exact h
  | cons v vs ih => exact ih _ _ (countVisit_core c c' v h)

theorem foldl_countVisit_totTFs (vs : List Visit) (c : Counts) : (vs.foldl countVisit c).totTFs = c.totTFs := by
  induction vs generalizing c with
  | nil => rfl
  | cons v vs ih => rw [List.foldl_cons, ih, countVisit_totTFs]

theorem countField_spec (tbl : List Name) (c : Counts) (f : FieldIn) :
    (countField tbl c f).core = ((fieldVisits tbl f).foldl countVisit c).core ∧
    (countField tbl c f).totTFs = c.totTFs + (fieldVisits tbl f).length := by
  have e : f.toks.foldl (countTok (fieldIdOf tbl f.name)) c = (fieldVisits tbl f).foldl countVisit c := by
    unfold fieldVisits
    rw [List.foldl_map]
    rfl
  unfold countField
  simp only
  rw [e]
  refine ⟨rfl, ?_⟩
  show ((fieldVisits tbl f).foldl countVisit c).totTFs + f.toks.length = _
  rw [foldl_countVisit_totTFs]
  simp [fieldVisits]

theorem countDoc_spec (tbl : List Name) (fs : List FieldIn) (c c' : Counts) (h : c.core = c'.core) :
    (fs.foldl (countField tbl) c).core = ((fs.flatMap (fieldVisits tbl)).foldl countVisit c').core ∧
    (fs.foldl (countField tbl) c).totTFs = c.totTFs + (fs.flatMap (fieldVisits tbl)).length := by
  induction fs generalizing c c' with
  | nil => exact ⟨h, rfl⟩
  | cons f fs ih =>
    obtain ⟨h1, h2⟩ := countField_spec tbl c f
    have h3 : (countField tbl c f).core = ((fieldVisits tbl f).foldl countVisit c').core :=
      h1.trans (foldl_countVisit_core _ _ _ h)
    obtain ⟨i1, i2⟩ := ih (countField tbl c f) _ h3
    rw [List.foldl_cons, List.flatMap_cons, List.foldl_append]
    refine ⟨i1, ?_⟩
    rw [i2, h2, List.length_append]; omega

theorem countPass_spec (tbl : List Name) (b : Batch) (c c' : Counts) (h : c.core = c'.core) :
    (b.foldl (countDoc tbl) c).core = ((visits tbl b).foldl countVisit c').core ∧
    (b.foldl (countDoc tbl) c).totTFs = c.totTFs + (visits tbl b).length := by
  induction b generalizing c c' with
  | nil => exact ⟨h, rfl⟩
  | cons d b ih =>
    obtain ⟨h1, h2⟩ := countDoc_spec tbl d.visitOrder c c' h
    obtain ⟨i1, i2⟩ := ih (countDoc tbl c d) _ h1
    unfold visits
    rw [List.foldl_cons, List.flatMap_cons, List.foldl_append]
    refine ⟨i1, ?_⟩
    rw [i2]
    show (List.foldl (countField tbl) c d.visitOrder).totTFs + _ = _
    rw [h2, List.length_append]
    show _ = c.totTFs + ((d.visitOrder.flatMap (fieldVisits tbl)).length + (visits tbl b).length)
    unfold visits
    omega

theorem cinv_of_core {nF : Nat} {c c' : Counts} {vs : List Visit} {ks : List Key}
    (h : CInv nF c' vs ks) (e : c.core = c'.core) : CInv nF c vs ks := by
  obtain ⟨d, a, b, x, y⟩ := c
  obtain ⟨d', a', b', x', y'⟩ := c'
  simp only [Counts.core, Prod.mk.injEq] at e
  obtain ⟨rfl, rfl, rfl, rfl⟩ := e
  exact ⟨h.nodup, h.dlen, h.look, h.nT, h.nL, h.mem, h.sumT, h.sumL, h.totL⟩

/-- every visit's field id is a valid index of the field table -/
theorem visits_fid_lt (b : Batch) : ∀ v ∈ visits (fieldTable b) b, v.fid < (fieldTable b).length := by
  intro v hv
  unfold visits at hv
  obtain ⟨d, hd, hv⟩ := List.mem_flatMap.1 hv
  unfold docVisits at hv
  obtain ⟨f, hf, hv⟩ := List.mem_flatMap.1 hv
  unfold fieldVisits at hv
  obtain ⟨tok, _, rfl⟩ := List.mem_map.1 hv
  apply fieldIdOf_lt
  rw [mem_fieldTable]
  right
  unfold Spec.names
  exact List.mem_flatMap.2 ⟨d, hd, List.mem_map.2 ⟨f, hf, rfl⟩⟩

/-- the result of `realloc`'s count pass -/
theorem countPass_cinv (b : Batch) :
    ∃ ks, CInv (fieldTable b).length (countPass (fieldTable b) b) (visits (fieldTable b) b) ks ∧
      (countPass (fieldTable b) b).totTFs = (countPass (fieldTable b) b).nT.sum := by
  obtain ⟨ks, h⟩ := cinv_fold (fieldTable b).length (visits (fieldTable b) b) _ [] [] (cinv_init (fieldTable b))
    (visits_fid_lt b)
  obtain ⟨h1, h2⟩ := countPass_spec (fieldTable b) b _ _ rfl
  have hc : CInv (fieldTable b).length (countPass (fieldTable b) b) (visits (fieldTable b) b) ks :=
    cinv_of_core (by simpa using h) h1
  refine ⟨ks, hc, ?_⟩
  rw [hc.sumT]
  unfold countPass
  rw [h2]; simp

end Zap.Arr
