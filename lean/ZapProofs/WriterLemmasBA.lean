/-
  ZapProofs.WriterLemmasBA: bridging `ByteArray` + cursor (ZapModel/Layout.lean) to byte
  lists: `region b p l` is the list of the bytes of `b` in `[p, l)`; `Layout.uvLim` on the
  array does what `Writer.uv64` does on the region.
-/
import ZapModel.Layout
import ZapModel.Writer

namespace Zap.Writer.BA
open Zap Zap.Layout Zap.Writer

theorem toList_loop (b : ByteArray) : ∀ (n i : Nat) (r : List UInt8), b.size - i = n →
    ByteArray.toList.loop b i r = r.reverse ++ b.data.toList.drop i := by
  intro n
  induction n with
  | zero =>
    intro i r h
    rw [ByteArray.toList.loop]
    have : ¬ i < b.size := by omega
    rw [if_neg this, List.drop_eq_nil_of_le (by simp; omega)]
    simp
  | succ n ih =>
    intro i r h
    rw [ByteArray.toList.loop]
    have hi : i < b.size := by omega
    rw [if_pos hi, ih (i + 1) _ (by omega)]
    have : b.data.toList.drop i = b.get! i :: b.data.toList.drop (i + 1) := by
      rw [List.drop_eq_getElem_cons (by simpa using hi)]
      congr 1
      cases b with
      | mk d =>
        simp only [ByteArray.get!]
        have : i < d.size := hi
        simp [this]
    rw [this]
    simp

theorem toList_eq (b : ByteArray) : b.toList = b.data.toList := by
  unfold ByteArray.toList
  rw [toList_loop b _ 0 [] rfl]
  simp

theorem ofBA_eq (b : ByteArray) : ofBA b = b.data.toList.map UInt8.toNat := by
  unfold ofBA; rw [toList_eq]

theorem ofBA_length (b : ByteArray) : (ofBA b).length = b.size := by
  rw [ofBA_eq]; simp

theorem ofBA_getElem? (b : ByteArray) (i : Nat) (h : i < b.size) :
    (ofBA b)[i]? = some (b.get! i).toNat := by
  rw [ofBA_eq]
  cases b with
  | mk d =>
    have : i < d.size := h
    simp [ByteArray.get!, this]

/-- The bytes of the region `[p, l)` of the file (cut at the end of the file). -/
def region (b : ByteArray) (p l : Nat) : Bytes := ((ofBA b).take l).drop p

theorem region_eq_nil (b : ByteArray) (p l : Nat) (h : p ≥ l ∨ p ≥ b.size) : region b p l = [] := by
  unfold region
  apply List.drop_eq_nil_of_le
  rw [List.length_take, ofBA_length]
  omega

theorem region_cons (b : ByteArray) (p l : Nat) (h1 : p < l) (h2 : p < b.size) :
    region b p l = (b.get! p).toNat :: region b (p + 1) l := by
  unfold region
  have hlen : p < ((ofBA b).take l).length := by rw [List.length_take, ofBA_length]; omega
  rw [List.drop_eq_getElem_cons hlen]
  congr 1
  have := ofBA_getElem? b p h2
  rw [List.getElem_take]
  have h3 : p < (ofBA b).length := by rw [ofBA_length]; exact h2
  rw [List.getElem?_eq_getElem h3] at this
  exact Option.some.inj this

theorem region_length (b : ByteArray) (p l : Nat) : (region b p l).length = min l b.size - p := by
  unfold region
  rw [List.length_drop, List.length_take, ofBA_length]

theorem region_size (b : ByteArray) (p : Nat) : region b p b.size = (ofBA b).drop p := by
  unfold region
  rw [List.take_of_length_le (by rw [ofBA_length]; exact Nat.le_refl _)]

theorem region_drop (b : ByteArray) (p l n : Nat) : (region b p l).drop n = region b (p + n) l := by
  unfold region
  rw [List.drop_drop]

theorem region_take (b : ByteArray) (p l n : Nat) (h : p + n ≤ l) :
    (region b p l).take n = region b p (p + n) := by
  unfold region
  rw [List.take_drop, List.take_take, Nat.min_eq_left h]

theorem ofBA_extract (b : ByteArray) (s e : Nat) : ofBA (b.extract s e) = region b s e := by
  unfold region
  rw [ofBA_eq, ofBA_eq, ByteArray.data_extract]
  simp [List.map_drop, List.map_take, List.drop_take]

theorem size_toBA (bs : Bytes) : (toBA bs).size = bs.length := by
  simp [toBA, ByteArray.size]

theorem ofBA_toBA (bs : Bytes) (h : ∀ x ∈ bs, x < 256) : ofBA (toBA bs) = bs := by
  rw [ofBA_eq]
  simp only [toBA, Array.toList_map, List.map_map]
  rw [List.map_congr_left (g := id)]
  · simp
  · intro x hx
    have := h x hx
    simp [UInt8.toNat_ofNat']
    omega

/-! ### `uvLim` -/

theorem uvLimGo_sim (b : ByteArray) (lim : Nat) : ∀ (fuel pos sh acc v : Nat) (rest : Bytes),
    uv64Go fuel (region b pos lim) sh acc = some (v, rest) →
    ∃ p', uvLim.go b lim fuel pos sh acc = .ok (v, p') ∧ rest = region b p' lim ∧
      pos < p' ∧ p' ≤ lim ∧ p' ≤ b.size := by
  intro fuel
  induction fuel with
  | zero => intro pos sh acc v rest h; simp [uv64Go] at h
  | succ fuel ih =>
    intro pos sh acc v rest h
    by_cases hp : pos ≥ lim ∨ pos ≥ b.size
    · rw [region_eq_nil b pos lim hp] at h
      simp [uv64Go] at h
    · have h1 : pos < lim := by omega
      have h2 : pos < b.size := by omega
      rw [region_cons b pos lim h1 h2] at h
      rw [uvLim.go]
      simp only [hp, if_false]
      simp only [uv64Go] at h
      by_cases hx : (b.get! pos).toNat < 128
      · simp only [hx, if_true] at h ⊢
        by_cases hov : fuel = 0 ∧ (b.get! pos).toNat > 1
        · rw [if_pos hov] at h; cases h
        · rw [if_neg hov] at h ⊢
          simp only [Option.some.injEq, Prod.mk.injEq] at h
          refine ⟨pos + 1, ?_, h.2.symm, by omega, by omega, by omega⟩
          rw [← h.1]; rfl
      · simp only [hx, if_false] at h ⊢
        obtain ⟨p', e1, e2, e3, e4, e5⟩ := ih (pos + 1) _ _ v rest h
        exact ⟨p', e1, e2, by omega, e4, e5⟩

/-- Whatever `uv64` reads from the bytes of `[pos, lim)`, `Layout.uvLim` reads from the
    array, and it stops where the remaining bytes start. -/
theorem uvLim_sim (b : ByteArray) (pos lim v : Nat) (rest : Bytes)
    (h : uv64 (region b pos lim) = some (v, rest)) :
    ∃ p', uvLim b pos lim = .ok (v, p') ∧ rest = region b p' lim ∧ pos < p' ∧ p' ≤ lim ∧ p' ≤ b.size :=
  uvLimGo_sim b lim 10 pos 0 0 v rest h

theorem uv_sim (b : ByteArray) (pos v : Nat) (rest : Bytes)
    (h : uv64 ((ofBA b).drop pos) = some (v, rest)) :
    ∃ p', uv b pos = .ok (v, p') ∧ rest = (ofBA b).drop p' ∧ pos < p' ∧ p' ≤ b.size := by
  rw [← region_size] at h
  obtain ⟨p', e1, e2, e3, _, e5⟩ := uvLim_sim b pos b.size v rest h
  exact ⟨p', e1, by rw [e2, region_size], e3, e5⟩

end Zap.Writer.BA
