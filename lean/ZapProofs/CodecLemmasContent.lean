/-
  ZapProofs.CodecLemmasContent: part F, the doc-value content coder framing
  (contentcoder.go `Add`, `flushContents`, `Write`) against `contentDecode`.
  Snappy is abstract: any `compress` with `snappyDecode (compress x) = some x`.
-/
import ZapProofs.CodecLemmasInt
import ZapProofs.CodecLemmasCrc

namespace Zap.Codec
open Zap

/-! ### writer side (mirrors contentcoder.go) -/

structure ContentCoder where
  chunkSize : Nat
  lens : List Nat
  curr : Nat
  /-- `chunkMeta`: (DocNum, DocDvOffset) -/
  cmeta : List (Nat × Nat)
  /-- `chunkBuf` (uncompressed) -/
  buf : Bytes
  final : Bytes

def ContentCoder.new (cs maxDoc : Nat) : ContentCoder :=
  { chunkSize := cs, lens := List.replicate (maxDoc / cs + 1) 0, curr := 0, cmeta := [],
    buf := [], final := [] }

/-- `chunkMetaBuf` at flush time: count, then (docNum, offset) pairs. -/
def metaBytes (m : List (Nat × Nat)) : Bytes :=
  putUvarint m.length ++ putUvarints (m.flatMap (fun x => [x.1, x.2]))

/-- `flushContents` (non-progressive; with `progressiveWrite` the same bytes
    reach the writer earlier). -/
def ContentCoder.flush (compress : Bytes → Bytes) (c : ContentCoder) : ContentCoder :=
  { c with
    final := c.final ++ (metaBytes c.cmeta ++ compress c.buf),
    lens := c.lens.set c.curr ((compress c.buf).length + (metaBytes c.cmeta).length) }

/-- `Add(docNum, vals)`. -/
def ContentCoder.add (compress : Bytes → Bytes) (c : ContentCoder) (doc : Nat) (vals : Bytes) :
    ContentCoder :=
  let chunk := doc / c.chunkSize
  let c := if chunk ≠ c.curr then
      { c.flush compress with buf := [], cmeta := [], curr := chunk } else c
  { c with buf := c.buf ++ vals, cmeta := c.cmeta ++ [(doc, c.buf.length + vals.length)] }

/-- `Write`: data, chunk end offsets, length of the offsets (8 bytes BE),
    number of chunks (8 bytes BE). -/
def ContentCoder.write (c : ContentCoder) : Bytes :=
  c.final ++ putUvarints (endOffsets c.lens)
    ++ beBytes 8 (putUvarints (endOffsets c.lens)).length ++ beBytes 8 c.lens.length

def contentEncode (compress : Bytes → Bytes) (cs maxDoc : Nat) (adds : List (Nat × Bytes)) :
    Bytes :=
  ((adds.foldl (fun c a => c.add compress a.1 a.2) (ContentCoder.new cs maxDoc)).flush
    compress).write

/-! ### what each chunk contains -/

def chunkDocs (cs : Nat) (p : List (Nat × Bytes)) (k : Nat) : List (Nat × Bytes) :=
  p.filter (fun a => a.1 / cs = k)

def metaFrom (start : Nat) : List (Nat × Bytes) → List (Nat × Nat)
  | [] => []
  | a :: rest => (a.1, start + a.2.length) :: metaFrom (start + a.2.length) rest

def flatVals (docs : List (Nat × Bytes)) : Bytes := docs.flatMap (·.2)

def visited (cs : Nat) (p : List (Nat × Bytes)) (k : Nat) : Bool :=
  k == 0 || p.any (fun a => a.1 / cs == k)

def chunkSeg (compress : Bytes → Bytes) (docs : List (Nat × Bytes)) : Bytes :=
  metaBytes (metaFrom 0 docs) ++ compress (flatVals docs)

def seg (compress : Bytes → Bytes) (cs : Nat) (p : List (Nat × Bytes)) (k : Nat) : Bytes :=
  if visited cs p k then chunkSeg compress (chunkDocs cs p k) else []

theorem metaFrom_snoc (docs : List (Nat × Bytes)) (a : Nat × Bytes) : ∀ s,
    metaFrom s (docs ++ [a])
      = metaFrom s docs ++ [(a.1, s + (flatVals docs).length + a.2.length)] := by
  induction docs with
  | nil => intro s; simp [metaFrom, flatVals]
  | cons d docs ih =>
    intro s
    simp only [List.cons_append, metaFrom, ih, flatVals, List.flatMap_cons, List.length_append]
    simp only [Nat.add_assoc]

theorem chunkDocs_snoc_ne (cs : Nat) (p : List (Nat × Bytes)) (a : Nat × Bytes) (k : Nat)
    (h : a.1 / cs ≠ k) : chunkDocs cs (p ++ [a]) k = chunkDocs cs p k := by
  simp [chunkDocs, List.filter_append, h]

theorem chunkDocs_snoc_eq (cs : Nat) (p : List (Nat × Bytes)) (a : Nat × Bytes) :
    chunkDocs cs (p ++ [a]) (a.1 / cs) = chunkDocs cs p (a.1 / cs) ++ [a] := by
  simp [chunkDocs, List.filter_append]

theorem chunkDocs_eq_nil (cs : Nat) (p : List (Nat × Bytes)) (k : Nat)
    (h : ∀ a ∈ p, a.1 / cs ≠ k) : chunkDocs cs p k = [] := by
  unfold chunkDocs
  rw [List.filter_eq_nil_iff]
  intro a ha
  simpa using h a ha

theorem visited_snoc_ne (cs : Nat) (p : List (Nat × Bytes)) (a : Nat × Bytes) (k : Nat)
    (h : a.1 / cs ≠ k) : visited cs (p ++ [a]) k = visited cs p k := by
  have : (a.1 / cs == k) = false := by simpa using h
  simp [visited, this]

theorem visited_snoc_eq (cs : Nat) (p : List (Nat × Bytes)) (a : Nat × Bytes) :
    visited cs (p ++ [a]) (a.1 / cs) = true := by
  simp [visited]

theorem visited_false (cs : Nat) (p : List (Nat × Bytes)) (k : Nat) (hk : k ≠ 0)
    (h : ∀ a ∈ p, a.1 / cs ≠ k) : visited cs p k = false := by
  simp only [visited, Bool.or_eq_false_iff, beq_eq_false_iff_ne, ne_eq, hk, not_false_eq_true,
    true_and]
  rw [List.any_eq_false]
  intro a ha
  simpa using h a ha

theorem seg_snoc_ne (compress : Bytes → Bytes) (cs : Nat) (p : List (Nat × Bytes))
    (a : Nat × Bytes) (k : Nat) (h : a.1 / cs ≠ k) :
    seg compress cs (p ++ [a]) k = seg compress cs p k := by
  simp [seg, visited_snoc_ne cs p a k h, chunkDocs_snoc_ne cs p a k h]

theorem seg_eq_nil (compress : Bytes → Bytes) (cs : Nat) (p : List (Nat × Bytes)) (k : Nat)
    (hk : k ≠ 0) (h : ∀ a ∈ p, a.1 / cs ≠ k) : seg compress cs p k = [] := by
  simp [seg, visited_false cs p k hk h]

/-- Invariant of the content coder after the adds `p`. -/
structure CInv (compress : Bytes → Bytes) (cs n : Nat) (p : List (Nat × Bytes))
    (st : ContentCoder) : Prop where
  hcs : st.chunkSize = cs
  hcurr : st.curr < n
  hle : ∀ a ∈ p, a.1 / cs ≤ st.curr
  hvis : visited cs p st.curr = true
  hbuf : st.buf = flatVals (chunkDocs cs p st.curr)
  hmeta : st.cmeta = metaFrom 0 (chunkDocs cs p st.curr)
  hfinal : st.final = ((List.range st.curr).map (seg compress cs p)).flatten
  hlens : st.lens =
    (List.range n).map (fun k => if k < st.curr then (seg compress cs p k).length else 0)

theorem CInv_new (compress : Bytes → Bytes) (cs maxDoc : Nat) :
    CInv compress cs (maxDoc / cs + 1) [] (ContentCoder.new cs maxDoc) where
  hcs := rfl
  hcurr := by simp [ContentCoder.new]
  hle := by simp
  hvis := by simp [ContentCoder.new, visited]
  hbuf := by simp [ContentCoder.new, chunkDocs, flatVals]
  hmeta := by simp [ContentCoder.new, chunkDocs, metaFrom]
  hfinal := by simp [ContentCoder.new]
  hlens := by
    simp only [ContentCoder.new, Nat.not_lt_zero, if_false]
    rw [List.map_const']; simp

theorem CInv_add {compress : Bytes → Bytes} {cs n : Nat} {p : List (Nat × Bytes)}
    {st : ContentCoder} (a : Nat × Bytes)
    (inv : CInv compress cs n p st) (hge : st.curr ≤ a.1 / cs) (hlt : a.1 / cs < n) :
    CInv compress cs n (p ++ [a]) (st.add compress a.1 a.2)
      ∧ (st.add compress a.1 a.2).curr = a.1 / cs := by
  obtain ⟨hcs, hcurr, hle, hvis, hbuf, hmeta, hfinal, hlens⟩ := inv
  by_cases h : a.1 / cs = st.curr
  · have hadd : st.add compress a.1 a.2 =
        { st with buf := st.buf ++ a.2,
                  cmeta := st.cmeta ++ [(a.1, st.buf.length + a.2.length)] } := by
      simp [ContentCoder.add, hcs, h]
    rw [hadd]
    refine ⟨⟨hcs, hcurr, ?_, ?_, ?_, ?_, ?_, ?_⟩, h.symm⟩
    · intro b hb
      rcases List.mem_append.mp hb with hb | hb
      · exact hle b hb
      · have : b = a := by simpa using hb
        subst this; simp only; omega
    · simp only; rw [← h]; exact visited_snoc_eq cs p a
    · simp only
      rw [← h, chunkDocs_snoc_eq, h, hbuf]
      simp [flatVals]
    · simp only
      rw [← h, chunkDocs_snoc_eq, h, metaFrom_snoc, hmeta, hbuf, Nat.zero_add]
    · simp only
      rw [hfinal]
      congr 1
      apply List.map_congr_left
      intro k hk
      have hk : k < st.curr := List.mem_range.mp hk
      rw [seg_snoc_ne]; omega
    · simp only
      rw [hlens]
      apply List.map_congr_left
      intro k _
      by_cases hk : k < st.curr
      · simp only [hk, if_true]; rw [seg_snoc_ne]; omega
      · simp [hk]
  · have hgt : st.curr < a.1 / cs := by omega
    have hadd : st.add compress a.1 a.2 =
        { chunkSize := st.chunkSize,
          lens := st.lens.set st.curr ((compress st.buf).length + (metaBytes st.cmeta).length),
          curr := a.1 / cs, cmeta := [(a.1, a.2.length)], buf := a.2,
          final := st.final ++ (metaBytes st.cmeta ++ compress st.buf) } := by
      simp [ContentCoder.add, ContentCoder.flush, hcs, h]
    have hnil : ∀ k, st.curr < k → seg compress cs p k = [] := by
      intro k hk
      apply seg_eq_nil _ _ _ _ (by omega)
      intro b hb
      have := hle b hb
      omega
    have hdocs : chunkDocs cs p (a.1 / cs) = [] := by
      apply chunkDocs_eq_nil
      intro b hb
      have := hle b hb
      omega
    have hseg : metaBytes st.cmeta ++ compress st.buf = seg compress cs p st.curr := by
      simp [seg, hvis, chunkSeg, hmeta, hbuf]
    rw [hadd]
    refine ⟨⟨hcs, hlt, ?_, ?_, ?_, ?_, ?_, ?_⟩, rfl⟩
    · intro b hb
      rcases List.mem_append.mp hb with hb | hb
      · have := hle b hb; simp only; omega
      · have : b = a := by simpa using hb
        subst this; simp only; omega
    · exact visited_snoc_eq cs p a
    · simp only
      rw [chunkDocs_snoc_eq, hdocs]
      simp [flatVals]
    · simp only
      rw [chunkDocs_snoc_eq, hdocs]
      simp [metaFrom]
    · simp only
      rw [hseg, hfinal, ← flatten_range_succ]
      have e1 : (List.range (a.1 / cs)).map (seg compress cs (p ++ [a]))
          = (List.range (a.1 / cs)).map (seg compress cs p) := by
        apply List.map_congr_left
        intro k hk
        have hk : k < a.1 / cs := List.mem_range.mp hk
        rw [seg_snoc_ne]; omega
      rw [e1]
      exact (flatten_range_extend _ (st.curr + 1) (a.1 / cs) (by omega)
        (fun k h1 _ => hnil k (by omega))).symm
    · simp only
      have hl : (compress st.buf).length + (metaBytes st.cmeta).length
          = (seg compress cs p st.curr).length := by
        rw [← hseg, List.length_append, Nat.add_comm]
      rw [hl, hlens]
      have := lens_set (fun k => (seg compress cs p k).length) n st.curr (a.1 / cs) hgt
        (fun k h1 _ => by simp [hnil k h1])
      rw [this]
      apply List.map_congr_left
      intro k _
      by_cases hk : k < a.1 / cs
      · simp only [hk, if_true]; rw [seg_snoc_ne]; omega
      · simp [hk]

theorem CInv_foldl {compress : Bytes → Bytes} {cs maxDoc : Nat} (rest : List (Nat × Bytes)) :
    ∀ (p : List (Nat × Bytes)) (st : ContentCoder), CInv compress cs (maxDoc / cs + 1) p st →
      rest.Pairwise (fun a b => a.1 ≤ b.1) → (∀ a ∈ rest, st.curr ≤ a.1 / cs) →
      (∀ a ∈ rest, a.1 ≤ maxDoc) →
      CInv compress cs (maxDoc / cs + 1) (p ++ rest)
        (rest.foldl (fun c a => c.add compress a.1 a.2) st) := by
  induction rest with
  | nil => intro p st inv _ _ _; simpa using inv
  | cons a rest ih =>
    intro p st inv hmono hge hmax
    have hpw := List.pairwise_cons.mp hmono
    obtain ⟨inv', hc'⟩ := CInv_add a inv (hge a (by simp))
      (by have := hmax a (by simp)
          have : a.1 / cs ≤ maxDoc / cs := Nat.div_le_div_right this
          omega)
    have := ih (p ++ [a]) (st.add compress a.1 a.2) inv' hpw.2
      (by intro b hb
          rw [hc']
          exact Nat.div_le_div_right (hpw.1 b hb))
      (fun b hb => hmax b (by simp [hb]))
    simpa [List.append_assoc] using this

/-- State after all adds and the final flush (`Close`). -/
theorem content_closed_state (compress : Bytes → Bytes) (cs maxDoc : Nat)
    (adds : List (Nat × Bytes))
    (hmono : adds.Pairwise (fun a b => a.1 ≤ b.1)) (hmax : ∀ a ∈ adds, a.1 ≤ maxDoc) :
    let st := (adds.foldl (fun c a => c.add compress a.1 a.2) (ContentCoder.new cs maxDoc)).flush
      compress
    let segs := (List.range (maxDoc / cs + 1)).map (seg compress cs adds)
    st.lens = segs.map List.length ∧ st.final = segs.flatten := by
  have inv := CInv_foldl (compress := compress) (cs := cs) (maxDoc := maxDoc) adds [] _
    (CInv_new compress cs maxDoc) hmono (by intro a _; simp [ContentCoder.new]) hmax
  rw [List.nil_append] at inv
  obtain ⟨_, hcurr, hle, hvis, hbuf, hmeta, hfinal, hlens⟩ := inv
  generalize adds.foldl (fun c a => c.add compress a.1 a.2) (ContentCoder.new cs maxDoc) = st at *
  have hnil : ∀ k, st.curr < k → seg compress cs adds k = [] := by
    intro k hk
    apply seg_eq_nil _ _ _ _ (by omega)
    intro b hb
    have := hle b hb
    omega
  have hseg : metaBytes st.cmeta ++ compress st.buf = seg compress cs adds st.curr := by
    simp [seg, hvis, chunkSeg, hmeta, hbuf]
  simp only [ContentCoder.flush]
  constructor
  · have hl : (compress st.buf).length + (metaBytes st.cmeta).length
        = (seg compress cs adds st.curr).length := by
      rw [← hseg, List.length_append, Nat.add_comm]
    rw [hl, hlens]
    have := lens_set (fun k => (seg compress cs adds k).length) (maxDoc / cs + 1) st.curr
      (maxDoc / cs + 1) hcurr (fun k h1 _ => by simp [hnil k h1])
    rw [this, List.map_map]
    apply List.map_congr_left
    intro k hk
    have hk : k < maxDoc / cs + 1 := List.mem_range.mp hk
    simp [hk]
  · rw [hseg, hfinal, ← flatten_range_succ]
    exact (flatten_range_extend _ (st.curr + 1) (maxDoc / cs + 1) (by omega)
      (fun k h1 _ => hnil k (by omega))).symm

/-! ### decoder side -/

theorem pairs_cons2 (raw : Bytes) (d off : Nat) (m : List Nat) (start : Nat) :
    contentDecode.pairs raw (d :: off :: m) start
      = (d, (raw.drop start).take (off - start)) :: contentDecode.pairs raw m off := by
  simp [contentDecode.pairs]

theorem pairs_nil (raw : Bytes) (start : Nat) : contentDecode.pairs raw [] start = [] := by
  simp [contentDecode.pairs]

def flatMeta (m : List (Nat × Nat)) : List Nat := m.flatMap (fun x => [x.1, x.2])

theorem flatMeta_length (m : List (Nat × Nat)) : (flatMeta m).length = 2 * m.length := by
  induction m with
  | nil => rfl
  | cons x m ih => simp [flatMeta] at ih ⊢; omega

theorem metaFrom_length (docs : List (Nat × Bytes)) : ∀ s, (metaFrom s docs).length = docs.length := by
  induction docs with
  | nil => intro s; rfl
  | cons a docs ih => intro s; simp [metaFrom, ih]

theorem pairs_metaFrom (raw : Bytes) (docs : List (Nat × Bytes)) : ∀ (start : Nat) (post : Bytes),
    raw.drop start = flatVals docs ++ post →
    contentDecode.pairs raw (flatMeta (metaFrom start docs)) start = docs := by
  induction docs with
  | nil => intro start post _; simp [metaFrom, flatMeta, pairs_nil]
  | cons a docs ih =>
    intro start post h
    have h' : raw.drop start = a.2 ++ (flatVals docs ++ post) := by
      rw [h]; simp [flatVals]
    simp only [metaFrom, flatMeta, List.flatMap_cons, List.cons_append, List.nil_append, pairs_cons2]
    rw [Nat.add_sub_cancel_left, h', List.take_left' rfl]
    congr 1
    apply ih (start + a.2.length) post
    rw [← List.drop_drop, h', List.drop_left' rfl]

theorem frame_facts (final offs b1 b2 : Bytes) (h1 : b1.length = 8) (h2 : b2.length = 8) :
    let bs := final ++ offs ++ b1 ++ b2
    bs.length = final.length + offs.length + 16 ∧
    bs.drop (bs.length - 8) = b2 ∧
    (bs.drop (bs.length - 16)).take 8 = b1 ∧
    bs.take (bs.length - 16 - offs.length) = final ∧
    (bs.drop (bs.length - 16 - offs.length)).take offs.length = offs := by
  intro bs
  have hlen : bs.length = final.length + offs.length + 16 := by
    simp only [bs, List.length_append, h1, h2]
  refine ⟨hlen, ?_, ?_, ?_, ?_⟩
  · rw [hlen]
    exact List.drop_left' (by simp only [List.length_append, h1]; omega)
  · rw [hlen]
    have : bs = (final ++ offs) ++ (b1 ++ b2) := by simp [bs]
    rw [this, List.drop_left' (by simp only [List.length_append]; omega), List.take_left' h1]
  · rw [hlen]
    have : bs = final ++ (offs ++ b1 ++ b2) := by simp [bs]
    rw [this, List.take_left' (by omega)]
  · rw [hlen]
    have : bs = final ++ (offs ++ (b1 ++ b2)) := by simp [bs]
    rw [this, List.drop_left' (by omega), List.take_left' rfl]

theorem foldr_some {α : Type} (f : Nat → Option (List α) → Option (List α)) (v : Nat → α)
    (l : List Nat) (h : ∀ c ∈ l, ∀ acc, f c (some acc) = some (v c :: acc)) :
    l.foldr f (some []) = some (l.map v) := by
  induction l with
  | nil => rfl
  | cons c l ih =>
    rw [List.foldr_cons, ih (fun c hc => h c (by simp [hc])), h c (by simp)]
    rfl

theorem sumList_take_succ (l : List Nat) : ∀ (c : Nat) (h : c < l.length),
    sumList (l.take (c + 1)) = sumList (l.take c) + l[c] := by
  induction l with
  | nil => intro c h; simp at h
  | cons x l ih =>
    intro c h
    cases c with
    | zero => simp [sumList]
    | succ c =>
      simp only [List.take_succ_cons, sumList_cons, List.getElem_cons_succ]
      rw [ih c (by simpa using h)]
      omega

theorem metaBytes_eq (m : List (Nat × Nat)) :
    metaBytes m = putUvarint m.length ++ putUvarints (flatMeta m) := rfl

theorem seg_nil_docs (compress : Bytes → Bytes) (cs : Nat) (p : List (Nat × Bytes)) (k : Nat)
    (h : seg compress cs p k = []) : chunkDocs cs p k = [] := by
  unfold seg at h
  split at h
  · exfalso
    have := congrArg List.length h
    have hp := putUvarint_length_pos (metaFrom 0 (chunkDocs cs p k)).length
    simp only [chunkSeg, metaBytes, List.length_append, List.length_nil] at this
    omega
  · rename_i hv
    apply chunkDocs_eq_nil
    intro a ha hk
    apply hv
    simp only [visited, Bool.or_eq_true, beq_iff_eq, List.any_eq_true]
    exact Or.inr ⟨a, ha, hk⟩

theorem seg_ne_nil (compress : Bytes → Bytes) (cs : Nat) (p : List (Nat × Bytes)) (k : Nat)
    (h : seg compress cs p k ≠ []) : seg compress cs p k = chunkSeg compress (chunkDocs cs p k) := by
  unfold seg at h ⊢
  split
  · rfl
  · rename_i hv; simp [hv] at h

theorem content_roundtrip (compress : Bytes → Bytes)
    (hsn : ∀ x, snappyDecode (compress x) = some x)
    (cs maxDoc : Nat) (adds : List (Nat × Bytes))
    (hmono : adds.Pairwise (fun a b => a.1 ≤ b.1)) (hmax : ∀ a ∈ adds, a.1 ≤ maxDoc)
    (hsize : (contentEncode compress cs maxDoc adds).length < 2 ^ 64) :
    contentDecode (contentEncode compress cs maxDoc adds)
      = some ((List.range (maxDoc / cs + 1)).map (fun c => adds.filter (fun a => a.1 / cs = c))) := by
  obtain ⟨hlens, hfinal⟩ := content_closed_state compress cs maxDoc adds hmono hmax
  unfold contentEncode ContentCoder.write at *
  generalize ((adds.foldl (fun c a => c.add compress a.1 a.2) (ContentCoder.new cs maxDoc)).flush
      compress) = st at *
  have hn : st.lens.length = maxDoc / cs + 1 := by rw [hlens]; simp
  obtain ⟨f1, f2, f3, f4, f5⟩ := frame_facts st.final (putUvarints (endOffsets st.lens))
    (beBytes 8 (putUvarints (endOffsets st.lens)).length) (beBytes 8 st.lens.length)
    (beBytes_length _ _) (beBytes_length _ _)
  try simp only at f1 f2 f3 f4 f5
  rw [f1] at hsize
  have hnle : st.lens.length ≤ (putUvarints (endOffsets st.lens)).length := by
    have := putUvarints_length_ge (endOffsets st.lens)
    rwa [endOffsets_length] at this
  unfold contentDecode
  simp only [f2, f3]
  rw [be64_beBytes 8 _ (by omega), be64_beBytes 8 _ (by omega)]
  simp only [f4, f5]
  rw [f1, if_neg (by omega), if_neg (by omega)]
  have hr := readN_putUvarints (endOffsets st.lens) []
  rw [endOffsets_length, List.append_nil] at hr
  rw [hr]
  simp only
  rw [hn]
  apply foldr_some
  intro c hc acc
  have hc : c < maxDoc / cs + 1 := List.mem_range.mp hc
  have hcl : c < st.lens.length := by omega
  rw [chunkBoundary_endOffsets st.lens c hcl]
  have hslice := chunk_slice ((List.range (maxDoc / cs + 1)).map (seg compress cs adds)) c
    (by simpa using hc)
  rw [← hlens, ← hfinal, chunkBoundary_endOffsets st.lens c hcl] at hslice
  simp only [List.getElem_map, List.getElem_range] at hslice
  have hlc : st.lens[c] = (seg compress cs adds c).length := by
    simp [hlens]
  have hsum := sumList_take_succ st.lens c hcl
  simp only
  by_cases hnil : seg compress cs adds c = []
  · have : sumList (st.lens.take c) ≥ sumList (st.lens.take (c + 1)) := by
      rw [hsum, hlc, hnil]; simp
    rw [if_pos this]
    have := seg_nil_docs compress cs adds c hnil
    unfold chunkDocs at this
    rw [this]
  · have hpos : 0 < (seg compress cs adds c).length := List.length_pos_iff.mpr hnil
    rw [if_neg (by omega), hslice, seg_ne_nil compress cs adds c hnil]
    unfold chunkSeg
    rw [metaBytes_eq, List.append_assoc, uvarint_putUvarint]
    simp only
    have hl2 : 2 * (metaFrom 0 (chunkDocs cs adds c)).length
        = (flatMeta (metaFrom 0 (chunkDocs cs adds c))).length := (flatMeta_length _).symm
    rw [hl2, readN_putUvarints]
    simp only
    rw [hsn]
    simp only
    rw [pairs_metaFrom _ _ 0 [] (by simp)]
    rfl

/-! ### the snappy hypothesis is satisfiable

  A (poor but valid) snappy encoder: every byte as a one-byte literal. -/

def snappyLit (x : Bytes) : Bytes := putUvarint x.length ++ x.flatMap (fun b => [0, b])

theorem snappy_go_lit (x : Bytes) : ∀ (fuel : Nat) (out : Bytes), x.length + 1 ≤ fuel →
    snappyDecode.go fuel (x.flatMap (fun b => [0, b])) out = some (out ++ x) := by
  induction x with
  | nil =>
    intro fuel out h
    cases fuel with
    | zero => omega
    | succ fuel => simp [snappyDecode.go]
  | cons b x ih =>
    intro fuel out h
    cases fuel with
    | zero => omega
    | succ fuel =>
      simp only [List.flatMap_cons, List.cons_append, List.nil_append, snappyDecode.go]
      have := ih fuel (out ++ [b]) (by simpa using h)
      simpa using this

theorem lit_length (x : Bytes) : (x.flatMap (fun b => [0, b])).length = 2 * x.length := by
  induction x with
  | nil => rfl
  | cons b x ih => simp only [List.flatMap_cons, List.length_append, ih, List.length_cons]; simp; omega

theorem snappyDecode_snappyLit (x : Bytes) : snappyDecode (snappyLit x) = some x := by
  unfold snappyDecode snappyLit
  rw [uvarint_putUvarint]
  simp only
  rw [snappy_go_lit x _ [] (by rw [lit_length]; omega)]
  simp

theorem content_roundtrip_lit (cs maxDoc : Nat) (adds : List (Nat × Bytes))
    (hmono : adds.Pairwise (fun a b => a.1 ≤ b.1)) (hmax : ∀ a ∈ adds, a.1 ≤ maxDoc)
    (hsize : (contentEncode snappyLit cs maxDoc adds).length < 2 ^ 64) :
    contentDecode (contentEncode snappyLit cs maxDoc adds)
      = some ((List.range (maxDoc / cs + 1)).map (fun c => adds.filter (fun a => a.1 / cs = c))) :=
  content_roundtrip snappyLit snappyDecode_snappyLit cs maxDoc adds hmono hmax hsize

end Zap.Codec
