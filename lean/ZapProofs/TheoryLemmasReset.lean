/-
  Lemmas for ZapModel.Theory.Reset: why `zeroThenTruncate` (and the other zeroing kinds) is enough
  where `truncate` is not, and when `truncate` is nevertheless harmless.
-/
import ZapModel.Theory.Reset

namespace Zap.Theory.Reset
open Zap.Gen

/-- The zeroing kinds: after them the whole backing array is zero (or gone). -/
def zeroing : ResetKind → Bool
  | .setNil | .zeroThenTruncate | .clearEachThenTruncate | .deleteAllKeys | .scalarZero => true
  | _ => false

theorem length_zeroPrefix (n : Nat) (l : List Nat) : (zeroPrefix n l).length = l.length := by
  induction n generalizing l with
  | zero => rfl
  | succ n ih => cases l <;> simp [zeroPrefix, ih]

theorem getD_zeroPrefix (n : Nat) (l : List Nat) (i : Nat) :
    (zeroPrefix n l).getD i 0 = if i < n then 0 else l.getD i 0 := by
  induction n generalizing l i with
  | zero => simp [zeroPrefix]
  | succ n ih =>
    cases l with
    | nil => simp [zeroPrefix]
    | cons a l =>
      cases i with
      | zero => simp [zeroPrefix]
      | succ i =>
        have := ih l i
        simp only [List.getD_eq_getElem?_getD] at this
        simpa [zeroPrefix] using this

theorem getD_replicate_zero (n i : Nat) : (List.replicate n 0).getD i 0 = 0 := by
  simp only [List.getD_eq_getElem?_getD, List.getElem?_replicate]
  split <;> rfl

theorem getD_set (l : List Nat) (k v i : Nat) :
    (l.set k v).getD i 0 = if i = k ∧ k < l.length then v else l.getD i 0 := by
  simp only [List.getD_eq_getElem?_getD, List.getElem?_set]
  by_cases hik : k = i
  · subst hik
    by_cases hk : k < l.length
    · simp [hk]
    · simp [hk]
  · have : ¬ (i = k) := fun h => hik h.symm
    simp [hik, this]

/-! ### `TailZero` is an invariant of everything a build does to a slice -/

theorem tailZero_fresh (n : Nat) : TailZero (Slice.fresh n) := by
  intro i _; exact getD_replicate_zero n i

theorem allZero_fresh (n : Nat) : AllZero (Slice.fresh n) := by
  intro i; exact getD_replicate_zero n i

theorem tailZero_write (s : Slice) (k v : Nat) (h : TailZero s) : TailZero (s.write k v) := by
  unfold Slice.write
  split
  · rename_i hk
    intro i hi
    simp only at hi ⊢
    rw [getD_set]
    have : ¬ (i = k) := by omega
    simp [this]; exact h i hi
  · exact h

theorem tailZero_reslice (s : Slice) (n : Nat) (h : TailZero s) (hn : s.len ≤ n) :
    TailZero (s.reslice n) := by
  unfold Slice.reslice
  split
  · intro i hi; exact h i (by simp only at hi; omega)
  · exact tailZero_fresh n

theorem tailZero_append (s : Slice) (v : Nat) (h : TailZero s) : TailZero (s.append v) := by
  unfold Slice.append
  split
  · intro i hi
    simp only at hi ⊢
    rw [getD_set]
    have : ¬ (i = s.len) := by omega
    simp [this]; exact h i (by omega)
  · rename_i hcap
    intro i hi
    simp only at hi ⊢
    simp only [List.getD_eq_getElem?_getD]
    rw [List.getElem?_eq_none]
    · rfl
    · simp; omega

theorem tailZero_apply (s : Slice) (op : SOp) (h : TailZero s) : TailZero (op.apply s) := by
  cases op with
  | write i v => exact tailZero_write s i v h
  | append v => exact tailZero_append s v h
  | grow n =>
    simp only [SOp.apply]
    split
    · rename_i hn; exact tailZero_reslice s n h hn
    · exact h

theorem tailZero_runOps (s : Slice) (ops : List SOp) (h : TailZero s) : TailZero (runOps s ops) := by
  induction ops generalizing s with
  | nil => exact h
  | cons op ops ih => exact ih _ (tailZero_apply s op h)

/-! ### After a zeroing reset nothing stale is left -/

theorem allZero_of_zeroing (k : ResetKind) (s : Slice) (hk : zeroing k = true) (h : TailZero s) :
    AllZero (applyReset k s) ∧ (applyReset k s).len = 0 := by
  have hz : AllZero ⟨zeroPrefix s.len s.data, 0⟩ := by
    intro i
    simp only
    rw [getD_zeroPrefix]
    split
    · rfl
    · exact h i (by omega)
  cases k with
  | setNil => exact ⟨fun i => by simp [applyReset], rfl⟩
  | zeroThenTruncate => exact ⟨hz, rfl⟩
  | clearEachThenTruncate => exact ⟨hz, rfl⟩
  | deleteAllKeys => exact ⟨fun i => by simp [applyReset], rfl⟩
  | scalarZero => exact ⟨fun i => by simp [applyReset], rfl⟩
  | truncate => simp [zeroing] at hk
  | bufferReset => simp [zeroing] at hk
  | notReset => simp [zeroing] at hk

theorem read_of_allZero (s : Slice) (h : AllZero s) (n i : Nat) : (s.reslice n).read i = 0 := by
  unfold Slice.reslice Slice.read
  split
  · simp only; split
    · exact h i
    · rfl
  · split
    · exact getD_replicate_zero n i
    · rfl

/-- GENERIC LEMMA (why zeroing matters): take ANY slice a build can produce (from `make`, by any
    writes, appends and grows), reset it with a zeroing kind, re-slice it to ANY `n` (within
    capacity or not) and read ANY index: the result is the zero value. -/
theorem read_after_zeroing (k : ResetKind) (hk : zeroing k = true) (cap : Nat) (ops : List SOp)
    (n i : Nat) :
    ((applyReset k (runOps (Slice.fresh cap) ops)).reslice n).read i = 0 :=
  read_of_allZero _
    (allZero_of_zeroing k _ hk (tailZero_runOps _ ops (tailZero_fresh cap))).1 n i

/-- ... whereas after `truncate` the same re-slice exposes the previous content. -/
theorem stale_after_truncate :
    ∃ (cap : Nat) (ops : List SOp) (n i : Nat),
      ((applyReset .truncate (runOps (Slice.fresh cap) ops)).reslice n).read i ≠ 0 :=
  ⟨3, [.write 2 1], 3, 2, by decide⟩

/-- ... and so it does without any reset. -/
theorem stale_after_notReset :
    ∃ (cap : Nat) (ops : List SOp) (i : Nat),
      (applyReset .notReset (runOps (Slice.fresh cap) ops)).read i ≠ 0 :=
  ⟨3, [.write 2 1], 2, by decide⟩

/-! ### When `truncate` is harmless: append-only use, or overwrite-before-read -/

/-- What the program can see of a slice. -/
def Slice.visible (s : Slice) : List Nat := s.data.take s.len

def Slice.WF (s : Slice) : Prop := s.len ≤ s.data.length

theorem wf_append (s : Slice) (v : Nat) (h : s.WF) : (s.append v).WF := by
  unfold Slice.append Slice.WF at *
  split
  · simp; omega
  · simp; omega

theorem visible_append (s : Slice) (v : Nat) (h : s.WF) :
    (s.append v).visible = s.visible ++ [v] := by
  unfold Slice.append Slice.visible Slice.WF at *
  split
  · rename_i hlt
    simp only
    apply List.ext_getElem?
    intro i
    simp only [List.getElem?_take, List.getElem?_set, List.getElem?_append, List.length_take]
    have hmin : min s.len s.data.length = s.len := by omega
    rw [hmin]
    by_cases h1 : i < s.len
    · have : ¬ (s.len = i) := by omega
      simp [h1, this, Nat.lt_succ_of_lt h1]
    · by_cases h2 : i = s.len
      · subst h2; simp [hlt]
      · have h3 : ¬ (i < s.len + 1) := by omega
        have h4 : ¬ (i - s.len = 0) := by omega
        simp [h1, h3]
        cases hi : i - s.len with
        | zero => omega
        | succ k => simp
  · simp only
    apply List.take_of_length_le
    simp; omega

def appendAll (s : Slice) (vs : List Nat) : Slice := vs.foldl Slice.append s

theorem visible_appendAll (s : Slice) (vs : List Nat) (h : s.WF) :
    (appendAll s vs).visible = s.visible ++ vs ∧ (appendAll s vs).WF := by
  induction vs generalizing s with
  | nil => simp [appendAll, h]
  | cons v vs ih =>
    have := ih (s.append v) (wf_append s v h)
    simp only [appendAll, List.foldl_cons] at this ⊢
    rw [this.1, visible_append s v h]
    exact ⟨by simp, this.2⟩

/-- GENERIC LEMMA (truncate + append-only): after `x = x[:0]`, if the field is only appended
    to, what is visible is exactly what was appended - whatever the capacity held.  This is
    the justification for `bufferReset` and for the allow-listed fields that are "appended from
    length 0". -/
theorem visible_after_truncate_appends (s : Slice) (vs : List Nat) :
    (appendAll (applyReset .truncate s) vs).visible = vs := by
  have hwf : (applyReset .truncate s).WF := by simp [applyReset, Slice.WF]
  have := (visible_appendAll _ vs hwf).1
  simpa [applyReset, Slice.visible] using this

theorem read_write (s : Slice) (k v i : Nat) (h : s.WF) :
    (s.write k v).read i = if i = k ∧ k < s.len then v else s.read i := by
  unfold Slice.write Slice.read Slice.WF at *
  by_cases hk : k < s.len
  · simp only [hk, if_true]
    by_cases hi : i < s.len
    · simp only [hi, if_true, getD_set]
      have : k < s.data.length := by omega
      simp [this]
    · have : ¬ (i = k) := by omega
      simp [hi, this]
  · simp [hk]

/-- `for j, v := range vs { x[k+j] = v }` -/
def writeAll (s : Slice) : Nat → List Nat → Slice
  | _, [] => s
  | k, v :: vs => writeAll (s.write k v) (k + 1) vs

theorem write_len (s : Slice) (k v : Nat) : (s.write k v).len = s.len := by
  unfold Slice.write; split <;> rfl

theorem write_wf (s : Slice) (k v : Nat) (h : s.WF) : (s.write k v).WF := by
  unfold Slice.write
  split
  · show s.len ≤ (s.data.set k v).length
    rw [List.length_set]; exact h
  · exact h

theorem read_writeAll (s : Slice) (k : Nat) (vs : List Nat) (i : Nat) (h : s.WF)
    (hk : k + vs.length ≤ s.len) :
    (writeAll s k vs).read i
      = if k ≤ i ∧ i < k + vs.length then vs.getD (i - k) 0 else s.read i := by
  induction vs generalizing s k with
  | nil => simp [writeAll]; intro h1 h2; omega
  | cons v vs ih =>
    simp only [writeAll, List.length_cons] at hk ⊢
    rw [ih (s.write k v) (k + 1) (write_wf s k v h) (by rw [write_len]; omega)]
    rw [read_write s k v i h]
    by_cases h1 : k + 1 ≤ i ∧ i < k + 1 + vs.length
    · have h2 : k ≤ i ∧ i < k + (vs.length + 1) := by omega
      simp only [h1, h2, and_self, if_true]
      have : i - k = (i - (k + 1)) + 1 := by omega
      rw [this]; simp
    · simp only [h1, if_false]
      by_cases h3 : i = k
      · subst h3
        have : i < s.len := by omega
        simp [this]
      · have h2 : ¬ (k ≤ i ∧ i < k + (vs.length + 1)) := by omega
        simp [h3, h2]

/-- GENERIC LEMMA (truncate + overwrite-before-read): after `x = x[:0]`, re-slice to `n` within
    capacity and assign every index below `n`: every read returns what was assigned - whatever
    the capacity held.  Justification for the allow-listed fields that are "re-sliced and
    overwritten for every index". -/
theorem read_after_truncate_overwrite (s : Slice) (vs : List Nat) (i : Nat)
    (hn : vs.length ≤ s.data.length) (hi : i < vs.length) :
    (writeAll ((applyReset .truncate s).reslice vs.length) 0 vs).read i = vs.getD i 0 := by
  have hre : (applyReset .truncate s).reslice vs.length = ⟨s.data, vs.length⟩ := by
    simp [applyReset, Slice.reslice, hn]
  rw [hre, read_writeAll _ 0 vs i (by simpa [Slice.WF] using hn) (by simp)]
  simp [hi]

end Zap.Theory.Reset
