/-
  ZapProofs.WriterLemmasLoaders: lemmas for Props/C04Loaders.lean (the two doc-value
  reader loaders of segment.go register the same readers).
-/
import ZapModel.Loaders

namespace Zap.Loaders
open Zap

/-- What SHOULD be registered: field `fid` (named `name`) has, for section `sec`, a record
    at a non-zero address whose dvStart is not `fieldNotUninverted` (reader info `i`). -/
def Registers (tbl : FieldTable) (sec fid : Nat) (i : DvInfo) (name : Name) : Prop :=
  ∃ fld, tbl[fid]? = some fld ∧ fld.1 = name ∧ ∃ r ∈ fld.2, r.1 = sec ∧ r.2.1 > 0 ∧ r.2.2 = some i

/-- Well-formed table: `fieldsSectionsMap[fid]` is a map (one record per section id), the
    registered sections are a set, and every section that has a record is registered
    (`fieldDvReaders` is a slice of `len(segmentSections)` entries). -/
structure WF (regs : List Nat) (tbl : FieldTable) : Prop where
  secsNodup : ∀ f ∈ tbl, (f.2.map (·.1)).Nodup
  secsReg : ∀ f ∈ tbl, ∀ r ∈ f.2, r.2.1 > 0 → r.1 ∈ regs

namespace Lemmas

/-- One `loadDvReader`-like step: (section, field id, name, reader or nil). -/
abbrev Call := Nat × Nat × Name × Option DvInfo

def run (calls : List Call) (st : DvState) : DvState :=
  calls.foldl (fun st c => register st c.1 c.2.1 c.2.2.1 c.2.2.2) st

theorem run_nil (st : DvState) : run [] st = st := rfl

theorem run_cons (c : Call) (cs : List Call) (st : DvState) :
    run (c :: cs) st = run cs (register st c.1 c.2.1 c.2.2.1 c.2.2.2) := rfl

theorem run_readers (calls : List Call) : ∀ (st : DvState) (k : Nat × Nat) (i : DvInfo),
    (k, i) ∈ (run calls st).readers ↔
      (k, i) ∈ st.readers ∨ ∃ c ∈ calls, c.2.2.2 = some i ∧ k = (c.1, c.2.1) := by
  induction calls with
  | nil => intro st k i; simp [run_nil]
  | cons c cs ih =>
    intro st k i
    rw [run_cons, ih]
    obtain ⟨sec, fid, name, rd⟩ := c
    cases rd with
    | none => simp [register]
    | some j =>
      simp only [register, List.mem_cons, Prod.mk.injEq, Option.some.injEq, exists_eq_or_imp]
      constructor
      · rintro ((⟨h1, h2⟩ | h) | h)
        · exact Or.inr (Or.inl ⟨h2.symm, h1⟩)
        · exact Or.inl h
        · exact Or.inr (Or.inr h)
      · rintro (h | ⟨h1, h2⟩ | h)
        · exact Or.inl (Or.inr h)
        · exact Or.inl (Or.inl ⟨h2, h1.symm⟩)
        · exact Or.inr h

theorem run_names (calls : List Call) : ∀ (st : DvState) (n : Name),
    n ∈ (run calls st).names ↔ n ∈ st.names ∨ ∃ c ∈ calls, c.2.2.2.isSome ∧ c.2.2.1 = n := by
  induction calls with
  | nil => intro st n; simp [run_nil]
  | cons c cs ih =>
    intro st n
    rw [run_cons, ih]
    obtain ⟨sec, fid, name, rd⟩ := c
    cases rd with
    | none => simp [register]
    | some j =>
      simp only [register, List.mem_append, List.mem_cons, List.not_mem_nil, or_false,
        Option.isSome_some, true_and, exists_eq_or_imp]
      constructor
      · rintro ((h | h) | h)
        · exact Or.inl h
        · exact Or.inr (Or.inl h.symm)
        · exact Or.inr (Or.inr h)
      · rintro (h | h | h)
        · exact Or.inl (Or.inl h)
        · exact Or.inl (Or.inr h.symm)
        · exact Or.inr h

def baseCalls (tbl : FieldTable) (ord : Nat → List SecRec → List SecRec) : List Call :=
  tbl.zipIdx.flatMap (fun p =>
    ((ord p.2 p.1.2).filter (fun r => r.2.1 > 0)).map (fun r => (r.1, p.2, p.1.1, r.2.2)))

def fileCalls (tbl : FieldTable) (ordS : Nat → List Nat) : List Call :=
  tbl.zipIdx.flatMap (fun p => (ordS p.2).map (fun sec => (sec, p.2, p.1.1, readerAt p.1.2 sec)))

theorem loadBase_eq (numDocs : Nat) (tbl : FieldTable) (ord : Nat → List SecRec → List SecRec)
    (h : numDocs ≠ 0) : loadBase numDocs tbl ord = run (baseCalls tbl ord) {} := by
  unfold loadBase run baseCalls
  rw [if_neg h, List.foldl_flatMap]
  congr 1
  funext st p
  rw [List.foldl_map, List.foldl_filter]
  congr 1
  funext st r
  by_cases hr : r.2.1 > 0 <;> simp [hr]

theorem loadFile_eq (numDocs : Nat) (tbl : FieldTable) (ordS : Nat → List Nat)
    (h : numDocs ≠ 0) : loadFile numDocs tbl ordS = run (fileCalls tbl ordS) {} := by
  unfold loadFile run fileCalls
  rw [if_neg h, List.foldl_flatMap]
  congr 1
  funext st p
  rw [List.foldl_map]

/-- In a map (distinct section ids) `find?` finds the record itself. -/
theorem find_of_mem (secs : List SecRec) (hnd : (secs.map (·.1)).Nodup) (r : SecRec) (hr : r ∈ secs) :
    secs.find? (fun x => x.1 = r.1) = some r := by
  induction secs with
  | nil => simp at hr
  | cons x xs ih =>
    rw [List.map_cons, List.nodup_cons] at hnd
    rcases List.mem_cons.mp hr with rfl | hr'
    · simp
    · have hne : x.1 ≠ r.1 := by
        intro he
        exact hnd.1 (he ▸ List.mem_map.mpr ⟨r, hr', rfl⟩)
      rw [List.find?_cons_of_neg (by simpa using hne)]
      exact ih hnd.2 hr'

/-- Per field: the file loader's lookup finds exactly the records with a reader. -/
theorem readerAt_iff (regs : List Nat) (secs : List SecRec) (hnd : (secs.map (·.1)).Nodup)
    (hreg : ∀ r ∈ secs, r.2.1 > 0 → r.1 ∈ regs) (sec : Nat) (i : DvInfo) :
    (sec ∈ regs ∧ readerAt secs sec = some i) ↔
      ∃ r ∈ secs, r.1 = sec ∧ r.2.1 > 0 ∧ r.2.2 = some i := by
  constructor
  · rintro ⟨_, h⟩
    unfold readerAt sectionAt at h
    cases hf : secs.find? (fun r => r.1 = sec) with
    | none => simp [hf] at h
    | some r =>
      simp only [hf] at h
      by_cases hpos : r.2.1 > 0
      · rw [if_pos hpos] at h
        exact ⟨r, List.mem_of_find?_eq_some hf, by simpa using List.find?_some hf, hpos, h⟩
      · rw [if_neg hpos] at h; cases h
  · rintro ⟨r, hr, rfl, hpos, hi⟩
    refine ⟨hreg r hr hpos, ?_⟩
    unfold readerAt sectionAt
    rw [find_of_mem secs hnd r hr]
    simp [hpos, hi]

theorem base_registers (tbl : FieldTable) (ord : Nat → List SecRec → List SecRec)
    (hord : ∀ fid l, (ord fid l).Perm l) (sec fid : Nat) (i : DvInfo) (name : Name) :
    (∃ c ∈ baseCalls tbl ord, c = (sec, fid, name, some i)) ↔ Registers tbl sec fid i name := by
  unfold baseCalls Registers
  constructor
  · rintro ⟨c, hc, rfl⟩
    obtain ⟨p, hp, hc⟩ := List.mem_flatMap.mp hc
    obtain ⟨r, hr, he⟩ := List.mem_map.mp hc
    obtain ⟨hr1, hr2⟩ := List.mem_filter.mp hr
    have hr1' := (hord p.2 p.1.2).mem_iff.mp hr1
    simp only [Prod.mk.injEq] at he
    obtain ⟨h1, h2, h3, h4⟩ := he
    refine ⟨p.1, ?_, h3, r, hr1', h1, by simpa using hr2, h4⟩
    rw [← h2]
    exact List.mem_zipIdx_iff_getElem?.mp hp
  · rintro ⟨fld, hf, hn, r, hr, h1, h2, h3⟩
    refine ⟨_, ?_, rfl⟩
    apply List.mem_flatMap.mpr
    refine ⟨(fld, fid), List.mem_zipIdx_iff_getElem?.mpr hf, ?_⟩
    apply List.mem_map.mpr
    refine ⟨r, List.mem_filter.mpr ⟨(hord fid fld.2).mem_iff.mpr hr, by simpa using h2⟩, ?_⟩
    simp [h1, hn, h3]

theorem file_registers (regs : List Nat) (tbl : FieldTable) (hwf : WF regs tbl) (ordS : Nat → List Nat)
    (hord : ∀ fid, (ordS fid).Perm regs) (sec fid : Nat) (i : DvInfo) (name : Name) :
    (∃ c ∈ fileCalls tbl ordS, c = (sec, fid, name, some i)) ↔ Registers tbl sec fid i name := by
  unfold fileCalls Registers
  constructor
  · rintro ⟨c, hc, rfl⟩
    obtain ⟨p, hp, hc⟩ := List.mem_flatMap.mp hc
    obtain ⟨s, hs, he⟩ := List.mem_map.mp hc
    simp only [Prod.mk.injEq] at he
    obtain ⟨h1, h2, h3, h4⟩ := he
    have hget := List.mem_zipIdx_iff_getElem?.mp hp
    have hmem : p.1 ∈ tbl := List.mem_of_getElem? hget
    have := (readerAt_iff regs p.1.2 (hwf.secsNodup p.1 hmem) (hwf.secsReg p.1 hmem) s i).mp
      ⟨(hord p.2).mem_iff.mp hs, h4⟩
    obtain ⟨r, hr, hr1, hr2, hr3⟩ := this
    exact ⟨p.1, by rw [← h2]; exact hget, h3, r, hr, by rw [hr1, h1], hr2, hr3⟩
  · rintro ⟨fld, hf, hn, r, hr, h1, h2, h3⟩
    have hmem : fld ∈ tbl := List.mem_of_getElem? hf
    have := (readerAt_iff regs fld.2 (hwf.secsNodup fld hmem) (hwf.secsReg fld hmem) sec i).mpr
      ⟨r, hr, h1, h2, h3⟩
    refine ⟨_, ?_, rfl⟩
    apply List.mem_flatMap.mpr
    refine ⟨(fld, fid), List.mem_zipIdx_iff_getElem?.mpr hf, ?_⟩
    apply List.mem_map.mpr
    exact ⟨sec, (hord fid).mem_iff.mpr this.1, by simp [hn, this.2]⟩

/-- Membership in the state after a run, in terms of the calls that registered. -/
theorem run_readers' (calls : List Call) (sec fid : Nat) (i : DvInfo) :
    ((sec, fid), i) ∈ (run calls {}).readers ↔ ∃ name, ∃ c ∈ calls, c = (sec, fid, name, some i) := by
  rw [run_readers]
  constructor
  · rintro (h | ⟨c, hc, h1, h2⟩)
    · simp at h
    · obtain ⟨s, f, n, rd⟩ := c
      simp only [Prod.mk.injEq] at h1 h2
      exact ⟨n, _, hc, by simp [h1, h2.1, h2.2]⟩
  · rintro ⟨name, c, hc, rfl⟩
    exact Or.inr ⟨_, hc, rfl, rfl⟩

theorem run_names' (calls : List Call) (n : Name) :
    n ∈ (run calls {}).names ↔ ∃ sec fid i, ∃ c ∈ calls, c = (sec, fid, n, some i) := by
  rw [run_names]
  constructor
  · rintro (h | ⟨c, hc, h1, h2⟩)
    · simp at h
    · obtain ⟨s, f, nm, rd⟩ := c
      cases rd with
      | none => simp at h1
      | some i =>
        simp only at h2
        exact ⟨s, f, i, _, hc, by rw [h2]⟩
  · rintro ⟨sec, fid, i, c, hc, rfl⟩
    exact Or.inr ⟨_, hc, rfl, rfl⟩

/-- In a well-formed table a (section, field id) key has at most one reader. -/
theorem registers_functional (regs : List Nat) (tbl : FieldTable) (hwf : WF regs tbl)
    (sec fid : Nat) (i i' : DvInfo) (n n' : Name)
    (h : Registers tbl sec fid i n) (h' : Registers tbl sec fid i' n') : i = i' := by
  obtain ⟨fld, hf, _, r, hr, h1, _, h3⟩ := h
  obtain ⟨fld', hf', _, r', hr', h1', _, h3'⟩ := h'
  rw [hf] at hf'
  cases hf'
  have hnd := hwf.secsNodup fld (List.mem_of_getElem? hf)
  have e1 := find_of_mem fld.2 hnd r hr
  have e2 := find_of_mem fld.2 hnd r' hr'
  rw [h1] at e1
  rw [h1'] at e2
  rw [e1] at e2
  cases e2
  rw [h3] at h3'
  cases h3'
  rfl

/-- Map lookup in a list that holds at most one value per key. -/
theorem lookup_eq_some_iff {α β : Type} [DecidableEq α] (l : List (α × β))
    (hfun : ∀ k v v', (k, v) ∈ l → (k, v') ∈ l → v = v') (k : α) (v : β) :
    lookup k l = some v ↔ (k, v) ∈ l := by
  induction l with
  | nil => simp [lookup]
  | cons x xs ih =>
    obtain ⟨k', v'⟩ := x
    have hfun' : ∀ k v v', (k, v) ∈ xs → (k, v') ∈ xs → v = v' :=
      fun k v v' h h' => hfun k v v' (by simp [h]) (by simp [h'])
    by_cases hk : k = k'
    · subst hk
      simp only [lookup, if_true, Option.some.injEq, List.mem_cons, Prod.mk.injEq, true_and]
      constructor
      · intro h; exact Or.inl h.symm
      · rintro (h | h)
        · exact h.symm
        · exact hfun k v' v (by simp) (by simp [h])
    · simp only [lookup, hk, if_false, List.mem_cons, Prod.mk.injEq, false_and, false_or]
      exact ih hfun'

theorem lookup_congr {α β : Type} [DecidableEq α] (l₁ l₂ : List (α × β))
    (h₁ : ∀ k v v', (k, v) ∈ l₁ → (k, v') ∈ l₁ → v = v')
    (h₂ : ∀ k v v', (k, v) ∈ l₂ → (k, v') ∈ l₂ → v = v')
    (hmem : ∀ k v, (k, v) ∈ l₁ ↔ (k, v) ∈ l₂) (k : α) : lookup k l₁ = lookup k l₂ := by
  cases h : lookup k l₁ with
  | some v =>
    have := (hmem k v).mp ((lookup_eq_some_iff l₁ h₁ k v).mp h)
    exact ((lookup_eq_some_iff l₂ h₂ k v).mpr this).symm
  | none =>
    cases h' : lookup k l₂ with
    | none => rfl
    | some v =>
      have := (hmem k v).mpr ((lookup_eq_some_iff l₂ h₂ k v).mp h')
      rw [(lookup_eq_some_iff l₁ h₁ k v).mpr this] at h
      cases h

end Lemmas

end Zap.Loaders
