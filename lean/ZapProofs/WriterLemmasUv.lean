/-
  ZapProofs.WriterLemmasUv: the overflow-checked uvarint reader (`Writer.uv64`, twin of
  `Layout.uvLim`) inverts `putUvarint` on 64-bit values.
-/
import ZapModel.Writer
import ZapProofs.CodecLemmas

namespace Zap.Writer.Uv
open Zap Zap.Codec Zap.Writer

theorem uv64Go_put (y : Nat) :
    ∀ (fuel sh acc : Nat) (rest : Bytes), sh + 7 * fuel = 63 → 2 ^ sh * y < 2 ^ 64 →
      uv64Go (fuel + 1) (putUvarint y ++ rest) sh acc = some (acc + 2 ^ sh * y, rest) := by
  induction y using Nat.strongRecOn with
  | _ y ih =>
    intro fuel sh acc rest hsh hb
    by_cases h : y < 128
    · rw [putUvarint_lt h]
      simp only [List.cons_append, List.nil_append, uv64Go, h, if_true]
      have hno : ¬ (fuel = 0 ∧ y > 1) := by
        rintro ⟨hf, hy⟩
        subst hf
        have : sh = 63 := by omega
        subst this
        omega
      rw [if_neg hno, Nat.shiftLeft_eq, Nat.mul_comm]
    · rw [putUvarint_ge h]
      have hb1 : ¬ (y % 128 + 128 < 128) := by omega
      have hpow : 2 ^ (sh + 7) = 2 ^ sh * 128 := by rw [Nat.pow_add]
      have hlt : 2 ^ (sh + 7) < 2 ^ 64 := by
        rw [hpow]
        have : 2 ^ sh * 128 ≤ 2 ^ sh * y := Nat.mul_le_mul_left _ (by omega)
        omega
      have hsh' : sh + 7 < 64 := (Nat.pow_lt_pow_iff_right (by decide)).mp hlt
      cases fuel with
      | zero => omega
      | succ fuel =>
        simp only [List.cons_append, uv64Go, hb1, if_false]
        have hsub : y % 128 + 128 - 128 = y % 128 := by omega
        rw [hsub, ih (y / 128) (by omega) fuel (sh + 7) _ rest (by omega)
          (by rw [hpow, Nat.mul_assoc]
              have : 128 * (y / 128) ≤ y := Nat.mul_div_le y 128
              have := Nat.mul_le_mul_left (2 ^ sh) this
              omega)]
        have := pow_step sh y
        rw [Nat.shiftLeft_eq, Nat.mul_comm (y % 128)]
        simp only [Option.some.injEq, Prod.mk.injEq, and_true]
        omega

theorem uv64_putUvarint (x : Nat) (hx : x < 2 ^ 64) (rest : Bytes) :
    uv64 (putUvarint x ++ rest) = some (x, rest) := by
  unfold uv64
  rw [uv64Go_put x 9 0 0 rest (by omega) (by simpa using hx)]
  simp

theorem readN64_putUvarints (xs : List Nat) (hx : ∀ x ∈ xs, x < 2 ^ 64) (rest : Bytes) :
    readN64 xs.length (putUvarints xs ++ rest) = some (xs, rest) := by
  induction xs with
  | nil => simp [readN64, putUvarints]
  | cons x xs ih =>
    rw [putUvarints_cons, List.append_assoc]
    simp only [List.length_cons, readN64]
    rw [uv64_putUvarint x (hx x (by simp))]
    simp only
    rw [ih (fun y hy => hx y (by simp [hy]))]

end Zap.Writer.Uv
