/-
  Lemmas for ZapModel.Theory.Persist: every fault position and every closing instant.
-/
import ZapModel.Theory.Persist

namespace Zap.Theory.Persist
open Zap.Gen

/-- The required error outcome: an error is returned, and (for the path-based operations,
    `nc = true`) the cleanup ran. -/
def IsErr (nc : Bool) (o : Outcome) : Prop := o.err.isSome = true ∧ (nc = true → o.cleaned = true)

/-- What one step does, given the side condition for that step. -/
theorem go_cons_cases (nc : Bool) (fault closing : Option Nat) (i : Nat) (bad : Bool)
    (acc : List Nat) (op : Op) (rest : List Op)
    (hop : (strict nc op || (op.kind == .write && !propagates op.chain && hasCheckedFlush nc rest))
            = true)
    (hbad : bad = true → hasCheckedFlush nc (op :: rest) = true) :
    (fails fault closing i bad op = true ∧
      go fault closing i bad acc (op :: rest) = ⟨some (errKind fault i op), cleans op.chain, acc⟩ ∧
      (nc = true → cleans op.chain = true))
    ∨ (fails fault closing i bad op = true ∧ op.kind = .write ∧
      go fault closing i bad acc (op :: rest) = go fault closing (i + 1) true acc rest ∧
      hasCheckedFlush nc rest = true)
    ∨ (fails fault closing i bad op = false ∧
      go fault closing i bad acc (op :: rest)
        = go fault closing (i + 1) bad (if op.kind == .write then acc ++ [i] else acc) rest ∧
      (bad = true → hasCheckedFlush nc rest = true)) := by
  cases hf : fails fault closing i bad op with
  | true =>
    cases hp : propagates op.chain with
    | true =>
      refine Or.inl ⟨rfl, by simp [go, hf, hp], ?_⟩
      intro hnc
      simp only [strict, hp, Bool.true_and, Bool.not_true, Bool.false_and, Bool.and_false,
        Bool.or_false, hnc, Bool.false_or] at hop
      exact hop
    | false =>
      simp only [strict, hp, Bool.false_and, Bool.not_false, Bool.and_true, Bool.false_or,
        Bool.and_eq_true, beq_iff_eq] at hop
      refine Or.inr (Or.inl ⟨rfl, hop.1, ?_, hop.2⟩)
      simp [go, hf, hp, hop.1, latches]
  | false =>
    refine Or.inr (Or.inr ⟨rfl, by simp [go, hf], ?_⟩)
    intro hb
    have h := hbad hb
    subst hb
    have hl : latches op.kind = false := by
      simp only [fails, Bool.true_and, Bool.or_eq_false_iff] at hf
      exact hf.1.2
    have hk : (op.kind == OpKind.flush) = false := by
      simp only [latches, Bool.or_eq_false_iff] at hl; exact hl.2
    simpa [hasCheckedFlush, hk] using h

/-- All outcomes, from any intermediate state: an error (with cleanup), or - only if no error
    is latched - success with every write accepted in order. -/
theorem go_outcomes (nc : Bool) (fault closing : Option Nat) (ops : List Op) :
    ∀ (i : Nat) (bad : Bool) (acc : List Nat), wellChecked nc ops = true →
      (bad = true → hasCheckedFlush nc ops = true) →
      IsErr nc (go fault closing i bad acc ops)
      ∨ (bad = false ∧ go fault closing i bad acc ops = ⟨none, false, acc ++ writeIdx i ops⟩) := by
  induction ops with
  | nil =>
    intro i bad acc _ hbad
    cases bad with
    | true => simp [hasCheckedFlush] at hbad
    | false => exact Or.inr ⟨rfl, by simp [go, writeIdx]⟩
  | cons op rest ih =>
    intro i bad acc hwc hbad
    simp only [wellChecked, Bool.and_eq_true] at hwc
    rcases go_cons_cases nc fault closing i bad acc op rest hwc.1 hbad with
      ⟨_, hgo, hcl⟩ | ⟨_, _, hgo, hfl⟩ | ⟨_, hgo, hbad'⟩
    · left; rw [hgo]; exact ⟨rfl, hcl⟩
    · rw [hgo]
      rcases ih (i + 1) true acc hwc.2 (fun _ => hfl) with h | ⟨h, _⟩
      · exact Or.inl h
      · cases h
    · rw [hgo]
      rcases ih (i + 1) bad _ hwc.2 hbad' with h | ⟨hb, h⟩
      · exact Or.inl h
      · right
        refine ⟨hb, ?_⟩
        rw [h]
        cases hk : (op.kind == OpKind.write) <;> simp [writeIdx, hk]

/-- A fault at any position is an error (with cleanup), whatever the closing instant. -/
theorem go_fault (nc : Bool) (closing : Option Nat) (ops : List Op) :
    ∀ (i p : Nat) (bad : Bool) (acc : List Nat), wellChecked nc ops = true →
      (bad = true → hasCheckedFlush nc ops = true) → p < ops.length →
      IsErr nc (go (some (i + p)) closing i bad acc ops) := by
  induction ops with
  | nil => intro i p bad acc _ _ hp; simp at hp
  | cons op rest ih =>
    intro i p bad acc hwc hbad hp
    simp only [wellChecked, Bool.and_eq_true] at hwc
    rcases go_cons_cases nc (some (i + p)) closing i bad acc op rest hwc.1 hbad with
      ⟨_, hgo, hcl⟩ | ⟨_, _, hgo, hfl⟩ | ⟨hnf, hgo, hbad'⟩
    · rw [hgo]; exact ⟨rfl, hcl⟩
    · rw [hgo]
      rcases go_outcomes nc (some (i + p)) closing rest (i + 1) true acc hwc.2 (fun _ => hfl) with
        h | ⟨h, _⟩
      · exact h
      · cases h
    · rw [hgo]
      cases p with
      | zero => simp [fails] at hnf
      | succ p' =>
        have : i + (p' + 1) = (i + 1) + p' := by omega
        rw [this]
        exact ih (i + 1) p' bad _ hwc.2 hbad' (by simpa using hp)

/-- Without a fault the only error is `closed` (from a poll). -/
theorem go_cancel (nc : Bool) (closing : Option Nat) (ops : List Op) :
    ∀ (i : Nat) (acc : List Nat), wellChecked nc ops = true →
      ((go none closing i false acc ops).err = some .closed
        ∧ (nc = true → (go none closing i false acc ops).cleaned = true))
      ∨ go none closing i false acc ops = ⟨none, false, acc ++ writeIdx i ops⟩ := by
  induction ops with
  | nil => intro i acc _; exact Or.inr (by simp [go, writeIdx])
  | cons op rest ih =>
    intro i acc hwc
    simp only [wellChecked, Bool.and_eq_true] at hwc
    rcases go_cons_cases nc none closing i false acc op rest hwc.1 (by simp) with
      ⟨hf, hgo, hcl⟩ | ⟨hf, hk, _, _⟩ | ⟨_, hgo, _⟩
    · left
      rw [hgo]
      have hpoll : (op.kind == OpKind.poll) = true := by
        have h : (op.kind == OpKind.poll && closedAt closing i) = true := by
          simpa [fails] using hf
        simp only [Bool.and_eq_true] at h
        exact h.1
      exact ⟨by simp [errKind, hpoll], hcl⟩
    · exfalso
      simp [fails, hk] at hf
    · rw [hgo]
      rcases ih (i + 1) _ hwc.2 with h | h
      · exact Or.inl h
      · right; rw [h]
        cases hk : (op.kind == OpKind.write) <;> simp [writeIdx, hk]

/-- Closed before the call, no fault: the FIRST poll returns `closed`; the writes accepted are
    exactly those before that poll. -/
theorem go_closed_at_start (nc : Bool) (ops : List Op) :
    ∀ (i : Nat) (acc : List Nat), wellChecked nc ops = true →
      ops.any (fun o => o.kind == .poll) = true →
      (go none (some 0) i false acc ops).err = some .closed
      ∧ (nc = true → (go none (some 0) i false acc ops).cleaned = true)
      ∧ (go none (some 0) i false acc ops).bytes
          = acc ++ writeIdx i (ops.takeWhile fun o => o.kind != .poll) := by
  induction ops with
  | nil => intro i acc _ h; simp at h
  | cons op rest ih =>
    intro i acc hwc hany
    simp only [wellChecked, Bool.and_eq_true] at hwc
    rcases go_cons_cases nc none (some 0) i false acc op rest hwc.1 (by simp) with
      ⟨hf, hgo, hcl⟩ | ⟨hf, hk, _, _⟩ | ⟨hnf, hgo, _⟩
    · have hpoll : (op.kind == OpKind.poll) = true := by
        have h : (op.kind == OpKind.poll && closedAt (some 0) i) = true := by
          simpa [fails] using hf
        simp only [Bool.and_eq_true] at h
        exact h.1
      have hne : (op.kind != OpKind.poll) = false := by simp [bne, hpoll]
      rw [hgo]
      refine ⟨by simp [errKind, hpoll], hcl, ?_⟩
      simp [hne, writeIdx]
    · exfalso
      simp [fails, hk] at hf
    · have hnpoll : (op.kind == OpKind.poll) = false := by
        simpa [fails, closedAt] using hnf
      have hany' : rest.any (fun o => o.kind == .poll) = true := by
        simpa [hnpoll] using hany
      rw [hgo]
      obtain ⟨h1, h2, h3⟩ := ih (i + 1) _ hwc.2 hany'
      have hne : (op.kind != OpKind.poll) = true := by simp [bne, hnpoll]
      refine ⟨h1, h2, ?_⟩
      rw [h3]
      cases hk : (op.kind == OpKind.write) <;> simp [hne, writeIdx, hk]

/-! ### The theorems about whole runs -/

/-- GENERIC THEOREM (write / engine faults): for EVERY run shape satisfying `wellChecked`, EVERY
    fault position and EVERY closing instant: an error is returned and (path-based operations,
    `nc = true`) the cleanup ran. -/
theorem fault_any_position (nc : Bool) (ops : List Op) (p : Nat) (closing : Option Nat)
    (hwc : wellChecked nc ops = true) (hp : p < ops.length) :
    (run (some p) closing ops).err.isSome = true
    ∧ (nc = true → (run (some p) closing ops).cleaned = true) := by
  have := go_fault nc closing ops 0 p false [] hwc (by simp) hp
  simpa [run, IsErr] using this

/-- No fault, never closed: success, no cleanup, all writes accepted in order (for EVERY run
    shape, no side condition needed). -/
theorem no_fault (ops : List Op) :
    run none none ops = ⟨none, false, writeIdx 0 ops⟩ := by
  have key : ∀ (ops : List Op) (i : Nat) (acc : List Nat),
      go none none i false acc ops = ⟨none, false, acc ++ writeIdx i ops⟩ := by
    intro ops
    induction ops with
    | nil => intro i acc; simp [go, writeIdx]
    | cons op rest ih =>
      intro i acc
      have hnf : fails none none i false op = false := by simp [fails, closedAt]
      simp only [go, hnf]
      rw [ih]
      cases hk : (op.kind == OpKind.write) <;> simp [writeIdx, hk]
  simpa [run] using key ops 0 []

/-- GENERIC THEOREM (all outcomes): for EVERY run shape satisfying `wellChecked`, EVERY fault
    position (or none) and EVERY closing instant (or never): either an error with cleanup, or
    success with every write accepted in order and no cleanup.  Nothing in between. -/
theorem outcomes (nc : Bool) (ops : List Op) (fault closing : Option Nat)
    (hwc : wellChecked nc ops = true) :
    ((run fault closing ops).err.isSome = true
      ∧ (nc = true → (run fault closing ops).cleaned = true))
    ∨ run fault closing ops = ⟨none, false, writeIdx 0 ops⟩ := by
  rcases go_outcomes nc fault closing ops 0 false [] hwc (by simp) with h | ⟨_, h⟩
  · exact Or.inl h
  · exact Or.inr (by simpa [run] using h)

/-- GENERIC THEOREM (cancellation): for EVERY run shape satisfying `wellChecked` and EVERY
    closing instant - before the first step (`some 0`), at any step, or never (`none`) - the
    outcome is (`closed`, cleanup ran) or (success, all writes accepted). -/
theorem cancel_outcomes (nc : Bool) (ops : List Op) (closing : Option Nat)
    (hwc : wellChecked nc ops = true) :
    ((run none closing ops).err = some .closed
      ∧ (nc = true → (run none closing ops).cleaned = true))
    ∨ run none closing ops = ⟨none, false, writeIdx 0 ops⟩ := by
  simpa [run] using go_cancel nc closing ops 0 [] hwc

/-- Closed before the call: if the run shape has a poll at all, the first poll returns
    `closed`; the writes accepted are those before the first poll. -/
theorem cancel_before_start (nc : Bool) (ops : List Op) (hwc : wellChecked nc ops = true)
    (hpoll : ops.any (fun o => o.kind == .poll) = true) :
    (run none (some 0) ops).err = some .closed
    ∧ (nc = true → (run none (some 0) ops).cleaned = true)
    ∧ (run none (some 0) ops).bytes = writeIdx 0 (ops.takeWhile fun o => o.kind != .poll) := by
  simpa [run] using go_closed_at_start nc ops 0 [] hwc hpoll

/-! ### Building `wellChecked` runs from per-link conditions -/

theorem propagates_append_cleanup (chain : List ErrDisp) :
    propagates (chain ++ [.cleanupReturned]) = propagates chain := by
  simp [propagates, passes]

theorem cleans_append_cleanup (chain : List ErrDisp) :
    cleans (chain ++ [.cleanupReturned]) = true := by
  simp [cleans]

theorem wellChecked_of_all_strict (nc : Bool) (ops : List Op)
    (h : ops.all (strict nc) = true) : wellChecked nc ops = true := by
  induction ops with
  | nil => rfl
  | cons op rest ih =>
    simp only [List.all_cons, Bool.and_eq_true] at h
    simp [wellChecked, h.1, ih h.2]

theorem hasCheckedFlush_append_right (nc : Bool) (a b : List Op)
    (h : hasCheckedFlush nc b = true) : hasCheckedFlush nc (a ++ b) = true := by
  simp only [hasCheckedFlush, List.any_append, Bool.or_eq_true] at h ⊢
  exact Or.inr h

/-- A body whose inner chains are `innerOK`, under a driver link `cleanupReturned`, followed by
    a tail of strict operations containing a Flush: `wellChecked` with cleanup. -/
theorem wellChecked_mkRun (body tail : List Op)
    (hb : ∀ op ∈ body, innerOK op = true)
    (ht : tail.all (strict true) = true)
    (hf : hasCheckedFlush true tail = true) :
    wellChecked true (mkRun .cleanupReturned body tail) = true := by
  induction body with
  | nil => simpa [mkRun] using wellChecked_of_all_strict true tail ht
  | cons op rest ih =>
    have ihr := ih (fun o ho => hb o (List.mem_cons_of_mem _ ho))
    have hop := hb op List.mem_cons_self
    simp only [mkRun, List.map_cons, List.cons_append, wellChecked, Bool.and_eq_true] at ihr ⊢
    refine ⟨?_, ihr⟩
    simp only [strict, propagates_append_cleanup, cleans_append_cleanup]
    cases hp : propagates op.chain with
    | true => simp
    | false =>
      have hflush : hasCheckedFlush true
          (List.map (fun op => { op with chain := op.chain ++ [ErrDisp.cleanupReturned] }) rest ++ tail)
          = true := hasCheckedFlush_append_right true _ tail hf
      have hk : op.kind = .write := by
        simp only [propagates, List.all_eq_false] at hp
        obtain ⟨d, hd, hnp⟩ := hp
        simp only [innerOK, List.all_eq_true] at hop
        have := hop d hd
        simp only [Bool.not_eq_true] at hnp
        simp only [hnp, Bool.false_or, Bool.and_eq_true, beq_iff_eq] at this
        exact this.2
      simp [hk, hflush]

end Zap.Theory.Persist
