/-
  ZapProofs.WriterLemmasWalk: the chunk walk (`Writer.walkL`, twin of
  `Layout.walkChunks`) over a stream written by the chunked int coder returns one item
  per document, provided the item decoder inverts the per-document block encoder.
-/
import ZapModel.Writer
import ZapProofs.CodecLemmasInt

namespace Zap.Writer.Walk
open Zap Zap.Codec Zap.Writer

/-! ### sums of chunk lengths -/

theorem sumList_append (a b : List Nat) : sumList (a ++ b) = sumList a + sumList b := by
  induction a with
  | nil => simp [sumList]
  | cons x a ih => simp [sumList, ih, Nat.add_assoc]

theorem sumList_take_le (l : List Nat) (k : Nat) : sumList (l.take k) ≤ sumList l := by
  have := sumList_append (l.take k) (l.drop k)
  rw [List.take_append_drop] at this
  omega

theorem sumList_take_mono (l : List Nat) (a b : Nat) (h : a ≤ b) :
    sumList (l.take a) ≤ sumList (l.take b) := by
  have : l.take a = (l.take b).take a := by rw [List.take_take, Nat.min_eq_left h]
  rw [this]
  exact sumList_take_le _ _

theorem sumList_take_succ' (l : List Nat) (k : Nat) (h : k < l.length) :
    sumList (l.take (k + 1)) = sumList (l.take k) + l[k] := by
  rw [List.take_succ_eq_append_getElem h, sumList_append]
  simp [sumList]

/-- Empty chunks between `a` and `b` do not move the offsets. -/
theorem sumList_take_skip (l : List Nat) (a b : Nat) (hab : a ≤ b) (hb : b ≤ l.length)
    (hz : ∀ k (h : k < l.length), a ≤ k → k < b → l[k] = 0) :
    sumList (l.take b) = sumList (l.take a) := by
  induction b with
  | zero =>
    have : a = 0 := by omega
    subst this; rfl
  | succ b ih =>
    by_cases hab' : a = b + 1
    · subst hab'; rfl
    · have hb' : b < l.length := by omega
      rw [sumList_take_succ' l b hb', hz b hb' (by omega) (by omega), Nat.add_zero]
      exact ih (by omega) (by omega) (fun k h h1 h2 => hz k h h1 (by omega))

theorem sumList_map_length_flatten (segs : List Bytes) :
    sumList (segs.map List.length) = segs.flatten.length := by
  induction segs with
  | nil => rfl
  | cons s segs ih => simp [sumList, ih]

/-! ### the chunk table of a written stream -/

/-- What the walk needs to know about the table `offs` / data `data` of a stream whose
    chunks are `segs`. -/
structure Table (offs : List Nat) (data : Bytes) (segs : List Bytes) : Prop where
  hlen : offs.length = segs.length
  hbytes : ∀ k (h : k < segs.length), chunkBytes offs data k = segs[k]
  hstart : ∀ k, k < segs.length → cstart offs k = sumList ((segs.map List.length).take k)
  hstop : ∀ k, k < segs.length → cstop offs k = sumList ((segs.map List.length).take (k + 1))

theorem table_of_endOffsets (segs : List Bytes) (post : Bytes) :
    Table (endOffsets (segs.map List.length)) (segs.flatten ++ post) segs where
  hlen := by rw [endOffsets_length]; simp
  hstart := by
    intro k hk
    unfold cstart
    rw [chunkBoundary_endOffsets _ k (by simpa using hk)]
  hstop := by
    intro k hk
    unfold cstop
    rw [chunkBoundary_endOffsets _ k (by simpa using hk)]
  hbytes := by
    intro k hk
    unfold chunkBytes cstart cstop
    have hk' : k < (segs.map List.length).length := by simpa using hk
    rw [chunkBoundary_endOffsets _ k hk']
    simp only
    have h1 := sumList_take_mono (segs.map List.length) k (k + 1) (by omega)
    have h2 := sumList_take_le (segs.map List.length) (k + 1)
    rw [sumList_map_length_flatten] at h2
    rw [List.drop_append_of_le_length (by omega),
      List.take_append_of_le_length (by rw [List.length_drop]; omega)]
    exact segment_extract segs k hk

/-! ### the walk -/

section
variable {α β : Type}

/-- The bytes contributed to chunk `k` by the items `l`. -/
def segOf (cs : Nat) (doc : β → Nat) (blk : β → Bytes) (l : List β) (k : Nat) : Bytes :=
  (l.filter (fun x => doc x / cs = k)).flatMap blk

theorem segOf_cons_eq (cs : Nat) (doc : β → Nat) (blk : β → Bytes) (x : β) (l : List β) :
    segOf cs doc blk (x :: l) (doc x / cs) = blk x ++ segOf cs doc blk l (doc x / cs) := by
  simp [segOf]

theorem segOf_cons_ne (cs : Nat) (doc : β → Nat) (blk : β → Bytes) (x : β) (l : List β) (k : Nat)
    (h : doc x / cs ≠ k) : segOf cs doc blk (x :: l) k = segOf cs doc blk l k := by
  simp [segOf, h]

theorem segOf_eq_nil (cs : Nat) (doc : β → Nat) (blk : β → Bytes) (l : List β) (k : Nat)
    (h : ∀ x ∈ l, doc x / cs ≠ k) : segOf cs doc blk l k = [] := by
  unfold segOf
  have : l.filter (fun x => doc x / cs = k) = [] := by
    rw [List.filter_eq_nil_iff]
    intro a ha
    simpa using h a ha
  rw [this]; rfl

theorem walkL_aux {offs : List Nat} {data : Bytes} {segs : List Bytes} (T : Table offs data segs)
    (cs : Nat) (doc : β → Nat) (blk : β → Bytes) (val : β → α)
    (dec : Nat → Bytes → Option (α × Bytes)) :
    ∀ (rest : List β) (ci : Nat) (cur : Bytes), ci < segs.length →
      (∀ x ∈ rest, ∀ r, dec (doc x) (blk x ++ r) = some (val x, r)) →
      rest.Pairwise (fun a b => doc a / cs ≤ doc b / cs) →
      (∀ x ∈ rest, ci ≤ doc x / cs ∧ doc x / cs < segs.length) →
      cur = segOf cs doc blk rest ci →
      (∀ k (h : k < segs.length), ci < k → segs[k] = segOf cs doc blk rest k) →
      walkL offs data cs dec (rest.map doc) ci cur = some (rest.map val) := by
  intro rest
  induction rest with
  | nil =>
    intro ci cur hci _ _ _ hcur hsegs
    have hcur' : cur = [] := by rw [hcur]; rfl
    simp only [List.map_nil, walkL]
    rw [if_pos]
    refine ⟨hcur', Or.inr ?_⟩
    rw [T.hlen, T.hstop _ (by omega), T.hstop _ hci, Nat.sub_add_cancel (by omega)]
    apply sumList_take_skip _ (ci + 1) segs.length (by omega) (by simp)
    intro k hk h1 _
    have hk' : k < segs.length := by simpa using hk
    simp only [List.getElem_map]
    rw [hsegs k hk' (by omega)]
    rfl
  | cons x rest ih =>
    intro ci cur hci hdec hmono hrange hcur hsegs
    have hpw := List.pairwise_cons.mp hmono
    obtain ⟨hge, hlt⟩ := hrange x (by simp)
    have hdec' : ∀ y ∈ rest, ∀ r, dec (doc y) (blk y ++ r) = some (val y, r) :=
      fun y hy => hdec y (by simp [hy])
    simp only [List.map_cons, walkL]
    rw [if_neg (by rw [T.hlen]; omega)]
    by_cases hc : doc x / cs = ci
    · rw [if_pos hc]
      subst hc
      rw [hcur, segOf_cons_eq, hdec x (by simp)]
      simp only
      rw [ih (doc x / cs) _ hci hdec' hpw.2
        (fun y hy => ⟨hpw.1 y hy, (hrange y (by simp [hy])).2⟩) rfl
        (fun k hk h1 => by rw [hsegs k hk h1, segOf_cons_ne]; omega)]
      rfl
    · rw [if_neg hc]
      have hgt : ci < doc x / cs := by omega
      have hall : ∀ y ∈ x :: rest, doc x / cs ≤ doc y / cs := by
        intro y hy
        rcases List.mem_cons.mp hy with hy | hy
        · subst hy; exact Nat.le_refl _
        · exact hpw.1 y hy
      have hcur' : cur = [] := by
        rw [hcur]
        apply segOf_eq_nil
        intro y hy
        have := hall y hy
        omega
      have hskip : cstart offs (doc x / cs) = cstop offs ci := by
        rw [T.hstart _ hlt, T.hstop _ hci]
        apply sumList_take_skip _ (ci + 1) (doc x / cs) (by omega) (by simp; omega)
        intro k hk h1 h2
        have hk' : k < segs.length := by simpa using hk
        simp only [List.getElem_map]
        rw [hsegs k hk' (by omega), segOf_eq_nil]
        · rfl
        · intro y hy
          have := hall y hy
          omega
      rw [if_neg (by
        intro h
        rcases h with h | h | h
        · omega
        · exact h hcur'
        · exact h hskip)]
      rw [T.hbytes _ hlt, hsegs _ hlt hgt, segOf_cons_eq, hdec x (by simp)]
      simp only
      rw [ih (doc x / cs) _ hlt hdec' hpw.2
        (fun y hy => ⟨hpw.1 y hy, (hrange y (by simp [hy])).2⟩) rfl
        (fun k hk h1 => by rw [hsegs k hk (by omega), segOf_cons_ne]; omega)]
      rfl

/-- The walk over a written stream returns the items. -/
theorem walkL_roundtrip {offs : List Nat} {data : Bytes} {segs : List Bytes}
    (T : Table offs data segs) (cs : Nat) (doc : β → Nat) (blk : β → Bytes) (val : β → α)
    (dec : Nat → Bytes → Option (α × Bytes)) (xs : List β) (hn : 0 < segs.length)
    (hseg : ∀ k (h : k < segs.length), segs[k] = segOf cs doc blk xs k)
    (hdec : ∀ x ∈ xs, ∀ r, dec (doc x) (blk x ++ r) = some (val x, r))
    (hmono : xs.Pairwise (fun a b => doc a ≤ doc b))
    (hmax : ∀ x ∈ xs, doc x / cs < segs.length) :
    walkL offs data cs dec (xs.map doc) 0 (chunkBytes offs data 0) = some (xs.map val) := by
  apply walkL_aux T cs doc blk val dec xs 0 _ hn hdec
  · exact hmono.imp (fun h => Nat.div_le_div_right h)
  · exact fun x hx => ⟨Nat.zero_le _, hmax x hx⟩
  · rw [T.hbytes 0 hn, hseg 0 hn]
  · exact fun k hk _ => hseg k hk

end

end Zap.Writer.Walk
