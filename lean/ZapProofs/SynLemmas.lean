/-
  ZapProofs.SynLemmas: helper lemmas for C12 (thesaurus of a built segment):
  code lists (`insertCode`), the accumulation of pass 2 (`addCodes`), the term
  sort (`insertLhs`), synonym ids (`synIds` / `synIdOf`), and what
  `Seg.synonyms` / `Seg.thesTerms` read.
-/
import ZapModel.SpecSyn
import ZapProofs.MergeLemmas
import ZapProofs.StoredLemmas
import ZapProofs.BuildLemmas4

namespace Zap.SynL
open Zap Zap.Spec

/-! ### `CodeLt` -/

theorem codeLt_trans {a b c : Nat × Nat} (h1 : CodeLt a b) (h2 : CodeLt b c) : CodeLt a c := by
  unfold CodeLt at *; omega

theorem codeLt_total {a b : Nat × Nat} (hne : a ≠ b) (h : ¬ CodeLt a b) : CodeLt b a := by
  obtain ⟨a1, a2⟩ := a; obtain ⟨b1, b2⟩ := b
  unfold CodeLt at *
  simp only [ne_eq, Prod.mk.injEq] at hne
  simp only at h ⊢
  omega

theorem codeLt_irrefl (a : Nat × Nat) : ¬ CodeLt a a := by unfold CodeLt; omega

theorem pairwise_codeLt_nodup {l : List (Nat × Nat)} (h : l.Pairwise CodeLt) : l.Nodup :=
  h.imp (fun {a b} hab e => by subst e; exact codeLt_irrefl _ hab)

/-! ### `insertCode` -/

theorem mem_insertCode (x z : Nat × Nat) (l : List (Nat × Nat)) :
    z ∈ insertCode x l ↔ z = x ∨ z ∈ l := by
  induction l with
  | nil => simp [insertCode]
  | cons y ys ih =>
    unfold insertCode
    split
    · rename_i h; subst h
      constructor
      · intro h; exact Or.inr h
      · rintro (h | h)
        · subst h; simp
        · exact h
    · split
      · simp
      · rw [List.mem_cons, ih, List.mem_cons]
        constructor
        · rintro (h | h | h)
          · exact Or.inr (Or.inl h)
          · exact Or.inl h
          · exact Or.inr (Or.inr h)
        · rintro (h | h | h)
          · exact Or.inr (Or.inl h)
          · exact Or.inl h
          · exact Or.inr (Or.inr h)

theorem pairwise_insertCode (x : Nat × Nat) (l : List (Nat × Nat)) (h : l.Pairwise CodeLt) :
    (insertCode x l).Pairwise CodeLt := by
  induction l with
  | nil => simp [insertCode]
  | cons y ys ih =>
    rw [List.pairwise_cons] at h
    unfold insertCode
    split
    · exact List.pairwise_cons.2 h
    · rename_i hne
      split
      · rename_i hlt
        have hxy : CodeLt x y := hlt
        refine List.pairwise_cons.2 ⟨?_, List.pairwise_cons.2 h⟩
        intro z hz
        rcases List.mem_cons.1 hz with rfl | hz
        · exact hxy
        · exact codeLt_trans hxy (h.1 z hz)
      · rename_i hnlt
        have hyx : CodeLt y x := codeLt_total hne hnlt
        refine List.pairwise_cons.2 ⟨?_, ih h.2⟩
        intro z hz
        rcases (mem_insertCode x z ys).1 hz with rfl | hz
        · exact hyx
        · exact h.1 z hz

/-- `codes.foldl (fun l c => insertCode c l) l`: add a batch of codes to a bitmap. -/
def insAll (codes l : List (Nat × Nat)) : List (Nat × Nat) := codes.foldl (fun l c => insertCode c l) l

theorem mem_insAll (codes l : List (Nat × Nat)) (z : Nat × Nat) :
    z ∈ insAll codes l ↔ z ∈ codes ∨ z ∈ l := by
  unfold insAll
  induction codes generalizing l with
  | nil => simp
  | cons c cs ih =>
    rw [List.foldl_cons, ih, mem_insertCode, List.mem_cons]
    constructor
    · rintro (h | h | h)
      · exact Or.inl (Or.inr h)
      · exact Or.inl (Or.inl h)
      · exact Or.inr h
    · rintro ((h | h) | h)
      · exact Or.inr (Or.inl h)
      · exact Or.inl h
      · exact Or.inr (Or.inr h)

theorem pairwise_insAll (codes l : List (Nat × Nat)) (h : l.Pairwise CodeLt) :
    (insAll codes l).Pairwise CodeLt := by
  unfold insAll
  induction codes generalizing l with
  | nil => exact h
  | cons c cs ih => rw [List.foldl_cons]; exact ih _ (pairwise_insertCode c l h)

/-! ### Association lists keyed by byte strings -/

theorem lookup_map_val {β : Type} (g : Bytes → β → β) (k : Bytes) (d : List (Bytes × β)) :
    lookup k (d.map (fun p => (p.1, g p.1 p.2))) = (lookup k d).map (g k) := by
  induction d with
  | nil => rfl
  | cons p d ih =>
    obtain ⟨k', v⟩ := p
    simp only [List.map_cons, lookup]
    by_cases e : k = k'
    · subst e; simp
    · simp only [e, if_false]; exact ih

theorem lookup_append {β : Type} (k : Bytes) (d e : List (Bytes × β)) :
    lookup k (d ++ e) = (lookup k d).or (lookup k e) := by
  induction d with
  | nil => simp [lookup]
  | cons p d ih =>
    obtain ⟨k', v⟩ := p
    simp only [List.cons_append, lookup]
    by_cases h : k = k'
    · simp [h]
    · simp only [h, if_false]; exact ih

theorem lookup_isSome_iff {β : Type} (k : Bytes) (d : List (Bytes × β)) :
    (lookup k d).isSome = true ↔ k ∈ d.map (·.1) := by
  induction d with
  | nil => simp [lookup]
  | cons p d ih =>
    obtain ⟨k', v⟩ := p
    simp only [lookup, List.map_cons, List.mem_cons]
    by_cases h : k = k'
    · simp [h]
    · simp only [h, if_false, false_or]; exact ih

theorem lookup_none_iff {β : Type} (k : Bytes) (d : List (Bytes × β)) :
    lookup k d = none ↔ k ∉ d.map (·.1) := by
  rw [← lookup_isSome_iff]
  cases lookup k d <;> simp

theorem any_key_iff {β : Type} (k : Bytes) (d : List (Bytes × β)) :
    d.any (fun p => decide (p.1 = k)) = true ↔ k ∈ d.map (·.1) := by
  simp only [List.any_eq_true, decide_eq_true_eq, List.mem_map]

theorem lookup_mem {β : Type} {k : Bytes} {v : β} {d : List (Bytes × β)} (h : lookup k d = some v) :
    (k, v) ∈ d := MergeL.lookup_some_mem h

theorem lookup_of_mem_nodup {β : Type} {k : Bytes} {v : β} {d : List (Bytes × β)}
    (hnd : (d.map (·.1)).Nodup) (h : (k, v) ∈ d) : lookup k d = some v :=
  (Stored.lookup_eq_some_iff k v d hnd).2 h

theorem lookup_filter {β : Type} (q : Bytes × β → Bool) (k : Bytes) (d : List (Bytes × β))
    (hnd : (d.map (·.1)).Nodup) :
    lookup k (d.filter q) = (lookup k d).bind (fun v => if q (k, v) then some v else none) := by
  induction d with
  | nil => rfl
  | cons p d ih =>
    obtain ⟨k', v⟩ := p
    rw [List.map_cons, List.nodup_cons] at hnd
    rw [List.filter_cons]
    by_cases e : k = k'
    · subst e
      by_cases hq : q (k, v) = true
      · simp [hq, lookup]
      · have hn : lookup k d = none := (lookup_none_iff k d).2 hnd.1
        have hq' : q (k, v) = false := by simpa using hq
        simp only [hq', lookup, if_true, Option.bind_some, Bool.false_eq_true, if_false]
        rw [ih hnd.2, hn]; rfl
    · by_cases hq : q (k', v) = true
      · simp only [hq, if_true, lookup, e, if_false]; exact ih hnd.2
      · simp only [hq, lookup, e, if_false]; exact ih hnd.2

/-! ### `addCodes` (pass 2 accumulation) -/

theorem addCodes_keys (d : List (Bytes × List (Nat × Nat))) (lhs : Bytes) (codes : List (Nat × Nat)) :
    (addCodes d lhs codes).map (·.1) = if lhs ∈ d.map (·.1) then d.map (·.1) else d.map (·.1) ++ [lhs] := by
  unfold addCodes
  by_cases h : lhs ∈ d.map (·.1)
  · rw [if_pos ((any_key_iff lhs d).2 h), if_pos h, List.map_map]
    apply List.map_congr_left
    intro p _
    simp only [Function.comp]
    split <;> rfl
  · rw [if_neg (fun x => h ((any_key_iff lhs d).1 x)), if_neg h]
    simp

theorem addCodes_nodup (d : List (Bytes × List (Nat × Nat))) (lhs : Bytes) (codes : List (Nat × Nat))
    (h : (d.map (·.1)).Nodup) : ((addCodes d lhs codes).map (·.1)).Nodup := by
  rw [addCodes_keys]
  split
  · exact h
  · rename_i hn
    rw [List.nodup_append]
    refine ⟨h, by simp, ?_⟩
    intro a ha b hb
    simp at hb; subst hb
    intro e; subst e; exact hn ha

theorem lookup_addCodes (d : List (Bytes × List (Nat × Nat))) (lhs : Bytes) (codes : List (Nat × Nat))
    (k : Bytes) :
    lookup k (addCodes d lhs codes) =
      if k = lhs then some (insAll codes ((lookup lhs d).getD [])) else lookup k d := by
  unfold addCodes
  by_cases h : lhs ∈ d.map (·.1)
  · rw [if_pos ((any_key_iff lhs d).2 h)]
    have := lookup_map_val (fun k' v => if k' = lhs then insAll codes v else v) k d
    have e : (d.map (fun p => if p.1 = lhs then (p.1, codes.foldl (fun l c => insertCode c l) p.2) else p))
        = d.map (fun p => (p.1, (fun k' v => if k' = lhs then insAll codes v else v) p.1 p.2)) := by
      apply List.map_congr_left
      intro p _
      by_cases hp : p.1 = lhs <;> simp [hp, insAll]
    rw [e, this]
    by_cases hk : k = lhs
    · subst hk
      have hs := (lookup_isSome_iff k d).2 h
      cases hl : lookup k d with
      | none => rw [hl] at hs; simp at hs
      | some v => simp
    · simp only [hk, if_false]
      cases lookup k d <;> rfl
  · rw [if_neg (fun x => h ((any_key_iff lhs d).1 x)), lookup_append]
    have hn : lookup lhs d = none := (lookup_none_iff lhs d).2 h
    by_cases hk : k = lhs
    · subst hk
      simp [hn, lookup, insAll]
    · simp only [hk, if_false, lookup]
      cases lookup k d <;> rfl

/-- One event of pass 2: an LHS term and the codes one definition adds to it. -/
abbrev Ev := Bytes × List (Nat × Nat)

def runEvs (evs : List Ev) (d : List (Bytes × List (Nat × Nat))) : List (Bytes × List (Nat × Nat)) :=
  evs.foldl (fun acc e => addCodes acc e.1 e.2) d

theorem runEvs_nodup (evs : List Ev) (d : List (Bytes × List (Nat × Nat))) (h : (d.map (·.1)).Nodup) :
    ((runEvs evs d).map (·.1)).Nodup := by
  unfold runEvs
  induction evs generalizing d with
  | nil => exact h
  | cons e es ih => rw [List.foldl_cons]; exact ih _ (addCodes_nodup d e.1 e.2 h)

/-- Membership of a code under a key. -/
def HasCode (d : List (Bytes × List (Nat × Nat))) (k : Bytes) (c : Nat × Nat) : Prop :=
  ∃ cs, lookup k d = some cs ∧ c ∈ cs

theorem hasCode_addCodes (d : List (Bytes × List (Nat × Nat))) (lhs : Bytes) (codes : List (Nat × Nat))
    (k : Bytes) (c : Nat × Nat) :
    HasCode (addCodes d lhs codes) k c ↔ HasCode d k c ∨ (k = lhs ∧ c ∈ codes) := by
  unfold HasCode
  rw [lookup_addCodes]
  by_cases hk : k = lhs
  · subst hk
    simp only [if_true, Option.some.injEq, exists_eq_left', mem_insAll, true_and]
    cases hl : lookup k d with
    | none => simp
    | some v =>
      simp only [Option.getD_some, Option.some.injEq, exists_eq_left']
      constructor
      · rintro (h | h)
        · exact Or.inr h
        · exact Or.inl h
      · rintro (h | h)
        · exact Or.inr h
        · exact Or.inl h
  · simp [hk]

theorem hasCode_runEvs (evs : List Ev) (d : List (Bytes × List (Nat × Nat))) (k : Bytes) (c : Nat × Nat) :
    HasCode (runEvs evs d) k c ↔ HasCode d k c ∨ ∃ e ∈ evs, e.1 = k ∧ c ∈ e.2 := by
  unfold runEvs
  induction evs generalizing d with
  | nil => simp
  | cons e es ih =>
    rw [List.foldl_cons, ih, hasCode_addCodes]
    constructor
    · rintro ((h | ⟨h1, h2⟩) | ⟨e', he', h⟩)
      · exact Or.inl h
      · exact Or.inr ⟨e, by simp, h1.symm, h2⟩
      · exact Or.inr ⟨e', by simp [he'], h⟩
    · rintro (h | ⟨e', he', h1, h2⟩)
      · exact Or.inl (Or.inl h)
      · rcases List.mem_cons.1 he' with rfl | he'
        · exact Or.inl (Or.inr ⟨h1.symm, h2⟩)
        · exact Or.inr ⟨e', he', h1, h2⟩

/-- Every code list is a strictly ascending bitmap. -/
def AllAsc (d : List (Bytes × List (Nat × Nat))) : Prop :=
  ∀ k cs, lookup k d = some cs → cs.Pairwise CodeLt

theorem allAsc_addCodes (d : List (Bytes × List (Nat × Nat))) (lhs : Bytes) (codes : List (Nat × Nat))
    (h : AllAsc d) : AllAsc (addCodes d lhs codes) := by
  intro k cs hl
  rw [lookup_addCodes] at hl
  split at hl
  · simp only [Option.some.injEq] at hl
    subst hl
    apply pairwise_insAll
    cases hl' : lookup lhs d with
    | none => simp
    | some v => exact h lhs v hl'
  · exact h k cs hl

theorem allAsc_runEvs (evs : List Ev) (d : List (Bytes × List (Nat × Nat))) (h : AllAsc d) :
    AllAsc (runEvs evs d) := by
  unfold runEvs
  induction evs generalizing d with
  | nil => exact h
  | cons e es ih => rw [List.foldl_cons]; exact ih _ (allAsc_addCodes d e.1 e.2 h)

/-! ### `insertLhs` (sorting the LHS terms) -/

theorem lookup_insertLhs (x : Bytes × List (Nat × Nat)) (l : List (Bytes × List (Nat × Nat))) (k : Bytes) :
    lookup k (insertLhs x l) = if k = x.1 then some x.2 else lookup k l := by
  induction l with
  | nil => obtain ⟨a, b⟩ := x; simp [insertLhs, lookup]
  | cons y ys ih =>
    unfold insertLhs
    split
    · rename_i hlt
      obtain ⟨y1, y2⟩ := y
      simp only [lookup]
      rw [ih]
      by_cases h1 : k = x.1
      · have : k ≠ y1 := by
          intro e; rw [h1] at e; simp only at hlt; rw [← e, MergeL.Bytes.lt_irrefl] at hlt; cases hlt
        simp [h1]
        intro e; exact absurd (h1 ▸ e) this
      · simp [h1]
    · obtain ⟨a, b⟩ := x; simp [lookup]

theorem lookup_sortLhs (d : List (Bytes × List (Nat × Nat))) (k : Bytes) :
    lookup k (d.foldr insertLhs []) = lookup k d := by
  induction d with
  | nil => rfl
  | cons x d ih =>
    obtain ⟨a, b⟩ := x
    rw [List.foldr_cons, lookup_insertLhs, ih]; simp [lookup]

theorem map_fst_insertLhs (x : Bytes × List (Nat × Nat)) (l : List (Bytes × List (Nat × Nat))) :
    (insertLhs x l).map (·.1) = insertName x.1 (l.map (·.1)) := by
  induction l with
  | nil => rfl
  | cons y ys ih =>
    unfold insertLhs
    simp only [List.map_cons, insertName]
    split
    · simp [ih]
    · rfl

theorem map_fst_sortLhs (d : List (Bytes × List (Nat × Nat))) :
    (d.foldr insertLhs []).map (·.1) = sortNames (d.map (·.1)) := by
  induction d with
  | nil => rfl
  | cons x d ih => rw [List.foldr_cons, map_fst_insertLhs, ih]; rfl

theorem sortedLt_sortLhs (d : List (Bytes × List (Nat × Nat))) (h : (d.map (·.1)).Nodup) :
    SortedLt ((d.foldr insertLhs []).map (·.1)) := by
  rw [map_fst_sortLhs]; exact MergeL.sortedLt_sortNames _ h

/-- The final term list of a thesaurus from the accumulated map. -/
def finishTerms (d : List (Bytes × List (Nat × Nat))) : List (Bytes × List (Nat × Nat)) :=
  (d.foldr insertLhs []).filter (fun p => !p.2.isEmpty)

theorem finishTerms_sorted (d : List (Bytes × List (Nat × Nat))) (h : (d.map (·.1)).Nodup) :
    SortedLt ((finishTerms d).map (·.1)) := by
  have hs := sortedLt_sortLhs d h
  unfold finishTerms
  generalize d.foldr insertLhs [] = l at hs
  have : (l.filter (fun p => !p.2.isEmpty)).Pairwise (fun a b => Bytes.lt a.1 b.1 = true) := by
    apply List.Pairwise.filter
    have := (Stored.sortedLt_iff_pairwise _).1 hs
    exact List.pairwise_map.1 this
  exact (Stored.sortedLt_iff_pairwise _).2 (List.pairwise_map.2 this)

theorem lookup_finishTerms (d : List (Bytes × List (Nat × Nat))) (h : (d.map (·.1)).Nodup) (k : Bytes) :
    lookup k (finishTerms d) = (lookup k d).bind (fun cs => if cs.isEmpty then none else some cs) := by
  unfold finishTerms
  have hnd : ((d.foldr insertLhs []).map (·.1)).Nodup := MergeL.sortedLt_nodup (sortedLt_sortLhs d h)
  rw [lookup_filter _ k _ hnd, lookup_sortLhs]
  cases lookup k d with
  | none => rfl
  | some cs => cases cs.isEmpty <;> simp

/-! ### Synonym ids (pass 1) -/

/-- Every synonym term of thesaurus `n` seen by pass 1, in visiting order. -/
def synList (b : Batch) (n : Name) : List Bytes :=
  b.flatMap (fun d => ((synFields d).filter (fun f => f.name = n)).flatMap (fun f => f.defs.flatMap (·.rhs)))

theorem synIds_eq (b : Batch) (n : Name) : synIds b n = (synList b n).foldl getOrDefine [] := by
  unfold synIds synList
  rw [List.foldl_flatMap]
  congr 1
  funext acc d
  rw [List.foldl_flatMap, List.foldl_filter]
  congr 1
  funext acc f
  by_cases h : f.name = n
  · simp only [h, if_true, decide_true]
    rw [List.foldl_flatMap]
  · simp only [h, if_false, decide_false]
    rfl

theorem mem_synIds (b : Batch) (n : Name) (s : Bytes) : s ∈ synIds b n ↔ s ∈ synList b n := by
  rw [synIds_eq, MergeL.mem_foldl_getOrDefine]; simp

theorem synIds_nodup (b : Batch) (n : Name) : (synIds b n).Nodup := by
  rw [synIds_eq]; exact MergeL.nodup_foldl_getOrDefine _ _ List.nodup_nil

theorem synIdOf_eq_fieldIdOf (ids : List Bytes) (s : Bytes) : synIdOf ids s = fieldIdOf ids s := rfl

theorem synIdOf_get {ids : List Bytes} {s : Bytes} (h : s ∈ ids) : ids[synIdOf ids s]? = some s :=
  MergeL.getD_fieldIdOf ids s h

theorem synIdOf_lt {ids : List Bytes} {s : Bytes} (h : s ∈ ids) : synIdOf ids s < ids.length := by
  have := synIdOf_get h
  by_cases hl : synIdOf ids s < ids.length
  · exact hl
  · rw [List.getElem?_eq_none (by omega)] at this; cases this

theorem synIdOf_inj {ids : List Bytes} {s s' : Bytes} (h : s ∈ ids) (h' : s' ∈ ids)
    (e : synIdOf ids s = synIdOf ids s') : s = s' := by
  have h1 := synIdOf_get h
  have h2 := synIdOf_get h'
  rw [e, h2] at h1
  exact (Option.some.inj h1).symm

/-- The id → term table `(ids.zipIdx).map swap`. -/
def tableOf (ids : List Bytes) : List (Nat × Bytes) := (ids.zipIdx).map (fun p => (p.2, p.1))

theorem lookup_zipIdx_swap (ids : List Bytes) (k j : Nat) :
    lookup (k + j) ((ids.zipIdx k).map (fun p => (p.2, p.1))) = ids[j]? := by
  induction ids generalizing k j with
  | nil => rfl
  | cons a as ih =>
    rw [List.zipIdx_cons, List.map_cons]
    simp only [lookup]
    cases j with
    | zero => simp
    | succ j =>
      have : ¬ (k + (j + 1) = k) := by omega
      simp only [this, if_false, List.getElem?_cons_succ]
      have e : k + (j + 1) = (k + 1) + j := by omega
      rw [e]; exact ih (k + 1) j

theorem lookup_tableOf (ids : List Bytes) (j : Nat) : lookup j (tableOf ids) = ids[j]? := by
  have := lookup_zipIdx_swap ids 0 j
  rw [Nat.zero_add] at this; exact this

theorem tableOf_ids (ids : List Bytes) : (tableOf ids).map (·.1) = List.range' 0 ids.length := by
  unfold tableOf
  rw [List.map_map]
  exact List.zipIdx_map_snd 0 ids

theorem tableOf_syns (ids : List Bytes) : (tableOf ids).map (·.2) = ids := by
  unfold tableOf
  rw [List.map_map]
  exact List.zipIdx_map_fst 0 ids

theorem lookup_tableOf_synIdOf {ids : List Bytes} {s : Bytes} (h : s ∈ ids) :
    lookup (synIdOf ids s) (tableOf ids) = some s := by
  rw [lookup_tableOf]; exact synIdOf_get h

/-! ### `buildThes` -/

/-- The events of pass 2 for thesaurus `n`: one per definition, in document,
    field, definition order. -/
def evs (ids : List Bytes) (b : Batch) (n : Name) : List Ev :=
  b.zipIdx.flatMap (fun p => (synDefs p.1 n).map (fun df => (df.lhs, df.rhs.map (fun s => (synIdOf ids s, p.2)))))

theorem buildThes_eq (b : Batch) (n : Name) :
    buildThes b n =
      { terms := finishTerms (runEvs (evs (synIds b n) b n) []), table := tableOf (synIds b n) } := by
  unfold buildThes finishTerms runEvs evs tableOf
  simp only []
  congr 3
  rw [List.foldl_flatMap]
  congr 1
  funext acc p
  unfold synDefs
  rw [List.foldl_map, List.foldl_flatMap]

/-! ### Generic association lists / duplicate-freeness -/

theorem lookupG_of_mem {α β : Type} [DecidableEq α] {k : α} {v : β} {l : List (α × β)}
    (hnd : (l.map (·.1)).Nodup) (h : (k, v) ∈ l) : lookup k l = some v := by
  induction l with
  | nil => cases h
  | cons p l ih =>
    obtain ⟨k', v'⟩ := p
    rw [List.map_cons, List.nodup_cons] at hnd
    simp only [lookup]
    rcases List.mem_cons.1 h with e | hm
    · cases e; simp
    · have : k ≠ k' := by
        intro e; subst e
        exact hnd.1 (List.mem_map.2 ⟨(k, v), hm, rfl⟩)
      simp only [this, if_false]; exact ih hnd.2 hm

theorem inj_of_nodup_map {α β : Type} {f : α → β} {l : List α} (h : (l.map f).Nodup)
    {a b : α} (ha : a ∈ l) (hb : b ∈ l) (e : f a = f b) : a = b := by
  induction l with
  | nil => cases ha
  | cons x l ih =>
    rw [List.map_cons, List.nodup_cons] at h
    rcases List.mem_cons.1 ha with ea | ha' <;> rcases List.mem_cons.1 hb with eb | hb'
    · rw [ea, eb]
    · subst ea; exact absurd (List.mem_map.2 ⟨b, hb', e.symm⟩) h.1
    · subst eb; exact absurd (List.mem_map.2 ⟨a, ha', e⟩) h.1
    · exact ih h.2 ha' hb'

theorem nodup_map_of_inj_on {α β : Type} {f : α → β} {l : List α} (hl : l.Nodup)
    (hinj : ∀ a ∈ l, ∀ b ∈ l, f a = f b → a = b) : (l.map f).Nodup := by
  unfold List.Nodup
  rw [List.pairwise_map]
  exact List.Pairwise.imp_of_mem (fun {a b} ha hb hne e => hne (hinj a ha b hb e)) hl

theorem eq_nil_of_no_mem {α : Type} {l : List α} (h : ∀ a, a ∉ l) : l = [] := by
  cases l with
  | nil => rfl
  | cons a l => exact absurd (List.mem_cons_self) (h a)

/-! ### Reading a thesaurus -/

theorem mem_synonyms (s : Seg) (n : Name) (term : Bytes) (ex : Option (List Nat)) (q : Bytes × Nat) :
    q ∈ s.synonyms n term ex ↔
      ∃ t, s.thes? n = some t ∧ ∃ cs, lookup term t.terms = some cs ∧
        ∃ c ∈ cs, excluded ex c.2 = false ∧ q = ((lookup c.1 t.table).getD [], c.2) := by
  unfold Seg.synonyms
  split
  · rename_i ht; simp [ht]
  · rename_i t ht
    split
    · rename_i hl; simp [ht, hl]
    · rename_i cs hl
      simp only [ht, hl, List.mem_map, List.mem_filter, Bool.not_eq_true', Option.some.injEq, exists_eq_left']
      constructor
      · rintro ⟨c, ⟨h1, h2⟩, rfl⟩; exact ⟨c, h1, h2, rfl⟩
      · rintro ⟨c, h1, h2, rfl⟩; exact ⟨c, ⟨h1, h2⟩, rfl⟩

theorem mem_thesTerms (s : Seg) (n : Name) (k : Bytes) :
    k ∈ s.thesTerms n ↔ ∃ t, s.thes? n = some t ∧ ∃ cs, lookup k t.terms = some cs := by
  unfold Seg.thesTerms
  cases s.thes? n with
  | none => simp
  | some t =>
    simp only [Option.some.injEq, exists_eq_left']
    rw [← lookup_isSome_iff]
    cases lookup k t.terms <;> simp

/-- For a well-formed thesaurus every pair is listed once. -/
theorem thesWF_pairs_nodup {t : Thes} (h : ThesWF t) {term : Bytes} {cs : List (Nat × Nat)}
    (hl : lookup term t.terms = some cs) (q : Nat × Nat → Bool) :
    ((cs.filter q).map (fun c => ((lookup c.1 t.table).getD [], c.2))).Nodup := by
  have hmem := lookup_mem hl
  have hcs : cs.Nodup := pairwise_codeLt_nodup (h.codesAsc _ hmem).2
  apply nodup_map_of_inj_on (List.Pairwise.filter _ hcs)
  intro a ha b hb e
  have ha' := (List.mem_filter.1 ha).1
  have hb' := (List.mem_filter.1 hb).1
  have h1 := h.idKnown _ hmem a ha'
  have h2 := h.idKnown _ hmem b hb'
  cases hla : lookup a.1 t.table with
  | none => rw [hla] at h1; cases h1
  | some sa =>
    cases hlb : lookup b.1 t.table with
    | none => rw [hlb] at h2; cases h2
    | some sb =>
      rw [hla, hlb] at e
      simp only [Option.getD_some, Prod.mk.injEq] at e
      have m1 := MergeL.lookup_some_mem hla
      have m2 := MergeL.lookup_some_mem hlb
      have := inj_of_nodup_map h.synsDistinct m1 m2 e.1
      obtain ⟨a1, a2⟩ := a; obtain ⟨b1, b2⟩ := b
      simp only [Prod.mk.injEq] at this e ⊢
      exact ⟨this.1, e.2⟩

theorem synonyms_nodup (s : Seg) (n : Name) (term : Bytes) (ex : Option (List Nat))
    (h : ∀ t, s.thes? n = some t → ThesWF t) : (s.synonyms n term ex).Nodup := by
  unfold Seg.synonyms
  split
  · exact List.nodup_nil
  · rename_i t ht
    split
    · exact List.nodup_nil
    · rename_i cs hl
      exact thesWF_pairs_nodup (h t ht) hl _

theorem thesTerms_sorted (s : Seg) (n : Name) (h : ∀ t, s.thes? n = some t → ThesWF t) :
    SortedLt (s.thesTerms n) := by
  unfold Seg.thesTerms
  cases ht : s.thes? n with
  | none => trivial
  | some t => exact (h t ht).sorted

/-! ### The thesaurus of a built segment -/

theorem hasThes_iff (b : Batch) (n : Name) :
    hasThes b n = true ↔ ∃ d ∈ b, ∃ f ∈ synFields d, f.name = n := by
  unfold hasThes
  simp only [List.any_eq_true, decide_eq_true_eq]

theorem mem_synFields {d : DocIn} {f : FieldIn} :
    f ∈ synFields d ↔ d.plain = false ∧ f ∈ d.fields ∧ f.kind = .syn := by
  unfold synFields
  cases hp : d.plain
  · simp only [Bool.false_eq_true, if_false, List.mem_filter, beq_iff_eq, true_and]
  · simp

theorem hasThes_iff_spec {b : Batch} (hp : SynPlainOK b) (n : Name) :
    hasThes b n = true ↔ hasSynField b n := by
  rw [hasThes_iff]
  unfold hasSynField
  constructor
  · rintro ⟨d, hd, f, hf, e⟩
    obtain ⟨_, h2, h3⟩ := mem_synFields.1 hf
    exact ⟨d, hd, f, h2, h3, e⟩
  · rintro ⟨d, hd, f, hf, hk, e⟩
    exact ⟨d, hd, f, mem_synFields.2 ⟨hp d hd f hf hk, hf, hk⟩, e⟩

theorem hasThes_mem_fieldTable {b : Batch} {n : Name} (h : hasThes b n = true) : n ∈ fieldTable b := by
  obtain ⟨d, hd, f, hf, e⟩ := (hasThes_iff b n).1 h
  obtain ⟨_, h2, _⟩ := mem_synFields.1 hf
  rw [Stored.mem_fieldTable]
  refine Or.inr ?_
  unfold Spec.names
  refine List.mem_flatMap.2 ⟨d, hd, ?_⟩
  unfold docNames
  exact List.mem_map.2 ⟨f, (Stored.mem_visitOrder d f).2 h2, e⟩

theorem buildSeg_thes? (v : Bool) (mode : Nat) (b : Batch) (hne : b ≠ []) (n : Name) :
    (buildSeg v mode b).thes? n = if hasThes b n = true then some (buildThes b n) else none := by
  have hlen := length_processDocs v (fieldTable b) b
  have hnd : ¬ b.length = 0 := by
    intro h; exact hne (List.length_eq_zero_iff.1 h)
  unfold Seg.thes? Seg.field? Seg.loadedFields
  simp only [buildSeg, hnd, if_false]
  rw [find_zip_field _ (fun _ => rfl) n _ _ hlen]
  by_cases h : n ∈ fieldTable b
  · simp only [h, if_true]
    by_cases ht : hasThes b n = true
    · rw [if_pos ⟨hnd, ht⟩, if_pos ht]
    · rw [if_neg (fun x => ht x.2), if_neg ht]
  · have : ¬ hasThes b n = true := fun x => h (hasThes_mem_fieldTable x)
    simp [h, this]

theorem mem_synDefs {d : DocIn} {n : Name} {df : SynDefn} :
    df ∈ synDefs d n ↔ ∃ f ∈ d.fields, f.kind = .syn ∧ f.name = n ∧ df ∈ f.defs := by
  unfold synDefs
  simp only [List.mem_flatMap, List.mem_filter, Bool.and_eq_true, beq_iff_eq, decide_eq_true_eq]
  constructor
  · rintro ⟨f, ⟨h1, h2, h3⟩, h4⟩; exact ⟨f, h1, h2, h3, h4⟩
  · rintro ⟨f, h1, h2, h3, h4⟩; exact ⟨f, ⟨h1, h2, h3⟩, h4⟩

theorem rhs_mem_synIds {b : Batch} (hp : SynPlainOK b) {n : Name} {d : DocIn} (hd : d ∈ b)
    {df : SynDefn} (hdf : df ∈ synDefs d n) {s : Bytes} (hs : s ∈ df.rhs) : s ∈ synIds b n := by
  obtain ⟨f, hf, hk, hn, hdf'⟩ := mem_synDefs.1 hdf
  rw [mem_synIds]
  unfold synList
  refine List.mem_flatMap.2 ⟨d, hd, List.mem_flatMap.2 ⟨f, ?_, List.mem_flatMap.2 ⟨df, hdf', hs⟩⟩⟩
  exact List.mem_filter.2 ⟨mem_synFields.2 ⟨hp d hd f hf hk, hf, hk⟩, by simpa using hn⟩

theorem mem_synIds_iff (b : Batch) (n : Name) (s : Bytes) :
    s ∈ synIds b n ↔ ∃ d ∈ b, ∃ f ∈ synFields d, f.name = n ∧ ∃ df ∈ f.defs, s ∈ df.rhs := by
  rw [mem_synIds]
  unfold synList
  simp only [List.mem_flatMap, List.mem_filter, decide_eq_true_eq]
  constructor
  · rintro ⟨d, hd, f, ⟨hf, hn⟩, df, hdf, hs⟩; exact ⟨d, hd, f, hf, hn, df, hdf, hs⟩
  · rintro ⟨d, hd, f, hf, hn, df, hdf, hs⟩; exact ⟨d, hd, f, ⟨hf, hn⟩, df, hdf, hs⟩

theorem zipIdx_mem_left {α : Type} {l : List α} {p : α × Nat} (h : p ∈ l.zipIdx) : p.1 ∈ l := by
  have := List.mem_zipIdx_iff_getElem?.1 h
  exact List.mem_of_getElem? this

/-- Codes under a key of the accumulated map = the events with that key. -/
theorem hasCode_build (ids : List Bytes) (b : Batch) (n : Name) (k : Bytes) (c : Nat × Nat) :
    HasCode (runEvs (evs ids b n) []) k c ↔
      ∃ p ∈ b.zipIdx, ∃ df ∈ synDefs p.1 n, df.lhs = k ∧ ∃ s ∈ df.rhs, c = (synIdOf ids s, p.2) := by
  rw [hasCode_runEvs]
  have h0 : ¬ HasCode [] k c := by rintro ⟨cs, h, _⟩; cases h
  simp only [h0, false_or]
  unfold evs
  simp only [List.mem_flatMap, List.mem_map]
  constructor
  · rintro ⟨e, ⟨p, hp, df, hdf, rfl⟩, h1, h2⟩
    obtain ⟨s, hs, e⟩ := List.mem_map.1 h2
    exact ⟨p, hp, df, hdf, h1, s, hs, e.symm⟩
  · rintro ⟨p, hp, df, hdf, h1, s, hs, e⟩
    exact ⟨_, ⟨p, hp, df, hdf, rfl⟩, h1, List.mem_map.2 ⟨s, hs, e.symm⟩⟩

theorem lookup_buildThes_terms (b : Batch) (n : Name) (k : Bytes) (c : Nat × Nat) :
    (∃ cs, lookup k (buildThes b n).terms = some cs ∧ c ∈ cs) ↔
      HasCode (runEvs (evs (synIds b n) b n) []) k c := by
  rw [buildThes_eq]
  simp only []
  rw [lookup_finishTerms _ (runEvs_nodup _ [] List.nodup_nil)]
  unfold HasCode
  cases lookup k (runEvs (evs (synIds b n) b n) []) with
  | none => simp
  | some cs =>
    cases hc : cs.isEmpty
    · have hne : ¬ cs = [] := by intro e; rw [e] at hc; simp at hc
      simp only [Option.bind_some, hc, Bool.false_eq_true, if_false, Option.some.injEq, exists_eq_left']
    · have : cs = [] := by simpa using hc
      subst this; simp

theorem buildThes_wf {b : Batch} (hp : SynPlainOK b) (n : Name) : ThesWF (buildThes b n) := by
  have hnd := runEvs_nodup (evs (synIds b n) b n) [] List.nodup_nil
  have hterms : (buildThes b n).terms = finishTerms (runEvs (evs (synIds b n) b n) []) := by
    rw [buildThes_eq]
  have htable : (buildThes b n).table = tableOf (synIds b n) := by rw [buildThes_eq]
  have hlk : ∀ p ∈ (buildThes b n).terms, lookup p.1 (runEvs (evs (synIds b n) b n) []) = some p.2 ∧ p.2 ≠ [] := by
    intro p hp'
    rw [hterms] at hp'
    have hs := finishTerms_sorted _ hnd
    have h1 := lookup_of_mem_nodup (MergeL.sortedLt_nodup hs) (k := p.1) (v := p.2) hp'
    rw [lookup_finishTerms _ hnd] at h1
    cases hl : lookup p.1 (runEvs (evs (synIds b n) b n) []) with
    | none => rw [hl] at h1; cases h1
    | some cs =>
      rw [hl] at h1
      simp only [Option.bind_some] at h1
      split at h1
      · cases h1
      · rename_i hne
        cases h1
        exact ⟨rfl, by intro e; rw [e] at hne; simp at hne⟩
  refine ⟨?_, ?_, ?_, ?_, ?_⟩
  · rw [hterms]; exact finishTerms_sorted _ hnd
  · intro p hp'
    obtain ⟨h1, h2⟩ := hlk p hp'
    refine ⟨h2, ?_⟩
    exact allAsc_runEvs _ [] (by intro k cs h; cases h) p.1 p.2 h1
  · intro p hp' c hc
    obtain ⟨h1, _⟩ := hlk p hp'
    have : HasCode (runEvs (evs (synIds b n) b n) []) p.1 c := ⟨p.2, h1, hc⟩
    obtain ⟨q, hq, df, hdf, _, s, hs, rfl⟩ := (hasCode_build _ b n p.1 c).1 this
    rw [htable, lookup_tableOf_synIdOf (rhs_mem_synIds hp (zipIdx_mem_left hq) hdf hs)]
    rfl
  · rw [htable, tableOf_ids]; exact List.nodup_range' 1
  · rw [htable, tableOf_syns]; exact synIds_nodup b n

/-! ### Specification side -/

theorem mem_synPairs (b : Batch) (n : Name) (term : Bytes) (s : Bytes) (i : Nat) :
    (s, i) ∈ synPairs b n term ↔
      ∃ p ∈ b.zipIdx, ∃ df ∈ synDefs p.1 n, df.lhs = term ∧ s ∈ df.rhs ∧ i = p.2 := by
  unfold synPairs
  simp only [List.mem_flatMap, List.mem_filter, decide_eq_true_eq, List.mem_map, Prod.mk.injEq]
  constructor
  · rintro ⟨p, hp, df, ⟨hdf, hl⟩, s', hs', rfl, rfl⟩; exact ⟨p, hp, df, hdf, hl, hs', rfl⟩
  · rintro ⟨p, hp, df, hdf, hl, hs, rfl⟩; exact ⟨p, hp, df, ⟨hdf, hl⟩, s, hs, rfl, rfl⟩

theorem mem_spec_synonyms (b : Batch) (n : Name) (term : Bytes) (ex : Option (List Nat)) (q : Bytes × Nat) :
    q ∈ Spec.synonyms b n term ex ↔ q ∈ synPairs b n term ∧ excluded ex q.2 = false := by
  unfold Spec.synonyms
  simp only [List.mem_filter, Bool.not_eq_true']

theorem mem_zipIdx_of_mem {α : Type} {l : List α} {a : α} (h : a ∈ l) : ∃ i, (a, i) ∈ l.zipIdx := by
  obtain ⟨i, hi⟩ := List.mem_iff_getElem?.1 h
  exact ⟨i, List.mem_zipIdx_iff_getElem?.2 hi⟩

theorem mem_thesTermsSet (b : Batch) (n : Name) (k : Bytes) :
    k ∈ thesTermsSet b n ↔ ∃ d ∈ b, ∃ df ∈ synDefs d n, df.rhs ≠ [] ∧ df.lhs = k := by
  unfold thesTermsSet
  simp only [List.mem_flatMap, List.mem_map, List.mem_filter, Bool.not_eq_true', List.isEmpty_eq_false_iff]
  constructor
  · rintro ⟨d, hd, df, ⟨h1, h2⟩, h3⟩; exact ⟨d, hd, df, h1, h2, h3⟩
  · rintro ⟨d, hd, df, h1, h2, h3⟩; exact ⟨d, hd, df, ⟨h1, h2⟩, h3⟩

/-- A definition of thesaurus `n` in the batch makes `hasThes` true (on the domain). -/
theorem hasThes_of_def {b : Batch} (hp : SynPlainOK b) {n : Name} {d : DocIn} (hd : d ∈ b)
    {df : SynDefn} (hdf : df ∈ synDefs d n) : hasThes b n = true := by
  obtain ⟨f, hf, hk, hn, _⟩ := mem_synDefs.1 hdf
  exact (hasThes_iff_spec hp n).2 ⟨d, hd, f, hf, hk, hn⟩

/-! ### C12 core: the built thesaurus against the specification -/

theorem build_synonyms_mem (v : Bool) (mode : Nat) (b : Batch) (hne : b ≠ []) (hp : SynPlainOK b)
    (n : Name) (term : Bytes) (ex : Option (List Nat)) (q : Bytes × Nat) :
    q ∈ (buildSeg v mode b).synonyms n term ex ↔ q ∈ Spec.synonyms b n term ex := by
  rw [mem_synonyms, mem_spec_synonyms, buildSeg_thes? v mode b hne]
  obtain ⟨qs, qi⟩ := q
  rw [mem_synPairs]
  constructor
  · rintro ⟨t, ht, cs, hl, c, hc, hex, hq⟩
    split at ht
    · cases ht
      have hcode := (lookup_buildThes_terms b n term c).1 ⟨cs, hl, hc⟩
      obtain ⟨p, hp', df, hdf, hlhs, s, hs, rfl⟩ := (hasCode_build _ b n term c).1 hcode
      have htab : (buildThes b n).table = tableOf (synIds b n) := by rw [buildThes_eq]
      rw [htab, lookup_tableOf_synIdOf (rhs_mem_synIds hp (zipIdx_mem_left hp') hdf hs)] at hq
      simp only [Option.getD_some, Prod.mk.injEq] at hq
      obtain ⟨rfl, rfl⟩ := hq
      exact ⟨⟨p, hp', df, hdf, hlhs, hs, rfl⟩, hex⟩
    · cases ht
  · rintro ⟨⟨p, hp', df, hdf, hlhs, hs, rfl⟩, hex⟩
    have hth := hasThes_of_def hp (zipIdx_mem_left hp') hdf
    rw [if_pos hth]
    refine ⟨_, rfl, ?_⟩
    have hcode : HasCode (runEvs (evs (synIds b n) b n) []) term (synIdOf (synIds b n) qs, p.2) :=
      (hasCode_build _ b n term _).2 ⟨p, hp', df, hdf, hlhs, qs, hs, rfl⟩
    obtain ⟨cs, hl, hc⟩ := (lookup_buildThes_terms b n term _).2 hcode
    refine ⟨cs, hl, _, hc, hex, ?_⟩
    have htab : (buildThes b n).table = tableOf (synIds b n) := by rw [buildThes_eq]
    rw [htab, lookup_tableOf_synIdOf (rhs_mem_synIds hp (zipIdx_mem_left hp') hdf hs)]
    rfl

theorem build_thes_wf (v : Bool) (mode : Nat) (b : Batch) (hne : b ≠ []) (hp : SynPlainOK b) :
    SegThesWF (buildSeg v mode b) := by
  intro n t ht
  rw [buildSeg_thes? v mode b hne] at ht
  split at ht
  · cases ht; exact buildThes_wf hp n
  · cases ht

theorem build_thesTerms_mem (v : Bool) (mode : Nat) (b : Batch) (hne : b ≠ []) (hp : SynPlainOK b)
    (n : Name) (k : Bytes) :
    k ∈ (buildSeg v mode b).thesTerms n ↔ k ∈ thesTermsSet b n := by
  rw [mem_thesTerms, mem_thesTermsSet, buildSeg_thes? v mode b hne]
  constructor
  · rintro ⟨t, ht, cs, hl⟩
    split at ht
    · cases ht
      have hwf := buildThes_wf hp n
      have hne' := (hwf.codesAsc _ (lookup_mem hl)).1
      cases cs with
      | nil => exact absurd rfl hne'
      | cons c cs =>
        have hcode := (lookup_buildThes_terms b n k c).1 ⟨_, hl, List.mem_cons_self⟩
        obtain ⟨p, hp', df, hdf, hlhs, s, hs, _⟩ := (hasCode_build _ b n k c).1 hcode
        exact ⟨p.1, zipIdx_mem_left hp', df, hdf, List.ne_nil_of_mem hs, hlhs⟩
    · cases ht
  · rintro ⟨d, hd, df, hdf, hrhs, hlhs⟩
    rw [if_pos (hasThes_of_def hp hd hdf)]
    refine ⟨_, rfl, ?_⟩
    obtain ⟨i, hi⟩ := mem_zipIdx_of_mem hd
    cases hr : df.rhs with
    | nil => exact absurd hr hrhs
    | cons s rest =>
      have hs : s ∈ df.rhs := by rw [hr]; exact List.mem_cons_self
      have hcode : HasCode (runEvs (evs (synIds b n) b n) []) k (synIdOf (synIds b n) s, i) :=
        (hasCode_build _ b n k _).2 ⟨(d, i), hi, df, hdf, hlhs, s, hs, rfl⟩
      obtain ⟨cs, hl, _⟩ := (lookup_buildThes_terms b n k _).2 hcode
      exact ⟨cs, hl⟩

/-! ### Synonym fields contribute nothing to the term dictionaries -/

theorem accField_name_mem (acc : List FieldAcc) (f : FieldIn) (a : FieldAcc) (h : a ∈ accField acc f) :
    a.name ∈ acc.map (·.name) ∨ a.name = f.name := by
  unfold accField at h
  split at h
  · obtain ⟨a', ha', e⟩ := List.mem_map.1 h
    refine Or.inl (List.mem_map.2 ⟨a', ha', ?_⟩)
    subst e
    split <;> rfl
  · rcases List.mem_append.1 h with h | h
    · exact Or.inl (List.mem_map.2 ⟨a, h, rfl⟩)
    · simp only [List.mem_singleton] at h
      subst h; exact Or.inr rfl

theorem foldl_accField_name_mem (fs : List FieldIn) (acc : List FieldAcc) (a : FieldAcc)
    (h : a ∈ fs.foldl accField acc) : a.name ∈ acc.map (·.name) ∨ ∃ f ∈ fs, f.name = a.name := by
  induction fs generalizing acc with
  | nil => exact Or.inl (List.mem_map.2 ⟨a, h, rfl⟩)
  | cons f fs ih =>
    rw [List.foldl_cons] at h
    rcases ih _ h with h' | ⟨g, hg, e⟩
    · obtain ⟨a', ha', e⟩ := List.mem_map.1 h'
      rcases accField_name_mem acc f a' ha' with h1 | h1
      · exact Or.inl (e ▸ h1)
      · exact Or.inr ⟨f, by simp, by rw [← e, h1]⟩
    · exact Or.inr ⟨g, by simp [hg], e⟩

theorem commitFields_untouched (tbl : List Name) (doc : Nat) (n : Name) (hn : n ∈ tbl)
    (accs : List FieldAcc) (hno : ∀ a ∈ accs, a.name ≠ n) (ds : Dicts) (hlen : ds.length = tbl.length) :
    ((accs.foldl (commitField tbl doc) ds).getD (fieldIdOf tbl n) [] = ds.getD (fieldIdOf tbl n) []) ∧
    (accs.foldl (commitField tbl doc) ds).length = tbl.length := by
  induction accs generalizing ds with
  | nil => exact ⟨rfl, hlen⟩
  | cons a accs ih =>
    rw [List.foldl_cons]
    have hl' : (commitField tbl doc ds a).length = tbl.length := by
      rw [Stored.commitField_length]; exact hlen
    obtain ⟨h1, h2⟩ := ih (fun x hx => hno x (by simp [hx])) _ hl'
    refine ⟨?_, h2⟩
    rw [h1, commitField_eq, getD_modify _ _ _ _ (by rw [hlen]; exact fieldIdOf_lt hn)]
    have : fieldIdOf tbl a.name ≠ fieldIdOf tbl n := fun e => hno a (by simp) (fieldIdOf_inj hn e)
    rw [if_neg this]

theorem processDocs_untouched (v : Bool) (tbl : List Name) (n : Name) (hn : n ∈ tbl) (b : Batch)
    (hno : ∀ d ∈ b, ∀ f ∈ d.fields, f.name = n → f.kind = .syn) :
    (processDocs v tbl b).getD (fieldIdOf tbl n) [] = [] := by
  unfold processDocs
  have h0 : (tbl.map (fun _ => ([] : List (Bytes × List Entry)))).getD (fieldIdOf tbl n) [] = [] := by
    rw [List.getD_eq_getElem?_getD, List.getElem?_map]
    cases tbl[fieldIdOf tbl n]? <;> rfl
  have hl0 : (tbl.map (fun _ => ([] : List (Bytes × List Entry)))).length = tbl.length := by simp
  generalize tbl.map (fun _ => ([] : List (Bytes × List Entry))) = ds at h0 hl0
  have hall : ∀ p ∈ b.zipIdx, ∀ f ∈ p.1.fields, f.name = n → f.kind = .syn :=
    fun p hp => hno p.1 (zipIdx_mem_left hp)
  generalize b.zipIdx = l at hall
  induction l generalizing ds with
  | nil => exact h0
  | cons p l ih =>
    rw [List.foldl_cons]
    have hacc : ∀ a ∈ docAcc v p.1, a.name ≠ n := by
      intro a ha e
      unfold docAcc at ha
      rcases foldl_accField_name_mem _ [] a ha with h | ⟨f, hf, hfe⟩
      · cases h
      · obtain ⟨hf1, hf2⟩ := List.mem_filter.1 hf
        have hk := hall p (by simp) f ((Stored.mem_visitOrder p.1 f).1 hf1) (hfe.trans e)
        unfold invProcessed at hf2
        rw [hk] at hf2
        cases hf2
    obtain ⟨h1, h2⟩ := commitFields_untouched tbl p.2 n hn (docAcc v p.1) hacc ds hl0
    exact ih _ (by unfold processDoc; rw [h1]; exact h0) (by unfold processDoc; exact h2)
      (fun q hq => hall q (by simp [hq]))

theorem build_dictTerms_syn (v : Bool) (mode : Nat) (b : Batch) (hne : b ≠ []) (n : Name)
    (hno : ∀ d ∈ b, ∀ f ∈ d.fields, f.name = n → f.kind = .syn) :
    (buildSeg v mode b).dictTerms n = [] := by
  rw [buildSeg_dictTerms v mode b hne n]
  split
  · rename_i hn
    rw [processDocs_untouched v _ n hn b hno]; rfl
  · rfl

/-! ### Remaining C12 helpers -/

theorem synPairs_meaning (b : Batch) (n : Name) (term syn : Bytes) (d : Nat) :
    (syn, d) ∈ synPairs b n term ↔
      ∃ doc, b[d]? = some doc ∧ ∃ f ∈ doc.fields, f.kind = .syn ∧ f.name = n ∧
        ∃ df ∈ f.defs, df.lhs = term ∧ syn ∈ df.rhs := by
  rw [mem_synPairs]
  constructor
  · rintro ⟨p, hp, df, hdf, hl, hs, rfl⟩
    obtain ⟨f, hf, hk, hn, hdf'⟩ := mem_synDefs.1 hdf
    exact ⟨p.1, List.mem_zipIdx_iff_getElem?.1 hp, f, hf, hk, hn, df, hdf', hl, hs⟩
  · rintro ⟨doc, hd, f, hf, hk, hn, df, hdf, hl, hs⟩
    exact ⟨(doc, d), List.mem_zipIdx_iff_getElem?.2 hd, df, mem_synDefs.2 ⟨f, hf, hk, hn, hdf⟩, hl, hs, rfl⟩

theorem thesTermsSet_meaning (b : Batch) (n : Name) (term : Bytes) :
    term ∈ thesTermsSet b n ↔ ∃ syn d, (syn, d) ∈ synPairs b n term := by
  rw [mem_thesTermsSet]
  constructor
  · rintro ⟨d, hd, df, hdf, hr, hl⟩
    obtain ⟨i, hi⟩ := mem_zipIdx_of_mem hd
    cases hrr : df.rhs with
    | nil => exact absurd hrr hr
    | cons s rest =>
      exact ⟨s, i, (mem_synPairs b n term s i).2 ⟨(d, i), hi, df, hdf, hl, by rw [hrr]; exact List.mem_cons_self, rfl⟩⟩
  · rintro ⟨syn, i, h⟩
    obtain ⟨p, hp, df, hdf, hl, hs, _⟩ := (mem_synPairs b n term syn i).1 h
    exact ⟨p.1, zipIdx_mem_left hp, df, hdf, List.ne_nil_of_mem hs, hl⟩

theorem hasSynField_of_pair {b : Batch} {n : Name} {term syn : Bytes} {d : Nat}
    (h : (syn, d) ∈ synPairs b n term) : hasSynField b n := by
  obtain ⟨p, hp, df, hdf, _, _, _⟩ := (mem_synPairs b n term syn d).1 h
  obtain ⟨f, hf, hk, hn, _⟩ := mem_synDefs.1 hdf
  exact ⟨p.1, zipIdx_mem_left hp, f, hf, hk, hn⟩

theorem ids_consistent {b : Batch} (hp : SynPlainOK b) (n : Name) {d : DocIn} (hd : d ∈ b)
    {f : FieldIn} (hf : f ∈ d.fields) (hk : f.kind = .syn) (hn : f.name = n)
    {df : SynDefn} (hdf : df ∈ f.defs) {syn : Bytes} (hs : syn ∈ df.rhs) :
    synIdOf (synIds b n) syn < (synIds b n).length ∧
    (synIds b n)[synIdOf (synIds b n) syn]? = some syn ∧
    lookup (synIdOf (synIds b n) syn) (buildThes b n).table = some syn := by
  have hm : syn ∈ synIds b n := rhs_mem_synIds hp hd (mem_synDefs.2 ⟨f, hf, hk, hn, hdf⟩) hs
  refine ⟨synIdOf_lt hm, synIdOf_get hm, ?_⟩
  rw [buildThes_eq]; exact lookup_tableOf_synIdOf hm

end Zap.SynL
