/-
  ZapProofs.StoredLemmas: helper lemmas for C02 (stored fields, ids, DocNumbers):
  order facts for `Bytes.lt`, the field table of a built segment, the max-key
  short cut of `DocNumbers`, ascending lists.
-/
import ZapModel.Spec

namespace Zap
namespace Stored

/-! ### `Bytes.lt` is a strict total order -/

theorem lt_irrefl : ∀ a : Bytes, Bytes.lt a a = false
  | [] => rfl
  | x :: xs => by simp [Bytes.lt, lt_irrefl xs]

theorem lt_trans : ∀ {a b c : Bytes}, Bytes.lt a b = true → Bytes.lt b c = true → Bytes.lt a c = true
  | [], [], _, h, _ => by simp [Bytes.lt] at h
  | [], _ :: _, [], _, h => by simp [Bytes.lt] at h
  | [], _ :: _, _ :: _, _, _ => by simp [Bytes.lt]
  | _ :: _, [], _, h, _ => by simp [Bytes.lt] at h
  | _ :: _, _ :: _, [], _, h => by simp [Bytes.lt] at h
  | x :: xs, y :: ys, z :: zs, h1, h2 => by
    simp only [Bytes.lt] at h1 h2 ⊢
    by_cases hxy : x < y
    · by_cases hyz : y < z
      · have : x < z := by omega
        simp [this]
      · by_cases hzy : z < y
        · simp [hyz, hzy] at h2
        · have : y = z := by omega
          subst this; simp [hxy]
    · by_cases hyx : y < x
      · simp [hxy, hyx] at h1
      · have hxy' : x = y := by omega
        subst hxy'
        simp only [hxy, if_false] at h1
        by_cases hxz : x < z
        · simp [hxz]
        · by_cases hzx : z < x
          · simp [hxz, hzx] at h2
          · simp only [hxz, hzx, if_false] at h2 ⊢
            exact lt_trans h1 h2

theorem lt_trichotomy : ∀ a b : Bytes, Bytes.lt a b = true ∨ a = b ∨ Bytes.lt b a = true
  | [], [] => by simp
  | [], _ :: _ => by simp [Bytes.lt]
  | _ :: _, [] => by simp [Bytes.lt]
  | x :: xs, y :: ys => by
    simp only [Bytes.lt]
    by_cases hxy : x < y
    · simp [hxy]
    · by_cases hyx : y < x
      · simp [hyx]
      · have : x = y := by omega
        subst this
        simp only [hxy, if_false, List.cons.injEq, true_and]
        exact lt_trichotomy xs ys

theorem lt_asymm {a b : Bytes} (h : Bytes.lt a b = true) : Bytes.lt b a = false := by
  cases h' : Bytes.lt b a with
  | false => rfl
  | true => have := lt_trans h h'; simp [lt_irrefl] at this

theorem lt_ne {a b : Bytes} (h : Bytes.lt a b = true) : a ≠ b := by
  intro e; subst e; simp [lt_irrefl] at h

/-- `Bytes.lt` as a `Prop`-valued relation, for `List.Pairwise`. -/
abbrev BLt (a b : Bytes) : Prop := Bytes.lt a b = true

theorem sortedLt_iff_pairwise : ∀ l : List Bytes, SortedLt l ↔ l.Pairwise BLt
  | [] => by simp [SortedLt]
  | [a] => by simp [SortedLt]
  | a :: b :: rest => by
    rw [SortedLt, sortedLt_iff_pairwise (b :: rest), List.pairwise_cons (a := a)]
    constructor
    · rintro ⟨hab, hp⟩
      refine ⟨?_, hp⟩
      intro c hc
      rcases List.mem_cons.mp hc with rfl | hc
      · exact hab
      · exact lt_trans hab ((List.pairwise_cons.mp hp).1 c hc)
    · rintro ⟨h, hp⟩
      exact ⟨h b (by simp), hp⟩

theorem ascNat_iff_pairwise : ∀ l : List Nat, AscNat l ↔ l.Pairwise (· < ·)
  | [] => by simp [AscNat]
  | [a] => by simp [AscNat]
  | a :: b :: rest => by
    rw [AscNat, ascNat_iff_pairwise (b :: rest), List.pairwise_cons (a := a)]
    constructor
    · rintro ⟨hab, hp⟩
      refine ⟨?_, hp⟩
      intro c hc
      rcases List.mem_cons.mp hc with rfl | hc
      · exact hab
      · exact Nat.lt_trans hab ((List.pairwise_cons.mp hp).1 c hc)
    · rintro ⟨h, hp⟩
      exact ⟨h b (by simp), hp⟩

/-- Two strictly ascending byte-string lists with the same members are equal. -/
theorem pairwise_blt_ext : ∀ {l₁ l₂ : List Bytes}, l₁.Pairwise BLt → l₂.Pairwise BLt →
    (∀ x, x ∈ l₁ ↔ x ∈ l₂) → l₁ = l₂
  | [], [], _, _, _ => rfl
  | [], b :: _, _, _, h => by have := (h b).2 (by simp); simp at this
  | a :: _, [], _, _, h => by have := (h a).1 (by simp); simp at this
  | a :: l₁, b :: l₂, h1, h2, h => by
    have ⟨ha, hp1⟩ := List.pairwise_cons.mp h1
    have ⟨hb, hp2⟩ := List.pairwise_cons.mp h2
    have hab : a = b := by
      have m1 := (h a).1 (by simp)
      have m2 := (h b).2 (by simp)
      rcases List.mem_cons.mp m1 with e | m1
      · exact e
      · rcases List.mem_cons.mp m2 with e | m2
        · exact e.symm
        · have := lt_asymm (ha b m2); rw [hb a m1] at this; cases this
    subst hab
    congr 1
    apply pairwise_blt_ext hp1 hp2
    intro x
    constructor
    · intro hx
      rcases List.mem_cons.mp ((h x).1 (List.mem_cons_of_mem _ hx)) with e | m
      · subst e; exact absurd (ha x hx) (by simp [lt_irrefl])
      · exact m
    · intro hx
      rcases List.mem_cons.mp ((h x).2 (List.mem_cons_of_mem _ hx)) with e | m
      · subst e; exact absurd (hb x hx) (by simp [lt_irrefl])
      · exact m

/-- Two strictly ascending lists of naturals with the same members are equal. -/
theorem pairwise_lt_ext : ∀ {l₁ l₂ : List Nat}, l₁.Pairwise (· < ·) → l₂.Pairwise (· < ·) →
    (∀ x, x ∈ l₁ ↔ x ∈ l₂) → l₁ = l₂
  | [], [], _, _, _ => rfl
  | [], b :: _, _, _, h => by have := (h b).2 (by simp); simp at this
  | a :: _, [], _, _, h => by have := (h a).1 (by simp); simp at this
  | a :: l₁, b :: l₂, h1, h2, h => by
    have ⟨ha, hp1⟩ := List.pairwise_cons.mp h1
    have ⟨hb, hp2⟩ := List.pairwise_cons.mp h2
    have hab : a = b := by
      have m1 := (h a).1 (by simp)
      have m2 := (h b).2 (by simp)
      rcases List.mem_cons.mp m1 with e | m1
      · exact e
      · rcases List.mem_cons.mp m2 with e | m2
        · exact e.symm
        · have := ha b m2; have := hb a m1; omega
    subst hab
    congr 1
    apply pairwise_lt_ext hp1 hp2
    intro x
    constructor
    · intro hx
      rcases List.mem_cons.mp ((h x).1 (List.mem_cons_of_mem _ hx)) with e | m
      · subst e; have := ha x hx; omega
      · exact m
    · intro hx
      rcases List.mem_cons.mp ((h x).2 (List.mem_cons_of_mem _ hx)) with e | m
      · subst e; have := hb x hx; omega
      · exact m

/-! ### The field table -/

theorem getOrDefine_spec (fs : List Name) (n : Name) :
    (∀ x, x ∈ getOrDefine fs n ↔ x ∈ fs ∨ x = n) ∧ (fs.Nodup → (getOrDefine fs n).Nodup) ∧
    (∀ h t, fs = h :: t → ∃ t', getOrDefine fs n = h :: t') := by
  unfold getOrDefine
  by_cases hc : fs.contains n = true
  · simp only [hc, if_true]
    have hm : n ∈ fs := by simpa using hc
    refine ⟨?_, id, fun h t e => ⟨t, e⟩⟩
    intro x; constructor
    · exact Or.inl
    · rintro (h | rfl); exact h; exact hm
  · rw [if_neg hc]
    have hm : n ∉ fs := by simpa using hc
    refine ⟨by simp, ?_, ?_⟩
    · intro hn
      rw [List.nodup_append]
      refine ⟨hn, by simp, ?_⟩
      intro a ha b hb
      simp at hb; subst hb
      intro e; subst e; exact hm ha
    · intro h t e; subst e; exact ⟨t ++ [n], rfl⟩

theorem foldl_getOrDefine_spec (ns : List Name) : ∀ (fs : List Name),
    (∀ x, x ∈ ns.foldl getOrDefine fs ↔ x ∈ fs ∨ x ∈ ns) ∧ (fs.Nodup → (ns.foldl getOrDefine fs).Nodup) ∧
    (∀ h t, fs = h :: t → ∃ t', ns.foldl getOrDefine fs = h :: t') := by
  induction ns with
  | nil => intro fs; exact ⟨by simp, id, fun h t e => ⟨t, e⟩⟩
  | cons n ns ih =>
    intro fs
    obtain ⟨g1, g2, g3⟩ := getOrDefine_spec fs n
    obtain ⟨i1, i2, i3⟩ := ih (getOrDefine fs n)
    refine ⟨?_, fun h => i2 (g2 h), ?_⟩
    · intro x; simp only [List.foldl_cons, i1, g1, List.mem_cons]
      constructor
      · rintro ((h | h) | h)
        · exact Or.inl h
        · exact Or.inr (Or.inl h)
        · exact Or.inr (Or.inr h)
      · rintro (h | h | h)
        · exact Or.inl (Or.inl h)
        · exact Or.inl (Or.inr h)
        · exact Or.inr h
    · intro h t e
      obtain ⟨t', e'⟩ := g3 h t e
      exact i3 h t' e'

theorem firstAppearance_spec (b : Batch) :
    (∀ x, x ∈ firstAppearance b ↔ x = idName ∨ x ∈ Spec.names b) ∧ (firstAppearance b).Nodup ∧
    ∃ t, firstAppearance b = idName :: t := by
  unfold firstAppearance
  suffices h : ∀ (b : Batch) (fs : List Name),
      (∀ x, x ∈ b.foldl (fun acc d => (docNames d).foldl getOrDefine acc) fs ↔ x ∈ fs ∨ x ∈ Spec.names b) ∧
      (fs.Nodup → (b.foldl (fun acc d => (docNames d).foldl getOrDefine acc) fs).Nodup) ∧
      (∀ h t, fs = h :: t → ∃ t', b.foldl (fun acc d => (docNames d).foldl getOrDefine acc) fs = h :: t') by
    obtain ⟨h1, h2, h3⟩ := h b [idName]
    exact ⟨by simpa using h1, h2 (by simp), h3 idName [] rfl⟩
  intro b
  induction b with
  | nil => intro fs; exact ⟨by simp [Spec.names], id, fun h t e => ⟨t, e⟩⟩
  | cons d b ih =>
    intro fs
    obtain ⟨g1, g2, g3⟩ := foldl_getOrDefine_spec (docNames d) fs
    obtain ⟨i1, i2, i3⟩ := ih ((docNames d).foldl getOrDefine fs)
    refine ⟨?_, fun h => i2 (g2 h), ?_⟩
    · intro x
      simp only [List.foldl_cons, i1, g1, Spec.names, List.flatMap_cons, List.mem_append]
      constructor
      · rintro ((h | h) | h)
        · exact Or.inl h
        · exact Or.inr (Or.inl h)
        · exact Or.inr (Or.inr h)
      · rintro (h | h | h)
        · exact Or.inl (Or.inl h)
        · exact Or.inl (Or.inr h)
        · exact Or.inr h
    · intro h t e
      obtain ⟨t', e'⟩ := g3 h t e
      exact i3 h t' e'

theorem insertName_perm (x : Name) : ∀ ys : List Name, (insertName x ys).Perm (x :: ys)
  | [] => by simp [insertName]
  | y :: ys => by
    unfold insertName
    split
    · exact ((insertName_perm x ys).cons y).trans (List.Perm.swap x y ys)
    · exact List.Perm.refl _

theorem sortNames_perm : ∀ xs : List Name, (sortNames xs).Perm xs
  | [] => by simp [sortNames]
  | x :: xs => by
    show (insertName x (sortNames xs)).Perm (x :: xs)
    exact (insertName_perm x _).trans ((sortNames_perm xs).cons x)

/-- The field table: `_id` first, the rest a permutation of the other names in
    first-appearance order. -/
theorem fieldTable_eq (b : Batch) : ∃ t, firstAppearance b = idName :: t ∧
    fieldTable b = idName :: sortNames t := by
  obtain ⟨_, _, t, ht⟩ := firstAppearance_spec b
  exact ⟨t, ht, by simp [fieldTable, ht]⟩

theorem fieldTable_nodup (b : Batch) : (fieldTable b).Nodup := by
  obtain ⟨t, ht, e⟩ := fieldTable_eq b
  have hn := (firstAppearance_spec b).2.1
  rw [ht] at hn
  rw [e]
  exact ((sortNames_perm t).cons idName).nodup_iff.mpr hn

theorem mem_fieldTable (b : Batch) (x : Name) : x ∈ fieldTable b ↔ x = idName ∨ x ∈ Spec.names b := by
  obtain ⟨t, ht, e⟩ := fieldTable_eq b
  rw [e, ((sortNames_perm t).cons idName).mem_iff, ← ht]
  exact (firstAppearance_spec b).1 x

theorem fieldTable_head (b : Batch) : (fieldTable b).head? = some idName := by
  obtain ⟨t, _, e⟩ := fieldTable_eq b
  simp [e]

theorem fieldTable_ne_nil (b : Batch) : fieldTable b ≠ [] := by
  obtain ⟨t, _, e⟩ := fieldTable_eq b
  simp [e]

/-! ### `processDocs` keeps one dictionary per table entry -/

theorem foldl_length_inv {α β : Type} (f : List α → β → List α) (hf : ∀ l x, (f l x).length = l.length) :
    ∀ (xs : List β) (l : List α), (xs.foldl f l).length = l.length
  | [], l => rfl
  | x :: xs, l => by rw [List.foldl_cons, foldl_length_inv f hf xs, hf]

theorem commitField_length (tbl : List Name) (doc : Nat) (ds : Dicts) (a : FieldAcc) :
    (commitField tbl doc ds a).length = ds.length := by
  simp [commitField]

theorem processDoc_length (v : Bool) (tbl : List Name) (ds : Dicts) (doc : Nat) (d : DocIn) :
    (processDoc v tbl ds doc d).length = ds.length :=
  foldl_length_inv _ (commitField_length tbl doc) _ _

theorem processDocs_length (v : Bool) (tbl : List Name) (b : Batch) :
    (processDocs v tbl b).length = tbl.length := by
  unfold processDocs
  rw [foldl_length_inv (fun ds (p : DocIn × Nat) => processDoc v tbl ds p.2 p.1)
    (fun l x => processDoc_length v tbl l x.2 x.1)]
  simp

theorem buildSeg_fields_names (v : Bool) (mode : Nat) (b : Batch) :
    (buildSeg v mode b).fields.map (·.name) = fieldTable b := by
  simp only [buildSeg, List.map_map]
  have : ((fun (f : FieldM) => f.name) ∘ fun (p : Name × List (Bytes × List Entry)) =>
      ({ name := p.1,
         terms := (sortTerms p.2).map (fun t => (t.1, PostRep.general t.2)),
         dv := if b.length ≠ 0 ∧ includeDocValues b p.1 then some (addShapes b p.1 (docTermMap b.length (sortTerms p.2))) else none,
         thes := if b.length ≠ 0 ∧ hasThes b p.1 then some (buildThes b p.1) else none,
         vec := if v ∧ b.length ≠ 0 then buildVec b p.1 else none } : FieldM)) = Prod.fst := rfl
  rw [this]
  exact List.map_fst_zip (by rw [processDocs_length]; exact Nat.le_refl _)

theorem buildSeg_fields_length (v : Bool) (mode : Nat) (b : Batch) :
    (buildSeg v mode b).fields.length = (fieldTable b).length := by
  rw [← buildSeg_fields_names v mode b, List.length_map]

theorem buildSeg_nameOf (v : Bool) (mode : Nat) (b : Batch) (i : Nat) (hi : i < (fieldTable b).length) :
    (buildSeg v mode b).nameOf i = (fieldTable b)[i] := by
  have h := buildSeg_fields_names v mode b
  have hl := buildSeg_fields_length v mode b
  unfold Seg.nameOf
  have : (fieldTable b)[i] = ((buildSeg v mode b).fields.map (·.name))[i]'(by simp; omega) := by
    simp [h]
  rw [this, List.getD_eq_getElem?_getD, List.getElem?_eq_getElem (by omega)]; simp

/-! ### Stored fields of a built segment -/

theorem flatMap_congr' {α β : Type} {f g : α → List β} : ∀ {l : List α}, (∀ a ∈ l, f a = g a) →
    l.flatMap f = l.flatMap g
  | [], _ => rfl
  | a :: l, h => by
    simp only [List.flatMap_cons]
    rw [h a (by simp), flatMap_congr' (fun x hx => h x (List.mem_cons_of_mem _ hx))]

/-- Mapping over the indexed table agrees with mapping over the table when the
    function uses the index only to look the name up again. -/
theorem flatMap_zipIdx_drop {β : Type} (tbl : List Name) (k : Nat) (G : Name × Nat → List β) (F : Name → List β)
    (h : ∀ p ∈ tbl.zipIdx, G p = F p.1) :
    ((tbl.zipIdx).drop k).flatMap G = (tbl.drop k).flatMap F := by
  have e : tbl.drop k = ((tbl.zipIdx).drop k).map Prod.fst := by
    rw [List.map_drop, List.zipIdx_map_fst]
  rw [e, List.flatMap_map]
  exact flatMap_congr' (fun p hp => h p (List.mem_of_mem_drop hp))

theorem buildSeg_stored_get (v : Bool) (mode : Nat) (b : Batch) (d : Nat) (hd : d < b.length) :
    (buildSeg v mode b).stored[d]? = some (storedDoc (fieldTable b) b[d]) := by
  simp [buildSeg, hd]

theorem buildSeg_storedAll (v : Bool) (mode : Nat) (b : Batch) (d : Nat) (hd : d < b.length) :
    (buildSeg v mode b).storedAll d = Spec.stored (fieldTable b) b[d] := by
  unfold Seg.storedAll
  have hn : (buildSeg v mode b).numDocs = b.length := rfl
  rw [hn, if_pos hd, buildSeg_stored_get v mode b d hd]
  simp only [Spec.stored, storedDoc, List.map_flatMap, List.map_map]
  congr 1
  apply flatMap_zipIdx_drop
  rintro ⟨n, i⟩ hp
  obtain ⟨hi, hx⟩ := List.mem_zipIdx' hp
  simp only [Function.comp_def]
  rw [buildSeg_nameOf v mode b i hi, ← hx]

/-! ### Association lists -/

theorem lookup_eq_none {β : Type} (k : Bytes) : ∀ (l : List (Bytes × β)), (∀ p ∈ l, p.1 ≠ k) → lookup k l = none
  | [], _ => rfl
  | (k', v) :: rest, h => by
    have h1 : k ≠ k' := fun e => h (k', v) (by simp) e.symm
    simp only [lookup, h1, if_false]
    exact lookup_eq_none k rest (fun p hp => h p (List.mem_cons_of_mem _ hp))

/-- With pairwise distinct keys, `lookup` finds exactly the members. -/
theorem lookup_eq_some_iff {β : Type} (k : Bytes) (v : β) : ∀ (l : List (Bytes × β)),
    (l.map (·.1)).Pairwise (· ≠ ·) → (lookup k l = some v ↔ (k, v) ∈ l)
  | [], _ => by simp [lookup]
  | (k', v') :: rest, h => by
    simp only [List.map_cons, List.pairwise_cons] at h
    by_cases e : k = k'
    · subst e
      simp only [lookup, if_true, Option.some.injEq, List.mem_cons, Prod.mk.injEq, true_and]
      constructor
      · intro e; exact Or.inl e.symm
      · rintro (e | hm)
        · exact e.symm
        · exact absurd rfl (h.1 k (List.mem_map.mpr ⟨(k, v), hm, rfl⟩))
    · simp only [lookup, e, if_false, List.mem_cons, Prod.mk.injEq, false_and, false_or]
      exact lookup_eq_some_iff k v rest h.2

theorem pairwise_blt_ne {l : List Bytes} (h : l.Pairwise BLt) : l.Pairwise (· ≠ ·) :=
  h.imp (fun hab => lt_ne hab)

/-- `DocNumbers` short cut: an id above the maximal key of a strictly ascending
    dictionary is not in the dictionary. -/
theorem maxkey_shortcut_sound {β : Type} (terms : List (Bytes × β)) (mx : Bytes) (v : β) (id : Bytes)
    (hs : SortedLt (terms.map (·.1))) (hlast : terms.getLast? = some (mx, v))
    (hgt : Bytes.le id mx = false) : lookup id terms = none := by
  obtain ⟨ys, rfl⟩ := List.getLast?_eq_some_iff.mp hlast
  have hlt : Bytes.lt mx id = true := by simpa [Bytes.le] using hgt
  rw [sortedLt_iff_pairwise, List.map_append, List.pairwise_append] at hs
  obtain ⟨_, _, hall⟩ := hs
  apply lookup_eq_none
  intro p hp
  rcases List.mem_append.mp hp with hp | hp
  · have : BLt p.1 mx := hall p.1 (List.mem_map.mpr ⟨p, hp, rfl⟩) mx (by simp)
    exact lt_ne (lt_trans this hlt)
  · simp at hp; subst hp; exact lt_ne hlt

/-! ### `DocNumbers` -/

/-- What bleve guarantees about `_id`: each document has exactly one field
    instance named `_id`; it is an ordinary field, indexed with exactly one token
    whose term is the document id, and stored with the document id as value. -/
def IdWFDoc (d : DocIn) : Bool :=
  match d.fields.filter (fun f => f.name = idName) with
  | [f] => f.kind == FKind.fld && f.toks.map (·.term) == [d.id] && f.stored && f.val == d.id
  | _ => false

def IdWF (b : Batch) : Prop := ∀ d ∈ b, IdWFDoc d = true

instance (b : Batch) : Decidable (IdWF b) := by unfold IdWF; infer_instance

theorem idWFDoc_iff (d : DocIn) : IdWFDoc d = true ↔
    ∃ f, d.fields.filter (fun f => f.name = idName) = [f] ∧ f.kind = FKind.fld ∧
      f.toks.map (·.term) = [d.id] ∧ f.stored = true ∧ f.val = d.id := by
  unfold IdWFDoc
  split
  · next f hf => simp [hf, and_assoc]
  · next hne =>
    constructor
    · intro h; cases h
    · rintro ⟨f, hf, _⟩; exact absurd hf (hne f)

theorem storedInsts_id_of_idWF {d : DocIn} (h : IdWFDoc d = true) :
    ((storedInsts d idName).head?.map (·.val)).getD [] = d.id := by
  obtain ⟨f, hf, hk, _, hst, hval⟩ := (idWFDoc_iff d).mp h
  have : storedInsts d idName = [f] := by
    unfold storedInsts
    rw [List.filter_filter]
    have : (fun (a : FieldIn) => (decide (a.name = idName) && a.stored) && (a.kind != FKind.comp)) =
        (fun a => (a.stored && (a.kind != FKind.comp)) && decide (a.name = idName)) := by
      funext a; cases decide (a.name = idName) <;> cases a.stored <;> cases (a.kind != FKind.comp) <;> rfl
    rw [this, ← List.filter_filter, hf]
    simp [hk, hst]
  simp [this, hval]

theorem mem_visitOrder (d : DocIn) (f : FieldIn) : f ∈ d.visitOrder ↔ f ∈ d.fields := by
  unfold DocIn.visitOrder
  simp only [List.mem_append, List.mem_filter]
  by_cases h : f.kind = FKind.comp <;> simp [h]

theorem hasTerm_iff (t : Bytes) (is : List FieldIn) :
    Spec.hasTerm t is = true ↔ ∃ f ∈ is, t ∈ f.toks.map (·.term) := by
  simp only [Spec.hasTerm, List.any_eq_true, decide_eq_true_eq, List.mem_map]

theorem hasTerm_id_iff (v : Bool) {d : DocIn} (h : IdWFDoc d = true) (t : Bytes) :
    Spec.hasTerm t (Spec.insts v d idName) = true ↔ t = d.id := by
  obtain ⟨f, hf, hk, htoks, _, _⟩ := (idWFDoc_iff d).mp h
  have hmem : ∀ g, g ∈ Spec.insts v d idName ↔ g = f := by
    intro g
    have h1 : g ∈ d.fields.filter (fun f => f.name = idName) ↔ g = f := by rw [hf]; simp
    simp only [List.mem_filter, decide_eq_true_eq] at h1
    simp only [Spec.insts, List.mem_filter, mem_visitOrder, decide_eq_true_eq]
    constructor
    · rintro ⟨⟨hg, _⟩, hn⟩; exact h1.mp ⟨hg, hn⟩
    · intro e
      obtain ⟨hg, hn⟩ := h1.mpr e
      refine ⟨⟨hg, ?_⟩, hn⟩
      subst e; simp [invProcessed, hk]
  rw [hasTerm_iff]
  constructor
  · rintro ⟨g, hg, ht⟩
    rw [(hmem g).mp hg, htoks] at ht
    simpa using ht
  · intro e
    exact ⟨f, (hmem f).mpr rfl, by rw [htoks, e]; simp⟩

/-- The documents in the postings of (field, term) are those having the term. -/
theorem mem_postings_doc (v : Bool) (b : Batch) (n : Name) (t : Bytes) (k : Nat) :
    k ∈ (Spec.postings v b n t).map (·.doc) ↔
      ∃ h : k < b.length, Spec.hasTerm t (Spec.insts v b[k] n) = true := by
  simp only [Spec.postings, List.mem_map, List.mem_filterMap]
  constructor
  · rintro ⟨hit, ⟨⟨d, i⟩, hp, hh⟩, rfl⟩
    obtain ⟨hi, hx⟩ := List.mem_zipIdx' hp
    simp only [Spec.hitOf] at hh
    split at hh
    · next ht =>
      simp only [Option.some.injEq] at hh
      subst hh
      exact ⟨hi, by rw [← hx]; exact ht⟩
    · cases hh
  · rintro ⟨hk, ht⟩
    exact ⟨{ doc := k, freq := Spec.freqOf t (Spec.insts v b[k] n),
             norm := normOf (sumList ((Spec.insts v b[k] n).map (·.len))) (Spec.freqOf t (Spec.insts v b[k] n)),
             locs := Spec.locsOf n t (Spec.insts v b[k] n) },
      ⟨(b[k], k), by rw [List.mem_zipIdx_iff_getElem?]; simp [hk], by simp [Spec.hitOf, ht]⟩, rfl⟩

theorem specDocNumbers_pairwise (b : Batch) (ids : List Bytes) : (Spec.docNumbers b ids).Pairwise (· < ·) := by
  unfold Spec.docNumbers
  rw [List.pairwise_map]
  apply List.Pairwise.filter
  have : (b.zipIdx).Pairwise (fun a c => a.2 < c.2) := by
    rw [← List.pairwise_map (f := Prod.snd) (R := (· < ·))]
    rw [List.zipIdx_map_snd]
    exact List.pairwise_lt_range'
  exact this

theorem mem_specDocNumbers (b : Batch) (ids : List Bytes) (k : Nat) :
    k ∈ Spec.docNumbers b ids ↔ ∃ h : k < b.length, b[k].id ∈ ids := by
  simp only [Spec.docNumbers, List.mem_map, List.mem_filter, List.contains_iff_mem]
  constructor
  · rintro ⟨⟨d, i⟩, ⟨hp, hc⟩, rfl⟩
    obtain ⟨hi, hx⟩ := List.mem_zipIdx' hp
    exact ⟨hi, by rw [← hx]; exact hc⟩
  · rintro ⟨hk, hm⟩
    exact ⟨(b[k], k), ⟨by rw [List.mem_zipIdx_iff_getElem?]; simp [hk], hm⟩, rfl⟩

theorem dedup_spec : ∀ (xs acc : List Nat), acc.Nodup →
    (xs.foldl (fun acc d => if acc.contains d then acc else acc ++ [d]) acc).Nodup ∧
    ∀ x, x ∈ xs.foldl (fun acc d => if acc.contains d then acc else acc ++ [d]) acc ↔ x ∈ acc ∨ x ∈ xs
  | [], acc, h => ⟨h, by simp⟩
  | d :: xs, acc, h => by
    rw [List.foldl_cons]
    by_cases hc : acc.contains d = true
    · rw [if_pos hc]
      obtain ⟨i1, i2⟩ := dedup_spec xs acc h
      refine ⟨i1, fun x => ?_⟩
      rw [i2]
      have hm : d ∈ acc := by simpa using hc
      constructor
      · rintro (h | h)
        · exact Or.inl h
        · exact Or.inr (List.mem_cons_of_mem _ h)
      · rintro (h | h)
        · exact Or.inl h
        · rcases List.mem_cons.mp h with rfl | h
          · exact Or.inl hm
          · exact Or.inr h
    · rw [if_neg hc]
      have hm : d ∉ acc := by simpa using hc
      have hn : (acc ++ [d]).Nodup := by
        rw [List.nodup_append]
        refine ⟨h, by simp, ?_⟩
        intro a ha c hc'
        simp at hc'; subst hc'
        intro e; subst e; exact hm ha
      obtain ⟨i1, i2⟩ := dedup_spec xs (acc ++ [d]) hn
      refine ⟨i1, fun x => ?_⟩
      rw [i2]
      simp only [List.mem_append, List.mem_cons, List.not_mem_nil, or_false]
      constructor
      · rintro ((h | h) | h)
        · exact Or.inl h
        · exact Or.inr (Or.inl h)
        · exact Or.inr (Or.inr h)
      · rintro (h | h | h)
        · exact Or.inl (Or.inl h)
        · exact Or.inl (Or.inr h)
        · exact Or.inr h

/-- The final dedup + sort of `DocNumbers`: strictly ascending, same members. -/
theorem sortDedupNat_spec (hits : List Nat) :
    ((hits.foldl (fun acc d => if acc.contains d then acc else acc ++ [d]) []).mergeSort (· ≤ ·)).Pairwise (· < ·) ∧
    ∀ x, x ∈ (hits.foldl (fun acc d => if acc.contains d then acc else acc ++ [d]) []).mergeSort (· ≤ ·) ↔ x ∈ hits := by
  obtain ⟨hn, hm⟩ := dedup_spec hits [] (by simp)
  generalize hits.foldl (fun acc d => if acc.contains d then acc else acc ++ [d]) [] = l at hn hm
  have hperm := List.mergeSort_perm l (fun a b => decide (a ≤ b))
  constructor
  · have h1 : (l.mergeSort (fun a b => decide (a ≤ b))).Pairwise (fun a b => decide (a ≤ b) = true) :=
      List.pairwise_mergeSort (le := fun a b => decide (a ≤ b))
        (by intro a b c; simp only [decide_eq_true_eq]; omega)
        (by intro a b; simp only [Bool.or_eq_true, decide_eq_true_eq]; omega) l
    have h2 : (l.mergeSort (fun a b => decide (a ≤ b))).Nodup := hperm.nodup_iff.mpr hn
    exact (h1.and h2).imp (fun {a b} h => by
      have := h.1; simp only [decide_eq_true_eq] at this
      have := h.2; omega)
  · intro x
    rw [hperm.mem_iff, hm]; simp

/-- `DocNumbers` on an abstract segment: if the `_id` dictionary is strictly
    ascending and each id maps to exactly the documents carrying it, the result
    is the specified one. -/
theorem docNumbers_abstract (s : Seg) (b : Batch) (hne : s.fieldNames.isEmpty = false)
    (hsorted : SortedLt ((s.dictTerms idName).map (·.1)))
    (hdocs : ∀ id k, (∃ r, lookup id (s.dictTerms idName) = some r ∧ k ∈ r.docs) ↔
      ∃ h : k < b.length, b[k].id = id)
    (ids : List Bytes) : s.docNumbers ids = Spec.docNumbers b ids := by
  apply pairwise_lt_ext _ (specDocNumbers_pairwise b ids)
  · intro k
    rw [mem_specDocNumbers]
    unfold Seg.docNumbers
    rw [hne]
    simp only [Bool.false_eq_true, if_false]
    cases hlast : (s.dictTerms idName).getLast? with
    | none =>
      have hnil : s.dictTerms idName = [] := by simpa using hlast
      simp only [List.not_mem_nil, false_iff]
      rintro ⟨hk, hm⟩
      obtain ⟨r, hr, _⟩ := (hdocs b[k].id k).mpr ⟨hk, rfl⟩
      rw [hnil] at hr; cases hr
    | some mv =>
      obtain ⟨mx, v⟩ := mv
      simp only
      rw [(sortDedupNat_spec _).2]
      simp only [List.mem_flatMap]
      constructor
      · rintro ⟨id, hid, hk⟩
        split at hk
        · split at hk
          · cases hk
          · next r hr =>
            obtain ⟨h, e⟩ := (hdocs id k).mp ⟨r, hr, hk⟩
            exact ⟨h, by rw [e]; exact hid⟩
        · cases hk
      · rintro ⟨hk, hm⟩
        obtain ⟨r, hr, hkr⟩ := (hdocs b[k].id k).mpr ⟨hk, rfl⟩
        refine ⟨b[k].id, hm, ?_⟩
        have hle : Bytes.le b[k].id mx = true := by
          cases hle : Bytes.le b[k].id mx with
          | true => rfl
          | false =>
            have := maxkey_shortcut_sound _ mx v b[k].id hsorted hlast hle
            rw [this] at hr; cases hr
        rw [if_pos hle, hr]
        exact hkr
  · unfold Seg.docNumbers
    split
    · exact List.Pairwise.nil
    · dsimp only
      split
      · exact List.Pairwise.nil
      · exact (sortDedupNat_spec _).1

theorem fieldTable_nil : fieldTable [] = [idName] := by
  simp [fieldTable, firstAppearance, sortNames]

/-- `DocNumbers` of the built segment, from the C01 dictionary content. -/
theorem buildSeg_docNumbers (vectors : Bool) (mode : Nat) (b : Batch) (hid : IdWF b)
    (hC01 : ∀ n t, match lookup t ((buildSeg vectors mode b).dictTerms n) with
      | none => Spec.postings vectors b n t = []
      | some (.general es) =>
          es.map (Spec.hitOfEntry ((buildSeg vectors mode b).fields.map (·.name))) = Spec.postings vectors b n t ∧
          AscNat (es.map (·.doc)) ∧ es ≠ []
      | some (.oneHit _ _) => False)
    (hsorted : SortedLt (((buildSeg vectors mode b).dictTerms idName).map (·.1)))
    (ids : List Bytes) :
    (buildSeg vectors mode b).docNumbers ids = Spec.docNumbers b ids := by
  by_cases hb : b = []
  · subst hb
    have hl := buildSeg_fields_length vectors mode []
    rw [fieldTable_nil, List.length_singleton] at hl
    have : (buildSeg vectors mode []).fieldNames = [] := by
      have hn : (buildSeg vectors mode []).numDocs = 0 := rfl
      simp only [Seg.fieldNames, Seg.loadedFields, hn, if_true, List.map_eq_nil_iff, List.drop_eq_nil_iff]
      omega
    simp [Seg.docNumbers, this, Spec.docNumbers]
  · have hne : (buildSeg vectors mode b).fieldNames.isEmpty = false := by
      have hn : (buildSeg vectors mode b).numDocs = b.length := rfl
      have hlen : b.length ≠ 0 := by simpa using hb
      have hf := buildSeg_fields_names vectors mode b
      simp only [Seg.fieldNames, Seg.loadedFields, hn, hlen, if_false, hf]
      cases h : fieldTable b with
      | nil => exact absurd h (fieldTable_ne_nil b)
      | cons _ _ => rfl
    apply docNumbers_abstract _ b hne hsorted
    intro id k
    have hE := mem_postings_doc vectors b idName id k
    have h01 := hC01 idName id
    cases hl : lookup id ((buildSeg vectors mode b).dictTerms idName) with
    | none =>
      rw [hl] at h01
      simp only at h01
      rw [h01] at hE
      simp only [List.map_nil, List.not_mem_nil, false_iff] at hE
      constructor
      · rintro ⟨r, hr, _⟩; cases hr
      · rintro ⟨hk, e⟩
        exact absurd ⟨hk, (hasTerm_id_iff vectors (hid b[k] (List.getElem_mem hk)) id).mpr e.symm⟩ hE
    | some r =>
      rw [hl] at h01
      cases r with
      | oneHit _ _ => exact False.elim h01
      | general es =>
        simp only at h01
        have hdocs : es.map (·.doc) = (Spec.postings vectors b idName id).map (·.doc) := by
          rw [← h01.1, List.map_map]; rfl
        constructor
        · rintro ⟨r, hr, hk⟩
          simp only [Option.some.injEq] at hr
          subst hr
          simp only [PostRep.docs] at hk
          rw [hdocs] at hk
          obtain ⟨h, ht⟩ := hE.mp hk
          exact ⟨h, ((hasTerm_id_iff vectors (hid b[k] (List.getElem_mem h)) id).mp ht).symm⟩
        · rintro ⟨hk, e⟩
          refine ⟨_, rfl, ?_⟩
          simp only [PostRep.docs]
          rw [hdocs]
          exact hE.mpr ⟨hk, (hasTerm_id_iff vectors (hid b[k] (List.getElem_mem hk)) id).mpr e.symm⟩

end Stored
end Zap
