/-
  ZapProofs.WriterLemmasLayoutPost: Layout's OWN posting decoders (`Layout.decFreq`,
  `Layout.decLocs`, `Layout.readChunks`, `Layout.walkChunks`, over `ByteArray` + cursor,
  written with `for` loops) accept whatever their list-level twins of ZapModel/Writer.lean
  accept, with the same result ("simulation": twin = some x → Layout = ok x, for EVERY
  byte array).
-/
import ZapProofs.WriterLemmasBA
import ZapProofs.WriterLemmasLayoutDefs

namespace Zap.Writer.LP
open Zap Zap.Layout Zap.Writer Zap.Writer.BA Zap.Writer.LayoutDefs

/-! ### `for _ in [0:n]` -/

/-- `for _ in [0:n] do ...` with a body that ignores the index. -/
def loopN {β : Type} (f : β → R (ForInStep β)) : Nat → β → R β
  | 0, s => pure s
  | n + 1, s =>
    match f s with
    | .error e => .error e
    | .ok (.done s') => pure s'
    | .ok (.yield s') => loopN f n s'

theorem forIn_range'_eq {β : Type} (f : β → R (ForInStep β)) : ∀ (n start : Nat) (init : β),
    forIn (List.range' start n 1) init (fun _ s => f s) = loopN f n init := by
  intro n
  induction n with
  | zero => intro start init; rfl
  | succ n ih =>
    intro start init
    rw [List.range'_succ, List.forIn_cons]
    simp only [loopN]
    cases h : f init with
    | error e => rfl
    | ok st =>
      cases st with
      | done s' => rfl
      | yield s' => exact ih _ _

theorem forIn_range_eq {β : Type} (f : β → R (ForInStep β)) (n : Nat) (init : β) :
    forIn [:n] init (fun _ s => f s) = loopN f n init := by
  rw [Std.Legacy.Range.forIn_eq_forIn_range']
  have : ([:n] : Std.Legacy.Range).size = n := by simp [Std.Legacy.Range.size]
  rw [this]
  exact forIn_range'_eq f n _ init

theorem decodeFreqHasLocs_eq (v : Nat) : Gen.decodeFreqHasLocs v = (v / 2, v % 2 == 1) := by
  unfold Gen.decodeFreqHasLocs
  rw [Nat.shiftRight_eq_div_pow, Nat.and_one_is_mod]
  have : v % 2 = 0 ∨ v % 2 = 1 := by omega
  rcases this with h | h <;> simp [h]

theorem decFreq_sim (b : ByteArray) (d cur lim f n : Nat) (hl : Bool) (rest : Bytes)
    (h : decFreqL d (region b cur lim) = some ((f, n, hl), rest)) :
    ∃ cur', decFreq b d cur lim = .ok ({ doc := d, freq := f, norm := n, hasLocs := hl }, cur') ∧
      rest = region b cur' lim ∧ cur ≤ cur' ∧ cur' ≤ lim := by
  unfold decFreqL at h
  cases h1 : uv64 (region b cur lim) with
  | none => simp [h1] at h
  | some vr =>
    obtain ⟨v, r⟩ := vr
    obtain ⟨p, e1, e2, e3, e4, _⟩ := uvLim_sim b cur lim v r h1
    simp only [h1, decodeFreqHasLocs_eq] at h
    unfold decFreq
    simp only [e1, bind, Except.bind]
    by_cases h0 : v / 2 ≠ 0
    · rw [if_pos h0] at h ⊢
      cases h2 : uv64 r with
      | none => simp [h2] at h
      | some nr =>
        obtain ⟨nb, r'⟩ := nr
        rw [e2] at h2
        obtain ⟨p2, f1, f2, f3, f4, _⟩ := uvLim_sim b p lim nb r' h2
        rw [e2, h2] at h
        simp only [Option.some.injEq, Prod.mk.injEq] at h
        obtain ⟨⟨rfl, rfl, rfl⟩, rfl⟩ := h
        exact ⟨p2, by simp [f1, pure, Except.pure], f2, by omega, f4⟩
    · rw [if_neg h0] at h ⊢
      simp only [Option.some.injEq, Prod.mk.injEq] at h
      obtain ⟨⟨rfl, rfl, rfl⟩, rfl⟩ := h
      exact ⟨p, by simp [pure, Except.pure], e2, by omega, e4⟩

/-! ### `decLocs` -/

/-- The inner loop of `decLocs` (array positions) against `readN64`. -/
theorem loop_readN (b : ByteArray) (fin : Nat)
    (body : Nat × Array Nat → R (ForInStep (Nat × Array Nat)))
    (hstep : ∀ q aps a q', uvLim b q fin = .ok (a, q') → body (q, aps) = .ok (.yield (q', aps.push a))) :
    ∀ (n q : Nat) (aps : Array Nat) (vs : List Nat) (r' : Bytes),
      readN64 n (region b q fin) = some (vs, r') →
      ∃ q', loopN body n (q, aps) = .ok (q', aps ++ vs.toArray) ∧ r' = region b q' fin ∧
        q ≤ q' ∧ (n = 0 ∨ q' ≤ fin) := by
  intro n
  induction n with
  | zero =>
    intro q aps vs r' h
    simp only [readN64, Option.some.injEq, Prod.mk.injEq] at h
    obtain ⟨rfl, rfl⟩ := h
    exact ⟨q, by simp [loopN, pure, Except.pure], rfl, Nat.le_refl _, Or.inl rfl⟩
  | succ n ih =>
    intro q aps vs r' h
    simp only [readN64] at h
    cases h1 : uv64 (region b q fin) with
    | none => simp [h1] at h
    | some vr =>
      obtain ⟨v, r⟩ := vr
      obtain ⟨p, e1, e2, e3, e4, _⟩ := uvLim_sim b q fin v r h1
      simp only [h1] at h
      cases h2 : readN64 n r with
      | none => simp [h2] at h
      | some wr =>
        obtain ⟨ws, r''⟩ := wr
        simp only [h2, Option.some.injEq, Prod.mk.injEq] at h
        obtain ⟨rfl, rfl⟩ := h
        rw [e2] at h2
        obtain ⟨q', f1, f2, f3, f4⟩ := ih p (aps.push v) ws r'' h2
        refine ⟨q', ?_, f2, by omega, Or.inr ?_⟩
        · simp only [loopN, hstep q aps v p e1]
          rw [f1]
          simp
        · rcases f4 with rfl | f4
          · simp only [loopN, pure, Except.pure, Except.ok.injEq, Prod.mk.injEq] at f1
            omega
          · exact f4

theorem loop_readN_eq (b : ByteArray) (fin : Nat) (hfin : fin ≤ b.size)
    (body : Nat × Array Nat → R (ForInStep (Nat × Array Nat)))
    (hstep : ∀ q aps a q', uvLim b q fin = .ok (a, q') → body (q, aps) = .ok (.yield (q', aps.push a)))
    (n q : Nat) (aps : Array Nat) (vs : List Nat) (r' : Bytes) (hq : q ≤ fin)
    (h : readN64 n (region b q fin) = some (vs, r')) :
    loopN body n (q, aps) = .ok (fin - r'.length, aps ++ vs.toArray) ∧
      r' = region b (fin - r'.length) fin ∧ q ≤ fin - r'.length := by
  obtain ⟨q', f1, f2, f3, f4⟩ := loop_readN b fin body hstep n q aps vs r' h
  have hq' : q' ≤ fin := by
    rcases f4 with rfl | f4
    · simp only [loopN, pure, Except.pure, Except.ok.injEq, Prod.mk.injEq] at f1
      omega
    · exact f4
  have hlen : r'.length = fin - q' := by
    rw [f2, region_length, Nat.min_eq_left hfin]
  have : fin - r'.length = q' := by omega
  rw [this]
  exact ⟨f1, f2, f3⟩

theorem readN64_region (b : ByteArray) (fin : Nat) (hfin : fin ≤ b.size)
    (n q : Nat) (vs : List Nat) (r' : Bytes) (hq : q ≤ fin)
    (h : readN64 n (region b q fin) = some (vs, r')) :
    r' = region b (fin - r'.length) fin ∧ q ≤ fin - r'.length :=
  (loop_readN_eq b fin hfin
    (fun s => match uvLim b s.1 fin with
      | .ok (a, q') => .ok (.yield (q', s.2.push a))
      | .error e => .error e)
    (by intro q aps a q' hq; simp only [hq]) n q #[] vs r' hq h).2

theorem region_eq_nil_iff (b : ByteArray) (p l : Nat) (hl : l ≤ b.size) :
    region b p l = [] ↔ p ≥ l := by
  rw [← List.length_eq_zero_iff, region_length, Nat.min_eq_left hl]
  omega

/-- The outer loop of `decLocs` against `parseLocs`. -/
theorem loop_parseLocs (b : ByteArray) (fin nb : Nat) (hfin : fin ≤ b.size)
    (body : Nat × Array MLoc → R (ForInStep (Nat × Array MLoc)))
    (hdone : ∀ p out, p ≥ fin → body (p, out) = .ok (.done (p, out)))
    (hstep : ∀ p out l r', p < fin → readLoc nb (region b p fin) = some (l, r') →
      ∃ p', body (p, out) = .ok (.yield (p', out.push l)) ∧ r' = region b p' fin ∧ p' ≤ fin) :
    ∀ (fuel p : Nat) (out : Array MLoc) (ls : List MLoc), p ≤ fin →
      parseLocs nb fuel (region b p fin) = some ls →
      loopN body fuel (p, out) = .ok (fin, out ++ ls.toArray) := by
  intro fuel
  induction fuel with
  | zero =>
    intro p out ls hp h
    simp only [parseLocs] at h
    by_cases hnil : region b p fin = []
    · rw [if_pos hnil] at h
      have := (region_eq_nil_iff b p fin hfin).mp hnil
      have hpf : p = fin := by omega
      cases h
      subst hpf
      simp [loopN, pure, Except.pure]
    · rw [if_neg hnil] at h; cases h
  | succ fuel ih =>
    intro p out ls hp h
    simp only [parseLocs] at h
    by_cases hnil : region b p fin = []
    · rw [if_pos hnil] at h
      have := (region_eq_nil_iff b p fin hfin).mp hnil
      have hpf : p = fin := by omega
      cases h
      subst hpf
      simp [loopN, hdone p out (Nat.le_refl _), pure, Except.pure]
    · rw [if_neg hnil] at h
      have hlt : p < fin := by
        have : ¬ p ≥ fin := fun hh => hnil ((region_eq_nil_iff b p fin hfin).mpr hh)
        omega
      cases h1 : readLoc nb (region b p fin) with
      | none => simp [h1] at h
      | some lr =>
        obtain ⟨l, r⟩ := lr
        simp only [h1] at h
        cases h2 : parseLocs nb fuel r with
        | none => simp [h2] at h
        | some ls' =>
          simp only [h2, Option.map_some, Option.some.injEq] at h
          subst h
          obtain ⟨p', e1, e2, e3⟩ := hstep p out l r hlt h1
          rw [e2] at h2
          simp only [loopN, e1]
          rw [ih p' (out.push l) ls' e3 h2]
          simp

theorem readN64_succ_some (n : Nat) (bs : Bytes) (xs : List Nat) (r' : Bytes)
    (h : readN64 (n + 1) bs = some (xs, r')) :
    ∃ v vs r, xs = v :: vs ∧ uv64 bs = some (v, r) ∧ readN64 n r = some (vs, r') := by
  simp only [readN64] at h
  cases h1 : uv64 bs with
  | none => simp [h1] at h
  | some vr =>
    obtain ⟨v, r⟩ := vr
    simp only [h1] at h
    cases h2 : readN64 n r with
    | none => simp [h2] at h
    | some wr =>
      obtain ⟨ws, r''⟩ := wr
      simp only [h2, Option.some.injEq, Prod.mk.injEq] at h
      exact ⟨v, ws, r, h.1.symm, rfl, by rw [h2, h.2]⟩

theorem readLoc_some (nb : Nat) (bs : Bytes) (l : MLoc) (r' : Bytes)
    (h : readLoc nb bs = some (l, r')) :
    ∃ fid pos st en nap aps r1 r2 r3 r4 r5,
      uv64 bs = some (fid, r1) ∧ uv64 r1 = some (pos, r2) ∧ uv64 r2 = some (st, r3) ∧
      uv64 r3 = some (en, r4) ∧ uv64 r4 = some (nap, r5) ∧ ¬ nap > nb ∧
      readN64 nap r5 = some (aps, r') ∧
      l = { fid := fid, pos := pos, start := st, stop := en, ap := aps } := by
  unfold readLoc at h
  cases h5 : readN64 5 bs with
  | none => simp [h5] at h
  | some xr =>
    obtain ⟨xs, r⟩ := xr
    obtain ⟨fid, xs1, r1, rfl, u1, h4⟩ := readN64_succ_some 4 bs xs r h5
    obtain ⟨pos, xs2, r2, rfl, u2, h3⟩ := readN64_succ_some 3 r1 xs1 r h4
    obtain ⟨st, xs3, r3, rfl, u3, h2⟩ := readN64_succ_some 2 r2 xs2 r h3
    obtain ⟨en, xs4, r4, rfl, u4, h1⟩ := readN64_succ_some 1 r3 xs3 r h2
    obtain ⟨nap, xs5, r5, rfl, u5, h0⟩ := readN64_succ_some 0 r4 xs4 r h1
    simp only [readN64, Option.some.injEq, Prod.mk.injEq] at h0
    obtain ⟨rfl, rfl⟩ := h0
    simp only [h5] at h
    by_cases hn : nap > nb
    · rw [if_pos hn] at h; cases h
    · rw [if_neg hn] at h
      cases ha : readN64 nap r5 with
      | none => simp [ha] at h
      | some ar =>
        obtain ⟨aps, r''⟩ := ar
        simp only [ha, Option.some.injEq, Prod.mk.injEq] at h
        obtain ⟨rfl, rfl⟩ := h
        exact ⟨fid, pos, st, en, nap, aps, r1, r2, r3, r4, r5, u1, u2, u3, u4, u5, hn, ha, rfl⟩

theorem decLocs_sim (b : ByteArray) (d cur lim : Nat) (ls : List MLoc) (rest : Bytes)
    (h : decLocsL d (region b cur lim) = some (ls, rest)) :
    ∃ cur', decLocs b d cur lim = .ok (ls, cur') ∧ rest = region b cur' lim ∧ cur ≤ cur' ∧ cur' ≤ lim := by
  unfold decLocsL at h
  cases h1 : uv64 (region b cur lim) with
  | none => simp [h1] at h
  | some vr =>
    obtain ⟨nbytes, r⟩ := vr
    obtain ⟨p0, e1, e2, e3, e4, e5⟩ := uvLim_sim b cur lim nbytes r h1
    simp only [h1] at h
    by_cases hlen : nbytes > r.length
    · rw [if_pos hlen] at h; cases h
    · rw [if_neg hlen] at h
      rw [e2, region_length] at hlen
      have hfl : p0 + nbytes ≤ lim := by omega
      have hfs : p0 + nbytes ≤ b.size := by omega
      cases h2 : parseLocs nbytes nbytes (List.take nbytes r) with
      | none => simp [h2] at h
      | some ls' =>
        simp only [h2, Option.some.injEq, Prod.mk.injEq] at h
        obtain ⟨rfl, rfl⟩ := h
        rw [e2, region_take b p0 lim nbytes hfl] at h2
        refine ⟨p0 + nbytes, ?_, by rw [e2, region_drop], by omega, hfl⟩
        unfold decLocs
        simp only [e1, bind, Except.bind]
        rw [if_neg (by omega)]
        rw [forIn_range_eq]
        rw [loop_parseLocs b (p0 + nbytes) nbytes hfs _ ?hdone ?hstep nbytes p0 #[] ls'
          (by omega) h2]
        · simp [pure, Except.pure]
        case hdone =>
          intro p out hp
          simp only [hp, if_true, pure, Except.pure]
        case hstep =>
          intro p out l r' hp hr
          obtain ⟨fid, pos, st, en, nap, aps, r1, r2, r3, r4, r5, u1, u2, u3, u4, u5, hn, ha, rfl⟩ :=
            readLoc_some _ _ _ _ hr
          obtain ⟨p1, a1, rfl, _, _, _⟩ := uvLim_sim b p _ fid r1 u1
          obtain ⟨p2, a2, rfl, _, _, _⟩ := uvLim_sim b p1 _ pos r2 u2
          obtain ⟨p3, a3, rfl, _, _, _⟩ := uvLim_sim b p2 _ st r3 u3
          obtain ⟨p4, a4, rfl, _, _, _⟩ := uvLim_sim b p3 _ en r4 u4
          obtain ⟨p5, a5, rfl, _, hp5, _⟩ := uvLim_sim b p4 _ nap r5 u5
          have hrd := fun body hs => loop_readN_eq b (p0 + nbytes) hfs body hs nap p5 #[] aps r' hp5 ha
          refine ⟨p0 + nbytes - r'.length, ?_, ?_, by omega⟩
          · simp only [if_neg (Nat.not_le.mpr hp), a1, a2, a3, a4, a5, if_neg hn]
            rw [forIn_range_eq, (hrd _ ?hs).1]
            · simp [pure, Except.pure]
            case hs =>
              intro q aps a q' hq
              simp only [hq, pure, Except.pure]
          · exact (readN64_region b (p0 + nbytes) hfs nap p5 aps r' hp5 ha).1

/-! ### `readChunks` -/

theorem nondec_cons (a : Nat) (l : List Nat) :
    nondec (a :: l) = (match l with | [] => true | x :: _ => decide (a ≤ x) && nondec l) := by
  cases l <;> simp [nondec]

/-- The loop of `readChunks` against `readN64`. -/
theorem loop_offs (b : ByteArray) (body : Nat × Array Nat × Nat → R (ForInStep (Nat × Array Nat × Nat)))
    (hstep : ∀ p acc prev o p', uv b p = .ok (o, p') → ¬ o < prev →
      body (p, acc, prev) = .ok (.yield (p', acc.push o, o))) :
    ∀ (n p : Nat) (acc : Array Nat) (prev : Nat) (vs : List Nat) (r' : Bytes), p ≤ b.size →
      readN64 n ((ofBA b).drop p) = some (vs, r') → nondec (prev :: vs) = true →
      loopN body n (p, acc, prev) = .ok (b.size - r'.length, acc ++ vs.toArray, vs.getLastD prev) ∧
        r' = (ofBA b).drop (b.size - r'.length) ∧ vs.length = n ∧ p + n ≤ b.size - r'.length := by
  intro n
  induction n with
  | zero =>
    intro p acc prev vs r' hp h _
    simp only [readN64, Option.some.injEq, Prod.mk.injEq] at h
    obtain ⟨rfl, rfl⟩ := h
    have : b.size - ((ofBA b).drop p).length = p := by
      rw [List.length_drop, ofBA_length]; omega
    rw [this]
    simp [loopN, pure, Except.pure]
  | succ n ih =>
    intro p acc prev vs r' hp h hnd
    obtain ⟨v, ws, r, rfl, u1, h2⟩ := readN64_succ_some n _ vs r' h
    obtain ⟨p1, e1, e2, e3, e4⟩ := uv_sim b p v r u1
    rw [e2] at h2
    rw [nondec_cons] at hnd
    simp only [Bool.and_eq_true, decide_eq_true_eq] at hnd
    obtain ⟨f1, f2, f3, f4⟩ := ih p1 (acc.push v) v ws r' e4 h2 hnd.2
    have hl : (v :: ws).getLastD prev = ws.getLastD v := by cases ws <;> simp [List.getLastD]
    refine ⟨?_, f2, by simp [f3], by omega⟩
    simp only [loopN, hstep p acc prev v p1 e1 (by omega)]
    rw [f1, hl]
    simp

theorem readN64_length (n : Nat) : ∀ (bs : Bytes) (vs : List Nat) (r : Bytes),
    readN64 n bs = some (vs, r) → vs.length = n := by
  induction n with
  | zero => intro bs vs r h; simp [readN64] at h; simp [h.1.symm]
  | succ n ih =>
    intro bs vs r h
    obtain ⟨v, ws, r1, rfl, _, h2⟩ := readN64_succ_some n bs vs r h
    simp [ih _ _ _ h2]

theorem readChunks_sim (what : String) (b : ByteArray) (pos : Nat) (offs : List Nat) (data : Bytes)
    (h : readChunksL ((ofBA b).drop pos) = some (offs, data)) :
    ∃ p, readChunks what b pos = .ok { n := offs.length, offs := offs.toArray, data := p } ∧
      data = (ofBA b).drop p ∧ p + offs.getLastD 0 ≤ b.size ∧ pos < p := by
  unfold readChunksL at h
  cases h1 : uv64 ((ofBA b).drop pos) with
  | none => simp [h1] at h
  | some vr =>
    obtain ⟨n, r⟩ := vr
    obtain ⟨p0, e1, e2, e3, e4⟩ := uv_sim b pos n r h1
    simp only [h1] at h
    cases h2 : readN64 n r with
    | none => simp [h2] at h
    | some od =>
      obtain ⟨offs', data'⟩ := od
      simp only [h2] at h
      by_cases hnd : (!nondec offs') = true
      · rw [if_pos hnd] at h; cases h
      · rw [if_neg hnd] at h
        by_cases hlen : offs'.getLastD 0 > data'.length
        · rw [if_pos hlen] at h; cases h
        · rw [if_neg hlen] at h
          simp only [Option.some.injEq, Prod.mk.injEq] at h
          obtain ⟨rfl, rfl⟩ := h
          rw [e2] at h2
          have hnd' : nondec (0 :: offs') = true := by
            rw [nondec_cons]
            cases offs' with
            | nil => rfl
            | cons x xs => simpa using hnd
          have key := fun body hs => loop_offs b body hs n p0 (Array.mkEmpty n) 0 offs' data' e4 h2 hnd'
          have hreg := (key (fun s => match uv b s.1 with
              | .ok (o, p') => if o < s.2.2 then .error "" else .ok (.yield (p', s.2.1.push o, o))
              | .error e => .error e)
            (by intro p acc prev o p' hu hlt; simp only [hu, if_neg hlt])).2
          obtain ⟨g1, g2, g3⟩ := hreg
          have hdl : data'.length ≤ b.size := by
            have := congrArg List.length g1
            rw [List.length_drop, ofBA_length] at this
            omega
          refine ⟨b.size - data'.length, ?_, g1, by omega, by omega⟩
          unfold readChunks
          simp only [e1, bind, Except.bind]
          rw [if_neg (by omega), forIn_range_eq, (key _ ?hs).1]
          · simp only [pure, Except.pure]
            rw [if_neg (by omega)]
            simp [g2]
          case hs =>
            intro p acc prev o p' hu hlt
            simp only [hu, if_neg hlt, pure, Except.pure]
/-! ### `walkChunks` -/

theorem nondec_getD_le (l : List Nat) (h : nondec l = true) : ∀ (i j : Nat), i ≤ j → j < l.length →
    l.getD i 0 ≤ l.getD j 0 := by
  induction l with
  | nil => intro i j _ hj; simp at hj
  | cons a l ih =>
    intro i j hij hj
    rw [nondec_cons] at h
    cases j with
    | zero =>
      have : i = 0 := by omega
      subst this; exact Nat.le_refl _
    | succ j =>
      cases l with
      | nil => simp at hj
      | cons x xs =>
        simp only [Bool.and_eq_true, decide_eq_true_eq] at h
        have hj' : j < (x :: xs).length := by simpa using hj
        cases i with
        | zero =>
          have := ih h.2 0 j (Nat.zero_le _) hj'
          simp only [List.getD_cons_zero, List.getD_cons_succ] at this ⊢
          omega
        | succ i =>
          simpa using ih h.2 i j (by omega) hj'

theorem getLastD_eq_getD (l : List Nat) (h : l ≠ []) : l.getLastD 0 = l.getD (l.length - 1) 0 := by
  induction l with
  | nil => contradiction
  | cons a l ih =>
    cases l with
    | nil => rfl
    | cons x xs =>
      have := ih (by simp)
      simp only [List.getLastD_cons, List.length_cons, Nat.add_sub_cancel, List.getD_cons_succ] at this ⊢
      rw [← this]


section Walk
variable {αL αA : Type}

/-- Where the walk ends: (chunk, limit). -/
def finalState (offs : List Nat) (p cs : Nat) : List Nat → Nat → Nat → Nat × Nat
  | [], ci, lim => (ci, lim)
  | d :: ds, ci, lim =>
    if d / cs = ci then finalState offs p cs ds ci lim
    else finalState offs p cs ds (d / cs) (p + cstop offs (d / cs))

theorem chunkBytes_region (b : ByteArray) (offs : List Nat) (p c : Nat) :
    chunkBytes offs ((ofBA b).drop p) c = region b (p + cstart offs c) (p + cstop offs c) := by
  unfold chunkBytes region
  rw [List.drop_drop, List.drop_take]
  congr 1
  omega

theorem walk_loop (b : ByteArray) (offs : List Nat) (p cs : Nat)
    (hnd : nondec offs = true) (htot : p + offs.getLastD 0 ≤ b.size)
    (decL : Nat → Bytes → Option (αL × Bytes)) (decA : Nat → Nat → Nat → R (αA × Nat)) (conv : Nat → αL → αA)
    (hsim : ∀ d cur lim a rest, decL d (region b cur lim) = some (a, rest) →
      ∃ cur', decA d cur lim = .ok (conv d a, cur') ∧ rest = region b cur' lim ∧ cur ≤ cur' ∧ cur' ≤ lim)
    (body : Nat → Nat × Nat × Nat × Array αA → R (ForInStep (Nat × Nat × Nat × Array αA)))
    (hstep : ∀ d ci cur lim out ci2 cur2 lim2 a cur', ¬ d / cs ≥ offs.length →
      ((d / cs = ci ∧ ci2 = ci ∧ cur2 = cur ∧ lim2 = lim) ∨
       (d / cs ≠ ci ∧ ¬ d / cs < ci ∧ ¬ cur ≠ lim ∧ ¬ cstart offs (d / cs) ≠ cstop offs ci ∧
        ci2 = d / cs ∧ cur2 = p + cstart offs (d / cs) ∧ lim2 = p + cstop offs (d / cs))) →
      decA d cur2 lim2 = .ok (a, cur') →
      body d (ci, cur, lim, out) = .ok (.yield (ci2, cur', lim2, out.push a))) :
    ∀ (docs : List Nat) (ci cur lim : Nat) (out : Array αA) (as : List αL),
      cur ≤ lim → lim ≤ b.size →
      walkL offs ((ofBA b).drop p) cs decL docs ci (region b cur lim) = some as →
      forIn docs (ci, cur, lim, out) body
          = .ok ((finalState offs p cs docs ci lim).1, (finalState offs p cs docs ci lim).2,
              (finalState offs p cs docs ci lim).2, out ++ (List.zipWith conv docs as).toArray) ∧
        (offs.length = 0 ∨ cstop offs (offs.length - 1) = cstop offs (finalState offs p cs docs ci lim).1) := by
  intro docs
  induction docs with
  | nil =>
    intro ci cur lim out as hcl hls h
    simp only [walkL] at h
    by_cases hc : region b cur lim = [] ∧ (offs.length = 0 ∨ cstop offs (offs.length - 1) = cstop offs ci)
    · rw [if_pos hc] at h
      cases h
      have : cur = lim := by
        have := (region_eq_nil_iff b cur lim hls).mp hc.1
        omega
      subst this
      refine ⟨?_, hc.2⟩
      simp [finalState, pure, Except.pure]
    · rw [if_neg hc] at h; cases h
  | cons d ds ih =>
    intro ci cur lim out as hcl hls h
    simp only [walkL] at h
    by_cases hn : d / cs ≥ offs.length
    · rw [if_pos hn] at h; cases h
    · rw [if_neg hn] at h
      rw [List.forIn_cons]
      by_cases hc : d / cs = ci
      · rw [if_pos hc] at h
        cases hd : decL d (region b cur lim) with
        | none => simp [hd] at h
        | some ar =>
          obtain ⟨a, rest⟩ := ar
          simp only [hd] at h
          cases hw : walkL offs ((ofBA b).drop p) cs decL ds ci rest with
          | none => simp [hw] at h
          | some as' =>
            simp only [hw, Option.map_some, Option.some.injEq] at h
            subst h
            obtain ⟨cur', e1, e2, e3, e4⟩ := hsim d cur lim a rest hd
            rw [e2] at hw
            obtain ⟨g1, g2⟩ := ih ci cur' lim (out.push (conv d a)) as' e4 hls hw
            rw [hstep d ci cur lim out ci cur lim (conv d a) cur' hn (Or.inl ⟨hc, rfl, rfl, rfl⟩) e1]
            simp only [bind, Except.bind]
            rw [g1]
            simp only [finalState, if_pos hc]
            refine ⟨?_, g2⟩
            simp
      · rw [if_neg hc] at h
        by_cases hbad : d / cs < ci ∨ region b cur lim ≠ [] ∨ cstart offs (d / cs) ≠ cstop offs ci
        · rw [if_pos hbad] at h; cases h
        · rw [if_neg hbad] at h
          have hb1 : ¬ d / cs < ci := fun x => hbad (Or.inl x)
          have hb2 : region b cur lim = [] := Classical.byContradiction (fun x => hbad (Or.inr (Or.inl x)))
          have hb3 : ¬ cstart offs (d / cs) ≠ cstop offs ci := fun x => hbad (Or.inr (Or.inr x))
          have hcl' : cur = lim := by
            have := (region_eq_nil_iff b cur lim hls).mp hb2
            omega
          rw [chunkBytes_region] at h
          have hlt : d / cs < offs.length := by omega
          have hne : offs ≠ [] := by intro x; rw [x] at hlt; simp at hlt
          have hstop : cstop offs (d / cs) ≤ offs.getLastD 0 := by
            rw [getLastD_eq_getD offs hne]
            exact nondec_getD_le offs hnd _ _ (by omega) (by omega)
          have hss : cstart offs (d / cs) ≤ cstop offs (d / cs) := by
            unfold cstart cstop Codec.chunkBoundary
            by_cases h0 : d / cs = 0
            · simp [h0]
            · simp only [h0, if_false]
              exact nondec_getD_le offs hnd _ _ (by omega) hlt
          cases hd : decL d (region b (p + cstart offs (d / cs)) (p + cstop offs (d / cs))) with
          | none => simp [hd] at h
          | some ar =>
            obtain ⟨a, rest⟩ := ar
            simp only [hd] at h
            cases hw : walkL offs ((ofBA b).drop p) cs decL ds (d / cs) rest with
            | none => simp [hw] at h
            | some as' =>
              simp only [hw, Option.map_some, Option.some.injEq] at h
              subst h
              obtain ⟨cur', e1, e2, e3, e4⟩ := hsim d _ _ a rest hd
              rw [e2] at hw
              obtain ⟨g1, g2⟩ := ih (d / cs) cur' (p + cstop offs (d / cs)) (out.push (conv d a)) as' e4
                (by omega) hw
              rw [hstep d ci cur lim out (d / cs) (p + cstart offs (d / cs)) (p + cstop offs (d / cs))
                (conv d a) cur' hn
                (Or.inr ⟨hc, hb1, by simp [hcl'], hb3, rfl, rfl, rfl⟩) e1]
              simp only [bind, Except.bind]
              rw [g1]
              simp only [finalState, if_neg hc]
              refine ⟨?_, g2⟩
              simp

theorem walkL_final (offs : List Nat) (data : Bytes) (p cs : Nat)
    (decL : Nat → Bytes → Option (αL × Bytes)) :
    ∀ (docs : List Nat) (ci lim : Nat) (curB : Bytes) (as : List αL),
      walkL offs data cs decL docs ci curB = some as →
      (offs.length = 0 ∨ cstop offs (offs.length - 1) = cstop offs (finalState offs p cs docs ci lim).1) := by
  intro docs
  induction docs with
  | nil =>
    intro ci lim curB as h
    simp only [walkL] at h
    by_cases hc : curB = [] ∧ (offs.length = 0 ∨ cstop offs (offs.length - 1) = cstop offs ci)
    · exact hc.2
    · rw [if_neg hc] at h; cases h
  | cons d ds ih =>
    intro ci lim curB as h
    simp only [walkL] at h
    by_cases hn : d / cs ≥ offs.length
    · rw [if_pos hn] at h; cases h
    · rw [if_neg hn] at h
      by_cases hc : d / cs = ci
      · rw [if_pos hc] at h
        cases hd : decL d curB with
        | none => simp [hd] at h
        | some ar =>
          simp only [hd] at h
          cases hw : walkL offs data cs decL ds ci ar.2 with
          | none => simp [hw] at h
          | some as' =>
            simp only [finalState, if_pos hc]
            exact ih ci lim _ as' hw
      · rw [if_neg hc] at h
        by_cases hbad : d / cs < ci ∨ curB ≠ [] ∨ cstart offs (d / cs) ≠ cstop offs ci
        · rw [if_pos hbad] at h; cases h
        · rw [if_neg hbad] at h
          cases hd : decL d (chunkBytes offs data (d / cs)) with
          | none => simp [hd] at h
          | some ar =>
            simp only [hd] at h
            cases hw : walkL offs data cs decL ds (d / cs) ar.2 with
            | none => simp [hw] at h
            | some as' =>
              simp only [finalState, if_neg hc]
              exact ih (d / cs) _ _ as' hw

theorem walkChunks_sim (what : String) (b : ByteArray) (offs : List Nat) (p cs : Nat)
    (hnd : nondec offs = true) (htot : p + offs.getLastD 0 ≤ b.size) (hcs : cs ≠ 0)
    (decL : Nat → Bytes → Option (αL × Bytes)) (decA : Nat → Nat → Nat → R (αA × Nat)) (conv : Nat → αL → αA)
    (hsim : ∀ d cur lim a rest, decL d (region b cur lim) = some (a, rest) →
      ∃ cur', decA d cur lim = .ok (conv d a, cur') ∧ rest = region b cur' lim ∧ cur ≤ cur' ∧ cur' ≤ lim)
    (docs : List Nat) (as : List αL)
    (h : walkL offs ((ofBA b).drop p) cs decL docs 0 (chunkBytes offs ((ofBA b).drop p) 0) = some as) :
    walkChunks what { n := offs.length, offs := offs.toArray, data := p } cs docs decA
      = .ok (List.zipWith conv docs as) := by
  rw [chunkBytes_region] at h
  have hs0 : cstart offs 0 = 0 := by simp [cstart, Codec.chunkBoundary]
  rw [hs0, Nat.add_zero] at h
  have hlim : p + cstop offs 0 ≤ b.size := by
    by_cases hne : offs = []
    · subst hne; simp [cstop, Codec.chunkBoundary] at htot ⊢; omega
    · have : cstop offs 0 ≤ offs.getLastD 0 := by
        rw [getLastD_eq_getD offs hne]
        have hl : 0 < offs.length := List.length_pos_iff.mpr hne
        exact nondec_getD_le offs hnd _ _ (by omega) (by omega)
      omega
  have key := fun body hs => walk_loop b offs p cs hnd htot decL decA conv hsim body hs docs 0 p
    (p + cstop offs 0) #[] as (by omega) hlim h
  unfold walkChunks
  simp only [bind, Except.bind, Chunks.start, Chunks.stop, Chunks.total]
  rw [if_neg hcs]
  have hinit : (if offs.length = 0 then 0 else offs.toArray[0]!) = cstop offs 0 := by
    by_cases hne : offs = []
    · subst hne; simp [cstop, Codec.chunkBoundary]
    · have : offs.length ≠ 0 := by simpa using hne
      simp [this, cstop, Codec.chunkBoundary]
  rw [hinit]
  have hfin := walkL_final offs ((ofBA b).drop p) p cs decL docs 0 (p + cstop offs 0) _ as h
  rw [(key _ ?hs).1]
  · simp only [pure, Except.pure, ne_eq, not_true_eq_false, if_false]
    rw [if_neg]
    · simp
    · rintro ⟨hpos, hne⟩
      rcases hfin with h0 | h1
      · omega
      · apply hne
        rw [if_neg (by omega)]
        simpa [cstop, Codec.chunkBoundary] using h1
  case hs =>
    intro d ci cur lim out ci2 cur2 lim2 a cur' hn hcase hdec
    simp only [if_neg hn]
    rcases hcase with ⟨hc, rfl, rfl, rfl⟩ | ⟨hc, h1, h2, h3, rfl, rfl, rfl⟩
    · simp only [hc, ne_eq, not_true_eq_false, if_false, hdec, pure, Except.pure]
    · simp only [cstart, cstop, Codec.chunkBoundary] at h3 hdec
      have hget : ∀ k, offs.toArray[k]! = offs.getD k 0 := by intro k; simp
      simp only [hget]
      rw [if_pos hc, if_neg h1, if_neg h2, if_neg h3, hdec]
      simp only [pure, Except.pure, cstop, Codec.chunkBoundary]

end Walk
/-! ### the composition of `decPostings` -/

def toItem (d : Nat) (x : Nat × Nat × Bool) : FreqItem :=
  { doc := d, freq := x.1, norm := x.2.1, hasLocs := x.2.2 }

theorem zipItems_sim : ∀ (items : List (Nat × (Nat × Nat × Bool))) (lss : List (List MLoc)) (es : List Entry),
    zipLocs items lss = some es →
    zipItems (items.map (fun x => toItem x.1 x.2)) lss = .ok es := by
  intro items
  induction items with
  | nil => intro lss es h; simp [zipLocs] at h; subst h; rfl
  | cons x xs ih =>
    intro lss es h
    obtain ⟨d, f, n, hl⟩ := x
    cases hl with
    | true =>
      cases lss with
      | nil => simp [zipLocs] at h
      | cons l r =>
        simp only [zipLocs] at h
        cases hz : zipLocs xs r with
        | none => simp [hz] at h
        | some tl =>
          simp only [hz, Option.map_some, Option.some.injEq] at h
          subst h
          have ih' := ih r tl hz
          simp only [toItem] at ih'
          simp [zipItems, toItem, ih', bind, Except.bind, pure, Except.pure]
    | false =>
      simp only [zipLocs] at h
      cases hz : zipLocs xs lss with
      | none => simp [hz] at h
      | some tl =>
        simp only [hz, Option.map_some, Option.some.injEq] at h
        subst h
        have ih' := ih lss tl hz
        simp only [toItem] at ih'
        simp [zipItems, toItem, ih', bind, Except.bind, pure, Except.pure]

theorem walkL_length {αL : Type} (offs : List Nat) (data : Bytes) (cs : Nat)
    (decL : Nat → Bytes → Option (αL × Bytes)) :
    ∀ (docs : List Nat) (ci : Nat) (curB : Bytes) (as : List αL),
      walkL offs data cs decL docs ci curB = some as → as.length = docs.length := by
  intro docs
  induction docs with
  | nil =>
    intro ci curB as h
    simp only [walkL] at h
    split at h
    · cases h; rfl
    · cases h
  | cons d ds ih =>
    intro ci curB as h
    simp only [walkL] at h
    by_cases hn : d / cs ≥ offs.length
    · rw [if_pos hn] at h; cases h
    · rw [if_neg hn] at h
      by_cases hc : d / cs = ci
      · rw [if_pos hc] at h
        cases hd : decL d curB with
        | none => simp [hd] at h
        | some ar =>
          simp only [hd] at h
          cases hw : walkL offs data cs decL ds ci ar.2 with
          | none => simp [hw] at h
          | some as' =>
            simp only [hw, Option.map_some, Option.some.injEq] at h
            subst h
            simp [ih ci _ as' hw]
      · rw [if_neg hc] at h
        by_cases hbad : d / cs < ci ∨ curB ≠ [] ∨ cstart offs (d / cs) ≠ cstop offs ci
        · rw [if_pos hbad] at h; cases h
        · rw [if_neg hbad] at h
          cases hd : decL d (chunkBytes offs data (d / cs)) with
          | none => simp [hd] at h
          | some ar =>
            simp only [hd] at h
            cases hw : walkL offs data cs decL ds (d / cs) ar.2 with
            | none => simp [hw] at h
            | some as' =>
              simp only [hw, Option.map_some, Option.some.injEq] at h
              subst h
              simp [ih _ _ as' hw]

theorem readChunksL_nondec (stream : Bytes) (offs : List Nat) (data : Bytes)
    (h : readChunksL stream = some (offs, data)) : nondec offs = true := by
  unfold readChunksL at h
  cases h1 : uv64 stream with
  | none => simp [h1] at h
  | some vr =>
    simp only [h1] at h
    cases h2 : readN64 vr.1 vr.2 with
    | none => simp [h2] at h
    | some od =>
      simp only [h2] at h
      by_cases hnd : (!nondec od.1) = true
      · rw [if_pos hnd] at h; cases h
      · rw [if_neg hnd] at h
        split at h
        · cases h
        · simp only [Option.some.injEq, Prod.mk.injEq] at h
          rw [← h.1]
          simpa using hnd

/-- `Layout.readChunks` + `Layout.walkChunks` against `walkChunksL`. -/
theorem walkChunksA_sim {αL αA : Type} (what : String) (b : ByteArray) (pos cs : Nat)
    (decL : Nat → Bytes → Option (αL × Bytes)) (decA : Nat → Nat → Nat → R (αA × Nat)) (conv : Nat → αL → αA)
    (hsim : ∀ d cur lim a rest, decL d (region b cur lim) = some (a, rest) →
      ∃ cur', decA d cur lim = .ok (conv d a, cur') ∧ rest = region b cur' lim ∧ cur ≤ cur' ∧ cur' ≤ lim)
    (docs : List Nat) (as : List αL)
    (h : walkChunksL cs ((ofBA b).drop pos) docs decL = some as) :
    ∃ ch, readChunks what b pos = .ok ch ∧ walkChunks what ch cs docs decA = .ok (List.zipWith conv docs as) ∧
      as.length = docs.length ∧
      ∃ offs data, readChunksL ((ofBA b).drop pos) = some (offs, data) ∧
        ch.endAbs = b.size - data.length + offs.getLastD 0 := by
  unfold walkChunksL at h
  by_cases hcs : cs = 0
  · rw [if_pos hcs] at h; cases h
  · rw [if_neg hcs] at h
    cases hr : readChunksL ((ofBA b).drop pos) with
    | none => simp [hr] at h
    | some od =>
      obtain ⟨offs, data⟩ := od
      simp only [hr] at h
      obtain ⟨p, e1, e2, e3, e4⟩ := readChunks_sim what b pos offs data hr
      have hnd := readChunksL_nondec _ _ _ hr
      rw [e2] at h
      refine ⟨_, e1, walkChunks_sim what b offs p cs hnd e3 hcs decL decA conv hsim docs as h,
        walkL_length _ _ _ _ _ _ _ _ h, offs, data, rfl, ?_⟩
      have hdl : b.size - data.length = p := by
        rw [e2, List.length_drop, ofBA_length]; omega
      rw [hdl]
      simp only [Chunks.endAbs, Chunks.total]
      by_cases hne : offs = []
      · subst hne; simp
      · have : offs.length ≠ 0 := by simpa using hne
        rw [if_neg this, getLastD_eq_getD offs hne]
        simp

theorem zipWith_snd_eq {α β : Type} : ∀ (xs : List α) (ys : List β), ys.length = xs.length →
    List.zipWith (fun _ y => y) xs ys = ys := by
  intro xs
  induction xs with
  | nil => intro ys h; cases ys <;> simp_all
  | cons x xs ih =>
    intro ys h
    cases ys with
    | nil => simp at h
    | cons y ys => simp [ih ys (by simpa using h)]

theorem zipWith_eq_map_zip {α β γ : Type} (f : α → β → γ) : ∀ (xs : List α) (ys : List β),
    List.zipWith f xs ys = (xs.zip ys).map (fun x => f x.1 x.2) := by
  intro xs
  induction xs with
  | nil => intro ys; simp
  | cons x xs ih =>
    intro ys
    cases ys with
    | nil => simp
    | cons y ys => simp [ih ys]

/-- Layout's own functions, composed as in `decPostings`, accept what the twin accepts. -/
theorem layoutEntries_sim (b : ByteArray) (cs : Nat) (docs : List Nat) (fo lo off : Nat) (es : List Entry)
    (hfo : fo ≠ 0)
    (h : decodeEntriesL cs docs ((ofBA b).drop fo) (if lo = 0 then none else some ((ofBA b).drop lo))
      = some es)
    (hadjF : ∀ offs data, readChunksL ((ofBA b).drop fo) = some (offs, data) →
      b.size - data.length + offs.getLastD 0 = if lo = 0 then off else lo)
    (hadjL : lo ≠ 0 → ∀ offs data, readChunksL ((ofBA b).drop lo) = some (offs, data) →
      b.size - data.length + offs.getLastD 0 = off) :
    layoutEntries b cs docs fo lo off = .ok es := by
  unfold decodeEntriesL at h
  cases hf : walkChunksL cs ((ofBA b).drop fo) docs decFreqL with
  | none => simp [hf] at h
  | some fsL =>
    simp only [hf] at h
    obtain ⟨fch, r1, w1, _, offsF, dataF, rcF, endF⟩ := walkChunksA_sim "freq/norm stream" b fo cs
      decFreqL (decFreq b) toItem
      (by intro d cur lim a rest hd
          obtain ⟨f, n, hl⟩ := a
          exact decFreq_sim b d cur lim f n hl rest hd)
      docs fsL hf
    have hendF := hadjF offsF dataF rcF
    rw [← endF] at hendF
    rw [zipWith_eq_map_zip] at w1
    have hloc : ((List.map (fun x => toItem x.1 x.2) (docs.zip fsL)).filter (·.hasLocs)).map (·.doc)
        = ((docs.zip fsL).filter (·.2.2.2)).map (·.1) := by
      rw [List.filter_map, List.map_map]
      rfl
    unfold layoutEntries
    simp only [bind, Except.bind, r1, w1, hloc]
    rw [if_neg hfo]
    simp only [pure, Except.pure]
    by_cases hlo : lo = 0
    · rw [if_pos hlo] at h hendF
      simp only at h
      rw [if_pos hlo]
      by_cases hemp : (((docs.zip fsL).filter (·.2.2.2)).map (·.1)).isEmpty = true
      · rw [if_pos hemp] at h
        simp only [hemp, Bool.not_true, Bool.false_eq_true, if_false]
        rw [if_neg (by simp [hendF])]
        exact zipItems_sim _ _ _ h
      · rw [if_neg hemp] at h; cases h
    · rw [if_neg hlo] at h hendF
      simp only at h
      rw [if_neg hlo]
      cases hl : walkChunksL cs ((ofBA b).drop lo) (((docs.zip fsL).filter (·.2.2.2)).map (·.1)) decLocsL with
      | none => simp [hl] at h
      | some lss =>
        simp only [hl] at h
        obtain ⟨lch, r2, w2, hlen, offsL, dataL, rcL, endL⟩ := walkChunksA_sim "location stream" b lo cs
          decLocsL (decLocs b) (fun _ l => l) (decLocs_sim b) _ lss hl
        have hendL := hadjL hlo offsL dataL rcL
        rw [← endL] at hendL
        rw [zipWith_snd_eq _ _ hlen] at w2
        simp only [r2, w2]
        rw [if_neg (by simp [hendF]), if_neg (by simp [hendL])]
        exact zipItems_sim _ _ _ h

end Zap.Writer.LP
