/-
  ZapProofs.BuildLemmas3: helper lemmas for C01, part 3: committing one
  document into the dictionaries, the fold over the batch, reading back.
-/
import ZapProofs.BuildLemmas2

namespace Zap

/-! ### `appendEntry` -/

theorem lookup_eq_find (t : Bytes) (d : List (Bytes × List Entry)) :
    lookup t d = (d.find? (fun p => p.1 = t)).map (·.2) := by
  induction d with
  | nil => rfl
  | cons p d ih =>
    obtain ⟨k, v⟩ := p
    simp only [lookup, List.find?_cons, ih]
    by_cases h : t = k
    · subst h; simp
    · have : ¬ k = t := fun e => h e.symm
      simp [h, this]

theorem lookup_appendEntry (d : List (Bytes × List Entry)) (term : Bytes) (e : Entry) (t : Bytes) :
    lookup t (appendEntry d term e) =
      if term = t then some ((lookup t d).getD [] ++ [e]) else lookup t d := by
  rw [lookup_eq_find, lookup_eq_find]
  unfold appendEntry
  rw [find_upsert Prod.fst term (fun p => (p.1, p.2 ++ [e])) (term, [e]) (fun _ => rfl) rfl]
  by_cases h : term = t
  · subst h
    simp only [if_true, Option.map_some]
    cases d.find? (fun p => decide (p.1 = term)) <;> simp
  · simp [h]

/-- keys distinct, no empty postings list -/
def DictOK (d : List (Bytes × List Entry)) : Prop := (d.map (·.1)).Nodup ∧ ∀ p ∈ d, p.2 ≠ []

theorem dictOK_appendEntry (d : List (Bytes × List Entry)) (term : Bytes) (e : Entry) (h : DictOK d) :
    DictOK (appendEntry d term e) := by
  refine ⟨nodup_upsert Prod.fst term (fun p => (p.1, p.2 ++ [e])) (term, [e]) (fun _ => rfl) rfl d h.1, ?_⟩
  intro p hp
  unfold appendEntry at hp
  split at hp
  · obtain ⟨q, hq, rfl⟩ := List.mem_map.1 hp
    split
    · simp
    · exact h.2 q hq
  · rcases List.mem_append.1 hp with hp | hp
    · exact h.2 p hp
    · have : p = (term, [e]) := by simpa using hp
      subst this; simp

def mkEntry (tbl : List Name) (doc len fid : Nat) (x : Nat × List TokLoc) : Entry :=
  { doc := doc, freq := x.1, norm := normOf len x.1, locs := x.2.map (resolveLoc tbl fid) }

/-- the inner loop of `commitField` -/
def commitTFs (tbl : List Name) (doc len fid : Nat) (tfs : List TF) (d : List (Bytes × List Entry)) :
    List (Bytes × List Entry) :=
  tfs.foldl (fun d tf => appendEntry d tf.term
    { doc := doc, freq := tf.freq, norm := normOf len tf.freq, locs := tf.locs.map (resolveLoc tbl fid) }) d

theorem dictOK_commitTFs (tbl : List Name) (doc len fid : Nat) (tfs : List TF)
    (d : List (Bytes × List Entry)) (h : DictOK d) : DictOK (commitTFs tbl doc len fid tfs d) := by
  unfold commitTFs
  induction tfs generalizing d with
  | nil => exact h
  | cons tf tfs ih => exact ih _ (dictOK_appendEntry _ _ _ h)

theorem lookup_commitTFs (tbl : List Name) (doc len fid : Nat) (tfs : List TF)
    (hnd : (tfs.map (·.term)).Nodup) (d : List (Bytes × List Entry)) (t : Bytes) :
    lookup t (commitTFs tbl doc len fid tfs d) =
      match tfObs t tfs with
      | none => lookup t d
      | some x => some ((lookup t d).getD [] ++ [mkEntry tbl doc len fid x]) := by
  have := (foldl_keyed
    (fun d (tf : TF) => appendEntry d tf.term
      { doc := doc, freq := tf.freq, norm := normOf len tf.freq, locs := tf.locs.map (resolveLoc tbl fid) })
    TF.term (lookup t) t
    (fun o tf => some (o.getD [] ++ [mkEntry tbl doc len fid (tf.freq, tf.locs)]))
    (fun _ => True) tfs (fun _ _ _ _ => trivial)
    (fun s x _ _ => lookup_appendEntry s x.term _ t) hnd d trivial).2
  rw [commitTFs, this, tfObs]
  cases tfs.find? (fun e => decide (e.term = t)) <;> rfl

/-! ### `commitField` / `processDoc`, observed at (field `n`, term `t`) -/

def dget (i : Nat) (t : Bytes) (ds : Dicts) : Option (List Entry) := lookup t (ds.getD i [])

theorem commitField_eq (tbl : List Name) (doc : Nat) (ds : Dicts) (a : FieldAcc) :
    commitField tbl doc ds a =
      ds.modify (fieldIdOf tbl a.name) (commitTFs tbl doc a.len (fieldIdOf tbl a.name) a.tfs) := rfl

theorem getD_modify (ds : Dicts) (i j : Nat) (F : List (Bytes × List Entry) → List (Bytes × List Entry))
    (hj : j < ds.length) :
    (ds.modify i F).getD j [] = if i = j then F (ds.getD j []) else ds.getD j [] := by
  rw [List.getD_eq_getElem?_getD, List.getD_eq_getElem?_getD, List.getElem?_modify,
    List.getElem?_eq_getElem hj]
  by_cases h : i = j <;> simp [h]

theorem dget_commitField (tbl : List Name) (n : Name) (hn : n ∈ tbl) (doc : Nat) (ds : Dicts)
    (hlen : fieldIdOf tbl n < ds.length) (a : FieldAcc) (hnd : (a.tfs.map (·.term)).Nodup) (t : Bytes) :
    dget (fieldIdOf tbl n) t (commitField tbl doc ds a) =
      if a.name = n then
        (match tfObs t a.tfs with
          | none => dget (fieldIdOf tbl n) t ds
          | some x => some ((dget (fieldIdOf tbl n) t ds).getD [] ++
              [mkEntry tbl doc a.len (fieldIdOf tbl n) x]))
      else dget (fieldIdOf tbl n) t ds := by
  rw [commitField_eq, dget, getD_modify _ _ _ _ hlen]
  by_cases h : a.name = n
  · subst h
    rw [if_pos rfl, if_pos rfl, lookup_commitTFs _ _ _ _ _ hnd]
    rfl
  · have : ¬ fieldIdOf tbl a.name = fieldIdOf tbl n := fun e => h (fieldIdOf_inj hn e)
    rw [if_neg this, if_neg h]; rfl

/-- the entry document `doc` contributes to (field `n`, term `t`), if any -/
def entryOf (vectors : Bool) (tbl : List Name) (n : Name) (t : Bytes) (doc : Nat) (d : DocIn) : Option Entry :=
  if Spec.hasTerm t (Spec.insts vectors d n) then
    some (mkEntry tbl doc (sumList ((Spec.insts vectors d n).map (·.len))) (fieldIdOf tbl n)
      (Spec.freqOf t (Spec.insts vectors d n), rawLocs n t (Spec.insts vectors d n)))
  else none

/-- documents whose token lists are maps (one entry per term) -/
def DocTermsDistinct (d : DocIn) : Prop := ∀ f ∈ d.fields, (f.toks.map (·.term)).Nodup

theorem mem_visitOrder {d : DocIn} {f : FieldIn} (h : f ∈ d.visitOrder) : f ∈ d.fields := by
  unfold DocIn.visitOrder at h
  rcases List.mem_append.1 h with h | h <;> exact (List.mem_filter.1 h).1

theorem dget_processDoc (vectors : Bool) (tbl : List Name) (n : Name) (hn : n ∈ tbl) (doc : Nat)
    (ds : Dicts) (hlen : fieldIdOf tbl n < ds.length) (d : DocIn) (hd : DocTermsDistinct d) (t : Bytes) :
    fieldIdOf tbl n < (processDoc vectors tbl ds doc d).length ∧
    dget (fieldIdOf tbl n) t (processDoc vectors tbl ds doc d) =
      match entryOf vectors tbl n t doc d with
      | none => dget (fieldIdOf tbl n) t ds
      | some e => some ((dget (fieldIdOf tbl n) t ds).getD [] ++ [e]) := by
  have hfs : ∀ f ∈ d.visitOrder.filter (invProcessed vectors), (f.toks.map (·.term)).Nodup :=
    fun f hf => hd f (mem_visitOrder (List.mem_filter.1 hf).1)
  obtain ⟨inv1, inv2⟩ := docAcc_invariants _ hfs [] (by simp) (by simp)
  obtain ⟨r1, r2⟩ := foldl_keyed (commitField tbl doc) FieldAcc.name (dget (fieldIdOf tbl n) t) n
    (fun o a => match tfObs t a.tfs with
      | none => o
      | some x => some (o.getD [] ++ [mkEntry tbl doc a.len (fieldIdOf tbl n) x]))
    (fun ds => fieldIdOf tbl n < ds.length) (docAcc vectors d)
    (fun s a _ hs => by rw [commitField_eq, List.length_modify]; exact hs)
    (fun s a ha hs => dget_commitField tbl n hn doc s hs a (inv2 a ha) t)
    inv1 ds hlen
  refine ⟨r1, ?_⟩
  rw [processDoc, r2]
  have key := docAcc_find _ hfs n
  unfold docAcc
  unfold entryOf Spec.insts
  cases hfind : (List.foldl accField [] (d.visitOrder.filter (invProcessed vectors))).find?
      (fun a => decide (a.name = n)) with
  | none =>
    rw [hfind] at key
    simp only at key
    rw [key]
    simp [Spec.hasTerm]
  | some a =>
    rw [hfind] at key
    obtain ⟨k1, k2⟩ := key
    simp only
    rw [k2 t, k1]
    by_cases hh : Spec.hasTerm t (List.filter (fun f => decide (f.name = n))
        (List.filter (invProcessed vectors) d.visitOrder)) = true
    · simp only [hh, if_true]
    · simp only [hh]; rfl

/-! ### all dictionaries stay well formed -/

theorem forall_mem_modify {α : Type} (P : α → Prop) (l : List α) (i : Nat) (f : α → α)
    (h : ∀ x ∈ l, P x) (hf : ∀ x, P x → P (f x)) : ∀ x ∈ l.modify i f, P x := by
  intro x hx
  obtain ⟨j, hj⟩ := List.mem_iff_getElem?.1 hx
  rw [List.getElem?_modify] at hj
  cases hl : l[j]? with
  | none => simp [hl] at hj
  | some y =>
    have hy : P y := h y (List.mem_iff_getElem?.2 ⟨j, hl⟩)
    simp only [hl, Option.map_eq_map, Option.map_some, Option.some.injEq] at hj
    subst hj
    split
    · exact hf y hy
    · exact hy

theorem allOK_processDoc (vectors : Bool) (tbl : List Name) (ds : Dicts) (doc : Nat) (d : DocIn)
    (h : ∀ x ∈ ds, DictOK x) : ∀ x ∈ processDoc vectors tbl ds doc d, DictOK x := by
  unfold processDoc
  generalize docAcc vectors d = accs
  induction accs generalizing ds with
  | nil => exact h
  | cons a accs ih =>
    apply ih
    rw [commitField_eq]
    exact forall_mem_modify DictOK ds _ _ h (fun x hx => dictOK_commitTFs _ _ _ _ _ x hx)

theorem allOK_processDocs (vectors : Bool) (tbl : List Name) (b : Batch) :
    ∀ x ∈ processDocs vectors tbl b, DictOK x := by
  unfold processDocs
  have h0 : ∀ x ∈ tbl.map (fun _ => ([] : List (Bytes × List Entry))), DictOK x := by
    intro x hx
    obtain ⟨_, _, rfl⟩ := List.mem_map.1 hx
    exact ⟨by simp, by simp⟩
  generalize tbl.map (fun _ => ([] : List (Bytes × List Entry))) = ds at h0
  generalize b.zipIdx = l
  induction l generalizing ds with
  | nil => exact h0
  | cons p l ih => exact ih _ (allOK_processDoc vectors tbl ds p.2 p.1 h0)

theorem length_processDoc (vectors : Bool) (tbl : List Name) (ds : Dicts) (doc : Nat) (d : DocIn) :
    (processDoc vectors tbl ds doc d).length = ds.length := by
  unfold processDoc
  generalize docAcc vectors d = accs
  induction accs generalizing ds with
  | nil => rfl
  | cons a accs ih => rw [List.foldl_cons, ih, commitField_eq, List.length_modify]

theorem length_processDocs (vectors : Bool) (tbl : List Name) (b : Batch) :
    (processDocs vectors tbl b).length = tbl.length := by
  unfold processDocs
  have h0 : (tbl.map (fun _ => ([] : List (Bytes × List Entry)))).length = tbl.length := by simp
  generalize tbl.map (fun _ => ([] : List (Bytes × List Entry))) = ds at h0
  generalize b.zipIdx = l
  induction l generalizing ds with
  | nil => exact h0
  | cons p l ih => exact ih _ (by rw [length_processDoc]; exact h0)

/-! ### the fold over the batch -/

theorem dget_foldDocs (vectors : Bool) (tbl : List Name) (n : Name) (hn : n ∈ tbl) (t : Bytes)
    (l : List (DocIn × Nat)) (hl : ∀ p ∈ l, DocTermsDistinct p.1) (ds : Dicts)
    (hlen : fieldIdOf tbl n < ds.length) :
    dget (fieldIdOf tbl n) t (l.foldl (fun ds p => processDoc vectors tbl ds p.2 p.1) ds) =
      match l.filterMap (fun p => entryOf vectors tbl n t p.2 p.1) with
      | [] => dget (fieldIdOf tbl n) t ds
      | e :: es => some ((dget (fieldIdOf tbl n) t ds).getD [] ++ e :: es) := by
  induction l generalizing ds with
  | nil => rfl
  | cons p l ih =>
    obtain ⟨h1, h2⟩ := dget_processDoc vectors tbl n hn p.2 ds hlen p.1 (hl p (by simp)) t
    rw [List.foldl_cons, ih (fun q hq => hl q (by simp [hq])) _ h1, h2, List.filterMap_cons]
    cases entryOf vectors tbl n t p.2 p.1 with
    | none => rfl
    | some e =>
      simp only
      cases List.filterMap (fun p => entryOf vectors tbl n t p.2 p.1) l with
      | nil => rfl
      | cons e' es => simp

theorem dget_processDocs (vectors : Bool) (tbl : List Name) (n : Name) (hn : n ∈ tbl) (t : Bytes)
    (b : Batch) (hb : ∀ d ∈ b, DocTermsDistinct d) :
    dget (fieldIdOf tbl n) t (processDocs vectors tbl b) =
      match b.zipIdx.filterMap (fun p => entryOf vectors tbl n t p.2 p.1) with
      | [] => none
      | e :: es => some (e :: es) := by
  unfold processDocs
  have hl : ∀ p ∈ b.zipIdx, DocTermsDistinct p.1 := by
    intro p hp
    obtain ⟨x, i⟩ := p
    have := (List.mem_zipIdx hp).2.2
    exact hb x (by rw [this]; exact List.getElem_mem _)
  rw [dget_foldDocs vectors tbl n hn t _ hl _ (by simpa using fieldIdOf_lt hn)]
  have h0 : dget (fieldIdOf tbl n) t (tbl.map (fun _ => [])) = none := by
    unfold dget
    rw [List.getD_eq_getElem?_getD, List.getElem?_map]
    cases tbl[fieldIdOf tbl n]? <;> rfl
  rw [h0]
  cases List.filterMap (fun p => entryOf vectors tbl n t p.2 p.1) b.zipIdx <;> simp

end Zap
