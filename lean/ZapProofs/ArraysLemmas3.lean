/-
  ZapProofs.ArraysLemmas3: the fill pass as a fold over the flat list of
  append events, and the arithmetic heart of C01-arrays: for every key
  (field id, term)

      #appends        ≤ #visits counted           (at most one per document and merged field,
                                                    but one visit per field *instance*)
      #locations appended ≤ #locations counted    (merged locations are the concatenation)

  together with the per-key content of the event list in terms of `entryOf`
  (the entry a document contributes, from BuildLemmas3).
-/
import ZapProofs.ArraysLemmas2
import ZapProofs.BuildLemmas4

namespace Zap.Arr
open Zap

def Ev.key (e : Ev) : Key := (e.fid, e.term)

/-- the appends of one document, in the order the model performs them -/
def docEvents (vectors : Bool) (tbl : List Name) (doc : Nat) (d : DocIn) : List Ev :=
  (docAcc vectors d).flatMap (fun a => a.tfs.map (mkEv tbl doc a))

def events (vectors : Bool) (tbl : List Name) (b : Batch) : List Ev :=
  (b.zipIdx).flatMap (fun p => docEvents vectors tbl p.2 p.1)

theorem fillDoc_eq (vectors : Bool) (tbl : List Name) (c : Counts) (S : Fill) (doc : Nat) (d : DocIn) :
    fillDoc vectors tbl c S doc d = (docEvents vectors tbl doc d).foldl (fillEv c) S := by
  unfold fillDoc docEvents
  rw [List.foldl_flatMap]
  simp only [List.foldl_map]

theorem fillPass_eq (vectors : Bool) (tbl : List Name) (c : Counts) (S : Fill) (b : Batch) :
    fillPass vectors tbl c S b = (events vectors tbl b).foldl (fillEv c) S := by
  unfold fillPass events
  rw [List.foldl_flatMap]
  simp only [fillDoc_eq]

/-- number of appends to key `k` -/
def cntE (k : Key) (evs : List Ev) : Nat := (evs.filter (fun e => e.key = k)).length
/-- number of locations appended to key `k` -/
def locE (k : Key) (evs : List Ev) : Nat := ((evs.filter (fun e => e.key = k)).flatMap Ev.locs).length

theorem cntE_append (k : Key) (a b : List Ev) : cntE k (a ++ b) = cntE k a + cntE k b := by simp [cntE]
theorem locE_append (k : Key) (a b : List Ev) : locE k (a ++ b) = locE k a + locE k b := by simp [locE]

/-! ### generic list facts -/

theorem filter_key_nodup {α K : Type} [DecidableEq K] (key : α → K) (k : K) (l : List α)
    (h : (l.map key).Nodup) :
    l.filter (fun x => key x = k) = (l.find? (fun x => key x = k)).toList := by
  induction l with
  | nil => rfl
  | cons x l ih =>
    have hn : key x ∉ l.map key ∧ (l.map key).Nodup := List.nodup_cons.1 h
    by_cases e : key x = k
    · have hnone : l.filter (fun x => decide (key x = k)) = [] := by
        apply List.filter_eq_nil_iff.2
        intro y hy
        simp only [decide_eq_true_eq]
        intro e2
        exact hn.1 (List.mem_map.2 ⟨y, hy, by rw [e2, e]⟩)
      simp [e, hnone]
    · simp [e, ih hn.2]

theorem sum_filter_filter_le {α : Type} (p q : α → Bool) (g : α → Nat) (l : List α) :
    (((l.filter p).filter q).map g).sum ≤ ((l.filter q).map g).sum := by
  induction l with
  | nil => simp
  | cons x l ih =>
    by_cases hp : p x = true <;> by_cases hq : q x = true <;>
      simp only [List.filter_cons, hp, hq, if_true, if_false, List.map_cons, List.sum_cons,
        Bool.false_eq_true] <;> omega

/-! ### one document: the events of a key -/

theorem docEvents_filter_aux (tbl : List Name) (n : Name) (hn : n ∈ tbl) (t : Bytes) (doc : Nat)
    (acc : List FieldAcc) :
    (acc.flatMap (fun a => a.tfs.map (mkEv tbl doc a))).filter (fun e => e.key = (fieldIdOf tbl n, t)) =
      (acc.filter (fun a => a.name = n)).flatMap
        (fun a => (a.tfs.filter (fun tf => tf.term = t)).map (mkEv tbl doc a)) := by
  induction acc with
  | nil => rfl
  | cons a acc ih =>
    rw [List.flatMap_cons, List.filter_append, ih, List.filter_cons, List.filter_map]
    by_cases e : a.name = n
    · subst e
      simp only [decide_true, if_true, List.flatMap_cons]
      congr 2
      apply List.filter_congr
      intro tf _
      simp [Ev.key, mkEv, Function.comp]
    · have hne : ¬ fieldIdOf tbl a.name = fieldIdOf tbl n := fun x => e (fieldIdOf_inj hn x)
      have : a.tfs.filter ((fun e => decide (e.key = (fieldIdOf tbl n, t))) ∘ mkEv tbl doc a) = [] := by
        apply List.filter_eq_nil_iff.2
        intro tf _
        simp [Ev.key, mkEv, hne]
      simp [e, this]

/-- the events of document `doc` for (field `n`, term `t`) are exactly the entry the entry-level
    model appends for that document -/
theorem docEvents_key (vectors : Bool) (tbl : List Name) (n : Name) (hn : n ∈ tbl) (t : Bytes)
    (doc : Nat) (d : DocIn) (hd : DocTermsDistinct d) :
    ((docEvents vectors tbl doc d).filter (fun e => e.key = (fieldIdOf tbl n, t))).map Ev.entry =
      (entryOf vectors tbl n t doc d).toList := by
  have hfs : ∀ f ∈ d.visitOrder.filter (invProcessed vectors), (f.toks.map (·.term)).Nodup :=
    fun f hf => hd f (mem_visitOrder (List.mem_filter.1 hf).1)
  obtain ⟨inv1, inv2⟩ := docAcc_invariants _ hfs [] (by simp) (by simp)
  have key := docAcc_find _ hfs n
  unfold docEvents
  rw [docEvents_filter_aux tbl n hn t doc]
  unfold docAcc
  rw [filter_key_nodup FieldAcc.name n _ inv1]
  unfold entryOf Spec.insts
  cases hfind : (List.foldl accField [] (d.visitOrder.filter (invProcessed vectors))).find?
      (fun a => decide (a.name = n)) with
  | none =>
    rw [hfind] at key
    simp only at key
    rw [key]
    simp [Spec.hasTerm]
  | some a =>
    rw [hfind] at key
    obtain ⟨k1, k2⟩ := key
    have ha : a ∈ List.foldl accField [] (d.visitOrder.filter (invProcessed vectors)) :=
      List.mem_of_find?_eq_some hfind
    have hname : a.name = n := by simpa using List.find?_some hfind
    have k3 := k2 t
    unfold tfObs at k3
    simp only [Option.toList, List.flatMap_cons, List.flatMap_nil, List.append_nil]
    rw [filter_key_nodup TF.term t _ (inv2 a ha)]
    cases hf2 : a.tfs.find? (fun e => decide (e.term = t)) with
    | none =>
      rw [hf2] at k3
      by_cases hh : Spec.hasTerm t (List.filter (fun f => decide (f.name = n))
          (List.filter (invProcessed vectors) d.visitOrder)) = true
      · rw [if_pos hh] at k3; exact absurd k3 (by simp)
      · rw [if_neg hh]; rfl
    | some tf =>
      rw [hf2] at k3
      by_cases hh : Spec.hasTerm t (List.filter (fun f => decide (f.name = n))
          (List.filter (invProcessed vectors) d.visitOrder)) = true
      · rw [if_pos hh] at k3
        simp only [Option.map_some, Option.some.injEq, Prod.mk.injEq] at k3
        simp only [hh, if_true, Option.toList, List.map_cons, List.map_nil]
        simp only [Ev.entry, mkEv, mkEntry, hname, k1, k3.1, k3.2]
      · rw [if_neg hh] at k3; exact absurd k3 (by simp)

/-- names of a document's accumulators are names of its (processed) field instances -/
theorem docAcc_name_mem (vectors : Bool) (d : DocIn) (a : FieldAcc) (ha : a ∈ docAcc vectors d) :
    ∃ f ∈ d.visitOrder, f.name = a.name := by
  unfold docAcc at ha
  have h1 := find_foldl_accField (d.visitOrder.filter (invProcessed vectors)) [] a.name
  by_cases hnil : (d.visitOrder.filter (invProcessed vectors)).filter (fun f => decide (f.name = a.name)) = []
  · rw [hnil] at h1
    have h2 : (List.foldl accField [] (d.visitOrder.filter (invProcessed vectors))).find?
        (fun x => decide (x.name = a.name)) = none := h1
    have := List.find?_eq_none.1 h2 a ha
    simp at this
  · obtain ⟨f, hf⟩ := List.exists_mem_of_ne_nil _ hnil
    have h3 := List.mem_filter.1 hf
    exact ⟨f, (List.mem_filter.1 h3.1).1, by simpa using h3.2⟩

/-! ### one document: what the count pass saw for a key -/

def cT (t : Bytes) (f : FieldIn) : Nat := (f.toks.filter (fun tok => tok.term = t)).length
def wT (t : Bytes) (f : FieldIn) : Nat := ((f.toks.filter (fun tok => tok.term = t)).map (fun tok => tok.locs.length)).sum

theorem fieldVisits_key (tbl : List Name) (n : Name) (hn : n ∈ tbl) (t : Bytes) (f : FieldIn) :
    cntV (fieldIdOf tbl n, t) (fieldVisits tbl f) = (if f.name = n then cT t f else 0) ∧
    wV (fieldIdOf tbl n, t) (fieldVisits tbl f) = (if f.name = n then wT t f else 0) := by
  unfold cntV wV fieldVisits
  rw [List.filter_map]
  by_cases e : f.name = n
  · subst e
    have : f.toks.filter ((fun v => decide (v.key = (fieldIdOf tbl f.name, t))) ∘ tokVisit (fieldIdOf tbl f.name)) =
        f.toks.filter (fun tok => decide (tok.term = t)) := by
      apply List.filter_congr
      intro tok _
      show decide ((tokVisit (fieldIdOf tbl f.name) tok).key = (fieldIdOf tbl f.name, t)) = decide (tok.term = t)
      exact decide_eq_decide.2 (by simp [Visit.key, tokVisit])
    rw [this]
    simp [cT, wT, List.map_map, Function.comp_def, tokVisit]
  · have hne : ¬ fieldIdOf tbl f.name = fieldIdOf tbl n := fun x => e (fieldIdOf_inj hn x)
    have : f.toks.filter ((fun v => decide (v.key = (fieldIdOf tbl n, t))) ∘ tokVisit (fieldIdOf tbl f.name)) = [] := by
      apply List.filter_eq_nil_iff.2
      intro tok _
      simp [Visit.key, tokVisit, hne]
    rw [this]
    simp [e]

theorem fieldsVisits_key (tbl : List Name) (n : Name) (hn : n ∈ tbl) (t : Bytes) (fs : List FieldIn) :
    cntV (fieldIdOf tbl n, t) (fs.flatMap (fieldVisits tbl)) = ((fs.filter (fun f => f.name = n)).map (cT t)).sum ∧
    wV (fieldIdOf tbl n, t) (fs.flatMap (fieldVisits tbl)) = ((fs.filter (fun f => f.name = n)).map (wT t)).sum := by
  induction fs with
  | nil => exact ⟨rfl, rfl⟩
  | cons f fs ih =>
    obtain ⟨h1, h2⟩ := fieldVisits_key tbl n hn t f
    rw [List.flatMap_cons, cntV_append, wV_append, ih.1, ih.2, h1, h2, List.filter_cons]
    by_cases e : f.name = n <;> simp [e]

/-! ### the two inequalities, per document -/

theorem any_le_cT (t : Bytes) (f : FieldIn) (h : f.toks.any (fun tok => tok.term = t) = true) : 1 ≤ cT t f := by
  unfold cT
  obtain ⟨tok, htok, e⟩ := List.any_eq_true.1 h
  exact List.length_pos_of_mem (List.mem_filter.2 ⟨htok, e⟩)

theorem hasTerm_le (t : Bytes) (is : List FieldIn) :
    (if Spec.hasTerm t is = true then 1 else 0) ≤ (is.map (cT t)).sum := by
  induction is with
  | nil => simp [Spec.hasTerm]
  | cons f is ih =>
    have hh : Spec.hasTerm t (f :: is) = (f.toks.any (fun tok => tok.term = t) || Spec.hasTerm t is) := by
      simp [Spec.hasTerm]
    rw [hh, List.map_cons, List.sum_cons]
    by_cases h1 : f.toks.any (fun tok => decide (tok.term = t)) = true
    · have := any_le_cT t f h1
      simp [h1]; omega
    · have h1' : f.toks.any (fun tok => decide (tok.term = t)) = false := by simpa using h1
      rw [h1', Bool.false_or]
      omega

theorem le_sum_of_mem {α : Type} (g : α → Nat) (l : List α) (x : α) (h : x ∈ l) : g x ≤ (l.map g).sum := by
  induction l with
  | nil => simp at h
  | cons y l ih =>
    rw [List.map_cons, List.sum_cons]
    rcases List.mem_cons.1 h with e | e
    · subst e; omega
    · have := ih e; omega

theorem find_le_wT (t : Bytes) (f : FieldIn) (tok : Tok)
    (h : f.toks.find? (fun tok => tok.term = t) = some tok) : tok.locs.length ≤ wT t f := by
  unfold wT
  refine le_sum_of_mem (fun tok : Tok => tok.locs.length) _ tok ?_
  have h2 := List.find?_some h
  exact List.mem_filter.2 ⟨List.mem_of_find?_eq_some h, h2⟩

theorem laterLocs_single_le (n : Name) (t : Bytes) (f : FieldIn) : (laterLocs n t [f]).length ≤ wT t f := by
  unfold laterLocs
  simp only [List.flatMap_cons, List.flatMap_nil, List.append_nil]
  cases hfind : f.toks.find? (fun tok => decide (tok.term = t)) with
  | none => simp
  | some tok =>
    simp only [renameLocs, List.length_map]
    exact find_le_wT t f tok hfind

theorem laterLocs_le (n : Name) (t : Bytes) (is : List FieldIn) :
    (laterLocs n t is).length ≤ (is.map (wT t)).sum := by
  induction is with
  | nil => simp [laterLocs]
  | cons f is ih =>
    have e : laterLocs n t (f :: is) = laterLocs n t [f] ++ laterLocs n t is := by
      simp [laterLocs]
    have h := laterLocs_single_le n t f
    rw [e, List.length_append, List.map_cons, List.sum_cons]
    omega

theorem rawLocs_le (n : Name) (t : Bytes) (is : List FieldIn) :
    (rawLocs n t is).length ≤ (is.map (wT t)).sum := by
  cases is with
  | nil => simp [rawLocs]
  | cons f is =>
    have h2 := laterLocs_le n t is
    rw [rawLocs, List.length_append, List.map_cons, List.sum_cons]
    cases hfind : f.toks.find? (fun tok => decide (tok.term = t)) with
    | none => simp only [List.length_nil]; omega
    | some tok =>
      have := find_le_wT t f tok hfind
      simp only
      omega

/-- COUNTED ≥ APPENDED, one document, one key of a table field -/
theorem doc_bounds_named (vectors : Bool) (tbl : List Name) (n : Name) (hn : n ∈ tbl) (t : Bytes)
    (doc : Nat) (d : DocIn) (hd : DocTermsDistinct d) :
    cntE (fieldIdOf tbl n, t) (docEvents vectors tbl doc d) ≤ cntV (fieldIdOf tbl n, t) (docVisits tbl d) ∧
    locE (fieldIdOf tbl n, t) (docEvents vectors tbl doc d) ≤ wV (fieldIdOf tbl n, t) (docVisits tbl d) := by
  have hk := docEvents_key vectors tbl n hn t doc d hd
  obtain ⟨v1, v2⟩ := fieldsVisits_key tbl n hn t d.visitOrder
  have hc : cntE (fieldIdOf tbl n, t) (docEvents vectors tbl doc d) = (entryOf vectors tbl n t doc d).toList.length := by
    rw [← hk, List.length_map]; rfl
  have hl : locE (fieldIdOf tbl n, t) (docEvents vectors tbl doc d) =
      ((entryOf vectors tbl n t doc d).toList.flatMap (·.locs)).length := by
    rw [← hk, List.flatMap_map]; rfl
  unfold docVisits
  rw [hc, hl, v1, v2]
  have s1 := sum_filter_filter_le (invProcessed vectors) (fun f => decide (f.name = n)) (cT t) d.visitOrder
  have s2 := sum_filter_filter_le (invProcessed vectors) (fun f => decide (f.name = n)) (wT t) d.visitOrder
  have a1 := hasTerm_le t (Spec.insts vectors d n)
  have a2 := rawLocs_le n t (Spec.insts vectors d n)
  unfold Spec.insts at a1 a2
  unfold entryOf Spec.insts
  by_cases hh : Spec.hasTerm t (List.filter (fun f => decide (f.name = n))
      (List.filter (invProcessed vectors) d.visitOrder)) = true
  · rw [if_pos hh] at a1 ⊢
    simp only [Option.toList, List.length_cons, List.length_nil, List.flatMap_cons, List.flatMap_nil,
      List.append_nil, mkEntry, List.length_map]
    omega
  · rw [if_neg hh]
    simp

/-- every event's field id is the id of a table name -/
theorem docEvents_fid (vectors : Bool) (tbl : List Name) (doc : Nat) (d : DocIn)
    (hnames : ∀ f ∈ d.visitOrder, f.name ∈ tbl) :
    ∀ e ∈ docEvents vectors tbl doc d, ∃ n ∈ tbl, e.fid = fieldIdOf tbl n := by
  intro e he
  unfold docEvents at he
  obtain ⟨a, ha, he⟩ := List.mem_flatMap.1 he
  obtain ⟨tf, _, rfl⟩ := List.mem_map.1 he
  obtain ⟨f, hf, hfa⟩ := docAcc_name_mem vectors d a ha
  exact ⟨a.name, hfa ▸ hnames f hf, rfl⟩

/-- COUNTED ≥ APPENDED, one document, any key -/
theorem doc_bounds (vectors : Bool) (tbl : List Name) (k : Key) (doc : Nat) (d : DocIn)
    (hd : DocTermsDistinct d) (hnames : ∀ f ∈ d.visitOrder, f.name ∈ tbl) :
    cntE k (docEvents vectors tbl doc d) ≤ cntV k (docVisits tbl d) ∧
    locE k (docEvents vectors tbl doc d) ≤ wV k (docVisits tbl d) := by
  by_cases hex : ∃ n ∈ tbl, k.1 = fieldIdOf tbl n
  · obtain ⟨n, hn, e⟩ := hex
    obtain ⟨fid, t⟩ := k
    simp only at e
    subst e
    exact doc_bounds_named vectors tbl n hn t doc d hd
  · have : (docEvents vectors tbl doc d).filter (fun e => decide (e.key = k)) = [] := by
      apply List.filter_eq_nil_iff.2
      intro e he
      simp only [decide_eq_true_eq]
      intro ek
      obtain ⟨n, hn, e2⟩ := docEvents_fid vectors tbl doc d hnames e he
      exact hex ⟨n, hn, by rw [← ek]; exact e2⟩
    simp [cntE, locE, this]

/-! ### the whole batch -/

theorem visits_cons (tbl : List Name) (d : DocIn) (b : Batch) :
    visits tbl (d :: b) = docVisits tbl d ++ visits tbl b := by
  simp [visits]

theorem batch_bounds_aux (vectors : Bool) (tbl : List Name) (k : Key) (l : List DocIn) (i : Nat)
    (hd : ∀ d ∈ l, DocTermsDistinct d) (hnames : ∀ d ∈ l, ∀ f ∈ d.visitOrder, f.name ∈ tbl) :
    cntE k ((l.zipIdx i).flatMap (fun p => docEvents vectors tbl p.2 p.1)) ≤ cntV k (visits tbl l) ∧
    locE k ((l.zipIdx i).flatMap (fun p => docEvents vectors tbl p.2 p.1)) ≤ wV k (visits tbl l) := by
  induction l generalizing i with
  | nil => simp [cntE, locE, visits, cntV, wV]
  | cons d l ih =>
    obtain ⟨i1, i2⟩ := ih (i + 1) (fun x hx => hd x (by simp [hx])) (fun x hx => hnames x (by simp [hx]))
    obtain ⟨d1, d2⟩ := doc_bounds vectors tbl k i d (hd d (by simp)) (hnames d (by simp))
    rw [List.zipIdx_cons, List.flatMap_cons, cntE_append, locE_append, visits_cons, cntV_append, wV_append]
    show cntE k (docEvents vectors tbl i d) + _ ≤ _ ∧ locE k (docEvents vectors tbl i d) + _ ≤ _
    constructor <;> omega

theorem names_in_table (b : Batch) : ∀ d ∈ b, ∀ f ∈ d.visitOrder, f.name ∈ fieldTable b := by
  intro d hd f hf
  rw [mem_fieldTable]
  right
  unfold Spec.names
  exact List.mem_flatMap.2 ⟨d, hd, List.mem_map.2 ⟨f, hf, rfl⟩⟩

/-- COUNTED ≥ APPENDED for every postings list of the batch -/
theorem batch_bounds (vectors : Bool) (b : Batch) (hb : ∀ d ∈ b, DocTermsDistinct d) (k : Key) :
    cntE k (events vectors (fieldTable b) b) ≤ cntV k (visits (fieldTable b) b) ∧
    locE k (events vectors (fieldTable b) b) ≤ wV k (visits (fieldTable b) b) :=
  batch_bounds_aux vectors (fieldTable b) k b 0 hb (names_in_table b)

theorem events_key_aux (vectors : Bool) (tbl : List Name) (n : Name) (hn : n ∈ tbl) (t : Bytes)
    (l : List DocIn) (i : Nat) (hd : ∀ d ∈ l, DocTermsDistinct d) :
    ((((l.zipIdx i).flatMap (fun p => docEvents vectors tbl p.2 p.1)).filter
        (fun e => e.key = (fieldIdOf tbl n, t))).map Ev.entry) =
      (l.zipIdx i).filterMap (fun p => entryOf vectors tbl n t p.2 p.1) := by
  induction l generalizing i with
  | nil => rfl
  | cons d l ih =>
    rw [List.zipIdx_cons, List.flatMap_cons, List.filter_append, List.map_append,
      ih (i + 1) (fun x hx => hd x (by simp [hx])), docEvents_key vectors tbl n hn t i d (hd d (by simp)),
      List.filterMap_cons]
    cases entryOf vectors tbl n t i d <;> rfl

/-- the appends to (field `n`, term `t`) over the whole batch, as entries -/
theorem events_key (vectors : Bool) (tbl : List Name) (n : Name) (hn : n ∈ tbl) (t : Bytes)
    (b : Batch) (hb : ∀ d ∈ b, DocTermsDistinct d) :
    ((events vectors tbl b).filter (fun e => e.key = (fieldIdOf tbl n, t))).map Ev.entry =
      b.zipIdx.filterMap (fun p => entryOf vectors tbl n t p.2 p.1) :=
  events_key_aux vectors tbl n hn t b 0 hb

end Zap.Arr
