/-
  ZapProofs.BuildLemmas4: helper lemmas for C01, part 4: reading entries back
  through the field table (`hitOfEntry`), and the segment's dictionary.
-/
import ZapProofs.BuildLemmas3

namespace Zap

/-! ### location round trip: `resolveLoc` then `resolveMLoc` -/

/-- a document whose location source names are all in the table (or absent) -/
def DocSrcIn (tbl : List Name) (d : DocIn) : Prop :=
  ∀ f ∈ d.fields, ∀ tok ∈ f.toks, ∀ l ∈ tok.locs, l.src = [] ∨ l.src ∈ tbl

theorem roundTrip_first (tbl : List Name) (n : Name) (hn : n ∈ tbl) (l : TokLoc)
    (hl : l.src = [] ∨ l.src ∈ tbl) :
    resolveMLoc tbl (resolveLoc tbl (fieldIdOf tbl n) l) =
      { field := if l.src = [] then n else l.src, pos := l.pos, start := l.start, stop := l.stop, ap := l.ap } := by
  unfold resolveMLoc resolveLoc
  by_cases h : l.src = []
  · simp only [h, if_true, getD_fieldIdOf hn]
  · have : l.src ∈ tbl := by rcases hl with e | e; exact absurd e h; exact e
    simp only [h, if_false, getD_fieldIdOf this]

theorem roundTrip_renamed (tbl : List Name) (n : Name) (hn : n ∈ tbl) (l : TokLoc) :
    resolveMLoc tbl (resolveLoc tbl (fieldIdOf tbl n) { l with src := n }) =
      { field := n, pos := l.pos, start := l.start, stop := l.stop, ap := l.ap } := by
  have := roundTrip_first tbl n hn { l with src := n } (Or.inr hn)
  rw [this]
  by_cases h : n = [] <;> simp [h]

theorem locs_later (tbl : List Name) (n : Name) (hn : n ∈ tbl) (t : Bytes) (is : List FieldIn) (k : Nat)
    (hk : k ≠ 0) :
    ((laterLocs n t is).map (resolveLoc tbl (fieldIdOf tbl n))).map (resolveMLoc tbl) =
      (is.zipIdx k).flatMap (fun p =>
        match p.1.toks.find? (fun tok => tok.term = t) with
        | none => []
        | some tok => tok.locs.map (fun l =>
            ({ field := if p.2 = 0 then (if l.src = [] then n else l.src) else n,
               pos := l.pos, start := l.start, stop := l.stop, ap := l.ap } : Loc))) := by
  induction is generalizing k with
  | nil => rfl
  | cons f is ih =>
    rw [List.zipIdx_cons, List.flatMap_cons, ← ih (k + 1) (by omega)]
    simp only [laterLocs, List.flatMap_cons, List.map_append]
    congr 1
    cases f.toks.find? (fun tok => decide (tok.term = t)) with
    | none => rfl
    | some tok =>
      simp only [renameLocs, List.map_map, hk, if_false]
      apply List.map_congr_left
      intro l _
      exact roundTrip_renamed tbl n hn l

theorem locs_roundTrip (tbl : List Name) (n : Name) (hn : n ∈ tbl) (t : Bytes) (is : List FieldIn)
    (hsrc : ∀ f ∈ is, ∀ tok ∈ f.toks, ∀ l ∈ tok.locs, l.src = [] ∨ l.src ∈ tbl) :
    ((rawLocs n t is).map (resolveLoc tbl (fieldIdOf tbl n))).map (resolveMLoc tbl) = Spec.locsOf n t is := by
  cases is with
  | nil => rfl
  | cons f0 rest =>
    unfold Spec.locsOf
    have h2 := locs_later tbl n hn t rest (0 + 1) (by omega)
    rw [List.zipIdx_cons, List.flatMap_cons]
    simp only [rawLocs, List.map_append]
    refine congr (congrArg HAppend.hAppend ?_) h2
    cases hfind : f0.toks.find? (fun tok => decide (tok.term = t)) with
    | none => rfl
    | some tok =>
      simp only [List.map_map, if_true]
      apply List.map_congr_left
      intro l hl
      have htok : tok ∈ f0.toks := List.mem_of_find?_eq_some hfind
      exact roundTrip_first tbl n hn l (hsrc f0 (by simp) tok htok l hl)

theorem hitOfEntry_entryOf (vectors : Bool) (tbl : List Name) (n : Name) (hn : n ∈ tbl) (t : Bytes)
    (doc : Nat) (d : DocIn) (hd : DocSrcIn tbl d) :
    (entryOf vectors tbl n t doc d).map (Spec.hitOfEntry tbl) = Spec.hitOf vectors n t doc d := by
  unfold entryOf Spec.hitOf
  have hsrc : ∀ f ∈ Spec.insts vectors d n, ∀ tok ∈ f.toks, ∀ l ∈ tok.locs, l.src = [] ∨ l.src ∈ tbl := by
    intro f hf
    exact hd f (mem_visitOrder (List.mem_filter.1 (List.mem_filter.1 hf).1).1)
  by_cases h : Spec.hasTerm t (Spec.insts vectors d n) = true
  · simp only [h, if_true, Option.map_some, Spec.hitOfEntry, mkEntry]
    rw [locs_roundTrip tbl n hn t _ hsrc]
  · simp [h]

/-! ### postings of the specification, entry by entry -/

theorem filterMap_congr_mem {α β : Type} {f g : α → Option β} {l : List α} (h : ∀ x ∈ l, f x = g x) :
    l.filterMap f = l.filterMap g := by
  induction l with
  | nil => rfl
  | cons a l ih =>
    rw [List.filterMap_cons, List.filterMap_cons, h a (by simp), ih (fun x hx => h x (by simp [hx]))]

theorem mem_of_mem_zipIdx {α : Type} {l : List α} {k : Nat} {p : α × Nat} (hp : p ∈ l.zipIdx k) : p.1 ∈ l := by
  obtain ⟨x, i⟩ := p
  have := (List.mem_zipIdx hp).2.2
  rw [this]; exact List.getElem_mem _

theorem postings_eq_entries (vectors : Bool) (tbl : List Name) (n : Name) (hn : n ∈ tbl) (t : Bytes)
    (b : Batch) (hb : ∀ d ∈ b, DocSrcIn tbl d) :
    Spec.postings vectors b n t =
      (b.zipIdx.filterMap (fun p => entryOf vectors tbl n t p.2 p.1)).map (Spec.hitOfEntry tbl) := by
  unfold Spec.postings
  rw [List.map_filterMap]
  apply filterMap_congr_mem
  intro p hp
  exact (hitOfEntry_entryOf vectors tbl n hn t p.2 p.1 (hb p.1 (mem_of_mem_zipIdx hp))).symm

theorem hitOf_doc {vectors : Bool} {n : Name} {t : Bytes} {doc : Nat} {d : DocIn} {h : Hit}
    (e : Spec.hitOf vectors n t doc d = some h) : h.doc = doc := by
  unfold Spec.hitOf at e
  simp only at e
  split at e
  · simp only [Option.some.injEq] at e
    rw [← e]
  · exact absurd e (by simp)

theorem postings_docs_asc_aux (vectors : Bool) (n : Name) (t : Bytes) (l : List DocIn) (k : Nat) :
    (((l.zipIdx k).filterMap (fun p => Spec.hitOf vectors n t p.2 p.1)).map (·.doc)).Pairwise (· < ·) ∧
    ∀ x ∈ ((l.zipIdx k).filterMap (fun p => Spec.hitOf vectors n t p.2 p.1)).map (·.doc), k ≤ x := by
  induction l generalizing k with
  | nil => simp
  | cons d l ih =>
    obtain ⟨h1, h2⟩ := ih (k + 1)
    rw [List.zipIdx_cons, List.filterMap_cons]
    cases hh : Spec.hitOf vectors n t k d with
    | none => exact ⟨h1, fun x hx => by have := h2 x hx; omega⟩
    | some h =>
      have hd : h.doc = k := hitOf_doc hh
      simp only [List.map_cons, hd]
      refine ⟨List.pairwise_cons.2 ⟨fun x hx => by have := h2 x hx; omega, h1⟩, ?_⟩
      intro x hx
      rcases List.mem_cons.1 hx with e | e
      · omega
      · have := h2 x e; omega

theorem postings_docs_asc (vectors : Bool) (b : Batch) (n : Name) (t : Bytes) :
    AscNat ((Spec.postings vectors b n t).map (·.doc)) :=
  (ascNat_iff_pairwise _).2 (postings_docs_asc_aux vectors n t b 0).1

theorem postings_of_unknown (vectors : Bool) (b : Batch) (n : Name) (t : Bytes) (hn : n ∉ Spec.names b) :
    Spec.postings vectors b n t = [] := by
  unfold Spec.postings
  apply List.filterMap_eq_nil_iff.2
  intro p hp
  have hd : p.1 ∈ b := mem_of_mem_zipIdx hp
  have : Spec.insts vectors p.1 n = [] := by
    unfold Spec.insts
    apply List.filter_eq_nil_iff.2
    intro f hf
    have hf' : f ∈ p.1.visitOrder := (List.mem_filter.1 hf).1
    simp only [decide_eq_true_eq]
    intro e
    apply hn
    unfold Spec.names
    exact List.mem_flatMap.2 ⟨p.1, hd, List.mem_map.2 ⟨f, hf', e⟩⟩
  simp [Spec.hitOf, this, Spec.hasTerm]

/-! ### the built segment's field list and dictionaries -/

theorem find_zip_field (mk : Name × List (Bytes × List Entry) → FieldM) (hmk : ∀ p, (mk p).name = p.1)
    (n : Name) (tbl : List Name) (ds : Dicts) (hlen : ds.length = tbl.length) :
    ((tbl.zip ds).map mk).find? (fun f => f.name = n) =
      if n ∈ tbl then some (mk (n, ds.getD (fieldIdOf tbl n) [])) else none := by
  induction tbl generalizing ds with
  | nil => simp
  | cons h tl ih =>
    cases ds with
    | nil => simp at hlen
    | cons d ds =>
      have hl : ds.length = tl.length := by simpa using hlen
      rw [List.zip_cons_cons, List.map_cons, List.find?_cons, hmk, fieldIdOf_cons]
      by_cases e : h = n
      · subst e; simp
      · have e' : ¬ n = h := fun x => e x.symm
        simp only [e, decide_false, ih ds hl, if_false, List.mem_cons, e', false_or]
        simp

theorem buildSeg_names (vectors : Bool) (mode : Nat) (b : Batch) :
    (buildSeg vectors mode b).fields.map (·.name) = fieldTable b := by
  have hlen := length_processDocs vectors (fieldTable b) b
  simp only [buildSeg, List.map_map]
  have : ∀ (tbl : List Name) (ds : Dicts), ds.length = tbl.length →
      (tbl.zip ds).map (fun p => p.1) = tbl := by
    intro tbl ds h
    exact List.map_fst_zip (by omega)
  exact this _ _ hlen

theorem buildSeg_dictTerms (vectors : Bool) (mode : Nat) (b : Batch) (hne : b ≠ []) (n : Name) :
    (buildSeg vectors mode b).dictTerms n =
      if n ∈ fieldTable b then
        (sortTerms ((processDocs vectors (fieldTable b) b).getD (fieldIdOf (fieldTable b) n) [])).map
          (fun t => (t.1, PostRep.general t.2))
      else [] := by
  have hlen := length_processDocs vectors (fieldTable b) b
  have hnd : ¬ b.length = 0 := by
    intro h; exact hne (List.length_eq_zero_iff.1 h)
  unfold Seg.dictTerms Seg.field? Seg.loadedFields
  simp only [buildSeg, hnd, if_false]
  rw [find_zip_field _ (fun _ => rfl) n _ _ hlen]
  by_cases h : n ∈ fieldTable b
  · simp only [h, if_true]
  · simp only [h, if_false]

theorem lookup_dictTerms (vectors : Bool) (mode : Nat) (b : Batch) (hne : b ≠ []) (n : Name) (t : Bytes) :
    lookup t ((buildSeg vectors mode b).dictTerms n) =
      if n ∈ fieldTable b then
        (dget (fieldIdOf (fieldTable b) n) t (processDocs vectors (fieldTable b) b)).map PostRep.general
      else none := by
  rw [buildSeg_dictTerms vectors mode b hne n]
  split
  · rw [lookup_map_general, lookup_sortTerms]; rfl
  · rfl

theorem buildSeg_termsSorted (vectors : Bool) (mode : Nat) (b : Batch) :
    ∀ f ∈ (buildSeg vectors mode b).fields, SortedLt (f.terms.map (·.1)) := by
  intro f hf
  simp only [buildSeg] at hf
  obtain ⟨p, hp, rfl⟩ := List.mem_map.1 hf
  have hp2 : p.2 ∈ processDocs vectors (fieldTable b) b := by
    obtain ⟨x, y⟩ := p
    exact (List.of_mem_zip hp).2
  have hok := (allOK_processDocs vectors (fieldTable b) b p.2 hp2).1
  simp only [List.map_map]
  have : (sortTerms p.2).map ((fun x => x.1) ∘ fun t => (t.1, PostRep.general t.2)) =
      (sortTerms p.2).map (·.1) := rfl
  rw [this, map_fst_sortTerms]
  exact sortedLt_sortNames hok

theorem buildSeg_empty (vectors : Bool) (mode : Nat) :
    (buildSeg vectors mode []).fieldNames = [] ∧ ∀ n, (buildSeg vectors mode []).dictTerms n = [] :=
  ⟨rfl, fun _ => rfl⟩

end Zap
