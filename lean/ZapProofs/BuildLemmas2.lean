/-
  ZapProofs.BuildLemmas2: helper lemmas for C01, part 2: one document.
  `docAcc` (merged token frequencies per field name) against
  `Spec.hasTerm` / `freqOf` / `locsOf` over `Spec.insts`.
-/
import ZapProofs.BuildLemmas

namespace Zap

/-! ### "update the entry with key k, or append a new one" -/

theorem find_map_upd {α K : Type} [DecidableEq K] (key : α → K) (k : K) (g : α → α)
    (hg : ∀ a, key (g a) = key a) (acc : List α) (t : K) :
    (acc.map (fun e => if key e = k then g e else e)).find? (fun e => key e = t)
    = (acc.find? (fun e => key e = t)).map (fun e => if key e = k then g e else e) := by
  induction acc with
  | nil => rfl
  | cons a acc ih =>
    have : key (if key a = k then g a else a) = key a := by split <;> simp [hg]
    simp only [List.map_cons, List.find?_cons, this, ih]
    by_cases h : key a = t <;> simp [h]

theorem find_upsert {α K : Type} [DecidableEq K] (key : α → K) (k : K) (g : α → α) (new : α)
    (hg : ∀ a, key (g a) = key a) (hnew : key new = k) (acc : List α) (t : K) :
    (if acc.any (fun e => key e = k) then acc.map (fun e => if key e = k then g e else e)
      else acc ++ [new]).find? (fun e => key e = t)
    = if k = t then some (match acc.find? (fun e => key e = k) with | some e => g e | none => new)
      else acc.find? (fun e => key e = t) := by
  by_cases hany : acc.any (fun e => decide (key e = k)) = true
  · rw [if_pos hany, find_map_upd key k g hg]
    by_cases hkt : k = t
    · subst hkt
      rw [if_pos rfl]
      cases hf : acc.find? (fun e => decide (key e = k)) with
      | none =>
        have := List.find?_eq_none.1 hf
        obtain ⟨x, hx, hxk⟩ := List.any_eq_true.1 hany
        exact absurd hxk (this x hx)
      | some e =>
        have := List.find?_some hf
        simp only [decide_eq_true_eq] at this
        simp [this]
    · rw [if_neg hkt]
      cases hf : acc.find? (fun e => decide (key e = t)) with
      | none => rfl
      | some e =>
        have := List.find?_some hf
        simp only [decide_eq_true_eq] at this
        have : ¬ key e = k := fun h => hkt (h ▸ this)
        simp [this]
  · rw [if_neg hany, List.find?_append]
    have hnone : ∀ x ∈ acc, ¬ key x = k := by
      intro x hx hk
      exact hany (List.any_eq_true.2 ⟨x, hx, by simpa using hk⟩)
    by_cases hkt : k = t
    · subst hkt
      have : acc.find? (fun e => decide (key e = k)) = none :=
        List.find?_eq_none.2 (by intro x hx; simpa using hnone x hx)
      simp [this, hnew]
    · have : ¬ key new = t := fun h => hkt (hnew ▸ h)
      simp [hkt, this]

theorem map_key_upsert {α K : Type} [DecidableEq K] (key : α → K) (k : K) (g : α → α) (new : α)
    (hg : ∀ a, key (g a) = key a) (hnew : key new = k) (acc : List α) :
    (if acc.any (fun e => key e = k) then acc.map (fun e => if key e = k then g e else e)
      else acc ++ [new]).map key
    = if k ∈ acc.map key then acc.map key else acc.map key ++ [k] := by
  have hany : acc.any (fun e => decide (key e = k)) = true ↔ k ∈ acc.map key := by
    rw [List.any_eq_true, List.mem_map]
    constructor
    · rintro ⟨x, hx, h⟩; exact ⟨x, hx, by simpa using h⟩
    · rintro ⟨x, hx, h⟩; exact ⟨x, hx, by simpa using h⟩
  by_cases h : acc.any (fun e => decide (key e = k)) = true
  · rw [if_pos h, if_pos (hany.1 h)]
    rw [List.map_map]
    apply List.map_congr_left
    intro a _
    simp only [Function.comp]
    split <;> simp [hg]
  · rw [if_neg h, if_neg (fun h' => h (hany.2 h'))]
    simp [hnew]

theorem nodup_upsert {α K : Type} [DecidableEq K] (key : α → K) (k : K) (g : α → α) (new : α)
    (hg : ∀ a, key (g a) = key a) (hnew : key new = k) (acc : List α) (h : (acc.map key).Nodup) :
    ((if acc.any (fun e => key e = k) then acc.map (fun e => if key e = k then g e else e)
      else acc ++ [new]).map key).Nodup := by
  rw [map_key_upsert key k g new hg hnew]
  split
  · exact h
  · rename_i hk
    refine List.nodup_append.2 ⟨h, by simp, ?_⟩
    intro a ha b hb
    have : b = k := by simpa using hb
    subst this
    intro e; subst e; exact hk ha

/-! ### merged token frequencies, observed at one term -/

def tfObs (t : Bytes) (tfs : List TF) : Option (Nat × List TokLoc) :=
  (tfs.find? (fun e => e.term = t)).map (fun e => (e.freq, e.locs))

def laterUpd (n : Name) (o : Option (Nat × List TokLoc)) (tok : Tok) : Nat × List TokLoc :=
  match o with
  | some (fr, ls) => (fr + tok.freq, ls ++ renameLocs n tok.locs)
  | none => (tok.freq, renameLocs n tok.locs)

theorem tfObs_mergeTok (n : Name) (acc : List TF) (tok : Tok) (t : Bytes) :
    tfObs t (mergeTok n acc tok) =
      if tok.term = t then some (laterUpd n (tfObs t acc) tok) else tfObs t acc := by
  unfold tfObs mergeTok
  rw [find_upsert TF.term tok.term
    (fun e => { e with freq := e.freq + tok.freq, locs := e.locs ++ renameLocs n tok.locs })
    { term := tok.term, freq := tok.freq, locs := renameLocs n tok.locs } (fun _ => rfl) rfl]
  by_cases h : tok.term = t
  · subst h
    simp only [if_true, Option.map_some]
    cases acc.find? (fun e => decide (e.term = tok.term)) <;> simp [laterUpd]
  · simp [h]

theorem nodup_mergeTok (n : Name) (acc : List TF) (tok : Tok) (h : (acc.map (·.term)).Nodup) :
    ((mergeTok n acc tok).map (·.term)).Nodup :=
  nodup_upsert TF.term tok.term
    (fun e => { e with freq := e.freq + tok.freq, locs := e.locs ++ renameLocs n tok.locs })
    { term := tok.term, freq := tok.freq, locs := renameLocs n tok.locs } (fun _ => rfl) rfl acc h

theorem nodup_mergeAll (n : Name) (acc : List TF) (toks : List Tok) (h : (acc.map (·.term)).Nodup) :
    ((mergeAll n acc toks).map (·.term)).Nodup := by
  unfold mergeAll
  induction toks generalizing acc with
  | nil => exact h
  | cons tok toks ih => exact ih _ (nodup_mergeTok n acc tok h)

theorem tfObs_mergeAll (n : Name) (acc : List TF) (toks : List Tok) (t : Bytes)
    (hnd : (toks.map (·.term)).Nodup) :
    tfObs t (mergeAll n acc toks) =
      match toks.find? (fun tok => tok.term = t) with
      | none => tfObs t acc
      | some tok => some (laterUpd n (tfObs t acc) tok) := by
  have := (foldl_keyed (mergeTok n) Tok.term (tfObs t) t (fun o tok => some (laterUpd n o tok))
    (fun _ => True) toks (fun _ _ _ _ => trivial) (fun s x _ _ => tfObs_mergeTok n s x t) hnd acc trivial).2
  rw [mergeAll, this]
  cases toks.find? (fun tok => decide (tok.term = t)) <;> rfl

theorem tfObs_firstTFs (toks : List Tok) (t : Bytes) :
    tfObs t (firstTFs toks) = (toks.find? (fun tok => tok.term = t)).map (fun tok => (tok.freq, tok.locs)) := by
  unfold tfObs firstTFs
  rw [List.find?_map]
  cases h : toks.find? (fun tok => decide (tok.term = t)) <;> simp [Function.comp_def, h]

/-- locations contributed by instances after the first: all attributed to `n` -/
def laterLocs (n : Name) (t : Bytes) (is : List FieldIn) : List TokLoc :=
  is.flatMap (fun f => match f.toks.find? (fun tok => tok.term = t) with
    | none => []
    | some tok => renameLocs n tok.locs)

/-- locations of term `t` in the instances `is` of field `n`, as `TokLoc`s -/
def rawLocs (n : Name) (t : Bytes) : List FieldIn → List TokLoc
  | [] => []
  | f0 :: rest =>
    (match f0.toks.find? (fun tok => tok.term = t) with
      | none => []
      | some tok => tok.locs) ++ laterLocs n t rest

theorem any_eq_find_isSome (toks : List Tok) (t : Bytes) :
    toks.any (fun tok => tok.term = t) = (toks.find? (fun tok => tok.term = t)).isSome := by
  induction toks with
  | nil => rfl
  | cons a l ih =>
    by_cases h : a.term = t <;> simp [h, ih]

theorem tfObs_later (n : Name) (t : Bytes) (is : List FieldIn)
    (hname : ∀ f ∈ is, f.name = n) (hnd : ∀ f ∈ is, (f.toks.map (·.term)).Nodup) (tfs : List TF) :
    tfObs t (is.foldl (fun tfs f => mergeAll f.name tfs f.toks) tfs) =
      match tfObs t tfs with
      | some (fr, ls) => some (fr + Spec.freqOf t is, ls ++ laterLocs n t is)
      | none => if Spec.hasTerm t is then some (Spec.freqOf t is, laterLocs n t is) else none := by
  induction is generalizing tfs with
  | nil =>
    simp only [List.foldl_nil, Spec.freqOf, Spec.hasTerm, laterLocs, List.map_nil, sumList,
      List.flatMap_nil, List.any_nil, Nat.add_zero, List.append_nil]
    cases tfObs t tfs <;> simp
  | cons f is ih =>
    have hf : f.name = n := hname f (by simp)
    rw [List.foldl_cons, ih (fun g hg => hname g (by simp [hg])) (fun g hg => hnd g (by simp [hg])),
      hf, tfObs_mergeAll n tfs f.toks t (hnd f (by simp))]
    have hfreq : Spec.freqOf t (f :: is) =
        (match f.toks.find? (fun tok => tok.term = t) with | none => 0 | some tok => tok.freq)
          + Spec.freqOf t is := by
      simp only [Spec.freqOf, sumList, List.map_cons]
      rfl
    have hlocs : laterLocs n t (f :: is) =
        (match f.toks.find? (fun tok => tok.term = t) with | none => [] | some tok => renameLocs n tok.locs)
          ++ laterLocs n t is := by
      simp [laterLocs]
    have hhas : Spec.hasTerm t (f :: is) =
        ((f.toks.find? (fun tok => tok.term = t)).isSome || Spec.hasTerm t is) := by
      simp [Spec.hasTerm, any_eq_find_isSome]
    rw [hfreq, hlocs, hhas]
    cases hfind : f.toks.find? (fun tok => decide (tok.term = t)) with
    | none =>
      cases tfObs t tfs with
      | none => simp
      | some x => simp
    | some tok =>
      cases tfObs t tfs with
      | none => simp [laterUpd]
      | some x => obtain ⟨fr, ls⟩ := x; simp [laterUpd, Nat.add_assoc]

/-! ### `accField` / `docAcc`: one accumulator per field name -/

def stepA (o : Option FieldAcc) (f : FieldIn) : Option FieldAcc :=
  some (match o with
    | some a => { a with len := a.len + f.len, tfs := mergeAll f.name a.tfs f.toks }
    | none => { name := f.name, len := f.len, tfs := firstTFs f.toks })

theorem find_accField (acc : List FieldAcc) (f : FieldIn) (n : Name) :
    (accField acc f).find? (fun a => a.name = n) =
      if f.name = n then stepA (acc.find? (fun a => a.name = n)) f
      else acc.find? (fun a => a.name = n) := by
  unfold accField
  rw [find_upsert FieldAcc.name f.name
    (fun a => { a with len := a.len + f.len, tfs := mergeAll f.name a.tfs f.toks })
    { name := f.name, len := f.len, tfs := firstTFs f.toks } (fun _ => rfl) rfl]
  by_cases h : f.name = n
  · subst h
    simp only [if_true, stepA]
    cases acc.find? (fun a => decide (a.name = f.name)) <;> rfl
  · simp [h]

theorem find_foldl_accField (fs : List FieldIn) (acc : List FieldAcc) (n : Name) :
    (fs.foldl accField acc).find? (fun a => a.name = n) =
      (fs.filter (fun f => f.name = n)).foldl stepA (acc.find? (fun a => a.name = n)) := by
  induction fs generalizing acc with
  | nil => rfl
  | cons f fs ih =>
    rw [List.foldl_cons, ih, find_accField]
    by_cases h : f.name = n <;> simp [h]

theorem foldl_stepA_some (is : List FieldIn) (a : FieldAcc) :
    is.foldl stepA (some a) = some (FieldAcc.mk a.name (a.len + sumList (is.map (·.len)))
      (is.foldl (fun tfs f => mergeAll f.name tfs f.toks) a.tfs)) := by
  induction is generalizing a with
  | nil => cases a; simp [sumList]
  | cons f is ih =>
    rw [List.foldl_cons]
    show is.foldl stepA (some _) = _
    rw [ih]
    simp [sumList, Nat.add_assoc]

theorem nodup_names_accField (acc : List FieldAcc) (f : FieldIn) (h : (acc.map (·.name)).Nodup) :
    ((accField acc f).map (·.name)).Nodup :=
  nodup_upsert FieldAcc.name f.name
    (fun a => { a with len := a.len + f.len, tfs := mergeAll f.name a.tfs f.toks })
    { name := f.name, len := f.len, tfs := firstTFs f.toks } (fun _ => rfl) rfl acc h

theorem nodup_tfs_accField (acc : List FieldAcc) (f : FieldIn)
    (h : ∀ a ∈ acc, (a.tfs.map (·.term)).Nodup) (hf : (f.toks.map (·.term)).Nodup) :
    ∀ a ∈ accField acc f, (a.tfs.map (·.term)).Nodup := by
  intro a ha
  unfold accField at ha
  split at ha
  · obtain ⟨e, he, rfl⟩ := List.mem_map.1 ha
    split
    · exact nodup_mergeAll _ _ _ (h e he)
    · exact h e he
  · rcases List.mem_append.1 ha with ha | ha
    · exact h a ha
    · have : a = { name := f.name, len := f.len, tfs := firstTFs f.toks } := by simpa using ha
      subst this
      simpa [firstTFs, List.map_map, Function.comp_def] using hf

theorem docAcc_invariants (fs : List FieldIn) (hnd : ∀ f ∈ fs, (f.toks.map (·.term)).Nodup)
    (acc : List FieldAcc) (h1 : (acc.map (·.name)).Nodup) (h2 : ∀ a ∈ acc, (a.tfs.map (·.term)).Nodup) :
    ((fs.foldl accField acc).map (·.name)).Nodup ∧
      ∀ a ∈ fs.foldl accField acc, (a.tfs.map (·.term)).Nodup := by
  induction fs generalizing acc with
  | nil => exact ⟨h1, h2⟩
  | cons f fs ih =>
    exact ih (fun g hg => hnd g (by simp [hg])) _ (nodup_names_accField acc f h1)
      (nodup_tfs_accField acc f h2 (hnd f (by simp)))

/-- what one document contributes to field `n`, seen through the accumulator -/
theorem docAcc_find (fs : List FieldIn) (hnd : ∀ f ∈ fs, (f.toks.map (·.term)).Nodup) (n : Name) :
    match (fs.foldl accField []).find? (fun a => a.name = n) with
    | none => fs.filter (fun f => f.name = n) = []
    | some a =>
      a.len = sumList ((fs.filter (fun f => f.name = n)).map (·.len)) ∧
      ∀ t, tfObs t a.tfs =
        if Spec.hasTerm t (fs.filter (fun f => f.name = n))
        then some (Spec.freqOf t (fs.filter (fun f => f.name = n)), rawLocs n t (fs.filter (fun f => f.name = n)))
        else none := by
  rw [find_foldl_accField]
  have hname : ∀ f ∈ fs.filter (fun f => decide (f.name = n)), f.name = n := by
    intro f hf; simpa using (List.mem_filter.1 hf).2
  have hnd' : ∀ f ∈ fs.filter (fun f => decide (f.name = n)), (f.toks.map (·.term)).Nodup :=
    fun f hf => hnd f (List.mem_filter.1 hf).1
  generalize fs.filter (fun f => decide (f.name = n)) = is at hname hnd'
  cases is with
  | nil => simp
  | cons f0 rest =>
    have : (f0 :: rest).foldl stepA ([].find? (fun a => decide (a.name = n))) =
        rest.foldl stepA (some { name := f0.name, len := f0.len, tfs := firstTFs f0.toks }) := rfl
    rw [this, foldl_stepA_some]
    refine ⟨by simp [sumList], ?_⟩
    intro t
    show tfObs t (rest.foldl (fun tfs f => mergeAll f.name tfs f.toks) (firstTFs f0.toks)) = _
    rw [tfObs_later n t rest (fun g hg => hname g (by simp [hg])) (fun g hg => hnd' g (by simp [hg])),
      tfObs_firstTFs]
    have hfreq : Spec.freqOf t (f0 :: rest) =
        (match f0.toks.find? (fun tok => tok.term = t) with | none => 0 | some tok => tok.freq)
          + Spec.freqOf t rest := by
      simp only [Spec.freqOf, sumList, List.map_cons]
      rfl
    have hhas : Spec.hasTerm t (f0 :: rest) =
        ((f0.toks.find? (fun tok => tok.term = t)).isSome || Spec.hasTerm t rest) := by
      simp [Spec.hasTerm, any_eq_find_isSome]
    rw [hfreq, hhas, rawLocs]
    cases f0.toks.find? (fun tok => decide (tok.term = t)) with
    | none => simp
    | some tok => simp

end Zap
