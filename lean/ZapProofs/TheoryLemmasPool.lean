/-
  Lemmas for ZapModel.Theory.Pool: if every call word is `Balanced`, the pool invariant
  holds in every reachable state of every schedule.
-/
import ZapModel.Theory.Pool

namespace Zap.Theory.Pool
open Zap.Gen PoolEv

/-- The per-thread automaton: which remaining event lists are fine in which phase. -/
def accept : Phase → List PoolEv → Bool
  | _, [] => true
  | .idle, .get :: w => accept .holding w
  | .idle, .ret :: w => accept .idle w
  | .holding, .use :: w => accept .holding w
  | .holding, .put :: w => accept .done w
  | .holding, .ret :: w => accept .idle w
  | .done, .ret :: w => accept .idle w
  | _, _ => false

theorem accept_usesThenEnd (w r : List PoolEv) (h : usesThenEnd w = true) :
    accept .holding (w ++ r) = accept .idle r := by
  induction w with
  | nil => simp [usesThenEnd] at h
  | cons e w ih =>
    cases e with
    | get => simp [usesThenEnd] at h
    | use => simp only [usesThenEnd] at h; simp [accept, ih h]
    | put =>
      simp only [usesThenEnd, beq_iff_eq] at h
      subst h; simp [accept]
    | ret =>
      simp only [usesThenEnd, List.isEmpty_iff] at h
      subst h; simp [accept]

theorem accept_balanced (w r : List PoolEv) (h : Balanced w = true) :
    accept .idle (w ++ r) = accept .idle r := by
  cases w with
  | nil => simp [Balanced] at h
  | cons e w =>
    cases e with
    | get => simp only [Balanced] at h; simp [accept, accept_usesThenEnd w r h]
    | use => simp [Balanced] at h
    | put => simp [Balanced] at h
    | ret =>
      simp only [Balanced, List.isEmpty_iff] at h
      subst h; simp [accept]

theorem accept_flatten (ws : List (List PoolEv)) (h : ∀ w ∈ ws, Balanced w = true) :
    accept .idle ws.flatten = true := by
  induction ws with
  | nil => simp [accept]
  | cons w ws ih =>
    rw [List.flatten_cons, accept_balanced w _ (h w List.mem_cons_self)]
    exact ih (fun w' hw' => h w' (List.mem_cons_of_mem _ hw'))

/-- The inductive invariant. -/
structure Inv (s : State) : Prop where
  nodup : s.pool.Nodup
  excl : ∀ i j o, holds (s.thr i) o → holds (s.thr j) o → i = j
  notin : ∀ i o, holds (s.thr i) o → o ∉ s.pool
  lt_pool : ∀ o ∈ s.pool, o < s.fresh
  lt_held : ∀ i o, holds (s.thr i) o → o < s.fresh
  ok : ∀ i, accept (s.thr i).ph (s.thr i).rest = true
  hasptr : ∀ i, (s.thr i).ph = .holding → ∃ o, (s.thr i).ptr = some o

theorem inv_init (progs : Nat → List (List PoolEv))
    (h : ∀ i, ∀ w ∈ progs i, Balanced w = true) : Inv (init progs) where
  nodup := List.nodup_nil
  excl := by intro i j o hi; simp [init, holds] at hi
  notin := by intro i o hi; simp [init, holds] at hi
  lt_pool := by intro o ho; simp [init] at ho
  lt_held := by intro i o hi; simp [init, holds] at hi
  ok := by intro i; exact accept_flatten _ (h i)
  hasptr := by intro i hi; simp [init] at hi

@[simp] theorem setThr_same (f : Nat → Thread) (i : Nat) (t : Thread) : setThr f i t i = t := by
  simp [setThr]

theorem setThr_other (f : Nat → Thread) (i j : Nat) (t : Thread) (h : j ≠ i) :
    setThr f i t j = f j := by
  simp [setThr, h]

theorem step_nil (s : State) (i : Nat) (c : Option Nat) (h : (s.thr i).rest = []) :
    step s i c = s := by simp [step, h]

theorem step_get_pool (s : State) (i : Nat) (c : Option Nat) (r : List PoolEv) (o : Nat)
    (h : (s.thr i).rest = .get :: r) (hc : Option.filter (fun o => s.pool.contains o) c = some o) :
    step s i c = { s with pool := s.pool.erase o,
                          thr := setThr s.thr i ⟨some o, .holding, r⟩ } := by
  simp only [step, h, hc]

theorem step_get_fresh (s : State) (i : Nat) (c : Option Nat) (r : List PoolEv)
    (h : (s.thr i).rest = .get :: r) (hc : Option.filter (fun o => s.pool.contains o) c = none) :
    step s i c = { pool := s.pool, fresh := s.fresh + 1,
                   thr := setThr s.thr i ⟨some s.fresh, .holding, r⟩ } := by
  simp only [step, h, hc]

theorem step_use (s : State) (i : Nat) (c : Option Nat) (r : List PoolEv)
    (h : (s.thr i).rest = .use :: r) :
    step s i c = { s with thr := setThr s.thr i { s.thr i with rest := r } } := by
  simp only [step, h]

theorem step_put_some (s : State) (i : Nat) (c : Option Nat) (r : List PoolEv) (o : Nat)
    (h : (s.thr i).rest = .put :: r) (hp : (s.thr i).ptr = some o) :
    step s i c = { s with pool := o :: s.pool, thr := setThr s.thr i ⟨some o, .done, r⟩ } := by
  simp only [step, h, hp]

theorem step_ret (s : State) (i : Nat) (c : Option Nat) (r : List PoolEv)
    (h : (s.thr i).rest = .ret :: r) :
    step s i c = { s with thr := setThr s.thr i ⟨none, .idle, r⟩ } := by
  simp only [step, h]

theorem inv_step (s : State) (i : Nat) (c : Option Nat) (hI : Inv s) : Inv (step s i c) := by
  have hok := hI.ok i
  generalize hrest : (s.thr i).rest = rest at hok
  cases rest with
  | nil => rw [step_nil s i c hrest]; exact hI
  | cons e r =>
    have hph : ∀ p, (s.thr i).ph = p → accept p (e :: r) = true := by
      intro p hp; rw [← hp]; exact hok
    cases e with
    | get =>
      -- the phase is idle
      have hidle : (s.thr i).ph = .idle := by
        cases hp : (s.thr i).ph with
        | idle => rfl
        | holding => have := hph _ hp; simp [accept] at this
        | done => have := hph _ hp; simp [accept] at this
      have hacc : accept .holding r = true := by
        have := hph _ hidle; simpa [accept] using this
      cases hc : Option.filter (fun o => s.pool.contains o) c with
      | some o =>
        rw [step_get_pool s i c r o hrest hc]
        have hmem : o ∈ s.pool := by
          have := (Option.filter_eq_some_iff.mp hc).2
          simpa using this
        have holdsj : ∀ j o', holds (setThr s.thr i ⟨some o, .holding, r⟩ j) o' →
            (j = i ∧ o' = o) ∨ (j ≠ i ∧ holds (s.thr j) o') := by
          intro j o' h
          by_cases hj : j = i
          · subst hj; simp [holds] at h; exact Or.inl ⟨rfl, h.symm⟩
          · rw [setThr_other _ _ _ _ hj] at h; exact Or.inr ⟨hj, h⟩
        refine ⟨hI.nodup.erase o, ?_, ?_, ?_, ?_, ?_, ?_⟩
        · intro a b o' ha hb
          rcases holdsj a o' ha with ⟨ha1, ha2⟩ | ⟨ha1, ha2⟩ <;>
            rcases holdsj b o' hb with ⟨hb1, hb2⟩ | ⟨hb1, hb2⟩
          · rw [ha1, hb1]
          · subst ha2; exact absurd hmem (hI.notin b _ hb2)
          · subst hb2; exact absurd hmem (hI.notin a _ ha2)
          · exact hI.excl a b o' ha2 hb2
        · intro a o' ha
          rcases holdsj a o' ha with ⟨_, ha2⟩ | ⟨_, ha2⟩
          · subst ha2; exact hI.nodup.not_mem_erase
          · exact fun hm => hI.notin a o' ha2 (List.mem_of_mem_erase hm)
        · intro o' ho'; exact hI.lt_pool o' (List.mem_of_mem_erase ho')
        · intro a o' ha
          rcases holdsj a o' ha with ⟨_, ha2⟩ | ⟨_, ha2⟩
          · subst ha2; exact hI.lt_pool _ hmem
          · exact hI.lt_held a o' ha2
        · intro a
          by_cases hj : a = i
          · subst hj; simpa using hacc
          · simp only [setThr_other _ _ _ _ hj]; exact hI.ok a
        · intro a ha
          by_cases hj : a = i
          · subst hj; exact ⟨o, by simp⟩
          · simp only [setThr_other _ _ _ _ hj] at ha ⊢; exact hI.hasptr a ha
      | none =>
        rw [step_get_fresh s i c r hrest hc]
        have holdsj : ∀ j o', holds (setThr s.thr i ⟨some s.fresh, .holding, r⟩ j) o' →
            (j = i ∧ o' = s.fresh) ∨ (j ≠ i ∧ holds (s.thr j) o') := by
          intro j o' h
          by_cases hj : j = i
          · subst hj; simp [holds] at h; exact Or.inl ⟨rfl, h.symm⟩
          · rw [setThr_other _ _ _ _ hj] at h; exact Or.inr ⟨hj, h⟩
        refine ⟨hI.nodup, ?_, ?_, ?_, ?_, ?_, ?_⟩
        · intro a b o' ha hb
          rcases holdsj a o' ha with ⟨ha1, ha2⟩ | ⟨ha1, ha2⟩ <;>
            rcases holdsj b o' hb with ⟨hb1, hb2⟩ | ⟨hb1, hb2⟩
          · rw [ha1, hb1]
          · subst ha2; exact absurd (hI.lt_held b _ hb2) (Nat.lt_irrefl _)
          · subst hb2; exact absurd (hI.lt_held a _ ha2) (Nat.lt_irrefl _)
          · exact hI.excl a b o' ha2 hb2
        · intro a o' ha
          rcases holdsj a o' ha with ⟨_, ha2⟩ | ⟨_, ha2⟩
          · subst ha2; exact fun hm => Nat.lt_irrefl _ (hI.lt_pool _ hm)
          · exact hI.notin a o' ha2
        · intro o' ho'; exact Nat.lt_succ_of_lt (hI.lt_pool o' ho')
        · intro a o' ha
          rcases holdsj a o' ha with ⟨_, ha2⟩ | ⟨_, ha2⟩
          · subst ha2; exact Nat.lt_succ_self _
          · exact Nat.lt_succ_of_lt (hI.lt_held a o' ha2)
        · intro a
          by_cases hj : a = i
          · subst hj; simpa using hacc
          · simp only [setThr_other _ _ _ _ hj]; exact hI.ok a
        · intro a ha
          by_cases hj : a = i
          · subst hj; exact ⟨s.fresh, by simp⟩
          · simp only [setThr_other _ _ _ _ hj] at ha ⊢; exact hI.hasptr a ha
    | use =>
      have hhold : (s.thr i).ph = .holding := by
        cases hp : (s.thr i).ph with
        | holding => rfl
        | idle => have := hph _ hp; simp [accept] at this
        | done => have := hph _ hp; simp [accept] at this
      have hacc : accept .holding r = true := by
        have := hph _ hhold; simpa [accept] using this
      rw [step_use s i c r hrest]
      have holdsj : ∀ j o', holds (setThr s.thr i { s.thr i with rest := r } j) o' ↔
          holds (s.thr j) o' := by
        intro j o'
        by_cases hj : j = i
        · subst hj; simp [holds]
        · rw [setThr_other _ _ _ _ hj]
      refine ⟨hI.nodup, ?_, ?_, hI.lt_pool, ?_, ?_, ?_⟩
      · intro a b o' ha hb
        exact hI.excl a b o' ((holdsj a o').mp ha) ((holdsj b o').mp hb)
      · intro a o' ha; exact hI.notin a o' ((holdsj a o').mp ha)
      · intro a o' ha; exact hI.lt_held a o' ((holdsj a o').mp ha)
      · intro a
        by_cases hj : a = i
        · subst hj; simpa [hhold] using hacc
        · simp only [setThr_other _ _ _ _ hj]; exact hI.ok a
      · intro a ha
        by_cases hj : a = i
        · subst hj; simpa using hI.hasptr a hhold
        · simp only [setThr_other _ _ _ _ hj] at ha ⊢; exact hI.hasptr a ha
    | put =>
      have hhold : (s.thr i).ph = .holding := by
        cases hp : (s.thr i).ph with
        | holding => rfl
        | idle => have := hph _ hp; simp [accept] at this
        | done => have := hph _ hp; simp [accept] at this
      have hacc : accept .done r = true := by
        have := hph _ hhold; simpa [accept] using this
      obtain ⟨o, ho⟩ := hI.hasptr i hhold
      have hio : holds (s.thr i) o := ⟨hhold, ho⟩
      rw [step_put_some s i c r o hrest ho]
      have holdsj : ∀ j o', holds (setThr s.thr i ⟨some o, .done, r⟩ j) o' →
          j ≠ i ∧ holds (s.thr j) o' := by
        intro j o' h
        by_cases hj : j = i
        · subst hj; simp [holds] at h
        · rw [setThr_other _ _ _ _ hj] at h; exact ⟨hj, h⟩
      refine ⟨List.nodup_cons.mpr ⟨hI.notin i o hio, hI.nodup⟩, ?_, ?_, ?_, ?_, ?_, ?_⟩
      · intro a b o' ha hb
        exact hI.excl a b o' (holdsj a o' ha).2 (holdsj b o' hb).2
      · intro a o' ha hm
        obtain ⟨hne, ha'⟩ := holdsj a o' ha
        rcases List.mem_cons.mp hm with h | h
        · subst h; exact hne (hI.excl a i _ ha' hio)
        · exact hI.notin a o' ha' h
      · intro o' ho'
        rcases List.mem_cons.mp ho' with h | h
        · subst h; exact hI.lt_held i _ hio
        · exact hI.lt_pool o' h
      · intro a o' ha; exact hI.lt_held a o' (holdsj a o' ha).2
      · intro a
        by_cases hj : a = i
        · subst hj; simpa using hacc
        · simp only [setThr_other _ _ _ _ hj]; exact hI.ok a
      · intro a ha
        by_cases hj : a = i
        · subst hj; simp at ha
        · simp only [setThr_other _ _ _ _ hj] at ha ⊢; exact hI.hasptr a ha
    | ret =>
      have hacc : accept .idle r = true := by
        cases hp : (s.thr i).ph with
        | holding => have := hph _ hp; simpa [accept] using this
        | idle => have := hph _ hp; simpa [accept] using this
        | done => have := hph _ hp; simpa [accept] using this
      rw [step_ret s i c r hrest]
      have holdsj : ∀ j o', holds (setThr s.thr i ⟨none, .idle, r⟩ j) o' →
          j ≠ i ∧ holds (s.thr j) o' := by
        intro j o' h
        by_cases hj : j = i
        · subst hj; simp [holds] at h
        · rw [setThr_other _ _ _ _ hj] at h; exact ⟨hj, h⟩
      refine ⟨hI.nodup, ?_, ?_, hI.lt_pool, ?_, ?_, ?_⟩
      · intro a b o' ha hb
        exact hI.excl a b o' (holdsj a o' ha).2 (holdsj b o' hb).2
      · intro a o' ha; exact hI.notin a o' (holdsj a o' ha).2
      · intro a o' ha; exact hI.lt_held a o' (holdsj a o' ha).2
      · intro a
        by_cases hj : a = i
        · subst hj; simpa using hacc
        · simp only [setThr_other _ _ _ _ hj]; exact hI.ok a
      · intro a ha
        by_cases hj : a = i
        · subst hj; simp at ha
        · simp only [setThr_other _ _ _ _ hj] at ha ⊢; exact hI.hasptr a ha

theorem inv_exec (s : State) (sched : Sched) (hI : Inv s) : Inv (exec s sched) := by
  induction sched generalizing s with
  | nil => exact hI
  | cons x xs ih => exact ih _ (inv_step s x.1 x.2 hI)

theorem safe_of_inv (s : State) (hI : Inv s) : Safe s where
  no_two_holders := hI.excl
  pool_nodup := hI.nodup
  not_held_and_pooled := hI.notin
  use_by_unique_holder := by
    intro i r hr
    have hok := hI.ok i
    rw [hr] at hok
    have hhold : (s.thr i).ph = .holding := by
      cases hp : (s.thr i).ph with
      | holding => rfl
      | idle => rw [hp] at hok; simp [accept] at hok
      | done => rw [hp] at hok; simp [accept] at hok
    obtain ⟨o, ho⟩ := hI.hasptr i hhold
    exact ⟨o, ⟨hhold, ho⟩, fun j hj => hI.excl j i o hj ⟨hhold, ho⟩, hI.notin i o ⟨hhold, ho⟩⟩

/-- GENERIC THEOREM (pool safety): any number of threads, each running any sequence of
    calls whose words are all `Balanced`; in EVERY interleaving (every schedule, including
    every choice of which pooled object a `Get` returns) every reachable state is safe. -/
theorem pool_safe (progs : Nat → List (List PoolEv))
    (hbal : ∀ i, ∀ w ∈ progs i, Balanced w = true) (sched : Sched) :
    Safe (exec (init progs) sched) :=
  safe_of_inv _ (inv_exec _ sched (inv_init progs hbal))

/-- The same for a finite list of threads. -/
theorem pool_safe_list (progs : List (List (List PoolEv)))
    (hbal : ∀ p ∈ progs, ∀ w ∈ p, Balanced w = true) (sched : Sched) :
    Safe (exec (initL progs) sched) := by
  apply pool_safe
  intro i w hw
  by_cases hi : i < progs.length
  · have : progs.getD i [] = progs[i] := by simp [List.getD, hi]
    rw [this] at hw
    exact hbal _ (List.getElem_mem hi) w hw
  · have : progs.getD i [] = [] := by simp [List.getD, Nat.le_of_not_lt hi]
    rw [this] at hw; cases hw

end Zap.Theory.Pool
