/-
  ZapProofs.ComposeLemmas: glue between the finished pieces (C01 build content,
  C07 iterator simulation, codec lemmas) used by the headline theorems in
  Props/C01, Props/C02Full, Props/C03Full, Props/C04.
-/
import ZapProofs.Props.C01Build
import ZapProofs.Props.C07
import ZapProofs.Props.C02
import ZapProofs.Props.C03
import ZapProofs.Props.Codec

namespace Zap.Compose
open Zap

/-! ### Exhausting an iterator with `Next` -/

/-- `k` calls of `Next` on the specification iterator deliver the first `k` live
    hits (all of them when `k` exceeds their number), then nil. -/
theorem run_next (mk : Entry → Hit) : ∀ (k : Nat) (lv : List Entry),
    Spec.run mk lv (List.replicate k Op.next) =
      (lv.take k).map (fun e => some (mk e)) ++ List.replicate (k - lv.length) none
  | 0, lv => by simp [Spec.run]
  | k + 1, [] => by
    have ih := run_next mk k []
    simp only [List.replicate_succ, Spec.run, List.dropWhile_nil, ih]
    simp [List.replicate_succ]
  | k + 1, e :: rest => by
    have ih := run_next mk k rest
    have hd : (e :: rest).dropWhile (fun e => decide (e.doc < Spec.target Op.next)) = e :: rest := by
      simp [Spec.target, List.dropWhile]
    simp only [List.replicate_succ, Spec.run, hd, ih]
    simp

theorem run_next_filterMap (mk : Entry → Hit) (k : Nat) (lv : List Entry) (hk : lv.length ≤ k) :
    (Spec.run mk lv (List.replicate k Op.next)).filterMap id = lv.map mk := by
  rw [run_next, List.take_of_length_le hk, List.filterMap_append]
  have h1 : (lv.map (fun e => some (mk e))).filterMap id = lv.map mk := by
    induction lv with
    | nil => rfl
    | cons e l ih => simp
  have h2 : (List.replicate (k - lv.length) (none : Option Hit)).filterMap id = [] := by
    apply List.filterMap_eq_nil_iff.2
    intro x hx
    rw [(List.mem_replicate.1 hx).2]; rfl
  rw [h1, h2, List.append_nil]

/-- With all detail flags a hit is the stored entry resolved through the field table. -/
theorem mkHit_all (pl : PList) : Spec.mkHit pl true true true = Spec.hitOfEntry pl.names := rfl

theorem postings_length_le (vectors : Bool) (b : Batch) (n : Name) (t : Bytes) :
    (Spec.postings vectors b n t).length ≤ b.length := by
  unfold Spec.postings
  have := List.length_filterMap_le (fun p : DocIn × Nat => Spec.hitOf vectors n t p.2 p.1) b.zipIdx
  simpa using this

/-! ### Field records and their dictionaries -/

theorem mem_of_lookup {α β : Type} [DecidableEq α] {k : α} {v : β} :
    ∀ {l : List (α × β)}, lookup k l = some v → (k, v) ∈ l
  | [], h => by simp [lookup] at h
  | (k', v') :: rest, h => by
    simp only [lookup] at h
    by_cases e : k = k'
    · simp only [e, if_true, Option.some.injEq] at h
      subst e; subst h; simp
    · simp only [e, if_false] at h
      exact List.mem_cons_of_mem _ (mem_of_lookup h)

theorem mem_loadedFields {s : Seg} {f : FieldM} (h : f ∈ s.loadedFields) : f ∈ s.fields := by
  unfold Seg.loadedFields at h
  split at h
  · exact List.mem_of_mem_drop h
  · exact h

theorem field?_mem {s : Seg} {n : Name} {f : FieldM} (h : s.field? n = some f) :
    f ∈ s.fields ∧ f.name = n := by
  unfold Seg.field? at h
  exact ⟨mem_loadedFields (List.mem_of_find?_eq_some h), by simpa using List.find?_some h⟩

/-- `dictTerms n` is the `terms` of a field record of the segment, or empty. -/
theorem dictTerms_cases (s : Seg) (n : Name) :
    s.dictTerms n = [] ∨ ∃ f ∈ s.fields, f.name = n ∧ s.dictTerms n = f.terms := by
  unfold Seg.dictTerms
  cases h : s.field? n with
  | none => exact Or.inl rfl
  | some f => exact Or.inr ⟨f, (field?_mem h).1, (field?_mem h).2, rfl⟩

theorem find?_of_mem_nodup {α K : Type} [DecidableEq K] (key : α → K) :
    ∀ (l : List α), (l.map key).Nodup → ∀ x ∈ l, l.find? (fun y => decide (key y = key x)) = some x
  | [], _, x, hx => by cases hx
  | a :: l, hnd, x, hx => by
    rw [List.map_cons, List.nodup_cons] at hnd
    rcases List.mem_cons.1 hx with rfl | hx
    · simp
    · have hne : key a ≠ key x := fun e => hnd.1 (e ▸ List.mem_map.2 ⟨x, hx, rfl⟩)
      rw [List.find?_cons]
      simp only [hne, decide_false]
      exact find?_of_mem_nodup key l hnd.2 x hx

/-- In a segment built from a non-empty batch every field record is found under its name. -/
theorem buildSeg_field?_self (vectors : Bool) (mode : Nat) (b : Batch) (hne : b ≠ [])
    (f : FieldM) (hf : f ∈ (buildSeg vectors mode b).fields) :
    (buildSeg vectors mode b).field? f.name = some f := by
  have hn : (buildSeg vectors mode b).numDocs = b.length := rfl
  have hlen : b.length ≠ 0 := by simpa using hne
  unfold Seg.field? Seg.loadedFields
  rw [hn, if_neg hlen]
  apply find?_of_mem_nodup FieldM.name _ _ f hf
  rw [buildSeg_names]
  exact fieldTable_nodup b

theorem buildSeg_lookup_of_mem (vectors : Bool) (mode : Nat) (b : Batch) (hne : b ≠ [])
    (f : FieldM) (hf : f ∈ (buildSeg vectors mode b).fields) (p : Bytes × PostRep) (hp : p ∈ f.terms) :
    lookup p.1 ((buildSeg vectors mode b).dictTerms f.name) = some p.2 := by
  unfold Seg.dictTerms
  rw [buildSeg_field?_self vectors mode b hne f hf]
  have hs := C01_termsSorted vectors mode b f hf
  rw [Stored.sortedLt_iff_pairwise] at hs
  exact (Stored.lookup_eq_some_iff p.1 p.2 f.terms (Stored.pairwise_blt_ne hs)).2 hp

/-- `C01_termsSorted`, stated over `dictTerms`. -/
theorem buildSeg_dictTerms_sorted (vectors : Bool) (mode : Nat) (b : Batch) (n : Name) :
    SortedLt (((buildSeg vectors mode b).dictTerms n).map (·.1)) := by
  rcases dictTerms_cases (buildSeg vectors mode b) n with h | ⟨f, hf, _, h⟩
  · rw [h]; trivial
  · rw [h]; exact C01_termsSorted vectors mode b f hf

/-- A term of the built segment has at most one posting per document. -/
theorem buildSeg_card_le (vectors : Bool) (mode : Nat) (b : Batch) (hwf : Spec.WF b)
    (f : FieldM) (hf : f ∈ (buildSeg vectors mode b).fields) (p : Bytes × PostRep) (hp : p ∈ f.terms) :
    p.2.docs.length ≤ b.length := by
  by_cases hne : b = []
  · subst hne
    have : f.terms = [] := by
      have hfs : (buildSeg vectors mode []).fields.map (·.terms) = [[]] := by
        cases vectors <;> rfl
      have : f.terms ∈ (buildSeg vectors mode []).fields.map (·.terms) := List.mem_map.2 ⟨f, hf, rfl⟩
      rw [hfs] at this
      simpa using this
    rw [this] at hp; cases hp
  · have h := C01_entries_all vectors mode b hwf f.name p.1
    rw [buildSeg_lookup_of_mem vectors mode b hne f hf p hp] at h
    obtain ⟨t, r⟩ := p
    cases r with
    | oneHit d nb => exact False.elim h
    | general es =>
      simp only at h
      have hl : es.length = (Spec.postings vectors b f.name t).length := by
        rw [← h.1, List.length_map]
      simp only [PostRep.docs, List.length_map]
      rw [hl]
      exact postings_length_le vectors b f.name t

end Zap.Compose
