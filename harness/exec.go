package main

import (
	"bufio"
	"bytes"
	"encoding/binary"
	"errors"
	"fmt"
	mmap "github.com/blevesearch/mmap-go"
	"hash/crc32"
	"io"
	"os"
	"path/filepath"
	"runtime"
	"sort"
	"strconv"
	"strings"
	"sync"
	"sync/atomic"
	"syscall"
	"time"

	"github.com/RoaringBitmap/roaring/v2"
	index "github.com/blevesearch/bleve_index_api"
	segment "github.com/blevesearch/scorch_segment_api/v2"
	"github.com/blevesearch/vellum"
	"github.com/blevesearch/vellum/levenshtein"
	vregexp "github.com/blevesearch/vellum/regexp"
	zap "github.com/blevesearch/zapx/v16"
)

type segEntry struct {
	seg    segment.Segment
	path   string // non-empty for opened segments
	closed bool
}

type slots struct {
	pls map[string]segment.PostingsList
	its map[string]segment.PostingsIterator
	dvs map[string]segment.DocVisitState
	sls map[string]segment.SynonymsList
	sis map[string]segment.SynonymsIterator
	vh  map[string]interface{} // vector index handles opened inside a `par` block (per goroutine)
	par bool                   // this slot set belongs to one goroutine of a `par` block
}

func newSlots() *slots {
	return &slots{pls: map[string]segment.PostingsList{}, its: map[string]segment.PostingsIterator{},
		dvs: map[string]segment.DocVisitState{}, sls: map[string]segment.SynonymsList{}, sis: map[string]segment.SynonymsIterator{},
		vh: map[string]interface{}{}}
}

type Exec struct {
	kept      map[string][]string
	dir       string
	chunkMode uint32
	batches   map[string]*BatchSpec
	segs      map[string]*segEntry
	files     map[string]string
	bufs      map[string][]byte
	sl        *slots
	mu        sync.Mutex
	stats     map[string]int
	vec       vecState
	frozen    string
}

func newExec(dir string) *Exec {
	return &Exec{dir: dir, chunkMode: 1026, batches: map[string]*BatchSpec{}, segs: map[string]*segEntry{},
		files: map[string]string{}, bufs: map[string][]byte{}, sl: newSlots(), stats: map[string]int{},
		kept: map[string][]string{}}
}

func (e *Exec) stat(k string) {
	e.mu.Lock()
	e.stats[k]++
	e.mu.Unlock()
}

func errKind(err error) string {
	if err == nil {
		return "ok"
	}
	if errors.Is(err, segment.ErrClosed) || err == segment.ErrClosed {
		return "err:closed"
	}
	if errors.Is(err, zap.ErrChunkSizeZero) {
		return "err:chunkzero"
	}
	msg := err.Error()
	switch {
	case strings.Contains(msg, "fakefaiss"):
		return "err:engine"
	case strings.Contains(msg, "verif-validate"):
		return "err:validate"
	case strings.Contains(msg, "verif-io") || strings.Contains(msg, "file too large") || strings.Contains(msg, "no space"):
		return "err:io"
	case strings.Contains(msg, "chunk size is zero"):
		return "err:chunkzero"
	}
	return "err:other"
}

func bitmapOf(spec string) (*roaring.Bitmap, error) {
	if spec == "nil" {
		return nil, nil
	}
	bm := roaring.New()
	xs, err := parseU64List(spec, ",")
	if err != nil {
		return nil, err
	}
	for _, x := range xs {
		bm.Add(uint32(x))
	}
	return bm, nil
}

func bmList(bm *roaring.Bitmap) string {
	if bm == nil {
		return "-"
	}
	arr := bm.ToArray()
	if len(arr) == 0 {
		return "-"
	}
	parts := make([]string, len(arr))
	for i, x := range arr {
		parts[i] = strconv.FormatUint(uint64(x), 10)
	}
	return strings.Join(parts, ",")
}

func (e *Exec) path(name string) string {
	e.mu.Lock()
	defer e.mu.Unlock()
	if p, ok := e.files[name]; ok {
		return p
	}
	p := filepath.Join(e.dir, name+".zap")
	e.files[name] = p
	return p
}

func (e *Exec) seg(name string) (segment.Segment, error) {
	s, ok := e.segs[name]
	if !ok {
		return nil, fmt.Errorf("unknown segment %s", name)
	}
	return s.seg, nil
}

// fileExists: something is at the path - or beside it under a name derived from it (a temporary
// file the operation wrote first and meant to rename, say)
func fileExists(p string) bool {
	if _, err := os.Stat(p); err == nil {
		return true
	}
	if m, _ := filepath.Glob(p + "?*"); len(m) > 0 {
		return true
	}
	return false
}

// pathExists: anything at the path, also a dangling or special link
func pathExists(p string) bool {
	_, err := os.Lstat(p)
	return err == nil
}

// run executes all commands, writing the transcript (each command line,
// followed by an "r ..." observation line where the command yields one).
// progress watchdog: a command that does not return (a leaked lock, a lost wake-up) must not
// cost the whole time budget of the check: after 300 s without a finished command the transcript
// ends with an observation saying so and the process exits.
var lastProgress int64

func (e *Exec) watchdog(out *bufio.Writer, cur *string) {
	for {
		time.Sleep(5 * time.Second)
		if time.Now().Unix()-atomic.LoadInt64(&lastProgress) > 300 {
			fmt.Fprintf(os.Stdout, "\n%s\nr HANG:no command finished for 300 s\n", *cur)
			os.Exit(3)
		}
	}
}

func (e *Exec) run(cmds []*Cmd, out *bufio.Writer) {
	cur := ""
	atomic.StoreInt64(&lastProgress, time.Now().Unix())
	go e.watchdog(out, &cur)
	for i := 0; i < len(cmds); {
		c := cmds[i]
		cur = c.Raw
		atomic.StoreInt64(&lastProgress, time.Now().Unix())
		switch c.Op {
		case "batch":
			b, next, err := parseBatch(cmds, i)
			if err != nil {
				fmt.Fprintf(out, "%s\nr scripterror:%v\n", c.Raw, err)
				return
			}
			for _, l := range cmds[i:next] {
				fmt.Fprintln(out, l.Raw)
			}
			e.batches[b.Name] = b
			i = next
			continue
		case "persistfaults", "writetofaults", "mergefaults", "mergecancel", "parbuild":
			fmt.Fprintln(out, "note expanded: "+c.Raw)
			e.expand(c, out)
			out.Flush()
			i++
			continue
		case "par":
			j := i + 1
			for j < len(cmds) && cmds[j].Op != "endpar" {
				j++
			}
			e.runPar(c, cmds[i+1:j], out)
			i = j + 1
			continue
		}
		if c.Op == "buildfaults" || c.Op == "mergeengfaults" {
			fmt.Fprintln(out, "note expanded: "+c.Raw)
			if obs, ok := e.safeExec(c, e.sl, ""); ok {
				fmt.Fprintln(out, obs)
			}
			out.Flush()
			i++
			continue
		}
		fmt.Fprintln(out, c.Raw)
		if obs, ok := e.safeExec(c, e.sl, ""); ok {
			fmt.Fprintln(out, "r "+obs)
		}
		out.Flush()
		i++
	}
}

func (e *Exec) runPar(c *Cmd, body []*Cmd, out *bufio.Writer) {
	k := 4
	if len(c.Pos) > 0 {
		k, _ = strconv.Atoi(c.Pos[0])
	}
	rounds := c.num("rounds", 1)
	ordered := c.str("ordered", "0") == "1"
	results := make([][]string, k)
	var wg sync.WaitGroup
	start := make(chan struct{}) // all goroutines leave the gate together ...
	var ready int32              // ... and then spin until every one of them is actually running
	for g := 0; g < k; g++ {
		wg.Add(1)
		go func(g int) {
			defer wg.Done()
			sl := newSlots()
			sl.par = true
			<-start
			atomic.AddInt32(&ready, 1)
			for spins := 0; atomic.LoadInt32(&ready) < int32(k); spins++ {
				if spins%1000 == 999 {
					runtime.Gosched()
				}
			}
			for r := 0; r < rounds; r++ {
				res := make([]string, len(body))
				// each goroutine starts at a different offset so that different
				// calls overlap in time
				for n := 0; n < len(body); n++ {
					idx := (n + g*7) % len(body)
					if ordered {
						idx = n
					}
					obs, ok := e.safeExec(body[idx], sl, fmt.Sprintf("_g%d", g))
					if ok {
						res[idx] = obs
					}
				}
				if r == 0 {
					results[g] = res
				} else {
					for n := range res {
						if res[n] != results[g][n] {
							results[g][n] = "diverged-across-rounds:" + results[g][n] + "||" + res[n]
						}
					}
				}
			}
		}(g)
	}
	close(start)
	wg.Wait()
	fmt.Fprintln(out, c.Raw)
	for n, b := range body {
		fmt.Fprintln(out, b.Raw)
		obs := results[0][n]
		for g := 1; g < k; g++ {
			if results[g][n] != obs {
				obs = "diverged:" + obs + "||" + results[g][n]
				break
			}
		}
		if obs != "" {
			fmt.Fprintln(out, "r "+obs)
		}
	}
	fmt.Fprintln(out, "endpar")
	out.Flush()
}

func (e *Exec) safeExec(c *Cmd, sl *slots, gsuffix string) (obs string, ok bool) {
	defer func() {
		if r := recover(); r != nil {
			obs = fmt.Sprintf("panic:%s", strings.ReplaceAll(strings.SplitN(fmt.Sprint(r), "\n", 2)[0], " ", "_"))
			ok = true
		}
	}()
	return e.exec(c, sl, gsuffix)
}

func (e *Exec) exec(c *Cmd, sl *slots, gsuffix string) (string, bool) {
	if e.frozen != "" {
		switch c.Op {
		case "build", "merge", "writeto", "cmpfile":
			// written by the pinned release: echo what it recorded
			return strings.TrimPrefix(c.Rec, "r "), c.Rec != ""
		case "persist":
			p := filepath.Join(e.frozen, c.Pos[1]+".zap")
			e.mu.Lock()
			e.files[c.Pos[1]] = p
			e.mu.Unlock()
			st, err := os.Stat(p)
			if err != nil {
				return "err:missing-frozen-file", true
			}
			return fmt.Sprintf("ok size=%d", st.Size()), true
		case "rmfile":
			return "", false
		}
		if c.Op == "open" || c.Op == "footer" || c.Op == "dumpfile" {
			name := c.Pos[len(c.Pos)-1]
			if c.Op != "open" {
				name = c.Pos[0]
			}
			e.mu.Lock()
			if _, ok := e.files[name]; !ok {
				e.files[name] = filepath.Join(e.frozen, name+".zap")
			}
			e.mu.Unlock()
		}
	}
	switch c.Op {
	case "cfg":
		if v, ok := c.KV["chunkmode"]; ok {
			n, _ := strconv.Atoi(v)
			e.chunkMode = uint32(n)
		}
		if v, ok := c.KV["dvchunk"]; ok {
			n, _ := strconv.Atoi(v)
			zap.LegacyChunkMode = uint32(n)
		}
		if v, ok := c.KV["mergebuf"]; ok {
			n, _ := strconv.Atoi(v)
			zap.DefaultFileMergerBufferSize = n
		}
		return "", false
	case "validator":
		// validator none | reject:<field>
		arg := c.Pos[0]
		if arg == "none" {
			zap.ValidateDocFields = func(field index.Field) error { return nil }
		} else {
			name := strings.TrimPrefix(arg, "reject:")
			zap.ValidateDocFields = func(field index.Field) error {
				if field.Name() == name {
					return fmt.Errorf("verif-validate: field %s rejected", name)
				}
				return nil
			}
		}
		return "", false
	case "build":
		return e.doBuild(c), true
	case "persist":
		return e.doPersist(c), true
	case "writeto":
		return e.doWriteTo(c), true
	case "cmpfile":
		fb, err := os.ReadFile(e.path(c.Pos[0]))
		if err != nil {
			return "err:other", true
		}
		return "same=" + b01(bytes.Equal(fb, e.bufs[c.Pos[1]])), true
	case "corruptdict":
		// corruptdict <newfile> <file> <field> how=ver|len0: a copy of the file in which the term
		// dictionary of one field no longer loads (the format has no per-section checksum and Open
		// does not verify the footer CRC, so such a file opens)
		fb, err := os.ReadFile(e.path(c.Pos[1]))
		if err != nil {
			return "err:other", true
		}
		sg, err := (&zap.ZapPlugin{}).Open(e.path(c.Pos[1]))
		if err != nil {
			return errKind(err), true
		}
		addr, err := sg.(*zap.Segment).DictAddr(c.Pos[2])
		sg.Close()
		if err != nil || addr == 0 || addr >= uint64(len(fb)) {
			return "nodict", true
		}
		vlen, n := binary.Uvarint(fb[addr:])
		if n <= 0 || vlen < 16 {
			return "nodict", true
		}
		switch c.str("how", "ver") {
		case "len0":
			// the length varint rewritten as a (non-minimal) zero of the same width
			for k := 0; k < n-1; k++ {
				fb[int(addr)+k] = 0x80
			}
			fb[int(addr)+n-1] = 0
		default:
			for k := 0; k < 8; k++ {
				fb[int(addr)+n+k] = 0xff // the FST's format version
			}
		}
		if err := os.WriteFile(e.path(c.Pos[0]), fb, 0600); err != nil {
			return "err:io", true
		}
		return "ok", true
	case "footer":
		return e.doFooter(c), true
	case "dumpfile":
		return e.doDumpFile(c), true
	case "open":
		fp := e.path(c.Pos[1])
		sg, err := (&zap.ZapPlugin{}).Open(fp)
		if err != nil {
			return errKind(err), true
		}
		e.mu.Lock()
		e.segs[c.Pos[0]] = &segEntry{seg: sg, path: fp}
		e.mu.Unlock()
		return "ok", true
	case "close":
		s := e.segs[c.Pos[0]]
		err := s.seg.Close()
		s.closed = true
		return errKind(err), true
	case "merge":
		return e.doMerge(c, gsuffix), true
	case "rmfile":
		os.Remove(e.path(c.Pos[0]))
		return "", false
	case "showkept":
		// field names obtained earlier (possibly from a segment that has been closed since)
		e.mu.Lock()
		names := e.kept[c.Pos[0]]
		e.mu.Unlock()
		cp := make([]string, len(names))
		for i, n := range names {
			cp[i] = string(append([]byte(nil), n...)) // reading the bytes is the point
		}
		return strList(cp), true
	case "q":
		return e.doQuery(c, sl), true
	case "enc":
		return e.doEnc(c), true
	case "poolprobe":
		return "doubled=" + b01(zap.VerifVisitCtxPoolDoubled()), true
	case "interimpeek":
		return "used=" + b01(zap.VerifInterimPoolPeek()), true
	case "ref":
		return e.doRef(c), true
	case "note", "endpar":
		return "", false
	}
	if obs, ok, handled := e.execVec(c, sl); handled {
		return obs, ok
	}
	return "scripterror:unknown-op:" + c.Op, true
}

func (e *Exec) doBuild(c *Cmd) string {
	b, ok := e.batches[c.Pos[1]]
	if !ok {
		return "scripterror:nobatch"
	}
	mode := e.chunkMode
	if v, ok := c.KV["mode"]; ok {
		n, _ := strconv.Atoi(v)
		mode = uint32(n)
	}
	docs := materialize(b)
	var sg segment.Segment
	var err error
	if mode == zap.DefaultChunkMode {
		// the public entry point whenever it does the same thing
		sg, _, err = (&zap.ZapPlugin{}).New(docs)
	} else {
		sg, _, err = zap.VerifNew(docs, mode)
	}
	if err != nil {
		return errKind(err)
	}
	e.mu.Lock()
	e.segs[c.Pos[0]] = &segEntry{seg: sg}
	e.mu.Unlock()
	e.stat("build")
	return "ok"
}

// withFsizeLimit runs f with RLIMIT_FSIZE lowered to limit bytes.
func withFsizeLimit(limit int, f func() error) error {
	var old syscall.Rlimit
	if err := syscall.Getrlimit(syscall.RLIMIT_FSIZE, &old); err != nil {
		return err
	}
	nl := syscall.Rlimit{Cur: uint64(limit), Max: old.Max}
	if err := syscall.Setrlimit(syscall.RLIMIT_FSIZE, &nl); err != nil {
		return err
	}
	defer syscall.Setrlimit(syscall.RLIMIT_FSIZE, &old)
	return f()
}

func (e *Exec) doPersist(c *Cmd) string {
	sg, err := e.seg(c.Pos[0])
	if err != nil {
		return "scripterror:noseg"
	}
	up, ok := sg.(segment.UnpersistedSegment)
	if !ok {
		return "scripterror:notunpersisted"
	}
	p := e.path(c.Pos[1])
	if c.str("keep", "0") != "1" {
		os.Remove(p)
	}
	if v, ok := c.KV["fsize"]; ok {
		limit, _ := strconv.Atoi(v)
		full := c.num("full", -1)
		if c.str("devfull", "0") == "1" {
			// a device without space (a genuine ENOSPC, not the EFBIG of a size limit): the
			// path is a link to /dev/full; nothing may be left at the path afterwards
			os.Remove(p)
			if os.Symlink("/dev/full", p) != nil {
				return fmt.Sprintf("err:io file=0 limit=%d full=%d nodevfull=1", limit, full)
			}
			err = up.Persist(p)
			left := pathExists(p)
			os.Remove(p)
			return fmt.Sprintf("%s file=%s limit=%d full=%d devfull=1", errKind(err), b01(left), limit, full)
		}
		err = withFsizeLimit(limit, func() error { return up.Persist(p) })
		return fmt.Sprintf("%s file=%s limit=%d full=%d", errKind(err), b01(fileExists(p)), limit, full)
	}
	err = up.Persist(p)
	if err != nil {
		return errKind(err) + " file=" + b01(fileExists(p))
	}
	st, _ := os.Stat(p)
	return fmt.Sprintf("ok size=%d", st.Size())
}

type failWriter struct {
	buf   bytes.Buffer
	limit int  // fail once more than limit bytes would have been written; <0 never
	once  bool // a transient fault: only the one write that crosses the limit fails, later writes succeed
	temp  bool // the error says it is temporary (EAGAIN-like: Temporary() == true)
	eof   bool // a destination of fixed capacity that reports exhaustion with io.EOF (as a closed pipe does)
	fired bool
}

// tempErr: a write error that calls itself temporary
type tempErr struct{}

func (tempErr) Error() string   { return "verif-io: injected temporary write failure" }
func (tempErr) Temporary() bool { return true }
func (tempErr) Timeout() bool   { return false }

func (w *failWriter) Write(p []byte) (int, error) {
	if w.limit >= 0 && w.buf.Len()+len(p) > w.limit && !(w.once && w.fired) {
		w.fired = true
		n := w.limit - w.buf.Len()
		if n < 0 {
			n = 0
		}
		w.buf.Write(p[:n])
		if w.temp {
			return n, tempErr{}
		}
		if w.eof {
			return n, io.EOF
		}
		return n, errors.New("verif-io: injected write failure")
	}
	return w.buf.Write(p)
}

func (e *Exec) doWriteTo(c *Cmd) string {
	sg, err := e.seg(c.Pos[0])
	if err != nil {
		return "scripterror:noseg"
	}
	sb, ok := sg.(*zap.SegmentBase)
	if !ok {
		// a segment opened from a file streams itself through the promoted method
		if zs, isSeg := sg.(*zap.Segment); isSeg {
			sb = &zs.SegmentBase
		} else {
			return "scripterror:notbase"
		}
	}
	if c.str("nilw", "0") == "1" {
		// no writer at all: refused with an error, and nothing else happens
		var n int64
		if zs, isSeg := sg.(*zap.Segment); isSeg {
			n, err = zs.WriteTo(nil)
		} else {
			n, err = sb.WriteTo(nil)
		}
		return fmt.Sprintf("%s n=%d", errKind(err), n)
	}
	if c.str("osfile", "0") == "1" {
		// the destination is an *os.File that already holds other content (longer than the segment) and
		// stands at its end: the segment is appended there, and what was in front of it stays as it was
		f, ferr := os.CreateTemp(e.dir, "wt-osfile-*")
		if ferr != nil {
			return "scripterror:tmpfile"
		}
		defer os.Remove(f.Name())
		defer f.Close()
		prefix := bytes.Repeat([]byte{0xA5}, c.num("prefix", 1<<20))
		if _, ferr = f.Write(prefix); ferr != nil {
			return "scripterror:tmpfile"
		}
		n, werr := segWriteTo(sg, sb, f)
		if werr != nil {
			return fmt.Sprintf("%s fail=-1 full=-1", errKind(werr))
		}
		all, rerr := os.ReadFile(f.Name())
		if rerr != nil || len(all) < len(prefix) || !bytes.Equal(all[:len(prefix)], prefix) {
			return fmt.Sprintf("earlier-content-damaged n=%d filelen=%d prefix=%d", n, len(all), len(prefix))
		}
		e.bufs[c.Pos[1]] = append([]byte(nil), all[len(prefix):]...)
		return fmt.Sprintf("ok n=%d len=%d fail=-1 full=-1", n, len(all)-len(prefix))
	}
	fw := &failWriter{limit: c.num("fail", -1), once: c.str("once", "0") == "1", temp: c.str("temp", "0") == "1", eof: c.str("eof", "0") == "1"}
	var n int64
	if bs := c.num("bufio", 0); bs > 0 {
		// the caller's own buffered writer (of any size), flushed by the caller afterwards
		bw := bufio.NewWriterSize(fw, bs)
		n, err = segWriteTo(sg, sb, bw)
		if err == nil {
			err = bw.Flush()
		}
	} else {
		n, err = segWriteTo(sg, sb, fw)
	}
	if err != nil {
		kind := errKind(err)
		if fw.eof && errors.Is(err, io.EOF) {
			kind = "err:io" // the destination's own error, handed back
		}
		return fmt.Sprintf("%s fail=%d full=%d", kind, fw.limit, c.num("full", -1))
	}
	e.bufs[c.Pos[1]] = append([]byte(nil), fw.buf.Bytes()...)
	return fmt.Sprintf("ok n=%d len=%d fail=%d full=%d", n, fw.buf.Len(), fw.limit, c.num("full", -1))
}

// segWriteTo calls WriteTo on the segment object itself (for an opened segment: the method promoted
// from its embedded base, or an override of it)
func segWriteTo(sg segment.Segment, sb *zap.SegmentBase, w io.Writer) (int64, error) {
	if zs, ok := sg.(*zap.Segment); ok {
		return zs.WriteTo(w)
	}
	return sb.WriteTo(w)
}

// doFooter prints the raw footer fields of a file plus the CRC-32 the harness
// computes over all preceding bytes with Go's hash/crc32, and the file hex when
// small (the Lean driver recomputes the CRC with its own implementation).
func (e *Exec) doFooter(c *Cmd) string {
	var data []byte
	if b, ok := e.bufs[c.Pos[0]]; ok {
		data = b
	} else {
		var err error
		data, err = os.ReadFile(e.path(c.Pos[0]))
		if err != nil {
			return "err:other"
		}
	}
	if len(data) < zap.FooterSize {
		return "short"
	}
	crc := crc32.ChecksumIEEE(data[:len(data)-4])
	s := fmt.Sprintf("len=%d gocrc=%d foot=%s", len(data), crc, hx(data[len(data)-zap.FooterSize:]))
	if len(data) <= c.num("hexmax", 4096) {
		s += " body=" + hx(data[:len(data)-zap.FooterSize])
	}
	return s
}

type countReporter struct {
	n       int
	closeAt int
	ch      chan struct{}
	closed  bool
	// transient write faults: once `liftAt` bytes have been reported the size limit is lifted again
	total  uint64
	liftAt uint64
	lifted bool
	oldLim syscall.Rlimit
	path   string
}

func fileSize(p string) int64 {
	st, err := os.Stat(p)
	if err != nil {
		return -1
	}
	return st.Size()
}

func (r *countReporter) ReportBytesWritten(nb uint64) {
	r.n++
	r.total += nb
	if r.liftAt > 0 && !r.lifted && r.total >= r.liftAt && fileSize(r.path) >= int64(r.liftAt) {
		// the device has room again: the failure was a transient one
		syscall.Setrlimit(syscall.RLIMIT_FSIZE, &r.oldLim)
		r.lifted = true
	}
	if r.closeAt > 0 && r.n == r.closeAt && !r.closed {
		close(r.ch)
		r.closed = true
	}
}

func (e *Exec) doMerge(c *Cmd, gsuffix string) string {
	names := parseStrList(c.str("segs", "-"))
	segs := make([]segment.Segment, len(names))
	for i, n := range names {
		s, err := e.seg(n)
		if err != nil {
			return "scripterror:noseg"
		}
		segs[i] = s
	}
	var drops []*roaring.Bitmap
	dspec := strings.Split(c.str("drops", ""), "|")
	for i := range names {
		sp := "nil"
		if i < len(dspec) && dspec[i] != "" {
			sp = dspec[i]
		}
		bm, err := bitmapOf(sp)
		if err != nil {
			return "scripterror:drops"
		}
		drops = append(drops, bm)
	}
	p := e.path(c.Pos[0] + gsuffix)
	if c.str("keep", "0") != "1" {
		os.Remove(p)
	}
	mode := e.chunkMode
	if v, ok := c.KV["mode"]; ok {
		n, _ := strconv.Atoi(v)
		mode = uint32(n)
	}
	ch := make(chan struct{})
	cl := c.str("close", "never")
	if strings.HasPrefix(cl, "beforebuf:") {
		// a buffered channel closed with values still pending in it is closed all the same
		nb, _ := strconv.Atoi(strings.TrimPrefix(cl, "beforebuf:"))
		ch = make(chan struct{}, nb)
		for k := 0; k < nb; k++ {
			ch <- struct{}{}
		}
	}
	engOp, engN := "", 0
	rep := &countReporter{ch: ch}
	switch {
	case cl == "before" || strings.HasPrefix(cl, "beforebuf:"):
		close(ch)
		rep.closed = true
	case strings.HasPrefix(cl, "report:"):
		rep.closeAt, _ = strconv.Atoi(strings.TrimPrefix(cl, "report:"))
	case strings.HasPrefix(cl, "engine:"):
		// engine:<op>:<n>: the channel is closed from inside the n-th engine call of that kind, i.e.
		// while the vector section is being merged
		parts := strings.SplitN(strings.TrimPrefix(cl, "engine:"), ":", 2)
		if len(parts) == 2 {
			engOp = parts[0]
			engN, _ = strconv.Atoi(parts[1])
			e.vecArmHook(engOp, engN, func() { close(ch) })
		}
	}
	var maps [][]uint64
	var size uint64
	var err error
	call := func() error {
		if mode == zap.DefaultChunkMode {
			// the public entry point whenever it does the same thing
			maps, size, err = (&zap.ZapPlugin{}).Merge(segs, drops, p, ch, rep)
		} else {
			maps, size, err = zap.VerifMerge(segs, drops, p, mode, ch, rep)
		}
		return err
	}
	extra := ""
	devfull := false
	if v, ok := c.KV["fsize"]; ok {
		limit, _ := strconv.Atoi(v)
		if c.str("devfull", "0") == "1" && os.Symlink("/dev/full", p) == nil {
			devfull = true
			call()
		} else {
			if c.str("transient", "0") == "1" {
				syscall.Getrlimit(syscall.RLIMIT_FSIZE, &rep.oldLim)
				rep.liftAt = uint64(limit)
				rep.path = p
			}
			withFsizeLimit(limit, call)
		}
		extra = fmt.Sprintf(" limit=%d full=%d", limit, c.num("full", -1))
	} else if v, ok := c.KV["engfail"]; ok {
		// engfail=<op>:<n>
		parts := strings.SplitN(v, ":", 2)
		n, _ := strconv.Atoi(parts[1])
		e.vecArmFault(parts[0], n)
		call()
		// whether the armed fault was reached is read off the engine's call counters, never
		// inferred from the outcome (a swallowed engine error must not look like "did not fire")
		extra = " fired=" + b01(e.vecFired(parts[0], n)) + " " + e.vecAfterFault()
	} else {
		call()
	}
	if engOp != "" {
		extra += " fired=" + b01(e.vecFired(engOp, engN)) + " " + e.vecAfterFault()
	}
	if cl != "never" {
		extra += fmt.Sprintf(" close=%s reports=%d", cl, rep.n)
	}
	if devfull {
		left := pathExists(p)
		os.Remove(p)
		return fmt.Sprintf("%s file=%s%s devfull=1", errKind(err), b01(left), extra)
	}
	if err != nil {
		return fmt.Sprintf("%s file=%s%s", errKind(err), b01(fileExists(p)), extra)
	}
	st, serr := os.Stat(p)
	szeq := serr == nil && uint64(st.Size()) == size
	parts := make([]string, len(maps))
	for i, m := range maps {
		if len(m) == 0 {
			parts[i] = "-"
			continue
		}
		xs := make([]string, len(m))
		for j, v := range m {
			if v == ^uint64(0) {
				xs[j] = "x"
			} else {
				xs[j] = strconv.FormatUint(v, 10)
			}
		}
		parts[i] = strings.Join(xs, ".")
	}
	ms := strings.Join(parts, "|")
	if len(parts) == 0 {
		ms = "none"
	}
	if maps == nil {
		ms = "nil"
	}
	e.stat("merge")
	if c.str("digest", "0") == "1" {
		extra += " digest=" + fileDigest(p)
	}
	return fmt.Sprintf("ok maps=%s szeq=%s reports=%d%s", ms, b01(szeq), rep.n, extra)
}

func (e *Exec) doRef(c *Cmd) string {
	// ref addref|decref|close|refs|mapped <seg>
	s := e.segs[c.Pos[1]]
	zs, isSeg := s.seg.(*zap.Segment)
	switch c.Pos[0] {
	case "addref":
		for k := c.num("n", 1); k > 0; k-- {
			s.seg.AddRef()
		}
		return "ok"
	case "decref":
		var err error
		for k := c.num("n", 1); k > 0; k-- {
			if e1 := s.seg.DecRef(); e1 != nil {
				err = e1
			}
		}
		return errKind(err)
	case "close":
		return errKind(s.seg.Close())
	case "sabotage":
		// the mapping is taken away behind the segment's back (what any holder of Data() can do):
		// the final release then meets a failing munmap
		if !isSeg {
			return "inmem"
		}
		mm := mmap.MMap(zs.Data())
		if err := mm.Unmap(); err != nil {
			return "err:unmap"
		}
		return "ok"
	case "refs":
		if !isSeg {
			return "refs=na"
		}
		return fmt.Sprintf("refs=%d", zap.VerifRefs(zs))
	case "mapped":
		return fmt.Sprintf("maps=%d fds=%d", countProcLines("/proc/self/maps", s.path), countFds(s.path))
	}
	return "scripterror:ref"
}

func countProcLines(file, needle string) int {
	data, err := os.ReadFile(file)
	if err != nil {
		return -1
	}
	n := 0
	for _, l := range strings.Split(string(data), "\n") {
		if strings.Contains(l, needle) {
			n++
		}
	}
	return n
}

func countFds(path string) int {
	ents, err := os.ReadDir("/proc/self/fd")
	if err != nil {
		return -1
	}
	n := 0
	for _, en := range ents {
		t, err := os.Readlink("/proc/self/fd/" + en.Name())
		if err == nil && t == path {
			n++
		}
	}
	return n
}

// ---------------------------------------------------------------- queries

func locsString(locs []segment.Location) string {
	if len(locs) == 0 {
		return "-"
	}
	parts := make([]string, len(locs))
	for i, l := range locs {
		src := l.Field()
		if src == "" {
			src = "~"
		}
		parts[i] = fmt.Sprintf("%s/%d/%d/%d/%s", src, l.Pos(), l.Start(), l.End(), u64List(l.ArrayPositions(), "."))
	}
	return strings.Join(parts, ";")
}

func hitString(p segment.Posting) string {
	var norm uint64
	if zp, ok := p.(*zap.Posting); ok {
		norm = zp.NormUint64()
	}
	return fmt.Sprintf("%d:%d:%d:%s", p.Number(), p.Frequency(), norm, locsString(p.Locations()))
}

func (e *Exec) doQuery(c *Cmd, sl *slots) string {
	kind := c.Pos[0]
	sg, err := e.seg(c.Pos[1])
	if err != nil {
		return "scripterror:noseg"
	}
	switch kind {
	case "count":
		return strconv.FormatUint(sg.Count(), 10)
	case "fields":
		return strList(sg.Fields())
	case "dvfields":
		dv, ok := sg.(segment.DocValueVisitable)
		if !ok {
			return "scripterror:nodv"
		}
		fs, err := dv.VisitableDocValueFields()
		if err != nil {
			return errKind(err)
		}
		// in the order the segment gives them: both loaders register the fields in field-number
		// order (no Go map decides it), so the order is part of what must coincide
		return strList(append([]string(nil), fs...))
	case "post":
		return e.qPost(c, sg, sl)
	case "dict":
		return e.qDict(c, sg)
	case "stored":
		return e.qStored(c, sg)
	case "docid":
		n, _ := strconv.ParseUint(c.Pos[2], 10, 64)
		id, err := sg.DocID(n)
		if err != nil {
			return errKind(err)
		}
		if id == nil {
			return "nil"
		}
		return hx(id)
	case "samesize":
		// q samesize <seg> <seg2>: the generator's premise that two in-memory segments have images of the
		// same length (a check of the generator, not of the library)
		s2, err := e.seg(c.Pos[2])
		if err != nil {
			return "scripterror:noseg"
		}
		m1, _, _, _, _, _ := zap.VerifSegmentMem(sg)
		m2, _, _, _, _, _ := zap.VerifSegmentMem(s2)
		return b01(len(m1) == len(m2))
	case "docids":
		// q docids <seg> n=<count> visit=<doc>: DocID of documents 0..n-1, every answer KEPT; then one
		// more DocID and a stored-field visit of <doc>; only then are the kept answers looked at
		n := c.num("n", 0)
		kept := make([][]byte, n)
		for d := 0; d < n; d++ {
			id, err := sg.DocID(uint64(d))
			if err != nil {
				return errKind(err)
			}
			kept[d] = id
		}
		v := uint64(c.num("visit", 0))
		sg.DocID(v)
		sg.VisitStoredFields(v, func(string, byte, []byte, []uint64) bool { return true })
		parts := make([]string, n)
		for d := range kept {
			if kept[d] == nil {
				parts[d] = "nil"
			} else {
				parts[d] = hx(kept[d])
			}
		}
		return strList(parts)
	case "docnums":
		ids, err := unhxList(c.str("ids", "-"))
		if err != nil {
			return "scripterror:ids"
		}
		ss := make([]string, len(ids))
		for i, b := range ids {
			ss[i] = string(b)
		}
		bm, err := sg.DocNumbers(ss)
		if err != nil {
			return errKind(err)
		}
		out := bmList(bm)
		if c.str("mut", "0") == "1" {
			// the answer is the caller's: bleve adopts it as a deletion set and adds to it
			bm.Add(4000000 + uint32(len(ss)))
		}
		return out
	case "thesaddr":
		zs, ok := sg.(*zap.Segment)
		if !ok {
			return "inmem"
		}
		if _, err := zs.ThesaurusAddr(c.Pos[2]); err != nil {
			return "err"
		}
		return "ok"
	case "keepfields":
		// the field names are kept as the segment handed them out (no copy) and shown later
		e.mu.Lock()
		e.kept[c.Pos[2]] = sg.Fields()
		e.mu.Unlock()
		return "ok"
	case "dictpair":
		return e.qDictPair(c, sg)
	case "header":
		// what an opened segment says about its own file: the footer fields through the accessors
		zs, ok := sg.(*zap.Segment)
		if !ok {
			return "inmem"
		}
		crcok := 0
		if raw, err := os.ReadFile(zs.Path()); err == nil && len(raw) >= 4 {
			if binary.BigEndian.Uint32(raw[len(raw)-4:]) == zs.CRC() && bytes.Equal(zs.Data(), raw) {
				crcok = 1
			}
		}
		return fmt.Sprintf("mode=%d ver=%d docs=%d crcok=%d", zs.ChunkMode(), zs.Version(), zs.NumDocs(), crcok)
	case "byteswritten":
		if r, ok := sg.(interface{ BytesWritten() uint64 }); ok {
			return fmt.Sprint(r.BytesWritten())
		}
		return "scripterror:nostat"
	case "dv", "dvspec":
		// dvspec: the same visit; the driver compares it with the source document named by src=
		return e.qDv(c, sg, sl)
	case "thesterms":
		return e.qThesTerms(c, sg)
	case "thes":
		return e.qThes(c, sg, sl)
	}
	return "scripterror:unknown-query"
}

func (e *Exec) qPost(c *Cmd, sg segment.Segment, sl *slots) string {
	field := c.Pos[2]
	term, err := unhx(c.Pos[3])
	if err != nil {
		return "scripterror:term"
	}
	ex, err := bitmapOf(c.str("ex", "nil"))
	if err != nil {
		return "scripterror:ex"
	}
	fl := c.str("fl", "111")
	f, n, l := fl[0] == '1', fl[1] == '1', fl[2] == '1'
	dict, err := sg.Dictionary(field)
	if err != nil {
		return errKind(err)
	}
	var prePL segment.PostingsList
	plSlot := c.str("pl", "-")
	if plSlot != "-" {
		prePL = sl.pls[plSlot]
	}
	var pl segment.PostingsList
	if c.str("relist", "0") == "1" && prePL != nil {
		// the list object obtained earlier is used again as it is (no new lookup)
		pl = prePL
	} else {
		pl, err = dict.PostingsList(term, ex, prePL)
		if err != nil {
			return errKind(err)
		}
	}
	if plSlot != "-" {
		sl.pls[plSlot] = pl
	}
	cnt := pl.Count()
	var preIt segment.PostingsIterator
	itSlot := c.str("it", "-")
	if itSlot != "-" {
		preIt = sl.its[itSlot]
	}
	it := pl.Iterator(f, n, l, preIt)
	if itSlot != "-" {
		sl.its[itSlot] = it
	}
	rep := "none"
	live := "-"
	if oi, ok := it.(segment.OptimizablePostingsIterator); ok {
		if d, ok := oi.DocNum1Hit(); ok {
			rep = "1hit"
			live = strconv.FormatUint(d, 10)
		} else if bm := oi.ActualBitmap(); bm != nil {
			rep = "bm"
			live = bmList(bm)
		}
		if zi, ok := it.(*zap.PostingsIterator); ok && rep == "none" {
			// distinguish an exhausted/excluded 1-hit iterator from the empty one
			_ = zi
		}
		if rs, ok := c.KV["replace"]; ok && rep == "bm" {
			var nb *roaring.Bitmap
			if rs == "*" {
				nb = oi.ActualBitmap().Clone()
			} else if strings.HasPrefix(rs, "sub:") {
				// a subset of the actual bitmap: keep the i-th live doc iff bit (i mod 16) of the mask is set
				mask, _ := strconv.Atoi(rs[4:])
				nb = roaring.New()
				for i, d := range oi.ActualBitmap().ToArray() {
					if mask&(1<<(uint(i)%16)) != 0 {
						nb.Add(d)
					}
				}
			} else {
				return "scripterror:replace"
			}
			oi.ReplaceActual(nb)
		}
	}
	e.stat("post.rep." + rep)
	if live == "-" {
		// an empty described set is reported uniformly, whichever object represents it
		rep = "none"
	}
	var hits []string
	for _, op := range parseStrList(c.str("ops", "-")) {
		var p segment.Posting
		var err error
		if op == "N" {
			p, err = it.Next()
		} else {
			t, _ := strconv.ParseUint(op[1:], 10, 64)
			p, err = it.Advance(t)
		}
		if err != nil {
			hits = append(hits, errKind(err))
			continue
		}
		if p == nil {
			hits = append(hits, "nil")
		} else {
			hits = append(hits, hitString(p))
		}
	}
	hs := "-"
	if len(hits) > 0 {
		hs = strings.Join(hits, ",")
	}
	return fmt.Sprintf("cnt=%d rep=%s live=%s hits=%s", cnt, rep, live, hs)
}

type exactAut struct{ term []byte }

func (a *exactAut) Start() int               { return 0 }
func (a *exactAut) IsMatch(s int) bool       { return s == len(a.term) }
func (a *exactAut) CanMatch(s int) bool      { return s >= 0 }
func (a *exactAut) WillAlwaysMatch(int) bool { return false }
func (a *exactAut) Accept(s int, b byte) int {
	if s >= 0 && s < len(a.term) && a.term[s] == b {
		return s + 1
	}
	return -1
}

type prefixAut struct{ term []byte }

func (a *prefixAut) Start() int                 { return 0 }
func (a *prefixAut) IsMatch(s int) bool         { return s == len(a.term) }
func (a *prefixAut) CanMatch(s int) bool        { return s >= 0 }
func (a *prefixAut) WillAlwaysMatch(s int) bool { return s == len(a.term) }
func (a *prefixAut) Accept(s int, b byte) int {
	if s == len(a.term) {
		return s
	}
	if s >= 0 && s < len(a.term) && a.term[s] == b {
		return s + 1
	}
	return -1
}

type noneAut struct{}

func (noneAut) Start() int               { return 0 }
func (noneAut) IsMatch(int) bool         { return false }
func (noneAut) CanMatch(int) bool        { return false }
func (noneAut) WillAlwaysMatch(int) bool { return false }
func (noneAut) Accept(int, byte) int     { return 0 }

func mkAutomaton(spec string) (segment.Automaton, error) {
	switch {
	case spec == "all":
		return nil, nil
	case spec == "none":
		return noneAut{}, nil
	case strings.HasPrefix(spec, "exact:"):
		t, err := unhx(spec[6:])
		return &exactAut{t}, err
	case strings.HasPrefix(spec, "prefix:"):
		t, err := unhx(spec[7:])
		return &prefixAut{t}, err
	case strings.HasPrefix(spec, "re:"):
		t, err := unhx(spec[3:])
		if err != nil {
			return nil, err
		}
		return vregexp.New(string(t))
	case strings.HasPrefix(spec, "lev:"):
		p := strings.Split(spec, ":")
		t, err := unhx(p[1])
		if err != nil {
			return nil, err
		}
		d, _ := strconv.Atoi(p[2])
		lb, err := levenshtein.NewLevenshteinAutomatonBuilder(uint8(d), false)
		if err != nil {
			return nil, err
		}
		return lb.BuildDfa(string(t), uint8(d))
	}
	return nil, fmt.Errorf("bad automaton %q", spec)
}

func autAccepts(a segment.Automaton, term []byte) bool {
	if a == nil {
		return true
	}
	s := a.Start()
	for _, b := range term {
		s = a.Accept(s, b)
	}
	return a.IsMatch(s)
}

func boundOf(s string) ([]byte, error) {
	if s == "*" {
		return nil, nil
	}
	return unhx(s)
}

func (e *Exec) qDict(c *Cmd, sg segment.Segment) string {
	dict, err := sg.Dictionary(c.Pos[2])
	if err != nil {
		return errKind(err)
	}
	a, err := mkAutomaton(c.str("aut", "all"))
	if err != nil {
		return "scripterror:aut"
	}
	lo, err1 := boundOf(c.str("lo", "*"))
	hi, err2 := boundOf(c.str("hi", "*"))
	if err1 != nil || err2 != nil {
		return "scripterror:bound"
	}
	var va vellum.Automaton
	if a != nil {
		va = a
	}
	itr := dict.AutomatonIterator(va, lo, hi)
	var ents []string
	for {
		en, err := itr.Next()
		if err != nil {
			return errKind(err)
		}
		if en == nil {
			break
		}
		ents = append(ents, fmt.Sprintf("%s:%d", hx([]byte(en.Term)), en.Count))
	}
	probe, err := unhxList(c.str("probe", "-"))
	if err != nil {
		return "scripterror:probe"
	}
	bits := ""
	for _, p := range probe {
		ok, err := dict.Contains(p)
		if err != nil {
			return errKind(err)
		}
		bits += b01(ok)
	}
	if bits == "" {
		bits = "-"
	}
	es := "-"
	if len(ents) > 0 {
		es = strings.Join(ents, ",")
	}
	return fmt.Sprintf("ents=%s contains=%s card=%d", es, bits, dict.Cardinality())
}

func (e *Exec) qStored(c *Cmd, sg segment.Segment) string {
	n, _ := strconv.ParseUint(c.Pos[2], 10, 64)
	stop := -1
	if v := c.str("stop", "*"); v != "*" {
		stop, _ = strconv.Atoi(v)
	}
	var parts []string
	calls := 0
	hold := c.str("hold", "0") == "1"
	nest := c.num("nest", -1)
	corrupt := false
	err := sg.VisitStoredFields(n, func(field string, typ byte, value []byte, pos []uint64) bool {
		calls++
		parts = append(parts, fmt.Sprintf("%s:%d:%s:%s", field, typ, hx(value), u64List(pos, ".")))
		if nest >= 0 && calls == 1 {
			// the visitor looks at another document of the same segment before it returns
			_ = sg.VisitStoredFields(uint64(nest), func(string, byte, []byte, []uint64) bool { return true })
			_, _ = sg.DocID(uint64(nest))
		}
		if hold {
			snapV := append([]byte(nil), value...)
			snapP := append([]uint64(nil), pos...)
			for k := 0; k < 20; k++ {
				runtime.Gosched()
			}
			if !bytes.Equal(snapV, value) || fmt.Sprint(snapP) != fmt.Sprint(pos) {
				corrupt = true
			}
		}
		return stop < 0 || calls < stop
	})
	if corrupt {
		return "corrupt-during-callback:" + strings.Join(parts, ";")
	}
	if err != nil {
		return errKind(err)
	}
	if len(parts) == 0 {
		return "-"
	}
	return strings.Join(parts, ";")
}

func (e *Exec) qDv(c *Cmd, sg segment.Segment, sl *slots) string {
	// q dv <seg> <stateSlot|-> fields=<list> doc=<n>
	dv, ok := sg.(segment.DocValueVisitable)
	if !ok {
		return "scripterror:nodv"
	}
	slot := c.Pos[2]
	var st segment.DocVisitState
	if slot != "-" {
		st = sl.dvs[slot]
	}
	fields := parseStrList(c.str("fields", "-"))
	doc := uint64(c.num("doc", 0))
	got := map[string][]string{}
	st2, err := dv.VisitDocValues(doc, fields, func(field string, term []byte) {
		got[field] = append(got[field], hx(term))
	}, st)
	if err != nil {
		return errKind(err)
	}
	if slot != "-" {
		sl.dvs[slot] = st2
	}
	var names []string
	for f := range got {
		names = append(names, f)
	}
	sort.Strings(names)
	var parts []string
	for _, f := range names {
		ts := got[f]
		sort.Strings(ts)
		parts = append(parts, f+"="+strings.Join(ts, ","))
	}
	if len(parts) == 0 {
		return "-"
	}
	return strings.Join(parts, ";")
}

// qDictPair: two iterators of ONE dictionary value alive at the same time, stepped alternately
// q dictpair <seg> <field> lo1= hi1= lo2= hi2=
func (e *Exec) qDictPair(c *Cmd, sg segment.Segment) string {
	dict, err := sg.Dictionary(c.Pos[2])
	if err != nil {
		return errKind(err)
	}
	var its [2]segment.DictionaryIterator
	for k := 0; k < 2; k++ {
		lo, err1 := boundOf(c.str(fmt.Sprintf("lo%d", k+1), "*"))
		hi, err2 := boundOf(c.str(fmt.Sprintf("hi%d", k+1), "*"))
		if err1 != nil || err2 != nil {
			return "scripterror:bound"
		}
		its[k] = dict.AutomatonIterator(nil, lo, hi)
	}
	var outs [2][]string
	done := [2]bool{}
	for !done[0] || !done[1] {
		for k := 0; k < 2; k++ {
			if done[k] {
				continue
			}
			en, err := its[k].Next()
			if err != nil {
				return errKind(err)
			}
			if en == nil {
				done[k] = true
				continue
			}
			outs[k] = append(outs[k], fmt.Sprintf("%s:%d", hx([]byte(en.Term)), en.Count))
		}
	}
	f := func(x []string) string {
		if len(x) == 0 {
			return "-"
		}
		return strings.Join(x, ",")
	}
	return fmt.Sprintf("a=%s b=%s", f(outs[0]), f(outs[1]))
}

func (e *Exec) qThesTerms(c *Cmd, sg segment.Segment) string {
	ts, ok := sg.(segment.ThesaurusSegment)
	if !ok {
		return "scripterror:nothes"
	}
	th, err := ts.Thesaurus(c.Pos[2])
	if err != nil {
		return errKind(err)
	}
	lo, err1 := boundOf(c.str("lo", "*"))
	hi, err2 := boundOf(c.str("hi", "*"))
	if err1 != nil || err2 != nil {
		return "scripterror:range"
	}
	var aut segment.Automaton
	if c.str("aut", "all") != "all" {
		a, err := mkAutomaton(c.str("aut", "all"))
		if err != nil {
			return "scripterror:aut"
		}
		aut = a
	}
	itr := th.AutomatonIterator(aut, lo, hi)
	var out [][]byte
	for {
		en, err := itr.Next()
		if err != nil {
			return errKind(err)
		}
		if en == nil {
			break
		}
		out = append(out, []byte(en.Term))
	}
	probe, _ := unhxList(c.str("probe", "-"))
	bits := ""
	for _, p := range probe {
		ok, err := th.Contains(p)
		if err != nil {
			return errKind(err)
		}
		bits += b01(ok)
	}
	if bits == "" {
		bits = "-"
	}
	return fmt.Sprintf("terms=%s contains=%s", hxList(out), bits)
}

func (e *Exec) qThes(c *Cmd, sg segment.Segment, sl *slots) string {
	ts, ok := sg.(segment.ThesaurusSegment)
	if !ok {
		return "scripterror:nothes"
	}
	th, err := ts.Thesaurus(c.Pos[2])
	if err != nil {
		return errKind(err)
	}
	term, err := unhx(c.Pos[3])
	if err != nil {
		return "scripterror:term"
	}
	ex, err := bitmapOf(c.str("ex", "nil"))
	if err != nil {
		return "scripterror:ex"
	}
	var preSL segment.SynonymsList
	slSlot := c.str("sl", "-")
	if slSlot != "-" {
		preSL = sl.sls[slSlot]
	}
	list, err := th.SynonymsList(term, ex, preSL)
	if err != nil {
		return errKind(err)
	}
	if slSlot != "-" {
		sl.sls[slSlot] = list
	}
	var preSI segment.SynonymsIterator
	siSlot := c.str("si", "-")
	if siSlot != "-" {
		preSI = sl.sis[siSlot]
	}
	it := list.Iterator(preSI)
	if siSlot != "-" {
		sl.sis[siSlot] = it
	}
	var pairs []string
	take := c.num("take", -1)
	for take < 0 || len(pairs) < take {
		s, err := it.Next()
		if err != nil {
			return errKind(err)
		}
		if s == nil {
			break
		}
		pairs = append(pairs, fmt.Sprintf("%s:%d", hx([]byte(s.Term())), s.Number()))
	}
	if take >= 0 {
		// an iteration abandoned early: which pairs come first is file-local, their number is not
		return fmt.Sprintf("n=%d", len(pairs))
	}
	sort.Strings(pairs)
	if len(pairs) == 0 {
		return "-"
	}
	return strings.Join(pairs, ",")
}

var _ = io.EOF

// expand turns a fault / cancellation / concurrency macro into plain commands
// (each printed with its observation), so that the transcript the Lean driver
// reads contains only primitive commands.
func (e *Exec) expand(c *Cmd, out *bufio.Writer) {
	emit := func(line string) {
		cc := parseLine(c.LineNo, line)
		fmt.Fprintln(out, cc.Raw)
		if obs, ok := e.safeExec(cc, e.sl, ""); ok {
			fmt.Fprintln(out, "r "+obs)
		}
	}
	switch c.Op {
	case "persistfaults":
		// persistfaults <seg> <file> [max=<n>]
		seg, file := c.Pos[0], c.Pos[1]
		sg, err := e.seg(seg)
		if err != nil {
			fmt.Fprintln(out, "r scripterror:noseg")
			return
		}
		p := e.path(file)
		os.Remove(p)
		if err := sg.(segment.UnpersistedSegment).Persist(p); err != nil {
			emit(fmt.Sprintf("persist %s %s", seg, file))
			return
		}
		st, _ := os.Stat(p)
		full := int(st.Size())
		os.Remove(p)
		limits := map[int]bool{0: true, 1: true, full - 1: true, full: true, full + 1: true}
		for b := 4096; b < full+4096; b += 4096 { // bufio default buffer: flush boundaries
			limits[b-1] = true
			limits[b] = true
			limits[b+1] = true
		}
		for i, l := range sortedInts(limits) {
			if l < 0 {
				continue
			}
			if i%3 == 1 {
				// a file from an earlier successful persist is already at the path
				emit(fmt.Sprintf("persist %s %s", seg, file))
				emit(fmt.Sprintf("persist %s %s fsize=%d full=%d keep=1", seg, file, l, full))
			} else {
				emit(fmt.Sprintf("persist %s %s fsize=%d full=%d", seg, file, l, full))
			}
		}
		emit(fmt.Sprintf("persist %s %s fsize=0 full=%d devfull=1", seg, file, full))
		emit(fmt.Sprintf("persist %s %s", seg, file))
	case "writetofaults":
		seg := c.Pos[0]
		sg, err := e.seg(seg)
		if err != nil {
			fmt.Fprintln(out, "r scripterror:noseg")
			return
		}
		fw := &failWriter{limit: -1}
		if _, err := sg.(*zap.SegmentBase).WriteTo(fw); err != nil {
			emit(fmt.Sprintf("writeto %s wtmp", seg))
			return
		}
		full := fw.buf.Len()
		step := c.num("step", 1)
		limits := map[int]bool{full - 1: true, full: true, full + 1: true}
		for l := 0; l <= full; l += step {
			limits[l] = true
		}
		for b := 4096; b < full+4096; b += 4096 {
			limits[b-1], limits[b], limits[b+1] = true, true, true
		}
		for _, l := range sortedInts(limits) {
			if l < 0 {
				continue
			}
			emit(fmt.Sprintf("writeto %s wtmp fail=%d full=%d", seg, l, full))
		}
		// the same into the caller's own buffered writer (smaller and larger than the 4096 bytes at
		// which bufio re-uses a writer instead of wrapping it), flushed by the caller: a fault in the
		// tail must come back from WriteTo or from that flush, and without a fault every byte arrives
		bsizes := []int{16, 1024, 4095, 4096, 8192}
		k := 0
		for _, l := range sortedInts(limits) {
			if l < 0 || (l < full-300 && l%7 != 0) {
				continue
			}
			emit(fmt.Sprintf("writeto %s wtmp fail=%d full=%d bufio=%d", seg, l, full, bsizes[k%len(bsizes)]))
			k++
		}
		for _, bs := range bsizes {
			emit(fmt.Sprintf("writeto %s wtmp bufio=%d", seg, bs))
		}
		// transient faults: exactly one write fails (the one that crosses the offset), every later
		// one succeeds - the failure must still come back to the caller
		for _, l := range sortedInts(limits) {
			if l < 0 || l >= full || (l%5 != 0 && l < full-60) {
				continue
			}
			emit(fmt.Sprintf("writeto %s wtmp fail=%d full=%d once=1", seg, l, full))
			emit(fmt.Sprintf("writeto %s wtmp fail=%d full=%d once=1 temp=1", seg, l, full))
			emit(fmt.Sprintf("writeto %s wtmp fail=%d full=%d eof=1", seg, l, full))
			if l%10 == 0 {
				emit(fmt.Sprintf("writeto %s wtmp fail=%d full=%d once=1 bufio=%d", seg, l, full, bsizes[(l/10)%len(bsizes)]))
			}
		}
	case "mergefaults", "mergecancel":
		file := c.Pos[0]
		base := fmt.Sprintf("merge %s segs=%s drops=%s digest=1", file, c.str("segs", "-"), c.str("drops", ""))
		// fault-free run first: learns the size / number of reports, and its content digest is the
		// reference every later successful run of this merge must reproduce
		cc := parseLine(c.LineNo, base)
		obs, _ := e.safeExec(cc, e.sl, "")
		fmt.Fprintln(out, cc.Raw)
		fmt.Fprintln(out, "r "+obs)
		if !strings.HasPrefix(obs, "ok") {
			return
		}
		st, _ := os.Stat(e.path(file))
		full := int(st.Size())
		reports := 0
		for _, t := range strings.Fields(obs) {
			if strings.HasPrefix(t, "reports=") {
				fmt.Sscanf(t, "reports=%d", &reports)
			}
		}
		if c.Op == "mergefaults" {
			bufsz := zap.DefaultFileMergerBufferSize
			if bufsz <= 0 {
				bufsz = 4096
			}
			limits := map[int]bool{0: true, full - 1: true, full: true, full + 1: true}
			maxPoints := c.num("max", 400)
			stepB := bufsz
			for (full/stepB)*3 > maxPoints {
				stepB += bufsz
			}
			for b := stepB; b < full+bufsz; b += stepB {
				limits[b-1], limits[b], limits[b+1] = true, true, true
			}
			for _, l := range sortedInts(limits) {
				if l < 0 {
					continue
				}
				if l%2 == 1 {
					emit(fmt.Sprintf("%s fsize=%d full=%d keep=1", base, l, full)) // an older file is at the path
				} else {
					emit(fmt.Sprintf("%s fsize=%d full=%d", base, l, full))
				}
			}
			emit(fmt.Sprintf("%s fsize=0 full=%d devfull=1", base, full))
			// transient failures (the limit is lifted as soon as it was hit) at every offset of the
			// tail of the file, where the fields section and the footer are written
			if tail := c.num("transienttail", 0); tail > 0 {
				for l := full - tail; l < full-16; l++ {
					if l > 0 {
						emit(fmt.Sprintf("%s fsize=%d full=%d transient=1", base, l, full))
					}
				}
			}
		} else {
			emit(base + " close=before")
			emit(base + " close=before keep=1") // an older output is at the path
			emit(base + " close=beforebuf:1")   // closed with values still pending in its buffer
			emit(base + " close=beforebuf:100000")
			step := 1
			for reports/step > c.num("max", 400) {
				step++
			}
			tailFull := c.num("tailfull", 0) // every report of the tail, where the sections are written
			for k := 1; k <= reports; k++ {
				if (k-1)%step != 0 && k <= reports-tailFull {
					continue
				}
				if k%2 == 0 {
					emit(fmt.Sprintf("%s close=report:%d keep=1", base, k)) // an older output is at the path
				} else {
					emit(fmt.Sprintf("%s close=report:%d", base, k))
				}
			}
			emit(fmt.Sprintf("%s close=report:%d", base, reports))
			emit(fmt.Sprintf("%s close=report:%d", base, reports+5))
			if c.str("faulttail", "0") == "1" {
				// a cancellation at the very end together with a write fault that only the last flush
				// meets (the file may hold all but its last 1 / 30 / 70 bytes)
				for _, k := range []int{reports - 3, reports - 1, reports, reports + 5} {
					for _, d := range []int{1, 30, 70} {
						if k > 0 && full-d > 0 {
							emit(fmt.Sprintf("%s close=report:%d fsize=%d full=%d", base, k, full-d, full))
						}
					}
				}
			}
		}
		emit(base)
	case "parbuild":
		// parbuild segs=s1,s2 batches=b1,b2 rounds=R : build concurrently, keep last round
		segs := parseStrList(c.str("segs", "-"))
		bs := parseStrList(c.str("batches", "-"))
		rounds := c.num("rounds", 1)
		res := make([]string, len(segs))
		for r := 0; r < rounds; r++ {
			var wg sync.WaitGroup
			for i := range segs {
				wg.Add(1)
				go func(i int) {
					defer wg.Done()
					cc := parseLine(c.LineNo, fmt.Sprintf("build %s %s", segs[i], bs[i]))
					obs, _ := e.safeExec(cc, newSlots(), "")
					res[i] = obs
				}(i)
			}
			wg.Wait()
		}
		for i := range segs {
			fmt.Fprintf(out, "build %s %s\n", segs[i], bs[i])
			fmt.Fprintln(out, "r "+res[i])
		}
	}
}

func sortedInts(m map[int]bool) []int {
	out := make([]int, 0, len(m))
	for k := range m {
		out = append(out, k)
	}
	sort.Ints(out)
	return out
}

// fileDigest opens a segment file with the current reader and hashes its complete content as
// seen through the API (fields, dictionaries, postings with all details, stored fields, doc
// values), so that two outputs of the same merge can be compared although their bytes may
// differ (sections are written in map order).
func fileDigest(path string) string {
	sg, err := (&zap.ZapPlugin{}).Open(path)
	if err != nil {
		return "openerr"
	}
	defer sg.Close()
	h := crc32.NewIEEE()
	w := func(format string, a ...interface{}) { fmt.Fprintf(h, format, a...) }
	defer func() { recover() }()
	w("count=%d fields=%v\n", sg.Count(), sg.Fields())
	fields := append([]string(nil), sg.Fields()...)
	sort.Strings(fields)
	for _, f := range fields {
		d, err := sg.Dictionary(f)
		if err != nil {
			w("dicterr %s\n", f)
			continue
		}
		it := d.AutomatonIterator(nil, nil, nil)
		for {
			en, err := it.Next()
			if err != nil || en == nil {
				break
			}
			w("t %s %x %d\n", f, en.Term, en.Count)
			pl, err := d.PostingsList([]byte(en.Term), nil, nil)
			if err != nil {
				w("plerr\n")
				continue
			}
			pi := pl.Iterator(true, true, true, nil)
			for {
				p, err := pi.Next()
				if err != nil || p == nil {
					break
				}
				w("h %s\n", hitString(p))
			}
		}
	}
	dv, _ := sg.(segment.DocValueVisitable)
	for n := uint64(0); n < sg.Count(); n++ {
		sg.VisitStoredFields(n, func(field string, typ byte, value []byte, pos []uint64) bool {
			w("s %d %s %d %x %v\n", n, field, typ, value, pos)
			return true
		})
		if dv != nil {
			var got []string
			dv.VisitDocValues(n, fields, func(field string, term []byte) {
				got = append(got, fmt.Sprintf("%s=%x", field, term))
			}, nil)
			sort.Strings(got)
			w("dv %d %v\n", n, got)
		}
	}
	if ts, ok := sg.(segment.ThesaurusSegment); ok {
		for _, f := range fields {
			th, err := ts.Thesaurus(f)
			if err != nil || th == nil {
				continue
			}
			ti := th.AutomatonIterator(nil, nil, nil)
			for {
				en, err := ti.Next()
				if err != nil || en == nil {
					break
				}
				sl, err := th.SynonymsList([]byte(en.Term), nil, nil)
				if err != nil {
					continue
				}
				si := sl.Iterator(nil)
				var ps []string
				for {
					sy, err := si.Next()
					if err != nil || sy == nil {
						break
					}
					ps = append(ps, fmt.Sprintf("%x:%d", sy.Term(), sy.Number()))
				}
				sort.Strings(ps)
				w("th %s %x %v\n", f, en.Term, ps)
			}
		}
	}
	return fmt.Sprintf("%08x", h.Sum32())
}
