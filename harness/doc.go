package main

// The harness's own implementations of bleve's document interfaces.  A fresh
// object graph is materialised for every build because zapx mutates the token
// frequencies of its input (TokenFrequencies.MergeAll).

import (
	index "github.com/blevesearch/bleve_index_api"
)

type hField struct {
	name string
	typ  byte
	opts index.FieldIndexingOptions
	alen int
	val  []byte
	ap   []uint64
	tfs  index.TokenFrequencies
}

func (f *hField) Name() string                                     { return f.name }
func (f *hField) Value() []byte                                    { return f.val }
func (f *hField) ArrayPositions() []uint64                         { return f.ap }
func (f *hField) EncodedFieldType() byte                           { return f.typ }
func (f *hField) Analyze()                                         {}
func (f *hField) Options() index.FieldIndexingOptions              { return f.opts }
func (f *hField) AnalyzedLength() int                              { return f.alen }
func (f *hField) AnalyzedTokenFrequencies() index.TokenFrequencies { return f.tfs }
func (f *hField) NumPlainTextBytes() uint64                        { return 0 }

type hComp struct{ hField }

// hShapeField: a geo-shape field - an ordinary indexed field that also carries its encoded shape
type hShapeField struct {
	*hField
	shape []byte
}

func (f *hShapeField) GeoShape() (index.GeoJSON, error) { return nil, nil }
func (f *hShapeField) EncodedShape() []byte             { return f.shape }

func (f *hComp) Compose(field string, length int, freq index.TokenFrequencies) {}

type hSynField struct {
	hField
	defs []SynDef
}

func (f *hSynField) IterateSynonyms(visitor func(term string, synonyms []string)) {
	for _, d := range f.defs {
		syns := make([]string, len(d.RHS))
		for i, s := range d.RHS {
			syns[i] = string(s)
		}
		visitor(string(d.LHS), syns)
	}
}

type hVecField struct {
	hField
	dim    int
	metric string
	opt    string
	vec    []float32
}

func (f *hVecField) Vector() []float32         { return f.vec }
func (f *hVecField) Dims() int                 { return f.dim }
func (f *hVecField) Similarity() string        { return f.metric }
func (f *hVecField) IndexOptimizedFor() string { return f.opt }

type hDoc struct {
	id     string
	comps  []index.CompositeField
	fields []index.Field
}

func (d *hDoc) ID() string { return d.id }
func (d *hDoc) Size() int  { return 0 }
func (d *hDoc) VisitFields(v index.FieldVisitor) {
	for _, f := range d.fields {
		v(f)
	}
}
func (d *hDoc) VisitComposite(v index.CompositeFieldVisitor) {
	for _, c := range d.comps {
		v(c)
	}
}
func (d *hDoc) HasComposite() bool        { return len(d.comps) > 0 }
func (d *hDoc) NumPlainTextBytes() uint64 { return 0 }
func (d *hDoc) AddIDField()               {}
func (d *hDoc) StoredFieldsBytes() uint64 { return 0 }
func (d *hDoc) Indexed() bool             { return true }

type hSynDoc struct{ hDoc }

func (d *hSynDoc) VisitSynonymFields(v index.SynonymFieldVisitor) {
	for _, f := range d.fields {
		if sf, ok := f.(index.SynonymField); ok {
			v(sf)
		}
	}
}

func mkTFs(toks []TokSpec) index.TokenFrequencies {
	tfs := make(index.TokenFrequencies, len(toks))
	for _, t := range toks {
		tf := &index.TokenFreq{Term: append([]byte(nil), t.Term...)}
		tf.SetFrequency(t.Freq)
		for _, l := range t.Locs {
			var ap []uint64
			if len(l.AP) > 0 {
				ap = append([]uint64(nil), l.AP...)
			}
			tf.Locations = append(tf.Locations, &index.TokenLocation{
				Field: l.Src, ArrayPositions: ap, Start: l.Start, End: l.End, Position: l.Pos})
		}
		tfs[string(t.Term)] = tf
	}
	return tfs
}

func materializeDoc(d *DocSpec) index.Document {
	base := hDoc{id: string(d.ID)}
	var composed []*hComp
	defer func() {
		// bleve's compose step: every ordinary field (but `_id`) is merged into the composite field;
		// the composite's locations ARE the fields' location objects
		for _, hc := range composed {
			tfs := index.TokenFrequencies{}
			for _, f := range base.fields {
				var hf *hField
				switch x := f.(type) {
				case *hField:
					hf = x
				case *hShapeField:
					hf = x.hField
				}
				if hf != nil && hf.name != "_id" && hf.tfs != nil {
					tfs.MergeAll(hf.name, hf.tfs)
				}
			}
			hc.tfs = tfs
		}
	}()
	for i := range d.Fields {
		f := &d.Fields[i]
		switch f.Kind {
		case "comp":
			opts := index.IndexField | index.IncludeTermVectors
			if f.TV == "0" {
				opts = index.IndexField
			}
			if f.DV {
				opts |= index.DocValues
			}
			hc := &hComp{hField{name: f.Name, typ: 'c', opts: opts, alen: f.Len, tfs: mkTFs(f.Toks)}}
			if f.Compose {
				composed = append(composed, hc)
			}
			base.comps = append(base.comps, hc)
		case "fld":
			opts := index.IndexField
			if f.Stored {
				opts |= index.StoreField
			}
			if f.DV {
				opts |= index.DocValues
			}
			for _, t := range f.Toks {
				if len(t.Locs) > 0 {
					opts |= index.IncludeTermVectors
				}
			}
			// the term-vector option is the caller's statement, the locations are what the analysis
			// produced: zapx stores the locations it is given whatever the option says
			if f.TV == "0" {
				opts &^= index.IncludeTermVectors
			} else if f.TV == "1" {
				opts |= index.IncludeTermVectors
			}
			var ap []uint64
			if len(f.AP) > 0 {
				ap = append([]uint64(nil), f.AP...)
			}
			hf := &hField{name: f.Name, typ: f.Typ, opts: opts, alen: f.Len,
				val: append([]byte{}, f.Val...), ap: ap, tfs: mkTFs(f.Toks)}
			if f.Shape != nil {
				base.fields = append(base.fields, &hShapeField{hField: hf, shape: append([]byte{}, f.Shape...)})
			} else {
				base.fields = append(base.fields, hf)
			}
		case "syn":
			base.fields = append(base.fields, &hSynField{hField: hField{name: f.Name}, defs: f.Defs})
		case "vec":
			vec := make([]float32, len(f.Vec))
			for i, x := range f.Vec {
				vec[i] = float32(x)
			}
			base.fields = append(base.fields, &hVecField{hField: hField{name: f.Name, typ: 'v', opts: index.IndexField},
				dim: f.Dim, metric: f.Metric, opt: f.Opt, vec: vec})
		}
	}
	if d.Plain {
		return &base
	}
	return &hSynDoc{base}
}

func materialize(b *BatchSpec) []index.Document {
	docs := make([]index.Document, len(b.Docs))
	for i := range b.Docs {
		docs[i] = materializeDoc(&b.Docs[i])
	}
	return docs
}
