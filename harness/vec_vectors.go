//go:build vectors

package main

// Vector commands (build tags "verif vectors"; go-faiss is replaced by /verif/fakefaiss).

import (
	"bytes"
	"fmt"
	"runtime"
	"sort"
	"strconv"
	"strings"
	"sync"
	"time"

	faiss "github.com/blevesearch/go-faiss"
	segment "github.com/blevesearch/scorch_segment_api/v2"
	zap "github.com/blevesearch/zapx/v16"
)

const vectorsCompiled = true

type vecState struct {
	handles map[string]segment.VectorIndex
	lastIt  map[string]segment.VecPostingsIterator // the iterator of a handle's previous search
	nsearch map[string]int
	once    sync.Once
}

func (e *Exec) vecInit() {
	e.vec.once.Do(func() {
		e.vec.handles = map[string]segment.VectorIndex{}
		e.vec.lastIt = map[string]segment.VecPostingsIterator{}
		e.vec.nsearch = map[string]int{}
		// the expiry monitor must not run by itself: ticks are explicit events
		zap.VerifSetMonitorFreq(1000 * time.Hour)
	})
}

// settle waits until the engine-side counters stop changing (index Close runs
// in a goroutine started by the cache).
// pendingAsyncCloses: the cache releases an engine index in a goroutine of its own
// (`cacheEntry.close`); such a goroutine exists from the `go` statement until the release is done, and
// shows in the goroutine dump under that function's name.  (nil answer: the dump did not fit.)
func pendingAsyncCloses() *bool {
	buf := make([]byte, 8<<20)
	n := runtime.Stack(buf, true)
	if n >= len(buf) {
		return nil
	}
	p := bytes.Contains(buf[:n], []byte("(*cacheEntry).close.func"))
	return &p
}

// settle waits until every release the cache has started has happened - first by looking for the
// goroutines that do them (exact, however slow the machine is), then until the engine's counters stand
// still for a moment (for whatever is not recognised by name) - and returns the counters.
func settle() faiss.Counters {
	for i := 0; i < 20000; i++ {
		p := pendingAsyncCloses()
		if p == nil || !*p {
			break
		}
		time.Sleep(500 * time.Microsecond)
	}
	prev := faiss.VerifCounters()
	for i := 0; i < 200; i++ {
		time.Sleep(2 * time.Millisecond)
		cur := faiss.VerifCounters()
		if cur == prev && i >= 3 {
			return cur
		}
		prev = cur
	}
	return prev
}

func countersString(c faiss.Counters) string {
	return fmt.Sprintf("live=%d created=%d closed=%d dclose=%d uac=%d sellive=%d", c.Live, c.Created, c.Closed, c.DoubleClosed, c.UseAfterClose, c.SelectorsLive)
}

func (e *Exec) vecArmFault(op string, n int) {
	faiss.VerifClearFaults()
	faiss.VerifResetCallCounts()
	faiss.VerifFailNth(op, n)
}

func (e *Exec) vecArmHook(op string, n int, f func()) {
	faiss.VerifClearFaults()
	faiss.VerifResetCallCounts()
	faiss.VerifOnNth(op, n, f)
}

func (e *Exec) vecFired(op string, n int) bool { return faiss.VerifCallCounts()[op] >= n }

func (e *Exec) vecAfterFault() string {
	faiss.VerifClearFaults()
	c := settle()
	return fmt.Sprintf("englive=%d", c.Live)
}

func (e *Exec) execVec(c *Cmd, sl *slots) (string, bool, bool) {
	e.vecInit()
	switch c.Op {
	case "vreset":
		settle()
		faiss.VerifResetCounters()
		faiss.VerifClearFaults()
		return "", false, true
	case "vcounters":
		return countersString(settle()), true, true
	case "vcalls":
		// call counts of the engine since the last reset, for the fault enumeration
		cc := faiss.VerifCallCounts()
		var ks []string
		for k, v := range cc {
			ks = append(ks, fmt.Sprintf("%s:%d", k, v))
		}
		sort.Strings(ks)
		if len(ks) == 0 {
			return "-", true, true
		}
		return strings.Join(ks, ","), true, true
	case "vopen":
		sg, err := e.seg(c.Pos[1])
		if err != nil {
			return "scripterror:noseg", true, true
		}
		vs, ok := sg.(segment.VectorSegment)
		if !ok {
			return "scripterror:novec", true, true
		}
		ex, err := bitmapOf(c.str("ex", "nil"))
		if err != nil {
			return "scripterror:ex", true, true
		}
		filt := c.str("filt", "0") == "1"
		if c.str("filt", "0") == "g" {
			// inside a `par` block: every other goroutine asks for a filtering handle
			filt = e.vecGoroutineParity(sl)
		}
		if ef, ok := c.KV["engfail"]; ok {
			// the engine fails while the index is being loaded for this caller
			parts := strings.SplitN(ef, ":", 2)
			n, _ := strconv.Atoi(parts[1])
			e.vecArmFault(parts[0], n)
			h, err := vs.InterpretVectorIndex(c.Pos[2], filt, ex)
			fired := e.vecFired(parts[0], n)
			faiss.VerifClearFaults()
			if err != nil {
				return fmt.Sprintf("%s fired=%s", errKind(err), b01(fired)), true, true
			}
			e.mu.Lock()
			e.vec.handles[c.Pos[0]] = h
			e.mu.Unlock()
			return fmt.Sprintf("ok fired=%s", b01(fired)), true, true
		}
		h, err := vs.InterpretVectorIndex(c.Pos[2], filt, ex)
		if err != nil {
			return errKind(err), true, true
		}
		if sl != nil && sl.par {
			if old, ok := sl.vh[c.Pos[0]]; ok {
				old.(segment.VectorIndex).Close() // a later round re-opens under the same name
			}
			sl.vh[c.Pos[0]] = h
			return "ok", true, true
		}
		e.mu.Lock()
		e.vec.handles[c.Pos[0]] = h
		e.mu.Unlock()
		return "ok", true, true
	case "vsearch":
		var h segment.VectorIndex
		if sl != nil && sl.par {
			if x, ok := sl.vh[c.Pos[0]]; ok {
				h = x.(segment.VectorIndex)
			}
		}
		if h == nil {
			e.mu.Lock()
			h = e.vec.handles[c.Pos[0]]
			e.mu.Unlock()
		}
		if h == nil {
			return "scripterror:nohandle", true, true
		}
		qi, _ := parseIntList(c.str("q", "-"))
		q := make([]float32, len(qi))
		for i, x := range qi {
			q[i] = float32(x)
		}
		k := int64(c.num("k", 1))
		var pl segment.VecPostingsList
		var err error
		firedSuffix := ""
		if ef, ok := c.KV["engfail"]; ok {
			// the engine fails inside this search
			parts := strings.SplitN(ef, ":", 2)
			n, _ := strconv.Atoi(parts[1])
			e.vecArmFault(parts[0], n)
			defer faiss.VerifClearFaults()
			firedSuffix = parts[0] + ":" + parts[1]
		}
		if es, ok := c.KV["elig"]; ok {
			// one slice per distinct eligible set, handed to every search that names it (a caller
			// keeps its filter result and reuses it; the callee must not write to it)
			ids := e.vecEligible(es)
			pl, err = h.SearchWithFilter(q, k, ids, nil)
		} else {
			pl, err = h.Search(q, k, nil)
		}
		fired := ""
		if firedSuffix != "" {
			parts := strings.SplitN(firedSuffix, ":", 2)
			n, _ := strconv.Atoi(parts[1])
			fired = " fired=" + b01(e.vecFired(parts[0], n))
			faiss.VerifClearFaults()
		}
		if err != nil {
			return errKind(err) + fired, true, true
		}
		// every second search of a handle recycles the iterator of its previous search (outside
		// par blocks, where handles are private to a goroutine anyway)
		var pre segment.VecPostingsIterator
		if sl == nil || !sl.par {
			e.mu.Lock()
			e.vec.nsearch[c.Pos[0]]++
			if e.vec.nsearch[c.Pos[0]]%2 == 0 {
				pre = e.vec.lastIt[c.Pos[0]]
			}
			e.mu.Unlock()
		}
		it := pl.Iterator(pre)
		if sl == nil || !sl.par {
			e.mu.Lock()
			e.vec.lastIt[c.Pos[0]] = it
			e.mu.Unlock()
		}
		var hits []string
		for {
			p, err := it.Next()
			if err != nil {
				return errKind(err), true, true
			}
			if p == nil {
				break
			}
			hits = append(hits, fmt.Sprintf("%d:%s", p.Number(), strconv.FormatFloat(float64(p.Score()), 'f', -1, 32)))
		}
		hs := "-"
		if len(hits) > 0 {
			hs = strings.Join(hits, ",")
		}
		// the same list walked a second time with Advance to each document in turn (Next within a
		// document that has several hits): the walk must meet the same hits
		if firedSuffix == "" {
			it2 := pl.Iterator(nil)
			last := ""
			for i, hstr := range hits {
				doc := hstr[:strings.IndexByte(hstr, ':')]
				var p segment.VecPosting
				var err error
				if doc != last {
					dn, _ := strconv.ParseUint(doc, 10, 64)
					p, err = it2.Advance(dn)
				} else {
					p, err = it2.Next()
				}
				last = doc
				got := "nil"
				if err != nil {
					got = errKind(err)
				} else if p != nil {
					got = fmt.Sprintf("%d:%s", p.Number(), strconv.FormatFloat(float64(p.Score()), 'f', -1, 32))
				}
				if got != hstr {
					return fmt.Sprintf("cnt=%d hits=advance-walk-differs-at-hit-%d(next:%s/advance:%s)/all-by-next:%s%s", pl.Count(), i, hstr, got, hs, fired), true, true
				}
			}
		}
		return fmt.Sprintf("cnt=%d hits=%s%s", pl.Count(), hs, fired), true, true
	case "vclose":
		if sl != nil && sl.par {
			if x, ok := sl.vh[c.Pos[0]]; ok {
				delete(sl.vh, c.Pos[0])
				x.(segment.VectorIndex).Close()
				return "ok", true, true
			}
		}
		e.mu.Lock()
		h := e.vec.handles[c.Pos[0]]
		delete(e.vec.handles, c.Pos[0])
		e.mu.Unlock()
		if h == nil {
			return "scripterror:nohandle", true, true
		}
		h.Close()
		return "ok", true, true
	case "vtick":
		sg, err := e.seg(c.Pos[0])
		if err != nil {
			return "scripterror:noseg", true, true
		}
		ev := zap.VerifVecCacheTick(sg)
		names := []string{}
		for _, id := range ev {
			for _, f := range sg.Fields() {
				if zap.VerifFieldIDPlus1(sg, f) == id {
					names = append(names, f)
				}
			}
		}
		sort.Strings(names)
		return fmt.Sprintf("evicted=%s %s", strList(names), countersString(settle())), true, true
	case "vrefs":
		sg, err := e.seg(c.Pos[0])
		if err != nil {
			return "scripterror:noseg", true, true
		}
		refs := zap.VerifVecCacheRefs(sg)
		var parts []string
		for _, f := range sg.Fields() {
			if r, ok := refs[zap.VerifFieldIDPlus1(sg, f)]; ok {
				parts = append(parts, fmt.Sprintf("%s:%d", f, r))
			}
		}
		sort.Strings(parts)
		return strList(parts), true, true
	case "vstats":
		sg, err := e.seg(c.Pos[0])
		if err != nil {
			return "scripterror:noseg", true, true
		}
		fr, ok := sg.(segment.FieldStatsReporter)
		if !ok {
			return "scripterror:nostats", true, true
		}
		st := &fieldStats{m: map[string]map[string]uint64{}}
		fr.UpdateFieldStats(st)
		var parts []string
		for f, v := range st.m["num_vectors"] {
			parts = append(parts, fmt.Sprintf("%s:%d", f, v))
		}
		sort.Strings(parts)
		return strList(parts), true, true
	case "buildfaults", "mergeengfaults":
		// enumerate: fail the n-th call of each engine operation, for every n of the fault-free run
		settle()
		faiss.VerifClearFaults()
		faiss.VerifResetCallCounts()
		var base string
		if c.Op == "buildfaults" {
			base = fmt.Sprintf("build %s %s", c.Pos[0], c.Pos[1])
		} else {
			base = fmt.Sprintf("merge %s segs=%s drops=%s", c.Pos[0], c.str("segs", "-"), c.str("drops", ""))
		}
		obs0, _ := e.safeExec(parseLine(c.LineNo, base), sl, "")
		counts := faiss.VerifCallCounts()
		var ops []string
		for k := range counts {
			ops = append(ops, k)
		}
		sort.Strings(ops)
		var lines []string
		lines = append(lines, base, "r "+obs0)
		for _, op := range ops {
			for n := 1; n <= counts[op]; n++ {
				var cmd string
				if c.Op == "buildfaults" {
					cmd = fmt.Sprintf("buildfault %s %s engfail=%s:%d", c.Pos[0]+"x", c.Pos[1], op, n)
				} else {
					cmd = fmt.Sprintf("%s engfail=%s:%d", base, op, n)
					if n%2 == 0 {
						// an earlier, complete output is at the path when the faulted merge starts
						o0, _ := e.safeExec(parseLine(c.LineNo, base), sl, "")
						lines = append(lines, base, "r "+o0)
						cmd += " keep=1"
					}
					settle()
					faiss.VerifResetCounters()
				}
				o, _ := e.safeExec(parseLine(c.LineNo, cmd), sl, "")
				lines = append(lines, cmd, "r "+o)
				if c.Op == "mergeengfaults" && c.str("cancel", "0") == "1" {
					// the same instant used for a cancellation instead: the close channel is closed
					// from inside that engine call
					settle()
					faiss.VerifResetCounters()
					cmd = fmt.Sprintf("%s close=engine:%s:%d", base, op, n)
					if n%2 == 1 {
						o0, _ := e.safeExec(parseLine(c.LineNo, base), sl, "")
						lines = append(lines, base, "r "+o0)
						cmd += " keep=1"
						settle()
						faiss.VerifResetCounters()
					}
					o, _ := e.safeExec(parseLine(c.LineNo, cmd), sl, "")
					lines = append(lines, cmd, "r "+o)
				}
			}
		}
		// finally the fault-free operation again, so that later commands see its result
		o, _ := e.safeExec(parseLine(c.LineNo, base), sl, "")
		lines = append(lines, base, "r "+o)
		return strings.Join(lines, "\n"), true, true
	case "buildfault":
		// buildfault <seg> <batch> engfail=<op>:<n>
		parts := strings.SplitN(c.str("engfail", "x:0"), ":", 2)
		n, _ := strconv.Atoi(parts[1])
		settle()
		faiss.VerifResetCounters()
		e.vecArmFault(parts[0], n)
		cc := parseLine(c.LineNo, fmt.Sprintf("build %s %s", c.Pos[0], c.Pos[1]))
		obs, _ := e.safeExec(cc, sl, "")
		fired := faiss.VerifCallCounts()[parts[0]] >= n
		return fmt.Sprintf("%s fired=%s %s", obs, b01(fired), e.vecAfterFault()), true, true
	}
	return "", false, false
}

type fieldStats struct {
	m map[string]map[string]uint64
}

func (f *fieldStats) Store(statName, fieldName string, value uint64) {
	if f.m[statName] == nil {
		f.m[statName] = map[string]uint64{}
	}
	f.m[statName][fieldName] = value
}
func (f *fieldStats) Aggregate(stats segment.FieldStats)  {}
func (f *fieldStats) Fetch() map[string]map[string]uint64 { return f.m }

var vecParityCounter uint64
var vecParityMu sync.Mutex
var vecParity = map[*slots]bool{}

// vecGoroutineParity: a stable true/false per goroutine of a par block, alternating in the order
// of first use.
func (e *Exec) vecGoroutineParity(sl *slots) bool {
	vecParityMu.Lock()
	defer vecParityMu.Unlock()
	if v, ok := vecParity[sl]; ok {
		return v
	}
	vecParityCounter++
	v := vecParityCounter%2 == 0
	vecParity[sl] = v
	return v
}

var vecEligMu sync.Mutex
var vecEligCache = map[string][]uint64{}

func (e *Exec) vecEligible(spec string) []uint64 {
	vecEligMu.Lock()
	defer vecEligMu.Unlock()
	if ids, ok := vecEligCache[spec]; ok {
		return ids
	}
	ids, _ := parseU64List(spec, ",")
	vecEligCache[spec] = ids
	return ids
}
