package main

// dumpfile <file> [hexmax=<n>]: print the bytes of a written .zap file together
// with the decoded EXTERNAL-library structures found in it (vellum FSTs,
// roaring / roaring64 bitmaps, opaque vector-engine blobs) for the independent
// Lean decoder of the documented v16 layout (property C09, ZapModel/Layout.lean).
//
// Observation (one line):
//
//	file=<hex of all bytes> blobs=<blob>;<blob>;...        (blobs=- if none)
//	blob = <offset>:<len>:<kind>:<payload>
//	  fst   payload = <keyhex>=<value>,...  keys in FST order, empty key ".", empty FST "-"
//	  r32   payload = ascending uint32 list joined by "," or "-"
//	  r64   payload = ascending uint64 list joined by "," or "-"
//	  faiss payload = "-"
//	toolarge len=<n>                                        (file longer than hexmax)
//
// <offset>/<len> delimit the library's own bytes (after any length prefix).
//
// The harness only *offers* blobs: the Lean side recomputes every offset and
// length from the file bytes and looks the blob up by (offset, len, kind); a
// miss or a disagreement is a failure.  So nothing here can steer the result:
// locating more blobs than needed is harmless, locating fewer is a mismatch.
// Blobs are located twice, by a minimal walk of the file with encoding/binary
// and through the exported zapx API (Open / Fields / DictAddr / ThesaurusAddr);
// duplicates are merged.

import (
	"bytes"
	"encoding/binary"
	"fmt"
	"os"
	"sort"
	"strconv"
	"strings"

	"github.com/RoaringBitmap/roaring/v2"
	"github.com/RoaringBitmap/roaring/v2/roaring64"
	"github.com/blevesearch/vellum"
	zap "github.com/blevesearch/zapx/v16"
)

type dumpBlob struct {
	off, n uint64
	kind   string
	pay    string
}

type dumper struct {
	mem   []byte
	seen  map[string]bool
	blobs []dumpBlob
}

// uv reads a uvarint at pos; ok=false when it does not fit in the file.
func (d *dumper) uv(pos uint64) (v uint64, next uint64, ok bool) {
	if pos >= uint64(len(d.mem)) {
		return 0, pos, false
	}
	v, n := binary.Uvarint(d.mem[pos:])
	if n <= 0 {
		return 0, pos, false
	}
	return v, pos + uint64(n), true
}

func (d *dumper) span(off, n uint64) ([]byte, bool) {
	end := off + n
	if end < off || end > uint64(len(d.mem)) {
		return nil, false
	}
	return d.mem[off:end], true
}

func (d *dumper) add(off, n uint64, kind, pay string) bool {
	key := fmt.Sprintf("%d:%d:%s", off, n, kind)
	if d.seen[key] {
		return false
	}
	d.seen[key] = true
	d.blobs = append(d.blobs, dumpBlob{off, n, kind, pay})
	return true
}

// addFST decodes the vellum FST at [off, off+n) with the real library and
// returns its (key, value) pairs.
func (d *dumper) addFST(off, n uint64) (vals []uint64, ok bool) {
	buf, ok := d.span(off, n)
	if !ok || n == 0 {
		return nil, false
	}
	fst, err := vellum.Load(buf)
	if err != nil {
		return nil, false
	}
	defer fst.Close()
	var parts []string
	itr, err := fst.Iterator(nil, nil)
	for err == nil {
		k, v := itr.Current()
		parts = append(parts, hx(k)+"="+strconv.FormatUint(v, 10))
		vals = append(vals, v)
		err = itr.Next()
	}
	if err != vellum.ErrIteratorDone {
		return nil, false
	}
	pay := "-"
	if len(parts) > 0 {
		pay = strings.Join(parts, ",")
	}
	d.add(off, n, "fst", pay)
	return vals, true
}

func (d *dumper) addR32(off, n uint64) {
	buf, ok := d.span(off, n)
	if !ok || n == 0 {
		return
	}
	bm := roaring.New()
	// FromBuffer aliases buf; the bitmap is only read before mem goes away
	if _, err := bm.FromBuffer(buf); err != nil {
		return
	}
	d.add(off, n, "r32", bmList(bm))
}

func (d *dumper) addR64(off, n uint64) {
	buf, ok := d.span(off, n)
	if !ok || n == 0 {
		return
	}
	bm := roaring64.New()
	if _, err := bm.ReadFrom(bytes.NewReader(buf)); err != nil {
		return
	}
	d.add(off, n, "r64", u64List(bm.ToArray(), ","))
}

// dictAt: at a dictionary address: uvarint length + vellum; every FST value
// in the general encoding (top two bits 00) is the offset of a postings
// record: uvarint, uvarint, uvarint roaringLen, roaring bytes.
func (d *dumper) dictAt(loc uint64) {
	n, p, ok := d.uv(loc)
	if !ok {
		return
	}
	vals, ok := d.addFST(p, n)
	if !ok {
		return
	}
	for _, v := range vals {
		if v>>62 != 0 {
			continue
		}
		q, ok := d.skip2(v)
		if !ok {
			continue
		}
		if rl, q2, ok := d.uv(q); ok {
			d.addR32(q2, rl)
		}
	}
}

// thesAt: at a thesaurus address: uvarint length + vellum; every value is the
// offset of: uvarint length + roaring64 bytes.
func (d *dumper) thesAt(loc uint64) {
	n, p, ok := d.uv(loc)
	if !ok {
		return
	}
	vals, ok := d.addFST(p, n)
	if !ok {
		return
	}
	for _, v := range vals {
		rl, q, ok := d.uv(v)
		if ok {
			d.addR64(q, rl)
		}
	}
}

// skip2 skips the two doc-value offsets that open every section record.
func (d *dumper) skip2(pos uint64) (uint64, bool) {
	ok := true
	for i := 0; i < 2 && ok; i++ {
		_, pos, ok = d.uv(pos)
	}
	return pos, ok
}

// vecAt: vector section record: two uvarints, uvarint optimisation type,
// uvarint numVecs, numVecs x (varint vecID, uvarint docID), uvarint
// indexSize, index bytes (opaque).
func (d *dumper) vecAt(addr uint64) {
	pos, ok := d.skip2(addr)
	if !ok {
		return
	}
	if _, pos, ok = d.uv(pos); !ok {
		return
	}
	var nv uint64
	if nv, pos, ok = d.uv(pos); !ok || nv > uint64(len(d.mem)) {
		return
	}
	for i := uint64(0); i < nv; i++ {
		if _, pos, ok = d.uv(pos); !ok { // a varint has the same framing as a uvarint
			return
		}
		if _, pos, ok = d.uv(pos); !ok {
			return
		}
	}
	var sz uint64
	if sz, pos, ok = d.uv(pos); !ok {
		return
	}
	if _, ok := d.span(pos, sz); ok {
		d.add(pos, sz, "faiss", "-")
	}
}

// walk: footer -> sections index -> field records -> section records.
func (d *dumper) walk() {
	n := uint64(len(d.mem))
	if n < zap.FooterSize {
		return
	}
	foot := d.mem[n-zap.FooterSize:]
	sectionsIndex := binary.BigEndian.Uint64(foot[24:32])
	nf, pos, ok := d.uv(sectionsIndex)
	if !ok || nf > n {
		return
	}
	for i := uint64(0); i < nf; i++ {
		ab, ok := d.span(pos+8*i, 8)
		if !ok {
			return
		}
		d.fieldAt(binary.BigEndian.Uint64(ab))
	}
}

func (d *dumper) fieldAt(addr uint64) {
	nl, pos, ok := d.uv(addr)
	if !ok {
		return
	}
	if _, ok = d.span(pos, nl); !ok {
		return
	}
	pos += nl
	ns, pos, ok := d.uv(pos)
	if !ok || ns > uint64(len(d.mem)) {
		return
	}
	for j := uint64(0); j < ns; j++ {
		rec, ok := d.span(pos+10*j, 10)
		if !ok {
			return
		}
		typ := binary.BigEndian.Uint16(rec[0:2])
		sa := binary.BigEndian.Uint64(rec[2:10])
		if sa == 0 {
			continue
		}
		switch typ {
		case 0: // inverted text index: dvStart, dvEnd, dictLoc
			if p, ok := d.skip2(sa); ok {
				if loc, _, ok := d.uv(p); ok {
					d.dictAt(loc)
				}
			}
		case 1: // vector index
			d.vecAt(sa)
		case 2: // synonym index: 2 x not-uninverted, thesLoc
			if p, ok := d.skip2(sa); ok {
				if loc, _, ok := d.uv(p); ok {
					d.thesAt(loc)
				}
			}
		}
	}
}

// viaAPI: the same starting points as the zapx reader sees them.
func (d *dumper) viaAPI(path string) {
	defer func() { _ = recover() }()
	sg, err := (&zap.ZapPlugin{}).Open(path)
	if err != nil {
		return
	}
	defer sg.Close()
	zs, ok := sg.(*zap.Segment)
	if !ok || !bytes.Equal(zs.Data(), d.mem) {
		return
	}
	for _, f := range zs.Fields() {
		func() {
			defer func() { _ = recover() }()
			if a, err := zs.DictAddr(f); err == nil && (a > 0 || zs.NumDocs() == 0) {
				d.dictAt(a)
			}
		}()
		func() {
			defer func() { _ = recover() }()
			if a, err := zs.ThesaurusAddr(f); err == nil {
				d.thesAt(a)
			}
		}()
	}
}

func (e *Exec) doDumpFile(c *Cmd) string {
	if len(c.Pos) < 1 {
		return "scripterror:dumpfile-needs-file"
	}
	path := e.path(c.Pos[0])
	data, err := os.ReadFile(path)
	if err != nil {
		return "err:other"
	}
	if len(data) > c.num("hexmax", 200000) {
		return fmt.Sprintf("toolarge len=%d", len(data))
	}
	d := &dumper{mem: data, seen: map[string]bool{}}
	func() {
		defer func() { _ = recover() }()
		d.walk()
	}()
	d.viaAPI(path)
	sort.SliceStable(d.blobs, func(i, j int) bool {
		if d.blobs[i].off != d.blobs[j].off {
			return d.blobs[i].off < d.blobs[j].off
		}
		return d.blobs[i].kind < d.blobs[j].kind
	})
	var sb strings.Builder
	sb.WriteString("file=")
	sb.WriteString(hx(data))
	sb.WriteString(" blobs=")
	if len(d.blobs) == 0 {
		sb.WriteString("-")
	}
	for i, b := range d.blobs {
		if i > 0 {
			sb.WriteByte(';')
		}
		fmt.Fprintf(&sb, "%d:%d:%s:%s", b.off, b.n, b.kind, b.pay)
	}
	e.stat("dumpfile")
	return sb.String()
}
