package main

// dumpfile <file>: print the bytes of a written .zap file together with the
// decoded external blobs (FST, roaring) for the independent Lean decoder (C09).
// STUB: replaced by the C09 implementation.
func (e *Exec) doDumpFile(c *Cmd) string { return "unimplemented" }
