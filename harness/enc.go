package main

// Component-level correspondence: bytes / values of the zapx-owned codecs,
// reached through the verif hook wrappers.

import (
	"encoding/binary"
	"fmt"
	"strconv"
	"strings"

	zap "github.com/blevesearch/zapx/v16"
)

func u(c *Cmd, key string) uint64 {
	v, err := strconv.ParseUint(c.str(key, "0"), 10, 64)
	if err != nil {
		panic("bad number " + key)
	}
	return v
}

func parseAdds(s string) []zap.VerifIntCoderAdd {
	var adds []zap.VerifIntCoderAdd
	if s == "-" {
		return nil
	}
	for _, p := range strings.Split(s, ";") {
		kv := strings.SplitN(p, ":", 2)
		d, _ := strconv.ParseUint(kv[0], 10, 64)
		vals, _ := parseU64List(kv[1], ".")
		adds = append(adds, zap.VerifIntCoderAdd{DocNum: d, Vals: vals})
	}
	return adds
}

func (e *Exec) doEnc(c *Cmd) string {
	switch c.Pos[0] {
	case "chunksize":
		sz, err := zap.VerifGetChunkSize(uint32(u(c, "mode")), u(c, "card"), u(c, "max"))
		if err != nil {
			return errKind(err)
		}
		return strconv.FormatUint(sz, 10)
	case "uvarint":
		x := u(c, "x")
		buf := make([]byte, binary.MaxVarintLen64)
		n := binary.PutUvarint(buf, x)
		return fmt.Sprintf("bytes=%s n=%d", hx(buf[:n]), zap.VerifNumUvarintBytes(x))
	case "fhl":
		v := zap.VerifEncodeFreqHasLocs(u(c, "freq"), c.str("locs", "0") == "1")
		f, h := zap.VerifDecodeFreqHasLocs(v)
		return fmt.Sprintf("enc=%d dec=%d/%s", v, f, b01(h))
	case "fhldec":
		f, h := zap.VerifDecodeFreqHasLocs(u(c, "v"))
		return fmt.Sprintf("dec=%d/%s", f, b01(h))
	case "onehit":
		v := zap.FSTValEncode1Hit(u(c, "doc"), u(c, "norm"))
		d, n := zap.FSTValDecode1Hit(v)
		return fmt.Sprintf("enc=%d dec=%d/%d u32=%s", v, d, n, b01(zap.VerifUnder32Bits(u(c, "doc"))))
	case "onehitdec":
		d, n := zap.FSTValDecode1Hit(u(c, "v"))
		return fmt.Sprintf("dec=%d/%d", d, n)
	case "syncode":
		v := zap.VerifEncodeSynonym(uint32(u(c, "sid")), uint32(u(c, "doc")))
		s, d := zap.VerifDecodeSynonym(v)
		return fmt.Sprintf("enc=%d dec=%d/%d", v, s, d)
	case "syndec":
		s, d := zap.VerifDecodeSynonym(u(c, "v"))
		return fmt.Sprintf("dec=%d/%d", s, d)
	case "offsets":
		lens, _ := parseU64List(c.str("lens", "-"), ",")
		offs := zap.VerifEndOffsets(lens)
		var bs []string
		for i := range offs {
			s, en := zap.VerifReadChunkBoundary(i, offs)
			bs = append(bs, fmt.Sprintf("%d.%d", s, en))
		}
		b := "-"
		if len(bs) > 0 {
			b = strings.Join(bs, ",")
		}
		return fmt.Sprintf("offs=%s bounds=%s", u64List(offs, ","), b)
	case "intcoder":
		adds := parseAdds(c.str("adds", "-"))
		out, err := zap.VerifIntCoderEncode(u(c, "cs"), u(c, "max"), adds, c.str("reuse", "0") == "1")
		if err != nil {
			return errKind(err)
		}
		nc := zap.VerifIntDecodeNumChunks(out)
		var chunks []string
		for i := 0; i < nc; i++ {
			vals, err := zap.VerifIntDecodeChunk(out, i)
			if err != nil {
				return errKind(err)
			}
			chunks = append(chunks, u64List(vals, "."))
		}
		cs := "-"
		if len(chunks) > 0 {
			cs = strings.Join(chunks, "|")
		}
		return fmt.Sprintf("bytes=%s chunks=%s", hx(out), cs)
	case "memreader":
		buf, _ := unhx(c.str("buf", "."))
		vals, pos, errs := zap.VerifMemUvarint(buf, c.str("ops", ""))
		es := ""
		for _, b := range errs {
			es += b01(b)
		}
		ps := make([]uint64, len(pos))
		for i, p := range pos {
			ps[i] = uint64(p)
		}
		return fmt.Sprintf("vals=%s pos=%s errs=%s", u64List(vals, ","), u64List(ps, ","), es)
	case "content":
		var docs []uint64
		var vals [][]byte
		if a := c.str("adds", "-"); a != "-" {
			for _, p := range strings.Split(a, ";") {
				kv := strings.SplitN(p, ":", 2)
				d, _ := strconv.ParseUint(kv[0], 10, 64)
				v, _ := unhx(kv[1])
				docs = append(docs, d)
				vals = append(vals, v)
			}
		}
		out, err := zap.VerifContentCoderEncode(u(c, "cs"), u(c, "max"), docs, vals, c.str("prog", "0") == "1")
		if err != nil {
			return errKind(err)
		}
		return "bytes=" + hx(out)
	case "enum":
		var keys [][][]byte
		var vals [][]uint64
		for _, it := range strings.Split(c.str("its", ""), "|") {
			var ks [][]byte
			var vs []uint64
			if it != "-" && it != "" {
				for _, kv := range strings.Split(it, ",") {
					p := strings.SplitN(kv, ":", 2)
					k, _ := unhx(p[0])
					v, _ := strconv.ParseUint(p[1], 10, 64)
					ks = append(ks, k)
					vs = append(vs, v)
				}
			}
			keys = append(keys, ks)
			vals = append(vals, vs)
		}
		tr, err := zap.VerifEnumerate(keys, vals)
		if err != nil {
			return errKind(err)
		}
		var parts []string
		for _, t := range tr {
			parts = append(parts, fmt.Sprintf("%s:%d:%d", hx(t.Key), t.Idx, t.Val))
		}
		if len(parts) == 0 {
			return "-"
		}
		return strings.Join(parts, ",")
	}
	return "scripterror:enc"
}
