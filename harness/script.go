package main

// Script / transcript language shared by the Go harness (zxh) and the Lean
// driver (zapdriver).  One command per line, space separated tokens,
// key=value arguments.  Conventions: bytes are lowercase hex, the empty byte
// string is "."; lists are comma separated, the empty list is "-".

import (
	"encoding/hex"
	"fmt"
	"sort"
	"strconv"
	"strings"
)

type LocSpec struct {
	Src   string // "" = no source field named (own field)
	Pos   int
	Start int
	End   int
	AP    []uint64
}

type TokSpec struct {
	Term []byte
	Freq int
	Locs []LocSpec
}

type SynDef struct {
	LHS []byte
	RHS [][]byte
}

type FieldSpec struct {
	Kind   string // comp | fld | syn | vec
	Name   string
	Typ    byte
	Stored bool
	DV     bool
	Len    int
	AP     []uint64
	Val    []byte
	Toks   []TokSpec
	Defs   []SynDef
	Dim    int
	Metric string
	Opt    string
	Vec    []int
	TV     string // "" = the term-vector option follows the locations; "0"/"1" = stated explicitly
	Rnd    string // "seed:len" = Val is the pseudo-random byte string of that seed and length
	Shape  []byte // geo-shape fields: the encoded shape (kept as an extra doc value)
	// composite fields: the token frequencies are composed from the document's ordinary fields the way
	// bleve does it (TokenFrequencies.MergeAll), i.e. SHARING the location objects with those fields
	Compose bool
}

// rndBytes: the pseudo-random (incompressible) byte string both sides of the transcript agree on:
// x' = (x*1103515245 + 12345) mod 2^31, byte = (x' >> 16) & 0xff.
func rndBytes(seed, n int) []byte {
	out := make([]byte, n)
	x := uint64(seed) % (1 << 31)
	for i := range out {
		x = (x*1103515245 + 12345) % (1 << 31)
		out[i] = byte(x >> 16)
	}
	return out
}

func parseRnd(s string) (int, int, bool) {
	var seed, n int
	if _, err := fmt.Sscanf(s, "%d:%d", &seed, &n); err != nil {
		return 0, 0, false
	}
	return seed, n, true
}

type DocSpec struct {
	ID     []byte
	Plain  bool // document type that does not implement SynonymDocument
	Fields []FieldSpec
}

type BatchSpec struct {
	Name string
	Docs []DocSpec
}

func hx(b []byte) string {
	if len(b) == 0 {
		return "."
	}
	return hex.EncodeToString(b)
}

func unhx(s string) ([]byte, error) {
	if s == "." {
		return []byte{}, nil
	}
	return hex.DecodeString(s)
}

func hxList(bs [][]byte) string {
	if len(bs) == 0 {
		return "-"
	}
	parts := make([]string, len(bs))
	for i, b := range bs {
		parts[i] = hx(b)
	}
	return strings.Join(parts, ",")
}

func unhxList(s string) ([][]byte, error) {
	if s == "-" {
		return nil, nil
	}
	parts := strings.Split(s, ",")
	out := make([][]byte, len(parts))
	for i, p := range parts {
		b, err := unhx(p)
		if err != nil {
			return nil, err
		}
		out[i] = b
	}
	return out, nil
}

func u64List(xs []uint64, sep string) string {
	if len(xs) == 0 {
		return "-"
	}
	parts := make([]string, len(xs))
	for i, x := range xs {
		parts[i] = strconv.FormatUint(x, 10)
	}
	return strings.Join(parts, sep)
}

func parseU64List(s string, sep string) ([]uint64, error) {
	if s == "-" {
		return nil, nil
	}
	parts := strings.Split(s, sep)
	out := make([]uint64, len(parts))
	for i, p := range parts {
		v, err := strconv.ParseUint(p, 10, 64)
		if err != nil {
			return nil, err
		}
		out[i] = v
	}
	return out, nil
}

func intList(xs []int) string {
	if len(xs) == 0 {
		return "-"
	}
	parts := make([]string, len(xs))
	for i, x := range xs {
		parts[i] = strconv.Itoa(x)
	}
	return strings.Join(parts, ",")
}

func parseIntList(s string) ([]int, error) {
	if s == "-" {
		return nil, nil
	}
	parts := strings.Split(s, ",")
	out := make([]int, len(parts))
	for i, p := range parts {
		v, err := strconv.Atoi(p)
		if err != nil {
			return nil, err
		}
		out[i] = v
	}
	return out, nil
}

func strList(xs []string) string {
	if len(xs) == 0 {
		return "-"
	}
	return strings.Join(xs, ",")
}

func parseStrList(s string) []string {
	if s == "-" {
		return nil
	}
	return strings.Split(s, ",")
}

func b01(b bool) string {
	if b {
		return "1"
	}
	return "0"
}

func locString(l LocSpec) string {
	src := l.Src
	if src == "" {
		src = "~"
	}
	return fmt.Sprintf("%s/%d/%d/%d/%s", src, l.Pos, l.Start, l.End, u64List(l.AP, "."))
}

// Lines renders a batch definition.
func (b *BatchSpec) Lines() []string {
	var out []string
	out = append(out, "batch "+b.Name)
	for _, d := range b.Docs {
		out = append(out, fmt.Sprintf("doc %s plain=%s", hx(d.ID), b01(d.Plain)))
		for _, f := range d.Fields {
			switch f.Kind {
			case "comp":
				l := fmt.Sprintf("comp %s len=%d dv=%s", f.Name, f.Len, b01(f.DV))
				if f.TV != "" {
					l += " tv=" + f.TV
				}
				if f.Compose {
					l += " compose=1"
				}
				out = append(out, l)
			case "fld":
				val := hx(f.Val)
				if f.Rnd != "" {
					val = "rnd:" + f.Rnd
				}
				l := fmt.Sprintf("fld %s typ=%d st=%s dv=%s len=%d ap=%s val=%s",
					f.Name, f.Typ, b01(f.Stored), b01(f.DV), f.Len, u64List(f.AP, ","), val)
				if f.TV != "" {
					l += " tv=" + f.TV
				}
				if f.Shape != nil {
					l += " shape=" + hx(f.Shape)
				}
				out = append(out, l)
			case "syn":
				out = append(out, "syn "+f.Name)
				for _, sd := range f.Defs {
					out = append(out, fmt.Sprintf("def %s rhs=%s", hx(sd.LHS), hxList(sd.RHS)))
				}
			case "vec":
				out = append(out, fmt.Sprintf("vec %s dim=%d metric=%s opt=%s x=%s",
					f.Name, f.Dim, f.Metric, f.Opt, intList(f.Vec)))
			}
			for _, t := range f.Toks {
				line := fmt.Sprintf("tok %s f=%d", hx(t.Term), t.Freq)
				for _, l := range t.Locs {
					line += " l=" + locString(l)
				}
				out = append(out, line)
			}
		}
		out = append(out, "enddoc")
	}
	out = append(out, "endbatch")
	return out
}

// Cmd is one parsed script line.
type Cmd struct {
	LineNo int
	Raw    string
	Op     string
	Pos    []string          // positional args
	KV     map[string]string // key=value args
	Multi  map[string][]string
	Rec    string // recorded observation line (frozen replay)
}

func parseLine(no int, raw string) *Cmd {
	line := raw
	if i := strings.Index(line, "#"); i >= 0 {
		line = line[:i]
	}
	toks := strings.Fields(line)
	if len(toks) == 0 {
		return nil
	}
	c := &Cmd{LineNo: no, Raw: strings.TrimSpace(line), Op: toks[0], KV: map[string]string{}, Multi: map[string][]string{}}
	for _, t := range toks[1:] {
		if i := strings.Index(t, "="); i > 0 {
			c.KV[t[:i]] = t[i+1:]
			c.Multi[t[:i]] = append(c.Multi[t[:i]], t[i+1:])
		} else {
			c.Pos = append(c.Pos, t)
		}
	}
	return c
}

func (c *Cmd) str(key, def string) string {
	if v, ok := c.KV[key]; ok {
		return v
	}
	return def
}

func (c *Cmd) num(key string, def int) int {
	if v, ok := c.KV[key]; ok {
		n, err := strconv.Atoi(v)
		if err != nil {
			panic(fmt.Sprintf("line %d: bad number %s=%s", c.LineNo, key, v))
		}
		return n
	}
	return def
}

func parseLoc(s string) (LocSpec, error) {
	p := strings.Split(s, "/")
	if len(p) != 5 {
		return LocSpec{}, fmt.Errorf("bad loc %q", s)
	}
	var l LocSpec
	if p[0] != "~" {
		l.Src = p[0]
	}
	var err error
	if l.Pos, err = strconv.Atoi(p[1]); err != nil {
		return l, err
	}
	if l.Start, err = strconv.Atoi(p[2]); err != nil {
		return l, err
	}
	if l.End, err = strconv.Atoi(p[3]); err != nil {
		return l, err
	}
	l.AP, err = parseU64List(p[4], ".")
	return l, err
}

// parseBatch consumes lines from cmds[i] (a "batch" line) to the matching
// "endbatch" and returns the batch and the index after it.
func parseBatch(cmds []*Cmd, i int) (*BatchSpec, int, error) {
	b := &BatchSpec{Name: cmds[i].Pos[0]}
	i++
	var doc *DocSpec
	var fld *FieldSpec
	for ; i < len(cmds); i++ {
		c := cmds[i]
		switch c.Op {
		case "doc":
			id, err := unhx(c.Pos[0])
			if err != nil {
				return nil, i, err
			}
			b.Docs = append(b.Docs, DocSpec{ID: id, Plain: c.str("plain", "0") == "1"})
			doc = &b.Docs[len(b.Docs)-1]
			fld = nil
		case "comp":
			doc.Fields = append(doc.Fields, FieldSpec{Kind: "comp", Name: c.Pos[0], Len: c.num("len", 0), DV: c.str("dv", "0") == "1", Typ: 'c', TV: c.str("tv", ""), Compose: c.str("compose", "0") == "1"})
			fld = &doc.Fields[len(doc.Fields)-1]
		case "fld":
			ap, err := parseU64List(c.str("ap", "-"), ",")
			if err != nil {
				return nil, i, err
			}
			var val []byte
			rnd := ""
			if vs := c.str("val", "."); strings.HasPrefix(vs, "rnd:") {
				rnd = strings.TrimPrefix(vs, "rnd:")
				seed, n, ok := parseRnd(rnd)
				if !ok {
					return nil, i, fmt.Errorf("bad rnd value %q", vs)
				}
				val = rndBytes(seed, n)
			} else if val, err = unhx(vs); err != nil {
				return nil, i, err
			}
			var shape []byte
			if sh := c.str("shape", ""); sh != "" {
				if shape, err = unhx(sh); err != nil {
					return nil, i, err
				}
			}
			doc.Fields = append(doc.Fields, FieldSpec{Kind: "fld", Name: c.Pos[0], Typ: byte(c.num("typ", 't')),
				Stored: c.str("st", "0") == "1", DV: c.str("dv", "0") == "1", Len: c.num("len", 0), AP: ap, Val: val,
				TV: c.str("tv", ""), Rnd: rnd, Shape: shape})
			fld = &doc.Fields[len(doc.Fields)-1]
		case "syn":
			doc.Fields = append(doc.Fields, FieldSpec{Kind: "syn", Name: c.Pos[0]})
			fld = &doc.Fields[len(doc.Fields)-1]
		case "def":
			lhs, err := unhx(c.Pos[0])
			if err != nil {
				return nil, i, err
			}
			rhs, err := unhxList(c.str("rhs", "-"))
			if err != nil {
				return nil, i, err
			}
			fld.Defs = append(fld.Defs, SynDef{LHS: lhs, RHS: rhs})
		case "vec":
			x, err := parseIntList(c.str("x", "-"))
			if err != nil {
				return nil, i, err
			}
			doc.Fields = append(doc.Fields, FieldSpec{Kind: "vec", Name: c.Pos[0], Dim: c.num("dim", 1),
				Metric: c.str("metric", "l2_norm"), Opt: c.str("opt", "recall"), Vec: x})
			fld = &doc.Fields[len(doc.Fields)-1]
		case "tok":
			term, err := unhx(c.Pos[0])
			if err != nil {
				return nil, i, err
			}
			t := TokSpec{Term: term, Freq: c.num("f", 1)}
			for _, ls := range c.Multi["l"] {
				l, err := parseLoc(ls)
				if err != nil {
					return nil, i, err
				}
				t.Locs = append(t.Locs, l)
			}
			fld.Toks = append(fld.Toks, t)
		case "enddoc":
			doc = nil
			fld = nil
		case "endbatch":
			return b, i + 1, nil
		default:
			return nil, i, fmt.Errorf("line %d: unexpected %q inside batch", c.LineNo, c.Op)
		}
	}
	return nil, i, fmt.Errorf("unterminated batch %s", b.Name)
}

// Universe of a segment, tracked at script level (never from the
// implementation's answers): which fields / terms / thesauri could exist.
type Universe struct {
	Fields   map[string]map[string]bool // field -> terms (as raw strings)
	Thes     map[string]map[string]bool // thesaurus -> lhs terms
	VecFlds  map[string]int             // vector field -> dim
	MaxDocs  int
	IDs      map[string]bool
	VecScale int
}

func newUniverse() *Universe {
	return &Universe{Fields: map[string]map[string]bool{}, Thes: map[string]map[string]bool{}, VecFlds: map[string]int{}, IDs: map[string]bool{}}
}

func (u *Universe) addBatch(b *BatchSpec) {
	u.MaxDocs += len(b.Docs)
	for _, d := range b.Docs {
		u.IDs[string(d.ID)] = true
		for _, f := range d.Fields {
			if f.Kind == "syn" {
				if u.Thes[f.Name] == nil {
					u.Thes[f.Name] = map[string]bool{}
				}
				for _, sd := range f.Defs {
					u.Thes[f.Name][string(sd.LHS)] = true
				}
			}
			if f.Kind == "vec" {
				u.VecFlds[f.Name] = f.Dim
			}
			if u.Fields[f.Name] == nil {
				u.Fields[f.Name] = map[string]bool{}
			}
			if f.Kind == "comp" && f.Compose {
				for _, g := range d.Fields {
					if g.Kind == "fld" && g.Name != "_id" {
						for _, t := range g.Toks {
							u.Fields[f.Name][string(t.Term)] = true
						}
					}
				}
			}
			for _, t := range f.Toks {
				u.Fields[f.Name][string(t.Term)] = true
				for _, l := range t.Locs {
					if l.Src != "" && u.Fields[l.Src] == nil {
						u.Fields[l.Src] = map[string]bool{}
					}
				}
			}
		}
	}
}

func (u *Universe) union(o *Universe, docs int) {
	u.MaxDocs += docs
	for f, ts := range o.Fields {
		if u.Fields[f] == nil {
			u.Fields[f] = map[string]bool{}
		}
		for t := range ts {
			u.Fields[f][t] = true
		}
	}
	for f, ts := range o.Thes {
		if u.Thes[f] == nil {
			u.Thes[f] = map[string]bool{}
		}
		for t := range ts {
			u.Thes[f][t] = true
		}
	}
	for f, d := range o.VecFlds {
		u.VecFlds[f] = d
	}
	for id := range o.IDs {
		u.IDs[id] = true
	}
}

func sortedKeys(m map[string]bool) []string {
	out := make([]string, 0, len(m))
	for k := range m {
		out = append(out, k)
	}
	sort.Strings(out)
	return out
}

func sortedFieldNames(m map[string]map[string]bool) []string {
	out := make([]string, 0, len(m))
	for k := range m {
		out = append(out, k)
	}
	sort.Strings(out)
	return out
}
