module zxh

go 1.21

require (
	github.com/RoaringBitmap/roaring/v2 v2.4.5
	github.com/blevesearch/bleve_index_api v1.2.8
	github.com/blevesearch/go-faiss v1.0.25
	github.com/blevesearch/mmap-go v1.0.4
	github.com/blevesearch/scorch_segment_api/v2 v2.3.10
	github.com/blevesearch/vellum v1.1.0
	github.com/blevesearch/zapx/v16 v16.0.0
)

require (
	github.com/bits-and-blooms/bitset v1.22.0 // indirect
	github.com/golang/snappy v0.0.4 // indirect
	golang.org/x/sys v0.13.0 // indirect
)

replace github.com/blevesearch/zapx/v16 => /repo

replace github.com/blevesearch/go-faiss => /verif/fakefaiss
