package main

import (
	"fmt"
	"sort"
	"strings"
)

func init() {
	extraGens["C14"] = (*Gen).genC14
	extraGens["C15"] = (*Gen).genC15
	extraGens["C16"] = (*Gen).genC16
	extraGens["C19"] = (*Gen).genC19
	extraGens["FRZ"] = (*Gen).genFrozen
	extraGens["FRZB"] = func(g *Gen, n int) error {
		if n == 0 {
			n = 4
		}
		for i := 0; i < n; i++ {
			g.emit("note case %d", i)
			if i%4 == 3 {
				g.reopenedOnly = true
				g.wideSchemaCase(true)
				g.reopenedOnly = false
				continue
			}
			g.bigFrozenCase([]int{1026, 1025, 1024}[i%4])
		}
		return nil
	}
	extraGens["C09"] = func(g *Gen, n int) error {
		g.dumpfiles = true
		if n == 0 {
			n = g.tierN(60, 1200)
		}
		return g.genFrozen(n)
	}
}

// genFrozen: scripts whose files are written once by the pinned release and kept
// (corpus/frozen); only reopened segments are queried.
func (g *Gen) genFrozen(n int) error {
	if n == 0 {
		n = 40
	}
	for i := 0; i < n; i++ {
		g.emit("note case %d", i)
		if i%29 == 13 {
			g.bigFrozenCase([]int{1026, 1025}[(i/29)%2])
			continue
		}
		if i%29 == 21 && g.dumpfiles {
			g.wideSchemaCase(true)
			continue
		}
		if i%29 == 5 && g.dumpfiles {
			g.oneHitRemergeCase()
			continue
		}
		if i == 51 && g.dumpfiles {
			// the big merge with few deletions: terms on both sides of 1024 live documents in neighbouring
			// fields (among them the empty term as a field's first term), dumped
			g.forceBigVariant = 2
			g.bigMergeCase()
			g.forceBigVariant = 0
			continue
		}
		if i == 44 && g.dumpfiles {
			// a big input merged behind small ones that lack the field / the terms: the reader written from
			// the layout derives the chunk size from the bitmap it finds
			g.forceBigVariant = 5
			g.bigMergeCase()
			g.forceBigVariant = 0
			continue
		}
		if i == 33 && g.dumpfiles {
			g.storedArraysMergeCase()
			continue
		}
		if i == 38 && g.dumpfiles {
			// a doc-value field without any value in the middle chunk, built and merged, both dumped
			g.sparseDvMergeCase()
			continue
		}
		m := chunkModes[i%len(chunkModes)]
		g.curMode = m
		g.emit("cfg chunkmode=%d", m)
		var opened []string
		nb := 1 + g.r.Intn(2)
		for k := 0; k < nb; k++ {
			cfg := g.defaultCfg()
			cfg.minDocs = 2
			cfg.syn = i%3 == 0
			cfg.vec = g.vectors
			b := g.randBatch(g.fresh("b"), cfg)
			g.emitBatch(b)
			s := g.fresh("s")
			g.emit("build %s %s", s, b.Name)
			g.newBuilt(s, b)
			f := g.fresh("f")
			g.emit("persist %s %s", s, f)
			if g.dumpfiles {
				g.emit("dumpfile %s", f)
			}
			g.emit("footer %s mode=%d docs=%d", f, m, len(b.Docs))
			o := g.fresh("o")
			g.emit("open %s %s", o, f)
			g.alias(o, s)
			g.dumpAll(o)
			g.vecLight(o)
			opened = append(opened, o)
		}
		// one merge with at least one survivor, and a re-merge of its result
		var drops []string
		total := 0
		u := newUniverse()
		for k, o := range opened {
			d := g.randDrops(g.ndocs[o])
			if k == 0 {
				d = g.pick([]string{"nil", "-", "0"})
			}
			drops = append(drops, d)
			total += g.ndocs[o] - dropCount(d)
			u.union(g.univ[o], 0)
		}
		mf := g.fresh("f")
		g.emit("merge %s segs=%s drops=%s", mf, strList(opened), strings.Join(drops, "|"))
		if g.dumpfiles {
			g.emit("dumpfile %s", mf)
		}
		mm := g.fresh("m")
		g.emit("open %s %s", mm, mf)
		g.univ[mm] = u
		g.ndocs[mm] = total
		g.dumpAll(mm)
		g.vecLight(mm)
		mf2 := g.fresh("f")
		d2 := "nil"
		if total > 1 {
			d2 = "0"
		}
		g.emit("merge %s segs=%s drops=%s", mf2, mm, d2)
		if g.dumpfiles {
			g.emit("dumpfile %s", mf2)
		}
		m2 := g.fresh("m")
		g.emit("open %s %s", m2, mf2)
		g.univ[m2] = u
		g.ndocs[m2] = total - dropCount(d2)
		g.dumpAll(m2)
		g.vecLight(m2)
		for _, o := range append(opened, mm, m2) {
			g.emit("close %s", o)
		}
	}
	return nil
}

// vecOfDoc returns the first vector of document d in the given vector field, if any.
func vecOfDoc(b *BatchSpec, d int, field string) []int {
	if d < 0 || d >= len(b.Docs) {
		return nil
	}
	for _, f := range b.Docs[d].Fields {
		if f.Kind == "vec" && f.Name == field && len(f.Vec) >= f.Dim && f.Dim > 0 {
			return f.Vec[:f.Dim]
		}
	}
	return nil
}

func (g *Gen) vecLight(seg string) {
	if !g.vectors {
		return
	}
	nd := g.ndocs[seg]
	for _, f := range []string{"vecA", "vecB"} {
		h := g.fresh("h")
		ex := g.randDrops(nd)
		g.emit("vopen %s %s %s filt=1 ex=%s", h, seg, f, ex)
		g.emit("vsearch %s q=%s k=%d", h, g.randQuery(2), 1+g.r.Intn(nd+1))
		g.emit("vsearch %s q=%s k=%d", h, g.randQuery(2), nd*3)
		g.emit("vsearch %s q=%s k=%d elig=%s", h, g.randQuery(2), 2, g.liveSubset(nd, ex, 1))
		g.emit("vclose %s", h)
	}
	g.emit("vstats %s", seg)
}

func (g *Gen) vecCfg() batchCfg {
	cfg := g.defaultCfg()
	cfg.vec = true
	cfg.minDocs, cfg.maxDocs = 1, g.tierN(6, 10)
	cfg.maxFields = 2
	return cfg
}

func (g *Gen) randQuery(dim int) string {
	q := make([]int, dim)
	for i := range q {
		q[i] = g.r.Intn(9) - 4
	}
	return intList(q)
}

// liveSubset returns a random eligible set: mostly documents outside the exclusion spec, in 30 % of
// the calls also excluded ones.
func (g *Gen) liveSubset(nd int, ex string, mode int) string {
	excl := map[int]bool{}
	if ex != "nil" && ex != "-" {
		for _, s := range strings.Split(ex, ",") {
			var v int
			fmt.Sscanf(s, "%d", &v)
			excl[v] = true
		}
	}
	var out []int
	// the eligible set is the caller's: it may well name documents that the exclusion bitmap
	// removes (the full-selectivity case - every document eligible - is one the code itself expects)
	withExcluded := g.chance(0.3)
	for d := 0; d < nd; d++ {
		if excl[d] && !(withExcluded && g.chance(0.7)) {
			continue
		}
		switch mode {
		case 0: // all live docs
			out = append(out, d)
		case 1:
			if g.chance(0.5) {
				out = append(out, d)
			}
		}
	}
	return intList(out)
}

var vecFieldDims = map[string]int{"vecA": 2, "vecB": 2}

func (g *Gen) vecQueries(seg string, handlePrefix string) {
	nd := g.ndocs[seg]
	for _, f := range []string{"vecA", "vecB", "novec", "body"} {
		dim := 2
		// the order of the handles matters: whichever comes first fills the segment's cache
		type combo struct{ ex, filt string }
		var combos []combo
		for _, ex := range g.exclusions(min(nd, 4)) {
			for _, filt := range []string{"0", "1"} {
				combos = append(combos, combo{ex, filt})
			}
		}
		g.r.Shuffle(len(combos), func(i, j int) { combos[i], combos[j] = combos[j], combos[i] })
		// one eligible set that the caller keeps and hands to every filtered handle of the field
		shared := g.liveSubset(nd, "nil", 1)
		for _, cb := range combos {
			ex, filt := cb.ex, cb.filt
			{
				h := g.fresh(handlePrefix)
				g.emit("vopen %s %s %s filt=%s ex=%s", h, seg, f, filt, ex)
				if filt == "1" && shared != "-" {
					g.emit("vsearch %s q=%s k=%d elig=%s", h, g.randQuery(dim), nd+3, shared)
				}
				for _, k := range []int{0, 1, 2, nd, nd + 3} {
					if k == 0 && !g.chance(0.2) {
						continue
					}
					g.emit("vsearch %s q=%s k=%d", h, g.randQuery(dim), k)
					if filt == "1" {
						g.emit("vsearch %s q=%s k=%d elig=%s", h, g.randQuery(dim), k, g.liveSubset(nd, ex, g.r.Intn(2)))
					}
				}
				if g.chance(0.3) {
					// wrong dimension: one more, one less, whole multiples
					g.emit("vsearch %s q=%s k=2", h, g.randQuery([]int{dim + 1, dim - 1, 2 * dim, 3 * dim}[g.r.Intn(4)]))
					if filt == "1" {
						g.emit("vsearch %s q=%s k=2 elig=%s", h, g.randQuery(2*dim), g.liveSubset(nd, ex, 1))
					}
				}
				g.emit("vclose %s", h)
				g.st("vec.handle")
			}
		}
	}
	g.emit("vstats %s", seg)
}

func (g *Gen) genC14(n int) error {
	if n == 0 {
		n = g.tierN(40, 600)
	}
	for i := 0; i < n; i++ {
		g.emit("note case %d", i)
		g.emit("vreset")
		g.setMode()
		if i%40 == 17 || i%40 == 29 {
			// the index class of a field depends on that field's own vector count: two fields of 600
			// vectors each are exact ones (17); a field of exactly 1000 vectors is the first clustered one (29)
			g.vectorCountCase(i%40 == 29)
			g.st("case")
			continue
		}
		if i%40 == 7 || i%40 == 23 {
			g.vecMergedLackingCase()
			g.st("case")
			continue
		}
		if i%40 == 11 {
			g.emptiedVectorFieldCase()
			g.st("case")
			continue
		}
		if i%40 == 3 {
			g.identicalVectorsCase()
			g.st("case")
			continue
		}
		cfg := g.vecCfg()
		if g.tier == "thorough" && i%100 == 99 || g.tier == "quick" && i%40 == 39 {
			// clustered index class: at least 1000 vectors
			cfg.minDocs, cfg.maxDocs = 520, 600
			cfg.maxFields = 1
			cfg.vecOne, cfg.vecAll = true, true
			// the optimisation decides the index description and the number of clusters probed
			cfg.vecOptOverride = []string{"latency", "memory-efficient", "recall"}[g.stats["vec.clustered"]%3]
		}
		b := g.randBatch(g.fresh("b"), cfg)
		if countVecs(b, "vecA") >= 1000 || countVecs(b, "vecB") >= 1000 {
			g.st("vec.clustered")
			g.st("vec.clustered." + cfg.vecOptOverride)
		}
		g.emitBatch(b)
		s := g.fresh("s")
		g.emit("build %s %s", s, b.Name)
		g.newBuilt(s, b)
		f := g.fresh("f")
		g.emit("persist %s %s", s, f)
		o := g.fresh("o")
		g.emit("open %s %s", o, f)
		g.alias(o, s)
		if i%5 == 1 && len(b.Docs) <= 50 {
			// the engine fails while a field's index is loaded for the first caller: that caller gets
			// the error, the next one a working index
			nd := len(b.Docs)
			o2 := g.fresh("o")
			g.emit("open %s %s", o2, f)
			g.alias(o2, s)
			for _, fn := range []string{"vecA", "vecB"} {
				h1, h2 := g.fresh("h"), g.fresh("h")
				g.emit("vopen %s %s %s filt=%s ex=nil engfail=ReadIndexFromBuffer:1", h1, o2, fn, g.pick([]string{"0", "1"}))
				g.emit("vopen %s %s %s filt=0 ex=nil", h2, o2, fn)
				g.emit("vsearch %s q=%s k=%d", h2, g.randQuery(2), nd*3)
				g.emit("vclose %s", h2)
			}
			g.emit("close %s", o2)
			g.emit("vcounters")
		}
		if i%5 == 2 && len(b.Docs) <= 50 {
			// a handle that asks for filtering comes to an index that a plain handle had cached; the plain
			// one leaves, expiry passes go by, and the remaining handle still searches a live index
			nd := len(b.Docs)
			o2 := g.fresh("o")
			g.emit("open %s %s", o2, f)
			g.alias(o2, s)
			for _, fn := range []string{"vecA", "vecB"} {
				hu, hf := g.fresh("h"), g.fresh("h")
				ex := g.randDrops(nd)
				g.emit("vopen %s %s %s filt=0 ex=nil", hu, o2, fn)
				g.emit("vsearch %s q=%s k=%d", hu, g.randQuery(2), nd*3)
				g.emit("vopen %s %s %s filt=1 ex=%s", hf, o2, fn, ex)
				g.emit("vclose %s", hu)
				for t := 0; t < 3; t++ {
					g.emit("vtick %s", o2)
				}
				g.emit("vsearch %s q=%s k=%d", hf, g.randQuery(2), nd*3)
				g.emit("vsearch %s q=%s k=%d elig=%s", hf, g.randQuery(2), nd*3, g.liveSubset(nd, ex, 1))
				g.emit("vclose %s", hf)
				g.emit("vtick %s", o2)
			}
			g.emit("close %s", o2)
			g.emit("vcounters")
			g.st("vec.filteredOutlivesPlain")
		}
		if i%5 == 3 && len(b.Docs) <= 50 {
			// first opens of an uncached field by several goroutines at once, all with the same
			// exclusion bitmap: winner and losers of the race answer alike
			nd := len(b.Docs)
			for r := 0; r < g.tierN(80, 200); r++ {
				o2 := g.fresh("o")
				g.emit("open %s %s", o2, f)
				g.alias(o2, s)
				hp := g.fresh("h")
				// exclusions that matter: documents that do carry vectors of the field
				fn := g.pick([]string{"vecA", "vecB"})
				var owners []int
				for d := 0; d < nd; d++ {
					if vecOfDoc(b, d, fn) != nil {
						owners = append(owners, d)
					}
				}
				if len(owners) == 0 {
					fn = "vecA"
					for d := 0; d < nd; d++ {
						if vecOfDoc(b, d, fn) != nil {
							owners = append(owners, d)
						}
					}
				}
				ex := g.randDrops(nd)
				if len(owners) > 0 {
					g.r.Shuffle(len(owners), func(a, c int) { owners[a], owners[c] = owners[c], owners[a] })
					cut := owners[:1+g.r.Intn(len(owners))]
					sorted := append([]int(nil), cut...)
					sort.Ints(sorted)
					ex = intList(sorted)
				}
				g.emit("par %d rounds=1 ordered=1", 8+g.r.Intn(9))
				g.emit("vopen %s %s %s filt=g ex=%s", hp, o2, fn, ex)
				g.emit("vsearch %s q=%s k=%d", hp, g.randQuery(2), nd*3)
				g.emit("vclose %s", hp)
				g.emit("endpar")
				g.emit("close %s", o2)
			}
			g.emit("vcounters")
		}
		if len(b.Docs) > 50 {
			for _, seg := range []string{s, o} {
				for _, fn := range []string{"vecA", "vecB"} {
					h := g.fresh("h")
					ex := g.randDrops(len(b.Docs))
					if seg == o {
						// (never empty for the opened copy: documents early in the segment, in its middle, at its end)
						ex = intList([]int{1, 4, 9, len(b.Docs) / 3, len(b.Docs) / 2, len(b.Docs) - 2})
					}
					g.emit("vopen %s %s %s filt=1 ex=%s", h, seg, fn, ex)
					for q := 0; q < 6; q++ {
						g.emit("vsearch %s q=%s k=%d", h, g.randQuery(2), 1+g.r.Intn(8))
						g.emit("vsearch %s q=%s k=%d elig=%s", h, g.randQuery(2), 1+g.r.Intn(8), g.liveSubset(len(b.Docs), ex, 1))
					}
					// eligible = a prefix of the live documents (more than half of them); queries sit exactly on
					// vectors of documents beyond the prefix and inside it
					nd := len(b.Docs)
					cut := nd*6/10 + g.r.Intn(nd*3/10)
					var pre []int
					exset := map[string]bool{}
					if ex != "nil" && ex != "-" {
						for _, x := range strings.Split(ex, ",") {
							exset[x] = true
						}
					}
					for d := 0; d < cut; d++ {
						if !exset[fmt.Sprint(d)] {
							pre = append(pre, d)
						}
					}
					for _, d := range []int{nd - 1, nd - 2, cut, cut + 1, cut / 2, 0} {
						if v := vecOfDoc(b, d, fn); v != nil {
							g.emit("vsearch %s q=%s k=%d elig=%s", h, intList(v), 1+g.r.Intn(3), intList(pre))
							g.emit("vsearch %s q=%s k=%d elig=%s", h, intList(v), 30+g.r.Intn(30), intList(pre))
							g.emit("vsearch %s q=%s k=1", h, intList(v))
						}
					}
					// the same prefix as the caller's filter would produce it, i.e. WITH the excluded
					// documents in it; queries sit on vectors of excluded documents inside the prefix
					var preX, exIn []int
					for d := 0; d < cut; d++ {
						preX = append(preX, d)
						if exset[fmt.Sprint(d)] && vecOfDoc(b, d, fn) != nil && len(exIn) < 4 {
							exIn = append(exIn, d)
						}
					}
					for _, d := range exIn {
						v := vecOfDoc(b, d, fn)
						g.emit("vsearch %s q=%s k=%d elig=%s", h, intList(v), 1+g.r.Intn(3), intList(preX))
						g.emit("vsearch %s q=%s k=40 elig=%s", h, intList(v), intList(preX))
						g.st("vec.eligNamesExcluded")
					}
					g.emit("vclose %s", h)
				}
				g.emit("vstats %s", seg)
			}
		} else {
			g.vecQueries(s, "h")
			g.vecQueries(o, "h")
		}
		g.emit("close %s", o)
		g.emit("close %s", s)
		g.emit("vcounters")
		g.st("case")
	}
	return nil
}

// bigVecMerge: one input with a clustered index (>= 1000 vectors) merged with deletions;
// queries sit exactly on vectors of deleted and of surviving documents.
func (g *Gen) bigVecMerge() {
	g.setMode()
	cfg := g.vecCfg()
	cfg.minDocs, cfg.maxDocs = 520, 600
	cfg.maxFields = 0
	cfg.vecOne, cfg.vecAll = true, true
	cfg.vecOptOverride = []string{"memory-efficient", "latency", "recall"}[(g.stats["vec.bigmerge"]/3)%3]
	b := g.randBatch(g.fresh("b"), cfg)
	if g.stats["vec.bigmerge"]%3 == 0 {
		// the big vector merges that stay clustered (exactly 1000 survivors) are over an inner-product field with vectors of all lengths
		// (scores are inner products of the vectors as they were indexed, not of normalised ones)
		for d := range b.Docs {
			for k := range b.Docs[d].Fields {
				if f := &b.Docs[d].Fields[k]; f.Kind == "vec" {
					f.Metric = "dot_product"
					for x := range f.Vec {
						f.Vec[x] *= 1 + d%7
					}
				}
			}
		}
		g.st("vec.bigmerge.dotproduct")
	}
	g.emitBatch(b)
	s := g.fresh("s")
	g.emit("build %s %s", s, b.Name)
	g.newBuilt(s, b)
	nd := len(b.Docs)
	var dropped []int
	frac := 0.1
	variant := g.stats["vec.bigmerge"] % 3 // 0: exactly 1000 survivors, 1: fewer than 1000, 2: a few deletions
	if variant == 1 {
		// so many deletions that fewer than 1000 vectors survive: the merged index is an exact one again
		frac = 0.45
		g.st("vec.bigmerge.exactagain")
	}
	for d := 0; d < nd; d++ {
		if d < 10 || g.chance(frac) {
			dropped = append(dropped, d)
		}
	}
	if variant == 0 {
		// exactly 1000 surviving vectors: the smallest clustered index
		dropped = dropped[:0]
		left := countVecs(b, "vecA")
		for d := 0; d < nd && left > 1000; d++ {
			if v := docVecCount(b, d, "vecA"); v > 0 && left-v >= 1000 {
				dropped = append(dropped, d)
				left -= v
			}
		}
		if left == 1000 {
			g.st("vec.bigmerge.exactly1000")
		}
	}
	f := g.fresh("f")
	g.emit("merge %s segs=%s drops=%s", f, s, intList(dropped))
	m := g.fresh("m")
	g.emit("open %s %s", m, f)
	g.emit("vstats %s", m)
	h := g.fresh("h")
	g.emit("vopen %s %s vecA filt=0 ex=nil", h, m)
	for _, d := range []int{0, 3, 9, 10, 11, nd / 2, nd - 1} {
		if v := vecOfDoc(b, d, "vecA"); v != nil {
			g.emit("vsearch %s q=%s k=1", h, intList(v))
			g.emit("vsearch %s q=%s k=5", h, intList(v))
		}
	}
	// every surviving vector, and a best-50: exact answers when the index is an exact one
	g.emit("vsearch %s q=%s k=%d", h, g.randQuery(2), 3*nd)
	g.emit("vsearch %s q=%s k=50", h, g.randQuery(2))
	g.emit("vclose %s", h)
	// the merge result used a second time: filtered searches of low and of high selectivity (a
	// clustered index answers them through its id map), and the result merged again
	nm := nd - len(dropped)
	var third, most []int
	for d := 0; d < nm; d++ {
		if d%3 == 0 {
			third = append(third, d)
		}
		if d%5 != 4 {
			most = append(most, d)
		}
	}
	isDropped := map[int]bool{}
	for _, d := range dropped {
		isDropped[d] = true
	}
	var orig []int // merged document j was document orig[j] of the input
	for d := 0; d < nd; d++ {
		if !isDropped[d] {
			orig = append(orig, d)
		}
	}
	hf := g.fresh("h")
	g.emit("vopen %s %s vecA filt=1 ex=2,7", hf, m)
	for _, el := range [][]int{third, most} {
		g.emit("vsearch %s q=%s k=4 elig=%s", hf, g.randQuery(2), intList(el))
		// the eligible sets name the excluded documents 2 and 7 (`most`) or not (`third`): a query on
		// their very vectors must not bring them back
		for _, j := range []int{2, 7} {
			if j < len(orig) {
				if v := vecOfDoc(b, orig[j], "vecA"); v != nil {
					g.emit("vsearch %s q=%s k=2 elig=%s", hf, intList(v), intList(el))
				}
			}
		}
		if v := vecOfDoc(b, nd-1, "vecA"); v != nil {
			g.emit("vsearch %s q=%s k=3 elig=%s", hf, intList(v), intList(el))
		}
	}
	g.emit("vclose %s", hf)
	var again []int
	for d := 0; d < nm; d++ {
		if d%11 == 3 {
			again = append(again, d)
		}
	}
	f2 := g.fresh("f")
	g.emit("merge %s segs=%s drops=%s", f2, m, intList(again))
	m2 := g.fresh("m")
	g.emit("open %s %s", m2, f2)
	g.emit("vstats %s", m2)
	h2 := g.fresh("h")
	g.emit("vopen %s %s vecA filt=0 ex=nil", h2, m2)
	g.emit("vsearch %s q=%s k=%d", h2, g.randQuery(2), 3*nd)
	if v := vecOfDoc(b, nd-1, "vecA"); v != nil {
		g.emit("vsearch %s q=%s k=2", h2, intList(v))
	}
	g.emit("vclose %s", h2)
	g.emit("close %s", m2)
	g.emit("close %s", m)
	g.emit("close %s", s)
	g.st("vec.bigmerge")
}

// ancestorMergeCase: A and B merged into M, then A merged with M while M's copies of A's documents are
// deleted (and, the other way round, A's documents deleted in favour of M's copies): every vector is
// owned by exactly one surviving document, although the same vector ids occur in two inputs.
func (g *Gen) ancestorMergeCase() {
	g.setMode()
	mk := func(nd int) (string, *BatchSpec) {
		b := &BatchSpec{Name: g.fresh("b")}
		for d := 0; d < nd; d++ {
			id := []byte(fmt.Sprintf("%s-%d", b.Name, d))
			doc := DocSpec{ID: id, Plain: true}
			doc.Fields = append(doc.Fields, FieldSpec{Kind: "fld", Name: "_id", Typ: 't', Stored: true, Len: 1, Val: id, Toks: []TokSpec{{Term: id, Freq: 1}}})
			doc.Fields = append(doc.Fields, FieldSpec{Kind: "vec", Name: "vecA", Dim: 2, Metric: "l2_norm", Opt: g.vecOpt["vecA"], Vec: []int{g.r.Intn(9) - 4, g.r.Intn(9) - 4}})
			b.Docs = append(b.Docs, doc)
		}
		g.emitBatch(b)
		s := g.fresh("s")
		g.emit("build %s %s", s, b.Name)
		g.newBuilt(s, b)
		return s, b
	}
	a, ba := mk(5)
	bseg, bb := mk(4)
	fm := g.fresh("f")
	g.emit("merge %s segs=%s,%s drops=nil|nil", fm, a, bseg)
	m := g.fresh("m")
	g.emit("open %s %s", m, fm)
	g.ndocs[m] = 9
	for _, c := range []struct{ segs, drops string }{
		{a + "," + m, "nil|0,1,2,3,4"}, {m + "," + a, "0,1,2,3,4|nil"}, {a + "," + m, "0,1,2,3,4|nil"}, {a + "," + m, "0,2,4|1,3"},
	} {
		f2 := g.fresh("f")
		g.emit("merge %s segs=%s drops=%s", f2, c.segs, c.drops)
		m2 := g.fresh("m")
		g.emit("open %s %s", m2, f2)
		g.emit("vstats %s", m2)
		h := g.fresh("h")
		g.emit("vopen %s %s vecA filt=0 ex=nil", h, m2)
		for _, bx := range []*BatchSpec{ba, bb} {
			for d := range bx.Docs {
				g.emit("vsearch %s q=%s k=2", h, intList(vecOfDoc(bx, d, "vecA")))
			}
		}
		g.emit("vsearch %s q=%s k=40", h, g.randQuery(2))
		g.emit("vclose %s", h)
		g.emit("close %s", m2)
	}
	g.emit("close %s", m)
	g.emit("close %s", a)
	g.emit("close %s", bseg)
	g.emit("vcounters")
	g.st("vec.ancestormerge")
}

func (g *Gen) genC15(n int) error {
	if n == 0 {
		n = g.tierN(30, 500)
	}
	for i := 0; i < n; i++ {
		g.emit("note case %d", i)
		g.emit("vreset")
		if i%20 == 13 {
			g.ancestorMergeCase()
			g.st("case")
			continue
		}
		if i%20 == 7 {
			g.bigVecMerge()
			continue
		}
		if i%20 == 1 {
			g.manyFieldsVecMergeCase()
			g.st("case")
			continue
		}
		if i%10 == 4 {
			g.engFaultMergeCase(g.stats["vec.engfaultmerge"]%2 == 1)
			g.st("case")
			continue
		}
		if i%10 == 8 {
			g.sameVectorCase()
			g.st("case")
			continue
		}
		if i%10 == 2 {
			g.emptiedVectorFieldCase()
			g.st("case")
			continue
		}
		depth := 1 + g.r.Intn(3)
		var opened []string
		g.disjoint = true
		g.genMergeCase(func(c *batchCfg) {
			c.vec = true
			if c.maxDocs > 5 {
				c.maxDocs = 5
			}
		}, func(m string) {
			opened = append(opened, m)
			g.vecQueries(m, "h")
			g.dumpStored(m)
		}, depth)
		g.st("case")
	}
	return nil
}

// genC16: event histories open / search / close-handle / tick / segment-close.
// clusteredHistoryCase: a clustered index (>= 1000 vectors), whose answers the model leaves partly
// open, must still answer one question one way: the same search before and after filtered searches
// of other selectivity on the same cached index, after an eviction and reload, and on a second,
// fresh open of the same file (`same=` tags).
func (g *Gen) clusteredHistoryCase() {
	g.setMode()
	cfg := g.vecCfg()
	cfg.minDocs, cfg.maxDocs = 520, 600
	cfg.maxFields = 0
	cfg.vecOne, cfg.vecAll = true, true
	cfg.vecOptOverride = []string{"recall", "latency", "memory-efficient"}[g.stats["c16.clusteredhistory"]%3]
	b := g.randBatch(g.fresh("b"), cfg)
	g.emitBatch(b)
	s := g.fresh("s")
	g.emit("build %s %s", s, b.Name)
	g.newBuilt(s, b)
	f := g.fresh("f")
	g.emit("persist %s %s", s, f)
	o1, o2 := g.fresh("o"), g.fresh("o")
	g.emit("open %s %s", o1, f)
	g.alias(o1, s)
	nd := len(b.Docs)
	tag := g.fresh("t")
	qs := []string{g.randQuery(2), intList(vecOfDoc(b, nd/2, "vecA")), g.randQuery(2)}
	h := g.fresh("h")
	g.emit("vopen %s %s vecA filt=1 ex=nil", h, o1)
	var every3 []int
	for d := 0; d < nd; d += 3 {
		every3 = append(every3, d)
	}
	ask := func(hh string) {
		for qi, q := range qs {
			g.emit("vsearch %s q=%s k=400 same=%s.%d.400", hh, q, tag, qi)
			g.emit("vsearch %s q=%s k=7 same=%s.%d.7", hh, q, tag, qi)
		}
	}
	// filtered questions asked again and again (handles that do not filter cannot ask them)
	askF := func(hh string) {
		for qi, q := range qs {
			for r := 0; r < 3; r++ {
				g.emit("vsearch %s q=%s k=150 elig=%s same=%s.f%d", hh, q, intList(every3), tag, qi)
			}
		}
	}
	ask(h)
	askF(h)
	// filtered searches that need fewer / more clusters than the index was built to probe
	g.emit("vsearch %s q=%s k=5 elig=%d", h, qs[0], nd/3)
	ask(h)
	var half []int
	for d := 0; d < nd; d += 2 {
		half = append(half, d)
	}
	g.emit("vsearch %s q=%s k=50 elig=%s", h, qs[1], intList(half))
	g.emit("vsearch %s q=%s k=3 elig=%d,%d", h, qs[2], 1, nd-1)
	ask(h)
	askF(h)
	g.emit("vclose %s", h)
	for t := 0; t < 6; t++ {
		g.emit("vtick %s", o1)
	}
	h2 := g.fresh("h")
	g.emit("vopen %s %s vecA filt=0 ex=nil", h2, o1)
	ask(h2)
	g.emit("vclose %s", h2)
	g.emit("open %s %s", o2, f)
	g.alias(o2, s)
	h3 := g.fresh("h")
	g.emit("vopen %s %s vecA filt=1 ex=nil", h3, o2)
	askF(h3)
	ask(h3)
	g.emit("vclose %s", h3)
	g.emit("close %s", o2)
	g.emit("close %s", o1)
	g.emit("close %s", s)
	g.emit("vcounters")
	g.st("c16.clusteredhistory")
}

func (g *Gen) genC16(n int) error {
	if n == 0 {
		n = g.tierN(60, 1500)
	}
	maxEv := g.tierN(8, 12)
	for i := 0; i < n; i++ {
		g.emit("note case %d", i)
		g.emit("vreset")
		if i%30 == 6 {
			g.clusteredHistoryCase()
			g.st("case")
			continue
		}
		g.setMode()
		cfg := g.vecCfg()
		cfg.minDocs, cfg.maxDocs = 3, 4
		b := g.randBatch(g.fresh("b"), cfg)
		g.emitBatch(b)
		s := g.fresh("s")
		g.emit("build %s %s", s, b.Name)
		g.newBuilt(s, b)
		seg := s
		if g.chance(0.6) {
			f := g.fresh("f")
			g.emit("persist %s %s", s, f)
			seg = g.fresh("o")
			g.emit("open %s %s", seg, f)
			g.alias(seg, s)
		}
		nd := len(b.Docs)
		var open []string
		openFilt := map[string]bool{}
		openEx := map[string]string{}
		if i%4 == 0 && nd >= 3 {
			// the caller that makes the cache load the index excludes one document; the next callers, served
			// from the cache, exclude another single document each (same number of exclusions, other
			// documents), then two, then none: every one gets its own exclusions applied
			fn := g.pick([]string{"vecA", "vecB"})
			for _, ex := range []string{"0", "1", intList([]int{nd - 1}), "0,1", intList([]int{1, nd - 1}), "nil", "0"} {
				hx1 := g.fresh("h")
				g.emit("vopen %s %s %s filt=%s ex=%s", hx1, seg, fn, g.pick([]string{"0", "1"}), ex)
				g.emit("vsearch %s q=%s k=%d", hx1, g.randQuery(2), nd*3)
				g.emit("vclose %s", hx1)
			}
			g.emit("vrefs %s", seg)
			g.st("c16.samesizeexclusions")
		}
		if i%4 == 1 {
			// an unfiltered caller fills the cache, the first filtering caller (with its own exclusions)
			// upgrades the entry; its unfiltered and full-selectivity searches still honour the exclusions
			fn := g.pick([]string{"vecA", "vecB"})
			h1, h2 := g.fresh("h"), g.fresh("h")
			g.emit("vopen %s %s %s filt=0 ex=%s", h1, seg, fn, g.randDrops(nd))
			g.emit("vsearch %s q=%s k=%d", h1, g.randQuery(2), nd*3)
			ex2 := intList([]int{0, nd - 1})
			g.emit("vopen %s %s %s filt=1 ex=%s", h2, seg, fn, ex2)
			g.emit("vsearch %s q=%s k=%d", h2, g.randQuery(2), nd*3)
			all := make([]int, nd)
			for d := range all {
				all[d] = d
			}
			g.emit("vsearch %s q=%s k=%d elig=%s", h2, g.randQuery(2), nd*3, intList(all))
			g.emit("vsearch %s q=%s k=%d elig=%s", h2, g.randQuery(2), nd*3, g.liveSubset(nd, ex2, 1))
			g.emit("vclose %s", h1)
			g.emit("vclose %s", h2)
			g.emit("vrefs %s", seg)
		}
		if i%8 == 4 {
			// the engine fails inside a search of one caller: that caller gets the error and closes its
			// handle as usual; the other caller's handle on the same field stays valid through any
			// number of expiry passes, and nothing is released twice
			for _, fn := range []string{"vecA", "vecB"} {
				for _, op := range []string{"SearchWithoutIDs", "SearchWithIDs"} {
					ha, hb := g.fresh("h"), g.fresh("h")
					g.emit("vopen %s %s %s filt=1 ex=nil", ha, seg, fn)
					g.emit("vopen %s %s %s filt=1 ex=%s", hb, seg, fn, g.randDrops(nd))
					if op == "SearchWithoutIDs" {
						g.emit("vsearch %s q=%s k=%d engfail=%s:1", hb, g.randQuery(2), nd*3, op)
					} else {
						g.emit("vsearch %s q=%s k=%d elig=%s engfail=%s:1", hb, g.randQuery(2), nd*3, intList([]int{0, 1}), op)
					}
					g.emit("vclose %s", hb)
					for t := 0; t < 6; t++ {
						g.emit("vtick %s", seg)
					}
					g.emit("vrefs %s", seg)
					g.emit("vsearch %s q=%s k=%d", ha, g.randQuery(2), nd*3)
					g.emit("vclose %s", ha)
					g.emit("vcounters")
				}
			}
			g.st("c16.failedsearch")
		}
		if i%4 == 3 {
			// the engine fails while the first caller's index is loaded (a cache miss), also after an
			// eviction: that caller gets the error, nothing stays cached or alive, and the next caller
			// gets a working index with complete answers
			for _, fn := range []string{"vecA", "vecB"} {
				h1, h2, h3 := g.fresh("h"), g.fresh("h"), g.fresh("h")
				g.emit("vopen %s %s %s filt=%s ex=nil engfail=ReadIndexFromBuffer:1", h1, seg, fn, g.pick([]string{"0", "1"}))
				g.emit("vrefs %s", seg)
				g.emit("vopen %s %s %s filt=0 ex=%s", h2, seg, fn, g.randDrops(nd))
				g.emit("vsearch %s q=%s k=%d", h2, g.randQuery(2), nd*3)
				g.emit("vclose %s", h2)
				g.emit("vtick %s", seg)
				g.emit("vtick %s", seg)
				g.emit("vopen %s %s %s filt=1 ex=nil engfail=ReadIndexFromBuffer:1", h1, seg, fn)
				g.emit("vopen %s %s %s filt=1 ex=nil", h3, seg, fn)
				g.emit("vsearch %s q=%s k=%d", h3, g.randQuery(2), nd*3)
				g.emit("vclose %s", h3)
				g.emit("vrefs %s", seg)
			}
			g.emit("vcounters")
			g.st("c16.failedload")
		}
		if i%4 == 2 {
			// first opens of an uncached field by several goroutines at once, every other one filtering:
			// a freshly opened segment (empty cache) per round; nothing may be left alive afterwards
			f2 := g.fresh("f")
			g.emit("persist %s %s", s, f2)
			fn := g.pick([]string{"vecA", "vecB"})
			for r := 0; r < g.tierN(40, 150); r++ {
				o2 := g.fresh("o")
				g.emit("open %s %s", o2, f2)
				g.alias(o2, s)
				hp := g.fresh("h")
				g.emit("par %d rounds=1 ordered=1", 8+g.r.Intn(9))
				g.emit("vopen %s %s %s filt=g ex=nil", hp, o2, fn)
				g.emit("vsearch %s q=%s k=%d", hp, g.randQuery(2), nd*3)
				g.emit("vclose %s", hp)
				g.emit("endpar")
				g.emit("vrefs %s", o2)
				g.emit("close %s", o2)
				g.emit("vcounters")
			}
		}
		nev := 3 + g.r.Intn(maxEv)
		for e := 0; e < nev; e++ {
			switch g.r.Intn(10) {
			case 0, 1, 2:
				h := g.fresh("h")
				filt, ex := g.pick([]string{"0", "1"}), g.randDrops(nd)
				g.emit("vopen %s %s %s filt=%s ex=%s", h, seg, g.pick([]string{"vecA", "vecB"}), filt, ex)
				open = append(open, h)
				openFilt[h] = filt == "1"
				openEx[h] = ex
			case 3, 4, 5:
				if len(open) > 0 {
					k := g.r.Intn(len(open))
					g.emit("vsearch %s q=%s k=%d", open[k], g.randQuery(2), 1+g.r.Intn(nd+2))
					if openFilt[open[k]] {
						g.emit("vsearch %s q=%s k=%d elig=%s", open[k], g.randQuery(2), 1+g.r.Intn(nd+2), g.liveSubset(nd, openEx[open[k]], 1))
					}
				}
			case 6, 7:
				if len(open) > 0 {
					k := g.r.Intn(len(open))
					g.emit("vclose %s", open[k])
					open = append(open[:k], open[k+1:]...)
				}
			default:
				g.emit("vtick %s", seg)
				g.emit("vrefs %s", seg)
			}
		}
		// whatever happened before: a fresh handle with a fresh exclusion answers from scratch
		for _, fn := range []string{"vecA", "vecB"} {
			h := g.fresh("h")
			g.emit("vopen %s %s %s filt=0 ex=%s", h, seg, fn, g.pick([]string{"nil", "-", g.randDrops(nd)}))
			g.emit("vsearch %s q=%s k=%d", h, g.randQuery(2), nd*3)
			open = append(open, h)
			// and a filtered one whose eligible documents may have been excluded by earlier callers
			h2 := g.fresh("h")
			ex2 := g.pick([]string{"nil", "-"})
			g.emit("vopen %s %s %s filt=1 ex=%s", h2, seg, fn, ex2)
			g.emit("vsearch %s q=%s k=%d elig=%s", h2, g.randQuery(2), nd*3, g.liveSubset(nd, ex2, 1))
			g.emit("vsearch %s q=%s k=%d elig=%s", h2, g.randQuery(2), 2, g.liveSubset(nd, ex2, 1))
			open = append(open, h2)
		}
		// one eligible set kept by the caller and handed to handles with different exclusions
		if nd >= 2 {
			if shared := g.liveSubset(nd, "nil", 1); shared != "-" {
				for _, ex := range []string{intList([]int{0}), "nil", intList([]int{nd - 1})} {
					hs := g.fresh("h")
					g.emit("vopen %s %s %s filt=1 ex=%s", hs, seg, "vecA", ex)
					g.emit("vsearch %s q=%s k=%d elig=%s", hs, g.randQuery(2), nd*3, shared)
					open = append(open, hs)
				}
			}
		}
		if i%3 == 1 {
			// the segment goes away while callers still hold indexes: nothing native may remain,
			// and the late closes are harmless
			g.emit("close %s", seg)
			g.emit("vcounters")
			for _, h := range open {
				g.emit("vclose %s", h)
			}
			g.emit("vcounters")
			g.st("case")
			continue
		}
		for _, h := range open {
			g.emit("vclose %s", h)
		}
		g.emit("vtick %s", seg)
		g.emit("vtick %s", seg)
		g.emit("vtick %s", seg)
		g.emit("close %s", seg)
		if seg != s {
			g.emit("close %s", s)
		}
		g.emit("vcounters")
		g.st("case")
	}
	return nil
}

func (g *Gen) genC19(n int) error {
	if n == 0 {
		n = g.tierN(10, 200)
	}
	for i := 0; i < n; i++ {
		g.emit("note case %d", i)
		g.emit("vreset")
		g.setMode()
		if i == 2 {
			g.manyVectorsFaultCase()
			g.st("case")
			continue
		}
		var segs []string
		for k := 0; k < 2; k++ {
			cfg := g.vecCfg()
			cfg.minDocs = 2
			if g.chance(0.15) || (i == 1 && k == 0) {
				cfg.minDocs, cfg.maxDocs = 900, 1000 // >= 1000 vectors in one field: clustered index, Train is called
				cfg.maxFields = 0
				cfg.vecOne = true
			}
			b := g.randBatch(g.fresh("b"), cfg)
			g.emitBatch(b)
			s := g.fresh("s")
			g.emit("buildfaults %s %s", s, b.Name)
			g.newBuilt(s, b)
			segs = append(segs, s)
			// a build that reported success has every vector
			if len(b.Docs) < 50 {
				for _, fn := range []string{"vecA", "vecB"} {
					h := g.fresh("h")
					g.emit("vopen %s %s %s filt=0 ex=nil", h, s, fn)
					g.emit("vsearch %s q=%s k=%d", h, g.randQuery(2), len(b.Docs)*4)
					g.emit("vclose %s", h)
				}
			}
			g.emit("vstats %s", s)
		}
		mf := g.fresh("f")
		d1, d2 := g.randDrops(g.ndocs[segs[0]]), g.randDrops(g.ndocs[segs[1]])
		g.emit("mergeengfaults %s segs=%s drops=%s|%s cancel=%s", mf, strList(segs), d1, d2, b01(i%2 == 1))
		m := g.fresh("m")
		g.emit("open %s %s", m, mf)
		u := newUniverse()
		u.union(g.univ[segs[0]], 0)
		u.union(g.univ[segs[1]], 0)
		g.univ[m] = u
		g.ndocs[m] = g.ndocs[segs[0]] + g.ndocs[segs[1]] - dropCount(d1) - dropCount(d2)
		g.emit("vstats %s", m)
		g.emit("q count %s", m)
		g.emit("close %s", m)
		// the shapes a merge may special-case: a single input, without and with deletions; the same
		// input next to one that has no vectors at all
		if g.ndocs[segs[1]] < 50 {
			g.emit("mergeengfaults %s segs=%s drops=nil", g.fresh("f"), segs[1])
			if g.ndocs[segs[1]] > 1 {
				g.emit("mergeengfaults %s segs=%s drops=0", g.fresh("f"), segs[1])
			}
			bt := &BatchSpec{Name: g.fresh("b")}
			for d := 0; d < 3; d++ {
				id := []byte(fmt.Sprintf("%s-%d", bt.Name, d))
				bt.Docs = append(bt.Docs, DocSpec{ID: id, Plain: true, Fields: []FieldSpec{{Kind: "fld", Name: "_id", Typ: 't', Stored: true, Len: 1, Val: id, Toks: []TokSpec{{Term: id, Freq: 1}}}}})
			}
			g.emitBatch(bt)
			st := g.fresh("s")
			g.emit("build %s %s", st, bt.Name)
			g.newBuilt(st, bt)
			g.emit("mergeengfaults %s segs=%s,%s drops=nil|nil", g.fresh("f"), st, segs[1])
			g.emit("close %s", st)
			if g.ndocs[segs[0]] < 50 {
				// an input ALL of whose documents are deleted (its indexes are not even read) in front of,
				// and behind, one with live vectors
				all := make([]int, g.ndocs[segs[1]])
				for k := range all {
					all[k] = k
				}
				g.emit("mergeengfaults %s segs=%s,%s drops=%s|nil", g.fresh("f"), segs[1], segs[0], intList(all))
				g.emit("mergeengfaults %s segs=%s,%s drops=nil|%s", g.fresh("f"), segs[0], segs[1], intList(all))
			}
			g.st("fault.shapes")
		}
		for _, s := range segs {
			g.emit("close %s", s)
		}
		g.emit("vcounters")
		g.st("case")
	}
	return nil
}

// bigFrozenCase: one segment with more than 1024 documents (several posting-detail and
// doc-value chunks), read with exclusion sets that move the live count of a term across
// a 1024 boundary - the chunk layout of a file is a function of the file alone.
func (g *Gen) bigFrozenCase(mode int) {
	g.curMode = mode
	g.emit("cfg chunkmode=%d", mode)
	nd := 1100 + g.r.Intn(200)
	b := &BatchSpec{Name: g.fresh("b")}
	for d := 0; d < nd; d++ {
		id := []byte(fmt.Sprintf("%s-%d", b.Name, d))
		doc := DocSpec{ID: id, Plain: true}
		doc.Fields = append(doc.Fields, FieldSpec{Kind: "fld", Name: "_id", Typ: 't', Stored: true, Len: 1, Val: id, Toks: []TokSpec{{Term: id, Freq: 1}}})
		t := TokSpec{Term: []byte("common"), Freq: 1 + d%3}
		if d%5 != 0 {
			t.Locs = []LocSpec{{Pos: 1 + d%7, Start: d, End: d + 3}}
		}
		toks := []TokSpec{t}
		if d%2 == 0 {
			toks = append(toks, TokSpec{Term: []byte("even"), Freq: 1})
		}
		// the last term of this field is in every document, the first term of the next field (the
		// empty term) in few: neighbours in the file on opposite sides of 1024 hits
		toks = append(toks, TokSpec{Term: []byte("zzz"), Freq: 1})
		doc.Fields = append(doc.Fields, FieldSpec{Kind: "fld", Name: "body", Typ: 't', Len: 2 + d%4, DV: true, Toks: toks})
		if d == 600 || d == 700 {
			// the next field's FIRST term equals this field's LAST term, with hits on the other side of 1024
			doc.Fields = append(doc.Fields, FieldSpec{Kind: "fld", Name: "bodz", Typ: 't', Len: 5, Toks: []TokSpec{{Term: []byte("zzz"), Freq: 2 + d/700}}})
		}
		var tags []TokSpec
		if d%30 == 0 {
			tags = append(tags, TokSpec{Term: []byte{}, Freq: 2, Locs: []LocSpec{{Pos: 1, Start: d, End: d}, {Pos: 2, Start: d + 1, End: d + 1}}})
		}
		if d%2 == 1 {
			tags = append(tags, TokSpec{Term: []byte("t1"), Freq: 1})
		}
		if len(tags) > 0 {
			doc.Fields = append(doc.Fields, FieldSpec{Kind: "fld", Name: "tag", Typ: 't', Len: len(tags), DV: d%4 == 0, Toks: tags})
		}
		// a doc-value field whose chunks do not compress: one pseudo-random term per document
		ut := rndBytes(g.r.Intn(1<<30), 12)
		for k := range ut {
			if ut[k] == 0xff {
				ut[k] = 0xfe
			}
		}
		doc.Fields = append(doc.Fields, FieldSpec{Kind: "fld", Name: "uniq", Typ: 't', Len: 1, DV: true, Toks: []TokSpec{{Term: ut, Freq: 1}}})
		b.Docs = append(b.Docs, doc)
	}
	g.emitBatch(b)
	s := g.fresh("s")
	g.emit("build %s %s", s, b.Name)
	g.newBuilt(s, b)
	f := g.fresh("f")
	g.emit("persist %s %s", s, f)
	g.emit("footer %s mode=%d docs=%d", f, mode, nd)
	o := g.fresh("o")
	g.emit("open %s %s", o, f)
	g.alias(o, s)
	g.emit("q count %s", o)
	g.emit("q fields %s", o)
	// exclusion sets: a prefix that takes the live count of "common" below 1024, every third
	// document, and a handful only
	var pre, third, few []int
	for d := 0; d < nd-1024+50+g.r.Intn(40); d++ {
		pre = append(pre, d)
	}
	for d := 0; d < nd; d++ {
		if d%3 == 1 {
			third = append(third, d)
		}
	}
	few = []int{0, 1, 1023, 1024, nd - 1}
	tail := "N,N,N,N,N,N,N,N,N,N,N,N"
	for _, ex := range []string{"nil", intList(pre), intList(third), intList(few)} {
		for _, term := range []string{"common", "even"} {
			g.emit("q post %s body %s ex=%s fl=111 ops=N,N,N,A500,N,N,A1015,%s,A%d,N,N,N", o, hx([]byte(term)), ex, tail, nd-3)
			g.emit("q post %s body %s ex=%s fl=000 ops=A1000,%s,%s,%s", o, hx([]byte(term)), ex, tail, tail, tail)
		}
	}
	g.emit("q post %s body %s ex=%s fl=111 ops=%s", o, hx([]byte("common")), intList(pre), g.nexts(nd-len(pre)+1))
	g.emit("q dict %s body aut=all lo=* hi=* probe=-", o)
	g.emit("q dict %s tag aut=all lo=* hi=* probe=.", o)
	g.emit("q post %s bodz %s ex=nil fl=111 ops=N,N,N", o, hx([]byte("zzz")))
	g.emit("q post %s tag . ex=nil fl=111 ops=%s", o, g.nexts(nd/30+2))
	g.emit("q post %s tag . ex=%s fl=111 ops=%s", o, intList(few), g.nexts(nd/30+2))
	// two private states, each staying in its own chunk: the first documents of chunk 0 for one,
	// chunk 1 for the other, alternately (whatever one decompresses must not reach the other)
	sa, sb := g.fresh("st"), g.fresh("st")
	for v := 0; v < 8; v++ {
		g.emit("q dv %s %s fields=uniq,body doc=%d", o, sa, v)
		g.emit("q dv %s %s fields=uniq,body doc=%d", o, sb, 1030+v)
	}
	st := g.fresh("st")
	st2 := g.fresh("st")
	for _, d := range []int{0, 1, 1023, 1024, 1025, nd - 1, 512, 1030, 3} {
		g.emit("q dv %s %s fields=body,_id,tag,uniq doc=%d", o, st, d)
		// a second private state, always in another chunk than the first
		g.emit("q dv %s %s fields=body,_id,tag,uniq doc=%d", o, st2, (d+1050)%nd)
		g.emit("q stored %s %d stop=*", o, d)
		g.emit("q docid %s %d", o, d)
	}
	g.emit("q docnums %s ids=%s", o, hxList([][]byte{b.Docs[0].ID, b.Docs[1024].ID, b.Docs[nd-1].ID, []byte("absent-id")}))
	// the same exclusions as deletions of a merge; the merged file is read back
	for _, dr := range [][]int{pre, third, few} {
		mf := g.fresh("f")
		g.emit("merge %s segs=%s drops=%s", mf, o, intList(dr))
		m := g.fresh("m")
		g.emit("open %s %s", m, mf)
		total := nd - len(dr)
		g.emit("q count %s", m)
		for _, term := range []string{"common", "even"} {
			g.emit("q post %s body %s ex=nil fl=111 ops=N,N,A%d,%s,A%d,N,N,N", m, hx([]byte(term)), total/2, tail, total-3)
			g.emit("q post %s body %s ex=nil fl=000 ops=%s", m, hx([]byte(term)), g.nexts(total+1))
		}
		g.emit("q post %s bodz %s ex=nil fl=111 ops=N,N,N", m, hx([]byte("zzz")))
		g.emit("q post %s tag . ex=nil fl=111 ops=%s", m, g.nexts(nd/30+2))
		g.emit("q post %s tag %s ex=nil fl=111 ops=N,N,A%d,N,N,N", m, hx([]byte("t1")), total/2)
		g.emit("q post %s body %s ex=nil fl=100 ops=N,A%d,N,N,A%d,N,N", m, hx([]byte("zzz")), total/2, total-2)
		g.emit("q dict %s tag aut=all lo=* hi=* probe=.", m)
		g.emit("q dv %s - fields=body,tag doc=%d", m, total-1)
		g.emit("q docid %s %d", m, total-1)
		g.emit("close %s", m)
	}
	g.emit("close %s", o)
	g.st("case.bigfrozen")
}

// countVecs: number of vectors the batch holds in the given vector field.
func countVecs(b *BatchSpec, fn string) int {
	n := 0
	for _, d := range b.Docs {
		for _, f := range d.Fields {
			if f.Kind == "vec" && f.Name == fn && f.Dim > 0 {
				n += len(f.Vec) / f.Dim
			}
		}
	}
	return n
}

// engFaultMergeCase: a two-input vector merge repeated with the n-th call of every engine operation
// failing: whatever the engine does, a merge that reports success holds exactly the survivors' vectors.
func (g *Gen) engFaultMergeCase(cancel bool) {
	g.setMode()
	var segs []string
	for k := 0; k < 2; k++ {
		cfg := g.vecCfg()
		cfg.minDocs = 2
		cfg.vecAll = true
		b := g.randBatch(g.fresh("b"), cfg)
		g.emitBatch(b)
		s := g.fresh("s")
		g.emit("build %s %s", s, b.Name)
		g.newBuilt(s, b)
		segs = append(segs, s)
	}
	mf := g.fresh("f")
	d1, d2 := g.randDrops(g.ndocs[segs[0]]), g.randDrops(g.ndocs[segs[1]])
	if dropCount(d1) == g.ndocs[segs[0]] {
		d1 = "nil"
	}
	g.emit("mergeengfaults %s segs=%s drops=%s|%s cancel=%s", mf, strList(segs), d1, d2, b01(cancel))
	m := g.fresh("m")
	g.emit("open %s %s", m, mf)
	u := newUniverse()
	u.union(g.univ[segs[0]], 0)
	u.union(g.univ[segs[1]], 0)
	g.univ[m] = u
	g.ndocs[m] = g.ndocs[segs[0]] + g.ndocs[segs[1]] - dropCount(d1) - dropCount(d2)
	g.emit("vstats %s", m)
	g.emit("q count %s", m)
	for _, fn := range []string{"vecA", "vecB"} {
		h := g.fresh("h")
		g.emit("vopen %s %s %s filt=0 ex=nil", h, m, fn)
		g.emit("vsearch %s q=%s k=%d", h, g.randQuery(2), g.ndocs[m]*4+1)
		g.emit("vsearch %s q=%s k=2", h, g.randQuery(2))
		g.emit("vclose %s", h)
	}
	g.emit("close %s", m)
	for _, s := range segs {
		g.emit("close %s", s)
	}
	g.emit("vcounters")
	g.st("vec.engfaultmerge")
}

// sameVectorCase: the inputs of a merge hold bit-identical vectors at the same positions (the
// same documents indexed twice, say); every owner keeps its vector in the merged index.
func (g *Gen) sameVectorCase() {
	g.setMode()
	var segs []string
	nd := 2 + g.r.Intn(3)
	vecs := make([][]int, nd)
	for d := range vecs {
		vecs[d] = []int{g.r.Intn(9) - 4, g.r.Intn(9) - 4}
	}
	ns := 2 + g.r.Intn(2)
	for k := 0; k < ns; k++ {
		b := &BatchSpec{Name: g.fresh("b")}
		for d := 0; d < nd; d++ {
			id := []byte(fmt.Sprintf("%s-%d", b.Name, d))
			doc := DocSpec{ID: id, Plain: true}
			doc.Fields = append(doc.Fields, FieldSpec{Kind: "fld", Name: "_id", Typ: 't', Stored: true, Len: 1, Val: id, Toks: []TokSpec{{Term: id, Freq: 1}}})
			doc.Fields = append(doc.Fields, FieldSpec{Kind: "vec", Name: "vecA", Dim: 2, Metric: "l2_norm", Opt: g.vecOpt["vecA"], Vec: vecs[d]})
			b.Docs = append(b.Docs, doc)
		}
		g.emitBatch(b)
		s := g.fresh("s")
		g.emit("build %s %s", s, b.Name)
		g.newBuilt(s, b)
		segs = append(segs, s)
	}
	mf := g.fresh("f")
	var drops []string
	for range segs {
		drops = append(drops, "nil")
	}
	g.emit("merge %s segs=%s drops=%s", mf, strList(segs), strings.Join(drops, "|"))
	m := g.fresh("m")
	g.emit("open %s %s", m, mf)
	g.ndocs[m] = nd * len(segs)
	g.emit("vstats %s", m)
	h := g.fresh("h")
	g.emit("vopen %s %s vecA filt=0 ex=nil", h, m)
	g.emit("vsearch %s q=%s k=%d", h, intList(vecs[0]), nd*len(segs)*2)
	g.emit("vsearch %s q=%s k=%d", h, g.randQuery(2), nd*len(segs)*2)
	g.emit("vclose %s", h)
	g.emit("close %s", m)
	for _, s := range segs {
		g.emit("close %s", s)
	}
	g.emit("vcounters")
	g.st("vec.samevectors")
}

// manyVectorsFaultCase: a merge with more than 4096 surviving vectors in one field, repeated with
// every engine call failing in turn (an engine fed in slices makes more calls than a small merge shows).
func (g *Gen) manyVectorsFaultCase() {
	var segs []string
	for k := 0; k < 2; k++ {
		b := &BatchSpec{Name: g.fresh("b")}
		for d := 0; d < 640+g.r.Intn(30); d++ {
			id := []byte(fmt.Sprintf("%s-%d", b.Name, d))
			doc := DocSpec{ID: id, Plain: true}
			doc.Fields = append(doc.Fields, FieldSpec{Kind: "fld", Name: "_id", Typ: 't', Stored: true, Len: 1, Val: id, Toks: []TokSpec{{Term: id, Freq: 1}}})
			vf := FieldSpec{Kind: "vec", Name: "vecA", Dim: 2, Metric: "l2_norm", Opt: g.vecOpt["vecA"]}
			for x := 0; x < 8; x++ {
				vf.Vec = append(vf.Vec, g.r.Intn(9)-4)
			}
			doc.Fields = append(doc.Fields, vf)
			b.Docs = append(b.Docs, doc)
		}
		g.emitBatch(b)
		s := g.fresh("s")
		g.emit("build %s %s", s, b.Name)
		g.newBuilt(s, b)
		segs = append(segs, s)
	}
	mf := g.fresh("f")
	g.emit("mergeengfaults %s segs=%s drops=nil|3", mf, strList(segs))
	m := g.fresh("m")
	g.emit("open %s %s", m, mf)
	g.emit("vstats %s", m)
	g.emit("q count %s", m)
	g.emit("close %s", m)
	for _, s := range segs {
		g.emit("close %s", s)
	}
	g.emit("vcounters")
	g.st("vec.manyvectors")
}

// vectorCountCase: vector counts around the threshold between the exact and the clustered index class.
func (g *Gen) vectorCountCase(exactly1000 bool) {
	b := &BatchSpec{Name: g.fresh("b")}
	nd := 600
	if exactly1000 {
		nd = 1000
	}
	for d := 0; d < nd; d++ {
		id := []byte(fmt.Sprintf("%s-%d", b.Name, d))
		doc := DocSpec{ID: id, Plain: true}
		doc.Fields = append(doc.Fields, FieldSpec{Kind: "fld", Name: "_id", Typ: 't', Stored: true, Len: 1, Val: id, Toks: []TokSpec{{Term: id, Freq: 1}}})
		doc.Fields = append(doc.Fields, FieldSpec{Kind: "vec", Name: "vecA", Dim: 2, Metric: "l2_norm", Opt: g.vecOpt["vecA"], Vec: []int{g.r.Intn(9) - 4, g.r.Intn(9) - 4}})
		if !exactly1000 {
			doc.Fields = append(doc.Fields, FieldSpec{Kind: "vec", Name: "vecB", Dim: 2, Metric: g.vecBMetric, Opt: g.vecOpt["vecB"], Vec: []int{g.r.Intn(9) - 4, g.r.Intn(9) - 4}})
		}
		b.Docs = append(b.Docs, doc)
	}
	g.emitBatch(b)
	s := g.fresh("s")
	g.emit("build %s %s", s, b.Name)
	g.newBuilt(s, b)
	g.emit("vstats %s", s)
	for _, fn := range []string{"vecA", "vecB"} {
		h := g.fresh("h")
		g.emit("vopen %s %s %s filt=1 ex=nil", h, s, fn)
		g.emit("vsearch %s q=%s k=%d", h, g.randQuery(2), nd+5)
		g.emit("vsearch %s q=%s k=25", h, g.randQuery(2))
		g.emit("vsearch %s q=%s k=7 elig=%s", h, g.randQuery(2), g.liveSubset(40, "nil", 1))
		g.emit("vclose %s", h)
	}
	g.emit("close %s", s)
	g.emit("vcounters")
	g.st("vec.countcase")
}

// emptiedVectorFieldCase: a merged segment that still knows a vector field by name but holds no
// vector of it any more (all its owners were deleted) comes BEFORE a segment that has vectors.
func (g *Gen) emptiedVectorFieldCase() {
	g.setMode()
	mk := func(withVec func(d int) bool, nd int) string {
		b := &BatchSpec{Name: g.fresh("b")}
		for d := 0; d < nd; d++ {
			id := []byte(fmt.Sprintf("%s-%d", b.Name, d))
			doc := DocSpec{ID: id, Plain: true}
			doc.Fields = append(doc.Fields, FieldSpec{Kind: "fld", Name: "_id", Typ: 't', Stored: true, Len: 1, Val: id, Toks: []TokSpec{{Term: id, Freq: 1}}})
			if withVec(d) {
				doc.Fields = append(doc.Fields, FieldSpec{Kind: "vec", Name: "vecA", Dim: 2, Metric: "l2_norm", Opt: g.vecOpt["vecA"], Vec: []int{g.r.Intn(9) - 4, g.r.Intn(9) - 4}})
			}
			b.Docs = append(b.Docs, doc)
		}
		g.emitBatch(b)
		s := g.fresh("s")
		g.emit("build %s %s", s, b.Name)
		g.newBuilt(s, b)
		return s
	}
	a := mk(func(d int) bool { return d == 0 }, 3) // only document 0 carries a vector
	bseg := mk(func(d int) bool { return true }, 3)
	f1 := g.fresh("f")
	g.emit("merge %s segs=%s drops=0", f1, a)
	m1 := g.fresh("m")
	g.emit("open %s %s", m1, f1)
	g.ndocs[m1] = 2
	g.emit("vstats %s", m1)
	// the field lost every vector: searches on it - plain and filtered - find nothing and do not fail
	for _, filt := range []string{"0", "1"} {
		he := g.fresh("h")
		g.emit("vopen %s %s vecA filt=%s ex=nil", he, m1, filt)
		g.emit("vsearch %s q=%s k=3", he, g.randQuery(2))
		if filt == "1" {
			g.emit("vsearch %s q=%s k=3 elig=0", he, g.randQuery(2))
		}
		g.emit("vclose %s", he)
	}
	// the same with a second vector field that keeps its vectors (and sorts after the emptied one)
	{
		b := &BatchSpec{Name: g.fresh("b")}
		for d := 0; d < 4; d++ {
			id := []byte(fmt.Sprintf("%s-%d", b.Name, d))
			doc := DocSpec{ID: id, Plain: true}
			doc.Fields = append(doc.Fields, FieldSpec{Kind: "fld", Name: "_id", Typ: 't', Stored: true, Len: 1, Val: id, Toks: []TokSpec{{Term: id, Freq: 1}}})
			if d < 2 {
				doc.Fields = append(doc.Fields, FieldSpec{Kind: "vec", Name: "vecA", Dim: 2, Metric: "l2_norm", Opt: g.vecOpt["vecA"], Vec: []int{d, 1}})
			}
			doc.Fields = append(doc.Fields, FieldSpec{Kind: "vec", Name: "vecB", Dim: 2, Metric: g.vecBMetric, Opt: g.vecOpt["vecB"], Vec: []int{1, d}})
			b.Docs = append(b.Docs, doc)
		}
		g.emitBatch(b)
		s := g.fresh("s")
		g.emit("build %s %s", s, b.Name)
		g.newBuilt(s, b)
		fz := g.fresh("f")
		g.emit("merge %s segs=%s drops=0,1", fz, s)
		mz := g.fresh("m")
		g.emit("open %s %s", mz, fz)
		g.emit("vstats %s", mz)
		for _, fn := range []string{"vecA", "vecB"} {
			he := g.fresh("h")
			g.emit("vopen %s %s %s filt=1 ex=nil", he, mz, fn)
			g.emit("vsearch %s q=1,1 k=5", he)
			g.emit("vsearch %s q=1,1 k=5 elig=1", he)
			g.emit("vclose %s", he)
		}
		g.emit("close %s", mz)
		g.emit("close %s", s)
	}
	for _, order := range [][]string{{m1, bseg}, {bseg, m1}} {
		f2 := g.fresh("f")
		g.emit("merge %s segs=%s drops=nil|nil", f2, strList(order))
		m2 := g.fresh("m")
		g.emit("open %s %s", m2, f2)
		g.ndocs[m2] = 5
		g.emit("vstats %s", m2)
		h := g.fresh("h")
		g.emit("vopen %s %s vecA filt=0 ex=nil", h, m2)
		g.emit("vsearch %s q=%s k=10", h, g.randQuery(2))
		g.emit("vclose %s", h)
		g.emit("close %s", m2)
	}
	g.emit("close %s", m1)
	g.emit("close %s", a)
	g.emit("close %s", bseg)
	g.emit("vcounters")
	g.st("vec.emptiedfield")
}

func docVecCount(b *BatchSpec, d int, fn string) int {
	n := 0
	for _, f := range b.Docs[d].Fields {
		if f.Kind == "vec" && f.Name == fn && f.Dim > 0 {
			n += len(f.Vec) / f.Dim
		}
	}
	return n
}

// oneHitRemergeCase: a merge result holding single-hit dictionary entries (one live document,
// frequency 1, no locations) is merged a second time with an input that has the same terms and
// the same field list (byte-copying path: the single hit is expanded into ordinary postings
// bytes), then a third time with deletions on both sides.  Every file is dumped.
func (g *Gen) oneHitRemergeCase() {
	m := []int{1026, 1025, 1024, 2}[g.stats["onehit.remerge"]%4]
	g.curMode = m
	g.emit("cfg chunkmode=%d", m)
	mk := func(docs [][]TokSpec, lens []int) string {
		b := &BatchSpec{Name: g.fresh("b")}
		for d, toks := range docs {
			id := []byte(fmt.Sprintf("%s-%d", b.Name, d))
			doc := DocSpec{ID: id, Plain: true}
			doc.Fields = append(doc.Fields, FieldSpec{Kind: "fld", Name: "_id", Typ: 't', Stored: true, Len: 1, Val: id, Toks: []TokSpec{{Term: id, Freq: 1}}})
			doc.Fields = append(doc.Fields, FieldSpec{Kind: "fld", Name: "tag", Typ: 't', Len: lens[d], DV: d%2 == 0, Toks: toks})
			b.Docs = append(b.Docs, doc)
		}
		g.emitBatch(b)
		s := g.fresh("s")
		g.emit("build %s %s", s, b.Name)
		g.newBuilt(s, b)
		return s
	}
	t := func(term string, f int) TokSpec { return TokSpec{Term: []byte(term), Freq: f} }
	a := mk([][]TokSpec{{t("x", 1), t("p", 1), t("q", 1)}, {t("y", 2)}}, []int{3, 2})
	bs := mk([][]TokSpec{{t("z", 1)}}, []int{1})
	c := mk([][]TokSpec{{t("x", 3), t("r", 4)}, {t("x", 1)}, {t("z", 1), t("p", 1)}}, []int{7, 1, 2})
	dump := func(seg string, n int) {
		for _, term := range []string{"x", "y", "z", "p", "q", "r"} {
			g.emit("q post %s tag %s ex=nil fl=111 ops=%s", seg, hx([]byte(term)), g.nexts(n+1))
			g.emit("q post %s tag %s ex=nil fl=000 ops=A1,N,N", seg, hx([]byte(term)))
		}
		g.emit("q dict %s tag aut=all lo=* hi=* probe=.", seg)
		g.emit("q dict %s _id aut=all lo=* hi=* probe=.", seg)
	}
	f1 := g.fresh("f")
	g.emit("merge %s segs=%s,%s drops=nil|nil", f1, a, bs)
	g.emit("dumpfile %s", f1)
	m1 := g.fresh("m")
	g.emit("open %s %s", m1, f1)
	dump(m1, 3)
	for _, order := range [][]string{{m1, c}, {c, m1}} {
		f2 := g.fresh("f")
		g.emit("merge %s segs=%s drops=nil|nil", f2, strList(order))
		g.emit("dumpfile %s", f2)
		m2 := g.fresh("m")
		g.emit("open %s %s", m2, f2)
		dump(m2, 6)
		// once more, with a deletion: single hits appear and disappear again
		f3 := g.fresh("f")
		g.emit("merge %s segs=%s,%s drops=1|0", f3, m2, m1)
		g.emit("dumpfile %s", f3)
		m3 := g.fresh("m")
		g.emit("open %s %s", m3, f3)
		dump(m3, 7)
		g.emit("close %s", m3)
		g.emit("close %s", m2)
	}
	g.emit("close %s", m1)
	for _, s := range []string{a, bs, c} {
		g.emit("close %s", s)
	}
	g.st("onehit.remerge")
}

// vecMergedLackingCase: searches on merged segments one of whose inputs - an earlier one, a later
// one, one in the middle - has no vector of the field at all (or none of any field); the answers
// are exact (few vectors), so every vector must come back under its own new document number.
func (g *Gen) vecMergedLackingCase() {
	g.setMode()
	mk := func(nd int, withA, withB bool) (string, *BatchSpec) {
		b := &BatchSpec{Name: g.fresh("b")}
		for d := 0; d < nd; d++ {
			id := []byte(fmt.Sprintf("%s-%d", b.Name, d))
			doc := DocSpec{ID: id, Plain: true}
			doc.Fields = append(doc.Fields, FieldSpec{Kind: "fld", Name: "_id", Typ: 't', Stored: true, Len: 1, Val: id, Toks: []TokSpec{{Term: id, Freq: 1}}})
			doc.Fields = append(doc.Fields, FieldSpec{Kind: "fld", Name: "body", Typ: 't', Len: 1, Toks: []TokSpec{{Term: []byte("w"), Freq: 1}}})
			if withA {
				doc.Fields = append(doc.Fields, FieldSpec{Kind: "vec", Name: "vecA", Dim: 2, Metric: "l2_norm", Opt: g.vecOpt["vecA"], Vec: []int{g.r.Intn(9) - 4, g.r.Intn(9) - 4}})
			}
			if withB && d%2 == 0 {
				doc.Fields = append(doc.Fields, FieldSpec{Kind: "vec", Name: "vecB", Dim: 2, Metric: g.vecBMetric, Opt: g.vecOpt["vecB"], Vec: []int{g.r.Intn(9) - 4, g.r.Intn(9) - 4}})
			}
			b.Docs = append(b.Docs, doc)
		}
		g.emitBatch(b)
		s := g.fresh("s")
		g.emit("build %s %s", s, b.Name)
		g.newBuilt(s, b)
		return s, b
	}
	text, _ := mk(6, false, false)
	onlyB, bB := mk(5, false, true)
	both, bAB := mk(4, true, true)
	onlyA, bA := mk(3, true, false)
	for _, order := range [][]string{{text, both}, {both, text}, {onlyB, both, onlyA}, {onlyA, text, onlyB, both}, {text, onlyB, onlyA}} {
		drops := make([]string, len(order))
		for k := range drops {
			drops[k] = g.pick([]string{"nil", "nil", "0", "1"})
		}
		f := g.fresh("f")
		g.emit("merge %s segs=%s drops=%s", f, strList(order), strings.Join(drops, "|"))
		m := g.fresh("m")
		g.emit("open %s %s", m, f)
		g.emit("vstats %s", m)
		for _, fn := range []string{"vecA", "vecB"} {
			h := g.fresh("h")
			g.emit("vopen %s %s %s filt=0 ex=nil", h, m, fn)
			for _, bb := range []*BatchSpec{bB, bAB, bA} {
				for d := 0; d < len(bb.Docs); d++ {
					if v := vecOfDoc(bb, d, fn); v != nil {
						g.emit("vsearch %s q=%s k=1", h, intList(v))
					}
				}
			}
			g.emit("vsearch %s q=%s k=40", h, g.randQuery(2))
			g.emit("vclose %s", h)
		}
		g.emit("close %s", m)
	}
	for _, s := range []string{text, onlyB, both, onlyA} {
		g.emit("close %s", s)
	}
	g.emit("vcounters")
	g.st("vec.mergedlacking")
}

// freq0MergeCase: a field indexed without frequencies (every hit has frequency 0 and therefore no
// norm), once without and once with term vectors, whose terms occur in several documents of one
// chunk; merged alone and with a neighbour under deletions that remove an earlier hit of a term and
// keep later ones (the merge steps over the deleted hit's record), by copying and by re-encoding.
func (g *Gen) freq0MergeCase(after func(m string)) {
	g.setMode()
	mk := func(nd int, extraField bool) string {
		b := &BatchSpec{Name: g.fresh("b")}
		for d := 0; d < nd; d++ {
			id := []byte(fmt.Sprintf("%s-%d", b.Name, d))
			doc := DocSpec{ID: id, Plain: true}
			doc.Fields = append(doc.Fields, FieldSpec{Kind: "fld", Name: "_id", Typ: 't', Stored: true, Len: 1, Val: id, Toks: []TokSpec{{Term: id, Freq: 1}}})
			tags := []TokSpec{{Term: []byte("common"), Freq: 0}}
			if d >= nd/2 {
				tags = append(tags, TokSpec{Term: []byte("late"), Freq: 0})
			}
			if d == nd-1 {
				tags = append(tags, TokSpec{Term: []byte("edge"), Freq: 0})
			}
			doc.Fields = append(doc.Fields, FieldSpec{Kind: "fld", Name: "tags", Typ: 't', Len: 1, DV: d%2 == 0, Toks: tags})
			var tv []TokSpec
			for _, t := range tags {
				tv = append(tv, TokSpec{Term: t.Term, Freq: 0, Locs: []LocSpec{{Pos: d + 1, Start: d, End: d + 3}, {Pos: d + 2, Start: d + 4, End: d + 9, AP: []uint64{uint64(d)}}}})
			}
			doc.Fields = append(doc.Fields, FieldSpec{Kind: "fld", Name: "tagv", Typ: 't', Len: 2, Toks: tv})
			if extraField {
				doc.Fields = append(doc.Fields, FieldSpec{Kind: "fld", Name: "other", Typ: 't', Len: 1, Toks: []TokSpec{{Term: []byte("o"), Freq: 1}}})
			}
			b.Docs = append(b.Docs, doc)
		}
		g.emitBatch(b)
		s := g.fresh("s")
		g.emit("build %s %s", s, b.Name)
		g.newBuilt(s, b)
		return s
	}
	a := mk(6, false)
	same := mk(3, false) // same field list: the merge copies bytes
	diff := mk(3, true)  // another field list: the merge re-encodes
	for _, c := range []struct {
		segs  []string
		drops string
		n     int
	}{
		{[]string{a}, "0", 5}, {[]string{a}, "1,3", 4}, {[]string{a, same}, "0,2|1", 7}, {[]string{same, a}, "nil|0,4", 7},
		{[]string{a, diff}, "0|nil", 8}, {[]string{diff, a}, "0|1,2", 6},
	} {
		f := g.fresh("f")
		g.emit("merge %s segs=%s drops=%s", f, strList(c.segs), c.drops)
		m := g.fresh("m")
		g.emit("open %s %s", m, f)
		u := newUniverse()
		for _, sg := range c.segs {
			u.union(g.univ[sg], 0)
		}
		g.univ[m] = u
		g.ndocs[m] = c.n
		g.lineage[m] = map[string]bool{m: true}
		after(m)
		g.emit("close %s", m)
	}
	g.st("merge.freq0")
}

// storedArraysMergeCase: documents whose stored values carry more array positions than the segment
// has fields (an array field of eight elements, a nested one), merged on the re-encoding path (a
// deletion; another field list) and by copying; the files are dumped and the stored fields read.
func (g *Gen) storedArraysMergeCase() {
	g.setMode()
	mk := func(extra bool) string {
		b := &BatchSpec{Name: g.fresh("b")}
		for d := 0; d < 3; d++ {
			id := []byte(fmt.Sprintf("%s-%d", b.Name, d))
			doc := DocSpec{ID: id, Plain: true}
			doc.Fields = append(doc.Fields, FieldSpec{Kind: "fld", Name: "_id", Typ: 't', Stored: true, Len: 1, Val: id, Toks: []TokSpec{{Term: id, Freq: 1}}})
			for k := 0; k < 8; k++ {
				doc.Fields = append(doc.Fields, FieldSpec{Kind: "fld", Name: "tags", Typ: 't', Stored: true, Len: 1, Val: []byte(fmt.Sprintf("tag%d-%d", d, k)),
					AP: []uint64{uint64(k)}, Toks: []TokSpec{{Term: []byte(fmt.Sprintf("t%d", k)), Freq: 1}}})
			}
			for k := 0; k < 3; k++ {
				doc.Fields = append(doc.Fields, FieldSpec{Kind: "fld", Name: "nest", Typ: 't', Stored: true, Len: 1, Val: []byte(fmt.Sprintf("n%d", k)),
					AP: []uint64{uint64(k), uint64(d), 1 << 33}})
			}
			if extra {
				doc.Fields = append(doc.Fields, FieldSpec{Kind: "fld", Name: "other", Typ: 't', Stored: true, Len: 1, Val: []byte("o")})
			}
			b.Docs = append(b.Docs, doc)
		}
		g.emitBatch(b)
		s := g.fresh("s")
		g.emit("build %s %s", s, b.Name)
		g.newBuilt(s, b)
		return s
	}
	a, bsame, bother := mk(false), mk(false), mk(true)
	for _, c := range []struct {
		segs  []string
		drops string
		n     int
	}{{[]string{a}, "1", 2}, {[]string{a, bsame}, "nil|nil", 6}, {[]string{a, bsame}, "0|2", 4}, {[]string{a, bother}, "nil|nil", 6}, {[]string{bother, a}, "1|0,1", 3}} {
		f := g.fresh("f")
		g.emit("merge %s segs=%s drops=%s", f, strList(c.segs), c.drops)
		g.emit("dumpfile %s", f)
		m := g.fresh("m")
		g.emit("open %s %s", m, f)
		for d := 0; d < c.n; d++ {
			g.emit("q stored %s %d stop=*", m, d)
		}
		g.emit("close %s", m)
	}
	g.st("merge.storedarrays")
}

// manyFieldsVecMergeCase: more than 256 fields, the vector field sorting last (field number 257 in the
// merged segment): the merged vector index is found under that field, and under no other.
func (g *Gen) manyFieldsVecMergeCase() {
	g.setMode()
	var segs []string
	var batches []*BatchSpec
	for k := 0; k < 2; k++ {
		b := &BatchSpec{Name: g.fresh("b")}
		for d := 0; d < 2; d++ {
			id := []byte(fmt.Sprintf("%s-%d", b.Name, d))
			doc := DocSpec{ID: id, Plain: true}
			doc.Fields = append(doc.Fields, FieldSpec{Kind: "fld", Name: "_id", Typ: 't', Stored: true, Len: 1, Val: id, Toks: []TokSpec{{Term: id, Freq: 1}}})
			for f := 0; f < 256; f++ {
				doc.Fields = append(doc.Fields, FieldSpec{Kind: "fld", Name: fmt.Sprintf("f%03d", f), Typ: 't', Len: 1, Toks: []TokSpec{{Term: []byte(fmt.Sprintf("t%d", (f+d)%3)), Freq: 1}}})
			}
			doc.Fields = append(doc.Fields, FieldSpec{Kind: "vec", Name: "zvec", Dim: 2, Metric: "l2_norm", Opt: g.vecOpt["zvec"], Vec: []int{3*k + d - 2, 2*d - k}})
			b.Docs = append(b.Docs, doc)
		}
		g.emitBatch(b)
		s := g.fresh("s")
		g.emit("build %s %s", s, b.Name)
		g.newBuilt(s, b)
		segs = append(segs, s)
		batches = append(batches, b)
	}
	for _, dr := range []string{"nil|nil", "1|nil"} {
		fm := g.fresh("f")
		g.emit("merge %s segs=%s drops=%s", fm, strList(segs), dr)
		m := g.fresh("m")
		g.emit("open %s %s", m, fm)
		g.emit("vstats %s", m)
		for _, fn := range []string{"zvec", "f000", "_id"} {
			h := g.fresh("h")
			g.emit("vopen %s %s %s filt=0 ex=nil", h, m, fn)
			for _, bx := range batches {
				for d := range bx.Docs {
					g.emit("vsearch %s q=%s k=2", h, intList(vecOfDoc(bx, d, "zvec")))
				}
			}
			g.emit("vsearch %s q=%s k=40", h, g.randQuery(2))
			g.emit("vclose %s", h)
		}
		g.emit("q post %s f255 %s ex=nil fl=111", m, hx([]byte("t0")))
		g.emit("close %s", m)
	}
	for _, s := range segs {
		g.emit("close %s", s)
	}
	g.emit("vcounters")
	g.st("vec.manyfields")
}

// identicalVectorsCase: 900 documents that all carry one and the same vector (an exact index): every
// one of them is indexed and is returned when k allows.  (Identical vectors are told apart by a random
// 31-bit tag in their ids: two of them colliding loses a document's vector - on the unchanged code
// with probability 2^-31 per pair, 2*10^-4 for this case, see DESIGN section 7.)
func (g *Gen) identicalVectorsCase() {
	b := &BatchSpec{Name: g.fresh("b")}
	nd := 900
	for d := 0; d < nd; d++ {
		id := []byte(fmt.Sprintf("%s-%d", b.Name, d))
		doc := DocSpec{ID: id, Plain: true}
		doc.Fields = append(doc.Fields, FieldSpec{Kind: "fld", Name: "_id", Typ: 't', Stored: true, Len: 1, Val: id, Toks: []TokSpec{{Term: id, Freq: 1}}})
		doc.Fields = append(doc.Fields, FieldSpec{Kind: "vec", Name: "vecA", Dim: 2, Metric: "l2_norm", Opt: g.vecOpt["vecA"], Vec: []int{1, -2}})
		b.Docs = append(b.Docs, doc)
	}
	g.emitBatch(b)
	s := g.fresh("s")
	g.emit("build %s %s", s, b.Name)
	g.newBuilt(s, b)
	g.emit("vstats %s", s)
	h := g.fresh("h")
	g.emit("vopen %s %s vecA filt=1 ex=nil", h, s)
	g.emit("vsearch %s q=1,-2 k=%d", h, nd+5)
	g.emit("vsearch %s q=%s k=%d", h, g.randQuery(2), nd)
	g.emit("vclose %s", h)
	g.emit("close %s", s)
	g.emit("vcounters")
	g.st("vec.identical")
}
