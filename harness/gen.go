package main

// Script generators, one per property.  Every random choice derives from one
// PRNG seeded with VERIF_SEED so that a script is reproducible.

import (
	"bufio"
	"bytes"
	"fmt"
	"math/rand"
	"sort"
	"strings"
)

type Gen struct {
	r          *rand.Rand
	tier       string
	w          *bufio.Writer
	stats      map[string]int
	vectors    bool
	nobj       int
	univ       map[string]*Universe // per segment name
	ndocs      map[string]int       // per segment name: upper bound of doc count
	curMode    int
	batchNames []string
	dumpfiles  bool
	lineage    map[string]map[string]bool // segment -> base segments it derives from
	disjoint   bool                       // merge inputs must have pairwise disjoint lineages (vector ids are unique per base segment)
	// per run: the optimisation type of each vector field and the similarity of vecB (a field keeps
	// them across the segments of one index, so they are fixed for the whole script)
	vecOpt             map[string]string
	recent             []string // in-memory segments of the last builds (revisitEarlier)
	abandonBeforeMerge bool     // genMergeCase: every merge is first abandoned at a few points
	sweepBeforeMerge   bool     // genMergeCase: ... or at EVERY progress report
	forceBigVariant    int      // bigMergeCase: 1+variant to use (0 = by count)
	prevOpened         string   // genC02: the opened segment of the previous case
	vecBMetric         string
	// scripts for the frozen corpus query reopened segments only
	reopenedOnly bool
}

func newGen(seed int64, tier string, w *bufio.Writer) *Gen {
	g := &Gen{r: rand.New(rand.NewSource(seed)), tier: tier, w: w, stats: map[string]int{},
		univ: map[string]*Universe{}, ndocs: map[string]int{}, curMode: 1026, lineage: map[string]map[string]bool{}}
	// drawn from a generator of their own so that the main stream of choices is what it was
	r2 := rand.New(rand.NewSource(seed*7919 + 13))
	opts := []string{"recall", "latency", "memory-efficient"}
	g.vecOpt = map[string]string{"vecA": opts[r2.Intn(3)], "vecB": opts[r2.Intn(3)]}
	g.vecBMetric = []string{"dot_product", "cosine"}[r2.Intn(2)]
	return g
}

func (g *Gen) emit(format string, a ...interface{}) {
	fmt.Fprintf(g.w, format+"\n", a...)
}

func (g *Gen) st(k string) { g.stats[k]++ }

func (g *Gen) fresh(prefix string) string {
	g.nobj++
	return fmt.Sprintf("%s%d", prefix, g.nobj)
}

func (g *Gen) pick(xs []string) string { return xs[g.r.Intn(len(xs))] }
func (g *Gen) chance(p float64) bool   { return g.r.Float64() < p }

var termAlphabet = [][]byte{
	[]byte("a"), []byte("b"), []byte("ab"), []byte("abc"), []byte("b\xc3\xa9"), []byte("\xe6\x97\xa5"),
	[]byte("zz"), []byte("c"), []byte("ba"), {}, []byte("aa"), []byte("q"),
	// not text: a NUL, high bytes (0xff itself is the doc-value term separator of the format and
	// never part of a term), and a term longer than any one-byte length
	{0x00}, {0xfe}, {0x80, 0x01}, bytes.Repeat([]byte("lo"), 150),
}

var fieldPool = []string{"body", "name", "tag", "desc", "x1", "x2", "zeta", strings.Repeat("longname", 20),
	"Title", "0num"} // the last two sort before "_id" (as the composite "_all" does)

type batchCfg struct {
	maxDocs        int
	minDocs        int
	fields         []string
	maxFields      int
	terms          [][]byte
	comp           bool
	emptyTerm      bool
	syn            bool
	vec            bool
	dupIDs         bool
	bigVals        bool
	noLocs         float64 // probability that a field instance has no term vectors
	freq0          bool
	vecDim         int
	vecOne         bool   // a single vector field, 2-3 vectors per document
	vecAll         bool   // every document carries the vector field(s)
	vecOptOverride string // optimisation of the vector fields of this batch (default: the run's)
}

func (g *Gen) defaultCfg() batchCfg {
	nf := 1 + g.r.Intn(5)
	fs := append([]string(nil), fieldPool...)
	g.r.Shuffle(len(fs), func(i, j int) { fs[i], fs[j] = fs[j], fs[i] })
	nt := 2 + g.r.Intn(len(termAlphabet)-2)
	ts := append([][]byte(nil), termAlphabet...)
	g.r.Shuffle(len(ts), func(i, j int) { ts[i], ts[j] = ts[j], ts[i] })
	maxDocs := 6
	if g.tier == "thorough" {
		maxDocs = 14
	}
	return batchCfg{maxDocs: maxDocs, fields: fs[:nf], maxFields: 5, terms: ts[:nt], comp: g.chance(0.5),
		dupIDs: g.chance(0.15), noLocs: 0.4, freq0: g.chance(0.3)}
}

func (g *Gen) randToks(cfg *batchCfg, docFields []string, composite bool) ([]TokSpec, int) {
	n := g.r.Intn(4)
	if g.chance(0.1) {
		n = 0
	}
	perm := g.r.Perm(len(cfg.terms))
	if n > len(perm) {
		n = len(perm)
	}
	tv := !g.chance(cfg.noLocs)
	var toks []TokSpec
	total := 0
	for i := 0; i < n; i++ {
		t := TokSpec{Term: cfg.terms[perm[i]], Freq: 1 + g.r.Intn(3)}
		if cfg.freq0 && g.chance(0.25) {
			t.Freq = 0
		}
		if tv || composite {
			nl := t.Freq
			if g.chance(0.1) {
				nl = g.r.Intn(4)
			}
			if t.Freq == 0 && g.chance(0.5) {
				// no frequency kept, but term vectors: occurrences without a count
				nl = 1 + g.r.Intn(3)
			}
			for j := 0; j < nl; j++ {
				l := LocSpec{Pos: 1 + g.r.Intn(9), Start: g.r.Intn(300), End: g.r.Intn(300)}
				if composite && len(docFields) > 0 {
					l.Src = docFields[g.r.Intn(len(docFields))]
				}
				if g.chance(0.3) {
					na := 1 + g.r.Intn(3)
					for k := 0; k < na; k++ {
						l.AP = append(l.AP, uint64(g.r.Intn(5)))
					}
				}
				if g.chance(0.05) {
					l.Start = 70000 + g.r.Intn(100000)
				}
				if g.chance(0.02) {
					// values that need the longest varints
					l.Pos = 1<<40 + g.r.Intn(1000)
					l.Start = 1<<62 + g.r.Intn(1000)
					l.End = 1<<63 - 1 - g.r.Intn(1000)
					l.AP = append(l.AP, ^uint64(0), 1<<32)
				}
				t.Locs = append(t.Locs, l)
			}
		}
		total += t.Freq
		toks = append(toks, t)
	}
	// the analysed length is whatever the field reports: usually the number of tokens, but also 0
	// beside tokens (frequency-less fields), and lengths whose 32 norm bits are zero or need the
	// 32nd bit (the merge's single-hit form keeps 31 of them: defect D14)
	ln := total
	if len(toks) > 0 && g.chance(0.2) {
		ln += g.r.Intn(200)
	}
	if len(toks) > 0 && g.chance(0.08) {
		// analysed lengths whose norm has a 0x80 byte in its varint, and very long fields
		ln = []int{128, 256, 1024, 16384, 1 << 20, 128 * (1 + g.r.Intn(100)), 0, 0, 1 << 31, 1<<31 + 5, 1 << 32, 1<<32 - 1}[g.r.Intn(12)]
	}
	return toks, ln
}

func (g *Gen) randBatch(name string, cfg batchCfg) *BatchSpec {
	b := &BatchSpec{Name: name}
	nd := cfg.minDocs + g.r.Intn(cfg.maxDocs-cfg.minDocs+1)
	dvFields := map[string]bool{}
	for _, f := range cfg.fields {
		dvFields[f] = g.chance(0.5)
	}
	idDV := g.chance(0.15)
	emptyThes := ""
	if cfg.syn && g.chance(0.2) {
		emptyThes = g.pick([]string{"thesA", "thesB", "thesC"})
	}
	for i := 0; i < nd; i++ {
		id := []byte(fmt.Sprintf("%s-%d", name, i))
		if cfg.dupIDs && i > 0 && g.chance(0.3) {
			id = b.Docs[g.r.Intn(i)].ID
		}
		if g.chance(0.1) {
			id = []byte(fmt.Sprintf("z%d", g.r.Intn(5)))
		}
		if g.chance(0.06) {
			// an external id whose length needs a two-byte varint
			id = append([]byte(fmt.Sprintf("%s-long-%d-", name, i)), bytes.Repeat([]byte("x"), 250+g.r.Intn(200))...)
			if g.chance(0.4) {
				id = id[:[]int{127, 128, 129}[g.r.Intn(3)]] // exactly at the one-byte / two-byte boundary
			}
		}
		if i == 1 && nd > 2 && g.chance(0.04) {
			id = []byte{} // an external id may be the empty string
			g.st("emptyid")
		}
		d := DocSpec{ID: id, Plain: g.chance(0.3)}
		idf := FieldSpec{Kind: "fld", Name: "_id", Typ: 't', Stored: true, Len: 1, Val: id, Toks: []TokSpec{{Term: id, Freq: 1}}}
		if idDV {
			idf.DV = true // `_id` indexed with doc values is legitimate (not bleve's default)
		}
		nf := g.r.Intn(cfg.maxFields + 1)
		var flds []FieldSpec
		var names []string
		for j := 0; j < nf; j++ {
			fn := cfg.fields[g.r.Intn(len(cfg.fields))]
			names = append(names, fn)
			toks, ln := g.randToks(&cfg, nil, false)
			f := FieldSpec{Kind: "fld", Name: fn, Typ: 't', Stored: g.chance(0.5), DV: dvFields[fn], Len: ln, Toks: toks}
			if g.chance(0.2) {
				// the encoded field type is an arbitrary byte: the usual letters, and values whose varint
				// takes two bytes
				f.Typ = []byte{'n', 'd', 'b', 'g', 'i', 0, 0x7f, 0x80, 0xe9, 0xff}[g.r.Intn(10)]
			}
			if g.chance(0.05) {
				f.DV = !f.DV
			}
			if g.chance(0.2) {
				f.Typ = 'n'
			}
			if f.Stored {
				vl := g.r.Intn(12)
				if g.chance(0.1) {
					vl = 0
				}
				if g.chance(0.12) {
					vl = 120 + g.r.Intn(500) // lengths whose varints need two bytes
				}
				if g.chance(0.04) {
					vl = []int{127, 128, 129, 16383, 16384}[g.r.Intn(5)] // exactly at a varint boundary
				}
				if cfg.bigVals && g.chance(0.15) {
					vl = 66000 + g.r.Intn(5000)
				}
				f.Val = make([]byte, vl)
				for k := range f.Val {
					f.Val[k] = byte(g.r.Intn(256))
				}
				if g.chance(0.4) {
					na := 1 + g.r.Intn(4)
					for k := 0; k < na; k++ {
						f.AP = append(f.AP, uint64(g.r.Intn(7)))
					}
					if g.chance(0.15) {
						// varint boundaries, values beyond 32 and 35 bits, the largest ones
						f.AP[0] = []uint64{127, 128, 129, 16384, 1<<32 - 1, 1 << 32, 1<<35 - 1, 1 << 35, 1 << 62, 1 << 63, ^uint64(0)}[g.r.Intn(11)]
					}
				}
			}
			if g.chance(0.2) {
				// the term-vector option stated independently of what the analysis delivered
				f.TV = g.pick([]string{"0", "1"})
			}
			if g.chance(0.08) {
				// a geo-shape field: its encoded shape is kept as one more doc value of the document,
				// with or without terms (a field with shapes but not one term in a whole segment lost
				// them in a merge: defect D11, corpus/regress/k1_shape_only_field_merge.script)
				n := g.r.Intn(7)
				f.Shape = make([]byte, n)
				for k := range f.Shape {
					f.Shape[k] = byte(g.r.Intn(255))
				}
			}
			flds = append(flds, f)
		}
		if cfg.syn && g.chance(0.5) {
			d.Plain = false
			ns := 1 + g.r.Intn(2)
			for s := 0; s < ns; s++ {
				sf := FieldSpec{Kind: "syn", Name: g.pick([]string{"thesA", "thesB", "thesC"})}
				if g.chance(0.15) {
					// a thesaurus may share its name with an ordinary (doc-value) field
					sf.Name = cfg.fields[g.r.Intn(len(cfg.fields))]
				}
				ndef := 1 + g.r.Intn(3)
				if sf.Name == emptyThes || g.chance(0.06) {
					// a synonym field whose definitions are all gone (a thesaurus that is
					// defined by the batch but has no term at all when every field is like this)
					ndef = 0
				}
				seen := map[string]bool{}
				for k := 0; k < ndef; k++ {
					lhs := synTerms[g.r.Intn(len(synTerms))]
					if g.chance(0.08) {
						lhs = []byte{} // the empty left-hand term is a legitimate key
					}
					if seen[string(lhs)] && !g.chance(0.2) {
						continue // (mostly) one definition per left-hand term and field; sometimes a second one
					}
					seen[string(lhs)] = true
					nr := 1 + g.r.Intn(3)
					if g.chance(0.05) {
						nr = 0 // a left-hand term without synonyms
					}
					var rhs [][]byte
					for q := 0; q < nr; q++ {
						if g.chance(0.04) {
							rhs = append(rhs, []byte{}) // the empty string is a synonym like any other (defect D16)
							continue
						}
						rhs = append(rhs, synTerms[g.r.Intn(len(synTerms))])
					}
					sf.Defs = append(sf.Defs, SynDef{LHS: lhs, RHS: rhs})
				}
				flds = append(flds, sf)
			}
		}
		if cfg.vec && (cfg.vecAll || g.chance(0.7)) {
			dim := cfg.vecDim
			if dim == 0 {
				dim = 2
			}
			nv := 1 + g.r.Intn(3)
			vf := FieldSpec{Kind: "vec", Name: g.pick([]string{"vecA", "vecB"}), Dim: dim, Metric: "l2_norm", Opt: "recall"}
			if cfg.vecOne {
				// 1-3 vectors per document (2.25 on average: 520 documents still give >= 1000 vectors)
				vf.Name = "vecA"
				nv = []int{1, 2, 3, 3}[g.r.Intn(4)]
			}
			if vf.Name == "vecB" {
				vf.Metric = g.vecBMetric
			}
			vf.Opt = g.vecOpt[vf.Name]
			if cfg.vecOptOverride != "" {
				vf.Opt = cfg.vecOptOverride
			}
			for k := 0; k < nv*dim; k++ {
				vf.Vec = append(vf.Vec, g.r.Intn(9)-4)
			}
			flds = append(flds, vf)
		}
		// position of _id among the fields
		pos := 0
		if len(flds) > 0 && g.chance(0.2) {
			pos = g.r.Intn(len(flds) + 1)
		}
		d.Fields = append(d.Fields, flds[:pos]...)
		d.Fields = append(d.Fields, idf)
		d.Fields = append(d.Fields, flds[pos:]...)
		if cfg.comp && len(names) > 0 && g.chance(0.7) {
			toks, ln := g.randToks(&cfg, names, true)
			if ln == 0 {
				ln = 1
			}
			cf := FieldSpec{Kind: "comp", Name: "_all", Typ: 'c', Len: ln, Toks: toks, DV: g.chance(0.2)}
			if g.chance(0.2) {
				cf.TV = "0" // e.g. a composite field created with the index-only option
			}
			if g.chance(0.4) {
				// composed from the document's own fields the way bleve does it: the composite's
				// locations are the very location objects of those fields
				cf.Toks, cf.Compose = nil, true
			}
			d.Fields = append(d.Fields, cf)
		}
		b.Docs = append(b.Docs, d)
	}
	return b
}

var synTerms = [][]byte{[]byte("p"), []byte("q"), []byte("pq"), []byte("r"), []byte("s\xc3\xa9"), []byte("tt")}

func (g *Gen) emitBatch(b *BatchSpec) {
	g.batchNames = append(g.batchNames, b.Name)
	for _, l := range b.Lines() {
		g.emit("%s", l)
	}
}

func (g *Gen) newBuilt(seg string, b *BatchSpec) {
	g.lineage[seg] = map[string]bool{seg: true}
	u := newUniverse()
	u.addBatch(b)
	g.univ[seg] = u
	g.ndocs[seg] = len(b.Docs)
}

// revisitEarlier: segments built in memory one, two and three builds ago (on the same plugin, i.e.
// by the same pooled builder) are read again after the build of `cur`: a built segment owns its
// bytes and its tables, whatever is built after it.  The fourth-last is closed.
func (g *Gen) revisitEarlier(cur string, index bool) {
	for _, old := range g.recent {
		g.emit("q count %s", old)
		g.emit("q fields %s", old)
		g.dumpStored(old)
		if index {
			g.emit("q dvfields %s", old)
			u := g.univ[old]
			for _, f := range sortedFieldNames(u.Fields) {
				g.emit("q dict %s %s aut=all lo=* hi=* probe=-", old, f)
			}
		}
	}
	g.recent = append(g.recent, cur)
	if len(g.recent) > 3 {
		g.emit("close %s", g.recent[0])
		g.recent = g.recent[1:]
	}
}

func (g *Gen) alias(newSeg, old string) {
	g.lineage[newSeg] = g.lineage[old]
	g.univ[newSeg] = g.univ[old]
	g.ndocs[newSeg] = g.ndocs[old]
}

func (g *Gen) nexts(n int) string {
	ops := make([]string, n)
	for i := range ops {
		ops[i] = "N"
	}
	return strings.Join(ops, ",")
}

func absentTerm() []byte { return []byte("nope") }

// dumpIndex emits the complete term-query surface of a segment.
func (g *Gen) dumpIndex(seg string) {
	u := g.univ[seg]
	nd := g.ndocs[seg]
	g.emit("q count %s", seg)
	g.emit("q fields %s", seg)
	fields := sortedFieldNames(u.Fields)
	fields = append(fields, "nosuchfield")
	for _, f := range fields {
		terms := sortedKeys(u.Fields[f])
		var probe [][]byte
		for _, t := range terms {
			probe = append(probe, []byte(t))
		}
		probe = append(probe, absentTerm())
		g.emit("q dict %s %s aut=all lo=* hi=* probe=%s", seg, f, hxList(probe))
		for _, t := range probe {
			g.emit("q post %s %s %s ex=nil fl=111 ops=%s", seg, f, hx(t), g.nexts(nd+1))
		}
		// the same lookups with one recycled list and iterator: hits followed by misses (an absent
		// term, a term of another field, the empty term) must not show what the list held before
		probe = append(probe, []byte(""))
		for _, of := range fields {
			if of != f {
				for _, t := range sortedKeys(u.Fields[of]) {
					if _, here := u.Fields[f][t]; !here {
						probe = append(probe, []byte(t))
						break
					}
				}
			}
		}
		for i, t := range probe {
			g.emit("q post %s %s %s ex=nil fl=%s pl=pd it=id ops=%s", seg, f, hx(t), []string{"000", "111", "100"}[i%3], g.nexts(nd+1))
		}
		// a miss, then a hit read only partly through the objects the miss handed out, then a fresh miss
		if len(terms) > 0 {
			g.emit("q post %s %s %s ex=nil fl=111 pl=pe it=ie ops=N", seg, f, hx(absentTerm()))
			g.emit("q post %s %s %s ex=nil fl=111 pl=pe it=ie ops=N", seg, f, hx([]byte(terms[len(terms)/2])))
			g.emit("q post %s %s %s ex=nil fl=111 ops=N,N", seg, f, hx([]byte("nope2")))
			g.emit("q post %s nosuchfield2 %s ex=nil fl=000 ops=N,N", seg, hx([]byte(terms[0])))
		}
		// hits that are stepped over rather than read: an excluded first document, an Advance
		if nd >= 2 {
			for _, t := range probe {
				if g.chance(0.5) {
					g.emit("q post %s %s %s ex=0 fl=111 ops=%s", seg, f, hx(t), g.nexts(nd+1))
					g.emit("q post %s %s %s ex=nil fl=111 ops=A%d,%s", seg, f, hx(t), 1+g.r.Intn(nd-1), g.nexts(nd))
				}
			}
		}
	}
}

func (g *Gen) dumpStored(seg string) {
	u := g.univ[seg]
	nd := g.ndocs[seg]
	for d := 0; d <= nd+1; d++ {
		g.emit("q stored %s %d stop=*", seg, d)
		g.emit("q docid %s %d", seg, d)
	}
	var ids [][]byte
	for _, id := range sortedKeys(u.IDs) {
		ids = append(ids, []byte(id))
	}
	ids = append(ids, []byte("absent-id"), []byte("zzzz-greater"), []byte("!less"))
	g.emit("q docnums %s ids=- mut=1", seg)
	g.emit("q docnums %s ids=-", seg)
	g.emit("q docnums %s ids=%s mut=1", seg, hxList(ids))
	g.emit("q docnums %s ids=%s", seg, hxList(ids))
	// unknown ids (also ones beyond every key) may come anywhere in the list
	shuffled := append([][]byte{[]byte("zzzz-greater"), []byte("~~")}, ids...)
	g.r.Shuffle(len(shuffled)-1, func(i, j int) { shuffled[i+1], shuffled[j+1] = shuffled[j+1], shuffled[i+1] })
	g.emit("q docnums %s ids=%s", seg, hxList(shuffled))
	for _, id := range ids {
		g.emit("q docnums %s ids=%s", seg, hx(id))
	}
}

func (g *Gen) dumpDv(seg string, state string) {
	u := g.univ[seg]
	nd := g.ndocs[seg]
	g.emit("q dvfields %s", seg)
	fields := sortedFieldNames(u.Fields)
	fields = append(fields, "nosuchfield")
	for d := 0; d < nd; d++ {
		g.emit("q dv %s %s fields=%s doc=%d", seg, state, strList(fields), d)
	}
}

func (g *Gen) dumpThes(seg string) {
	u := g.univ[seg]
	names := sortedFieldNames(u.Thes)
	names = append(names, "nothes")
	for _, th := range names {
		var probe [][]byte
		for _, t := range sortedKeys(u.Thes[th]) {
			probe = append(probe, []byte(t))
		}
		probe = append(probe, absentTerm())
		g.emit("q thesterms %s %s probe=%s", seg, th, hxList(probe))
		for _, t := range probe {
			g.emit("q thes %s %s %s ex=nil", seg, th, hx(t))
		}
	}
}

func (g *Gen) dumpAll(seg string) {
	g.emit("q header %s", seg)
	g.dumpIndex(seg)
	g.dumpStored(seg)
	g.dumpDv(seg, "-")
	g.dumpThes(seg)
}

var chunkModes = []int{1, 2, 3, 7, 1024, 1025, 1026}

func (g *Gen) setMode() int {
	m := chunkModes[g.r.Intn(len(chunkModes))]
	g.curMode = m
	g.emit("cfg chunkmode=%d", m)
	return m
}

func (g *Gen) tierN(quick, thorough int) int {
	if g.tier == "thorough" {
		return thorough
	}
	return quick
}

func (g *Gen) generate(prop string, n int) error {
	switch prop {
	case "C01":
		return g.genC01(n)
	case "C02":
		return g.genC02(n)
	case "C03":
		return g.genC03(n)
	case "C04":
		return g.genC04(n)
	case "C05", "C06":
		return g.genMerge(prop, n)
	case "C07":
		return g.genC07(n)
	case "C08":
		return g.genC08(n)
	case "ENC":
		return g.genEnc(n)
	}
	if f, ok := extraGens[prop]; ok {
		return f(g, n)
	}
	return fmt.Errorf("no generator for %s", prop)
}

var extraGens = map[string]func(*Gen, int) error{}

func (g *Gen) genC01(n int) error {
	if n == 0 {
		n = g.tierN(480, 9000)
	}
	for i := 0; i < n; i++ {
		g.emit("note case %d", i)
		g.setMode()
		cfg := g.defaultCfg()
		if (g.tier == "thorough" && i%200 == 199) || (g.tier == "quick" && i%240 == 239) {
			// large batch so that cardinalities cross 1024
			cfg.minDocs, cfg.maxDocs = 1100, 2300
			cfg.maxFields = 2
			cfg.fields = cfg.fields[:1]
			cfg.terms = cfg.terms[:2]
			g.st("bigbatch")
		}
		if g.chance(0.05) {
			cfg.minDocs, cfg.maxDocs = 0, 0
			g.st("emptybatch")
		}
		if (g.tier == "thorough" && i%150 == 77) || (g.tier == "quick" && i%160 == 77) {
			g.bigBuildCase([]int{1025, 1026, 1024, 1025}[(i/150)%4])
			g.st("case")
			continue
		}
		if (g.tier == "thorough" && i%150 == 33) || (g.tier == "quick" && i%160 == 33) {
			g.wideSchemaCase(false)
			g.st("case")
			continue
		}
		if i == 3 || i == 203 {
			g.shrinkingBuildsCase()
			g.st("case")
			continue
		}
		b := g.randBatch(g.fresh("b"), cfg)
		g.emitBatch(b)
		if g.chance(0.1) {
			b = g.rejectThenRetry(b)
		}
		s := g.fresh("s")
		g.emit("build %s %s", s, b.Name)
		g.newBuilt(s, b)
		g.dumpIndex(s)
		g.st("case")
	}
	return nil
}

// shrinkingBuildsCase: builds of 600, then 400, then 30, then 600 documents on one plugin (one
// pooled builder); after EVERY build all segments built so far are read again - terms, hits with
// locations in the middle and at the end, stored fields, ids.  A built segment owns its bytes.
func (g *Gen) shrinkingBuildsCase() {
	g.curMode = 1026
	g.emit("cfg chunkmode=1026")
	type built struct {
		seg string
		nd  int
		bn  string
	}
	var all []built
	for _, nd := range []int{600, 400, 30, 600} {
		b := &BatchSpec{Name: g.fresh("b")}
		for d := 0; d < nd; d++ {
			id := []byte(fmt.Sprintf("%s-%d", b.Name, d))
			doc := DocSpec{ID: id, Plain: true}
			doc.Fields = append(doc.Fields, FieldSpec{Kind: "fld", Name: "_id", Typ: 't', Stored: true, Len: 1, Val: id, Toks: []TokSpec{{Term: id, Freq: 1}}})
			toks := []TokSpec{{Term: []byte(fmt.Sprintf("big%d", d%7)), Freq: 2, Locs: []LocSpec{{Pos: 1, Start: d, End: d + 2}, {Pos: 4, Start: d + 5, End: d + 9}}},
				{Term: []byte("every"), Freq: 1 + d%3}}
			doc.Fields = append(doc.Fields, FieldSpec{Kind: "fld", Name: "body", Typ: 't', Stored: d%50 == 0, Val: []byte(fmt.Sprintf("stored body of %d", d)), Len: 3, DV: d%9 == 0, Toks: toks})
			b.Docs = append(b.Docs, doc)
		}
		g.emitBatch(b)
		s := g.fresh("s")
		g.emit("build %s %s", s, b.Name)
		g.newBuilt(s, b)
		all = append(all, built{s, nd, b.Name})
		for _, x := range all {
			g.emit("q count %s", x.seg)
			g.emit("q dict %s body aut=all lo=* hi=* probe=-", x.seg)
			g.emit("q post %s body %s ex=nil fl=111 ops=N,N,A%d,N,A%d,N,N", x.seg, hx([]byte("big0")), x.nd/2, x.nd-8)
			g.emit("q post %s body %s ex=nil fl=111 ops=A%d,N,N,N", x.seg, hx([]byte("every")), x.nd-3)
			g.emit("q post %s _id %s ex=nil fl=111 ops=N,N", x.seg, hx([]byte(fmt.Sprintf("%s-%d", x.bn, x.nd-1))))
			for _, d := range []int{0, x.nd / 2, x.nd - 1} {
				g.emit("q stored %s %d stop=*", x.seg, d)
				g.emit("q docid %s %d", x.seg, d)
			}
			g.emit("q dv %s - fields=body doc=%d", x.seg, x.nd-x.nd%9-9)
		}
	}
	for _, x := range all {
		g.emit("close %s", x.seg)
	}
	g.st("shrinkingbuilds")
}

// rejectThenRetry: the application's field validator rejects the batch (already emitted); the batch to
// build next holds the same documents in another order.
func (g *Gen) rejectThenRetry(b *BatchSpec) *BatchSpec {
	rej := ""
	for _, d := range b.Docs {
		for _, f := range d.Fields {
			if f.Kind == "fld" && f.Name != "_id" {
				rej = f.Name
			}
		}
	}
	if rej == "" {
		return b
	}
	g.emit("validator reject:%s", rej)
	g.emit("build %s %s", g.fresh("x"), b.Name)
	g.emit("validator none")
	g.st("rejected-then-retry")
	if len(b.Docs) < 2 {
		return b
	}
	b2 := &BatchSpec{Name: g.fresh("b")}
	for k := len(b.Docs) - 1; k >= 0; k-- {
		b2.Docs = append(b2.Docs, b.Docs[k])
	}
	g.emitBatch(b2)
	return b2
}

// bigBuildCase: more than 1024 documents and terms whose cardinalities sit on both sides of, and
// exactly at, the 1024 boundary of the cardinality-dependent chunk modes, next to each other in
// term order.
func (g *Gen) bigBuildCase(mode int) {
	g.curMode = mode
	g.emit("cfg chunkmode=%d", mode)
	nd := 1100 + g.r.Intn(200)
	b := &BatchSpec{Name: g.fresh("b")}
	in := func(term string, d int) bool {
		switch term {
		case "a":
			return true
		case "b":
			return d >= nd-1024 // exactly 1024 documents
		case "c":
			return d < 1025
		case "d":
			return d < 1023
		case "e":
			return d%2 == 0
		}
		return d >= nd-1025 // "f": 1025 documents at the end
	}
	for d := 0; d < nd; d++ {
		id := []byte(fmt.Sprintf("%s-%d", b.Name, d))
		doc := DocSpec{ID: id, Plain: true}
		doc.Fields = append(doc.Fields, FieldSpec{Kind: "fld", Name: "_id", Typ: 't', Stored: true, Len: 1, Val: id, Toks: []TokSpec{{Term: id, Freq: 1}}})
		var toks []TokSpec
		for _, term := range []string{"a", "b", "c", "d", "e", "f"} {
			if in(term, d) {
				t := TokSpec{Term: []byte(term), Freq: 1 + (d+int(term[0]))%3}
				if term == "a" && d%5 != 0 || term == "b" && d%7 == 0 {
					t.Locs = []LocSpec{{Pos: 1 + d%7, Start: d, End: d + 3}}
				}
				toks = append(toks, t)
			}
		}
		doc.Fields = append(doc.Fields, FieldSpec{Kind: "fld", Name: "body", Typ: 't', Len: 2 + d%4, DV: d%2 == 0, Toks: toks})
		if d < 700 {
			// a multi-valued field: two values per document that share a term - 700 documents, 1400 values
			// (the term's cardinality is the number of documents, whatever the number of values)
			for v := 0; v < 2; v++ {
				doc.Fields = append(doc.Fields, FieldSpec{Kind: "fld", Name: "multi", Typ: 't', Len: 1 + v, Toks: []TokSpec{
					{Term: []byte("m"), Freq: 1 + (d+v)%2, Locs: []LocSpec{{Pos: 1 + v, Start: d + v, End: d + v + 2}}}}})
			}
		}
		b.Docs = append(b.Docs, doc)
	}
	g.emitBatch(b)
	s := g.fresh("s")
	g.emit("build %s %s", s, b.Name)
	g.newBuilt(s, b)
	g.emit("q count %s", s)
	g.emit("q post %s multi %s ex=nil fl=111 ops=N,N,A340,N,N,A520,N,A698,N,N,N", s, hx([]byte("m")))
	g.emit("q post %s multi %s ex=3,350,351 fl=111 ops=N,N,N,N,A349,N,N,N", s, hx([]byte("m")))
	tail := "N,N,N,N,N,N,N,N,N,N,N,N"
	for _, term := range []string{"a", "b", "c", "d", "e", "f", "nope"} {
		g.emit("q post %s body %s ex=nil fl=111 ops=N,N,N,A500,N,N,A1015,%s,A%d,N,N,N", s, hx([]byte(term)), tail, nd-3)
		g.emit("q post %s body %s ex=nil fl=000 ops=%s", s, hx([]byte(term)), g.nexts(nd+1))
	}
	// lists whose cardinality and whose count of non-excluded hits lie on different sides of 1024
	// (the chunking is that of the cardinality, whatever is excluded)
	var exA []int
	for d := 0; d < nd-1000; d++ {
		exA = append(exA, 2*d+1)
	}
	g.emit("q post %s body %s ex=%s fl=111 ops=N,N,A%d,N,N,A%d,N,N,A%d,N,N", s, hx([]byte("a")), intList(exA), 2*(nd-1000)+7, 1018, nd-3)
	g.emit("q post %s body %s ex=%d,%d fl=111 ops=N,N,A%d,N,N,A%d,N,N", s, hx([]byte("f")), nd-1025, nd-2, nd-500, nd-4)
	g.emit("q post %s body %s ex=%d fl=111 ops=N,A%d,N,N", s, hx([]byte("b")), nd-1024, nd-3)
	g.emit("q dict %s body aut=all lo=* hi=* probe=-", s)
	g.st("bigbuild")
}

func (g *Gen) genC02(n int) error {
	if n == 0 {
		n = g.tierN(480, 9000)
	}
	for i := 0; i < n; i++ {
		g.emit("note case %d", i)
		g.setMode()
		cfg := g.defaultCfg()
		cfg.bigVals = g.tier == "thorough" && g.chance(0.2)
		cfg.dupIDs = g.chance(0.4)
		if g.chance(0.05) {
			cfg.minDocs, cfg.maxDocs = 0, 0
		}
		b := g.randBatch(g.fresh("b"), cfg)
		g.emitBatch(b)
		if g.chance(0.12) {
			// the application's field validator rejects the batch; the repaired retry comes next
			rej := ""
			for _, d := range b.Docs {
				for _, f := range d.Fields {
					if f.Kind == "fld" && f.Name != "_id" {
						rej = f.Name
					}
				}
			}
			if rej != "" {
				g.emit("validator reject:%s", rej)
				g.emit("build %s %s", g.fresh("x"), b.Name)
				g.emit("validator none")
				g.st("rejected-then-retry")
				if g.chance(0.7) && len(b.Docs) > 1 {
					// the retry holds the same documents in another order
					b2 := &BatchSpec{Name: g.fresh("b")}
					for k := len(b.Docs) - 1; k >= 0; k-- {
						b2.Docs = append(b2.Docs, b.Docs[k])
					}
					g.emitBatch(b2)
					b = b2
				}
			}
		}
		s := g.fresh("s")
		g.emit("build %s %s", s, b.Name)
		g.newBuilt(s, b)
		g.revisitEarlier(s, false)
		g.emit("q count %s", s)
		g.emit("q fields %s", s)
		g.dumpStored(s)
		for d := 0; d < len(b.Docs); d++ {
			nst := 0
			for _, f := range b.Docs[d].Fields {
				if f.Kind == "fld" && f.Stored {
					nst++
				}
			}
			for k := 1; k <= nst+1; k++ {
				g.emit("q stored %s %d stop=%d", s, d, k)
			}
		}
		// a visitor that looks at another document of the same segment before it returns
		for d := 0; d < len(b.Docs); d++ {
			g.emit("q stored %s %d stop=* nest=%d", s, d, (d+1)%len(b.Docs))
		}
		// after early-terminated visits everything must still read the same
		g.emit("q stored %s 0 stop=*", s)
		// the ids a caller keeps stay what they were, whatever is asked afterwards
		if len(b.Docs) > 0 {
			g.emit("q docids %s n=%d visit=%d", s, len(b.Docs)+1, len(b.Docs)-1)
		}
		if i%3 == 0 && len(b.Docs) > 0 {
			// the same from a file, visited in turns with the file of an earlier case: the same
			// document number in two opened segments, one after the other
			f := g.fresh("f")
			g.emit("persist %s %s", s, f)
			o := g.fresh("o")
			g.emit("open %s %s", o, f)
			g.alias(o, s)
			g.emit("q docids %s n=%d visit=0", o, len(b.Docs)+1)
			if p := g.prevOpened; p != "" {
				for d := 0; d < len(b.Docs) && d < g.ndocs[p] && d < 4; d++ {
					g.emit("q stored %s %d stop=*", p, d)
					g.emit("q stored %s %d stop=*", o, d)
					g.emit("q docid %s %d", p, d)
					g.emit("q docid %s %d", o, d)
					g.emit("q stored %s %d stop=*", p, d)
				}
				g.emit("close %s", p)
			}
			g.prevOpened = o
			g.st("opened.alternating")
		}
		g.st("case")
	}
	return nil
}

func (g *Gen) genC03(n int) error {
	if n == 0 {
		n = g.tierN(480, 9000)
	}
	dvChunks := []int{1, 2, 3, 5, 1024}
	defer g.emit("cfg dvchunk=1024")
	for i := 0; i < n; i++ {
		g.emit("note case %d", i)
		if i == 5 {
			// more than 1024 documents: several doc-value chunks of the real size
			g.emit("cfg dvchunk=1024")
			g.bigFrozenCase(1026)
			g.st("case")
			continue
		}
		if i == 7 {
			g.emit("cfg dvchunk=1024")
			g.trailingEmptyDvChunkCase()
			g.st("case")
			continue
		}
		if i%40 == 9 {
			g.dvWalkCase()
			g.st("case")
			continue
		}
		dvc := dvChunks[g.r.Intn(len(dvChunks))]
		g.emit("cfg dvchunk=%d", dvc)
		g.setMode()
		if i%10 == 3 {
			// merged segments: the visitable fields and the values of the survivors
			g.genMergeCase(nil, func(m string) { g.dumpDv(m, "-") }, 1+g.r.Intn(2))
			g.st("case")
			continue
		}
		var segs []string
		for k := 0; k < 2; k++ {
			cfg := g.defaultCfg()
			cfg.minDocs = 1
			b := g.randBatch(g.fresh("b"), cfg)
			g.emitBatch(b)
			s := g.fresh("s")
			g.emit("build %s %s", s, b.Name)
			g.newBuilt(s, b)
			segs = append(segs, s)
		}
		g.dumpDv(segs[0], "-")
		// one state, fixed field list, arbitrary visiting orders, alternating segments
		st := g.fresh("st")
		fieldSet := map[string]bool{}
		for _, s := range segs {
			for f := range g.univ[s].Fields {
				fieldSet[f] = true
			}
		}
		fields := sortedKeys(fieldSet)
		if g.chance(0.5) {
			g.r.Shuffle(len(fields), func(a, b int) { fields[a], fields[b] = fields[b], fields[a] })
			fields = fields[:1+g.r.Intn(len(fields))]
		}
		fields = append(fields, "nosuchfield")
		nv := 6 + g.r.Intn(12)
		cur := segs[0]
		for v := 0; v < nv; v++ {
			if g.chance(0.25) {
				cur = segs[g.r.Intn(2)]
			}
			d := g.r.Intn(g.ndocs[cur])
			g.emit("q dv %s %s fields=%s doc=%d", cur, st, strList(fields), d)
		}
		// one state, a field list that changes from call to call (the readers a state holds
		// are the ones of the call that set it up)
		st3 := g.fresh("st")
		allf := append(sortedKeys(fieldSet), "nosuchfield")
		for v := 0; v < 8+g.r.Intn(8); v++ {
			if g.chance(0.2) {
				cur = segs[g.r.Intn(2)]
			}
			sub := []string{}
			for _, f := range allf {
				if g.chance(0.5) {
					sub = append(sub, f)
				}
			}
			if v >= 3 && g.chance(0.4) {
				sub = allf
			}
			g.emit("q dv %s %s fields=%s doc=%d", cur, st3, strList(sub), g.r.Intn(g.ndocs[cur]))
		}
		// two private states on the same segment, visited alternately (each keeps its own chunk)
		sa, sb := g.fresh("st"), g.fresh("st")
		for v := 0; v < 6+g.r.Intn(6); v++ {
			g.emit("q dv %s %s fields=%s doc=%d", segs[0], sa, strList(allf), g.r.Intn(g.ndocs[segs[0]]))
			g.emit("q dv %s %s fields=%s doc=%d", segs[0], sb, strList(allf), g.r.Intn(g.ndocs[segs[0]]))
		}
		// descending order with a fresh state
		st2 := g.fresh("st")
		for d := g.ndocs[segs[1]] - 1; d >= 0; d-- {
			g.emit("q dv %s %s fields=%s doc=%d", segs[1], st2, strList(fields), d)
		}
		g.st("case")
	}
	return nil
}

func (g *Gen) genC04(n int) error {
	if n == 0 {
		n = g.tierN(320, 4800)
	}
	for i := 0; i < n; i++ {
		g.emit("note case %d", i)
		if i == 9 && !g.vectors {
			g.bigFileCase()
			g.st("case")
			continue
		}
		if i == 13 && !g.vectors {
			g.exactChunkCase(1024 * (1 + g.r.Intn(2)))
			g.st("case")
			continue
		}
		if i == 21 || i == 22 {
			// two segments of the same shape and size but different content, persisted one after the
			// other at ONE path: the file is the second one's
			g.setMode()
			var sg [2]string
			// ("apple"/"blue" and "bpple"/"clue": the two dictionaries have the same shape, the files the same length)
			for k, w := range []string{"apple", "bpple"} {
				b := &BatchSpec{Name: g.fresh("b")}
				for d := 0; d < 3; d++ {
					id := []byte(fmt.Sprintf("same-%d", d))
					doc := DocSpec{ID: id, Plain: true}
					doc.Fields = append(doc.Fields, FieldSpec{Kind: "fld", Name: "_id", Typ: 't', Stored: true, Len: 1, Val: id, Toks: []TokSpec{{Term: id, Freq: 1}}})
					doc.Fields = append(doc.Fields, FieldSpec{Kind: "fld", Name: "body", Typ: 't', Stored: true, DV: true, Len: 2, Val: []byte(w),
						Toks: []TokSpec{{Term: []byte(w), Freq: 1, Locs: []LocSpec{{Pos: 1, Start: 0, End: 5}}}, {Term: []byte([]string{"blue", "clue"}[k]), Freq: 1}}})
					b.Docs = append(b.Docs, doc)
				}
				g.emitBatch(b)
				sg[k] = g.fresh("s")
				g.emit("build %s %s", sg[k], b.Name)
				g.newBuilt(sg[k], b)
			}
			f := g.fresh("f")
			g.emit("persist %s %s", sg[0], f)
			o1 := g.fresh("o")
			g.emit("open %s %s", o1, f)
			g.alias(o1, sg[0])
			g.dumpAll(o1)
			g.emit("close %s", o1)
			g.emit("persist %s %s keep=1", sg[1], f)
			g.emit("q samesize %s %s", sg[0], sg[1])
			w := g.fresh("w")
			g.emit("writeto %s %s", sg[1], w)
			g.emit("cmpfile %s %s", f, w)
			o2 := g.fresh("o")
			g.emit("open %s %s", o2, f)
			g.alias(o2, sg[1])
			g.dumpAll(o2)
			g.emit("close %s", o2)
			g.st("persist-same-size")
			g.st("case")
			continue
		}
		if i == 17 || i == 18 || i == 19 {
			// more fields than one byte counts: 136+, exactly 128, 127 / 129
			g.wideSchemaCase(true)
			g.st("case")
			continue
		}
		g.setMode()
		cfg := g.defaultCfg()
		cfg.syn = g.chance(0.4)
		cfg.vec = g.vectors && g.chance(0.4)
		if g.chance(0.05) {
			cfg.minDocs, cfg.maxDocs = 0, 0
		}
		b := g.randBatch(g.fresh("b"), cfg)
		g.emitBatch(b)
		s := g.fresh("s")
		g.emit("build %s %s", s, b.Name)
		g.newBuilt(s, b)
		g.revisitEarlier(s, true)
		f := g.fresh("f")
		if g.chance(0.15) {
			// a longer file of an earlier, bigger segment is at the path already
			cfgBig := g.defaultCfg()
			cfgBig.minDocs, cfgBig.maxDocs = 12, 20
			bb := g.randBatch(g.fresh("b"), cfgBig)
			g.emitBatch(bb)
			sb := g.fresh("s")
			g.emit("build %s %s", sb, bb.Name)
			g.emit("persist %s %s", sb, f)
			g.emit("persist %s %s keep=1", s, f)
			g.st("persist-over-longer")
		} else {
			g.emit("persist %s %s", s, f)
		}
		w := g.fresh("w")
		g.emit("writeto %s %s", s, w)
		g.emit("cmpfile %s %s", f, w)
		if g.chance(0.5) {
			// the same through the caller's own buffered writer, smaller or larger than a page
			w2 := g.fresh("w")
			g.emit("writeto %s %s bufio=%d", s, w2, []int{16, 64, 512, 4095, 4096, 16384}[g.r.Intn(6)])
			g.emit("cmpfile %s %s", f, w2)
		}
		if i%3 == 0 {
			// streamed into an *os.File that already holds a longer piece of other content and stands
			// at its end: the segment is appended, what was written before stays
			w5 := g.fresh("w")
			g.emit("writeto %s %s osfile=1", s, w5)
			g.emit("cmpfile %s %s", f, w5)
			g.st("writeto.osfile")
		}
		g.emit("footer %s mode=%d docs=%d", f, g.curMode, len(b.Docs))
		o := g.fresh("o")
		g.emit("open %s %s", o, f)
		g.alias(o, s)
		if g.chance(0.3) {
			// another reader came and went before the comparison
			g.emit("ref addref %s", o)
			g.emit("ref decref %s", o)
			g.st("sharer")
		}
		// the opened segment can be streamed too (through the method it inherits; its footer carries
		// no checksum of its own, so the bytes are not compared), and stays what it was
		w3 := g.fresh("w")
		g.emit("writeto %s %s", o, w3)
		if i%8 == 3 {
			// WriteTo under faults (every offset would be Gen C17's business; here every 37th, and
			// transient ones), then once more without: the bytes are those of the file
			g.emit("writetofaults %s step=37", s)
			w4 := g.fresh("w")
			g.emit("writeto %s %s", s, w4)
			g.emit("cmpfile %s %s", f, w4)
		}
		g.dumpAll(s)
		g.dumpAll(o)
		// what a segment handed out stays valid after the segment is gone
		kf := g.fresh("k")
		g.emit("q keepfields %s %s", o, kf)
		g.emit("close %s", o)
		g.emit("showkept %s", kf)
		g.emit("rmfile %s", f)
		g.st("case")
	}
	return nil
}

// randDrops returns a drops spec for a segment with nd docs.
func (g *Gen) randDrops(nd int) string {
	switch g.r.Intn(6) {
	case 0:
		return "nil"
	case 1:
		return "-"
	case 2:
		if nd == 0 {
			return "-"
		}
		all := make([]int, nd)
		for i := range all {
			all[i] = i
		}
		return intList(all)
	default:
		var xs []int
		for i := 0; i < nd; i++ {
			if g.chance(0.35) {
				xs = append(xs, i)
			}
		}
		if len(xs) == 0 {
			return "-"
		}
		return intList(xs)
	}
}

// genMergeCase emits one merge scenario; returns the names of all live
// segments so the caller can dump what it needs.
func (g *Gen) genMergeCase(cfgMod func(*batchCfg), dump func(seg string), depth int) {
	g.setMode()
	var pool []string
	nb := 1 + g.r.Intn(3)
	base := g.defaultCfg()
	if cfgMod != nil {
		cfgMod(&base)
	}
	sameFields := g.chance(0.5)
	for k := 0; k < nb; k++ {
		cfg := base
		if !sameFields {
			cfg = g.defaultCfg()
			if cfgMod != nil {
				cfgMod(&cfg)
			}
			cfg.terms = base.terms
		}
		if g.chance(0.1) {
			cfg.minDocs, cfg.maxDocs = 0, 0
		} else {
			cfg.minDocs = 1
		}
		b := g.randBatch(g.fresh("b"), cfg)
		if sameFields && len(b.Docs) > 0 {
			// force identical field lists: make doc 0 carry every field
			have := map[string]bool{}
			for _, d := range b.Docs {
				for _, f := range d.Fields {
					have[f.Name] = true
				}
			}
			for _, fn := range cfg.fields {
				if !have[fn] {
					b.Docs[0].Fields = append(b.Docs[0].Fields, FieldSpec{Kind: "fld", Name: fn, Typ: 't', Len: 0})
				}
			}
		}
		g.emitBatch(b)
		if g.chance(0.3) {
			// inputs written under different chunk modes (a configuration change between segments)
			g.setMode()
			g.st("input.othermode")
		}
		s := g.fresh("s")
		g.emit("build %s %s", s, b.Name)
		g.newBuilt(s, b)
		if g.chance(0.5) {
			f := g.fresh("f")
			g.emit("persist %s %s", s, f)
			o := g.fresh("o")
			g.emit("open %s %s", o, f)
			g.alias(o, s)
			pool = append(pool, o)
			g.st("input.opened")
		} else {
			pool = append(pool, s)
			g.st("input.built")
		}
	}
	for lvl := 0; lvl < depth; lvl++ {
		if g.chance(0.3) {
			g.setMode() // the merge output in yet another chunk mode
		}
		k := 1 + g.r.Intn(3)
		if k > len(pool) {
			k = len(pool)
		}
		perm := g.r.Perm(len(pool))
		if g.disjoint {
			var keep []int
			seen := map[string]bool{}
			for _, pi := range perm {
				ok := true
				for b := range g.lineage[pool[pi]] {
					if seen[b] {
						ok = false
					}
				}
				if ok {
					keep = append(keep, pi)
					for b := range g.lineage[pool[pi]] {
						seen[b] = true
					}
				}
			}
			perm = keep
		}
		if k > len(perm) {
			k = len(perm)
		}
		perm = perm[:k]
		lin := map[string]bool{}
		for _, pi := range perm {
			for b := range g.lineage[pool[pi]] {
				lin[b] = true
			}
		}
		var ins []string
		var drops []string
		u := newUniverse()
		total := 0
		allDropped := true
		for _, pi := range perm {
			s := pool[pi]
			ins = append(ins, s)
			d := g.randDrops(g.ndocs[s])
			if lvl == 0 && g.chance(0.25) {
				d = "nil"
			}
			drops = append(drops, d)
			u.union(g.univ[s], g.ndocs[s])
			total += g.ndocs[s]
			if d != "nil" && d != "-" {
				total -= len(strings.Split(d, ","))
			}
			if g.ndocs[s] > 0 && (d == "nil" || d == "-" || len(strings.Split(d, ",")) < g.ndocs[s]) {
				allDropped = false
			}
		}
		f := g.fresh("f")
		if allDropped {
			g.st("merge.zero-survivors")
		}
		if g.sweepBeforeMerge {
			// abandoned inside every single progress report in turn (so also in the middle of every term of
			// every thesaurus), each attempt followed by nothing but the next one; then the merge proper
			g.emit("cfg mergebuf=16")
			g.emit("mergecancel %s segs=%s drops=%s max=100000", g.fresh("fx"), strList(ins), strings.Join(drops, "|"))
			g.emit("cfg mergebuf=%d", 1024*1024)
			g.st("merge.sweptfirst")
		}
		if g.abandonBeforeMerge {
			// the same merge abandoned at a few points first (the close channel closes inside the k-th
			// progress report): whatever those attempts left in pools or scratch objects, the merge that
			// runs to the end is unaffected
			g.emit("cfg mergebuf=64")
			for _, k := range []int{2, 11, 29, 61, 120} {
				g.emit("merge %s segs=%s drops=%s close=report:%d", g.fresh("fx"), strList(ins), strings.Join(drops, "|"), k+g.r.Intn(4))
			}
			g.emit("cfg mergebuf=%d", 1024*1024)
			g.st("merge.abandonedfirst")
		}
		g.emit("merge %s segs=%s drops=%s", f, strList(ins), strings.Join(drops, "|"))
		g.emit("footer %s", f) // whatever path the merge took, the file ends in a footer that matches its bytes
		m := g.fresh("m")
		g.emit("open %s %s", m, f)
		g.univ[m] = u
		g.ndocs[m] = total
		g.lineage[m] = lin
		dump(m)
		pool = append(pool, m)
		g.st(fmt.Sprintf("merge.depth%d", lvl+1))
	}
}

// bigMergeCase: two segments with more than 1024 documents sharing a term, and deletions
// that move the term's cardinality across a multiple of 1024 (chunk modes 1025/1026 size
// chunks from the cardinality; writer and reader must agree on it).
func (g *Gen) bigMergeCase() {
	mode := []int{1026, 1026, 1025, 1024, 3}[g.r.Intn(5)]
	// the first two big merges of a run are the cardinality-dependent modes with deletions crossing 1024
	nth := g.stats["bigmerge"]
	if g.forceBigVariant > 0 {
		nth = g.forceBigVariant - 1
	}
	if nth < 7 {
		mode = []int{1026, 1026, 1025, 1026, 1026, 1026, 1026}[nth]
	}
	g.curMode = mode
	g.emit("cfg chunkmode=%d", mode)
	var segs []string
	sizes := []int{600 + g.r.Intn(200), 500 + g.r.Intn(300)}
	if g.chance(0.3) && nth != 3 {
		sizes = []int{1100 + g.r.Intn(300)}
	}
	if nth == 3 {
		sizes = []int{600, 430} // exactly 1024 survivors, see below
	}
	if nth == 5 {
		// 6th big merge of a run: ONE input whose frequent terms have more than 1024 hits, and deletions
		// that leave fewer than 1024 of them (the input is read through a list whose live count and
		// whose cardinality lie on different sides of 1024)
		sizes = []int{1100 + g.r.Intn(300)}
	}
	if nth == 6 {
		// 7th big merge of a run: ONE big input with exactly 1024 survivors, and behind it a small input
		// that alone has a doc-value field: that field's first document is number 1024 of the output,
		// the first of the second doc-value chunk (built below, after the big one)
		sizes = []int{1030}
	}
	if nth == 4 {
		// 5th big merge of a run: in front of ONE big input (its frequent terms in 1030 documents, 10 of
		// them deleted: the live count crosses 1024) stand two small inputs, one without the field, one
		// with the field but without those terms - each with deletions of its own
		sizes = []int{1030}
		for _, withBody := range []bool{false, true} {
			b := &BatchSpec{Name: g.fresh("b")}
			for d := 0; d < 12; d++ {
				id := []byte(fmt.Sprintf("%s-%d", b.Name, d))
				doc := DocSpec{ID: id, Plain: true}
				doc.Fields = append(doc.Fields, FieldSpec{Kind: "fld", Name: "_id", Typ: 't', Stored: true, Len: 1, Val: id, Toks: []TokSpec{{Term: id, Freq: 1}}})
				if withBody {
					doc.Fields = append(doc.Fields, FieldSpec{Kind: "fld", Name: "body", Typ: 't', Len: 1, Toks: []TokSpec{{Term: []byte("other"), Freq: 1}}})
				}
				b.Docs = append(b.Docs, doc)
			}
			g.emitBatch(b)
			s := g.fresh("s")
			g.emit("build %s %s", s, b.Name)
			g.newBuilt(s, b)
			segs = append(segs, s)
		}
	}
	for k, nd := range sizes {
		b := &BatchSpec{Name: g.fresh("b")}
		for d := 0; d < nd; d++ {
			id := []byte(fmt.Sprintf("%s-%d", b.Name, d))
			doc := DocSpec{ID: id, Plain: true}
			doc.Fields = append(doc.Fields, FieldSpec{Kind: "fld", Name: "_id", Typ: 't', Stored: true, Len: 1, Val: id, Toks: []TokSpec{{Term: id, Freq: 1}}})
			t := TokSpec{Term: []byte("common"), Freq: 1 + (d+k)%3}
			if d%5 != 0 {
				t.Locs = []LocSpec{{Pos: 1 + d%7, Start: d, End: d + 3}}
			}
			toks := []TokSpec{t}
			if d%2 == 0 {
				toks = append(toks, TokSpec{Term: []byte("even"), Freq: 1})
			}
			toks = append(toks, TokSpec{Term: []byte("zzz"), Freq: 1})
			doc.Fields = append(doc.Fields, FieldSpec{Kind: "fld", Name: "body", Typ: 't', Len: 2 + d%4, DV: k == 0, Toks: toks})
			// the field that sorts right behind `body`: its FIRST term is the empty term (few hits, while
			// the last term before it is in every document), its last term is in every document again
			b0 := []TokSpec{{Term: []byte("zzz"), Freq: 1 + d%2}}
			if d%40 == 7 || d == nd-2 {
				b0 = append(b0, TokSpec{Term: []byte{}, Freq: 3, Locs: []LocSpec{{Pos: 2, Start: d, End: d + 1}}})
			}
			doc.Fields = append(doc.Fields, FieldSpec{Kind: "fld", Name: "body0", Typ: 't', Len: 4, Toks: b0})
			if d == nd-1 || d == nd-3 {
				// the next field's FIRST term equals this field's LAST term, with few hits
				doc.Fields = append(doc.Fields, FieldSpec{Kind: "fld", Name: "bodz", Typ: 't', Len: 5, Toks: []TokSpec{{Term: []byte("zzz"), Freq: 2 + d%2}}})
			}
			if d%30 == k {
				// the empty term opens the next field's dictionary
				doc.Fields = append(doc.Fields, FieldSpec{Kind: "fld", Name: "tag", Typ: 't', Len: 1, DV: true,
					Toks: []TokSpec{{Term: []byte{}, Freq: 2, Locs: []LocSpec{{Pos: 1, Start: d, End: d}, {Pos: 2, Start: d + 1, End: d + 1}}}}})
			}
			b.Docs = append(b.Docs, doc)
		}
		g.emitBatch(b)
		s := g.fresh("s")
		g.emit("build %s %s", s, b.Name)
		g.newBuilt(s, b)
		segs = append(segs, s)
	}
	if nth == 6 {
		b := &BatchSpec{Name: g.fresh("b")}
		for d := 0; d < 4; d++ {
			id := []byte(fmt.Sprintf("%s-%d", b.Name, d))
			doc := DocSpec{ID: id, Plain: true}
			doc.Fields = append(doc.Fields, FieldSpec{Kind: "fld", Name: "_id", Typ: 't', Stored: true, Len: 1, Val: id, Toks: []TokSpec{{Term: id, Freq: 1}}})
			doc.Fields = append(doc.Fields, FieldSpec{Kind: "fld", Name: "body", Typ: 't', Len: 2, DV: true, Toks: []TokSpec{{Term: []byte("common"), Freq: 1}, {Term: []byte("zzz"), Freq: 1}}})
			doc.Fields = append(doc.Fields, FieldSpec{Kind: "fld", Name: "rare", Typ: 't', Len: 1, DV: true, Toks: []TokSpec{{Term: []byte(fmt.Sprintf("r%d", d)), Freq: 1}}})
			b.Docs = append(b.Docs, doc)
		}
		g.emitBatch(b)
		s := g.fresh("s")
		g.emit("build %s %s", s, b.Name)
		g.newBuilt(s, b)
		segs = append(segs, s)
	}
	var drops []string
	total := 0
	// 1st and 3rd big merge of a run: deletions take the survivors below 1024; 2nd: few deletions, so that a
	// term of every document stays above 1024 while its neighbour in the next field has a handful of hits
	crossing := ((g.chance(0.7) && nth != 1) || nth == 0 || nth == 2 || nth == 5) && nth != 3 && nth != 4 && nth != 6
	fewDrops := nth == 1
	for _, s := range segs {
		nd := g.ndocs[s]
		var xs []int
		frac := []float64{0, 0.15, 0.3, 0.5}[g.r.Intn(4)]
		if fewDrops {
			frac = 0.03
		}
		if pre := sumInts(sizes); crossing && pre > 1024 {
			// deletions that take the survivors below 1024 (every document has the term "common")
			frac = 1 - float64(900+g.r.Intn(100))/float64(pre)
		}
		for d := 0; d < nd; d++ {
			if g.chance(frac) {
				xs = append(xs, d)
			}
		}
		if nth == 3 {
			// 4th big merge of a run: EXACTLY 1024 survivors, every one of them with the term "common"
			// (1024 is the first cardinality that takes two chunks in the cardinality-dependent mode)
			xs = []int{5, 100, 333}
		}
		if nth == 6 {
			xs = nil
			if nd > 100 {
				xs = []int{0, 1, 2, 3, 4, 5}
			}
		}
		if nth == 4 {
			if nd > 100 {
				xs = []int{0, 1, 2, 3, 4, 5, 6, 7, 8, 9}
			} else if len(drops) == 0 {
				xs = nil // the input without the field: nothing deleted
			} else {
				// two deletions here against ten in the big input: counted with the wrong input's
				// deletions the big input's terms have 1028 live documents instead of 1020
				xs = []int{0, 11}
			}
		}
		d := "nil"
		if len(xs) > 0 {
			d = intList(xs)
		}
		drops = append(drops, d)
		total += nd - len(xs)
	}
	if nth == 3 {
		g.st(fmt.Sprintf("bigmerge.survivors%d", total))
	}
	f := g.fresh("f")
	g.emit("merge %s segs=%s drops=%s", f, strList(segs), strings.Join(drops, "|"))
	if g.dumpfiles {
		g.emit("dumpfile %s", f)
	}
	m := g.fresh("m")
	g.emit("open %s %s", m, f)
	g.emit("q count %s", m)
	if nth == 6 {
		stn := g.fresh("st")
		for _, d := range []int{1023, 1024, 1025, 1027, 0, 1026} {
			g.emit("q dv %s %s fields=%s doc=%d", m, stn, strList([]string{"body", "rare"}), d)
		}
		g.emit("q dv %s %s fields=%s doc=%d", m, g.fresh("st"), strList([]string{"rare"}), 1024)
		g.st("bigmerge.lateDvField")
	}
	for _, term := range []string{"common", "even"} {
		g.emit("q post %s body %s ex=nil fl=111 ops=%s", m, hx([]byte(term)), g.nexts(total+1))
		g.emit("q post %s body %s ex=nil fl=100 ops=A%d,N,A%d,N,N,A%d,N", m, hx([]byte(term)), total/3, total/2, total-2)
		g.emit("q post %s body %s ex=%d,%d fl=111 ops=A%d,N,N,A%d,N", m, hx([]byte(term)), total/2, total/2+1, total/2-1, total-3)
	}
	g.emit("q dict %s body aut=all lo=* hi=* probe=-", m)
	// merged once more (by copying): the counts of the dictionary are still those of the survivors
	f2 := g.fresh("f")
	g.emit("merge %s segs=%s drops=nil", f2, m)
	g.emit("footer %s", f2)
	m2 := g.fresh("m")
	g.emit("open %s %s", m2, f2)
	g.emit("q dict %s body aut=all lo=* hi=* probe=-", m2)
	g.emit("q post %s body %s ex=nil fl=111 ops=N,A%d,N,N,A%d,N,N", m2, hx([]byte("common")), total/2, total-2)
	g.emit("close %s", m2)
	g.emit("q dict %s tag aut=all lo=* hi=* probe=.", m)
	g.emit("q post %s body0 . ex=nil fl=111 ops=%s", m, g.nexts(total/30+6))
	g.emit("q post %s body0 %s ex=nil fl=111 ops=N,A%d,N,N,A%d,N,N", m, hx([]byte("zzz")), total/2, total-2)
	g.emit("q post %s bodz %s ex=nil fl=111 ops=N,N,N,N,N", m, hx([]byte("zzz")))
	g.emit("q post %s tag . ex=nil fl=111 ops=%s", m, g.nexts(total/30+4))
	g.emit("q post %s body %s ex=nil fl=100 ops=N,A%d,N,N,A%d,N,N", m, hx([]byte("zzz")), total/2, total-2)
	g.emit("close %s", m)
	g.st("bigmerge")
}

func (g *Gen) genMerge(prop string, n int) error {
	if n == 0 {
		n = g.tierN(320, 6000)
	}
	for i := 0; i < n; i++ {
		g.emit("note case %d", i)
		if prop == "C06" && i%50 == 13 {
			g.bigMergeCase()
			continue
		}
		if prop == "C06" && i%211 == 80 {
			g.sparseDvMergeCase()
			g.st("case")
			continue
		}
		if prop == "C06" && i%100 == 11 {
			g.freq0MergeCase(func(m string) {
				g.dumpIndex(m)
				g.dumpDv(m, "-")
			})
			g.st("case")
			continue
		}
		if prop == "C05" && i%211 == 7 {
			g.manySurvivorsCase()
			g.st("case")
			continue
		}
		if prop == "C05" && i%60 == 17 {
			g.distinctMergesAtOnce()
			g.st("case")
			continue
		}
		if prop == "C05" && i%60 == 29 {
			g.oddMiddleInputCase()
			g.st("case")
			continue
		}
		if prop == "C06" && i%100 == 23 {
			// more than 128 fields, merged by copying and by re-encoding (locations that name field 127)
			g.wideSchemaCase(true)
			g.st("case")
			continue
		}
		depth := 1 + g.r.Intn(3)
		g.genMergeCase(nil, func(m string) {
			if prop == "C05" {
				g.emit("q count %s", m)
				g.emit("q fields %s", m)
				g.dumpStored(m)
			} else {
				g.dumpIndex(m)
				g.dumpDv(m, "-")
			}
		}, depth)
		g.st("case")
	}
	return nil
}

func subsets(n int) [][]int {
	var out [][]int
	for m := 0; m < 1<<n; m++ {
		var s []int
		for i := 0; i < n; i++ {
			if m&(1<<i) != 0 {
				s = append(s, i)
			}
		}
		out = append(out, s)
	}
	return out
}

// opSeqs enumerates every Next/Advance sequence of length <= L whose Advance
// targets are 0..N (validity, i.e. "strictly beyond the last returned doc",
// is decided by the Lean driver, which skips invalid sequences; to keep the
// transcript small we only emit ascending targets here).
func opSeqs(N, L int) [][]string {
	var out [][]string
	var rec func(cur []string, minT int)
	rec = func(cur []string, minT int) {
		if len(cur) > 0 {
			out = append(out, append([]string(nil), cur...))
		}
		if len(cur) == L {
			return
		}
		rec(append(cur, "N"), minT)
		for t := minT; t <= N; t++ {
			rec(append(cur, fmt.Sprintf("A%d", t)), t+1)
		}
	}
	rec(nil, 0)
	return out
}

// genC07: bounded-exhaustive postings iteration.  A segment is built whose
// field "f" has one term per non-empty subset P of the N documents (term
// name = bitmask), so every postings set occurs; documents carry varying
// freq / locations.  For the single-hit encoding the segment is merged once
// (terms with one doc, freq 1 and no locations become 1-hit entries).
func (g *Gen) genC07(n int) error {
	N, L := 4, 3
	if g.tier == "thorough" {
		N, L = 5, 4
	}
	if n > 0 {
		N = n
	}
	seqs := opSeqs(N, L)
	for _, cs := range []int{1, 2, 3, N} {
		g.emit("note exhaustive N=%d L=%d chunk=%d", N, L, cs)
		g.emit("cfg chunkmode=%d", cs)
		b := &BatchSpec{Name: g.fresh("b")}
		for d := 0; d < N; d++ {
			id := []byte(fmt.Sprintf("d%d", d))
			doc := DocSpec{ID: id}
			doc.Fields = append(doc.Fields, FieldSpec{Kind: "fld", Name: "_id", Typ: 't', Stored: true, Len: 1, Val: id, Toks: []TokSpec{{Term: id, Freq: 1}}})
			var toks []TokSpec
			var toksNoLoc []TokSpec
			for m := 1; m < 1<<N; m++ {
				if m&(1<<d) == 0 {
					continue
				}
				t := TokSpec{Term: []byte(fmt.Sprintf("t%02d", m)), Freq: 1 + (m+d)%3}
				toksNoLoc = append(toksNoLoc, TokSpec{Term: t.Term, Freq: 1})
				if (m+d)%4 != 0 {
					for j := 0; j < t.Freq; j++ {
						l := LocSpec{Pos: j + 1, Start: m, End: m + d}
						if (m+j)%3 == 0 {
							l.AP = []uint64{uint64(j), uint64(d)}
						}
						t.Locs = append(t.Locs, l)
					}
				}
				toks = append(toks, t)
			}
			doc.Fields = append(doc.Fields, FieldSpec{Kind: "fld", Name: "f", Typ: 't', Len: 3 + d, Toks: toks})
			doc.Fields = append(doc.Fields, FieldSpec{Kind: "fld", Name: "h", Typ: 't', Len: 2 + d, Toks: toksNoLoc})
			b.Docs = append(b.Docs, doc)
		}
		g.emitBatch(b)
		s := g.fresh("s")
		g.emit("build %s %s", s, b.Name)
		g.newBuilt(s, b)
		f := g.fresh("f")
		g.emit("persist %s %s", s, f)
		o := g.fresh("o")
		g.emit("open %s %s", o, f)
		g.alias(o, s)
		f2 := g.fresh("f")
		g.emit("merge %s segs=%s drops=nil", f2, s)
		mm := g.fresh("m")
		g.emit("open %s %s", mm, f2)
		g.alias(mm, s)
		exs := subsets(N)
		flags := []string{"111", "000", "110", "100", "001"}
		for m := 1; m < 1<<N; m++ {
			term := hx([]byte(fmt.Sprintf("t%02d", m)))
			for ei, ex := range exs {
				exs := intList(ex)
				if len(ex) == 0 {
					if ei%2 == 0 {
						exs = "nil"
					}
				}
				for si, seq := range seqs {
					fl := flags[(m+ei+si)%len(flags)]
					seg := s
					field := "f"
					switch (m + ei + si) % 4 {
					case 1:
						seg = o
					case 2:
						seg = mm
						field = "h"
					case 3:
						seg = mm
					}
					g.emit("q post %s %s %s ex=%s fl=%s ops=%s", seg, field, term, exs, fl, strings.Join(seq, ","))
					g.st("exh")
				}
			}
		}
		g.emit("close %s", o)
		g.emit("close %s", mm)
	}
	// several chunks of posting details: exclusions that move a term's live count across 1024
	g.emit("note big case")
	g.bigFrozenCase([]int{1026, 1025}[g.r.Intn(2)])
	// random larger instances with prealloc reuse histories and ReplaceActual
	nr := g.tierN(1500, 30000)
	for i := 0; i < nr; i++ {
		g.emit("note random case %d", i)
		g.setMode()
		cfg := g.defaultCfg()
		cfg.minDocs, cfg.maxDocs = 3, g.tierN(12, 40)
		cfg.maxFields = 3
		cfg.fields = cfg.fields[:1+g.r.Intn(len(cfg.fields))]
		b := g.randBatch(g.fresh("b"), cfg)
		g.emitBatch(b)
		s := g.fresh("s")
		g.emit("build %s %s", s, b.Name)
		g.newBuilt(s, b)
		segs := []string{s}
		if g.chance(0.6) {
			f := g.fresh("f")
			g.emit("merge %s segs=%s drops=%s", f, s, g.pick([]string{"nil", "-"}))
			m := g.fresh("m")
			g.emit("open %s %s", m, f)
			g.alias(m, s)
			segs = append(segs, m)
		}
		u := g.univ[s]
		fields := sortedFieldNames(u.Fields)
		nq := 10 + g.r.Intn(20)
		for q := 0; q < nq; q++ {
			seg := segs[g.r.Intn(len(segs))]
			field := fields[g.r.Intn(len(fields))]
			terms := sortedKeys(u.Fields[field])
			term := absentTerm()
			if len(terms) > 0 && !g.chance(0.1) {
				term = []byte(terms[g.r.Intn(len(terms))])
			}
			nd := g.ndocs[seg]
			ex := "nil"
			if g.chance(0.6) {
				ex = g.randDrops(nd)
			}
			fl := g.pick([]string{"111", "000", "110", "100", "010", "001", "101"})
			var ops []string
			last := -1
			no := g.r.Intn(nd + 3)
			for k := 0; k < no; k++ {
				if g.chance(0.5) {
					ops = append(ops, "N")
					last++ // conservative: a Next returns something > last
				} else {
					t := last + 1 + g.r.Intn(4)
					ops = append(ops, fmt.Sprintf("A%d", t))
					last = t
				}
			}
			if g.chance(0.06) {
				// a target beyond every 32-bit document number ends the iteration
				ops = append(ops, fmt.Sprintf("A%d", uint64(1)<<32+uint64(g.r.Intn(nd+2))), "N", "N")
			}
			line := fmt.Sprintf("q post %s %s %s ex=%s fl=%s", seg, field, hx(term), ex, fl)
			if g.chance(0.7) {
				line += fmt.Sprintf(" pl=p%d it=i%d", g.r.Intn(2), g.r.Intn(2))
				g.st("rand.prealloc")
			}
			if g.chance(0.2) {
				line += " replace=" + g.pick([]string{"*", "sub:0", fmt.Sprintf("sub:%d", g.r.Intn(1<<16)), fmt.Sprintf("sub:%d", g.r.Intn(1<<16))})
				g.st("rand.replace")
			}
			g.emit("%s ops=%s", line, strList(ops))
			g.st("rand")
		}
		// a list kept by the caller stays what it was when its iterator is recycled for another list
		for _, seg := range segs {
			field := fields[g.r.Intn(len(fields))]
			terms := sortedKeys(u.Fields[field])
			if len(terms) < 2 {
				continue
			}
			nd := g.ndocs[seg]
			ta, tb := hx([]byte(terms[0])), hx([]byte(terms[len(terms)-1]))
			pa, pb, ix := g.fresh("p"), g.fresh("p"), g.fresh("i")
			g.emit("q post %s %s %s ex=nil fl=111 pl=%s it=%s ops=N", seg, field, ta, pa, ix)
			g.emit("q post %s %s %s ex=%s fl=111 pl=%s it=%s ops=N,N", seg, field, tb, intList([]int{g.r.Intn(nd)}), pb, ix)
			g.emit("q post %s %s %s ex=nil fl=111 pl=%s relist=1 ops=%s", seg, field, ta, pa, g.nexts(nd+1))
			g.emit("q post %s %s %s ex=nil fl=000 pl=%s it=%s relist=1 ops=%s", seg, field, ta, pa, ix, g.nexts(nd+1))
		}
		// the usual reuse pattern: a miss, a hit with the objects handed back, then a miss without prealloc
		for _, seg := range segs {
			field := fields[g.r.Intn(len(fields))]
			terms := sortedKeys(u.Fields[field])
			if len(terms) == 0 {
				continue
			}
			nd := g.ndocs[seg]
			g.emit("q post %s %s %s ex=nil fl=111 pl=pm it=im ops=N,N", seg, field, hx(absentTerm()))
			g.emit("q post %s %s %s ex=nil fl=111 pl=pm it=im ops=N", seg, field, hx([]byte(terms[g.r.Intn(len(terms))])))
			g.emit("q post %s %s %s ex=nil fl=111 ops=%s", seg, field, hx(absentTerm()), g.nexts(nd+1))
			g.emit("q post %s nosuchfield %s ex=nil fl=111 pl=pm it=im ops=%s", seg, hx([]byte(terms[0])), g.nexts(nd+1))
		}
		for _, sg := range segs[1:] {
			g.emit("close %s", sg)
		}
	}
	// postings of merged segments that span several chunks: the big input behind small ones that lack
	// the field / the terms (read with Next and Advance, with and without exclusions)
	g.forceBigVariant = 5
	g.bigMergeCase()
	// ... and one in which a field's first term, the empty one, has a handful of hits while the term
	// written just before it (the last of the previous field) has more than 1024
	g.forceBigVariant = 2
	g.bigMergeCase()
	g.forceBigVariant = 0
	return nil
}

func (g *Gen) genC08(n int) error {
	if n == 0 {
		n = g.tierN(320, 6000)
	}
	for i := 0; i < n; i++ {
		g.emit("note case %d", i)
		if i%50 == 9 {
			g.bigMergeCase()
			g.st("case")
			continue
		}
		if i%100 == 11 {
			g.freq0MergeCase(func(m string) {
				for _, f := range []string{"tags", "tagv", "_id"} {
					g.emit("q dict %s %s aut=all lo=* hi=* probe=%s", m, f, hxList([][]byte{[]byte("common"), []byte("late"), []byte("edge"), []byte("nope")}))
				}
			})
			g.st("case")
			continue
		}
		depth := g.r.Intn(3)
		body := func(seg string) {
			u := g.univ[seg]
			for _, f := range append(sortedFieldNames(u.Fields), "nosuchfield") {
				terms := sortedKeys(u.Fields[f])
				var probe [][]byte
				for _, t := range terms {
					probe = append(probe, []byte(t))
				}
				probe = append(probe, absentTerm(), []byte{})
				g.emit("q dict %s %s aut=all lo=* hi=* probe=%s", seg, f, hxList(probe))
				auts := []string{"none", "exact:" + hx([]byte("ab")), "prefix:" + hx([]byte("a")), "prefix:.",
					"re:" + hx([]byte("a.*")), "re:" + hx([]byte("(ab|b).*")), "lev:" + hx([]byte("ab")) + ":1", "lev:" + hx([]byte("abc")) + ":2"}
				if len(terms) > 0 {
					auts = append(auts, "exact:"+hx([]byte(terms[g.r.Intn(len(terms))])))
				}
				for _, a := range auts {
					au, err := mkAutomaton(a)
					if err != nil {
						continue
					}
					var acc [][]byte
					for _, t := range terms {
						if autAccepts(au, []byte(t)) {
							acc = append(acc, []byte(t))
						}
					}
					lo, hi := "*", "*"
					if g.chance(0.5) {
						lo, hi = g.randRange(terms)
					}
					g.emit("q dict %s %s aut=%s accept=%s lo=%s hi=%s probe=-", seg, f, a, hxList(acc), lo, hi)
					g.st("aut." + strings.SplitN(a, ":", 2)[0])
				}
				for k := 0; k < 4; k++ {
					lo, hi := g.randRange(terms)
					g.emit("q dict %s %s aut=all lo=%s hi=%s probe=-", seg, f, lo, hi)
				}
				// two iterators of one dictionary alive together
				lo1, hi1 := g.randRange(terms)
				lo2, hi2 := g.randRange(terms)
				g.emit("q dictpair %s %s lo1=%s hi1=%s lo2=%s hi2=%s", seg, f, lo1, hi1, lo2, hi2)
				// the counts reported above are sizes of postings lists: looked up through one recycled
				// list - a term that is not in the dictionary, one that is, absent ones again (also in a
				// field without a dictionary) - and compared with the enumeration just made
				if len(terms) > 0 && i%3 == 0 {
					pl := g.fresh("p")
					g.emit("q post %s %s %s ex=nil fl=000 pl=%s ops=N", seg, f, hx(absentTerm()), pl)
					g.emit("q post %s %s %s ex=nil fl=000 pl=%s ops=N,N", seg, f, hx([]byte(terms[len(terms)/2])), pl)
					g.emit("q post %s %s %s ex=nil fl=000 ops=N", seg, f, hx(absentTerm()))
					g.emit("q post %s nosuchfield %s ex=nil fl=000 ops=N", seg, hx([]byte(terms[0])))
					g.emit("q dict %s %s aut=all lo=* hi=* probe=%s", seg, f, hxList(probe))
				}
			}
		}
		if depth == 0 {
			g.setMode()
			cfg := g.defaultCfg()
			cfg.noLocs = 0.7
			b := g.randBatch(g.fresh("b"), cfg)
			g.emitBatch(b)
			if i%5 == 2 {
				// the application's field validator rejects this very batch first (nothing is built); the
				// retry - the same documents, validator gone - is a build like any other
				rej := ""
				for _, d := range b.Docs {
					for _, f := range d.Fields {
						if f.Kind == "fld" && f.Name != "_id" {
							rej = f.Name
						}
					}
				}
				if rej != "" {
					g.emit("validator reject:%s", rej)
					g.emit("build %s %s", g.fresh("x"), b.Name)
					g.emit("validator none")
					g.st("rejected-then-retry")
				}
			}
			s := g.fresh("s")
			g.emit("build %s %s", s, b.Name)
			g.newBuilt(s, b)
			body(s)
			g.st("prov.built")
		} else {
			g.genMergeCase(func(c *batchCfg) { c.noLocs = 0.7 }, body, depth)
			g.st(fmt.Sprintf("prov.merged%d", depth))
		}
		g.st("case")
	}
	return nil
}

// randRange returns a well-formed [lo, hi) with lo < hi (or one bound absent).
func (g *Gen) randRange(terms []string) (string, string) {
	cands := [][]byte{[]byte("!"), []byte("a"), []byte("aa"), []byte("ab"), []byte("b"), []byte("bz"), []byte("m"), []byte("zz"), []byte("zzz"), []byte("\xff")}
	for _, t := range terms {
		cands = append(cands, []byte(t))
	}
	// the empty key is a legitimate bound: ["", x) starts at the first key, [x, "") is empty
	cands = append(cands, []byte{})
	sort.Slice(cands, func(i, j int) bool { return string(cands[i]) < string(cands[j]) })
	a := g.r.Intn(len(cands))
	b := g.r.Intn(len(cands))
	if a > b {
		a, b = b, a
	}
	lo, hi := hx(cands[a]), hx(cands[b])
	if g.chance(0.15) {
		// an empty range: equal bounds, or start beyond end
		if g.chance(0.5) {
			return hi, hi
		}
		return hi, lo
	}
	if string(cands[a]) >= string(cands[b]) {
		if g.chance(0.5) {
			return lo, "*"
		}
		return "*", hi
	}
	switch g.r.Intn(4) {
	case 0:
		return "*", hi
	case 1:
		return lo, "*"
	}
	return lo, hi
}

func (g *Gen) genEnc(n int) error {
	if n == 0 {
		n = g.tierN(2400, 30000)
	}
	grid := []uint64{0, 1, 2, 3, 127, 128, 129, 1023, 1024, 1025, 2047, 2048, 2049, 3071, 3072, 5000, 16383, 16384, 1 << 20, 1<<31 - 1, 1 << 31, 1<<32 - 1, 1 << 32, 1<<63 - 1, 1 << 63, 1<<64 - 1}
	for _, m := range []uint64{0, 1, 2, 3, 7, 1023, 1024, 1025, 1026, 1027, 5000} {
		for _, c := range grid[:20] {
			for _, d := range grid[:20] {
				g.emit("enc chunksize mode=%d card=%d max=%d", m, c, d)
			}
		}
	}
	for _, x := range grid {
		g.emit("enc uvarint x=%d", x)
		g.emit("enc fhldec v=%d", x)
		g.emit("enc onehitdec v=%d", x)
		g.emit("enc syndec v=%d", x)
		for _, y := range grid {
			g.emit("enc onehit doc=%d norm=%d", x, y)
			if x < 1<<32 && y < 1<<32 {
				g.emit("enc syncode sid=%d doc=%d", x, y)
			}
		}
		if x < 1<<63 {
			g.emit("enc fhl freq=%d locs=0", x)
			g.emit("enc fhl freq=%d locs=1", x)
		}
	}
	for i := 0; i < n; i++ {
		switch g.r.Intn(6) {
		case 0:
			g.emit("enc uvarint x=%d", g.r.Uint64()>>uint(g.r.Intn(64)))
		case 1:
			k := g.r.Intn(6)
			lens := make([]uint64, k)
			for j := range lens {
				lens[j] = uint64(g.r.Intn(300))
			}
			g.emit("enc offsets lens=%s", u64List(lens, ","))
		case 2:
			cs := 1 + g.r.Intn(5)
			maxd := g.r.Intn(12)
			var adds []string
			d := 0
			for d <= maxd && len(adds) < 8 {
				if g.chance(0.6) {
					nv := 1 + g.r.Intn(4)
					vals := make([]uint64, nv)
					for j := range vals {
						vals[j] = g.r.Uint64() >> uint(g.r.Intn(64))
					}
					adds = append(adds, fmt.Sprintf("%d:%s", d, u64List(vals, ".")))
				}
				if g.chance(0.7) {
					d++
				}
			}
			a := "-"
			if len(adds) > 0 {
				a = strings.Join(adds, ";")
			}
			g.emit("enc intcoder cs=%d max=%d reuse=%s adds=%s", cs, maxd, b01(g.chance(0.5)), a)
		case 3:
			nb := g.r.Intn(14)
			buf := make([]byte, nb)
			for j := range buf {
				buf[j] = byte(g.r.Intn(256))
				if g.chance(0.5) || j == nb-1 {
					buf[j] &= 0x7f
				}
			}
			ops := ""
			for j := 0; j < 1+g.r.Intn(6); j++ {
				ops += g.pick([]string{"r", "s"})
			}
			g.emit("enc memreader buf=%s ops=%s", hx(buf), ops)
		case 4:
			cs := 1 + g.r.Intn(4)
			maxd := g.r.Intn(10)
			var adds []string
			for d := 0; d <= maxd; d++ {
				if g.chance(0.5) {
					v := make([]byte, g.r.Intn(30))
					for j := range v {
						v[j] = byte('a' + g.r.Intn(3))
					}
					adds = append(adds, fmt.Sprintf("%d:%s", d, hx(v)))
				}
			}
			a := "-"
			if len(adds) > 0 {
				a = strings.Join(adds, ";")
			}
			g.emit("enc content cs=%d max=%d prog=%s adds=%s", cs, maxd, b01(g.chance(0.5)), a)
		case 5:
			k := 1 + g.r.Intn(4)
			var its []string
			for j := 0; j < k; j++ {
				var keys []string
				for _, t := range termAlphabet {
					if g.chance(0.35) {
						keys = append(keys, string(t))
					}
				}
				sort.Strings(keys)
				var kvs []string
				for _, key := range keys {
					kvs = append(kvs, fmt.Sprintf("%s:%d", hx([]byte(key)), 1+g.r.Intn(50)))
				}
				if len(kvs) == 0 {
					its = append(its, "-")
				} else {
					its = append(its, strings.Join(kvs, ","))
				}
			}
			g.emit("enc enum its=%s", strings.Join(its, "|"))
		}
	}
	return nil
}

// bigFileCase: a file of more than 2 MiB (incompressible stored values), so that the index
// sections - dictionaries, doc values, their offsets - lie beyond offsets that need a 4-byte varint.
func (g *Gen) bigFileCase() {
	g.curMode = 1026
	g.emit("cfg chunkmode=1026")
	nd := 270 + g.r.Intn(20)
	b := &BatchSpec{Name: g.fresh("b")}
	for d := 0; d < nd; d++ {
		id := []byte(fmt.Sprintf("%s-%d", b.Name, d))
		doc := DocSpec{ID: id, Plain: true}
		doc.Fields = append(doc.Fields, FieldSpec{Kind: "fld", Name: "_id", Typ: 't', Stored: true, Len: 1, Val: id, Toks: []TokSpec{{Term: id, Freq: 1}}})
		seed := g.r.Intn(1 << 30)
		doc.Fields = append(doc.Fields, FieldSpec{Kind: "fld", Name: "blob", Typ: 't', Stored: true, Len: 0,
			Rnd: fmt.Sprintf("%d:%d", seed, 8192), Val: rndBytes(seed, 8192)})
		toks := []TokSpec{{Term: []byte(fmt.Sprintf("t%d", d%7)), Freq: 1}, {Term: []byte("all"), Freq: 2, Locs: []LocSpec{{Pos: 1, Start: 0, End: 3}, {Pos: 2, Start: 4, End: 7}}}}
		doc.Fields = append(doc.Fields, FieldSpec{Kind: "fld", Name: "body", Typ: 't', Len: 3, DV: true, Toks: toks})
		b.Docs = append(b.Docs, doc)
	}
	g.emitBatch(b)
	s := g.fresh("s")
	g.emit("build %s %s", s, b.Name)
	g.newBuilt(s, b)
	f := g.fresh("f")
	g.emit("persist %s %s", s, f)
	g.emit("footer %s mode=1026 docs=%d", f, nd)
	o := g.fresh("o")
	g.emit("open %s %s", o, f)
	g.alias(o, s)
	for _, seg := range []string{s, o} {
		g.emit("q count %s", seg)
		g.emit("q fields %s", seg)
		g.emit("q dvfields %s", seg)
		g.emit("q dict %s body aut=all lo=* hi=* probe=-", seg)
		g.emit("q post %s body %s ex=nil fl=111 ops=%s", seg, hx([]byte("all")), g.nexts(nd+1))
		st := g.fresh("st")
		for _, d := range []int{0, 1, nd / 2, nd - 1} {
			g.emit("q dv %s %s fields=body,_id,blob doc=%d", seg, st, d)
			g.emit("q docid %s %d", seg, d)
		}
		g.emit("q stored %s %d stop=*", seg, nd-1)
		g.emit("q docnums %s ids=%s", seg, hxList([][]byte{b.Docs[0].ID, b.Docs[nd-1].ID}))
	}
	g.emit("close %s", o)
	g.emit("close %s", s)
	g.emit("rmfile %s", f)
	g.st("bigfile")
}

func sumInts(xs []int) int {
	t := 0
	for _, x := range xs {
		t += x
	}
	return t
}

// wideSchemaCase: more than 128 fields, so that field numbers need two-byte varints, with a
// composite field whose locations name fields on the far side of that boundary; hits are read,
// skipped by exclusion and skipped by Advance.
func (g *Gen) wideSchemaCase(files bool) {
	g.setMode()
	b := &BatchSpec{Name: g.fresh("b")}
	nf := 136 + g.r.Intn(8)
	switch g.stats["wideschema"] % 3 {
	case 1:
		nf = 126 // 128 fields with _id and _all: the first count whose varint takes two bytes
	case 2:
		nf = 125 + 2*g.r.Intn(2) // 127 or 129
	}
	for d := 0; d < 4; d++ {
		id := []byte(fmt.Sprintf("%s-%d", b.Name, d))
		doc := DocSpec{ID: id, Plain: true}
		doc.Fields = append(doc.Fields, FieldSpec{Kind: "fld", Name: "_id", Typ: 't', Stored: true, Len: 1, Val: id, Toks: []TokSpec{{Term: id, Freq: 1}}})
		var compLocs []LocSpec
		for k := 0; k < nf; k++ {
			name := fmt.Sprintf("f%03d", k)
			if d > 0 && k%3 != d%3 && k < nf-10 {
				continue
			}
			t := TokSpec{Term: []byte("x"), Freq: 1, Locs: []LocSpec{{Pos: 1 + k%5, Start: k, End: k + 1}}}
			doc.Fields = append(doc.Fields, FieldSpec{Kind: "fld", Name: name, Typ: 't', Stored: k == nf-1, Val: []byte("v"), Len: 1, DV: k%50 == 0, Toks: []TokSpec{t}})
			if k >= nf-8 || k < 2 {
				compLocs = append(compLocs, LocSpec{Src: name, Pos: 1 + k%5, Start: k, End: k + 1})
			}
		}
		doc.Fields = append(doc.Fields, FieldSpec{Kind: "comp", Name: "_all", Typ: 'c', Len: len(compLocs), Toks: []TokSpec{{Term: []byte("x"), Freq: len(compLocs), Locs: compLocs}}})
		b.Docs = append(b.Docs, doc)
	}
	g.emitBatch(b)
	s := g.fresh("s")
	g.emit("build %s %s", s, b.Name)
	g.newBuilt(s, b)
	segs := []string{s}
	if files {
		f := g.fresh("f")
		g.emit("persist %s %s", s, f)
		g.emit("dumpfile %s", f)
		o := g.fresh("o")
		g.emit("open %s %s", o, f)
		g.alias(o, s)
		segs = append(segs, o)
		mf := g.fresh("f")
		g.emit("merge %s segs=%s,%s drops=1|0,2", mf, o, s)
		g.emit("dumpfile %s", mf)
		m := g.fresh("m")
		g.emit("open %s %s", m, mf)
		g.ndocs[m] = 5
		segs = append(segs, m)
		// and once with an input of another field list, so that every posting is decoded and written
		// anew under the merged field numbers (the extra field sorts last: the others keep their numbers)
		bx := &BatchSpec{Name: g.fresh("b")}
		idx := []byte(bx.Name + "-0")
		bx.Docs = append(bx.Docs, DocSpec{ID: idx, Plain: true, Fields: []FieldSpec{
			{Kind: "fld", Name: "_id", Typ: 't', Stored: true, Len: 1, Val: idx, Toks: []TokSpec{{Term: idx, Freq: 1}}},
			{Kind: "fld", Name: "zzlast", Typ: 't', Len: 1, Toks: []TokSpec{{Term: []byte("x"), Freq: 1, Locs: []LocSpec{{Pos: 1, Start: 0, End: 1}}}}}}})
		g.emitBatch(bx)
		sx := g.fresh("s")
		g.emit("build %s %s", sx, bx.Name)
		g.newBuilt(sx, bx)
		mf2 := g.fresh("f")
		g.emit("merge %s segs=%s,%s drops=1|nil", mf2, o, sx)
		g.emit("dumpfile %s", mf2)
		m2 := g.fresh("m")
		g.emit("open %s %s", m2, mf2)
		g.ndocs[m2] = 4
		segs = append(segs, m2)
	}
	x := hx([]byte("x"))
	if g.reopenedOnly {
		segs = segs[1:] // files of the frozen corpus: only what the current reader opens is queried
	}
	for _, seg := range segs {
		g.emit("q fields %s", seg)
		for _, fn := range []string{"_all", fmt.Sprintf("f%03d", nf-1), fmt.Sprintf("f%03d", nf-9), "f000", "f124", "f125", "f126", "f127"} {
			g.emit("q post %s %s %s ex=nil fl=111 ops=N,N,N,N,N,N", seg, fn, x)
			g.emit("q post %s %s %s ex=0 fl=111 ops=N,N,N,N,N", seg, fn, x)
			g.emit("q post %s %s %s ex=1,2 fl=111 ops=N,N,N,N", seg, fn, x)
			g.emit("q post %s %s %s ex=nil fl=111 ops=A2,N,N,N", seg, fn, x)
			g.emit("q post %s %s %s ex=nil fl=001 ops=N,A3,N", seg, fn, x)
		}
		g.emit("q stored %s 0 stop=*", seg)
		g.emit("q dv %s - fields=f000,f050,f100 doc=0", seg)
	}
	for _, seg := range segs {
		if seg != s {
			g.emit("close %s", seg)
		}
	}
	g.st("wideschema")
}

// exactChunkCase: a document count that is an exact multiple of the doc-value chunk size.
func (g *Gen) exactChunkCase(nd int) {
	g.setMode()
	b := &BatchSpec{Name: g.fresh("b")}
	for d := 0; d < nd; d++ {
		id := []byte(fmt.Sprintf("%s-%d", b.Name, d))
		doc := DocSpec{ID: id, Plain: true}
		doc.Fields = append(doc.Fields, FieldSpec{Kind: "fld", Name: "_id", Typ: 't', Stored: true, Len: 1, Val: id, Toks: []TokSpec{{Term: id, Freq: 1}}})
		doc.Fields = append(doc.Fields, FieldSpec{Kind: "fld", Name: "body", Typ: 't', Len: 1, DV: true, Toks: []TokSpec{{Term: []byte(fmt.Sprintf("t%d", d%5)), Freq: 1}}})
		b.Docs = append(b.Docs, doc)
	}
	g.emitBatch(b)
	s := g.fresh("s")
	g.emit("build %s %s", s, b.Name)
	g.newBuilt(s, b)
	f := g.fresh("f")
	g.emit("persist %s %s", s, f)
	g.emit("footer %s mode=%d docs=%d", f, g.curMode, nd)
	o := g.fresh("o")
	g.emit("open %s %s", o, f)
	g.alias(o, s)
	for _, seg := range []string{s, o} {
		g.emit("q header %s", seg)
		g.emit("q count %s", seg)
		g.emit("q dvfields %s", seg)
		st := g.fresh("st")
		for _, d := range []int{0, 1, 1023, nd - 1, nd / 2} {
			g.emit("q dv %s %s fields=body,_id doc=%d", seg, st, d)
		}
		g.emit("q post %s body %s ex=nil fl=100 ops=N,N,A1020,N,N,N,N,N", seg, hx([]byte("t3")))
	}
	g.emit("close %s", o)
	g.emit("close %s", s)
	g.emit("rmfile %s", f)
	g.st("exactchunk")
}

// manySurvivorsCase: more than 4096 surviving documents (the stored-document index of the merged
// file is longer than any block it may be written in), by copying and by re-encoding.
func (g *Gen) manySurvivorsCase() {
	g.curMode = 1026
	g.emit("cfg chunkmode=1026")
	var segs []string
	for k := 0; k < 2; k++ {
		b := &BatchSpec{Name: g.fresh("b")}
		for d := 0; d < 2080+g.r.Intn(40); d++ {
			id := []byte(fmt.Sprintf("%s-%d", b.Name, d))
			doc := DocSpec{ID: id, Plain: true}
			doc.Fields = append(doc.Fields, FieldSpec{Kind: "fld", Name: "_id", Typ: 't', Stored: true, Len: 1, Val: id, Toks: []TokSpec{{Term: id, Freq: 1}}})
			doc.Fields = append(doc.Fields, FieldSpec{Kind: "fld", Name: "v", Typ: 't', Stored: true, Val: []byte(fmt.Sprintf("value-of-%s", id))})
			b.Docs = append(b.Docs, doc)
		}
		g.emitBatch(b)
		s := g.fresh("s")
		g.emit("build %s %s", s, b.Name)
		g.newBuilt(s, b)
		segs = append(segs, s)
	}
	for _, drops := range []string{"nil|nil", "5,7|nil"} {
		f := g.fresh("f")
		g.emit("merge %s segs=%s drops=%s", f, strList(segs), drops)
		g.emit("footer %s", f)
		m := g.fresh("m")
		g.emit("open %s %s", m, f)
		g.emit("q count %s", m)
		total := g.ndocs[segs[0]] + g.ndocs[segs[1]] - dropCount(strings.Split(drops, "|")[0])
		for _, d := range []int{0, 1, 2078, 4095, 4096, 4097, 4100 + g.r.Intn(50), total - 1, total} {
			g.emit("q stored %s %d stop=*", m, d)
			g.emit("q docid %s %d", m, d)
		}
		g.emit("close %s", m)
	}
	g.st("manysurvivors")
}

// sparseDvMergeCase: an input with more than 2048 documents in which a doc-value field has values in
// its first and last chunk only (a whole chunk in the middle is absent), merged with a small segment.
func (g *Gen) sparseDvMergeCase() {
	g.curMode = 1026
	g.emit("cfg chunkmode=1026")
	nd := 2100 + g.r.Intn(40)
	b := &BatchSpec{Name: g.fresh("b")}
	for d := 0; d < nd; d++ {
		id := []byte(fmt.Sprintf("%s-%d", b.Name, d))
		doc := DocSpec{ID: id, Plain: true}
		doc.Fields = append(doc.Fields, FieldSpec{Kind: "fld", Name: "_id", Typ: 't', Stored: true, Len: 1, Val: id, Toks: []TokSpec{{Term: id, Freq: 1}}})
		if d < 10 || d >= 2060 {
			doc.Fields = append(doc.Fields, FieldSpec{Kind: "fld", Name: "tag", Typ: 't', Len: 1, DV: true, Toks: []TokSpec{{Term: []byte(fmt.Sprintf("t%d", d%4)), Freq: 1}}})
		}
		b.Docs = append(b.Docs, doc)
	}
	g.emitBatch(b)
	s := g.fresh("s")
	g.emit("build %s %s", s, b.Name)
	g.newBuilt(s, b)
	b2 := &BatchSpec{Name: g.fresh("b")}
	for d := 0; d < 5; d++ {
		id := []byte(fmt.Sprintf("%s-%d", b2.Name, d))
		doc := DocSpec{ID: id, Plain: true}
		doc.Fields = append(doc.Fields, FieldSpec{Kind: "fld", Name: "_id", Typ: 't', Stored: true, Len: 1, Val: id, Toks: []TokSpec{{Term: id, Freq: 1}}})
		doc.Fields = append(doc.Fields, FieldSpec{Kind: "fld", Name: "tag", Typ: 't', Len: 1, DV: true, Toks: []TokSpec{{Term: []byte("x"), Freq: 1}}})
		b2.Docs = append(b2.Docs, doc)
	}
	g.emitBatch(b2)
	s2 := g.fresh("s")
	g.emit("build %s %s", s2, b2.Name)
	g.newBuilt(s2, b2)
	for _, d := range []int{0, 9, 10, 1500, 2059, 2060, nd - 1} {
		g.emit("q dv %s - fields=tag doc=%d", s, d)
	}
	if g.dumpfiles {
		fp := g.fresh("f")
		g.emit("persist %s %s", s, fp)
		g.emit("dumpfile %s", fp)
	}
	f := g.fresh("f")
	g.emit("merge %s segs=%s,%s drops=3|nil", f, s, s2)
	g.emit("footer %s", f)
	if g.dumpfiles {
		g.emit("dumpfile %s", f)
	}
	m := g.fresh("m")
	g.emit("open %s %s", m, f)
	g.emit("q count %s", m)
	g.emit("q dvfields %s", m)
	for _, d := range []int{0, 2, 3, 8, 9, 1500, 2058, 2059, 2060, nd - 2, nd - 1, nd, nd + 3} {
		src := fmt.Sprintf("%s:%d", s, d+1)
		if d < 3 {
			src = fmt.Sprintf("%s:%d", s, d)
		}
		if d >= nd-1 {
			src = fmt.Sprintf("%s:%d", s2, d-(nd-1))
		}
		g.emit("q dvspec %s - fields=tag doc=%d src=%s", m, d, src)
	}
	g.emit("close %s", m)
	g.st("sparsedv")
}

// distinctMergesAtOnce: several UNRELATED merges (different inputs, different outputs, all on the
// re-encoding path because every one of them has deletions) in flight at the same time; each was run
// alone first, and every concurrent run must reproduce the content digest of that run.
func (g *Gen) distinctMergesAtOnce() {
	g.setMode()
	var segs []string
	for k := 0; k < 5; k++ {
		cfg := g.defaultCfg()
		cfg.minDocs, cfg.maxDocs = 25, 40
		b := g.randBatch(g.fresh("b"), cfg)
		// stored values with array positions of every size, different in every segment
		for d := range b.Docs {
			b.Docs[d].Fields = append(b.Docs[d].Fields, FieldSpec{Kind: "fld", Name: "arr", Typ: 't', Stored: true, Len: 0,
				Val: []byte(fmt.Sprintf("v%d-%d", k, d)), AP: []uint64{uint64(k*1000 + d), uint64(1)<<uint(7*(k+1)) + uint64(d), uint64(d)}})
		}
		g.emitBatch(b)
		s := g.fresh("s")
		g.emit("build %s %s", s, b.Name)
		g.newBuilt(s, b)
		segs = append(segs, s)
	}
	var cmds []string
	for k := 0; k < 5; k++ {
		a, c := segs[k], segs[(k+1)%5]
		cmds = append(cmds, fmt.Sprintf("merge %s segs=%s,%s drops=%d|%d,%d digest=1", g.fresh("f"), a, c, k, k+1, k+7))
	}
	for _, c := range cmds {
		g.emit("%s", c)
	}
	g.emit("par %d rounds=4", 5)
	for _, c := range cmds {
		g.emit("%s", c)
	}
	g.emit("endpar")
	g.st("merges.distinctatonce")
}

// trailingEmptyDvChunkCase: an input whose doc-value field has values in its first 1024 documents
// only (a chunk with values directly followed by an empty one), merged behind a small input (so that
// its documents are not aligned with the chunks of the result) and, the other way round, in front of
// it; every survivor's values are visited in the result.
func (g *Gen) trailingEmptyDvChunkCase() {
	g.curMode = 1026
	g.emit("cfg chunkmode=1026")
	mk := func(nd, withVal int) string {
		b := &BatchSpec{Name: g.fresh("b")}
		for d := 0; d < nd; d++ {
			id := []byte(fmt.Sprintf("%s-%d", b.Name, d))
			doc := DocSpec{ID: id, Plain: true}
			doc.Fields = append(doc.Fields, FieldSpec{Kind: "fld", Name: "_id", Typ: 't', Stored: true, Len: 1, Val: id, Toks: []TokSpec{{Term: id, Freq: 1}}})
			if d < withVal {
				doc.Fields = append(doc.Fields, FieldSpec{Kind: "fld", Name: "cat", Typ: 't', Len: 1, DV: true, Toks: []TokSpec{{Term: []byte(fmt.Sprintf("c%d", d%6)), Freq: 1}}})
			}
			b.Docs = append(b.Docs, doc)
		}
		g.emitBatch(b)
		s := g.fresh("s")
		g.emit("build %s %s", s, b.Name)
		g.newBuilt(s, b)
		return s
	}
	a := mk(100, 100)
	bg := mk(2000, 1024)
	for _, d := range []int{0, 1023, 1024, 1999} {
		g.emit("q dv %s - fields=cat doc=%d", bg, d)
	}
	for _, c := range []struct {
		segs  []string
		drops string
		n     int
	}{{[]string{a, bg}, "nil|nil", 2100}, {[]string{bg, a}, "5|nil", 2099}, {[]string{bg}, "0,1,2", 1997}} {
		f := g.fresh("f")
		g.emit("merge %s segs=%s drops=%s", f, strList(c.segs), c.drops)
		m := g.fresh("m")
		g.emit("open %s %s", m, f)
		g.emit("q dvfields %s", m)
		st := g.fresh("st")
		for _, d := range []int{0, 50, 99, 100, 101, 600, 1020, 1021, 1022, 1023, 1024, 1025, 1100, 1122, 1123, 1124, 1125, 1500, 2047, 2048, c.n - 1} {
			if d < c.n {
				g.emit("q dv %s %s fields=cat doc=%d", m, st, d)
			}
		}
		g.emit("close %s", m)
	}
	g.emit("close %s", a)
	g.emit("close %s", bg)
	g.st("dv.trailingempty")
}

// oddMiddleInputCase: three and four inputs of which the first and the last have the same field list
// and one in the middle another one (a field more, a field less, other names), nothing deleted: the
// stored fields of every survivor come back under their own field names.
func (g *Gen) oddMiddleInputCase() {
	g.setMode()
	mk := func(fields []string, nd int) string {
		b := &BatchSpec{Name: g.fresh("b")}
		for d := 0; d < nd; d++ {
			id := []byte(fmt.Sprintf("%s-%d", b.Name, d))
			doc := DocSpec{ID: id, Plain: true}
			doc.Fields = append(doc.Fields, FieldSpec{Kind: "fld", Name: "_id", Typ: 't', Stored: true, Len: 1, Val: id, Toks: []TokSpec{{Term: id, Freq: 1}}})
			for _, fn := range fields {
				doc.Fields = append(doc.Fields, FieldSpec{Kind: "fld", Name: fn, Typ: 't', Stored: true, Len: 1, Val: []byte(fn + "-of-" + string(id)),
					Toks: []TokSpec{{Term: []byte(fn), Freq: 1, Locs: []LocSpec{{Pos: 1, Start: 0, End: len(fn)}}}}})
			}
			b.Docs = append(b.Docs, doc)
		}
		g.emitBatch(b)
		s := g.fresh("s")
		g.emit("build %s %s", s, b.Name)
		g.newBuilt(s, b)
		return s
	}
	a1 := mk([]string{"colour", "shape", "weight"}, 2)
	a2 := mk([]string{"colour", "shape", "weight"}, 3)
	more := mk([]string{"age", "colour", "shape", "weight"}, 2)
	less := mk([]string{"colour", "weight"}, 2)
	other := mk([]string{"colour", "size", "weight"}, 2)
	for _, segs := range [][]string{{a1, more, a2}, {a1, less, a2}, {a1, other, a2}, {a1, other, less, a2}, {more, a1, a2, more}} {
		drops := make([]string, len(segs))
		for k := range drops {
			drops[k] = []string{"nil", "-"}[k%2]
		}
		f := g.fresh("f")
		g.emit("merge %s segs=%s drops=%s", f, strList(segs), strings.Join(drops, "|"))
		m := g.fresh("m")
		g.emit("open %s %s", m, f)
		u := newUniverse()
		n := 0
		for _, sg := range segs {
			u.union(g.univ[sg], 0)
			n += g.ndocs[sg]
		}
		g.univ[m] = u
		g.ndocs[m] = n
		g.lineage[m] = map[string]bool{m: true}
		g.emit("q count %s", m)
		g.emit("q fields %s", m)
		g.dumpStored(m)
		g.emit("q post %s weight %s ex=nil fl=111 ops=%s", m, hx([]byte("weight")), g.nexts(n+1))
		g.emit("close %s", m)
	}
	g.st("merge.oddmiddle")
}
