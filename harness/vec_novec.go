//go:build !vectors

package main

type vecState struct{}

const vectorsCompiled = false

func (e *Exec) execVec(c *Cmd, sl *slots) (string, bool, bool) { return "", false, false }
func (e *Exec) vecArmFault(op string, n int)                   {}
func (e *Exec) vecArmHook(op string, n int, f func())          {}
func (e *Exec) vecAfterFault() string                          { return "" }
func (e *Exec) vecFired(op string, n int) bool                 { return false }
