package main

// zxh: verification harness for zapx.
//   zxh gen  -prop C01 -seed 7 -tier quick            -> script on stdout
//   zxh run  [-dir D] < script                        -> transcript on stdout, stats JSON on stderr (last line)
//   zxh tags                                          -> prints whether vectors are compiled in

import (
	"bufio"
	"encoding/json"
	"flag"
	"fmt"
	"os"
	"os/signal"
	"strings"
	"syscall"
)

func readCmds(f *os.File) []*Cmd {
	var cmds []*Cmd
	sc := bufio.NewScanner(f)
	sc.Buffer(make([]byte, 1<<20), 1<<28)
	no := 0
	for sc.Scan() {
		no++
		line := sc.Text()
		if strings.HasPrefix(line, "r ") || line == "r" {
			// observation lines of an earlier transcript are ignored on replay; in frozen
			// mode the recorded observation of a writer command is echoed
			if len(cmds) > 0 && cmds[len(cmds)-1].Rec == "" {
				cmds[len(cmds)-1].Rec = line
			}
			continue
		}
		if strings.HasPrefix(line, "env ") {
			continue
		}
		if c := parseLine(no, line); c != nil {
			cmds = append(cmds, c)
		}
	}
	return cmds
}

func main() {
	if len(os.Args) < 2 {
		fmt.Fprintln(os.Stderr, "usage: zxh gen|run|tags ...")
		os.Exit(2)
	}
	switch os.Args[1] {
	case "tags":
		fmt.Printf("vectors=%v\n", vectorsCompiled)
	case "gen":
		fs := flag.NewFlagSet("gen", flag.ExitOnError)
		prop := fs.String("prop", "C01", "property id")
		seed := fs.Int64("seed", 1, "seed")
		tier := fs.String("tier", "quick", "quick|thorough")
		n := fs.Int("n", 0, "number of cases (0 = tier default)")
		fs.Parse(os.Args[2:])
		w := bufio.NewWriterSize(os.Stdout, 1<<20)
		g := newGen(*seed, *tier, w)
		g.vectors = vectorsCompiled
		if err := g.generate(*prop, *n); err != nil {
			fmt.Fprintln(os.Stderr, err)
			os.Exit(2)
		}
		w.Flush()
		st, _ := json.Marshal(g.stats)
		fmt.Fprintln(os.Stderr, "GENSTATS "+string(st))
	case "run":
		fs := flag.NewFlagSet("run", flag.ExitOnError)
		dir := fs.String("dir", "", "scratch directory for segment files")
		frozen := fs.String("frozen", "", "directory of frozen .zap files: writer commands are not executed, their recorded observations are echoed, files are opened from here")
		keep := fs.Bool("keep", false, "keep the files written into -dir")
		fs.Parse(os.Args[2:])
		d := *dir
		if d == "" {
			var err error
			d, err = os.MkdirTemp("/verif/.cache", "run-")
			if err != nil {
				d, err = os.MkdirTemp("", "zxh-run-")
				if err != nil {
					panic(err)
				}
			}
			defer os.RemoveAll(d)
		} else {
			os.MkdirAll(d, 0o755)
		}
		// RLIMIT_FSIZE faults deliver SIGXFSZ; ignore it so that write returns EFBIG.
		signal.Ignore(syscall.SIGXFSZ)
		cmds := readCmds(os.Stdin)
		w := bufio.NewWriterSize(os.Stdout, 1<<20)
		e := newExec(d)
		e.frozen = *frozen
		_ = keep
		fmt.Fprintf(w, "env vectors=%s\n", b01(vectorsCompiled))
		e.run(cmds, w)
		w.Flush()
		st, _ := json.Marshal(e.stats)
		fmt.Fprintln(os.Stderr, "RUNSTATS "+string(st))
		if *dir == "" && !*keep {
			os.RemoveAll(d)
		}
	default:
		fmt.Fprintln(os.Stderr, "unknown subcommand")
		os.Exit(2)
	}
}
