package main

import (
	"bytes"
	"fmt"
	"strings"
)

func init() {
	extraGens["C10"] = (*Gen).genC10
	extraGens["C11"] = (*Gen).genC11
	extraGens["C12"] = (*Gen).genC12
	extraGens["C13"] = (*Gen).genC13
	extraGens["C17"] = (*Gen).genC17
	extraGens["C18"] = (*Gen).genC18
	extraGens["C20"] = (*Gen).genC20
}

// exclusion bitmaps over nd docs: all subsets when small, random otherwise
func (g *Gen) exclusions(nd int) []string {
	var out []string
	if nd <= 5 {
		for _, s := range subsets(nd) {
			if len(s) == 0 {
				out = append(out, "nil", "-")
			} else {
				out = append(out, intList(s))
			}
		}
		return out
	}
	out = append(out, "nil", "-")
	for i := 0; i < 8; i++ {
		out = append(out, g.randDrops(nd))
	}
	return out
}

// foreignExclusions: bitmaps that also name document numbers the segment does not have (a bitmap
// kept for a bigger, earlier segment, say): as many members as the segment has documents, or more
func (g *Gen) foreignExclusions(nd int) []string {
	var out []string
	if nd >= 2 {
		xs := []int{0}
		for k := 0; k < nd; k++ {
			xs = append(xs, 1000*(k+1))
		}
		out = append(out, intList(xs)) // one document of the segment, nd foreign ones
		ys := []int{nd - 1}
		for k := 0; k < nd-1; k++ {
			ys = append(ys, nd+k)
		}
		out = append(out, intList(ys)) // exactly nd members, one of them in the segment
	}
	out = append(out, intList([]int{nd, nd + 1, 70000}))
	return out
}

func (g *Gen) thesQueries(seg string, reuse bool) {
	u := g.univ[seg]
	nd := g.ndocs[seg]
	names := append(sortedFieldNames(u.Thes), "nothes")
	// an ordinary field of the segment is not a thesaurus
	for _, fn := range sortedFieldNames(u.Fields) {
		if u.Thes[fn] == nil && len(names) < 6 {
			names = append(names, fn)
		}
	}
	allLhs := map[string]bool{}
	for _, ts := range u.Thes {
		for t := range ts {
			allLhs[t] = true
		}
	}
	for _, th := range names {
		var probe [][]byte
		for _, t := range sortedKeys(u.Thes[th]) {
			probe = append(probe, []byte(t))
		}
		probe = append(probe, absentTerm())
		if u.Thes[th] == nil {
			for _, t := range sortedKeys(allLhs) {
				probe = append(probe, []byte(t))
			}
		}
		g.emit("q thesterms %s %s probe=%s", seg, th, hxList(probe))
		if ks := sortedKeys(u.Thes[th]); len(ks) > 0 {
			// listings that select some, one, or none of the terms: a key range starting after the last
			// term, one ending before the first, one around a single term, and the automaton that accepts nothing
			last, first := []byte(ks[len(ks)-1]), []byte(ks[0])
			g.emit("q thesterms %s %s probe=- lo=%s hi=*", seg, th, hx(append(append([]byte{}, last...), 0)))
			if len(first) > 0 {
				g.emit("q thesterms %s %s probe=- lo=* hi=%s", seg, th, hx(first))
			}
			g.emit("q thesterms %s %s probe=- lo=%s hi=%s", seg, th, hx(last), hx(append(append([]byte{}, last...), 0)))
			g.emit("q thesterms %s %s probe=- aut=none", seg, th)
			// bounds that are empty but present: nothing lies below the empty key, everything at or above it
			// (an interval that is empty AND whose end is itself a key is not asked for: vellum's iterator
			// hands out its start position without comparing it with the end, see DESIGN section 9)
			if len(first) > 0 {
				g.emit("q thesterms %s %s probe=- lo=* hi=.", seg, th)
			}
			g.emit("q thesterms %s %s probe=- lo=. hi=*", seg, th)
			if len(ks) > 1 {
				g.emit("q thesterms %s %s probe=- lo=%s hi=%s", seg, th, hx(append(append([]byte{}, first...), 0)), hx([]byte(ks[1])))
			}
		}
		if u.Thes[th] != nil {
			// synonym fields contribute nothing to the ordinary dictionaries
			g.emit("q dict %s %s aut=all lo=* hi=* probe=%s", seg, th, hxList(probe))
		}
		if reuse && len(probe) > 1 {
			// a recycled list and iterator: a miss, then a hit whose iteration is abandoned after one
			// pair, then fresh lookups that must be empty
			sl, si := g.fresh("l"), g.fresh("i")
			g.emit("q thes %s %s %s ex=nil sl=%s si=%s", seg, th, hx(absentTerm()), sl, si)
			g.emit("q thes %s %s %s ex=nil sl=%s si=%s take=1", seg, th, hx(probe[0]), sl, si)
			g.emit("q thes %s %s %s ex=nil", seg, th, hx([]byte("absent2")))
			g.emit("q thes %s nothes %s ex=nil", seg, hx(probe[0]))
			g.emit("q thes %s %s %s ex=nil sl=%s si=%s", seg, th, hx(absentTerm()), sl, si)
			g.emit("q thes %s %s %s ex=nil sl=%s si=%s", seg, th, hx(probe[0]), sl, si)
		}
		for _, t := range probe {
			for _, ex := range append(g.exclusions(nd), g.foreignExclusions(nd)...) {
				line := fmt.Sprintf("q thes %s %s %s ex=%s", seg, th, hx(t), ex)
				if reuse && g.chance(0.6) {
					line += fmt.Sprintf(" sl=l%d si=i%d", g.r.Intn(2), g.r.Intn(2))
				}
				g.emit("%s", line)
				g.st("thes.query")
			}
		}
	}
}

func (g *Gen) genC12(n int) error {
	if n == 0 {
		n = g.tierN(240, 3600)
	}
	for i := 0; i < n; i++ {
		g.emit("note case %d", i)
		g.setMode()
		cfg := g.defaultCfg()
		cfg.syn = true
		cfg.minDocs, cfg.maxDocs = 1, g.tierN(5, 9)
		b := g.randBatch(g.fresh("b"), cfg)
		g.emitBatch(b)
		s := g.fresh("s")
		g.emit("build %s %s", s, b.Name)
		g.newBuilt(s, b)
		g.thesQueries(s, true)
		f := g.fresh("f")
		g.emit("persist %s %s", s, f)
		o := g.fresh("o")
		g.emit("open %s %s", o, f)
		g.alias(o, s)
		g.thesQueries(o, true)
		if i%3 == 1 {
			// two holders: one leaves with Close, the other goes on asking the same questions
			g.emit("ref addref %s", o)
			g.emit("ref close %s", o)
			g.thesQueries(o, true)
			g.st("thes.afterfirstclose")
		}
		g.emit("close %s", o)
		if i%6 == 2 {
			g.mirroredThesCase()
		}
		g.st("case")
	}
	return nil
}

// mirroredThesCase: two batches of the same shape in which the definitions sit on swapped documents
// (so that everything lies at the same byte offsets in both segments); one list object and one
// iterator are carried from lookups in the first segment to lookups in the second and back.
func (g *Gen) mirroredThesCase() {
	g.emit("cfg chunkmode=1026")
	var segs []string
	for k := 0; k < 2; k++ {
		b := &BatchSpec{Name: g.fresh("b")}
		for d := 0; d < 2; d++ {
			id := []byte(fmt.Sprintf("mir%d", d))
			doc := DocSpec{ID: id, Plain: false}
			doc.Fields = append(doc.Fields, FieldSpec{Kind: "fld", Name: "_id", Typ: 't', Stored: true, Len: 1, Val: id, Toks: []TokSpec{{Term: id, Freq: 1}}})
			lhs := []string{"a", "b"}[(d+k)%2]
			doc.Fields = append(doc.Fields, FieldSpec{Kind: "syn", Name: "thesA", Defs: []SynDef{{LHS: []byte(lhs), RHS: [][]byte{[]byte("x")}}}})
			b.Docs = append(b.Docs, doc)
		}
		g.emitBatch(b)
		s := g.fresh("s")
		g.emit("build %s %s", s, b.Name)
		g.newBuilt(s, b)
		segs = append(segs, s)
	}
	sl, si := g.fresh("l"), g.fresh("i")
	for r := 0; r < 3; r++ {
		for _, t := range []string{"a", "b"} {
			for _, seg := range segs {
				g.emit("q thes %s thesA %s ex=nil sl=%s si=%s", seg, hx([]byte(t)), sl, si)
				g.emit("q thes %s thesA %s ex=0 sl=%s si=%s", seg, hx([]byte(t)), sl, si)
			}
		}
	}
	// the two merged, in both orders: each input contributes its own pairs, although the merge reads
	// both through one recycled list and finds them at the same file offset
	for _, order := range [][]string{{segs[0], segs[1]}, {segs[1], segs[0]}} {
		for _, dr := range []string{"nil|nil", "0|nil", "nil|1"} {
			mf := g.fresh("f")
			g.emit("merge %s segs=%s drops=%s", mf, strList(order), dr)
			m := g.fresh("m")
			g.emit("open %s %s", m, mf)
			g.emit("q thesterms %s thesA probe=-", m)
			for _, t := range []string{"a", "b"} {
				g.emit("q thes %s thesA %s ex=nil", m, hx([]byte(t)))
			}
			g.emit("close %s", m)
		}
	}
	g.emit("cfg chunkmode=%d", g.curMode)
	g.st("thes.mirrored")
}

func (g *Gen) genC13(n int) error {
	if n == 0 {
		n = g.tierN(240, 3600)
	}
	for i := 0; i < n; i++ {
		g.emit("note case %d", i)
		if i%60 == 3 {
			g.mirroredThesCase()
			g.st("case")
			continue
		}
		if i%60 == 7 {
			g.oddNamedThesCase()
			g.st("case")
			continue
		}
		if i%60 == 11 {
			g.longTermsThesCase()
			g.st("case")
			continue
		}
		depth := 1 + g.r.Intn(3)
		if i%5 == 1 {
			g.abandonBeforeMerge = true
		}
		g.sweepBeforeMerge = i%10 == 6
		g.genMergeCase(func(c *batchCfg) {
			c.syn = true
			if c.maxDocs > 5 {
				c.maxDocs = 5
			}
		}, func(m string) {
			g.thesQueries(m, true)
		}, depth)
		g.abandonBeforeMerge = false
		g.sweepBeforeMerge = false
		g.st("case")
	}
	return nil
}

// genC10: sequences of builds in one process (pooled builder), failed builds,
// concurrent builds; every result is dumped and must equal what its own batch dictates.
func (g *Gen) genC10(n int) error {
	if n == 0 {
		n = g.tierN(96, 1800)
	}
	for i := 0; i < n; i++ {
		g.emit("note case %d", i)
		g.setMode()
		if i%97 == 9 {
			// a name that is a synonym source in one batch is an ordinary field in the next (and back)
			for r := 0; r < 2; r++ {
				for kind := 0; kind < 2; kind++ {
					b := &BatchSpec{Name: g.fresh("b")}
					for d := 0; d < 2; d++ {
						id := []byte(fmt.Sprintf("%s-%d", b.Name, d))
						doc := DocSpec{ID: id, Plain: kind == 1}
						doc.Fields = append(doc.Fields, FieldSpec{Kind: "fld", Name: "_id", Typ: 't', Stored: true, Len: 1, Val: id, Toks: []TokSpec{{Term: id, Freq: 1}}})
						if kind == 0 {
							doc.Fields = append(doc.Fields, FieldSpec{Kind: "syn", Name: "palette", Defs: []SynDef{{LHS: []byte("red"), RHS: [][]byte{[]byte("crimson")}}}})
						} else {
							doc.Fields = append(doc.Fields, FieldSpec{Kind: "fld", Name: "palette", Typ: 't', Len: 2, DV: true,
								Toks: []TokSpec{{Term: []byte("red"), Freq: 1}, {Term: []byte("blue"), Freq: 1, Locs: []LocSpec{{Pos: 2, Start: 4, End: 8}}}}})
						}
						b.Docs = append(b.Docs, doc)
					}
					g.emitBatch(b)
					s := g.fresh("s")
					g.emit("build %s %s", s, b.Name)
					g.newBuilt(s, b)
					g.dumpAll(s)
				}
			}
			g.st("seq.namereuse")
			g.st("case")
			continue
		}
		if i%97 == 14 {
			// a build whose output exceeds a megabyte (1100 documents with 1 KiB of incompressible stored
			// bytes each), then small ones on the same plugin; every one is what its own batch says
			g.curMode = 1026
			g.emit("cfg chunkmode=1026")
			for _, nd := range []int{2, 1100, 3, 0, 2} {
				b := &BatchSpec{Name: g.fresh("b")}
				for d := 0; d < nd; d++ {
					id := []byte(fmt.Sprintf("%s-%d", b.Name, d))
					doc := DocSpec{ID: id, Plain: true}
					doc.Fields = append(doc.Fields, FieldSpec{Kind: "fld", Name: "_id", Typ: 't', Stored: true, Len: 1, Val: id, Toks: []TokSpec{{Term: id, Freq: 1}}})
					f := FieldSpec{Kind: "fld", Name: "blob", Typ: 't', Stored: true, Len: 1, Toks: []TokSpec{{Term: []byte(fmt.Sprintf("w%d", d%5)), Freq: 1}}}
					if nd > 100 {
						seed := 7000 + d
						f.Rnd = fmt.Sprintf("%d:%d", seed, 1024)
						f.Val = rndBytes(seed, 1024)
					} else {
						f.Val = []byte("small")
					}
					doc.Fields = append(doc.Fields, f)
					b.Docs = append(b.Docs, doc)
				}
				g.emitBatch(b)
				s := g.fresh("s")
				g.emit("build %s %s", s, b.Name)
				g.newBuilt(s, b)
				g.emit("q byteswritten %s", s)
				if nd > 100 {
					g.emit("q count %s", s)
					g.emit("q stored %s %d stop=*", s, nd-1)
					g.emit("q post %s blob %s ex=nil fl=100 ops=N,A%d,N", s, hx([]byte("w3")), nd-20)
				} else {
					g.dumpAll(s)
				}
			}
			g.st("seq.megabyte")
			g.st("case")
			continue
		}
		if i%97 == 4 {
			// batches whose doc values need different numbers of chunks, built one after the other
			// (the same size twice in a row, in the cardinality-dependent chunk mode; a term present in
			// more than 2048 documents - a postings bitmap of several containers - before a tiny batch)
			var segs []string
			g.curMode = 1026
			g.emit("cfg chunkmode=1026")
			same := 1100 + g.r.Intn(100)
			for _, nd := range []int{3, same, same, 2, 2100, 5} {
				b := &BatchSpec{Name: g.fresh("b")}
				for d := 0; d < nd; d++ {
					id := []byte(fmt.Sprintf("%s-%d", b.Name, d))
					doc := DocSpec{ID: id, Plain: true}
					doc.Fields = append(doc.Fields, FieldSpec{Kind: "fld", Name: "_id", Typ: 't', Stored: true, Len: 1, Val: id, Toks: []TokSpec{{Term: id, Freq: 1}}})
					doc.Fields = append(doc.Fields, FieldSpec{Kind: "fld", Name: "body", Typ: 't', Len: 3 + d%2, DV: true,
						Toks: []TokSpec{{Term: []byte(fmt.Sprintf("t%d", d%3)), Freq: 1}, {Term: []byte("all"), Freq: 2 + d%2}}})
					b.Docs = append(b.Docs, doc)
				}
				g.emitBatch(b)
				s := g.fresh("s")
				g.emit("build %s %s", s, b.Name)
				g.newBuilt(s, b)
				f := g.fresh("f")
				g.emit("persist %s %s", s, f)
				if nd < 10 {
					g.emit("dumpfile %s", f)
				}
				g.emit("q dvfields %s", s)
				for _, d := range []int{0, nd - 1, nd / 2} {
					g.emit("q dv %s - fields=body doc=%d", s, d)
				}
				if nd < 10 {
					g.dumpIndex(s)
				} else {
					// hits beyond the first 1024 documents, with their frequencies and norms
					g.emit("q post %s body %s ex=nil fl=111 ops=N,A1023,N,N,A%d,N", s, hx([]byte("all")), nd-1)
					g.emit("q post %s body %s ex=nil fl=111 ops=A1024,N,N", s, hx([]byte("t1")))
					g.emit("q post %s _id %s ex=nil fl=111 ops=N,N", s, hx([]byte(fmt.Sprintf("%s-%d", b.Name, 1030))))
				}
				segs = append(segs, s)
			}
			g.st("seq.dvchunks")
			g.st("case")
			continue
		}
		k := 2 + g.r.Intn(4)
		var segs []string
		for j := 0; j < k; j++ {
			cfg := g.defaultCfg()
			switch g.r.Intn(6) {
			case 0: // large, many fields, synonyms
				cfg.minDocs, cfg.maxDocs = 8, 16
				cfg.fields = fieldPool
				cfg.maxFields = 6
				cfg.syn = true
				cfg.vec = true
				g.st("seq.large")
			case 1: // tiny
				cfg.minDocs, cfg.maxDocs = 1, 2
				cfg.fields = cfg.fields[:1]
				cfg.maxFields = 1
				g.st("seq.small")
			case 2:
				cfg.minDocs, cfg.maxDocs = 0, 0
				g.st("seq.empty")
			case 3:
				cfg.syn = true
				g.st("seq.syn")
			default:
				g.st("seq.mid")
			}
			b := g.randBatch(g.fresh("b"), cfg)
			g.emitBatch(b)
			if g.chance(0.2) && len(b.Docs) > 0 {
				// a build rejected by the field validator (never returns its builder)
				rej := ""
				for _, d := range b.Docs {
					for _, f := range d.Fields {
						if f.Kind == "fld" && f.Name != "_id" {
							rej = f.Name
						}
					}
				}
				if rej != "" {
					g.emit("validator reject:%s", rej)
					g.emit("build %s %s", g.fresh("x"), b.Name)
					g.emit("validator none")
					g.st("seq.rejected")
				}
			}
			g.emit("interimpeek")
			s := g.fresh("s")
			g.emit("build %s %s", s, b.Name)
			g.newBuilt(s, b)
			g.emit("q byteswritten %s", s)
			segs = append(segs, s)
		}
		for _, s := range segs {
			g.dumpAll(s)
		}
		// concurrent builds of the same batches
		if g.chance(0.5) {
			var names, bnames []string
			for j, s := range segs {
				ns := g.fresh("p")
				names = append(names, ns)
				// batch names are b<k>: recover from order of creation
				_ = j
				g.alias(ns, s)
			}
			// the batches of this case are the last k fresh "b" names in order
			bnames = g.lastBatches(k)
			g.emit("parbuild segs=%s batches=%s rounds=%d", strList(names), strList(bnames), 1+g.r.Intn(3))
			for _, s := range names {
				g.dumpIndex(s)
				g.dumpStored(s)
			}
			g.st("seq.concurrent")
		}
		g.st("case")
	}
	return nil
}

// lastBatches is filled by emitBatch bookkeeping
func (g *Gen) lastBatches(k int) []string {
	if len(g.batchNames) < k {
		return g.batchNames
	}
	return g.batchNames[len(g.batchNames)-k:]
}

// genC11: many goroutines read one shared segment (heap and mmap) at once.
func (g *Gen) genC11(n int) error {
	if n == 0 {
		n = g.tierN(80, 1200)
	}
	for i := 0; i < n; i++ {
		g.emit("note case %d", i)
		if i%16 == 5 {
			g.concurrentMergesOfMerged()
			g.st("case")
			continue
		}
		if i == 2 {
			// several doc-value and posting chunks, two private visit states interleaved
			g.bigFrozenCase(1026)
			g.st("case")
			continue
		}
		if i%20 == 3 {
			g.dvWalkCase()
			g.st("case")
			continue
		}
		g.setMode()
		cfg := g.defaultCfg()
		cfg.syn = g.chance(0.5)
		cfg.minDocs = 2
		b := g.randBatch(g.fresh("b"), cfg)
		g.emitBatch(b)
		s := g.fresh("s")
		g.emit("build %s %s", s, b.Name)
		g.newBuilt(s, b)
		f := g.fresh("f")
		g.emit("persist %s %s", s, f)
		o := g.fresh("o")
		g.emit("open %s %s", o, f)
		g.alias(o, s)
		for _, seg := range []string{s, o} {
			// history: early-terminated visits shape the shared scratch pools
			for d := 0; d < g.ndocs[seg] && d < 3; d++ {
				g.emit("q stored %s %d stop=1", seg, d)
			}
			g.emit("poolprobe")
			g.emit("par %d rounds=%d", 4+g.r.Intn(5), 1+g.r.Intn(3))
			u := g.univ[seg]
			nd := g.ndocs[seg]
			for _, fn := range sortedFieldNames(u.Fields) {
				terms := sortedKeys(u.Fields[fn])
				g.emit("q dict %s %s aut=all lo=* hi=* probe=-", seg, fn)
				for ti, t := range terms {
					if ti%3 == 0 {
						// the usual reuse pattern: a miss, then a hit, handing the objects back each time
						g.emit("q post %s %s %s ex=nil fl=111 pl=p0 it=i0 ops=N,N", seg, fn, hx(absentTerm()))
					}
					pre := ""
					if ti%2 == 0 {
						pre = " pl=p0 it=i0"
					}
					g.emit("q post %s %s %s ex=%s fl=111%s ops=%s", seg, fn, hx([]byte(t)), g.pick([]string{"nil", "0", "-"}), pre, g.nexts(nd+1))
				}
				g.emit("q post %s %s %s ex=nil fl=111 ops=N,N", seg, fn, hx(absentTerm()))
			}
			for d := 0; d < nd; d++ {
				g.emit("q stored %s %d stop=* hold=1", seg, d)
				g.emit("q stored %s %d stop=1", seg, d)
				g.emit("q stored %s %d stop=2 hold=1", seg, d)
				g.emit("q docid %s %d", seg, d)
				g.emit("q dv %s - fields=%s doc=%d", seg, strList(sortedFieldNames(u.Fields)), d)
			}
			var ids [][]byte
			for _, id := range sortedKeys(u.IDs) {
				ids = append(ids, []byte(id))
			}
			g.emit("q docnums %s ids=%s", seg, hxList(ids))
			// every caller owns the answer it gets (and may add to it), also the empty one
			g.emit("q docnums %s ids=- mut=1", seg)
			g.emit("q docnums %s ids=%s mut=1", seg, hxList(ids[:1]))
			g.emit("q docnums %s ids=-", seg)
			for _, th := range sortedFieldNames(u.Thes) {
				for _, t := range sortedKeys(u.Thes[th]) {
					g.emit("q thes %s %s %s ex=nil", seg, th, hx([]byte(t)))
				}
			}
			g.emit("merge %s segs=%s drops=%s", g.fresh("pf"), seg, g.randDrops(nd))
			g.emit("endpar")
			g.emit("poolprobe")
			if i%4 == 2 && nd > 0 {
				// this segment as one of TWO inputs that share doc-value fields: afterwards its own doc
				// values (fresh visit states) are what they were, and the same merge can be repeated
				t, _ := g.smallSegForFaults()
				for r := 0; r < 2; r++ {
					g.emit("merge %s segs=%s,%s drops=nil|nil", g.fresh("pf"), seg, t)
					g.emit("merge %s segs=%s,%s drops=nil|0", g.fresh("pf"), t, seg)
					for d := 0; d < nd; d++ {
						g.emit("q dv %s - fields=%s doc=%d", seg, strList(sortedFieldNames(u.Fields)), d)
					}
					for d := 0; d < g.ndocs[t]; d++ {
						g.emit("q dv %s - fields=%s doc=%d", t, strList(sortedFieldNames(g.univ[t].Fields)), d)
					}
				}
				g.st("par.twoinputmerges")
			}
			if i%4 == 1 {
				// merges of this segment abandoned at various points (the close channel closes inside the
				// k-th progress report): the segment goes on answering as before, and merges again
				g.emit("cfg mergebuf=64")
				for _, k := range []int{1, 4, 9, 17, 33, 60, 100, 170} {
					g.emit("merge %s segs=%s drops=nil close=report:%d", g.fresh("pc"), seg, k+g.r.Intn(3))
				}
				g.emit("cfg mergebuf=%d", 1024*1024)
				g.dumpIndex(seg)
				g.emit("q docnums %s ids=%s", seg, hxList(ids))
				g.emit("merge %s segs=%s drops=nil", g.fresh("pf"), seg)
				g.st("par.cancelledmerges")
			}
			// private doc-value visit states, reused with a growing field list, by goroutines
			// running in step
			if fl := sortedFieldNames(u.Fields); len(fl) > 0 && nd > 0 {
				g.emit("par %d ordered=1", 4+g.r.Intn(5))
				stn := g.fresh("st")
				g.emit("q dv %s %s fields=%s doc=%d", seg, stn, strList(fl[:1]), 0)
				g.emit("q dv %s %s fields=%s doc=%d", seg, stn, strList(fl[:1]), nd-1)
				for v := 0; v < 6; v++ {
					g.emit("q dv %s %s fields=%s doc=%d", seg, stn, strList(fl[:1+g.r.Intn(len(fl))]), g.r.Intn(nd))
				}
				g.emit("endpar")
			}
		}
		if ths := sortedFieldNames(g.univ[o].Thes); len(ths) > 0 {
			// two holders: one looks up and leaves with Close, the other goes on reading the thesaurus
			g.emit("ref addref %s", o)
			for _, th := range ths {
				g.emit("q thesterms %s %s probe=-", o, th)
			}
			g.emit("ref close %s", o)
			for _, th := range ths {
				g.emit("q thesterms %s %s probe=-", o, th)
				for _, t := range sortedKeys(g.univ[o].Thes[th]) {
					g.emit("q thes %s %s %s ex=nil", o, th, hx([]byte(t)))
				}
			}
			g.emit("merge %s segs=%s drops=nil", g.fresh("pf"), o)
			g.emit("ref refs %s", o)
		}
		if i%4 == 3 {
			// a copy of the file in which one field's term dictionary no longer loads: calls on that
			// field fail - alone and among concurrent readers - and every other call answers as before
			bad := ""
			for _, fn := range sortedFieldNames(g.univ[o].Fields) {
				if fn != "_id" && len(g.univ[o].Fields[fn]) > 0 {
					bad = fn
					break
				}
			}
			if bad != "" {
				fb := g.fresh("fb")
				g.emit("corruptdict %s %s %s how=%s", fb, f, bad, g.pick([]string{"ver", "len0"}))
				ob := g.fresh("o")
				g.emit("open %s %s", ob, fb)
				g.alias(ob, s)
				someTerm := sortedKeys(g.univ[o].Fields[bad])[0]
				g.emit("q dict %s %s aut=all lo=* hi=* probe=-", ob, bad)
				g.emit("par %d rounds=2", 3+g.r.Intn(4))
				g.emit("q post %s %s %s ex=nil fl=111 ops=N,N", ob, bad, hx([]byte(someTerm)))
				for _, fn := range sortedFieldNames(g.univ[o].Fields) {
					g.emit("q dict %s %s aut=all lo=* hi=* probe=-", ob, fn)
				}
				var ids [][]byte
				for _, id := range sortedKeys(g.univ[o].IDs) {
					ids = append(ids, []byte(id))
				}
				g.emit("q docnums %s ids=%s", ob, hxList(ids))
				g.emit("q stored %s 0 stop=*", ob)
				g.emit("merge %s segs=%s drops=nil", g.fresh("pf"), ob)
				g.emit("endpar")
				g.dumpIndex(ob)
				g.emit("close %s", ob)
				g.st("baddict")
			}
		}
		g.emit("close %s", o)
		g.st("case")
	}
	return nil
}

func (g *Gen) smallSegForFaults() (string, *BatchSpec) {
	cfg := g.defaultCfg()
	cfg.minDocs = 1
	cfg.syn = g.chance(0.3)
	b := g.randBatch(g.fresh("b"), cfg)
	g.emitBatch(b)
	s := g.fresh("s")
	g.emit("build %s %s", s, b.Name)
	g.newBuilt(s, b)
	return s, b
}

func (g *Gen) genC17(n int) error {
	if n == 0 {
		n = g.tierN(48, 480)
	}
	g.emit("cfg mergebuf=%d", 64)
	defer g.emit("cfg mergebuf=%d", 1024*1024)
	for i := 0; i < n; i++ {
		g.emit("note case %d", i)
		g.emit("cfg mergebuf=%d", []int{16, 64, 256}[g.r.Intn(3)])
		g.setMode()
		s, _ := g.smallSegForFaults()
		step := 1
		if g.tier == "quick" {
			step = 3
		}
		g.emit("writetofaults %s step=%d", s, step)
		f := g.fresh("f")
		g.emit("persistfaults %s %s", s, f)
		g.emit("footer %s mode=%d docs=%d", f, g.curMode, g.ndocs[s])
		o := g.fresh("o")
		g.emit("open %s %s", o, f)
		g.alias(o, s)
		g.dumpIndex(o)
		s2, _ := g.smallSegForFaults()
		mf := g.fresh("f")
		d1, d2 := g.randDrops(g.ndocs[o]), g.randDrops(g.ndocs[s2])
		if i%6 == 1 {
			// unbuffered output (a non-positive buffer size falls back to the default) and faults that pass
			g.emit("cfg mergebuf=%d", []int{0, -1, 16}[g.r.Intn(3)])
			g.emit("mergefaults %s segs=%s,%s drops=%s|%s max=%d transienttail=%d", mf, o, s2, d1, d2, 60, 260)
		} else {
			g.emit("mergefaults %s segs=%s,%s drops=%s|%s max=%d", mf, o, s2, d1, d2, g.tierN(150, 600))
		}
		if i%4 == 2 {
			// cancellations over the whole merge, and at its very end together with a fault in the last flush
			g.emit("mergecancel %s segs=%s,%s drops=%s|%s max=30 faulttail=1", g.fresh("fx"), o, s2, d1, d2)
		}
		// a write fault and a cancellation in one merge: the file size is limited to about half of what
		// the merge writes AND the channel closes inside the k-th report, early, in the middle, at the
		// very end - whichever is noticed first, an error comes back and nothing is left
		for _, k := range []int{3, 40, 200, 100000} {
			g.emit("merge %s segs=%s,%s drops=%s|%s fsize=%d full=1000000 close=report:%d", g.fresh("fx"), o, s2, d1, d2, 150+g.r.Intn(200), k)
		}
		m := g.fresh("m")
		g.emit("open %s %s", m, mf)
		u := newUniverse()
		u.union(g.univ[o], 0)
		u.union(g.univ[s2], 0)
		g.univ[m] = u
		g.ndocs[m] = g.ndocs[o] + g.ndocs[s2] - dropCount(d1) - dropCount(d2)
		g.dumpIndex(m)
		g.dumpStored(m)
		g.emit("footer %s", mf)
		// success means a complete file whatever shape the merge has: one opened input without
		// deletions, one built input, the default chunk mode (public entry point) and others
		for _, one := range []string{o, s2} {
			for _, dr := range []string{"nil", "-", g.randDrops(g.ndocs[one])} {
				if g.chance(0.5) {
					g.emit("cfg chunkmode=1026")
				}
				mf1 := g.fresh("f")
				g.emit("merge %s segs=%s drops=%s", mf1, one, dr)
				g.emit("footer %s", mf1)
				m1 := g.fresh("m")
				g.emit("open %s %s", m1, mf1)
				g.emit("q header %s", m1)
				g.emit("q count %s", m1)
				g.emit("close %s", m1)
				g.emit("cfg chunkmode=%d", g.curMode)
			}
		}
		g.emit("close %s", m)
		g.emit("close %s", o)
		g.st("case")
	}
	return nil
}

func dropCount(d string) int {
	if d == "nil" || d == "-" {
		return 0
	}
	return len(strings.Split(d, ","))
}

func (g *Gen) genC18(n int) error {
	if n == 0 {
		n = g.tierN(48, 480)
	}
	defer g.emit("cfg mergebuf=%d", 1024*1024)
	for i := 0; i < n; i++ {
		g.emit("note case %d", i)
		g.emit("cfg mergebuf=%d", []int{16, 64, 4096}[g.r.Intn(3)])
		g.setMode()
		if i == 5 {
			// more than 1024 merged documents with doc values: chunks are flushed in the middle of
			// the doc-value pass, so the channel can close there too
			g.emit("cfg mergebuf=4096")
			var segs []string
			for k := 0; k < 2; k++ {
				b := &BatchSpec{Name: g.fresh("b")}
				for d := 0; d < 700; d++ {
					id := []byte(fmt.Sprintf("%s-%d", b.Name, d))
					doc := DocSpec{ID: id, Plain: true}
					doc.Fields = append(doc.Fields, FieldSpec{Kind: "fld", Name: "_id", Typ: 't', Stored: true, Len: 1, Val: id, Toks: []TokSpec{{Term: id, Freq: 1}}})
					doc.Fields = append(doc.Fields, FieldSpec{Kind: "fld", Name: "tag", Typ: 't', Len: 1, DV: true, Toks: []TokSpec{{Term: []byte(fmt.Sprintf("t%d", d%5)), Freq: 1}}})
					b.Docs = append(b.Docs, doc)
				}
				g.emitBatch(b)
				sg := g.fresh("s")
				g.emit("build %s %s", sg, b.Name)
				g.newBuilt(sg, b)
				segs = append(segs, sg)
			}
			g.emit("mergecancel %s segs=%s drops=3|nil max=%d tailfull=%d", g.fresh("f"), strList(segs), g.tierN(150, 20000), g.tierN(900, 3000))
			g.st("cancel.bigdv")
			g.st("case")
			continue
		}
		if i%6 == 2 {
			// one input, nothing deleted, the channel closed before the call - through the public entry
			// point (default chunk mode) and through the mode hook; also with a deletion, and in memory
			lone, _ := g.smallSegForFaults()
			for _, md := range []int{1026, 1024} {
				g.emit("cfg chunkmode=%d", md)
				for _, dr := range []string{"nil", "-", "0"} {
					g.emit("merge %s segs=%s drops=%s close=before", g.fresh("fl"), lone, dr)
					g.emit("merge %s segs=%s drops=%s close=beforebuf:2", g.fresh("fl"), lone, dr)
				}
			}
			g.emit("cfg chunkmode=%d", g.curMode)
			g.st("cancel.lone")
		}
		if g.vectors && i%3 == 1 {
			// the channel is closed from inside every engine call of a vector merge in turn
			g.emit("vreset")
			g.engFaultMergeCase(true)
			g.st("cancel.engine")
			g.st("case")
			continue
		}
		s1, _ := g.smallSegForFaults()
		s2, _ := g.smallSegForFaults()
		mf := g.fresh("f")
		d1, d2 := g.randDrops(g.ndocs[s1]), g.randDrops(g.ndocs[s2])
		if i%7 == 3 {
			// nothing survives: the closed channel must still be honoured
			all := func(n int) string {
				xs := make([]int, n)
				for k := range xs {
					xs[k] = k
				}
				return intList(xs)
			}
			d1, d2 = all(g.ndocs[s1]), all(g.ndocs[s2])
			g.st("cancel.zero-survivors")
		}
		g.emit("mergecancel %s segs=%s,%s drops=%s|%s max=%d", mf, s1, s2, d1, d2, g.tierN(200, 1000))
		m := g.fresh("m")
		g.emit("open %s %s", m, mf)
		u := newUniverse()
		u.union(g.univ[s1], 0)
		u.union(g.univ[s2], 0)
		g.univ[m] = u
		g.ndocs[m] = g.ndocs[s1] + g.ndocs[s2] - dropCount(d1) - dropCount(d2)
		g.dumpIndex(m)
		g.dumpStored(m)
		g.emit("close %s", m)
		// the inputs of all those abandoned merges still answer
		g.dumpIndex(s1)
		g.dumpIndex(s2)
		g.st("case")
	}
	return nil
}

// balanced sequences of +1 (addref) / -1 (decref or close) starting from count 1,
// staying >= 1 until the last op, which reaches 0.
func refSeqs(maxLen int) [][]int {
	var out [][]int
	var rec func(cur []int, cnt int)
	rec = func(cur []int, cnt int) {
		if cnt == 0 {
			out = append(out, append([]int(nil), cur...))
			return
		}
		if len(cur) == maxLen {
			return
		}
		rec(append(cur, 1), cnt+1)
		rec(append(cur, -1), cnt-1)
	}
	rec(nil, 1)
	return out
}

func (g *Gen) genC20(n int) error {
	maxLen := g.tierN(7, 11)
	if n > 0 {
		maxLen = n
	}
	g.setMode()
	cfg := g.defaultCfg()
	cfg.minDocs = 2
	cfg.syn = true
	b := g.randBatch(g.fresh("b"), cfg)
	// at least one thesaurus with a term
	b.Docs[0].Plain = false
	b.Docs[0].Fields = append(b.Docs[0].Fields, FieldSpec{Kind: "syn", Name: "thesA",
		Defs: []SynDef{{LHS: []byte("p"), RHS: [][]byte{[]byte("q"), []byte("r")}}}})
	g.emitBatch(b)
	s := g.fresh("s")
	g.emit("build %s %s", s, b.Name)
	g.newBuilt(s, b)
	f := g.fresh("f")
	g.emit("persist %s %s", s, f)
	// a file without a single document or field is a segment like any other
	be := &BatchSpec{Name: g.fresh("b")}
	g.emitBatch(be)
	se := g.fresh("s")
	g.emit("build %s %s", se, be.Name)
	g.newBuilt(se, be)
	fe := g.fresh("f")
	g.emit("persist %s %s", se, fe)
	seqs := refSeqs(maxLen)
	for si, seq := range seqs {
		g.emit("note case %d", si)
		o := g.fresh("o")
		if si%5 == 4 {
			// the same sequence on the empty file
			g.emit("open %s %s", o, fe)
			g.alias(o, se)
			g.emit("ref refs %s", o)
			g.emit("ref mapped %s", o)
			for k, d := range seq {
				if d == 1 {
					g.emit("ref addref %s", o)
				} else if (si+k)%2 == 0 {
					g.emit("ref decref %s", o)
				} else {
					g.emit("ref close %s", o)
				}
				if k < len(seq)-1 {
					g.emit("q count %s", o)
					g.emit("ref refs %s", o)
					g.emit("ref mapped %s", o)
				}
			}
			g.emit("ref mapped %s", o)
			g.st("seq.emptyfile")
			continue
		}
		g.emit("open %s %s", o, f)
		g.alias(o, s)
		g.emit("ref refs %s", o)
		g.emit("ref mapped %s", o)
		for k, d := range seq {
			// the segment stays fully readable while a reference is held
			if (si+k)%3 == 0 {
				u := g.univ[o]
				fn := sortedFieldNames(u.Fields)[0]
				g.emit("q dict %s %s aut=all lo=* hi=* probe=-", o, fn)
				g.emit("q stored %s 0 stop=*", o)
				g.emit("q docid %s 1", o)
				for _, th := range sortedFieldNames(u.Thes) {
					for _, t := range sortedKeys(u.Thes[th]) {
						g.emit("q thes %s %s %s ex=nil", o, th, hx([]byte(t)))
						break
					}
				}
			}
			if d == 1 {
				g.emit("ref addref %s", o)
			} else if (si+k)%2 == 0 {
				g.emit("ref decref %s", o)
			} else {
				g.emit("ref close %s", o)
			}
			if k < len(seq)-1 {
				g.emit("ref refs %s", o)
				g.emit("ref mapped %s", o)
			}
		}
		g.emit("ref mapped %s", o)
		g.st("seq")
	}
	// concurrent holders interleaved with readers
	for c := 0; c < g.tierN(3, 20); c++ {
		g.emit("note case conc%d", c)
		o := g.fresh("o")
		g.emit("open %s %s", o, f)
		g.alias(o, s)
		u := g.univ[o]
		fn := sortedFieldNames(u.Fields)[0]
		g.emit("par %d rounds=%d ordered=1", 4+g.r.Intn(8), 1+g.r.Intn(4))
		g.emit("ref addref %s", o)
		g.emit("q dict %s %s aut=all lo=* hi=* probe=-", o, fn)
		g.emit("ref addref %s", o)
		g.emit("q stored %s 0 stop=*", o)
		g.emit("ref decref %s", o)
		g.emit("q docid %s 1", o)
		g.emit("ref decref %s", o)
		g.emit("endpar")
		g.emit("ref refs %s", o)
		g.emit("ref mapped %s", o)
		g.emit("ref close %s", o)
		g.emit("ref mapped %s", o)
	}
	// sharers coming and going (the count moves between 1 and 2 again and again) while the
	// remaining holder reads dictionaries of several fields
	for c := 0; c < g.tierN(3, 12); c++ {
		g.emit("note case share%d", c)
		o := g.fresh("o")
		g.emit("open %s %s", o, f)
		g.alias(o, s)
		fns := sortedFieldNames(g.univ[o].Fields)
		g.emit("par %d rounds=%d", 2+g.r.Intn(2), g.tierN(40, 200))
		g.emit("ref addref %s", o)
		g.emit("ref decref %s", o)
		for k := 0; k < 5; k++ {
			g.emit("q dict %s %s aut=all lo=* hi=* probe=-", o, fns[k%len(fns)])
		}
		g.emit("endpar")
		g.emit("ref refs %s", o)
		g.emit("ref close %s", o)
		g.emit("ref mapped %s", o)
	}
	// the first lookups of a thesaurus made by several holders at once, then every reference dropped
	if ths := sortedFieldNames(g.univ[s].Thes); len(ths) > 0 {
		for c := 0; c < g.tierN(30, 150); c++ {
			g.emit("note case firstthes%d", c)
			o := g.fresh("o")
			g.emit("open %s %s", o, f)
			g.alias(o, s)
			k := 4 + g.r.Intn(8)
			for j := 0; j < k-1; j++ {
				g.emit("ref addref %s", o)
			}
			g.emit("par %d ordered=1", k)
			g.emit("q thesterms %s %s probe=-", o, ths[c%len(ths)])
			g.emit("ref decref %s", o)
			g.emit("endpar")
			g.emit("ref mapped %s", o)
		}
	}
	// the helper that looks a thesaurus address up takes no reference of its own, whatever the name is
	for c := 0; c < 3; c++ {
		g.emit("note case thesaddr%d", c)
		o := g.fresh("o")
		g.emit("open %s %s", o, f)
		g.alias(o, s)
		g.emit("ref addref %s", o)
		for _, nm := range append(sortedFieldNames(g.univ[s].Fields), "nosuchname", "thesA", "_id") {
			g.emit("q thesaddr %s %s", o, nm)
		}
		g.emit("ref refs %s", o)
		g.emit("ref decref %s", o)
		g.emit("ref close %s", o)
		g.emit("ref mapped %s", o)
	}
	// the mapping is taken away behind the segment's back: the final release reports the failed
	// munmap, and still closes the file
	for c := 0; c < 3; c++ {
		g.emit("note case sabotage%d", c)
		o := g.fresh("o")
		fs := g.fresh("f")
		g.emit("persist %s %s", s, fs)
		g.emit("open %s %s", o, fs)
		g.alias(o, s)
		g.emit("ref addref %s", o)
		g.emit("q count %s", o)
		g.emit("ref sabotage %s", o)
		g.emit("ref decref %s", o)
		g.emit("ref mapped %s", o)
		g.emit("ref %s %s", []string{"close", "decref", "close"}[c], o)
		g.emit("ref mapped %s", o)
	}
	// very many holders at once: the count has no ceiling below what its type holds
	{
		o := g.fresh("o")
		g.emit("note case manyholders")
		g.emit("open %s %s", o, f)
		g.alias(o, s)
		g.emit("ref addref %s n=70000", o)
		g.emit("ref refs %s", o)
		g.emit("ref decref %s n=65534", o)
		g.emit("ref refs %s", o)
		g.emit("ref mapped %s", o)
		g.emit("q count %s", o)
		g.emit("q stored %s 0 stop=*", o)
		g.emit("ref decref %s n=4466", o)
		g.emit("ref refs %s", o)
		g.emit("ref mapped %s", o)
		g.emit("q docid %s 0", o)
		g.emit("ref close %s", o)
		g.emit("ref mapped %s", o)
		g.st("seq.manyholders")
	}
	// opened segments as inputs of a merge: the merge neither keeps nor drops a reference of its inputs
	fcopy := g.fresh("f") // a second file with the same content (mappings are counted per path)
	g.emit("persist %s %s", s, fcopy)
	for c := 0; c < g.tierN(3, 10); c++ {
		g.emit("note case merge%d", c)
		g.emit("cfg chunkmode=1026")
		o1, o2, o3 := g.fresh("o"), g.fresh("o"), g.fresh("o")
		g.emit("open %s %s", o1, f)
		g.alias(o1, s)
		g.emit("open %s %s", o2, fcopy)
		g.alias(o2, s)
		g.emit("open %s %s", o3, fe)
		g.alias(o3, se)
		g.emit("ref addref %s", o2)
		g.emit("merge %s segs=%s drops=%s", g.fresh("mf"), strList([]string{o1, o2, o3, s}[:2+g.r.Intn(3)]), "nil|nil|nil|nil")
		// inputs in memory listed before, between and after the opened ones
		g.emit("merge %s segs=%s drops=nil|nil", g.fresh("mf"), strList([]string{s, o1}))
		g.emit("merge %s segs=%s drops=nil|nil|nil", g.fresh("mf"), strList([]string{o2, s, o1}))
		// streaming an opened segment: with a writer, and refused for lack of one
		g.emit("writeto %s %s", o1, g.fresh("w"))
		g.emit("writeto %s %s nilw=1", o1, g.fresh("w"))
		g.emit("writeto %s %s nilw=1", o2, g.fresh("w"))
		// merges that fail (abandoned before they start, at their k-th report, out of file size): the
		// inputs keep their references and everything they have loaded - thesauri included
		g.emit("merge %s segs=%s,%s drops=nil|nil close=before", g.fresh("mf"), o1, o2)
		g.emit("merge %s segs=%s,%s drops=nil|nil close=report:%d", g.fresh("mf"), o1, o2, 1+3*c)
		g.emit("merge %s segs=%s,%s drops=nil|nil fsize=%d full=100000", g.fresh("mf"), o1, o2, 10+40*c)
		for _, o := range []string{o1, o2, o3} {
			g.emit("ref refs %s", o)
			g.emit("ref mapped %s", o)
			g.emit("q count %s", o)
		}
		for _, o := range []string{o1, o2} {
			for _, th := range sortedFieldNames(g.univ[o].Thes) {
				g.emit("q thesterms %s %s probe=-", o, th)
				for _, t := range sortedKeys(g.univ[o].Thes[th]) {
					g.emit("q thes %s %s %s ex=nil", o, th, hx([]byte(t)))
				}
			}
			g.emit("q dict %s %s aut=all lo=* hi=* probe=-", o, sortedFieldNames(g.univ[o].Fields)[0])
		}
		g.emit("merge %s segs=%s,%s drops=nil|nil", g.fresh("mf"), o1, o2)
		g.emit("ref decref %s", o2)
		for _, o := range []string{o1, o2, o3} {
			g.emit("ref close %s", o)
			g.emit("ref mapped %s", o)
		}
	}
	g.emit("cfg chunkmode=%d", g.curMode)
	// the last references dropped by several goroutines at the same moment
	for c := 0; c < g.tierN(40, 400); c++ {
		g.emit("note case last%d", c)
		o := g.fresh("o")
		g.emit("open %s %s", o, f)
		g.alias(o, s)
		k := 2 + g.r.Intn(7)
		for j := 0; j < k-1; j++ {
			g.emit("ref addref %s", o)
		}
		g.emit("par %d ordered=1", k)
		g.emit("ref %s %s", g.pick([]string{"decref", "close"}), o)
		g.emit("endpar")
		g.emit("ref mapped %s", o)
	}
	// in-memory segment: closing is harmless
	g.emit("note case inmem")
	g.emit("ref addref %s", s)
	g.emit("ref decref %s", s)
	g.emit("q count %s", s)
	g.emit("close %s", s)
	g.emit("q count %s", s)
	g.dumpIndex(s)
	return nil
}

// concurrentMergesOfMerged: two merged segments (whose single-document terms are stored in the
// dictionary itself) holding the same terms under different field lengths, merged by many goroutines
// at once; every output must be the same.
func (g *Gen) concurrentMergesOfMerged() {
	g.emit("cfg chunkmode=1026")
	var ms []string
	for k := 0; k < 2; k++ {
		b := &BatchSpec{Name: g.fresh("b")}
		for d := 0; d < 3; d++ {
			id := []byte(fmt.Sprintf("%s-%d", b.Name, d))
			doc := DocSpec{ID: id, Plain: true}
			doc.Fields = append(doc.Fields, FieldSpec{Kind: "fld", Name: "_id", Typ: 't', Stored: true, Len: 1, Val: id, Toks: []TokSpec{{Term: id, Freq: 1}}})
			// one document per term, frequency 1, no locations; the field length differs per segment
			doc.Fields = append(doc.Fields, FieldSpec{Kind: "fld", Name: "kw", Typ: 't', Len: 3 + 40*k + 7*d,
				Toks: []TokSpec{{Term: []byte(fmt.Sprintf("solo%d", d)), Freq: 1}}})
			b.Docs = append(b.Docs, doc)
		}
		g.emitBatch(b)
		s := g.fresh("s")
		g.emit("build %s %s", s, b.Name)
		g.newBuilt(s, b)
		f := g.fresh("f")
		g.emit("merge %s segs=%s drops=nil", f, s)
		m := g.fresh("m")
		g.emit("open %s %s", m, f)
		g.alias(m, s)
		ms = append(ms, m)
	}
	pf := g.fresh("pf")
	g.emit("par %d rounds=%d", 6+g.r.Intn(6), g.tierN(10, 30))
	g.emit("merge %s segs=%s drops=nil|nil digest=1", pf, strList(ms))
	g.emit("q post %s kw %s ex=nil fl=111 ops=N,N", ms[0], hx([]byte("solo1")))
	g.emit("merge %s segs=%s drops=nil|0 digest=1", pf+"b", strList(ms))
	g.emit("endpar")
	ff := g.fresh("f")
	g.emit("merge %s segs=%s drops=nil|nil", ff, strList(ms))
	mm := g.fresh("m")
	g.emit("open %s %s", mm, ff)
	for d := 0; d < 3; d++ {
		g.emit("q post %s kw %s ex=nil fl=111 ops=N,N,N", mm, hx([]byte(fmt.Sprintf("solo%d", d))))
	}
	g.emit("close %s", mm)
	for _, m := range ms {
		g.emit("close %s", m)
	}
	g.emit("cfg chunkmode=%d", g.curMode)
	g.st("concurrent-merges")
}

// oddNamedThesCase: thesauri whose names coincide with other things of the segment - the document-id
// field `_id` (field number 0), an ordinary indexed field - built, merged with deletions, re-merged.
func (g *Gen) oddNamedThesCase() {
	g.setMode()
	var segs []string
	for k := 0; k < 2; k++ {
		b := &BatchSpec{Name: g.fresh("b")}
		for d := 0; d < 3; d++ {
			id := []byte(fmt.Sprintf("%s-%d", b.Name, d))
			doc := DocSpec{ID: id, Plain: false}
			doc.Fields = append(doc.Fields, FieldSpec{Kind: "fld", Name: "_id", Typ: 't', Stored: true, Len: 1, Val: id, Toks: []TokSpec{{Term: id, Freq: 1}}})
			doc.Fields = append(doc.Fields, FieldSpec{Kind: "fld", Name: "body", Typ: 't', Len: 1, Toks: []TokSpec{{Term: []byte("w"), Freq: 1}}})
			doc.Fields = append(doc.Fields, FieldSpec{Kind: "syn", Name: "_id", Defs: []SynDef{{LHS: []byte("big"), RHS: [][]byte{[]byte("large"), []byte(fmt.Sprintf("huge%d", k))}}}})
			if d == 1 {
				doc.Fields = append(doc.Fields, FieldSpec{Kind: "syn", Name: "body", Defs: []SynDef{{LHS: []byte("w"), RHS: [][]byte{[]byte("word")}}}})
			}
			b.Docs = append(b.Docs, doc)
		}
		g.emitBatch(b)
		s := g.fresh("s")
		g.emit("build %s %s", s, b.Name)
		g.newBuilt(s, b)
		segs = append(segs, s)
	}
	ask := func(seg string) {
		for _, th := range []string{"_id", "body", "nosuch"} {
			g.emit("q thesterms %s %s probe=-", seg, th)
		}
		g.emit("q thes %s _id %s ex=nil", seg, hx([]byte("big")))
		g.emit("q thes %s _id %s ex=0", seg, hx([]byte("big")))
		g.emit("q thes %s body %s ex=nil", seg, hx([]byte("w")))
		g.emit("q dict %s _id aut=all lo=* hi=* probe=-", seg)
		g.emit("q dict %s body aut=all lo=* hi=* probe=-", seg)
	}
	for _, s := range segs {
		ask(s)
	}
	f1 := g.fresh("f")
	g.emit("merge %s segs=%s drops=0|nil", f1, strList(segs))
	m1 := g.fresh("m")
	g.emit("open %s %s", m1, f1)
	ask(m1)
	f2 := g.fresh("f")
	g.emit("merge %s segs=%s drops=1", f2, m1)
	m2 := g.fresh("m")
	g.emit("open %s %s", m2, f2)
	ask(m2)
	g.emit("close %s", m2)
	g.emit("close %s", m1)
	g.st("thes.oddnames")
}

// longTermsThesCase: left-hand terms far longer than any scratch buffer a merge might keep for "the
// previous term" (41, 64 and 300 bytes; two of them equal in their first 40 and in their first 64
// bytes), defined in both inputs, merged with and without deletions and merged again.
func (g *Gen) longTermsThesCase() {
	g.setMode()
	long := func(n int, tail string) []byte {
		b := bytes.Repeat([]byte("phrase-of-many-words "), n/21+1)[:n]
		return append(b, tail...)
	}
	lhs := [][]byte{long(40, "a"), long(40, "b"), long(64, "x"), long(64, "y"), long(300, ""), []byte("short")}
	var segs []string
	for k := 0; k < 2; k++ {
		b := &BatchSpec{Name: g.fresh("b")}
		for d := 0; d < 3; d++ {
			id := []byte(fmt.Sprintf("%s-%d", b.Name, d))
			doc := DocSpec{ID: id, Plain: false}
			doc.Fields = append(doc.Fields, FieldSpec{Kind: "fld", Name: "_id", Typ: 't', Stored: true, Len: 1, Val: id, Toks: []TokSpec{{Term: id, Freq: 1}}})
			var defs []SynDef
			for li, l := range lhs {
				if (li+d+k)%2 == 0 {
					defs = append(defs, SynDef{LHS: l, RHS: [][]byte{[]byte(fmt.Sprintf("syn%d-%d", li, k)), []byte("common")}})
				}
			}
			doc.Fields = append(doc.Fields, FieldSpec{Kind: "syn", Name: "thesL", Defs: defs})
			b.Docs = append(b.Docs, doc)
		}
		g.emitBatch(b)
		s := g.fresh("s")
		g.emit("build %s %s", s, b.Name)
		g.newBuilt(s, b)
		segs = append(segs, s)
	}
	ask := func(seg string) {
		g.emit("q thesterms %s thesL probe=%s", seg, hxList(append(append([][]byte{}, lhs...), long(40, ""), long(64, ""))))
		for _, l := range lhs {
			g.emit("q thes %s thesL %s ex=nil", seg, hx(l))
		}
		g.emit("q thes %s thesL %s ex=nil", seg, hx(long(40, "")))
	}
	for _, s := range segs {
		ask(s)
	}
	for _, dr := range []string{"nil|nil", "0|nil", "1|0,2"} {
		f1 := g.fresh("f")
		g.emit("merge %s segs=%s drops=%s", f1, strList(segs), dr)
		m1 := g.fresh("m")
		g.emit("open %s %s", m1, f1)
		ask(m1)
		f2 := g.fresh("f")
		g.emit("merge %s segs=%s drops=nil|0", f2, strList([]string{m1, segs[0]}))
		m2 := g.fresh("m")
		g.emit("open %s %s", m2, f2)
		ask(m2)
		g.emit("close %s", m2)
		g.emit("close %s", m1)
	}
	g.st("thes.longterms")
}

// dvWalkCase: doc-value chunks of two documents; a field present in every document (its last chunk
// the largest) and one present in the first chunk only.  One visit state goes from a chunk with
// values to one without and back; then the segment serves as the input of a merge and two private
// states are used alternately on different chunks of it; the same on the opened file.
func (g *Gen) dvWalkCase() {
	g.setMode()
	g.emit("cfg dvchunk=2")
	b := &BatchSpec{Name: g.fresh("b")}
	for d := 0; d < 6; d++ {
		id := []byte(fmt.Sprintf("%s-%d", b.Name, d))
		doc := DocSpec{ID: id, Plain: true}
		doc.Fields = append(doc.Fields, FieldSpec{Kind: "fld", Name: "_id", Typ: 't', Stored: true, Len: 1, Val: id, Toks: []TokSpec{{Term: id, Freq: 1}}})
		term := []byte{byte('a' + d)}
		if d >= 4 {
			term = []byte(fmt.Sprintf("%060d", d))
		}
		doc.Fields = append(doc.Fields, FieldSpec{Kind: "fld", Name: "dense", Typ: 't', Len: 1, DV: true, Toks: []TokSpec{{Term: term, Freq: 1}}})
		if d < 2 {
			doc.Fields = append(doc.Fields, FieldSpec{Kind: "fld", Name: "sparse", Typ: 't', Len: 1, DV: true, Toks: []TokSpec{{Term: []byte(fmt.Sprintf("s%d", d)), Freq: 1}}})
		}
		b.Docs = append(b.Docs, doc)
	}
	g.emitBatch(b)
	s := g.fresh("s")
	g.emit("build %s %s", s, b.Name)
	g.newBuilt(s, b)
	fields := strList([]string{"dense", "sparse"})
	walk := func(seg string) {
		st := g.fresh("st")
		for _, d := range []int{0, 3, 1, 5, 0, 2, 1} {
			g.emit("q dv %s %s fields=%s doc=%d", seg, st, fields, d)
		}
		f := g.fresh("f")
		g.emit("merge %s segs=%s drops=nil", f, seg)
		sa, sb := g.fresh("st"), g.fresh("st")
		for k, d := range []int{0, 4, 1, 5, 0, 2, 1, 4, 0} {
			g.emit("q dv %s %s fields=%s doc=%d", seg, []string{sa, sb}[k%2], fields, d)
		}
	}
	walk(s)
	fp := g.fresh("f")
	g.emit("persist %s %s", s, fp)
	o := g.fresh("o")
	g.emit("open %s %s", o, fp)
	g.alias(o, s)
	walk(o)
	g.emit("close %s", o)
	g.emit("cfg dvchunk=1024")
	g.st("dv.walk")
}
